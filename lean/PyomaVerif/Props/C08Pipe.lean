import PyomaVerif.Lemmas.Covariance
import PyomaVerif.Props.C08
import PyomaVerif.Props.C12Dat
import PyomaVerif.Props.C07Bell
import PyomaVerif.Props.C05
import PyomaVerif.Props.C06C13
import Mathlib.Tactic.IntervalCases
import Mathlib.Tactic.FinCases
import Mathlib.Tactic.NormNum
/-!
# C08 — pipeline-level covariance theorems about the executable models

`Props/C08.lean` has the algebraic mechanisms.  Here they are carried through the model functions
of every stage (C12 Hankel builders, C01 realisation, `ac2mp` normalisation; C13 estimators, C06
pick, C07 bell/IFFT; C05 normal equations and companion; the pole maps), so that each statement
relates *the values the models return* for the original and for the transformed input.

Where a stage takes LAPACK output as a recorded input, the statement has the form "for every
admissible recorded factorisation of the original input (contracts `SvdOf`, `SqrtOf`, `QrOf`,
`PinvOf` — the ones C01 uses) the stated factorisation is admissible for the transformed input,
and with it the model's outputs are related as stated".  That LAPACK returns *this* admissible
factorisation (and not another one) is not claimed; for the SSI family any other admissible
factorisation leads to a similar state matrix (`C08_similarity_invariant`, C01).
-/
namespace PV.C08
open PV PV.Mat PV.Cov Matrix Finset

/-! ## 1. Gain, SSI family -/
section ssi_gain
variable {K : Type} [Field K] [LinearOrder K] [IsStrictOrderedRing K]

omit [LinearOrder K] [IsStrictOrderedRing K] in
/-- **Gain, Hankel stage (whole matrices).**  A common gain `g` on data and reference data scales
    the moment-matrix and the correlation Hankel matrices by `g²`, and the stacked past/future
    matrix of the data-driven method by `g`. -/
theorem C08_gain_hankel (Y Yref : Mat K) (p : Nat) (s g : K) (w : Nat → K) :
    hankMM (scale g Y) (scale g Yref) p s = scale (g * g) (hankMM Y Yref p s) ∧
    hankR (scale g Y) (scale g Yref) p w = scale (g * g) (hankR Y Yref p w) ∧
    hankYs (scale g Y) (scale g Yref) p s = scale g (hankYs Y Yref p s) :=
  ⟨hankMM_smul Y Yref p s g g, hankR_smul Y Yref p w g g, hankYs_smul Y Yref p s g⟩

omit [LinearOrder K] [IsStrictOrderedRing K] in
/-- **Gain, data-driven Hankel.**  If `(q, R)` is an admissible recorded QR factorisation of the
    stacked matrix `Ysᵀ` (contract of `C12_dat_model`: `Ysᵀ = q·R`, orthonormal columns, `R` upper
    triangular) then `(q, g·R)` is one of `(g·Ys)ᵀ`; the block the code cuts out scales by `g` and
    its Gram matrix (the projection identity of C12) by `g²`. -/
theorem C08_gain_dat {a b n : ℕ} (ys q : ℕ → ℕ → K) (R : Mat K) (g : K) (nref p : Nat)
    (hQR : ∀ (i : Fin (a + b)) (c : Fin n), ys i.1 c.1 = ∑ t : Fin (a + b), q c.1 t.1 * R.e t.1 i.1)
    (hTri : ∀ i j, j < i → R.e i j = 0) :
    (∀ (i : Fin (a + b)) (c : Fin n),
        g * ys i.1 c.1 = ∑ t : Fin (a + b), q c.1 t.1 * (scale g R).e t.1 i.1) ∧
    (∀ i j, j < i → (scale g R).e i j = 0) ∧
    hankDatOfR (scale g R) nref p = scale g (hankDatOfR R nref p) ∧
    PV.C12.datH a b (scale g R).e * (PV.C12.datH a b (scale g R).e)ᵀ
      = (g * g) • (PV.C12.datH a b R.e * (PV.C12.datH a b R.e)ᵀ) := by
  refine ⟨?_, ?_, rfl, ?_⟩
  · intro i c
    rw [hQR i c, Finset.mul_sum]
    apply Finset.sum_congr rfl; intro t _
    show g * (q c.1 t.1 * R.e t.1 i.1) = q c.1 t.1 * (g * R.e t.1 i.1)
    ring
  · intro i j hij
    show g * R.e i j = 0
    rw [hTri i j hij, mul_zero]
  · ext i j
    simp only [PV.C12.datH, Matrix.mul_apply, Matrix.transpose_apply, Matrix.of_apply, scale,
      Matrix.smul_apply, smul_eq_mul, Finset.mul_sum]
    apply Finset.sum_congr rfl; intro t _; ring

/-- **Gain, realisation by `SSI_fast`.**  Let `(U, S, V)` be admissible recorded SVD factors of `H`,
    `sq` the recorded square roots, `(Q, R, R⁻¹)` admissible recorded QR factors of
    `O↑ = Obs[:-l]`, `Obs = U[:, :ord]·diag(sq)` (`ord` = `ordmax`).  For the matrix `(ε·c)·H` (`c > 0`, `ε = ±1`;
    `c = g²`, `ε = 1` for the covariance-driven methods, `c = |g|`, `ε = sign g` for the data-driven
    one) and any `r > 0` with `r·r = c` (the value of `np.sqrt`): `(U, c·S, ε·V)`, `r·sq`,
    `(Q, r·R, r⁻¹·R⁻¹)` are admissible, and with them the observability matrix is `r·Obs`, the state
    matrix of order `n` is **identical** and the output matrix is `r·C`. -/
theorem C08_gain_realisation_fast (H U V : Mat K) (S sq : Nat → K) (N : Nat) (c ε r : K)
    (hc : 0 ≤ c) (hε : ε * ε = 1) (hr : 0 < r) (hrc : r * r = c)
    (hsvd : SvdOf H U V S N) (hsq : SqrtOf sq S N)
    (ord l M n : Nat) (Q R Rinv : Mat K) (hqr : QrOf (upPart (obsOf U sq ord) l) Q R Rinv M ord n) :
    SvdOf (scale (ε * c) H) U (scale ε V) (fun t => c * S t) N ∧
    SqrtOf (fun t => r * sq t) (fun t => c * S t) N ∧
    obsOf U (fun t => r * sq t) ord = scale r (obsOf U sq ord) ∧
    QrOf (upPart (obsOf U (fun t => r * sq t) ord) l) Q (scale r R) (scale r⁻¹ Rinv) M ord n ∧
    fastA (scale r⁻¹ Rinv) Q (dnPart (obsOf U (fun t => r * sq t) ord) l) n
      = fastA Rinv Q (dnPart (obsOf U sq ord) l) n ∧
    outC (obsOf U (fun t => r * sq t) ord) l n = scale r (outC (obsOf U sq ord) l n) := by
  have hO := obsOf_smul U sq ord r
  refine ⟨hsvd.smul_sign c ε hc hε, hsq.smul r c hr.le hrc, hO, ?_, ?_, ?_⟩
  · rw [hO, upPart_smul]; exact hqr.smul r hr.ne'
  · rw [hO, dnPart_smul]; exact fastA_smul Rinv Q _ n r hr.ne'
  · rw [hO, outC_smul]

/-- **Gain, realisation by the legacy `SSI`.**  The same with `pinv(O↑ₙ)` recorded per order:
    `r⁻¹·pinv` is an admissible recorded pseudo-inverse of `r·O↑ₙ`; state matrix identical,
    output matrix `r·C`. -/
theorem C08_gain_realisation_legacy (H U V : Mat K) (S sq : Nat → K) (N : Nat) (c ε r : K)
    (hc : 0 ≤ c) (hε : ε * ε = 1) (hr : 0 < r) (hrc : r * r = c)
    (hsvd : SvdOf H U V S N) (hsq : SqrtOf sq S N)
    (l M n : Nat) (Pinv : Mat K) (hp : PinvOf (obsOf U sq n) Pinv M n l) :
    SvdOf (scale (ε * c) H) U (scale ε V) (fun t => c * S t) N ∧
    SqrtOf (fun t => r * sq t) (fun t => c * S t) N ∧
    PinvOf (obsOf U (fun t => r * sq t) n) (scale r⁻¹ Pinv) M n l ∧
    legacyA (scale r⁻¹ Pinv) (obsOf U (fun t => r * sq t) n) l = legacyA Pinv (obsOf U sq n) l ∧
    outC (obsOf U (fun t => r * sq t) n) l n = scale r (outC (obsOf U sq n) l n) := by
  have hO := obsOf_smul U sq n r
  refine ⟨hsvd.smul_sign c ε hc hε, hsq.smul r c hr.le hrc, ?_, ?_, ?_⟩
  · rw [hO]; exact hp.smul r hr.ne'
  · rw [hO]; exact legacyA_smul Pinv _ l r hr.ne'
  · rw [hO, outC_smul]

end ssi_gain

/-- **Gain, mode shapes of `ac2mp`.**  The normalised shapes computed from `r·C` (`r ≠ 0`) and any
    recorded eigenvector matrix are those computed from `C`. -/
theorem C08_gain_shapes (C : Mat Rat) (Vec : Mat (Cpx Rat)) (r : Rat) (hr : r ≠ 0) :
    shapesOf (cplx (scale r C)) Vec = shapesOf (cplx C) Vec := by
  rw [cplx_smul]
  exact shapesOf_smul _ _ _ (fun h => hr (congrArg Cpx.re h))

/-- **C08_gain_ssi — from the data to `(A, fn, xi, normalised shapes)`, covariance-driven SSI.**
    `Y`, `Yref` the data, `g ≠ 0` the gain, `H = build_hank(Y, Yref, "cov_mm")`,
    `H' = build_hank(g·Y, g·Yref, "cov_mm")`.  For every admissible record `(U, S, V, sq, Q, R, R⁻¹)`
    of the run on `Y` and every `r > 0` with `r² = g²` (i.e. `r = |g|`), the record
    `(U, g²·S, V, r·sq, Q, r·R, r⁻¹·R⁻¹)` is admissible for the run on `g·Y`, and with it

    * the state matrix of order `n` is the same matrix — so `eig` is called on identical input:
      every recorded `(λ, |λ|, eigenvectors)` of one run is a record of the other, and `fnOf`, `xiOf`
      of it are the same numbers;
    * the normalised mode shapes `shapesOf` are identical for every recorded eigenvector matrix. -/
theorem C08_gain_ssi (Y Yref : Mat Rat) (p : Nat) (s g r : Rat) (hr : 0 < r) (hrg : r * r = g * g)
    (U V : Mat Rat) (S sq : Nat → Rat) (N : Nat)
    (hsvd : SvdOf (hankMM Y Yref p s) U V S N) (hsq : SqrtOf sq S N)
    (ord l M n : Nat) (Q R Rinv : Mat Rat) (hqr : QrOf (upPart (obsOf U sq ord) l) Q R Rinv M ord n)
    (Vec : Mat (Cpx Rat)) :
    SvdOf (hankMM (scale g Y) (scale g Yref) p s) U V (fun t => g * g * S t) N ∧
    SqrtOf (fun t => r * sq t) (fun t => g * g * S t) N ∧
    QrOf (upPart (obsOf U (fun t => r * sq t) ord) l) Q (scale r R) (scale r⁻¹ Rinv) M ord n ∧
    fastA (scale r⁻¹ Rinv) Q (dnPart (obsOf U (fun t => r * sq t) ord) l) n
      = fastA Rinv Q (dnPart (obsOf U sq ord) l) n ∧
    shapesOf (cplx (outC (obsOf U (fun t => r * sq t) ord) l n)) Vec
      = shapesOf (cplx (outC (obsOf U sq ord) l n)) Vec := by
  obtain ⟨h1, h2, _, h4, h5, h6⟩ := C08_gain_realisation_fast (hankMM Y Yref p s) U V S sq N
    (g * g) 1 r (mul_self_nonneg g) (one_mul 1) hr hrg hsvd hsq ord l M n Q R Rinv hqr
  refine ⟨?_, h2, h4, h5, ?_⟩
  · rw [hankMM_smul]
    have e : scale (1 : Rat) V = V := mat_ext rfl rfl (fun i j => one_mul _)
    rw [one_mul, e] at h1
    exact h1
  · rw [h6]; exact C08_gain_shapes _ Vec r hr.ne'

/-- the same for the correlation (`cov_R`) Hankel matrix -/
theorem C08_gain_ssi_R (Y Yref : Mat Rat) (p : Nat) (w : Nat → Rat) (g r : Rat) (hr : 0 < r)
    (hrg : r * r = g * g) (U V : Mat Rat) (S sq : Nat → Rat) (N : Nat)
    (hsvd : SvdOf (hankR Y Yref p w) U V S N) (hsq : SqrtOf sq S N)
    (ord l M n : Nat) (Q R Rinv : Mat Rat) (hqr : QrOf (upPart (obsOf U sq ord) l) Q R Rinv M ord n)
    (Vec : Mat (Cpx Rat)) :
    SvdOf (hankR (scale g Y) (scale g Yref) p w) U V (fun t => g * g * S t) N ∧
    SqrtOf (fun t => r * sq t) (fun t => g * g * S t) N ∧
    QrOf (upPart (obsOf U (fun t => r * sq t) ord) l) Q (scale r R) (scale r⁻¹ Rinv) M ord n ∧
    fastA (scale r⁻¹ Rinv) Q (dnPart (obsOf U (fun t => r * sq t) ord) l) n
      = fastA Rinv Q (dnPart (obsOf U sq ord) l) n ∧
    shapesOf (cplx (outC (obsOf U (fun t => r * sq t) ord) l n)) Vec
      = shapesOf (cplx (outC (obsOf U sq ord) l n)) Vec := by
  obtain ⟨h1, h2, _, h4, h5, h6⟩ := C08_gain_realisation_fast (hankR Y Yref p w) U V S sq N
    (g * g) 1 r (mul_self_nonneg g) (one_mul 1) hr hrg hsvd hsq ord l M n Q R Rinv hqr
  refine ⟨?_, h2, h4, h5, ?_⟩
  · rw [hankR_smul]
    have e : scale (1 : Rat) V = V := mat_ext rfl rfl (fun i j => one_mul _)
    rw [one_mul, e] at h1
    exact h1
  · rw [h6]; exact C08_gain_shapes _ Vec r hr.ne'

/-- **C08_gain_ssi, data-driven.**  `Hdat = hankDatOfR R` with `R` the recorded triangular factor;
    for the gain `g ≠ 0` the admissible factor is `g·R` (`C08_gain_dat`), the matrix is `g·Hdat`;
    with `r > 0`, `r² = |g|`, and `ε = sign g`: same state matrix, same normalised shapes. -/
theorem C08_gain_ssi_dat (Rf : Mat Rat) (nref p : Nat) (g r ε : Rat) (hr : 0 < r) (hε : ε * ε = 1)
    (hrg : ε * (r * r) = g) (U V : Mat Rat) (S sq : Nat → Rat) (N : Nat)
    (hsvd : SvdOf (hankDatOfR Rf nref p) U V S N) (hsq : SqrtOf sq S N)
    (ord l M n : Nat) (Q R Rinv : Mat Rat) (hqr : QrOf (upPart (obsOf U sq ord) l) Q R Rinv M ord n)
    (Vec : Mat (Cpx Rat)) :
    SvdOf (hankDatOfR (scale g Rf) nref p) U (scale ε V) (fun t => r * r * S t) N ∧
    SqrtOf (fun t => r * sq t) (fun t => r * r * S t) N ∧
    QrOf (upPart (obsOf U (fun t => r * sq t) ord) l) Q (scale r R) (scale r⁻¹ Rinv) M ord n ∧
    fastA (scale r⁻¹ Rinv) Q (dnPart (obsOf U (fun t => r * sq t) ord) l) n
      = fastA Rinv Q (dnPart (obsOf U sq ord) l) n ∧
    shapesOf (cplx (outC (obsOf U (fun t => r * sq t) ord) l n)) Vec
      = shapesOf (cplx (outC (obsOf U sq ord) l n)) Vec := by
  obtain ⟨h1, h2, _, h4, h5, h6⟩ := C08_gain_realisation_fast (hankDatOfR Rf nref p) U V S sq N
    (r * r) ε r (mul_self_nonneg r) hε hr rfl hsvd hsq ord l M n Q R Rinv hqr
  refine ⟨?_, h2, h4, h5, ?_⟩
  · rw [hankDatOfR_smul, ← hrg]; exact h1
  · rw [h6]; exact C08_gain_shapes _ Vec r hr.ne'

/-! ## 2. Channel permutation and orthogonal mixing, SSI family -/
section ssi_mix
variable {K : Type} [Field K] [LinearOrder K] [IsStrictOrderedRing K]

omit [LinearOrder K] [IsStrictOrderedRing K] in
/-- **Mixing, Hankel stage.**  Data `Q·Y`, reference data `Q_r·Yref` (for a permutation: the
    reference indices mapped consistently; all channels as references: `Q_r = Q`):
    `H' = (I⊗Q)·H·(I⊗Q_r)ᵀ` as whole matrices, for both covariance-driven layouts. -/
theorem C08_mix_hankel (Y Yref Q Qr : Mat K) (p : Nat) (s : K) (w : Nat → K)
    (hQc : Q.c = Y.r) (hQr : Q.r = Y.r) (hRc : Qr.c = Yref.r) (hRr : Qr.r = Yref.r) :
    hankMM (Mat.mul Q Y) (Mat.mul Qr Yref) p s
      = blockMix Y.r Q.e (blockMixCols Yref.r Qr.e (hankMM Y Yref p s)) ∧
    hankR (Mat.mul Q Y) (Mat.mul Qr Yref) p w
      = blockMix Y.r Q.e (blockMixCols Yref.r Qr.e (hankR Y Yref p w)) :=
  ⟨hankMM_mix Y Yref Q Qr p s hQc hQr hRc hRr, hankR_mix Y Yref Q Qr p w hQc hQr hRc hRr⟩

/-- **Mixing, realisation by `SSI_fast`.**  `Q`, `Q_r` orthogonal (`QᵀQ = I`), `H` with `nb` block
    rows of `l` channels and `nb'` block columns of `r` references, `O↑` with `mb` block rows.  For
    every admissible record `(U, S, V, sq, Q_qr, R, R⁻¹)` of `H`, the record
    `((I⊗Q)U, S, (I⊗Q_r)V, sq, (I⊗Q)Q_qr, R, R⁻¹)` is admissible for `(I⊗Q)·H·(I⊗Q_r)ᵀ`, the
    observability matrix is `(I⊗Q)·Obs`, the state matrix of order `n` is **identical** and the
    output matrix is `Q·C`. -/
theorem C08_mix_realisation_fast (H U V : Mat K) (S sq : Nat → K) (N nb l nb' r : Nat)
    (Q Qr : Nat → Nat → K) (hQ : OrthoOn l Q) (hQr : OrthoOn r Qr)
    (hr : H.r = nb * l) (hc : H.c = nb' * r)
    (hsvd : SvdOf H U V S N)
    (ord M mb n : Nat) (Qq R Rinv : Mat K) (hqr : QrOf (upPart (obsOf U sq ord) l) Qq R Rinv M ord n)
    (hM : M = mb * l) :
    SvdOf (blockMix l Q (blockMixCols r Qr H)) (blockMix l Q U) (blockMix r Qr V) S N ∧
    obsOf (blockMix l Q U) sq ord = blockMix l Q (obsOf U sq ord) ∧
    QrOf (upPart (obsOf (blockMix l Q U) sq ord) l) (blockMix l Q Qq) R Rinv M ord n ∧
    fastA Rinv (blockMix l Q Qq) (dnPart (obsOf (blockMix l Q U) sq ord) l) n
      = fastA Rinv Qq (dnPart (obsOf U sq ord) l) n ∧
    (∀ i, i < l → ∀ j, (outC (obsOf (blockMix l Q U) sq ord) l n).e i j
      = sumTo l (fun a => Q i a * (outC (obsOf U sq ord) l n).e a j)) := by
  have hO := obsOf_blockMix l Q U sq ord
  refine ⟨hsvd.mix nb l nb' r Q Qr hQ hQr hr hc, hO, ?_, ?_, ?_⟩
  · rw [hO, upPart_blockMix]; exact hqr.blockMix mb l Q hQ hM
  · rw [hO, dnPart_blockMix]
    exact fastA_blockMix mb l Q hQ Rinv Qq _ n (hqr.hQr.trans hM)
  · intro i hi j
    rw [hO]; exact outC_blockMix l Q _ n i j hi

/-- **Mixing, legacy `SSI`**: recorded pseudo-inverse `pinv·(I⊗Q)ᵀ`; same state matrix. -/
theorem C08_mix_realisation_legacy (U : Mat K) (sq : Nat → K) (l M mb n : Nat)
    (Q : Nat → Nat → K) (hQ : OrthoOn l Q) (Pinv : Mat K)
    (hp : PinvOf (obsOf U sq n) Pinv M n l) (hM : M = mb * l) :
    PinvOf (obsOf (blockMix l Q U) sq n) (blockMixCols l Q Pinv) M n l ∧
    legacyA (blockMixCols l Q Pinv) (obsOf (blockMix l Q U) sq n) l = legacyA Pinv (obsOf U sq n) l := by
  have hO := obsOf_blockMix l Q U sq n
  constructor
  · rw [hO]; exact hp.blockMix mb l Q hQ hM
  · rw [hO]; exact legacyA_blockMix mb l Q hQ Pinv _ (hp.hPc.trans hM)

/-- **C08_mix_ssi — from the data to `(A, C)`, covariance-driven SSI, orthogonal mixing.**
    `Y' = Q·Y`, `Yref' = Q_r·Yref` with orthogonal `Q`, `Q_r`: for every admissible record of the
    run on `(Y, Yref)` the mixed record is admissible for the run on `(Y', Yref')`; the state
    matrix of every order is identical (same poles, `fn`, `xi`), the output matrix — hence every
    un-normalised mode shape `C·v` — is multiplied by `Q`. -/
theorem C08_mix_ssi (Y Yref Q Qr : Mat K) (p : Nat) (s : K)
    (hQc : Q.c = Y.r) (hQr : Q.r = Y.r) (hRc : Qr.c = Yref.r) (hRr : Qr.r = Yref.r)
    (hQ : OrthoOn Y.r Q.e) (hQr' : OrthoOn Yref.r Qr.e)
    (U V : Mat K) (S sq : Nat → K) (N : Nat) (hsvd : SvdOf (hankMM Y Yref p s) U V S N)
    (ord M mb n : Nat) (Qq R Rinv : Mat K)
    (hqr : QrOf (upPart (obsOf U sq ord) Y.r) Qq R Rinv M ord n) (hM : M = mb * Y.r) :
    SvdOf (hankMM (Mat.mul Q Y) (Mat.mul Qr Yref) p s)
      (blockMix Y.r Q.e U) (blockMix Yref.r Qr.e V) S N ∧
    QrOf (upPart (obsOf (blockMix Y.r Q.e U) sq ord) Y.r) (blockMix Y.r Q.e Qq) R Rinv M ord n ∧
    fastA Rinv (blockMix Y.r Q.e Qq) (dnPart (obsOf (blockMix Y.r Q.e U) sq ord) Y.r) n
      = fastA Rinv Qq (dnPart (obsOf U sq ord) Y.r) n ∧
    (∀ i, i < Y.r → ∀ j, (outC (obsOf (blockMix Y.r Q.e U) sq ord) Y.r n).e i j
      = sumTo Y.r (fun a => Q.e i a * (outC (obsOf U sq ord) Y.r n).e a j)) := by
  obtain ⟨hr, hc⟩ := PV.C12.C12_shape_mm Y Yref p s
  obtain ⟨h1, _, h3, h4, h5⟩ := C08_mix_realisation_fast (hankMM Y Yref p s) U V S sq N (p + 1) Y.r
    (p + 1) Yref.r Q.e Qr.e hQ hQr' hr hc hsvd ord M mb n Qq R Rinv hqr hM
  refine ⟨?_, h3, h4, h5⟩
  rw [hankMM_mix Y Yref Q Qr p s hQc hQr hRc hRr]; exact h1

/-- **C08_perm_ssi — channel permutation.**  The channels listed in the order `σ 0, σ 1, …`, the
    references in the order `τ 0, τ 1, …` (`σ`, `τ` permutations): the recorded factors with the rows
    permuted inside every block are admissible, the state matrix is identical and the rows of
    the output matrix are permuted: `C'[i, :] = C[σ i, :]` — same poles, shapes permuted. -/
theorem C08_perm_ssi (Y Yref : Mat K) (p : Nat) (s : K) (σ σi τ τi : Nat → Nat)
    (hσ : PermOn Y.r σ σi) (hτ : PermOn Yref.r τ τi) (hl : 0 < Y.r) (hr : 0 < Yref.r)
    (U V : Mat K) (S sq : Nat → K) (N : Nat) (hsvd : SvdOf (hankMM Y Yref p s) U V S N)
    (ord M mb n : Nat) (Qq R Rinv : Mat K)
    (hqr : QrOf (upPart (obsOf U sq ord) Y.r) Qq R Rinv M ord n) (hM : M = mb * Y.r) :
    SvdOf (hankMM (permRows σ Y) (permRows τ Yref) p s)
      (blockMix Y.r (permQ σ) U) (blockMix Yref.r (permQ τ) V) S N ∧
    (∀ i j, (blockMix Y.r (permQ σ) U).e i j = U.e (i / Y.r * Y.r + σ (i % Y.r)) j) ∧
    QrOf (upPart (obsOf (blockMix Y.r (permQ σ) U) sq ord) Y.r) (blockMix Y.r (permQ σ) Qq) R Rinv M ord n ∧
    fastA Rinv (blockMix Y.r (permQ σ) Qq) (dnPart (obsOf (blockMix Y.r (permQ σ) U) sq ord) Y.r) n
      = fastA Rinv Qq (dnPart (obsOf U sq ord) Y.r) n ∧
    (∀ i, i < Y.r → ∀ j, (outC (obsOf (blockMix Y.r (permQ σ) U) sq ord) Y.r n).e i j
      = (outC (obsOf U sq ord) Y.r n).e (σ i) j) := by
  obtain ⟨h1, h3, h4, h5⟩ := C08_mix_ssi Y Yref ⟨Y.r, Y.r, permQ σ⟩ ⟨Yref.r, Yref.r, permQ τ⟩ p s
    rfl rfl rfl rfl (permQ_ortho hσ) (permQ_ortho hτ) U V S sq N hsvd ord M mb n Qq R Rinv hqr hM
  refine ⟨?_, fun i j => blockMix_perm Y.r σ hσ.lt U i j hl, h3, h4, ?_⟩
  · rw [hankMM_permRows Y Yref p s σ τ hσ.lt hτ.lt hl hr]; exact h1
  · intro i hi j
    rw [h5 i hi j, sumTo_eq]
    exact sum_permQ Y.r σ i (hσ.lt i hi) (fun a => (outC (obsOf U sq ord) Y.r n).e a j)

/-- **Permutation, mode shapes of `ac2mp`.**  With the rows of the output matrix permuted
    (`C'[i, :] = C[σ i, :]`, `C08_perm_ssi`) and the same recorded eigenvectors (same `A`), every
    normalised shape is the permuted shape — provided the component of largest magnitude of each
    un-normalised shape is attained once (on a tie `np.argmax` takes the first index, which a
    permutation may change: the two results then differ by a factor of modulus 1). -/
theorem C08_perm_shapes {l : Nat} (hl : 0 < l) {σ τ : Nat → Nat} (hσ : PermOn l σ τ) (C C' : Mat Rat)
    (Vec : Mat (Cpx Rat)) (hr : C.r = l) (hr' : C'.r = l) (hc : C'.c = C.c)
    (he : ∀ i, i < l → ∀ j, C'.e i j = C.e (σ i) j)
    (huniq : ∀ k, k < Vec.c → ∀ i, i < l →
      i ≠ argmaxNormSq ((List.range l).map fun i => sumTo C.c (fun t => (cplx C).e i t * Vec.e t k)) →
      Cpx.normSq (sumTo C.c (fun t => (cplx C).e i t * Vec.e t k))
        < Cpx.normSq (sumTo C.c (fun t => (cplx C).e
            (argmaxNormSq ((List.range l).map fun i => sumTo C.c (fun t => (cplx C).e i t * Vec.e t k)))
              t * Vec.e t k))) :
    shapesOf (cplx C') Vec
      = (shapesOf (cplx C) Vec).map (fun w => (List.range l).map (fun i => w.getD (σ i) 0)) :=
  shapesOf_perm hl hσ (cplx C) (cplx C') Vec hr hr' hc
    (fun i hi j => by show (⟨C'.e i j, 0⟩ : Cpx Rat) = ⟨C.e (σ i) j, 0⟩; rw [he i hi j]) huniq

end ssi_mix

section ssi_mix_R
variable {K : Type} [Field K] [LinearOrder K] [IsStrictOrderedRing K]

/-- `C08_mix_ssi` for the correlation (`cov_R`) layout. -/
theorem C08_mix_ssi_R (Y Yref Q Qr : Mat K) (p : Nat) (w : Nat → K)
    (hQc : Q.c = Y.r) (hQr : Q.r = Y.r) (hRc : Qr.c = Yref.r) (hRr : Qr.r = Yref.r)
    (hQ : OrthoOn Y.r Q.e) (hQr' : OrthoOn Yref.r Qr.e)
    (U V : Mat K) (S sq : Nat → K) (N : Nat) (hsvd : SvdOf (hankR Y Yref p w) U V S N)
    (ord M mb n : Nat) (Qq R Rinv : Mat K)
    (hqr : QrOf (upPart (obsOf U sq ord) Y.r) Qq R Rinv M ord n) (hM : M = mb * Y.r) :
    SvdOf (hankR (Mat.mul Q Y) (Mat.mul Qr Yref) p w)
      (blockMix Y.r Q.e U) (blockMix Yref.r Qr.e V) S N ∧
    QrOf (upPart (obsOf (blockMix Y.r Q.e U) sq ord) Y.r) (blockMix Y.r Q.e Qq) R Rinv M ord n ∧
    fastA Rinv (blockMix Y.r Q.e Qq) (dnPart (obsOf (blockMix Y.r Q.e U) sq ord) Y.r) n
      = fastA Rinv Qq (dnPart (obsOf U sq ord) Y.r) n ∧
    (∀ i, i < Y.r → ∀ j, (outC (obsOf (blockMix Y.r Q.e U) sq ord) Y.r n).e i j
      = sumTo Y.r (fun a => Q.e i a * (outC (obsOf U sq ord) Y.r n).e a j)) := by
  obtain ⟨hr, hc⟩ := PV.C12.C12_shape_R Y Yref p w
  obtain ⟨h1, _, h3, h4, h5⟩ := C08_mix_realisation_fast (hankR Y Yref p w) U V S sq N (p + 1) Y.r
    (p + 1) Yref.r Q.e Qr.e hQ hQr' hr hc hsvd ord M mb n Qq R Rinv hqr hM
  refine ⟨?_, h3, h4, h5⟩
  rw [hankR_mix Y Yref Q Qr p w hQc hQr hRc hRr]; exact h1

/-- `C08_perm_ssi` for the correlation (`cov_R`) layout. -/
theorem C08_perm_ssi_R (Y Yref : Mat K) (p : Nat) (w : Nat → K) (σ σi τ τi : Nat → Nat)
    (hσ : PermOn Y.r σ σi) (hτ : PermOn Yref.r τ τi) (hl : 0 < Y.r) (hr : 0 < Yref.r)
    (U V : Mat K) (S sq : Nat → K) (N : Nat) (hsvd : SvdOf (hankR Y Yref p w) U V S N)
    (ord M mb n : Nat) (Qq R Rinv : Mat K)
    (hqr : QrOf (upPart (obsOf U sq ord) Y.r) Qq R Rinv M ord n) (hM : M = mb * Y.r) :
    SvdOf (hankR (permRows σ Y) (permRows τ Yref) p w)
      (blockMix Y.r (permQ σ) U) (blockMix Yref.r (permQ τ) V) S N ∧
    QrOf (upPart (obsOf (blockMix Y.r (permQ σ) U) sq ord) Y.r) (blockMix Y.r (permQ σ) Qq) R Rinv M ord n ∧
    fastA Rinv (blockMix Y.r (permQ σ) Qq) (dnPart (obsOf (blockMix Y.r (permQ σ) U) sq ord) Y.r) n
      = fastA Rinv Qq (dnPart (obsOf U sq ord) Y.r) n ∧
    (∀ i, i < Y.r → ∀ j, (outC (obsOf (blockMix Y.r (permQ σ) U) sq ord) Y.r n).e i j
      = (outC (obsOf U sq ord) Y.r n).e (σ i) j) := by
  obtain ⟨h1, h3, h4, h5⟩ := C08_mix_ssi_R Y Yref ⟨Y.r, Y.r, permQ σ⟩ ⟨Yref.r, Yref.r, permQ τ⟩ p w
    rfl rfl rfl rfl (permQ_ortho hσ) (permQ_ortho hτ) U V S sq N hsvd ord M mb n Qq R Rinv hqr hM
  refine ⟨?_, h3, h4, ?_⟩
  · rw [hankR_permRows Y Yref p w σ τ hσ.lt hτ.lt hl hr]; exact h1
  · intro i hi j
    rw [h5 i hi j, sumTo_eq]
    exact sum_permQ Y.r σ i (hσ.lt i hi) (fun a => (outC (obsOf U sq ord) Y.r n).e a j)

end ssi_mix_R

section dat_mix
variable {K : Type} [Field K]

/-- **Mixing, data-driven Hankel (Gram level).**  The data-driven matrix is determined by the data only
    through its Gram matrix `H·Hᵀ = Yf·Ypᵀ·(Yp·Ypᵀ)⁻¹·Yp·Yfᵀ` (C12's projection identity, valid for
    *every* admissible recorded QR factorisation).  With the past rows mixed by an orthogonal
    `B_p = I⊗Q_r` and the future rows by `B_f = I⊗Q`, for any right inverse `W'` of the mixed
    `Yp'·Yp'ᵀ`: the Gram matrix of the mixed run is `B_f·(H·Hᵀ)·B_fᵀ` — same eigenvalues (squared
    singular values), left singular vectors `B_f·U`; from there `C08_mix_realisation_fast` applies. -/
theorem C08_mix_dat_gram {a b n : ℕ} (Yp : Matrix (Fin a) (Fin n) K) (Yf : Matrix (Fin b) (Fin n) K)
    (Bp : Matrix (Fin a) (Fin a) K) (Bf : Matrix (Fin b) (Fin b) K) (W W' : Matrix (Fin a) (Fin a) K)
    (hBp : Bpᵀ * Bp = 1) (hW : (Yp * Ypᵀ) * W = 1)
    (hW' : ((Bp * Yp) * (Bp * Yp)ᵀ) * W' = 1) :
    (Bf * Yf) * (Bp * Yp)ᵀ * W' * ((Bp * Yp) * (Bf * Yf)ᵀ)
      = Bf * (Yf * Ypᵀ * W * (Yp * Yfᵀ)) * Bfᵀ := by
  have hBp' : Bp * Bpᵀ = 1 := mul_eq_one_comm.mp hBp
  have hM : ((Bp * Yp) * (Bp * Yp)ᵀ) * (Bp * W * Bpᵀ) = 1 := by
    rw [Matrix.transpose_mul]
    calc Bp * Yp * (Ypᵀ * Bpᵀ) * (Bp * W * Bpᵀ)
        = Bp * (Yp * Ypᵀ) * (Bpᵀ * Bp) * W * Bpᵀ := by simp only [Matrix.mul_assoc]
      _ = Bp * ((Yp * Ypᵀ) * W) * Bpᵀ := by rw [hBp, Matrix.mul_one]; simp only [Matrix.mul_assoc]
      _ = 1 := by rw [hW, Matrix.mul_one, hBp']
  have hWW : W' = Bp * W * Bpᵀ := by
    have hl : (Bp * W * Bpᵀ) * ((Bp * Yp) * (Bp * Yp)ᵀ) = 1 := mul_eq_one_comm.mp hM
    calc W' = ((Bp * W * Bpᵀ) * ((Bp * Yp) * (Bp * Yp)ᵀ)) * W' := by rw [hl, Matrix.one_mul]
      _ = (Bp * W * Bpᵀ) * (((Bp * Yp) * (Bp * Yp)ᵀ) * W') := by rw [Matrix.mul_assoc]
      _ = Bp * W * Bpᵀ := by rw [hW', Matrix.mul_one]
  rw [hWW, Matrix.transpose_mul, Matrix.transpose_mul]
  calc Bf * Yf * (Ypᵀ * Bpᵀ) * (Bp * W * Bpᵀ) * (Bp * Yp * (Yfᵀ * Bfᵀ))
      = Bf * Yf * Ypᵀ * (Bpᵀ * Bp) * W * (Bpᵀ * Bp) * Yp * Yfᵀ * Bfᵀ := by
        simp only [Matrix.mul_assoc]
    _ = Bf * (Yf * Ypᵀ * W * (Yp * Yfᵀ)) * Bfᵀ := by
        rw [hBp, Matrix.mul_one, Matrix.mul_one]; simp only [Matrix.mul_assoc]

end dat_mix

/-! ## 3. Gain, FDD family -/
section fdd_gain
open PV.Fdd PV.Efdd
variable {K : Type} [Field K] [LinearOrder K] [IsStrictOrderedRing K]

/-- **Gain, `SD_svalsvec` + `FDD_mpe` (any spectral array).**  `Sy ↦ c·Sy`, `c > 0`: for every
    admissible recorded SVD `(U_k, S_k, V_k)` of every line, `(U_k, c·S_k, V_k)` is admissible for
    the scaled line; with the recorded square roots multiplied by `r` (`r > 0`, `r² = c`) the whole
    result of `FDD_mpe` — bands, σ₁/σ₂ ratio curve and its maximum, picked lines, frequencies,
    unit-normalised shapes, raised exceptions — is identical. -/
theorem C08_gain_fdd_spec (n nf : Nat) (G : Nat → Nat → Nat → Fdd.Cx K) (freq : Nat → K)
    (U V : Nat → Nat → Nat → Fdd.Cx K) (S sq : Nat → Nat → K) (c r : K) (hc : 0 ≤ c) (hr : 0 < r)
    (hrc : r * r = c)
    (hsvd : ∀ k, SvdLineOf n (fun i j => G i j k) (U k) (V k) (S k))
    (hsq : ∀ k, SqrtOf (sq k) (S k) n) (sel : List K) (DF : K) :
    (∀ k, SvdLineOf n (fun i j => Cx.smul c (G i j k)) (U k) (V k) (fun t => c * S k t)) ∧
    (∀ k, SqrtOf (fun t => r * sq k t) (fun t => c * S k t) n) ∧
    fddMpe n n nf freq (svalPlace (fun k i => r * sq k i)) (svecPlace U) sel DF
      = fddMpe n n nf freq (svalPlace sq) (svecPlace U) sel DF := by
  refine ⟨fun k => (hsvd k).smul c hc, fun k => (hsq k).smul r c hr.le hrc, ?_⟩
  rw [svalPlace_smul]
  exact fddMpe_smul n n nf freq (svalPlace sq) (svecPlace U) sel DF r hr.ne'

/-- **C08_gain_fdd — from the data to the result of `FDD_mpe`, periodogram estimator.**
    `Sy' = SD_est(g·Y, g·Y, …)`: every admissible recorded SVD `(U_k, S_k, V_k)` of a line of `Sy` gives
    the admissible `(U_k, g²·S_k, V_k)` of the line of `Sy'`, recorded square roots `r·sq` (`r = |g|`),
    and with them the whole result of `FDD_mpe` is identical. -/
theorem C08_gain_fdd_per (Y : Mat K) (g dt : K) (nxseg nov : Nat) (tw : Nat → CxS K) (r : K)
    (hr : 0 < r) (hrg : r * r = g * g) :
    (∀ k (Uk Vk : Nat → Nat → Fdd.Cx K) (Sk : Nat → K),
      SvdLineOf Y.r (fun i j => toCx ((sdEstPer Y Y dt nxseg nov tw).e i j k)) Uk Vk Sk →
      SvdLineOf Y.r (fun i j => toCx ((sdEstPer (scale g Y) (scale g Y) dt nxseg nov tw).e i j k))
        Uk Vk (fun t => g * g * Sk t)) ∧
    (∀ (sqk Sk : Nat → K), SqrtOf sqk Sk Y.r →
      SqrtOf (fun t => r * sqk t) (fun t => g * g * Sk t) Y.r) ∧
    ∀ (sq : Nat → Nat → K) (U : Nat → Nat → Nat → Fdd.Cx K) (sel : List K) (DF : K),
      fddMpe Y.r Y.r (sdEstPer (scale g Y) (scale g Y) dt nxseg nov tw).nf
          (sdEstPer (scale g Y) (scale g Y) dt nxseg nov tw).freq
          (svalPlace (fun k i => r * sq k i)) (svecPlace U) sel DF
        = fddMpe Y.r Y.r (sdEstPer Y Y dt nxseg nov tw).nf (sdEstPer Y Y dt nxseg nov tw).freq
          (svalPlace sq) (svecPlace U) sel DF := by
  refine ⟨?_, fun sqk Sk h => h.smul r (g * g) hr.le hrg, ?_⟩
  · intro k Uk Vk Sk h
    have e : (fun i j => toCx ((sdEstPer (scale g Y) (scale g Y) dt nxseg nov tw).e i j k))
        = fun i j => Cx.smul (g * g) (toCx ((sdEstPer Y Y dt nxseg nov tw).e i j k)) := by
      funext i j; rw [PV.C13.sd_gain_sq_per, pow_two]; rfl
    rw [e]; exact h.smul (g * g) (mul_self_nonneg g)
  · intro sq U sel DF
    rw [svalPlace_smul]
    exact fddMpe_smul _ _ _ _ (svalPlace sq) (svecPlace U) sel DF r hr.ne'

/-- **C08_gain_fdd, correlogram estimator.** -/
theorem C08_gain_fdd_cor (Y : Mat K) (g dt : K) (nxseg : Nat) (tw tw2 : Nat → CxS K) (ew : Nat → K)
    (r : K) (hr : 0 < r) (hrg : r * r = g * g) :
    (∀ k (Uk Vk : Nat → Nat → Fdd.Cx K) (Sk : Nat → K),
      SvdLineOf Y.r (fun i j => toCx ((sdEstCor Y Y dt nxseg tw tw2 ew).e i j k)) Uk Vk Sk →
      SvdLineOf Y.r (fun i j => toCx ((sdEstCor (scale g Y) (scale g Y) dt nxseg tw tw2 ew).e i j k))
        Uk Vk (fun t => g * g * Sk t)) ∧
    (∀ (sqk Sk : Nat → K), SqrtOf sqk Sk Y.r →
      SqrtOf (fun t => r * sqk t) (fun t => g * g * Sk t) Y.r) ∧
    ∀ (sq : Nat → Nat → K) (U : Nat → Nat → Nat → Fdd.Cx K) (sel : List K) (DF : K),
      fddMpe Y.r Y.r (sdEstCor (scale g Y) (scale g Y) dt nxseg tw tw2 ew).nf
          (sdEstCor (scale g Y) (scale g Y) dt nxseg tw tw2 ew).freq
          (svalPlace (fun k i => r * sq k i)) (svecPlace U) sel DF
        = fddMpe Y.r Y.r (sdEstCor Y Y dt nxseg tw tw2 ew).nf (sdEstCor Y Y dt nxseg tw tw2 ew).freq
          (svalPlace sq) (svecPlace U) sel DF := by
  refine ⟨?_, fun sqk Sk h => h.smul r (g * g) hr.le hrg, ?_⟩
  · intro k Uk Vk Sk h
    have e : (fun i j => toCx ((sdEstCor (scale g Y) (scale g Y) dt nxseg tw tw2 ew).e i j k))
        = fun i j => Cx.smul (g * g) (toCx ((sdEstCor Y Y dt nxseg tw tw2 ew).e i j k)) := by
      funext i j; rw [PV.C13.sd_gain_sq_cor, pow_two]; rfl
    rw [e]; exact h.smul (g * g) (mul_self_nonneg g)
  · intro sq U sel DF
    rw [svalPlace_smul]
    exact fddMpe_smul _ _ _ _ (svalPlace sq) (svecPlace U) sel DF r hr.ne'

/-- **C08_gain_efdd — EFDD/FSDD from the data to the normalised correlation.**  With the spectral
    array of `g·Y` (either estimator gives `g²·Sy`, C13), the stored square roots multiplied by `r`
    (`r² = g²`) and the same stored vectors: the SDOF bell is `g²` times the bell, its support is
    the same, and after the modelled inverse FFT the normalised auto-correlation — hence
    everything `EFDD_mpe` derives from it (`postFft`: crossings, extrema, `Td`, `fd`, decrement
    ratios; then `slope`, `lamOf`, `xiOf`, `fnOf` of those same values) — is identical. -/
theorem C08_gain_efdd_per (m : Method) (hm : m = .FSDD ∨ m = .EFDD) (Y : Mat K) (g : K) (hg : g ≠ 0)
    (r : K) (hrg : r * r = g * g) (dt : K) (nxseg nov : Nat) (tw : Nat → CxS K) (cm nf : Nat)
    (Sval : Nat → Nat → Nat → K) (Svec : Nat → Nat → Nat → Fdd.Cx K) (phi : Nat → Fdd.Cx K)
    (sel DF MAClim : K) (twI : Nat → Fdd.Cx K) (rs : K) (sppk npmax : Nat) :
    postFft nf (normCorr (5 * nf) (ifftRe nf twI rs (sdofBell m Y.r cm nf dt
        (fun i j l => toCx ((sdEstPer (scale g Y) (scale g Y) dt nxseg nov tw).e i j l))
        (fun i j l => r * Sval i j l) Svec phi sel DF MAClim))) dt sppk npmax
      = postFft nf (normCorr (5 * nf) (ifftRe nf twI rs (sdofBell m Y.r cm nf dt
        (fun i j l => toCx ((sdEstPer Y Y dt nxseg nov tw).e i j l))
        Sval Svec phi sel DF MAClim))) dt sppk npmax := by
  have e : (fun i j l => toCx ((sdEstPer (scale g Y) (scale g Y) dt nxseg nov tw).e i j l))
      = fun i j l => Cx.smul (g * g) (toCx ((sdEstPer Y Y dt nxseg nov tw).e i j l)) := by
    funext i j l; rw [PV.C13.sd_gain_sq_per, pow_two]; rfl
  rw [e]
  exact (PV.C07Bell.C07_scale_ifft m hm Y.r cm nf dt _ Sval Svec phi sel DF MAClim (g * g) r
    (mul_self_pos.mpr hg) hrg twI rs sppk npmax).2

theorem C08_gain_efdd_cor (m : Method) (hm : m = .FSDD ∨ m = .EFDD) (Y : Mat K) (g : K) (hg : g ≠ 0)
    (r : K) (hrg : r * r = g * g) (dt : K) (nxseg : Nat) (tw tw2 : Nat → CxS K) (ew : Nat → K)
    (cm nf : Nat)
    (Sval : Nat → Nat → Nat → K) (Svec : Nat → Nat → Nat → Fdd.Cx K) (phi : Nat → Fdd.Cx K)
    (sel DF MAClim : K) (twI : Nat → Fdd.Cx K) (rs : K) (sppk npmax : Nat) :
    postFft nf (normCorr (5 * nf) (ifftRe nf twI rs (sdofBell m Y.r cm nf dt
        (fun i j l => toCx ((sdEstCor (scale g Y) (scale g Y) dt nxseg tw tw2 ew).e i j l))
        (fun i j l => r * Sval i j l) Svec phi sel DF MAClim))) dt sppk npmax
      = postFft nf (normCorr (5 * nf) (ifftRe nf twI rs (sdofBell m Y.r cm nf dt
        (fun i j l => toCx ((sdEstCor Y Y dt nxseg tw tw2 ew).e i j l))
        Sval Svec phi sel DF MAClim))) dt sppk npmax := by
  have e : (fun i j l => toCx ((sdEstCor (scale g Y) (scale g Y) dt nxseg tw tw2 ew).e i j l))
      = fun i j l => Cx.smul (g * g) (toCx ((sdEstCor Y Y dt nxseg tw tw2 ew).e i j l)) := by
    funext i j l; rw [PV.C13.sd_gain_sq_cor, pow_two]; rfl
  rw [e]
  exact (PV.C07Bell.C07_scale_ifft m hm Y.r cm nf dt _ Sval Svec phi sel DF MAClim (g * g) r
    (mul_self_pos.mpr hg) hrg twI rs sppk npmax).2

end fdd_gain

/-! ## 3b. Channel permutation and orthogonal mixing, FDD family -/
section fdd_mix
open PV.Fdd
variable {K : Type} [Field K] [LinearOrder K] [IsStrictOrderedRing K]

/-- **Mixing, spectral estimation (both estimators).**  `SD_est(Q·Y, Q·Y, …)[:, :, k] = Q·Sy[:, :, k]·Qᵀ`
    (C13's superposition theorems with `Φ = Ψ = Q`). -/
theorem C08_mix_sd (Y Q : Mat K) (hQc : Q.c = Y.r) (dt : K) (nxseg nov : Nat)
    (tw tw2 : Nat → CxS K) (ew : Nat → K) (i j k : Nat) (hi : i < Q.r) (hj : j < Q.r) :
    toCx ((sdEstPer (Mat.mul Q Y) (Mat.mul Q Y) dt nxseg nov tw).e i j k)
      = cconj Y.r Q.e (fun μ ν => toCx ((sdEstPer Y Y dt nxseg nov tw).e μ ν k)) i j ∧
    toCx ((sdEstCor (Mat.mul Q Y) (Mat.mul Q Y) dt nxseg tw tw2 ew).e i j k)
      = cconj Y.r Q.e (fun μ ν => toCx ((sdEstCor Y Y dt nxseg tw tw2 ew).e μ ν k)) i j := by
  have hA : ∀ i, i < (Mat.mul Q Y).r → ∀ t, t < (Mat.mul Q Y).c →
      (Mat.mul Q Y).e i t = ∑ μ ∈ range Y.r, Q.e i μ * Y.e μ t := by
    intro i _ t _; simp only [Mat.mul, sumTo_eq, hQc]
  constructor
  · rw [PV.C06C13.C13_superposition_per (Mat.mul Q Y) (Mat.mul Q Y) Y Q.e Q.e rfl hA hA dt nxseg nov tw
      i j k hi hj]
    unfold cconj
    rw [toCx_sum]; apply Finset.sum_congr rfl; intro μ _
    rw [toCx_sum]; apply Finset.sum_congr rfl; intro ν _
    rfl
  · rw [PV.C06C13.C13_superposition_cor (Mat.mul Q Y) (Mat.mul Q Y) Y Q.e Q.e rfl hA hA dt nxseg tw tw2
      ew i j k hi hj]
    unfold cconj
    rw [toCx_sum]; apply Finset.sum_congr rfl; intro μ _
    rw [toCx_sum]; apply Finset.sum_congr rfl; intro ν _
    rfl

/-- **C08_mix_fdd — orthogonal mixing, `SD_svalsvec` + `FDD_mpe`.**  `G' = Q·G·Qᵀ` on the array
    (`Q` real orthogonal): every admissible recorded SVD `(U, S, V)` of a line gives the admissible
    `(Q·U, S, Q·V)` — **the same singular values**, so `Sval` is the same array and the bands, the
    σ₁/σ₂ curve, the picked lines and the frequencies are identical whatever the stored vectors;
    the stored row `Svec[0, :, k]` from which the shape is taken is `Q` times the original row. -/
theorem C08_mix_fdd (n nf : Nat) (G G' : Nat → Nat → Nat → Fdd.Cx K) (Q : Nat → Nat → K)
    (hQ : OrthoOn n Q)
    (hG : ∀ k i, i < n → ∀ j, j < n → G' i j k = cconj n Q (fun μ ν => G μ ν k) i j) :
    (∀ k (Uk Vk : Nat → Nat → Fdd.Cx K) (Sk : Nat → K),
      SvdLineOf n (fun i j => G i j k) Uk Vk Sk →
      SvdLineOf n (fun i j => G' i j k) (cmix n Q Uk) (cmix n Q Vk) Sk) ∧
    (∀ (U : Nat → Nat → Nat → Fdd.Cx K) (c i k : Nat),
      svecPlace (fun k => cmix n Q (U k)) c i k
        = ∑ a ∈ range n, Fdd.Cx.ofReal (Q i a) * svecPlace U c a k) ∧
    ∀ [DecidableEq K] (freq : Nat → K) (Sval : Nat → Nat → Nat → K)
      (Svec Svec' : Nat → Nat → Nat → Fdd.Cx K) (DF sel : K),
      (fddOne n n nf freq Sval Svec' DF sel).map (fun m => (m.pick, m.fn))
        = (fddOne n n nf freq Sval Svec DF sel).map (fun m => (m.pick, m.fn)) :=
  ⟨fun k _ _ _ h => (h.mix Q hQ).congr (hG k), fun U c i k => svecPlace_cmix n Q U c i k,
   fun freq Sval Svec Svec' DF sel => fddOne_pick_indep n n nf freq Sval Svec Svec' DF sel⟩

omit [LinearOrder K] [IsStrictOrderedRing K] in
/-- **Permutation, spectral estimation**: the channels in the order `σ 0, σ 1, …` give the array
    with rows and columns permuted, for both estimators (pairing, C13). -/
theorem C08_perm_sd (Y : Mat K) (σ : Nat → Nat) (dt : K) (nxseg nov : Nat)
    (tw tw2 : Nat → CxS K) (ew : Nat → K) (i j k : Nat) :
    (sdEstPer (permRows σ Y) (permRows σ Y) dt nxseg nov tw).e i j k
      = (sdEstPer Y Y dt nxseg nov tw).e (σ i) (σ j) k ∧
    (sdEstCor (permRows σ Y) (permRows σ Y) dt nxseg tw tw2 ew).e i j k
      = (sdEstCor Y Y dt nxseg tw tw2 ew).e (σ i) (σ j) k :=
  ⟨rfl, rfl⟩

/-- **C08_perm_fdd — channel permutation, `SD_svalsvec` + `FDD_mpe`.**  `G'[i, j] = G[σ i, σ j]`:
    the recorded vectors with permuted rows and the same singular values are admissible; `Sval`,
    hence every pick and frequency, is unchanged; the stored row is permuted, and — when its
    component of largest magnitude is attained once — the unit-normalised shape `FDD_mpe` returns
    is the permuted shape. -/
theorem C08_perm_fdd [DecidableEq K] (n : Nat) (hn : 0 < n) (G : Nat → Nat → Nat → Fdd.Cx K)
    (σ τ : Nat → Nat) (hσ : PermOn n σ τ) :
    (∀ k (Uk Vk : Nat → Nat → Fdd.Cx K) (Sk : Nat → K),
      SvdLineOf n (fun i j => G i j k) Uk Vk Sk →
      SvdLineOf n (fun i j => G (σ i) (σ j) k) (fun i r => Uk (σ i) r) (fun i r => Vk (σ i) r) Sk) ∧
    (∀ (U : Nat → Nat → Nat → Fdd.Cx K) (c i k : Nat),
      svecPlace (fun k i r => U k (σ i) r) c i k = svecPlace U c (σ i) k) ∧
    ∀ (phi : Nat → Fdd.Cx K),
      (∀ i, i < n → i ≠ argmaxTo n (fun i => (phi i).normSq) →
        (phi i).normSq < (phi (argmaxTo n (fun i => (phi i).normSq))).normSq) →
      Fdd.normalise n (fun i => phi (σ i)) = (Fdd.normalise n phi).map (fun v i => v (σ i)) :=
  ⟨fun _ _ _ _ h => h.perm hσ, fun _ _ _ _ => rfl, fun phi hu => normalise_perm hσ phi hu hn⟩

end fdd_mix

/-! ## 4. Gain, pLSCF -/
section plscf_gain
open PV.Plscf
variable {K : Type} [Field K] [LinearOrder K] [IsStrictOrderedRing K] [Inhabited K]

omit [LinearOrder K] [IsStrictOrderedRing K] [Inhabited K] in
/-- **Gain, normal equations (certificate transport).**  What a returned order of the model of
    `pLSCF` certifies for `Sy` (exact inner solves `X`, accumulated `M`, constrained solve `Z`,
    `alpha`, `beta`), it certifies for `c·Sy` with `c·X`, `c²·M`, the same `Z` and `alpha`, and
    `c·beta`: identical denominator coefficients, numerator multiplied by `c = g²`. -/
theorem C08_gain_plscf_cert (Nch Nref Nf n : Nat) (hi : Bool) (Om : Nat → Plscf.Cx K)
    (Sy : Nat → Nat → Nat → Plscf.Cx K) (out : OrderOut K) (X : Nat → Nat → Nat → K) (Z : Nat → Nat → K)
    (h : OrderCert Nch Nref Nf n hi Om Sy out X Z) (c : K) :
    OrderCert Nch Nref Nf n hi Om (fun o ch f => csm c (Sy o ch f))
      ⟨fun I J => c * c * out.M I J, out.alpha, fun o t j => c * out.beta o t j⟩
      (fun o t J => c * X o t J) Z :=
  PV.Cov.OrderCert.gain h c

omit [LinearOrder K] [IsStrictOrderedRing K] in
/-- **Gain, one order of `pLSCF` (two runs of the model).**  If the model returns for `Sy` and for
    `c·Sy` (`c ≠ 0`) and — C05's uniqueness hypotheses — `Ro` and the constrained block of `M` are
    injective, then on the index ranges of the arrays `M' = c²·M`, `alpha' = alpha`,
    `beta' = c·beta`. -/
theorem C08_gain_plscf_order [DecidableEq K] (Nch Nref Nf n : Nat) (hi : Bool) (Om : Nat → Plscf.Cx K)
    (Sy : Nat → Nat → Nat → Plscf.Cx K) (out out' : OrderOut K) (c : K) (hc : c ≠ 0)
    (h : plscfOrder Nch Nref Nf n hi Om Sy = some out)
    (h' : plscfOrder Nch Nref Nf n hi Om (fun o ch f => csm c (Sy o ch f)) = some out')
    (hRinj : ∀ y : Nat → K,
      (∀ i < n + 1, ∑ t ∈ range (n + 1), Ro Nf Om i t * y t = 0) → ∀ t < n + 1, y t = 0)
    (hinj : ∀ y : Nat → K,
      (∀ I < n * Nch, ∑ J ∈ range (n * Nch),
        (if hi then out.M I J else out.M (Nch + I) (Nch + J)) * y J = 0) → ∀ J < n * Nch, y J = 0) :
    (∀ I, I < (n + 1) * Nch → ∀ J, J < (n + 1) * Nch → out'.M I J = c * c * out.M I J) ∧
    (∀ I, I < (n + 1) * Nch → ∀ c', c' < Nch → out'.alpha I c' = out.alpha I c') ∧
    (∀ o, o < Nref → ∀ t, t < n + 1 → ∀ c', c' < Nch → out'.beta o t c' = c * out.beta o t c') := by
  obtain ⟨X, Z, cert⟩ := plscfOrder_sound Nch Nref Nf n hi Om Sy out h
  obtain ⟨X', Z', cert'⟩ := plscfOrder_sound Nch Nref Nf n hi Om _ out' h'
  exact cert_gain_unique c hc cert cert' hRinj hinj

/-- **C08_gain_plscf — from the spectra to the pole table column of one order.**  Both runs of the
    model of `pLSCF` return (`out` for `Sy`, `out'` for `c·Sy`, `c = g² ≠ 0`), C05's injectivity
    hypotheses hold, and `rmfd2ac` returns `(A, C)` for the coefficients of the first run.  Then
    `rmfd2ac` returns for the second run **the same state matrix** `A` and an output matrix `C'`
    with `C' = c·C` on the array, and for every recorded eigen-decomposition of `A` the column
    `ac2mp_poly` produces — `fn`, `xi`, unit-normalised `phi`, `lam`, NaN pattern — is identical. -/
theorem C08_gain_plscf (Nch Nref Nf n : Nat) (hi : Bool) (Om : Nat → Plscf.Cx K)
    (Sy : Nat → Nat → Nat → Plscf.Cx K) (out out' : OrderOut K) (c : K) (hc : c ≠ 0)
    (h : plscfOrder Nch Nref Nf n hi Om Sy = some out)
    (h' : plscfOrder Nch Nref Nf n hi Om (fun o ch f => csm c (Sy o ch f)) = some out')
    (hRinj : ∀ y : Nat → K,
      (∀ i < n + 1, ∑ t ∈ range (n + 1), Ro Nf Om i t * y t = 0) → ∀ t < n + 1, y t = 0)
    (hinj : ∀ y : Nat → K,
      (∀ I < n * Nch, ∑ J ∈ range (n * Nch),
        (if hi then out.M I J else out.M (Nch + I) (Nch + J)) * y J = 0) → ∀ J < n * Nch, y J = 0)
    (A C : Mat K) (hac : rmfd2ac (adOf Nch n out.alpha) (bnOf Nch Nref n out.beta) = some (A, C)) :
    ∃ C', rmfd2ac (adOf Nch n out'.alpha) (bnOf Nch Nref n out'.beta) = some (A, C') ∧
      (∀ i, i < Nref → ∀ j, j < (n + 1) * Nch → C'.e i j = c * C.e i j) ∧
      ∀ (sqrt : K → K) (twoPi invdt : K) (cor : Bool) (invTau : K) (eigs : List (EigIn K)),
        ac2mpPoly sqrt twoPi invdt cor invTau C' eigs = ac2mpPoly sqrt twoPi invdt cor invTau C eigs := by
  obtain ⟨_, hα, hβ⟩ := C08_gain_plscf_order Nch Nref Nf n hi Om Sy out out' c hc h h' hRinj hinj
  obtain ⟨C', h1, hr, hcc, he⟩ := rmfd2ac_gain Nch Nref n out.alpha out'.alpha out.beta out'.beta c
    hα hβ A C hac
  have hCr : C.r = Nref ∧ C.c = (n + 1) * Nch := by
    unfold rmfd2ac at hac
    dsimp only at hac
    split at hac
    · exact absurd hac (by simp)
    · injection hac with hac
      injection hac with _ h2
      rw [← h2]; exact ⟨rfl, rfl⟩
  refine ⟨C', h1, he, ?_⟩
  intro sqrt twoPi invdt cor invTau eigs
  exact ac2mpPoly_gain sqrt twoPi invdt cor invTau C C' c hc hr hcc
    (fun i hi' j hj => he i (hCr.1 ▸ hi') j (hCr.2 ▸ hj)) eigs

end plscf_gain

/-! ## 5. Time unit -/
section time_unit
open PV.Fdd PV.Plscf

/-- **Time unit, `ac2mp` (SSI) — the model functions.**  With the recorded continuous pole and its
    recorded modulus multiplied by `k ≠ 0`, `xiOf` is unchanged and `fnOf` is multiplied by `k`. -/
theorem C08_time_unit_ssi_model (lam : Cpx Rat) (absLam twoPi k : Rat) (hk : k ≠ 0) :
    xiOf ⟨k * lam.re, k * lam.im⟩ (k * absLam) = xiOf lam absLam ∧
    fnOf (k * absLam) twoPi = k * fnOf absLam twoPi := by
  constructor
  · simp only [xiOf]; rw [mul_div_mul_left _ _ hk]
  · simp only [PV.fnOf]; rw [mul_div_assoc]

/-- **Time unit, `ac2mp` (SSI) — the pole map over ℂ.**  `lam_c = log(lam_d)·(1/dt)` as coded; declaring
    the same samples at `k` times the sampling frequency (`dt' = dt/k`, `k > 0`) multiplies the
    pole by `k`, hence `fn = |lam_c|/2π` by `k`, and leaves `xi = −Re lam_c/|lam_c|` unchanged.
    The state and output matrices (hence the shapes) do not depend on `dt` at all: the Hankel
    builders take the samples only. -/
theorem C08_time_unit_ssi (lamd : ℂ) (dt k : ℝ) (hdt : dt ≠ 0) (hk : 0 < k)
    (hl : Complex.log lamd ≠ 0) :
    Complex.log lamd * ((1 / (dt / k) : ℝ) : ℂ) = (k : ℂ) * (Complex.log lamd * ((1 / dt : ℝ) : ℂ)) ∧
    ‖Complex.log lamd * ((1 / (dt / k) : ℝ) : ℂ)‖ / (2 * Real.pi)
      = k * (‖Complex.log lamd * ((1 / dt : ℝ) : ℂ)‖ / (2 * Real.pi)) ∧
    -((Complex.log lamd * ((1 / (dt / k) : ℝ) : ℂ)).re / ‖Complex.log lamd * ((1 / (dt / k) : ℝ) : ℂ)‖)
      = -((Complex.log lamd * ((1 / dt : ℝ) : ℂ)).re / ‖Complex.log lamd * ((1 / dt : ℝ) : ℂ)‖) := by
  have h0 : Complex.log lamd * ((1 / (dt / k) : ℝ) : ℂ)
      = (k : ℂ) * (Complex.log lamd * ((1 / dt : ℝ) : ℂ)) := by
    rw [one_div_div, div_eq_mul_one_div k dt]; push_cast; ring
  have hne : Complex.log lamd * ((1 / dt : ℝ) : ℂ) ≠ 0 := by
    apply mul_ne_zero hl
    exact_mod_cast one_div_ne_zero hdt
  obtain ⟨h1, h2⟩ := C08_time_unit_modal (Complex.log lamd * ((1 / dt : ℝ) : ℂ)) k hk hne
  refine ⟨h0, ?_, ?_⟩
  · rw [h0]; exact h1
  · rw [h0]; exact h2

variable {K : Type} [Field K] [LinearOrder K] [IsStrictOrderedRing K]

/-- **Time unit, `ac2mp_poly` (pLSCF, both spectral estimators, window correction included).**
    `1/dt' = k·(1/dt)` and — the code after the repair of F3 — `1/(τ·dt') = k·(1/(τ·dt))`: the model
    of `ac2mp_poly` returns the same column with every finite pole and every `fn` multiplied by
    `k`; `xi`, the unit-normalised shapes and the NaN pattern are unchanged.  (`sqrt` is the
    recorded `abs`/`np.sqrt`: non-negative square root on non-negative reals.)  The normal
    equations and `rmfd2ac` do not see `dt`: the basis `Om` is `exp(±iπ·j/(Nf−1))` whatever `dt`. -/
theorem C08_time_unit_plscf {sqrt : K → K} (hs : IsSqrt sqrt) (twoPi dt tau k : K) (hk : 0 < k)
    (cor : Bool) (C : Mat K) (eigs : List (EigIn K)) :
    ac2mpPoly sqrt twoPi (1 / (dt / k)) cor (1 / (tau * (dt / k))) C eigs
      = scaleColumn k (ac2mpPoly sqrt twoPi (1 / dt) cor (1 / (tau * dt)) C eigs) := by
  have e1 : 1 / (dt / k) = k * (1 / dt) := by rw [one_div_div, div_eq_mul_one_div]
  have e2 : 1 / (tau * (dt / k)) = k * (1 / (tau * dt)) := by
    rw [← mul_div_assoc, one_div_div, div_eq_mul_one_div]
  rw [e1, e2]
  exact ac2mpPoly_time hs twoPi (1 / dt) cor (1 / (tau * dt)) k hk C eigs

/-- **Time unit, FDD (periodogram): from the data to the result of `FDD_mpe`.**  Declaring `dt/k`
    (`k > 0`): the spectral array is `k⁻¹·Sy` on the grid `k·freq` (C13's model); every admissible
    recorded SVD `(U, S, V)` of a line gives the admissible `(U, k⁻¹·S, V)`, the stored square roots
    are multiplied by `r` (`r² = k⁻¹`); with the requested frequencies and the half-band multiplied
    by `k`, `FDD_mpe` picks the same lines and returns the same unit-normalised shapes, and every
    frequency is multiplied by `k`. -/
theorem C08_time_unit_fdd_per (Y : Mat K) (dt k : K) (hk : 0 < k) (nxseg nov : Nat) (tw : Nat → CxS K)
    (r : K) (hr : 0 < r) (hrk : r * r = k⁻¹) :
    (∀ q (Uq Vq : Nat → Nat → Fdd.Cx K) (Sq : Nat → K),
      SvdLineOf Y.r (fun i j => toCx ((sdEstPer Y Y dt nxseg nov tw).e i j q)) Uq Vq Sq →
      SvdLineOf Y.r (fun i j => toCx ((sdEstPer Y Y (dt / k) nxseg nov tw).e i j q))
        Uq Vq (fun t => k⁻¹ * Sq t)) ∧
    (∀ (sqq Sq : Nat → K), SqrtOf sqq Sq Y.r → SqrtOf (fun t => r * sqq t) (fun t => k⁻¹ * Sq t) Y.r) ∧
    ∀ (sq : Nat → Nat → K) (U : Nat → Nat → Nat → Fdd.Cx K) (sel : List K) (DF : K),
      fddMpe Y.r Y.r (sdEstPer Y Y (dt / k) nxseg nov tw).nf (sdEstPer Y Y (dt / k) nxseg nov tw).freq
          (svalPlace (fun q i => r * sq q i)) (svecPlace U) (sel.map (k * ·)) (k * DF)
        = (fddMpe Y.r Y.r (sdEstPer Y Y dt nxseg nov tw).nf (sdEstPer Y Y dt nxseg nov tw).freq
          (svalPlace sq) (svecPlace U) sel DF).map (List.map (scaleFn k)) := by
  obtain ⟨he, hf, hn⟩ := sdEstPer_time Y Y dt k nxseg nov tw
  refine ⟨?_, fun sqq Sq h => h.smul r k⁻¹ hr.le hrk, ?_⟩
  · intro q Uq Vq Sq h
    have e : (fun i j => toCx ((sdEstPer Y Y (dt / k) nxseg nov tw).e i j q))
        = fun i j => Cx.smul k⁻¹ (toCx ((sdEstPer Y Y dt nxseg nov tw).e i j q)) := by
      funext i j; rw [he]; rfl
    rw [e]; exact h.smul k⁻¹ (inv_nonneg.mpr hk.le)
  · intro sq U sel DF
    have hfreq : (sdEstPer Y Y (dt / k) nxseg nov tw).freq
        = fun q => k * (sdEstPer Y Y dt nxseg nov tw).freq q := funext hf
    rw [hfreq, hn, svalPlace_smul, fddMpe_smul _ _ _ _ _ _ _ _ r hr.ne']
    exact fddMpe_time _ _ _ _ _ _ sel DF k hk

/-- **Time unit, FDD (correlogram).**  The correlogram array does not depend on `dt`; only the grid
    is multiplied by `k`. -/
theorem C08_time_unit_fdd_cor (Y : Mat K) (dt k : K) (hk : 0 < k) (nxseg : Nat) (tw tw2 : Nat → CxS K)
    (ew : Nat → K) (Sval : Nat → Nat → Nat → K) (Svec : Nat → Nat → Nat → Fdd.Cx K) (sel : List K)
    (DF : K) :
    (∀ i j q, (sdEstCor Y Y (dt / k) nxseg tw tw2 ew).e i j q = (sdEstCor Y Y dt nxseg tw tw2 ew).e i j q) ∧
    fddMpe Y.r Y.r (sdEstCor Y Y (dt / k) nxseg tw tw2 ew).nf
        (sdEstCor Y Y (dt / k) nxseg tw tw2 ew).freq Sval Svec (sel.map (k * ·)) (k * DF)
      = (fddMpe Y.r Y.r (sdEstCor Y Y dt nxseg tw tw2 ew).nf (sdEstCor Y Y dt nxseg tw tw2 ew).freq
        Sval Svec sel DF).map (List.map (scaleFn k)) := by
  obtain ⟨he, hf, hn⟩ := sdEstCor_time Y Y dt k nxseg tw tw2 ew
  refine ⟨he, ?_⟩
  have hfreq : (sdEstCor Y Y (dt / k) nxseg tw tw2 ew).freq
      = fun q => k * (sdEstCor Y Y dt nxseg tw tw2 ew).freq q := funext hf
  rw [hfreq, hn]
  exact fddMpe_time _ _ _ _ _ _ sel DF k hk

end time_unit

section plscf_time
open PV.Plscf
variable {K : Type} [Field K] [LinearOrder K] [IsStrictOrderedRing K] [Inhabited K]

/-- **Time unit, pLSCF — from the spectra to the pole table column (periodogram spectra).**  Declaring
    `dt/k` (`k > 0`) leaves the basis `Om` unchanged and divides the spectra by `k` (C13's model);
    with `C08_gain_plscf` for `c = k⁻¹` and `C08_time_unit_plscf`: same state matrix, and the column
    of `ac2mp_poly` has every pole and every `fn` multiplied by `k`, `xi` and the shapes unchanged.
    (For correlogram spectra the array does not change: `C08_time_unit_plscf` alone.) -/
theorem C08_time_unit_plscf_run (Nch Nref Nf n : Nat) (hi : Bool) (Om : Nat → Plscf.Cx K)
    (Sy : Nat → Nat → Nat → Plscf.Cx K) (out out' : OrderOut K) (k : K) (hk : 0 < k)
    (h : plscfOrder Nch Nref Nf n hi Om Sy = some out)
    (h' : plscfOrder Nch Nref Nf n hi Om (fun o ch f => csm k⁻¹ (Sy o ch f)) = some out')
    (hRinj : ∀ y : Nat → K,
      (∀ i < n + 1, ∑ t ∈ range (n + 1), Ro Nf Om i t * y t = 0) → ∀ t < n + 1, y t = 0)
    (hinj : ∀ y : Nat → K,
      (∀ I < n * Nch, ∑ J ∈ range (n * Nch),
        (if hi then out.M I J else out.M (Nch + I) (Nch + J)) * y J = 0) → ∀ J < n * Nch, y J = 0)
    (A C : Mat K) (hac : rmfd2ac (adOf Nch n out.alpha) (bnOf Nch Nref n out.beta) = some (A, C)) :
    ∃ C', rmfd2ac (adOf Nch n out'.alpha) (bnOf Nch Nref n out'.beta) = some (A, C') ∧
      ∀ (sqrt : K → K), IsSqrt sqrt → ∀ (twoPi dt tau : K) (cor : Bool) (eigs : List (EigIn K)),
        ac2mpPoly sqrt twoPi (1 / (dt / k)) cor (1 / (tau * (dt / k))) C' eigs
          = scaleColumn k (ac2mpPoly sqrt twoPi (1 / dt) cor (1 / (tau * dt)) C eigs) := by
  obtain ⟨C', h1, _, h3⟩ := C08_gain_plscf Nch Nref Nf n hi Om Sy out out' k⁻¹ (inv_ne_zero hk.ne')
    h h' hRinj hinj A C hac
  refine ⟨C', h1, ?_⟩
  intro sqrt hs twoPi dt tau cor eigs
  rw [h3, C08_time_unit_plscf hs twoPi dt tau k hk cor C eigs]

end plscf_time

section time_unit_efdd
open PV.Fdd PV.Efdd
variable {K : Type} [Field K] [LinearOrder K] [IsStrictOrderedRing K]

/-- **Time unit, EFDD/FSDD (periodogram): from the data to `fd` and the decrement ratios.**
    Declaring `dt/k` (`k > 0`): spectral array `k⁻¹·Sy` (C13's model), stored square roots
    `r·Sval` (`r² = k⁻¹`), requested frequency and half-band multiplied by `k`.  The SDOF bell
    keeps its band and is `k⁻¹` times the bell, the normalised auto-correlation is the same
    sequence, and `postFft` returns the same crossings, extrema, indices and decrement ratios
    with every period divided by `k` and the damped frequency `fd` multiplied by `k`. -/
theorem C08_time_unit_efdd_per (m : Method) (hm : m = .FSDD ∨ m = .EFDD) (Y : Mat K) (dt k : K)
    (hk : 0 < k) (r : K) (hrk : r * r = k⁻¹) (nxseg nov : Nat) (tw : Nat → CxS K) (cm nf : Nat)
    (Sval : Nat → Nat → Nat → K) (Svec : Nat → Nat → Nat → Fdd.Cx K) (phi : Nat → Fdd.Cx K)
    (sel DF MAClim : K) (twI : Nat → Fdd.Cx K) (rs : K) (sppk npmax : Nat) :
    postFft nf (normCorr (5 * nf) (ifftRe nf twI rs (sdofBell m Y.r cm nf (dt / k)
        (fun i j l => toCx ((sdEstPer Y Y (dt / k) nxseg nov tw).e i j l))
        (fun i j l => r * Sval i j l) Svec phi (k * sel) (k * DF) MAClim))) (dt / k) sppk npmax
      = (postFft nf (normCorr (5 * nf) (ifftRe nf twI rs (sdofBell m Y.r cm nf dt
        (fun i j l => toCx ((sdEstPer Y Y dt nxseg nov tw).e i j l))
        Sval Svec phi sel DF MAClim))) dt sppk npmax).map (scalePost k) := by
  have e : (fun i j l => toCx ((sdEstPer Y Y (dt / k) nxseg nov tw).e i j l))
      = fun i j l => Fdd.Cx.smul k⁻¹ (toCx ((sdEstPer Y Y dt nxseg nov tw).e i j l)) := by
    funext i j l; rw [(sdEstPer_time Y Y dt k nxseg nov tw).1]; rfl
  rw [e, sdofBell_time m Y.r cm nf dt k hk, postFft_time]
  exact congrArg (fun z => z.map (scalePost k))
    (PV.C07Bell.C07_scale_ifft m hm Y.r cm nf dt
      (fun i j l => toCx ((sdEstPer Y Y dt nxseg nov tw).e i j l)) Sval Svec phi sel DF MAClim k⁻¹ r
      (inv_pos.mpr hk) hrk twI rs sppk npmax).2

/-- **Time unit, EFDD/FSDD (correlogram)**: the array does not depend on `dt`. -/
theorem C08_time_unit_efdd_cor (m : Method) (Y : Mat K) (dt k : K) (hk : 0 < k) (nxseg : Nat)
    (tw tw2 : Nat → CxS K) (ew : Nat → K) (cm nf : Nat)
    (Sval : Nat → Nat → Nat → K) (Svec : Nat → Nat → Nat → Fdd.Cx K) (phi : Nat → Fdd.Cx K)
    (sel DF MAClim : K) (twI : Nat → Fdd.Cx K) (rs : K) (sppk npmax : Nat) :
    postFft nf (normCorr (5 * nf) (ifftRe nf twI rs (sdofBell m Y.r cm nf (dt / k)
        (fun i j l => toCx ((sdEstCor Y Y (dt / k) nxseg tw tw2 ew).e i j l))
        Sval Svec phi (k * sel) (k * DF) MAClim))) (dt / k) sppk npmax
      = (postFft nf (normCorr (5 * nf) (ifftRe nf twI rs (sdofBell m Y.r cm nf dt
        (fun i j l => toCx ((sdEstCor Y Y dt nxseg tw tw2 ew).e i j l))
        Sval Svec phi sel DF MAClim))) dt sppk npmax).map (scalePost k) := by
  have e : (fun i j l => toCx ((sdEstCor Y Y (dt / k) nxseg tw tw2 ew).e i j l))
      = fun i j l => toCx ((sdEstCor Y Y dt nxseg tw tw2 ew).e i j l) := rfl
  rw [e, sdofBell_time m Y.r cm nf dt k hk, postFft_time]

omit [LinearOrder K] [IsStrictOrderedRing K] in
/-- … and `fn = fd/√(1−ξ²)` follows `fd` (ξ is computed from the unchanged decrement ratios). -/
theorem C08_time_unit_efdd_fn (sqrt : K → K) (fd xi k : K) :
    Efdd.fnOf sqrt (k * fd) xi = k * Efdd.fnOf sqrt fd xi := by
  simp only [Efdd.fnOf, mul_div_assoc]

end time_unit_efdd

/-! ## Non-vacuity: concrete instances satisfying the hypotheses -/
section examples

/-! ### two channels `Y[a, t] = c_a·y_t`, `c = (3, 4)`, `y_t = 81·(4/3)^t` (one real pole `4/3`), `br = 1` -/
def eY : Mat Rat := ⟨2, 5, fun a t => (if a = 0 then 3 else 4) * ([81, 108, 144, 192, 256] : List Rat).getD t 0⟩
def eU : Mat Rat := ⟨4, 1, fun i _ => ([9/25, 12/25, 12/25, 16/25] : List Rat).getD i 0⟩
def eV : Mat Rat := ⟨4, 1, fun i _ => ([12/25, 16/25, 9/25, 12/25] : List Rat).getD i 0⟩
def eS : Nat → Rat := fun _ => 1440000
def eSq : Nat → Rat := fun _ => 1200
def eQ : Mat Rat := ⟨2, 1, fun i _ => if i = 0 then 3/5 else 4/5⟩
def eR : Mat Rat := ⟨1, 1, fun i j => if i = 0 ∧ j = 0 then 720 else 0⟩
def eRinv : Mat Rat := ⟨1, 1, fun _ _ => 1/720⟩
def ePinv : Mat Rat := ⟨1, 2, fun _ j => if j = 0 then 1/1200 else 1/900⟩

theorem eSvd : SvdOf (hankMM eY eY 1 1) eU eV eS 1 where
  dec := by
    intro i j hi hj
    have hi' : i < 4 := hi
    have hj' : j < 4 := hj
    interval_cases i <;> interval_cases j <;> decide +kernel
  orthU := toMx_orth_of 4 1 _ (by intro a ha b hb; interval_cases a; interval_cases b; decide +kernel)
  orthV := toMx_orth_of 4 1 _ (by intro a ha b hb; interval_cases a; interval_cases b; decide +kernel)
  nonneg := fun t _ => by simp [eS]
  ordered := fun t ht => by omega

theorem eSqrt : SqrtOf eSq eS 1 := fun t _ => by simp [eSq, eS]; norm_num

theorem eQr : QrOf (upPart (obsOf eU eSq 1) 2) eQ eR eRinv 2 1 1 where
  hRc := rfl
  hQr := rfl
  dec := toMx_mul_of 2 1 1 _ _ _ (by
    intro i hi j hj; interval_cases i <;> interval_cases j <;> decide +kernel)
  orth := toMx_orth_of 2 1 _ (by intro a ha b hb; interval_cases a; interval_cases b; decide +kernel)
  tri := fun i j hij => by
    have : ¬ (i = 0 ∧ j = 0) := by omega
    simp [eR, this]
  inv := (toMx_mul_of 1 1 1 eRinv.e eR.e (fun i j => if i = j then 1 else 0) (by
    intro i hi j hj; interval_cases i; interval_cases j; decide +kernel)).symm.trans (by
      ext a b; fin_cases a; fin_cases b; simp [toMx])

theorem ePinvOf : PinvOf (obsOf eU eSq 1) ePinv 2 1 2 where
  hPc := rfl
  inv := (toMx_mul_of 1 2 1 ePinv.e (upPart (obsOf eU eSq 1) 2).e (fun i j => if i = j then 1 else 0) (by
    intro i hi j hj; interval_cases i; interval_cases j; decide +kernel)).symm.trans (by
      ext a b; fin_cases a; fin_cases b; simp [toMx])

-- gain `g = −3`, `r = |g| = 3`
example := C08_gain_realisation_fast (hankMM eY eY 1 1) eU eV eS eSq 1 9 1 3 (by norm_num) (by norm_num)
  (by norm_num) (by norm_num) eSvd eSqrt 1 2 2 1 eQ eR eRinv eQr
example := C08_gain_realisation_legacy (hankMM eY eY 1 1) eU eV eS eSq 1 9 1 3 (by norm_num)
  (by norm_num) (by norm_num) (by norm_num) eSvd eSqrt 2 2 1 ePinv ePinvOf
example := C08_gain_ssi eY eY 1 1 (-3) 3 (by norm_num) (by norm_num) eU eV eS eSq 1 eSvd eSqrt 1 2 2 1
  eQ eR eRinv eQr ⟨1, 1, fun _ _ => ⟨1, 0⟩⟩
example := C08_gain_shapes ⟨2, 1, fun i _ => (i : Rat) + 1⟩ ⟨1, 1, fun _ _ => ⟨0, 1⟩⟩ (-3) (by norm_num)
-- the realised state matrix of this instance is the pole: `A = [4/3]`, `C = [432, 576]ᵀ`
example : (fastA eRinv eQ (dnPart (obsOf eU eSq 1) 2) 1).e 0 0 = 4 / 3 := by decide +kernel

/-! ### mixing: rotation `Q = [[3/5, 4/5], [−4/5, 3/5]]` of the two channels (all channels references);
    permutation: the swap -/
def eRot : Mat Rat := ⟨2, 2, fun i j => if i = j then 3/5 else if i = 0 then 4/5 else -4/5⟩
theorem eRotOrtho : OrthoOn 2 eRot.e := by
  intro a ha b hb; interval_cases a <;> interval_cases b <;> decide +kernel
def swp : Nat → Nat := fun a => 1 - a
theorem swpPerm : PermOn 2 swp swp :=
  ⟨fun a ha => by unfold swp; omega, fun a ha => by unfold swp; omega,
   fun a ha => by unfold swp; omega, fun a ha => by unfold swp; omega⟩

example := C08_mix_hankel eY eY eRot eRot 1 1 (fun k => 1 / ((5 : Rat) - k)) rfl rfl rfl rfl
example := C08_mix_realisation_fast (hankMM eY eY 1 1) eU eV eS eSq 1 2 2 2 2 eRot.e eRot.e eRotOrtho
  eRotOrtho rfl rfl eSvd 1 2 1 1 eQ eR eRinv eQr rfl
example := C08_mix_realisation_legacy eU eSq 2 2 1 1 eRot.e eRotOrtho ePinv ePinvOf rfl
example := C08_mix_ssi eY eY eRot eRot 1 1 rfl rfl rfl rfl eRotOrtho eRotOrtho eU eV eS eSq 1 eSvd
  1 2 1 1 eQ eR eRinv eQr rfl
example := C08_perm_ssi eY eY 1 1 swp swp swp swp swpPerm swpPerm (by decide) (by decide) eU eV eS eSq 1
  eSvd 1 2 1 1 eQ eR eRinv eQr rfl
-- the conclusion on this instance: the output matrix of the swapped run is the swapped one
example : (outC (obsOf (blockMix 2 (permQ swp) eU) eSq 1) 2 1).e 0 0 = 576
    ∧ (outC (obsOf eU eSq 1) 2 1).e 0 0 = 432 := by decide +kernel


-- `C08_perm_shapes` on this instance: `C = (432, 576)ᵀ`, one recorded eigenvector `[1]`
example := C08_perm_shapes (l := 2) (by decide) swpPerm (outC (obsOf eU eSq 1) 2 1)
  (outC (obsOf (blockMix 2 (permQ swp) eU) eSq 1) 2 1) ⟨1, 1, fun _ _ => ⟨1, 0⟩⟩ rfl rfl rfl
  (fun i hi j => by
    have := (C08_perm_ssi eY eY 1 1 swp swp swp swp swpPerm swpPerm (by decide) (by decide) eU eV eS eSq 1
      eSvd 1 2 1 1 eQ eR eRinv eQr rfl).2.2.2.2 i hi j
    exact this)
  (by decide +kernel)

/-! ### correlation Hankel: one channel `Y = (3, 3, −3)`, weights `1/(Ndat − k)`, `br = 1`:
    `H = [[R₁, R₀], [R₂, R₁]] = [[0, 9], [−9, 0]]`, full SVD (`N = 2`), `ordmax = 1` -/
def rY : Mat Rat := ⟨1, 3, fun _ t => if t = 2 then -3 else 3⟩
def rW : Nat → Rat := fun k => 1 / ((3 : Rat) - k)
def rU : Mat Rat := ⟨2, 2, fun i j => if i = j then 1 else 0⟩
def rV : Mat Rat := ⟨2, 2, fun i j => if i = 0 ∧ j = 1 then -1 else if i = 1 ∧ j = 0 then 1 else 0⟩
def rQ : Mat Rat := ⟨1, 1, fun _ _ => 1⟩
def rR : Mat Rat := ⟨1, 1, fun i j => if i = 0 ∧ j = 0 then 3 else 0⟩
def rRinv : Mat Rat := ⟨1, 1, fun _ _ => 1/3⟩

theorem rSvd : SvdOf (hankR rY rY 1 rW) rU rV (fun _ => 9) 2 where
  dec := by
    intro i j hi hj
    have hi' : i < 2 := hi
    have hj' : j < 2 := hj
    interval_cases i <;> interval_cases j <;> decide +kernel
  orthU := toMx_orth_of 2 2 _ (by
    intro a ha b hb; interval_cases a <;> interval_cases b <;> decide +kernel)
  orthV := toMx_orth_of 2 2 _ (by
    intro a ha b hb; interval_cases a <;> interval_cases b <;> decide +kernel)
  nonneg := fun t _ => by norm_num
  ordered := fun t _ => le_refl _

theorem rQr : QrOf (upPart (obsOf rU (fun _ => 3) 1) 1) rQ rR rRinv 1 1 1 where
  hRc := rfl
  hQr := rfl
  dec := toMx_mul_of 1 1 1 _ _ _ (by
    intro i hi j hj; interval_cases i; interval_cases j; decide +kernel)
  orth := toMx_orth_of 1 1 _ (by intro a ha b hb; interval_cases a; interval_cases b; decide +kernel)
  tri := fun i j hij => by
    have : ¬ (i = 0 ∧ j = 0) := by omega
    simp [rR, this]
  inv := (toMx_mul_of 1 1 1 rRinv.e rR.e (fun i j => if i = j then 1 else 0) (by
    intro i hi j hj; interval_cases i; interval_cases j; decide +kernel)).symm.trans (by
      ext a b; fin_cases a; fin_cases b; simp [toMx])

example := C08_gain_ssi_R rY rY 1 rW (-2) 2 (by norm_num) (by norm_num) rU rV (fun _ => 9) (fun _ => 3) 2
  rSvd (fun t _ => by norm_num) 1 1 1 1 rQ rR rRinv rQr ⟨1, 1, fun _ _ => ⟨1, 0⟩⟩


-- mixing / permutation for the correlation layout on this instance (one channel: `Q = [−1]`, `σ = id`)
theorem negOrtho : OrthoOn 1 (fun _ _ => (-1 : Rat)) := by
  intro a ha b hb; interval_cases a; interval_cases b; decide +kernel
example := C08_mix_ssi_R rY rY ⟨1, 1, fun _ _ => -1⟩ ⟨1, 1, fun _ _ => -1⟩ 1 rW rfl rfl rfl rfl
  negOrtho negOrtho
  rU rV (fun _ => 9) (fun _ => 3) 2 rSvd 1 1 1 1 rQ rR rRinv rQr rfl
example := C08_perm_ssi_R rY rY 1 rW id id id id ⟨fun _ h => h, fun _ h => h, fun _ _ => rfl, fun _ _ => rfl⟩
  ⟨fun _ h => h, fun _ h => h, fun _ _ => rfl, fun _ _ => rfl⟩ (by decide) (by decide)
  rU rV (fun _ => 9) (fun _ => 3) 2 rSvd 1 1 1 1 rQ rR rRinv rQr rfl

/-! ### data-driven: a recorded triangular factor whose cut-out block is the rank-one matrix
    `[[27648, 20736], [36864, 27648]] = 57600·(3/5, 4/5)ᵀ(4/5, 3/5)`; gain `g = −4`, `ε = −1`, `r = 2` -/
def dH : Nat → Nat → Rat := fun i j =>
  (if i = 0 then 192 else 256) * (if j = 0 then 144 else 108)
def dRf : Mat Rat := ⟨4, 4, fun j c => if 2 ≤ c then (if j < 2 then dH (c - 2) j else if j ≤ c then 1 else 0)
  else if j = c then 1 else 0⟩
def dU : Mat Rat := ⟨2, 1, fun i _ => if i = 0 then 3/5 else 4/5⟩
def dV : Mat Rat := ⟨2, 1, fun i _ => if i = 0 then 4/5 else 3/5⟩
def dQ : Mat Rat := ⟨1, 1, fun _ _ => 1⟩
def dR : Mat Rat := ⟨1, 1, fun i j => if i = 0 ∧ j = 0 then 144 else 0⟩
def dRinv : Mat Rat := ⟨1, 1, fun _ _ => 1/144⟩

theorem dSvd : SvdOf (hankDatOfR dRf 1 1) dU dV (fun _ => 57600) 1 where
  dec := by
    intro i j hi hj
    have hi' : i < 2 := hi
    have hj' : j < 2 := hj
    interval_cases i <;> interval_cases j <;> decide +kernel
  orthU := toMx_orth_of 2 1 _ (by intro a ha b hb; interval_cases a; interval_cases b; decide +kernel)
  orthV := toMx_orth_of 2 1 _ (by intro a ha b hb; interval_cases a; interval_cases b; decide +kernel)
  nonneg := fun t _ => by norm_num
  ordered := fun t ht => by omega

theorem dQr : QrOf (upPart (obsOf dU (fun _ => 240) 1) 1) dQ dR dRinv 1 1 1 where
  hRc := rfl
  hQr := rfl
  dec := toMx_mul_of 1 1 1 _ _ _ (by
    intro i hi j hj; interval_cases i; interval_cases j; decide +kernel)
  orth := toMx_orth_of 1 1 _ (by intro a ha b hb; interval_cases a; interval_cases b; decide +kernel)
  tri := fun i j hij => by
    have : ¬ (i = 0 ∧ j = 0) := by omega
    simp [dR, this]
  inv := (toMx_mul_of 1 1 1 dRinv.e dR.e (fun i j => if i = j then 1 else 0) (by
    intro i hi j hj; interval_cases i; interval_cases j; decide +kernel)).symm.trans (by
      ext a b; fin_cases a; fin_cases b; simp [toMx])

example := C08_gain_ssi_dat dRf 1 1 (-4) 2 (-1) (by norm_num) (by norm_num) (by norm_num) dU dV
  (fun _ => 57600) (fun _ => 240) 1 dSvd (fun t _ => by norm_num) 1 1 1 1 dQ dR dRinv dQr
  ⟨1, 1, fun _ _ => ⟨1, 0⟩⟩
-- `C08_gain_dat`: `Ysᵀ = q·R` with `q = I₂` (two samples), `R = [[2, 1], [0, 3]]`
example := C08_gain_dat (a := 1) (b := 1) (n := 2)
  (fun i c => if c = 0 then (if i = 0 then 2 else 1) else (if i = 0 then 0 else 3))
  (fun c t => if c = t then 1 else 0)
  ⟨2, 2, fun t i => if i < t then 0 else if t = 0 then (if i = 0 then 2 else 1) else 3⟩ (-5 : Rat) 1 0
  (by intro i c; fin_cases i <;> fin_cases c <;> simp [Fin.sum_univ_two])
  (by intro i j hij; simp [hij])

end examples

section examples2
open PV.Fdd PV.Efdd PV.Plscf

/-! ### FDD family: a diagonal spectral array `G_k = diag((k+2)², 1)`, `U_k = V_k = I` -/
def fG : Nat → Nat → Nat → Fdd.Cx Rat := fun i j k =>
  if i = j then Fdd.Cx.ofReal (if i = 0 then ((k : Rat) + 2) * ((k : Rat) + 2) else 1) else 0
def fI : Nat → Nat → Nat → Fdd.Cx Rat := fun _ i r => if i = r then 1 else 0
def fS : Nat → Nat → Rat := fun k t => if t = 0 then ((k : Rat) + 2) * ((k : Rat) + 2) else 1
def fSq : Nat → Nat → Rat := fun k t => if t = 0 then (k : Rat) + 2 else 1

theorem fSvd : ∀ k, SvdLineOf 2 (fun i j => fG i j k) (fI k) (fI k) (fS k) := by
  intro k
  refine ⟨?_, ?_, ?_, ?_, ?_⟩
  · intro i j hi hj
    interval_cases i <;> interval_cases j <;>
      (apply Fdd.Cx.ext' <;> simp [fG, fI, fS, Fdd.Cx.ofReal, Fdd.Cx.conj])
  · intro a b ha hb
    interval_cases a <;> interval_cases b <;>
      (apply Fdd.Cx.ext' <;> simp [fI, Fdd.Cx.conj])
  · intro a b ha hb
    interval_cases a <;> interval_cases b <;>
      (apply Fdd.Cx.ext' <;> simp [fI, Fdd.Cx.conj])
  · intro t _
    unfold fS; split_ifs
    · positivity
    · norm_num
  · intro t ht
    have : t = 0 := by omega
    subst this
    simp only [fS]
    have : (0 : Rat) ≤ k := Nat.cast_nonneg k
    norm_num
    nlinarith

theorem fSqrt : ∀ k, SqrtOf (fSq k) (fS k) 2 := by
  intro k t _
  unfold fSq fS
  split_ifs
  · exact ⟨by positivity, rfl⟩
  · exact ⟨by norm_num, by norm_num⟩

example := C08_gain_fdd_spec 2 6 fG (fun i => (i : Rat) / 2) fI fI fS fSq 4 2 (by norm_num) (by norm_num)
  (by norm_num) fSvd fSqrt [1] 1
-- on this instance `FDD_mpe` does return a mode (line 2 of the band [0, 4), ratio 16)
example : (match fddMpe 2 2 6 (fun i => (i : Rat) / 2) (svalPlace fSq) (svecPlace fI) [1] 1 with
    | .ok [m] => (m.pick.lo, m.pick.hi, m.pick.idx, m.fn) | _ => (0, 0, 0, 0)) = (0, 4, 3, 3/2) := by
  decide +kernel
example := C08_gain_fdd_per PV.C13.exY (-3 : Rat) (1/100) 4 2 PV.C13.tw4 3 (by norm_num) (by norm_num)
example := C08_gain_fdd_cor PV.C13.exY (-3 : Rat) (1/100) 4 PV.C13.tw4 PV.C13.tw4 (fun t => 1 / ((t : Rat) + 1)) 3
  (by norm_num) (by norm_num)
example := C08_gain_efdd_per (K := Rat) .EFDD (Or.inr rfl) PV.C13.exY (-3) (by norm_num) 3 (by norm_num)
  (1/100) 4 2 PV.C13.tw4
example := C08_gain_efdd_cor (K := Rat) .FSDD (Or.inl rfl) PV.C13.exY (-3) (by norm_num) 3 (by norm_num)
  (1/100) 4 PV.C13.tw4 PV.C13.tw4 (fun t => 1 / ((t : Rat) + 1))
example := C08_time_unit_fdd_per PV.C13.exY (1/100 : Rat) 4 (by norm_num) 4 2 PV.C13.tw4 (1/2)
  (by norm_num) (by norm_num)
example := C08_time_unit_fdd_cor PV.C13.exY (1/100 : Rat) 4 (by norm_num) 4 PV.C13.tw4 PV.C13.tw4
  (fun t => 1 / ((t : Rat) + 1))


/-! ### FDD family, mixing and permutation -/
example := C08_mix_sd PV.C13.exY eRot rfl (1/100 : Rat) 4 2 PV.C13.tw4 PV.C13.tw4
  (fun t => 1 / ((t : Rat) + 1)) 0 1 1 (by decide) (by decide)
example := C08_mix_fdd 2 6 fG (fun i j k => cconj 2 eRot.e (fun μ ν => fG μ ν k) i j) eRot.e eRotOrtho
  (fun _ _ _ _ _ => rfl)
example := C08_perm_fdd 2 (by decide) fG swp swp swpPerm
-- a row with a unique largest component (hypothesis of the last conjunct of `C08_perm_fdd`)
example : ∀ i, i < 2 → i ≠ argmaxTo 2 (fun i => ((fun i => if i = 0 then (⟨1, 1⟩ : Fdd.Cx Rat) else ⟨0, 2⟩) i).normSq) →
    ((fun i => if i = 0 then (⟨1, 1⟩ : Fdd.Cx Rat) else ⟨0, 2⟩) i).normSq
      < ((fun i => if i = 0 then (⟨1, 1⟩ : Fdd.Cx Rat) else ⟨0, 2⟩)
          (argmaxTo 2 (fun i => ((fun i => if i = 0 then (⟨1, 1⟩ : Fdd.Cx Rat) else ⟨0, 2⟩) i).normSq))).normSq := by
  decide +kernel

/-! ### pLSCF: C05's instance (`Sy = 1/(1 + z/2)` on three lines, one channel, order 1), gain `c = 4` -/
open PV.C05 in
theorem ex_plscf_runs :
    ∃ out out' A C, plscfOrder 1 1 3 1 false exOm exSy = some out ∧
      plscfOrder 1 1 3 1 false exOm (fun o ch f => csm 4 (exSy o ch f)) = some out' ∧
      out.M 1 1 ≠ 0 ∧
      rmfd2ac (adOf 1 1 out.alpha) (bnOf 1 1 1 out.beta) = some (A, C) := by
  have h1 : ((plscfOrder 1 1 3 1 false exOm exSy).bind fun out =>
      (rmfd2ac (adOf 1 1 out.alpha) (bnOf 1 1 1 out.beta)).map fun _ => decide (out.M 1 1 ≠ 0))
        = some true := by decide +kernel
  have h2 : (plscfOrder 1 1 3 1 false exOm (fun o ch f => csm 4 (exSy o ch f))).isSome = true := by
    decide +kernel
  cases ho : plscfOrder 1 1 3 1 false exOm exSy with
  | none => rw [ho] at h1; simp at h1
  | some out =>
    rw [ho] at h1
    simp only [Option.bind_some] at h1
    cases hac : rmfd2ac (adOf 1 1 out.alpha) (bnOf 1 1 1 out.beta) with
    | none => rw [hac] at h1; simp at h1
    | some AC =>
      rw [hac] at h1
      simp only [Option.map_some, Option.some.injEq, decide_eq_true_eq] at h1
      obtain ⟨out', ho'⟩ := Option.isSome_iff_exists.mp h2
      exact ⟨out, out', AC.1, AC.2, rfl, ho', h1, hac⟩

open PV.C05 in
theorem ex_Ro_inj : ∀ y : Nat → Rat,
    (∀ i < 1 + 1, ∑ t ∈ range (1 + 1), Ro 3 exOm i t * y t = 0) → ∀ t < 1 + 1, y t = 0 := by
  intro y h
  have h0 := h 0 (by decide)
  have h1 := h 1 (by decide)
  have e00 : Ro 3 exOm 0 0 = 3 := by decide +kernel
  have e01 : Ro 3 exOm 0 1 = 0 := by decide +kernel
  have e10 : Ro 3 exOm 1 0 = 0 := by decide +kernel
  have e11 : Ro 3 exOm 1 1 = 3 := by decide +kernel
  simp only [Finset.sum_range_succ, Finset.sum_range_zero, zero_add, e00, e01, e10, e11] at h0 h1
  intro t ht
  interval_cases t
  · linarith
  · linarith

open PV.C05 in
example : True := by
  obtain ⟨out, out', A, C, h, h', hM, hac⟩ := ex_plscf_runs
  have hinj : ∀ y : Nat → Rat, (∀ I < 1 * 1, ∑ J ∈ range (1 * 1),
      (if false = true then out.M I J else out.M (1 + I) (1 + J)) * y J = 0) → ∀ J < 1 * 1, y J = 0 := by
    intro y hy J hJ
    have := hy 0 (by decide)
    simp only [Nat.mul_one, Finset.sum_range_one, Bool.false_eq_true, if_false] at this
    have hJ0 : J = 0 := by omega
    subst hJ0
    exact (mul_eq_zero.mp this).resolve_left hM
  have := C08_gain_plscf_order 1 1 3 1 false exOm exSy out out' 4 (by norm_num) h h' ex_Ro_inj hinj
  have := C08_gain_plscf 1 1 3 1 false exOm exSy out out' 4 (by norm_num) h h' ex_Ro_inj hinj A C hac
  trivial


open PV.C05 in
example : True := by
  obtain ⟨out, out', A, C, h, h', hM, hac⟩ := ex_plscf_runs
  have hinj : ∀ y : Nat → Rat, (∀ I < 1 * 1, ∑ J ∈ range (1 * 1),
      (if false = true then out.M I J else out.M (1 + I) (1 + J)) * y J = 0) → ∀ J < 1 * 1, y J = 0 := by
    intro y hy J hJ
    have := hy 0 (by decide)
    simp only [Nat.mul_one, Finset.sum_range_one, Bool.false_eq_true, if_false] at this
    have hJ0 : J = 0 := by omega
    subst hJ0
    exact (mul_eq_zero.mp this).resolve_left hM
  have e : ((1 / 4 : Rat))⁻¹ = 4 := by norm_num
  have := C08_time_unit_plscf_run 1 1 3 1 false exOm exSy out out' (1/4) (by norm_num) h (by rw [e]; exact h')
    ex_Ro_inj hinj A C hac
  trivial

open PV.C05 in
example : ∃ out X Z, OrderCert 1 1 3 1 false exOm exSy out X Z := by
  obtain ⟨out, _, _, _, h, _⟩ := ex_plscf_runs
  obtain ⟨X, Z, c⟩ := plscfOrder_sound 1 1 3 1 false exOm exSy out h
  exact ⟨out, X, Z, c⟩

/-! ### time unit -/
example := C08_time_unit_ssi_model ⟨-1, 7⟩ 8 6 10 (by norm_num)
example := C08_time_unit_ssi (Complex.exp 1) 1 10 (by norm_num) (by norm_num)
  (by rw [Complex.log_exp (by simp; linarith [Real.pi_pos]) (by simp; linarith [Real.pi_pos])]; norm_num)
/-- an admissible `sqrt` on `ℚ` does not exist (2 has no rational root); over `ℝ` it does -/
theorem real_IsSqrt : IsSqrt Real.sqrt := fun x hx => ⟨Real.sqrt_nonneg x, Real.mul_self_sqrt hx⟩
example := C08_time_unit_plscf real_IsSqrt (2 * Real.pi) (1/100) 42 10 (by norm_num) true
  ⟨1, 1, fun _ _ => 1⟩ [⟨⟨1/2, 0⟩, ⟨-7/10, 0⟩, [⟨1, 0⟩]⟩]


example := C08_time_unit_efdd_per (K := Rat) .EFDD (Or.inr rfl) PV.C13.exY (1/100) 4 (by norm_num) (1/2)
  (by norm_num) 4 2 PV.C13.tw4
example := C08_time_unit_efdd_cor (K := Rat) .FSDD PV.C13.exY (1/100) 4 (by norm_num) 4 PV.C13.tw4
  PV.C13.tw4 (fun t => 1 / ((t : Rat) + 1))
-- `C08_mix_dat_gram`: one past row, one future row, two samples; `B_p = [-1]`, `B_f = [-1]`
example := C08_mix_dat_gram (K := Rat) (a := 1) (b := 1) (n := 2) !![1, 2] !![3, 1] !![-1] !![-1] !![1/5]
  !![1/5] (by decide +kernel) (by decide +kernel) (by decide +kernel)

end examples2

end PV.C08
