import PyomaVerif.Model.Wiring
import PyomaVerif.Props.C15X
import PyomaVerif.Props.WiringGuard
import PyomaVerif.Ops.C15X
/-!
# `PlotGuarded` / `AllGuarded` for the extended term semantics, derived from the source (C15 cl. 4)

`C15_gating_mpe_from_plot*` assume `PlotGuarded sx`.  As for `mpe` (`Props/WiringGuard.lean`) the hypothesis is
discharged for the term semantics the driver runs (`orch_trace_x`), instantiated with the unguarded-class lists READ
OFF THE SOURCE tables (`Wiring.unguarded`, regenerated from the tested tree on every run): the harness passes `[]`
for both; these theorems say that this is what the tree gives.
-/
namespace PV.WiringGuard
open PV.Wiring

/-- every algorithm class's `mpe_from_plot` tests `self.result` before it stores anything or opens the dialog. -/
theorem C15_PlotGuarded_from_source :
    PV.C15.PlotGuarded (PV.Ops.C15X.termSemX (unguarded "mpe") (unguarded "mpe_from_plot")) := by
  rw [C15_mpe_from_plot_guarded_from_source]
  intro c
  rfl

/-- … and `mpe` of the same semantics (so that `Props/C15.lean`'s gating theorems apply to `.base` letters). -/
theorem C15_AllGuarded_x_from_source :
    PV.C15.AllGuarded (PV.Ops.C15X.termSemX (unguarded "mpe") (unguarded "mpe_from_plot")).toSem := by
  rw [C15_mpe_guarded_from_source]
  intro c
  rfl

end PV.WiringGuard
