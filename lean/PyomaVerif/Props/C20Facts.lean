import PyomaVerif.Props.C20
import PyomaVerif.Props.C10
import PyomaVerif.Model.PlotFacts
import Mathlib.Analysis.SpecialFunctions.Log.Base
/-!
# C20 — limits, marker classes for labels in {0, 1}, decibel transform (depth round 2)

* `C20_limits_x`, `C20_stab_ylim`: the limits the three functions set are the user's frequency pair,
  both ends (and, for the stabilisation chart with the unstable poles shown, `[ordmin, ordmax+1]`);
  without `freqlim` nothing is set.  `stab_markers_inside_ylim`: with `ordmin = 0` and
  `ordmax ≥ (columns−1)·step` every marker lies inside the y-limits.
* `C20_stab_classes_01`, `C20_cluster_classes_01`, `C20_stab_other_shown`: when the label table takes
  the values 0 and 1 only (`C10_label_01`: every table `SC_apply` returns — `C20_labels_scApply_01`),
  the unstable markers are exactly "every other retained pole" of the statement: the retained poles not
  labelled stable, each once; no retained pole is left without a marker.
* `C20_cmif_db`, `C20_cmif_db_real`: the ordinates of `CMIF_plot` are `10·log10(S[k,k,f] / M)`, `M` the
  maximum of the first singular value; over `ℝ`: `10·log10 S[k,k,f] − 10·log10 M` for positive values,
  `0 dB` at the maximum of the first curve and `≤ 0` elsewhere on it.
-/
namespace PV.C20
open PV PV.Plot

/-! ## limits -/

/-- **any frequency limits**: all three functions set exactly the pair the user gave — lower AND upper
    end — and set nothing when `freqlim is None`. -/
theorem C20_limits_x (freqlim : Option (Rat × Rat)) (hide : Bool) (ordmin ordmax : Int) :
    (stabLimits freqlim hide ordmin ordmax).xlim = freqlim
    ∧ (clusterLimits freqlim).xlim = freqlim
    ∧ (cmifLimits freqlim).xlim = freqlim := by
  cases freqlim <;> simp [stabLimits, clusterLimits, cmifLimits, setXlim]

/-- the y-limits: only the stabilisation chart with the unstable poles shown sets them, to
    `[ordmin, ordmax + 1]`; cluster and CMIF never do. -/
theorem C20_stab_ylim (freqlim : Option (Rat × Rat)) (hide : Bool) (ordmin ordmax : Int) :
    (stabLimits freqlim hide ordmin ordmax).ylim = (if hide then none else some (ordmin, ordmax + 1))
    ∧ (clusterLimits freqlim).ylim = none ∧ (cmifLimits freqlim).ylim = none := ⟨rfl, rfl, rfl⟩

/-- every marker of the stabilisation chart has an ordinate `c·step` with `c` a column of the table:
    with `ordmin = 0` and `ordmax ≥ (columns − 1)·step` (the classes pass `ordmax` itself) no marker is
    cut off by the y-limits. -/
theorem stab_markers_inside_ylim {K : Type} (Fn : Mat (Option K)) (Lab : Mat Int) (step : Nat) (v : Int)
    (ordmax : Int) (hmax : ((Fn.c - 1) * step : Nat) ≤ ordmax) (p : K × Nat)
    (hp : p ∈ finiteX (stabXY Fn Lab step v)) :
    (0 : Int) ≤ p.2 ∧ (p.2 : Int) < ordmax + 1 := by
  rw [C20_stab_label] at hp
  unfold stabSpec at hp
  simp only [List.mem_flatMap, List.mem_range, List.mem_filterMap] at hp
  obtain ⟨c, hc, r, _, hrc⟩ := hp
  split at hrc
  · cases hx : Fn.e r c with
    | none => rw [hx] at hrc; cases hrc
    | some x =>
      rw [hx] at hrc
      simp only [Option.map_some, Option.some.injEq] at hrc
      subst hrc
      refine ⟨Int.natCast_nonneg _, ?_⟩
      have : c * step ≤ (Fn.c - 1) * step := Nat.mul_le_mul_right _ (by omega)
      have h2 : ((c * step : Nat) : Int) ≤ ((Fn.c - 1) * step : Nat) := by exact_mod_cast this
      show ((c * step : Nat) : Int) < ordmax + 1
      omega
  · cases hrc

/-! ## marker classes for labels in {0, 1} -/

/-- "every OTHER retained pole": one entry per cell whose label is not 1 and whose frequency is not NaN -/
def stabSpecOther {K : Type} (Fn : Mat (Option K)) (Lab : Mat Int) (step : Nat) : List (K × Nat) :=
  (List.range Fn.c).flatMap fun c => (List.range Fn.r).filterMap fun r =>
    if Lab.e r c ≠ 1 then (Fn.e r c).map fun x => (x, c * step) else none

def clusterSpecOther {K : Type} (Fn Xi : Mat (Option K)) (Lab : Mat Int) : List (K × K) :=
  (List.range Fn.c).flatMap fun c => (List.range Fn.r).filterMap fun r =>
    if Lab.e r c ≠ 1 then
      match Fn.e r c, Xi.e r c with
      | some a, some b => some (a, b)
      | _, _ => none
    else none

/-- the label table takes the values 0 and 1 only -/
def Labels01 (Lab : Mat Int) : Prop := ∀ r c, Lab.e r c = 0 ∨ Lab.e r c = 1

/-- **marker classes**: for labels in {0, 1} the poles drawn as unstable (label 0) are exactly every
    retained pole that is not drawn as stable. -/
theorem C20_stab_classes_01 {K : Type} (Fn : Mat (Option K)) (Lab : Mat Int) (step : Nat)
    (h01 : Labels01 Lab) : stabSpec Fn Lab step 0 = stabSpecOther Fn Lab step := by
  unfold stabSpec stabSpecOther
  apply List.flatMap_congr
  intro c _
  apply List.filterMap_congr
  intro r _
  rcases h01 r c with h | h <;> simp [h]

theorem C20_cluster_classes_01 {K : Type} (Fn Xi : Mat (Option K)) (Lab : Mat Int)
    (h01 : Labels01 Lab) : clusterSpec Fn Xi Lab 0 = clusterSpecOther Fn Xi Lab := by
  unfold clusterSpec clusterSpecOther
  apply List.flatMap_congr
  intro c _
  apply List.filterMap_congr
  intro r _
  rcases h01 r c with h | h
  · simp [h]; rfl
  · simp [h]

/-- **the statement's second clause for the executable `stabMarkers`**: with the unstable poles shown and
    labels in {0, 1}, the scatter carries one marker for every OTHER retained pole. -/
theorem C20_stab_other_shown (Fn : Mat (Option Rat)) (Lab : Mat Int) (step : Nat)
    (cov : Option (Mat (Option Rat))) (h01 : Labels01 Lab) :
    finiteX (stabMarkers Fn Lab step false cov).stable = stabSpec Fn Lab step 1
    ∧ ∃ u, (stabMarkers Fn Lab step false cov).unstable = some u
        ∧ finiteX u = stabSpecOther Fn Lab step := by
  obtain ⟨h1, -, h3⟩ := C20_stab Fn Lab step false cov
  obtain ⟨u, hu, hf⟩ := h3 rfl
  exact ⟨h1, u, hu, by rw [hf, C20_stab_classes_01 Fn Lab step h01]⟩

/-- every label table `SC_apply` returns (C10's executable `scApply`) satisfies the premise -/
theorem C20_labels_scApply_01 (Fn Xi : Mat NR) (Phi : Ten3 (Option CQ)) (ordmin ordmax step : Nat)
    (eF eX eP : Rat) {Lab : Mat Nat}
    (h : scApply Fn Xi Phi ordmin ordmax step eF eX eP = .ok Lab) :
    Labels01 ⟨Lab.r, Lab.c, fun r c => (Lab.e r c : Int)⟩ := by
  intro r c
  rcases PV.C10.C10_label_01 Fn Xi Phi ordmin ordmax step eF eX eP h r c with h0 | h1
  · left; show ((Lab.e r c : Nat) : Int) = 0; rw [h0]; rfl
  · right; show ((Lab.e r c : Nat) : Int) = 1; rw [h1]; rfl

/-! ## decibel transform -/

/-- **`CMIF_plot` ordinates, any logarithm**: the dB curves are the ratio curves of `cmifCurves` under
    `q ↦ 10·log10 q`, point by point (same count, same grid length, same exceptions). -/
theorem C20_cmif_db {K : Type} [Mul K] (ten : K) (log10 : Rat → K) (n nf : Nat) (S : Nat → Nat → Rat)
    (nSv : Option Int) :
    (∀ cs, cmifCurves n nf S nSv = .ok cs →
      cmifCurvesDb ten log10 n nf S nSv = .ok (cs.map fun c => c.map fun q => ten * log10 q))
    ∧ (∀ e, cmifCurves n nf S nSv = .error e → cmifCurvesDb ten log10 n nf S nSv = .error e) := by
  constructor
  · intro cs h; simp only [cmifCurvesDb, h]
  · intro e h; simp only [cmifCurvesDb, h]

/-- the real-valued decibel function `10·log₁₀` on rationals -/
noncomputable def dbReal (q : Rat) : ℝ := Real.logb 10 (q : ℝ)

/-- **decibel level relative to the maximum of the first singular value** (over `ℝ`): for an admitted
    request and a non-empty grid the curves exist, curve `k` at `f` is
    `10·log₁₀ S[k,k,f] − 10·log₁₀ M` wherever `S[k,k,f] > 0` (`M > 0` the maximum of `S[0,0,:]`), the
    first curve is `0 dB` at its maximum and `≤ 0 dB` wherever it is positive. -/
theorem C20_cmif_db_real (n nf : Nat) (S : Nat → Nat → Rat) (nSv : Option Int) (m : Int)
    (hadm : cmifRequest n nSv = .ok m) (hnf : 0 < nf) :
    ∃ curves M fM, cmifCurvesDb (10 : ℝ) dbReal n nf S nSv = .ok curves ∧ curves.length = m.toNat ∧
      fM < nf ∧ M = S 0 fM ∧ (∀ f, f < nf → S 0 f ≤ M) ∧
      (∀ k, k < m.toNat → curves[k]? = some ((List.range nf).map fun f => 10 * dbReal (S k f / M))) ∧
      (0 < M → ∀ k f, 0 < S k f →
        10 * dbReal (S k f / M) = 10 * Real.logb 10 (S k f : ℝ) - 10 * Real.logb 10 (M : ℝ)) ∧
      (0 < M → 10 * dbReal (S 0 fM / M) = 0 ∧ ∀ f, f < nf → 0 < S 0 f → 10 * dbReal (S 0 f / M) ≤ 0) := by
  obtain ⟨cs, M, fM, hcs, hlen, hfM, hM, hmax, hk⟩ := C20_cmif n nf S nSv m hadm hnf
  refine ⟨cs.map fun c => c.map fun q => 10 * dbReal q, M, fM, (C20_cmif_db _ _ n nf S nSv).1 cs hcs,
    by simpa using hlen, hfM, hM, hmax, ?_, ?_, ?_⟩
  · intro k hk'
    rw [List.getElem?_map, hk k hk']
    simp [List.map_map, Function.comp_def]
  · intro hMpos k f hS
    have h1 : (0 : ℝ) < (S k f : ℝ) := by exact_mod_cast hS
    have h2 : (0 : ℝ) < (M : ℝ) := by exact_mod_cast hMpos
    unfold dbReal
    rw [Rat.cast_div, Real.logb_div (ne_of_gt h1) (ne_of_gt h2)]
    ring
  · intro hMpos
    have h2 : (0 : ℝ) < (M : ℝ) := by exact_mod_cast hMpos
    refine ⟨?_, ?_⟩
    · unfold dbReal
      rw [← hM, div_self (ne_of_gt hMpos)]
      simp
    · intro f hf hS
      have h1 : (0 : ℝ) < (S 0 f : ℝ) := by exact_mod_cast hS
      have hle : ((S 0 f / M : Rat) : ℝ) ≤ 1 := by
        have : S 0 f / M ≤ 1 := (div_le_one hMpos).mpr (hmax f hf)
        exact_mod_cast this
      have hpos : (0 : ℝ) < ((S 0 f / M : Rat) : ℝ) := by
        have : 0 < S 0 f / M := div_pos hS hMpos
        exact_mod_cast this
      unfold dbReal
      have := Real.logb_nonpos (b := 10) (by norm_num) (le_of_lt hpos) hle
      linarith

/-! ## mutant and non-vacuity -/

/-- the seeded change `ax.set_xlim(0, freqlim[1])` in `cluster_plot` -/
def clusterLimits_zeroLo (freqlim : Option (Rat × Rat)) : Limits :=
  ⟨match freqlim with | none => none | some l => some (0, l.2), none⟩

/-- … fails `C20_limits_x` at the limits `(2, 5)` -/
theorem M_xlim_zeroLo_fails : (clusterLimits_zeroLo (some (2, 5))).xlim ≠ some (2, 5) := by decide

example : (stabLimits (some (2, 5)) false 0 7) = ⟨some (2, 5), some (0, 8)⟩ := by decide
example : Labels01 exLab := by
  intro r c; unfold exLab; simp only; split <;> simp
example : stabSpecOther exFn exLab 2 = [(10, 2), (21, 4)] := by decide
/-- a label table with other values: the classes of the statement do differ then (premise needed) -/
example : stabSpec exFn ⟨2, 3, fun _ _ => 5⟩ 2 0 ≠ stabSpecOther exFn ⟨2, 3, fun _ _ => 5⟩ 2 := by decide
/-- `C20_cmif_db_real` on a 2-channel, 3-line instance with `nSv = "all"` -/
example := C20_cmif_db_real 2 3 (fun k f => if k = 0 then (f : Rat) + 1 else 1 / 2) none 2 rfl (by decide)

end PV.C20
