import PyomaVerif.Props.WiringDefaults
/-! Default values as regenerated obligations — part C07 (see `Props/WiringDefaults.lean`; one module per property so that a
changed default is reported by the property it belongs to). -/
namespace PV.WiringDefaults
open PV.Defaults PV.DefaultsTbl PV.Wiring

/-- **C07 defaults.** `DF1 = 0.1, DF2 = 1.0, cm = 1, MAClim = 0.85, sppk = 3, npmax = 20` are the defaults of
    `mpe` AND of `mpe_from_plot` as seen from EFDD, FSDD and EFDD_MS, of the function `fdd.EFDD_mpe`, and of the fields
    of the run-parameter class of each of the three classes — class = function = run parameters; the bell routine
    `fdd.SDOF_bellandMS` has the same `cm`, `MAClim` and its band default is `DF2`'s.  Both `mpe` signatures take
    nothing else besides the request (`sel_freq`) resp. the plot limits (`freqlim`, default None). -/
theorem C07_defaults :
    methodDefaults efddClasses "mpe" efddFit = true
    ∧ methodDefaults efddClasses "mpe_from_plot" (efddFit ++ [("freqlim", .none)]) = true
    ∧ funcDefaults "fdd.EFDD_mpe" efddFit = true
    ∧ rpDefaults efddClasses (efddFit ++ [("sel_freq", .none)]) = true
    ∧ funcDefaults "fdd.SDOF_bellandMS" [("cm", .int 1), ("MAClim", .float 17 20), ("DF", .float 1 1)] = true
    ∧ funcDefault "fdd.SDOF_bellandMS" "DF" = funcDefault "fdd.EFDD_mpe" "DF2"
    ∧ efddClasses.all (fun c => methodSig c "mpe" == some ["sel_freq", "DF1", "DF2", "cm", "MAClim", "sppk", "npmax"]
        && methodDefault c "mpe" "sel_freq" == some .required) = true
    ∧ efddClasses.all (fun c => (methodSig c "mpe_from_plot").map (sameSet ["DF1", "DF2", "cm", "MAClim", "sppk", "npmax", "freqlim"])
        == some true) = true := by
  decide

/-- **C06 defaults.** the half-width of the search band is `DF = 0.1` in `FDD.mpe`, `FDD.mpe_from_plot` (seen from FDD
    and FDD_MS), in `fdd.FDD_mpe` and in the `DF` field of their run parameters. -/
theorem C06_defaults :
    methodDefaults fddClasses "mpe" [("DF", .float 1 10), ("sel_freq", .required)] = true
    ∧ methodDefaults fddClasses "mpe_from_plot" [("DF", .float 1 10), ("freqlim", .none)] = true
    ∧ funcDefaults "fdd.FDD_mpe" [("DF", .float 1 10)] = true
    ∧ funcDefaulted "fdd.FDD_mpe" = ["DF"]
    ∧ rpDefaults fddClasses [("DF", .float 1 10), ("sel_freq", .none)] = true := by
  decide

end PV.WiringDefaults
