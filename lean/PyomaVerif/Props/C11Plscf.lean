import PyomaVerif.Props.C11
import PyomaVerif.Lemmas.MpePlscf
/-!
# C11 — `plscf.pLSCF_mpe(order="find_min")` as coded, for an arbitrary label value

`plscfMpeWith chk lab` selects the poles with `Lab == lab`; the pinned code is `lab = 7` (`plscfMpe`, defect F6 —
`SC_apply` writes 0/1), the obvious repair is `lab = 1`.  Everything below holds for every `lab`, so it describes the
code as it stands (on tables that do carry a label 7) and the repaired variant alike.

* `C11_plscf_find_min_found`, `C11_plscf_find_min_not_found`, `C11_plscf_find_min_char`,
  `C11_plscf_find_min_degenerate`: which order is reported, which cells are read, for every input — as coded,
  including the last column that is never tested, the `ii -= 1` after the `break`, and the wrap to index `-1`.
* `plscfColTest_iff`: what the column test means on disjoint open bands.
* `C11_plscf_find_min_order_iff`: under the property's premises a qualifying order `i` is the reported one **iff** it is
  not the last column and no lower column passes the coded test.
* `C11_plscf_find_min_premises`: under the property's premises the routine returns the property's answer **provided**
  the qualifying order is not the last column and no lower column passes the (weaker) coded test; the deviations are
  listed there and witnessed in `Mutants/C11.lean`.
* `C11_plscf_relabel`: only the mask `Lab == lab` matters (so runs of the real code on a table whose stable poles are
  labelled 7 are runs of the `lab = 1` variant on the 0/1 table).
* `C11_find_min_from_order_first`, `C11_find_min_qual_iff_poles` (SSI): the "distinct value, not pole" deviation.
-/
namespace PV.C11
open PV

section plscf
variable (chk : Rat → NR → Bool) (lab : Int) (freq : List Rat) (Fn Xi : Mat NR) (Phi : Ten3 (Option CQ))
  (L : Mat Int) (deltaf rtol : Rat)

/-- what is returned when the `while` loop stops because column `i` passed: the distinct values of column `i` of `aa`
    as frequencies, damping and shape of the first nearest row of that same column, `order_out = i`. -/
def plscfFoundOut (aa Xi : Mat NR) (Phi : Ten3 (Option CQ)) (i : Nat) : MpeOut :=
  let u := uniqueNonNan (fun r => aa.e r i) aa.r
  ⟨{ fn := u.map some
     xi := (pickRows aa i u).map (fun r => Xi.e r i)
     phi := (pickRows aa i u).map (fun r => ten3Row Phi r i) }, .int (i : Nat)⟩

/-- what is returned when the loop runs into the `break` at the last column `n − 1`: the frequencies are the distinct
    values of the **last** column; damping and shape are read from column `col` (`n − 2`; `0` when `n = 1`, the
    Python index `-1`) at the rows nearest to those frequencies — or not at all if that column is empty;
    `order_out = n − 2` (`-1` when `n = 1`). -/
def plscfBreakOut (aa Xi : Mat NR) (Phi : Ten3 (Option CQ)) (n : Nat) : MpeOut :=
  let u := uniqueNonNan (fun r => aa.e r (n - 1)) aa.r
  let col := if n = 1 then 0 else n - 2
  ⟨{ fn := u.map some
     xi := if colAny aa col then (pickRows aa col u).map (fun r => Xi.e r col) else []
     phi := if colAny aa col then (pickRows aa col u).map (fun r => ten3Row Phi r col) else [] },
   .int ((n : Int) - 2)⟩

/-- **found.** If column `i` is **not the last one**, passes the coded test, and no lower column does, the routine
    reports `i` and reads everything from column `i` of `aa`. -/
theorem C11_plscf_find_min_found (hne : freq ≠ []) (i : Nat) (hi : i + 1 < Fn.c)
    (ht : plscfColTest (aggOpen Fn L lab freq deltaf) freq rtol i = true)
    (hlow : ∀ i', i' < i → plscfColTest (aggOpen Fn L lab freq deltaf) freq rtol i' = false) :
    plscfMpeWith chk lab freq Fn Xi Phi .findMin (some L) deltaf rtol
      = .ok (plscfFoundOut (aggOpen Fn L lab freq deltaf) Xi Phi i) := by
  set aa := aggOpen Fn L lab freq deltaf with haa
  have hcc : aa.c = Fn.c := rfl
  have hw := plscfWhile_found aa freq rtol i (by rw [hcc]; exact hi) ht Fn.c 0 (by rw [hcc]; omega)
    (Nat.zero_le _) (fun i' _ h => hlow i' h)
  rw [plscfMpeWith_findMin_eq chk lab freq Fn Xi Phi L deltaf rtol hne (by omega) _ _ hw]
  have hcol : (if i + 1 = 0 then Fn.c - 1 else i + 1 - 1) = i := by simp
  rw [hcol]
  -- the column holds a value: it has `len(sel_freq) ≥ 1` distinct ones
  have hv : ∃ r, r < aa.r ∧ aa.e r i ≠ none := by
    unfold plscfColTest at ht
    split at ht
    swap
    · cases ht
    rename_i hlen
    cases hu : uniqueNonNan (fun r => aa.e r i) aa.r with
    | nil =>
      rw [hu] at hlen
      exact absurd (List.length_eq_zero_iff.mp hlen.symm) hne
    | cons v t =>
      have : v ∈ uniqueNonNan (fun r => aa.e r i) aa.r := by rw [hu]; exact List.mem_cons_self
      obtain ⟨r, hr, hval⟩ := (mem_uniqueNonNan _ _ _).mp this
      exact ⟨r, hr, by rw [hval]; simp⟩
  have hany : colAny aa i = true := (colAny_aggOpen Fn L lab freq deltaf i).mpr hv
  rw [hany, if_pos rfl, plscfPick_ok aa Xi Phi i hv]
  simp [plscfFoundOut]

/-- **not found.** If no column below the last one passes the coded test — whatever the last column holds — the
    routine still returns: frequencies of the last column, parameters (if any) from the column before it,
    `order_out = columns − 2`. -/
theorem C11_plscf_find_min_not_found (hne : freq ≠ []) (hc : 0 < Fn.c)
    (hno : ∀ i, i + 1 < Fn.c → plscfColTest (aggOpen Fn L lab freq deltaf) freq rtol i = false) :
    plscfMpeWith chk lab freq Fn Xi Phi .findMin (some L) deltaf rtol
      = .ok (plscfBreakOut (aggOpen Fn L lab freq deltaf) Xi Phi Fn.c) := by
  set aa := aggOpen Fn L lab freq deltaf with haa
  have hcc : aa.c = Fn.c := rfl
  have hw := plscfWhile_notfound aa freq rtol (by rw [hcc]; exact hno) Fn.c 0 hc (by rw [hcc]; omega)
  rw [hcc] at hw
  rw [plscfMpeWith_findMin_eq chk lab freq Fn Xi Phi L deltaf rtol hne hc _ _ hw]
  have hcol : (if Fn.c - 1 = 0 then Fn.c - 1 else Fn.c - 1 - 1) = (if Fn.c = 1 then 0 else Fn.c - 2) := by
    by_cases h1 : Fn.c = 1
    · simp [h1]
    · have : ¬ Fn.c - 1 = 0 := by omega
      simp only [this, h1, if_false]; omega
  rw [hcol]
  have hoo : (((Fn.c - 1 : Nat) : Int) - 1) = (Fn.c : Int) - 2 := by omega
  rw [hoo]
  by_cases hany : colAny aa (if Fn.c = 1 then 0 else Fn.c - 2) = true
  · have hv := (colAny_aggOpen Fn L lab freq deltaf _).mp hany
    rw [if_pos hany, plscfPick_ok aa Xi Phi _ hv]
    simp [plscfBreakOut, hany]
  · rw [if_neg hany]
    simp [plscfBreakOut, hany]

/-- **pLSCF `find_min`, full characterisation (as coded, any label value).**  With at least one request and at least
    one column the call never raises, and its result is one of exactly two forms: the least column *below the last
    one* passing the coded test, read whole from that column; or, when there is none, the `break` outcome. -/
theorem C11_plscf_find_min_char (hne : freq ≠ []) (hc : 0 < Fn.c) :
    (∃ i, i + 1 < Fn.c ∧ plscfColTest (aggOpen Fn L lab freq deltaf) freq rtol i = true ∧
        (∀ i', i' < i → plscfColTest (aggOpen Fn L lab freq deltaf) freq rtol i' = false) ∧
        plscfMpeWith chk lab freq Fn Xi Phi .findMin (some L) deltaf rtol
          = .ok (plscfFoundOut (aggOpen Fn L lab freq deltaf) Xi Phi i)) ∨
    ((∀ i, i + 1 < Fn.c → plscfColTest (aggOpen Fn L lab freq deltaf) freq rtol i = false) ∧
        plscfMpeWith chk lab freq Fn Xi Phi .findMin (some L) deltaf rtol
          = .ok (plscfBreakOut (aggOpen Fn L lab freq deltaf) Xi Phi Fn.c)) := by
  classical
  by_cases hex : ∃ i, i + 1 < Fn.c ∧ plscfColTest (aggOpen Fn L lab freq deltaf) freq rtol i = true
  · left
    refine ⟨Nat.find hex, (Nat.find_spec hex).1, (Nat.find_spec hex).2, ?_, ?_⟩
    · intro i' hi'
      have := Nat.find_min hex hi'
      have hlt : i' + 1 < Fn.c := by have := (Nat.find_spec hex).1; omega
      cases ht : plscfColTest (aggOpen Fn L lab freq deltaf) freq rtol i' with
      | false => rfl
      | true => exact absurd ⟨hlt, ht⟩ this
    · apply C11_plscf_find_min_found chk lab freq Fn Xi Phi L deltaf rtol hne _ (Nat.find_spec hex).1
        (Nat.find_spec hex).2
      intro i' hi'
      have := Nat.find_min hex hi'
      have hlt : i' + 1 < Fn.c := by have := (Nat.find_spec hex).1; omega
      cases ht : plscfColTest (aggOpen Fn L lab freq deltaf) freq rtol i' with
      | false => rfl
      | true => exact absurd ⟨hlt, ht⟩ this
  · right
    have hno : ∀ i, i + 1 < Fn.c → plscfColTest (aggOpen Fn L lab freq deltaf) freq rtol i = false := by
      intro i hi
      cases ht : plscfColTest (aggOpen Fn L lab freq deltaf) freq rtol i with
      | false => rfl
      | true => exact absurd ⟨i, hi, ht⟩ hex
    exact ⟨hno, C11_plscf_find_min_not_found chk lab freq Fn Xi Phi L deltaf rtol hne hc hno⟩

/-- the remaining inputs: no label table → `ValueError`; no request → nothing, `order_out = np.empty(0)`;
    a table without columns → `IndexError` (`aa[:, 0]`). -/
theorem C11_plscf_find_min_degenerate :
    plscfMpeWith chk lab freq Fn Xi Phi .findMin none deltaf rtol = .error "ValueError" ∧
    plscfMpeWith chk lab [] Fn Xi Phi .findMin (some L) deltaf rtol = .ok ⟨{}, .arr []⟩ ∧
    (freq ≠ [] → Fn.c = 0 →
      plscfMpeWith chk lab freq Fn Xi Phi .findMin (some L) deltaf rtol = .error "IndexError") := by
  refine ⟨rfl, rfl, ?_⟩
  intro hne hc
  have hemp : freq.isEmpty = false := by
    cases freq with
    | nil => exact absurd rfl hne
    | cons a t => rfl
  have hcc : (aggOpen Fn L lab freq deltaf).c = 0 := hc
  unfold plscfMpeWith
  simp only [hemp, Bool.false_eq_true, if_false, hcc, if_true]
  rfl

/-- **only the mask `Lab == lab` matters**: the pinned routine (`lab = 7`) on a table whose stable poles are labelled
    7 is the `lab = 1` variant on the 0/1 table. -/
theorem C11_plscf_relabel (lab' : Int) (L' : Mat Int) (order : MpeOrder)
    (h : ∀ r o, L.e r o = lab ↔ L'.e r o = lab') :
    plscfMpeWith chk lab freq Fn Xi Phi order (some L) deltaf rtol
      = plscfMpeWith chk lab' freq Fn Xi Phi order (some L') deltaf rtol := by
  have hagg : aggOpen Fn L lab freq deltaf = aggOpen Fn L' lab' freq deltaf := by
    unfold aggOpen whereEq
    simp only [Mat.mk.injEq, true_and]
    funext i o
    by_cases hl : L.e i o = lab
    · simp [hl, (h i o).mp hl]
    · have : ¬ L'.e i o = lab' := fun h' => hl ((h i o).mpr h')
      simp [hl, this]
  cases order with
  | findMin => unfold plscfMpeWith; simp only [hagg]
  | int o => rfl
  | list os => rfl

/-- `v` is the frequency of a retained, non-zero pole of column `i` carrying the label `lab` -/
def StableValLab (Fn : Mat NR) (L : Mat Int) (lab : Int) (i : Nat) (v : Rat) : Prop :=
  ∃ r, r < Fn.r ∧ L.e r i = lab ∧ Fn.e r i = some v ∧ v ≠ 0

/-- **what the coded column test means** (requests ascending, open bands `(f − deltaf, f + deltaf)` disjoint): column
    `i` passes iff its distinct labelled in-band frequencies `vs` (ascending) are as many as the requests **in total**
    (not one per band) and **at least one** of them is `isclose` to the request at the same position (`.any()`,
    not all). -/
theorem plscfColTest_iff (hd : OpenBandsDisjoint freq deltaf) (i : Nat) :
    plscfColTest (aggOpen Fn L lab freq deltaf) freq rtol i = true ↔
      ∃ vs : List Rat, vs.Pairwise (· < ·) ∧ vs.length = freq.length ∧
        (∀ v, v ∈ vs ↔ StableValLab Fn L lab i v ∧ InSomeOpenBand freq deltaf v) ∧
        ∃ k, ∃ (h1 : k < vs.length) (h2 : k < freq.length),
          |vs[k] - freq[k]| ≤ iscloseAtol + rtol * |freq[k]| := by
  set aa := aggOpen Fn L lab freq deltaf with haa
  have hmem : ∀ v, v ∈ uniqueNonNan (fun r => aa.e r i) aa.r ↔
      StableValLab Fn L lab i v ∧ InSomeOpenBand freq deltaf v := by
    intro v
    rw [mem_uniqueNonNan]
    constructor
    · rintro ⟨r, hr, hval⟩
      obtain ⟨a, b, c, d⟩ := (aggOpen_some Fn L lab freq deltaf hd r i v).mp hval
      exact ⟨⟨r, hr, a, b, c⟩, d⟩
    · rintro ⟨⟨r, hr, a, b, c⟩, d⟩
      exact ⟨r, hr, (aggOpen_some Fn L lab freq deltaf hd r i v).mpr ⟨a, b, c, d⟩⟩
  constructor
  · intro ht
    unfold plscfColTest at ht
    split at ht
    swap
    · cases ht
    rename_i hlen
    obtain ⟨k, h1, h2, hk⟩ := (anycloseL_iff rtol _ freq hlen).mp ht
    exact ⟨_, uniqueSorted_sorted _, hlen, hmem, k, h1, h2, (isclose_some _ _ _).mp hk⟩
  · rintro ⟨vs, hsorted, hlen, hvs, k, h1, h2, hk⟩
    have heq : uniqueNonNan (fun r => aa.e r i) aa.r = vs := by
      apply sorted_ext _ _ (uniqueSorted_sorted _) hsorted
      intro x
      show x ∈ uniqueNonNan (fun r => aa.e r i) aa.r ↔ x ∈ vs
      rw [hmem, hvs]
    unfold plscfColTest
    rw [heq, if_pos hlen, anycloseL_iff rtol vs freq hlen]
    exact ⟨k, h1, h2, (isclose_some _ _ _).mpr hk⟩

/-- the property's qualifying condition at column `i`, read on distinct values: the `k`-th request has exactly one
    distinct labelled frequency inside its open band, within `isclose` of it, and no other labelled in-band
    frequency exists. -/
def OnePerBand (Fn : Mat NR) (L : Mat Int) (lab : Int) (freq : List Rat) (deltaf rtol : Rat) (i : Nat) : Prop :=
  ∃ vs : List Rat, vs.length = freq.length ∧
    (∀ k (h1 : k < vs.length) (h2 : k < freq.length), StableValLab Fn L lab i vs[k] ∧
      freq[k] - deltaf < vs[k] ∧ vs[k] < freq[k] + deltaf ∧ |vs[k] - freq[k]| ≤ iscloseAtol + rtol * |freq[k]|) ∧
    (∀ v, StableValLab Fn L lab i v → InSomeOpenBand freq deltaf v → v ∈ vs)

/-- a column that qualifies in the property's sense passes the coded test (the converse fails:
    `Mutants.plscf_lab1_any_accepts_far_pole`, `Mutants.plscf_lab1_counts_total_not_per_band`). -/
theorem onePerBand_passes (hne : freq ≠ []) (hd : OpenBandsDisjoint freq deltaf) (i : Nat)
    (hq : OnePerBand Fn L lab freq deltaf rtol i) :
    plscfColTest (aggOpen Fn L lab freq deltaf) freq rtol i = true ∧
      ∃ vs : List Rat, uniqueNonNan (fun r => (aggOpen Fn L lab freq deltaf).e r i) Fn.r = vs ∧
        vs.length = freq.length ∧
        (∀ k (h1 : k < vs.length) (h2 : k < freq.length), StableValLab Fn L lab i vs[k] ∧
          freq[k] - deltaf < vs[k] ∧ vs[k] < freq[k] + deltaf ∧
          |vs[k] - freq[k]| ≤ iscloseAtol + rtol * |freq[k]|) := by
  obtain ⟨vs, hlen, hk, hall⟩ := hq
  have hsorted : vs.Pairwise (· < ·) := by
    rw [List.pairwise_iff_getElem]
    intro a b ha hb hab
    have hfa : a < freq.length := by omega
    have hfb : b < freq.length := by omega
    have h1 := (hk a ha hfa).2.2.1
    have h2 := (hk b hb hfb).2.1
    have h3 := (List.pairwise_iff_getElem.mp hd) a b hfa hfb hab
    linarith
  have hvs : ∀ v, v ∈ vs ↔ StableValLab Fn L lab i v ∧ InSomeOpenBand freq deltaf v := by
    intro v
    constructor
    · intro hv
      obtain ⟨k, hk1, rfl⟩ := List.getElem_of_mem hv
      have hk2 : k < freq.length := by omega
      have := hk k hk1 hk2
      exact ⟨this.1, freq[k], List.getElem_mem hk2, this.2.1, this.2.2.1⟩
    · rintro ⟨h1, h2⟩; exact hall v h1 h2
  have hpos : 0 < freq.length := List.length_pos_iff.mpr hne
  have ht : plscfColTest (aggOpen Fn L lab freq deltaf) freq rtol i = true :=
    (plscfColTest_iff lab freq Fn L deltaf rtol hd i).mpr
      ⟨vs, hsorted, hlen, hvs, 0, by omega, hpos, (hk 0 (by omega) hpos).2.2.2⟩
  refine ⟨ht, vs, ?_, hlen, hk⟩
  apply sorted_ext _ _ (uniqueSorted_sorted _) hsorted
  intro x
  show x ∈ uniqueNonNan (fun r => (aggOpen Fn L lab freq deltaf).e r i) (aggOpen Fn L lab freq deltaf).r ↔ x ∈ vs
  rw [mem_uniqueNonNan, hvs]
  constructor
  · rintro ⟨r, hr, hval⟩
    obtain ⟨a, b, c, d⟩ := (aggOpen_some Fn L lab freq deltaf hd r i x).mp hval
    exact ⟨⟨r, hr, a, b, c⟩, d⟩
  · rintro ⟨⟨r, hr, a, b, c⟩, d⟩
    exact ⟨r, hr, (aggOpen_some Fn L lab freq deltaf hd r i x).mpr ⟨a, b, c, d⟩⟩

/-- **pLSCF `find_min` under the property's premises, any label value (`lab = 1`: the repaired variant).**
    Requests ascending with disjoint open bands, column `i` with exactly one distinct labelled frequency per band, each
    within tolerance.  **If** `i` is not the last column (`hi`) **and** no lower column passes the coded test (`hlow`),
    the routine reports `i` and returns, per request, frequency, damping and shape of one cell `(r_k, i)` that is
    labelled, inside the `k`-th band and `isclose` to the `k`-th request — the **first** row of column `i` holding
    that frequency; every other labelled in-band pole of column `i` has the frequency of one of them.

    Hypotheses beyond the property's premise, and what happens without them (kernel-checked in `Mutants/C11.lean`):
    * `hi` — the last column is never tested: a qualifying last column is reported as `columns − 2`, with the
      frequencies of the last column and damping/shapes of the column before it (`plscf_lab1_last_column_mixes`);
      with a single column the reported order is `-1` (`plscf_lab1_single_column_minus_one`);
    * `hlow` is about the *coded* test, which is weaker than "one pole within tolerance per band": `.any()` accepts a
      column where only one value is close (`plscf_lab1_any_accepts_far_pole`), and the count is over all bands
      together (`plscf_lab1_counts_total_not_per_band`), so a lower, non-qualifying order can be reported;
    * when no order qualifies the routine still returns modes and an order (`plscf_lab1_returns_without_order`);
    * as for SSI, "one pole" is "one distinct frequency value": equal-frequency labelled poles count once
      (`plscf_lab1_duplicate_counts_once`). -/
theorem C11_plscf_find_min_premises (hne : freq ≠ []) (hd : OpenBandsDisjoint freq deltaf) (i : Nat)
    (hi : i + 1 < Fn.c) (hq : OnePerBand Fn L lab freq deltaf rtol i)
    (hlow : ∀ i', i' < i → plscfColTest (aggOpen Fn L lab freq deltaf) freq rtol i' = false) :
    ∃ rows : List Nat, rows.length = freq.length ∧
      plscfMpeWith chk lab freq Fn Xi Phi .findMin (some L) deltaf rtol
        = .ok ⟨accOfCells Fn Xi Phi none (rows.map fun r => (r, i)), .int (i : Nat)⟩ ∧
      (∀ k (h1 : k < rows.length) (h2 : k < freq.length), rows[k] < Fn.r ∧ L.e rows[k] i = lab ∧
        ∃ v, Fn.e rows[k] i = some v ∧ v ≠ 0 ∧ freq[k] - deltaf < v ∧ v < freq[k] + deltaf ∧
          |v - freq[k]| ≤ iscloseAtol + rtol * |freq[k]| ∧
          ∀ j, j < rows[k] → ¬ (L.e j i = lab ∧ Fn.e j i = some v)) ∧
      (∀ r v, r < Fn.r → L.e r i = lab → Fn.e r i = some v → v ≠ 0 → InSomeOpenBand freq deltaf v →
        ∃ r' ∈ rows, Fn.e r' i = some v) := by
  obtain ⟨ht, vs, hu, hlen, hk⟩ := onePerBand_passes lab freq Fn L deltaf rtol hne hd i hq
  have hres := C11_plscf_find_min_found chk lab freq Fn Xi Phi L deltaf rtol hne i hi ht hlow
  set aa := aggOpen Fn L lab freq deltaf with haa
  have har : aa.r = Fn.r := rfl
  have hu' : uniqueNonNan (fun r => aa.e r i) aa.r = vs := hu
  have hrow : ∀ f ∈ vs, ∃ r, nanargminAbs (fun r => aa.e r i) aa.r (some f) = some r ∧ r < Fn.r ∧
      L.e r i = lab ∧ Fn.e r i = some f ∧ f ≠ 0 ∧ ∀ j, j < r → ¬ (L.e j i = lab ∧ Fn.e j i = some f) := by
    intro f hf
    have hmem : ∃ r, r < aa.r ∧ aa.e r i = some f := (mem_uniqueNonNan _ _ _).mp (by rw [hu']; exact hf)
    obtain ⟨r, hr, hlt, hval, hfirst⟩ := nanargminAbs_of_mem (fun r => aa.e r i) aa.r f hmem
    obtain ⟨a, b, c, d⟩ := (aggOpen_some Fn L lab freq deltaf hd r i f).mp hval
    refine ⟨r, hr, hlt, a, b, c, ?_⟩
    rintro j hj ⟨hl, hfn⟩
    exact hfirst j hj ((aggOpen_some Fn L lab freq deltaf hd j i f).mpr ⟨hl, hfn, c, d⟩)
  refine ⟨pickRows aa i vs, by simp [pickRows, hlen], ?_, ?_, ?_⟩
  · rw [hres]
    simp only [plscfFoundOut, hu']
    congr 1
    congr 1
    apply MpeAcc.eq_of_fields
    · simp only [accOfCells, pickRows, List.map_map]
      apply List.map_congr_left
      intro f hf
      obtain ⟨r, hr, _, _, hfn, _⟩ := hrow f hf
      simp [hr, hfn]
    · simp [accOfCells, List.map_map, Function.comp_def]
    · simp [accOfCells, List.map_map, Function.comp_def]
    · simp [accOfCells]
    · simp [accOfCells]
    · simp [accOfCells]
  · intro k h1 h2
    have hkv : k < vs.length := by simpa [pickRows] using h1
    have hget : (pickRows aa i vs)[k] = (nanargminAbs (fun r => aa.e r i) aa.r (some vs[k])).getD 0 := by
      simp [pickRows]
    obtain ⟨r, hr, hlt, hl, hfn, hne0, hfirst⟩ := hrow vs[k] (List.getElem_mem hkv)
    have hb := hk k hkv h2
    rw [hget, hr]
    exact ⟨hlt, hl, vs[k], hfn, hne0, hb.2.1, hb.2.2.1, hb.2.2.2, hfirst⟩
  · intro r v hr hl hfn hv hband
    have hval : aa.e r i = some v := (aggOpen_some Fn L lab freq deltaf hd r i v).mpr ⟨hl, hfn, hv, hband⟩
    have hvu : v ∈ vs := by rw [← hu']; exact (mem_uniqueNonNan _ _ _).mpr ⟨r, hr, hval⟩
    obtain ⟨r', hr', _, _, hfn', _⟩ := hrow v hvu
    refine ⟨(nanargminAbs (fun r => aa.e r i) aa.r (some v)).getD 0, ?_, by rw [hr']; exact hfn'⟩
    simp only [pickRows, List.mem_map]
    exact ⟨v, hvu, rfl⟩

/-- **exactly when the property's order is reported** (any label value).  Under the property's premises, with a column
    `i` that qualifies in the property's sense, the routine reports `i` **iff** `i` is not the last column and no
    lower column passes the coded test.  (For the least qualifying `i` this is the precise extent to which the `lab = 1`
    variant satisfies "the reported order is the lowest one at which every requested frequency has exactly one stable
    pole within tolerance".) -/
theorem C11_plscf_find_min_order_iff (hne : freq ≠ []) (hd : OpenBandsDisjoint freq deltaf) (i : Nat)
    (hic : i < Fn.c) (hq : OnePerBand Fn L lab freq deltaf rtol i) {out : MpeOut}
    (h : plscfMpeWith chk lab freq Fn Xi Phi .findMin (some L) deltaf rtol = .ok out) :
    out.orderOut = .int (i : Nat) ↔
      (i + 1 < Fn.c ∧ ∀ i', i' < i → plscfColTest (aggOpen Fn L lab freq deltaf) freq rtol i' = false) := by
  have ht := (onePerBand_passes lab freq Fn L deltaf rtol hne hd i hq).1
  constructor
  · intro ho
    rcases C11_plscf_find_min_char chk lab freq Fn Xi Phi L deltaf rtol hne (by omega) with
      ⟨j, hj, _, hjlow, hres⟩ | ⟨hno, hres⟩
    · rw [hres] at h
      have : out = plscfFoundOut (aggOpen Fn L lab freq deltaf) Xi Phi j := (Except.ok.inj h).symm
      rw [this] at ho
      have hji : j = i := by simpa [plscfFoundOut] using ho
      subst hji
      exact ⟨hj, hjlow⟩
    · rw [hres] at h
      have : out = plscfBreakOut (aggOpen Fn L lab freq deltaf) Xi Phi Fn.c := (Except.ok.inj h).symm
      rw [this] at ho
      have hci : (Fn.c : Int) - 2 = (i : Int) := by simpa [plscfBreakOut] using ho
      have hlt : i + 1 < Fn.c := by omega
      rw [hno i hlt] at ht
      cases ht
  · rintro ⟨hi, hlow⟩
    obtain ⟨rows, _, hres, _⟩ :=
      C11_plscf_find_min_premises chk lab freq Fn Xi Phi L deltaf rtol hne hd i hi hq hlow
    rw [hres] at h
    rw [← Except.ok.inj h]

end plscf

/-! ### SSI `find_min`: "one distinct stable value", not "one stable pole" -/
section ssi
variable (freq : List Rat) (Fn Xi : Mat NR) (Phi : Ten3 (Option CQ)) (rtol : Rat) (cov : Option MpeCov)

/-- **the column test of `SSI_mpe` (and of `pLSCF_mpe`) sees only the set of values of a column**: two tables whose
    columns `i` hold the same values — in any rows, any number of times — pass or fail together.  This is the
    deviation from the property's "exactly one stable **pole**": adding a second stable pole of exactly the frequency
    of an existing one never disqualifies an order. -/
theorem C11_find_min_value_set_only (agg agg' : Mat NR) (i : Nat)
    (h : ∀ v, (∃ r, r < agg.r ∧ agg.e r i = some v) ↔ (∃ r, r < agg'.r ∧ agg'.e r i = some v)) :
    ssiQual agg freq rtol i = ssiQual agg' freq rtol i ∧
      plscfColTest agg freq rtol i = plscfColTest agg' freq rtol i := by
  have : uniqueNonNan (fun r => agg.e r i) agg.r = uniqueNonNan (fun r => agg'.e r i) agg'.r := by
    apply sorted_ext _ _ (uniqueSorted_sorted _) (uniqueSorted_sorted _)
    intro x
    show x ∈ uniqueNonNan (fun r => agg.e r i) agg.r ↔ x ∈ uniqueNonNan (fun r => agg'.e r i) agg'.r
    rw [mem_uniqueNonNan, mem_uniqueNonNan]
    exact h x
  unfold ssiQual plscfColTest
  simp only [this, and_self]

/-- **which of several equal-frequency poles is returned**: `C11_find_min_from_order` with the rows pinned down —
    the `k`-th returned mode is read from the **first** row of column `i` that is stable and holds that frequency
    (later stable rows of the same frequency are silently merged into it). -/
theorem C11_find_min_from_order_first (L : Mat Int) (hd : BandsDisjoint freq rtol) {out : MpeOut}
    (h : ssiMpe freq Fn Xi Phi .findMin (some L) rtol cov = .ok out) (i : Nat)
    (hi : out.orderOut = .int (i : Nat)) :
    ∃ rows : List Nat, rows.length = freq.length ∧
      out.acc = accOfCells Fn Xi Phi cov (rows.map fun r => (r, i)) ∧
      (∀ k (h1 : k < rows.length) (h2 : k < freq.length), rows[k] < Fn.r ∧ L.e rows[k] i = 1 ∧
        ∃ v, Fn.e rows[k] i = some v ∧ v ≠ 0 ∧ InSomeBand freq rtol v ∧
          |v - freq[k]| ≤ iscloseAtol + rtol * |freq[k]| ∧
          ∀ j, j < rows[k] → ¬ (L.e j i = 1 ∧ Fn.e j i = some v)) ∧
      (∀ r v, r < Fn.r → L.e r i = 1 → Fn.e r i = some v → v ≠ 0 → InSomeBand freq rtol v →
        ∃ r' ∈ rows, Fn.e r' i = some v) := by
  rcases ssi_findmin freq Fn Xi Phi rtol cov L h with ⟨h0, _⟩ | ⟨i0, u, h0, _, hq, _, hp⟩
  · rw [h0] at hi; cases hi
  rw [h0] at hi
  have : i0 = i := by simpa using hi
  subst this
  set agg := aggClosed Fn L 1 freq rtol with hagg
  unfold ssiQual at hq
  simp only at hq
  split at hq
  swap
  · cases hq
  rename_i hcond
  simp only [Option.some.injEq] at hq
  rw [Bool.and_eq_true, decide_eq_true_eq] at hcond
  obtain ⟨hlen, hclose⟩ := hcond
  rw [hq] at hlen hclose
  have hmemu : ∀ f, f ∈ u ↔ ∃ r, r < agg.r ∧ agg.e r i0 = some f := by
    intro f; rw [← hq]; exact mem_uniqueNonNan _ _ _
  have hrow : ∀ f ∈ u, ∃ r, nanargminAbs (fun r => agg.e r i0) agg.r (some f) = some r ∧ r < Fn.r ∧
      L.e r i0 = 1 ∧ Fn.e r i0 = some f ∧ f ≠ 0 ∧ InSomeBand freq rtol f ∧
      ∀ j, j < r → ¬ (L.e j i0 = 1 ∧ Fn.e j i0 = some f) := by
    intro f hf
    obtain ⟨r, hr, hlt, hval, hfirst⟩ := nanargminAbs_of_mem (fun r => agg.e r i0) agg.r f ((hmemu f).mp hf)
    obtain ⟨a, b, c, d⟩ := (aggClosed_some Fn L 1 freq rtol hd r i0 f).mp hval
    refine ⟨r, hr, hlt, a, b, c, d, ?_⟩
    rintro j hj ⟨hl, hfn⟩
    exact hfirst j hj ((aggClosed_some Fn L 1 freq rtol hd j i0 f).mpr ⟨hl, hfn, c, d⟩)
  obtain ⟨_, a1, a2, a3, a4, a5, a6⟩ := pickLoop_ok agg Xi Phi cov i0 u _ _ hp
  have hrows_fn : ∀ f ∈ u, Fn.e ((nanargminAbs (fun r => agg.e r i0) agg.r (some f)).getD 0) i0 = some f := by
    intro f hf
    obtain ⟨r, hr, _, _, hfn, _⟩ := hrow f hf
    rw [hr]; exact hfn
  refine ⟨pickRows agg i0 u, by simp [pickRows, hlen], ?_, ?_, ?_⟩
  · apply MpeAcc.eq_of_fields
    · rw [a1]
      simp only [accOfCells, pickRows, List.map_map]
      apply List.map_congr_left
      intro f hf
      exact (hrows_fn f hf).symm
    · rw [a2]; simp [accOfCells, List.map_map, Function.comp_def]
    · rw [a3]; simp [accOfCells, List.map_map, Function.comp_def]
    · rw [a4]; cases cov <;> simp [accOfCells, List.map_map, Function.comp_def]
    · rw [a5]; cases cov <;> simp [accOfCells, List.map_map, Function.comp_def]
    · rw [a6]; cases cov <;> simp [accOfCells, List.map_map, Function.comp_def]
  · intro k h1 h2
    have hk : k < u.length := by simpa [pickRows] using h1
    have hget : (pickRows agg i0 u)[k] = (nanargminAbs (fun r => agg.e r i0) agg.r (some u[k])).getD 0 := by
      simp [pickRows]
    obtain ⟨r, hr, hlt, hl, hfn, hne0, hband, hfirst⟩ := hrow u[k] (List.getElem_mem hk)
    rw [hget, hr]
    exact ⟨hlt, hl, u[k], hfn, hne0, hband,
      (isclose_some _ _ _).mp ((allcloseL_iff rtol u freq hlen).mp hclose k hk h2), hfirst⟩
  · intro r v hr hl hfn hv hband
    have hval : agg.e r i0 = some v := (aggClosed_some Fn L 1 freq rtol hd r i0 v).mpr ⟨hl, hfn, hv, hband⟩
    have hvu : v ∈ u := (hmemu v).mpr ⟨r, hr, hval⟩
    refine ⟨(nanargminAbs (fun r => agg.e r i0) agg.r (some v)).getD 0, ?_, hrows_fn v hvu⟩
    simp only [pickRows, List.mem_map]
    exact ⟨v, hvu, rfl⟩

/-- no two stable in-band poles of column `i` share a frequency (the hypothesis under which "distinct value" and
    "pole" coincide) -/
def NoDupStable (Fn : Mat NR) (L : Mat Int) (freq : List Rat) (w : Rat) (i : Nat) : Prop :=
  ∀ r r' v, r < Fn.r → r' < Fn.r → L.e r i = 1 → L.e r' i = 1 → Fn.e r i = some v → Fn.e r' i = some v →
    v ≠ 0 → InSomeBand freq w v → r = r'

/-- **the property's reading of the column test, with the hypothesis it needs.**  If no two stable in-band poles of
    column `i` have exactly the same frequency (`hnd` — stronger than the property's premise; without it the statement
    is false for the code: `Mutants.ssi_find_min_counts_values_not_poles`), column `i` passes `SSI_mpe`'s test iff its
    stable non-zero in-band **poles** (rows) are exactly one per requested frequency, the `k`-th `isclose` to the `k`-th
    request.  `hnd` is only used left to right. -/
theorem C11_find_min_qual_iff_poles (L : Mat Int) (hd : BandsDisjoint freq rtol) (hcd : CloseDisjoint freq rtol)
    (i : Nat) (hnd : NoDupStable Fn L freq rtol i) :
    (ssiQual (aggClosed Fn L 1 freq rtol) freq rtol i).isSome ↔
      ∃ rows : List Nat, rows.length = freq.length ∧
        (∀ k (h1 : k < rows.length) (h2 : k < freq.length), rows[k] < Fn.r ∧ L.e rows[k] i = 1 ∧
          ∃ v, Fn.e rows[k] i = some v ∧ v ≠ 0 ∧ InSomeBand freq rtol v ∧
            |v - freq[k]| ≤ iscloseAtol + rtol * |freq[k]|) ∧
        (∀ r v, r < Fn.r → L.e r i = 1 → Fn.e r i = some v → v ≠ 0 → InSomeBand freq rtol v → r ∈ rows) := by
  rw [C11_find_min_qual_iff freq Fn rtol L hd hcd i]
  constructor
  · rintro ⟨vs, hlen, hk, hall⟩
    have hst : ∀ k : Fin vs.length, StableVal Fn L i vs[k.1] := fun k => (hk k.1 k.2 (hlen ▸ k.2)).1
    refine ⟨List.ofFn (fun k : Fin vs.length => Classical.choose (hst k)), by simp [hlen], ?_, ?_⟩
    · intro k h1 h2
      have hkv : k < vs.length := by simpa using h1
      have hget : (List.ofFn (fun k : Fin vs.length => Classical.choose (hst k)))[k]
          = Classical.choose (hst ⟨k, hkv⟩) := by simp
      obtain ⟨a, b, c, d⟩ := Classical.choose_spec (hst ⟨k, hkv⟩)
      have hb := hk k hkv h2
      rw [hget]
      exact ⟨a, b, vs[k], c, d, hb.2.1, hb.2.2⟩
    · intro r v hr hl hfn hv hband
      have hvs : v ∈ vs := hall v ⟨r, hr, hl, hfn, hv⟩ hband
      obtain ⟨k, hkv, rfl⟩ := List.getElem_of_mem hvs
      obtain ⟨a, b, c, d⟩ := Classical.choose_spec (hst ⟨k, hkv⟩)
      have : r = Classical.choose (hst ⟨k, hkv⟩) := hnd r _ vs[k] hr a hl b hfn c hv hband
      rw [this]
      have hget : (List.ofFn (fun k : Fin vs.length => Classical.choose (hst k)))[k]'(by simpa using hkv)
          = Classical.choose (hst ⟨k, hkv⟩) := by simp
      rw [← hget]
      exact List.getElem_mem _
  · rintro ⟨rows, hlen, hk, hall⟩
    refine ⟨rows.map (fun r => (Fn.e r i).getD 0), by simp [hlen], ?_, ?_⟩
    · intro k h1 h2
      have hkr : k < rows.length := by simpa using h1
      obtain ⟨a, b, v, c, d, e, f⟩ := hk k hkr h2
      have hget : (rows.map (fun r => (Fn.e r i).getD 0))[k] = v := by simp [c]
      rw [hget]
      exact ⟨⟨rows[k], a, b, c, d⟩, e, f⟩
    · rintro v ⟨r, hr, hl, hfn, hv⟩ hband
      have hmem := hall r v hr hl hfn hv hband
      rw [List.mem_map]
      exact ⟨r, hmem, by simp [hfn]⟩

end ssi

/-! ### Non-vacuity (the tables of `Props/C11.lean`: three orders, one stable pole per request from order 1 on) -/

example : OpenBandsDisjoint [2, 5] (1 / 20) := by
  unfold OpenBandsDisjoint; simp only [List.pairwise_cons, List.mem_cons, List.mem_nil_iff]; norm_num

/-- `C11_plscf_find_min_found`: order 1 is not the last of the three, passes, order 0 does not -/
example : (1 + 1 < exFn.c) ∧ plscfColTest (aggOpen exFn exLab 1 [2, 5] (1 / 20)) [2, 5] (1 / 20) 1 = true ∧
    ∀ i', i' < 1 → plscfColTest (aggOpen exFn exLab 1 [2, 5] (1 / 20)) [2, 5] (1 / 20) i' = false := by
  refine ⟨by decide, by decide +kernel, ?_⟩
  intro i' hi'
  have : i' = 0 := by omega
  subst this
  decide +kernel

/-- `C11_plscf_find_min_not_found`: the pinned label 7 on a 0/1 table -/
example : 0 < exFn.c ∧
    ∀ i, i + 1 < exFn.c → plscfColTest (aggOpen exFn exLab 7 [2, 5] (1 / 20)) [2, 5] (1 / 20) i = false := by
  refine ⟨by decide, ?_⟩
  intro i hi
  have : i = 0 ∨ i = 1 := by
    have : exFn.c = 3 := rfl
    omega
  rcases this with rfl | rfl <;> decide +kernel

/-- `C11_plscf_relabel`: the stable poles labelled 7 instead of 1 -/
example : ∀ r o, exLab.e r o = 1 ↔ (⟨3, 3, fun r o => 7 * exLab.e r o⟩ : Mat Int).e r o = 7 := by
  intro r o
  show exLab.e r o = 1 ↔ 7 * exLab.e r o = 7
  omega

/-- `C11_plscf_find_min_premises` / `onePerBand_passes`: order 1 of the example qualifies in the property's sense -/
example : OnePerBand exFn exLab 1 [2, 5] (1 / 20) (1 / 20) 1 := by
  refine ⟨[201 / 100, 251 / 50], rfl, ?_, ?_⟩
  · intro k h1 h2
    have : k = 0 ∨ k = 1 := by simp at h1; omega
    rcases this with rfl | rfl
    · simp only [List.getElem_cons_zero]
      refine ⟨⟨0, by decide, by decide, by decide +kernel, by norm_num⟩, ?_⟩
      unfold iscloseAtol
      refine ⟨by norm_num, by norm_num, ?_⟩
      rw [abs_le]; constructor <;> norm_num
    · simp only [List.getElem_cons_succ, List.getElem_cons_zero]
      refine ⟨⟨1, by decide, by decide, by decide +kernel, by norm_num⟩, ?_⟩
      unfold iscloseAtol
      refine ⟨by norm_num, by norm_num, ?_⟩
      rw [abs_le]; constructor <;> norm_num
  · rintro v ⟨r, hr, hl, hf, _⟩ _
    have hr3 : r = 0 ∨ r = 1 ∨ r = 2 := by
      have : exFn.r = 3 := rfl
      omega
    rcases hr3 with rfl | rfl | rfl
    · have : exFn.e 0 1 = some (201 / 100) := by decide +kernel
      rw [this] at hf; cases hf; simp
    · have : exFn.e 1 1 = some (251 / 50) := by decide +kernel
      rw [this] at hf; cases hf; simp
    · exact absurd hl (by decide)

/-- `C11_find_min_from_order_first`: the SSI call of `Props/C11.lean`'s example reports order 1 -/
example : ∃ out, ssiMpe [2, 5] exFn exXi exPhi .findMin (some exLab) (1 / 20) none = .ok out ∧
    out.orderOut = .int (1 : Nat) := by
  have : (match ssiMpe [2, 5] exFn exXi exPhi .findMin (some exLab) (1 / 20) none with
      | .ok out => out.orderOut == .int 1 | .error _ => false) = true := by decide +kernel
  cases hr : ssiMpe [2, 5] exFn exXi exPhi .findMin (some exLab) (1 / 20) none with
  | error e => rw [hr] at this; cases this
  | ok out => rw [hr] at this; exact ⟨out, rfl, by simpa using this⟩

/-- `C11_find_min_qual_iff_poles`: in the example no two stable poles of order 1 share a frequency -/
example : NoDupStable exFn exLab [2, 5] (1 / 20) 1 := by
  intro r r' v hr hr' hl hl' hf hf' _ _
  have h3 : ∀ r, r < exFn.r → r = 0 ∨ r = 1 ∨ r = 2 := by
    intro r hr
    have : exFn.r = 3 := rfl
    omega
  have e0 : exFn.e 0 1 = some (201 / 100) := by decide +kernel
  have e1 : exFn.e 1 1 = some (251 / 50) := by decide +kernel
  have l2 : ¬ exLab.e 2 1 = 1 := by decide
  rcases h3 r hr with rfl | rfl | rfl <;> rcases h3 r' hr' with rfl | rfl | rfl
  · rfl
  · rw [e0] at hf; rw [e1] at hf'; cases hf; norm_num at hf'
  · exact absurd hl' l2
  · rw [e1] at hf; rw [e0] at hf'; cases hf; norm_num at hf'
  · rfl
  · exact absurd hl' l2
  · exact absurd hl l2
  · exact absurd hl l2
  · rfl

/-- `C11_plscf_find_min_order_iff`: the call on the example succeeds (as every call with a request and a column does),
    `1 < exFn.c`, and order 1 qualifies (`OnePerBand` above) -/
example : 1 < exFn.c ∧ ∃ out, plscfMpeWith (chkOwn (1 / 20)) 1 [2, 5] exFn exXi exPhi .findMin (some exLab) (1 / 20) (1 / 20)
    = .ok out := by
  refine ⟨by decide, ?_⟩
  rcases C11_plscf_find_min_char (chkOwn (1 / 20)) 1 [2, 5] exFn exXi exPhi exLab (1 / 20) (1 / 20) (by simp)
    (by decide) with ⟨_, _, _, _, h⟩ | ⟨_, h⟩ <;> exact ⟨_, h⟩

end PV.C11
