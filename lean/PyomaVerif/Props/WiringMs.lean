import PyomaVerif.Model.Wiring
/-!
# The literals of `SSIdat_MS.run` (inherited by `SSIcov_MS`, `WiringClass.C03_ms_inherited`) that
`WiringRun.C03_run_multi` leaves open.  Regenerated from /repo on every run (table `Generated/Wiring.lean`).

The executed model `ssiMultiSetup` (and every C03 theorem about the class) takes the lists of `SSI_multi_setup` with
step 1 — list position `n` holds order `n` — and `SSI_poles` walks them with the user's step.  The obligations state
which VALUE each parameter receives, not how the call spells it: a parameter the call leaves alone is the callee's
default (the table records no entry), one it writes out is compared by value.
-/
namespace PV.WiringMs
open PV.Wiring

/-- **C03 (class layer).**  `SSIdat_MS.run` calls `ssi.SSI_multi_setup` with `step` 1 — written out, as today, or left
    at the routine's default `step: int = 1` — NOT with the user's step (the lists `A`, `C` must hold every order:
    `SSI_poles` indexes them by order); `ssi.SSI_poles` receives the user's `run_params.step` and no uncertainty
    request (`calc_unc` False, written out or left at its default). -/
theorem C03_run_multi_literals :
    (arg "SSIdat_MS" "run" "ssi.SSI_multi_setup" "step").getD "1" = "1"
    ∧ arg "SSIdat_MS" "run" "ssi.SSI_poles" "step" = some "self.run_params.step"
    ∧ (arg "SSIdat_MS" "run" "ssi.SSI_poles" "calc_unc").getD "False" = "False" := by
  decide

/-- the two call sites exist (so that a missing row cannot satisfy the `getD` forms above) -/
theorem C03_run_multi_sites :
    (site "SSIdat_MS" "run" "ssi.SSI_multi_setup" 0).isSome ∧ (site "SSIdat_MS" "run" "ssi.SSI_poles" 0).isSome := by
  decide

end PV.WiringMs
