import PyomaVerif.Generated.Dialog
import PyomaVerif.Model.Wiring
import PyomaVerif.Model.Pick
import PyomaVerif.Props.WiringPick
/-!
# The picking dialog, read from the source (C16 clauses 14 / 15 and the button codes)

`harness/translate_dialog.py` regenerates `Generated/Dialog.lean` from `support/sel_from_plot.py` and the
`SelFromPlot(...)` call sites of `algorithms/*.py` on every run; the obligations below are evaluated by the kernel
against it.  They state which OBJECT is searched / written / popped (locals resolved through their single assignment,
parameters renamed positionally, pure `return` helpers inlined, `elif` chains sorted by button code), not how the
statement is spelt; methods are identified by what they do (the list they append to, the event they are connected to),
never by name.

* `C16_pick_source`    — the table a pick searches and takes the frequency from is the algorithm's stored pole table
                          (`result.Fn_poles`, resp. the grid `result.freq`), unmasked, and it is the very attribute
                          `mpe_from_plot` hands to the extraction routine (clause 15);
* `C16_state_writers`  — nothing but the click handlers (and what they call) writes the selection lists, nothing but
                          the key handlers the modifier flag, and no menu command / window-protocol callback reaches a
                          method that writes any of them (clause 14);
* `C16_button_branches`, `C16_click_from_source_*`, `C16_apply_role_from_source_*` — the `if / elif` chain of the click
                          handlers, read from the source and interpreted, IS `Pick.onClickSSI` / `Pick.onClickFDD`
                          (button 1 pick, 3 pop last, 2 pop nearest, each under the modifier), which is what
                          `WiringPick.applyRole` assumes;
* `C16_sort_per_plot`  — every pick re-sorts the frequency list and the variant's OWN index list by one stable argsort
                          of the frequency list taken before either is rebound.
-/
namespace PV.WiringDialog
open PV.DialogTbl PV.Gen.Dialog PV.Pick

/-! ## queries -/

def meth (n : String) : Option Meth := meths.find? (·.name == n)

def subset (a b : List String) : Bool := a.all (b.contains ·)
def sameSet (a b : List String) : Bool := subset a b && subset b a
def disjoint (a b : List String) : Bool := a.all (fun x => x != "*" && !b.contains x)

/-- the methods reachable from `roots` through direct `self.m(…)` calls (a method outside the table stays in the
    result and counts as writing everything, see `writesStar`) -/
def reachAux : Nat → List String → List String → List String
  | 0, _, seen => seen
  | _, [], seen => seen
  | fuel + 1, n :: todo, seen =>
    if seen.contains n then reachAux fuel todo seen
    else reachAux fuel (((meth n).map (·.calls)).getD [] ++ todo) (n :: seen)

def reach (roots : List String) : List String :=
  reachAux ((meths.length + 1) * (meths.length + 1)) roots []

/-- every attribute of `self` written while one of `roots` runs (`"*"`: cannot tell) -/
def writesStar (roots : List String) : List String :=
  (reach roots).flatMap (fun n => ((meth n).map (·.writes)).getD ["*"])

/-- the methods the canvas calls for the event -/
def canvasHandlers (event : String) : List String :=
  (callbacks.filter (fun c => c.kind == "mpl_connect" && c.event == event)).flatMap (·.targets)

def clickHandlers : List String := canvasHandlers "button_press_event"
def keyHandlers : List String := canvasHandlers "key_press_event" ++ canvasHandlers "key_release_event"

/-- every callable registered anywhere else: menu commands, window-manager protocol, Tk bindings, timers, … -/
def otherCallbacks : List Callback :=
  callbacks.filter (fun c => !(c.kind == "mpl_connect" &&
    (c.event == "button_press_event" || c.event == "key_press_event" || c.event == "key_release_event")))

def lists : List String := ["sel_freq", "pole_ind", "freq_ind"]
/-- the state the C16 model carries, the coordinates of the pending click, and what is fixed at construction -/
def selection : List String := lists ++ ["shift_is_held", "x_data_pole", "y_data_pole", "result", "algo", "plot"]

/-- the methods that write one of `attrs` directly -/
def directWriters (attrs : List String) : List String :=
  (meths.filter (fun m => m.writes.any (fun w => w == "*" || attrs.contains w))).map (·.name)

/-! ## clause 14: who may write the selection -/

/-- **Writers of the selection.**
    (1) no registered callable is outside the grammar (each is a bound method of the dialog or a `lambda` that only
        calls methods of the dialog), and no method can write an arbitrary attribute;
    (2) **menu commands and every other non-canvas callback** (`add_command(command=…)`, `protocol`, any `bind` /
        `after` / widget `command=`) run only methods whose transitive writes avoid `sel_freq`, `pole_ind`, `freq_ind`,
        `shift_is_held`, the pending click coordinates, `result`, `algo`, `plot`;
    (3) a method that writes a selection list is the constructor or is reached from a `button_press_event` handler; a
        method that writes `shift_is_held` is the constructor or is reached from a key handler;
    (4) the key handlers write no list, the click handlers do not write the modifier flag;
    (5) `algo`, `plot`, `result` are written by the constructor only. -/
theorem C16_state_writers :
    (callbacks.all (!·.unknown) && meths.all (fun m => !m.writes.contains "*")) = true
    ∧ otherCallbacks.all (fun c => disjoint (writesStar c.targets) selection) = true
    ∧ subset (directWriters lists) ("__init__" :: reach clickHandlers) = true
    ∧ subset (directWriters ["shift_is_held"]) ("__init__" :: reach keyHandlers) = true
    ∧ disjoint (writesStar keyHandlers) (lists ++ ["result", "algo", "plot"]) = true
    ∧ disjoint (writesStar clickHandlers) ["shift_is_held", "result", "algo", "plot"] = true
    ∧ directWriters ["algo", "plot", "result"] = ["__init__"] := by
  decide +kernel

/-- non-vacuity: there ARE menu commands and a window-protocol callback, the canvas handlers exist, the click handlers
    do write the lists and the key handlers the flag -/
theorem C16_state_writers_nonvacuous :
    (otherCallbacks.filter (·.kind == "add_command")).length ≥ 3
    ∧ (otherCallbacks.any (·.kind == "protocol")) = true
    ∧ clickHandlers.length = 2 ∧ keyHandlers.length = 2
    ∧ subset lists (writesStar clickHandlers) = true
    ∧ (writesStar keyHandlers).contains "shift_is_held" = true
    ∧ (otherCallbacks.flatMap (fun c => writesStar c.targets)).contains "hide_poles" = true := by
  decide +kernel

/-! ## clause 15: the table the dialog searches is the table extraction reads -/

def helperFor (ind : String) : Option PickHelper :=
  match pickHelpers.filter (·.indList == ind) with
  | [h] => some h
  | _ => none

/-- extraction routine and its parameter holding the searched table, per class constructing the dialog -/
def extractionOf : String → Option (String × String × String)
  | "SSIdat" => some ("ssi.SSI_mpe", "Fn_pol", "pole_ind")
  | "pLSCF" => some ("plscf.pLSCF_mpe", "Fn_pol", "pole_ind")
  | "FDD" => some ("fdd.FDD_mpe", "freq", "freq_ind")
  | "EFDD" => some ("fdd.EFDD_mpe", "freq", "freq_ind")
  | _ => none

/-- the variant a class asks for, and the index list that variant maintains -/
def variantInd : String → Option String
  | "'SSI'" => some "pole_ind"
  | "'pLSCF'" => some "pole_ind"
  | "'FDD'" => some "freq_ind"
  | _ => none

/-- at a construction site: the dialog gets the algorithm object itself, and the table its pick helper reads from
    `self.algo` is, seen from the algorithm, the expression the same method passes to the extraction routine -/
def siteJoined (s : DlgSite) : Bool :=
  s.algo == "self" &&
  match extractionOf s.cls with
  | some (callee, param, ind) =>
    variantInd s.plot == some ind &&
    (match helperFor ind with
     | some h => h.tableOnAlgo != "" && PV.Wiring.arg s.cls s.method callee param == some h.tableOnAlgo
     | none => false)
  | none => false

/-- **What a pick searches.**
    Stabilisation diagrams: exactly one method appends to `sel_freq` and `pole_ind`; the appended frequency is
    `T[…]` with `T = self.algo.result.Fn_poles` — no other array is subscripted or measured (`tables`), no local is
    assigned twice or conditionally redefined (`unresolved`); its subscript reads only `T` and the click coordinates,
    the appended order reads only `T` (its shape) and the click ordinate and IS a component of that subscript (the
    frequency is the table entry AT the stored order); the whole method reads nothing but these, the two lists and its
    parameter — in particular neither `self.hide_poles` nor `result.Lab`.  FDD: same with `T = self.algo.result.freq`
    and `freq_ind`.
    `self.algo` is the constructor's first parameter `algo`, assigned once, in `__init__`; every class that opens the
    dialog passes `algo = self` and hands the SAME attribute (`self.result.Fn_poles` / `self.result.freq`) to its
    extraction routine, for the variant whose index list the helper maintains. -/
theorem C16_pick_source :
    (helperFor "pole_ind").map (·.freqTable) = some "self.algo.result.Fn_poles"
    ∧ (helperFor "pole_ind").map (·.tables) = some ["self.algo.result.Fn_poles"]
    ∧ (helperFor "pole_ind").map (fun h => h.unresolved.isEmpty && h.indInFreqIndex
        && sameSet h.freqIndexReads ["self.algo.result.Fn_poles", "self.x_data_pole", "self.y_data_pole"]
        && sameSet h.indReads ["self.algo.result.Fn_poles", "self.y_data_pole"]
        && ((meth h.name).map (fun m => subset m.reads
          ["$1", "self.algo.result.Fn_poles", "self.x_data_pole", "self.y_data_pole", "self.sel_freq", "self.pole_ind"])).getD false)
      = some true
    ∧ (helperFor "freq_ind").map (·.freqTable) = some "self.algo.result.freq"
    ∧ (helperFor "freq_ind").map (·.tables) = some []
    ∧ (helperFor "freq_ind").map (fun h => h.unresolved.isEmpty && h.indInFreqIndex
        && sameSet h.freqIndexReads ["self.algo.result.freq", "self.x_data_pole"]
        && sameSet h.indReads ["self.algo.result.freq", "self.x_data_pole"]
        && ((meth h.name).map (fun m => subset m.reads
          ["self.algo.result.freq", "self.x_data_pole", "self.sel_freq", "self.freq_ind"])).getD false)
      = some true
    ∧ pickHelpers.length = 2
    ∧ ctorParams.head? = some "algo" ∧ algoStores = [("__init__", "$1")]
    ∧ sites.all siteJoined = true ∧ sites.length ≥ 4 := by
  decide +kernel

/-! ## the button codes -/

def helperInd (helper : String) : String :=
  match pickHelpers.filter (·.name == helper) with
  | [h] => h.indList
  | _ => "<no such pick helper>"

/-- the pick helper named by what it maintains -/
def normAct : Act → Act
  | .pick helper x y => .pick (helperInd helper) x y
  | a => a

/-- the click handler that maintains the index list `ind` -/
def handlerFor (ind : String) : Option Handler :=
  match handlers.filter (fun h => h.branches.any (fun b => b.popped.contains ind || normAct b.act == .pick ind "$1.xdata" "[$1.ydata]")) with
  | [h] => some h
  | _ => none

def normBranches (h : Handler) : List Branch := h.branches.map (fun b => { b with act := normAct b.act })

/-- what the C16 model's handlers do, as a branch table -/
def expected (ind : String) : List Branch :=
  [{ button := 1, shift := true, guard := [], popped := [], act := .pick ind "$1.xdata" "[$1.ydata]" },
   { button := 2, shift := true, guard := [ind, "sel_freq"], popped := [ind, "sel_freq"],
     act := .popNearest "np.argmin" ["$1.xdata", "self.sel_freq"] },
   { button := 3, shift := true, guard := [ind, "sel_freq"], popped := [ind, "sel_freq"], act := .popLast }]

/-- **Button branches.**  For `pole_ind` (SSI / pLSCF) and `freq_ind` (FDD) exactly one method branches on
    `event.button` and touches that list; its body is one `if / elif` chain without `else`, every test is
    `event.button == k and self.shift_is_held` with pairwise distinct `k`, and — sorted by `k` —
    `1`: store `event.xdata`, `[event.ydata]` as the pending click and call the pick helper of that list;
    `2`: if both lists are non-empty pop from BOTH the index `np.argmin(…)` of an expression reading only `self.sel_freq`
         and `event.xdata`;  `3`: if both lists are non-empty `.pop()` BOTH.
    Each handler is connected to `button_press_event` and to nothing else. -/
theorem C16_button_branches :
    (handlerFor "pole_ind").map (fun h => (h.wellFormed, normBranches h)) = some (true, expected "pole_ind")
    ∧ (handlerFor "freq_ind").map (fun h => (h.wellFormed, normBranches h)) = some (true, expected "freq_ind")
    ∧ handlers.length = 2
    ∧ sameSet (handlers.map (·.name)) clickHandlers = true
    ∧ (callbacks.filter (fun c => c.targets.any (fun t => handlers.any (·.name == t)))).all
        (fun c => c.kind == "mpl_connect" && c.event == "button_press_event") = true := by
  decide +kernel

/-- a branch table run on a click: the branch of the button (tests are exclusive), its modifier test, its action.
    `pickF` is the pick helper (`get_closest_pole` / `get_closest_freq`), `ind` the index list of the variant. -/
def runBranches (bs : List Branch) (ind : String) (pickF : State → Rat → Rat → Except String State)
    (s : State) (b : Nat) (pos : Option (Rat × Rat)) : Except String State :=
  match bs.find? (·.button == b) with
  | none => .ok s
  | some br =>
    if br.shift && !s.shift then .ok s
    else match br.act with
      | .pick i "$1.xdata" "[$1.ydata]" =>
        if i == ind && br.guard.isEmpty then
          (match pos with
           | none => .error "TypeError"
           | some (x, y) => pickF s x y)
        else .error "unmodelled pick"
      | .popLast =>
        if br.guard == [ind, "sel_freq"] && br.popped == [ind, "sel_freq"] then
          (if !s.selFreq.isEmpty && !s.ind.isEmpty then
            .ok { s with selFreq := s.selFreq.dropLast, ind := s.ind.dropLast }
           else .ok s)
        else .error "unmodelled pop"
      | .popNearest "np.argmin" ["$1.xdata", "self.sel_freq"] =>
        if br.guard == [ind, "sel_freq"] && br.popped == [ind, "sel_freq"] then
          (if !s.selFreq.isEmpty && !s.ind.isEmpty then
            (match pos with
             | none => .error "TypeError"
             | some (x, _) =>
               match argminV (s.selFreq.map fun f => absR (f - x)) with
               | none => .error "ValueError"
               | some (i, _) => .ok { s with selFreq := s.selFreq.eraseIdx i, ind := s.ind.eraseIdx i })
           else .ok s)
        else .error "unmodelled pop"
      | _ => .error "unmodelled branch"

/-- a click through the handler the SOURCE defines for the list `ind` -/
def clickFromSource (ind : String) (pickF : State → Rat → Rat → Except String State)
    (s : State) (b : Nat) (pos : Option (Rat × Rat)) : Except String State :=
  match (handlerFor ind).map (fun h => (h.wellFormed, normBranches h)) with
  | some (true, bs) => runBranches bs ind pickF s b pos
  | _ => .error "no click handler within the grammar"

private theorem run_expected (ind : String) (pickF : State → Rat → Rat → Except String State)
    (s : State) (b : Nat) (pos : Option (Rat × Rat)) :
    runBranches (expected ind) ind pickF s b pos
      = if b == 1 && s.shift then
          (match pos with
           | none => .error "TypeError"
           | some (x, y) => pickF s x y)
        else deselect s b pos := by
  rcases b with _ | _ | _ | _ | b <;> cases hs : s.shift <;> cases pos <;>
    simp [runBranches, expected, deselect, hs]
  rename_i v
  cases argminV (List.map (fun f => absR (f - v.fst)) s.selFreq) <;> rfl

/-- **The click handler of the stabilisation diagrams, as written in the source, is `Pick.onClickSSI`** (for every
    table, state, button code and click position) — the button codes 1 / 2 / 3 of the model are the source's. -/
theorem C16_click_from_source_stab (t : Mat (Option Rat)) (s : State) (b : Nat) (pos : Option (Rat × Rat)) :
    clickFromSource "pole_ind" (getClosestPole t) s b pos = onClickSSI t s b pos := by
  have h := C16_button_branches.1
  simp only [clickFromSource, h, run_expected, onClickSSI]
  cases pos <;> rfl

/-- … and the FDD one is `Pick.onClickFDD`. -/
theorem C16_click_from_source_fdd (freq : List Rat) (s : State) (b : Nat) (pos : Option (Rat × Rat)) :
    clickFromSource "freq_ind" (fun s x _ => getClosestFreq freq s x) s b pos = onClickFDD freq s b pos := by
  have h := C16_button_branches.2.1
  simp only [clickFromSource, h, run_expected, onClickFDD]
  cases pos <;> rfl

/-- **`WiringPick.applyRole` on a click is the source's branch table**: the role `clickStab` / `clickFdd` (assigned
    from the lists a handler writes and the helper it calls) does what the handler's `if / elif` chain says. -/
theorem C16_apply_role_from_source_stab (t : Mat (Option Rat)) (s : State) (b : Nat) (pos : Option (Rat × Rat)) :
    PV.WiringPick.applyRole (.stab t) s .clickStab ["<event>", "self.plot"] (.click b pos)
      = clickFromSource "pole_ind" (getClosestPole t) s b pos := by
  rw [C16_click_from_source_stab]; rfl

theorem C16_apply_role_from_source_fdd (freq : List Rat) (s : State) (b : Nat) (pos : Option (Rat × Rat)) :
    PV.WiringPick.applyRole (.fdd freq) s .clickFdd ["<event>"] (.click b pos)
      = clickFromSource "freq_ind" (fun s x _ => getClosestFreq freq s x) s b pos := by
  rw [C16_click_from_source_fdd]; rfl

/-! ## sorting of the selection -/

def sortRows (p : String) : List SortAssign := (sorts.lookup p).getD []

/-- the variant's rows: the frequency list and the list `ind`, each replaced by ITSELF permuted by one stable argsort of
    `self.sel_freq` evaluated before either list is rebound, in one method, and nothing else is rebound there -/
def sortOk (p ind indSrc : String) : Bool :=
  let rows := sortRows p
  rows.length == 2
  && rows.any (fun r => r.target == "sel_freq" && r.source == "self.sel_freq")
  && rows.any (fun r => r.target == ind && r.source == indSrc)
  && rows.all (fun r => r.perm == "self.sel_freq" && r.stable)
  && rows.all (fun r => rows.all (fun q => q.method == r.method))

/-- the pick helper of the variant's list calls the sorting method (after its appends: the appended expressions do not
    read the lists, `C16_pick_source`) -/
def sortedAfterPick (p ind : String) : Bool :=
  match helperFor ind, sortRows p with
  | some h, r :: _ => ((meth h.name).map (fun m => m.calls.contains r.method)).getD false
  | _, _ => false

/-- **Sorting per plot type.**  For SSI and pLSCF `sel_freq` and `pole_ind`, for FDD `sel_freq` and `freq_ind` are
    re-ordered by the same stable argsort of the (old) frequency list — the index list of the OTHER variant is not what
    is permuted — and the pick helper of the variant calls that method. -/
theorem C16_sort_per_plot :
    sortOk "SSI" "pole_ind" "self.pole_ind" = true ∧ sortOk "pLSCF" "pole_ind" "self.pole_ind" = true
    ∧ sortOk "FDD" "freq_ind" "self.freq_ind" = true
    ∧ sortedAfterPick "SSI" "pole_ind" = true ∧ sortedAfterPick "pLSCF" "pole_ind" = true
    ∧ sortedAfterPick "FDD" "freq_ind" = true := by
  decide +kernel

/-! ## non-vacuity -/

private def tbl2 : Mat (Option Rat) :=
  ⟨2, 2, fun i j => ([[some 1, some (5/4)], [some 3, none]].getD i []).getD j none⟩

/-- the source's handler picks with button 1, pops with button 3, ignores button 8 -/
example : (clickFromSource "pole_ind" (getClosestPole tbl2) ⟨true, [], []⟩ 1 (some (11/4, 0))).toOption = some ⟨true, [3], [0]⟩ := by
  decide +kernel
example : (clickFromSource "pole_ind" (getClosestPole tbl2) ⟨true, [1, 3], [0, 0]⟩ 3 none).toOption = some ⟨true, [1], [0]⟩ := by
  decide +kernel
example : (clickFromSource "freq_ind" (fun s x _ => getClosestFreq [0, 3/4, 3/2] s x) ⟨true, [0, 3/2], [0, 2]⟩ 2 (some (1, 0))).toOption
    = some ⟨true, [0], [0]⟩ := by
  decide +kernel
example : (clickFromSource "pole_ind" (getClosestPole tbl2) ⟨true, [1], [0]⟩ 8 none).toOption = some ⟨true, [1], [0]⟩ := by
  decide +kernel

end PV.WiringDialog
