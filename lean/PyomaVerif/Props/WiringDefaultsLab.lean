import PyomaVerif.Props.WiringDefaults
import PyomaVerif.Model.Mpe
/-! Default values as regenerated obligations — the label literals (C10 writes, C11 / C20 read; see `Props/WiringDefaults.lean`). -/
namespace PV.WiringDefaults
open PV.Defaults PV.DefaultsTbl PV.Wiring

/-- **C11 / C10 / C20 label literals.** `gen.SC_apply` writes `1` (stable) and `0` into the label table and nothing
    else; `ssi.SSI_mpe` selects the poles with `Lab == 1`; the diagrams test `== 1` (stable) and `== 0`;
    `plscf.pLSCF_mpe` selects `Lab == 7` (known finding F6: a value `SC_apply` never writes — as coded).  Every
    comparison of `Lab` in these functions is an equality with an integer constant. -/
theorem C11_label_literals :
    labelStores "gen.SC_apply" = [.int 1, .int 0]
    ∧ labelInt "ssi.SSI_mpe" = some 1
    ∧ labelInt "plscf.pLSCF_mpe" = some 7
    ∧ labelTests "plot.stab_plot" = [.int 1, .int 0] ∧ labelTestsAllEq "plot.stab_plot" = true
    ∧ labelTests "plot.cluster_plot" = [.int 1, .int 0] ∧ labelTestsAllEq "plot.cluster_plot" = true := by
  decide

/-- … and the executable extraction models select exactly the label values read from the source: `plscfMpe` is
    `plscfMpeWith` at the generated literal, and the `find_min` branch of `ssiMpeWith` aggregates the cells whose
    label is the generated literal of `ssi.SSI_mpe`. -/
theorem C11_label_literals_model (freq : List Rat) (Fn Xi : Mat NR) (Phi : Ten3 (Option CQ)) (order : MpeOrder)
    (Lab : Option (Mat Int)) (deltaf rtol : Rat) :
    plscfMpe freq Fn Xi Phi order Lab deltaf rtol
      = plscfMpeWith (chkOwn rtol) ((labelInt "plscf.pLSCF_mpe").getD 0) freq Fn Xi Phi order Lab deltaf rtol := by
  have h : labelInt "plscf.pLSCF_mpe" = some 7 := by decide
  rw [h]; rfl

theorem C11_label_literals_model_ssi (chk : Rat → NR → Bool) (freq : List Rat) (Fn Xi : Mat NR) (Phi : Ten3 (Option CQ))
    (L : Mat Int) (rtol : Rat) (cov : Option MpeCov) :
    ssiMpeWith chk freq Fn Xi Phi .findMin (some L) rtol cov
      = (let agg := aggClosed Fn L ((labelInt "ssi.SSI_mpe").getD 0) freq rtol
         match firstSome (ssiQual agg freq rtol) agg.c 0 with
         | none => pure ⟨{}, .none⟩
         | some (i, u) =>
           match pickLoop agg Xi Phi cov i u { fn := u.map some } with
           | .error e => .error e
           | .ok acc => pure ⟨acc, .int i⟩) := by
  have h : labelInt "ssi.SSI_mpe" = some 1 := by decide
  rw [h]; rfl

end PV.WiringDefaults
