import PyomaVerif.Props.C02Results
import PyomaVerif.Lemmas.PoserE2E
import PyomaVerif.Model.MergeDriver
/-!
# C02 — the theorems at the driver's instantiation

`C02_merge_all` / `C02_merge_all_real` are stated over an arbitrary field.  Here they are
specialised to the very functions the driver executes (`Merge.mergeModeShapesQ`: Gaussian
rationals with the core arithmetic of `Model/Cpx.lean`, `np.real` = `Cpx.realPart`), through the
field structure `Cpx.instField` that extends those core operations.
-/
namespace PV.C02
open PV.Merge PV.Cpx

/-- the embedding of the real (rational) numbers -/
def ofRealHom : Rat →+* Cpx Rat where
  toFun := ofReal
  map_one' := rfl
  map_zero' := rfl
  map_mul' a b := by apply Cpx.ext' <;> simp [ofReal]
  map_add' a b := by apply Cpx.ext' <;> simp [ofReal]

/-- **C02_merge_all_driver** — complex global shapes, real factors (the property's premise):
    `G : row → mode → ℚ(i)` arbitrary, every setup's factor for every mode a real rational
    (`ofReal (t k)`), non-zero for the later setups; same reference rows at distinct in-range
    positions; and the unconjugated square sum of the reference components of every mode is not
    zero.  Then the executed `merge_mode_shapes` model returns the global matrix in the first
    setup's scale, all modes and rows. -/
theorem C02_merge_all_driver (G : Nat → Nat → Cpx Rat) (nm : Nat) (refRows : List Nat)
    (rows0 ref0 : List Nat) (t0 : Nat → Rat) (rest : List (List Nat × List Nat × (Nat → Rat)))
    (h0in : ∀ i ∈ ref0, i < rows0.length) (h0nd : ref0.Nodup) (h0ref : pick rows0 ref0 = refRows)
    (hrest : ∀ p ∈ rest, (∀ i ∈ p.2.1, i < p.1.length) ∧ p.2.1.Nodup ∧ pick p.1 p.2.1 = refRows ∧
      ∀ k, k < nm → p.2.2 k ≠ 0)
    (hg : ∀ k, k < nm → dot (refRows.map (fun r => G r k)) (refRows.map (fun r => G r k)) ≠ 0) :
    let d0 : SetupM (Cpx Rat) := ⟨rows0, ref0, fun k => ofReal (t0 k)⟩
    let ds : List (SetupM (Cpx Rat)) := rest.map fun p => ⟨p.1, p.2.1, fun k => ofReal (p.2.2 k)⟩
    mergeModeShapesQ ((d0 :: ds).map (SetupM.Phi G nm)) ((d0 :: ds).map (·.ref))
      = .ok ((refRows ++ rovingConcat ((d0 :: ds).map (·.rows)) ((d0 :: ds).map (·.ref))).map
          fun r => (List.range nm).map fun k => ofReal (t0 k) * G r k) := by
  intro d0 ds
  unfold mergeModeShapesQ
  apply C02_merge_all realPart G nm refRows d0 ds h0in h0nd h0ref
  · intro d hd
    obtain ⟨p, hp, rfl⟩ := List.mem_map.mp hd
    obtain ⟨hin, hnd, href, hne⟩ := hrest p hp
    refine ⟨hin, hnd, href, fun k hk => ?_, fun k _ => ?_⟩
    · show ofRealHom (p.2.2 k) ≠ 0
      exact (map_ne_zero ofRealHom).mpr (hne k hk)
    · show realPart (ofReal (t0 k) / ofReal (p.2.2 k)) = ofReal (t0 k) / ofReal (p.2.2 k)
      exact (realPart_eq_self_iff _).mpr (div_im_zero rfl rfl)
  · exact hg

/-- **C02_merge_all_driver_real** — real global shapes: `hg` replaced by "in every mode some
    reference component is not zero". -/
theorem C02_merge_all_driver_real (g : Nat → Nat → Rat) (nm : Nat) (refRows : List Nat)
    (rows0 ref0 : List Nat) (t0 : Nat → Rat) (rest : List (List Nat × List Nat × (Nat → Rat)))
    (h0in : ∀ i ∈ ref0, i < rows0.length) (h0nd : ref0.Nodup) (h0ref : pick rows0 ref0 = refRows)
    (hrest : ∀ p ∈ rest, (∀ i ∈ p.2.1, i < p.1.length) ∧ p.2.1.Nodup ∧ pick p.1 p.2.1 = refRows ∧
      ∀ k, k < nm → p.2.2 k ≠ 0)
    (hrefne : ∀ k, k < nm → ∃ r ∈ refRows, g r k ≠ 0) :
    let d0 : SetupM (Cpx Rat) := ⟨rows0, ref0, fun k => ofReal (t0 k)⟩
    let ds : List (SetupM (Cpx Rat)) := rest.map fun p => ⟨p.1, p.2.1, fun k => ofReal (p.2.2 k)⟩
    mergeModeShapesQ ((d0 :: ds).map (SetupM.Phi (fun r k => ofReal (g r k)) nm)) ((d0 :: ds).map (·.ref))
      = .ok ((refRows ++ rovingConcat ((d0 :: ds).map (·.rows)) ((d0 :: ds).map (·.ref))).map
          fun r => (List.range nm).map fun k => ofReal (t0 k) * ofReal (g r k)) := by
  intro d0 ds
  apply C02_merge_all_driver (fun r k => ofReal (g r k)) nm refRows rows0 ref0 t0 rest h0in h0nd
    h0ref hrest
  intro k hk
  have : refRows.map (fun r => (ofReal (g r k) : Cpx Rat)) = (refRows.map (fun r => g r k)).map ofRealHom := by
    rw [List.map_map]; rfl
  rw [this]
  apply dot_self_ne_zero_of_real
  obtain ⟨r, hr, hr0⟩ := hrefne k hk
  exact ⟨g r k, List.mem_map.mpr ⟨r, hr, rfl⟩, hr0⟩

/-- the premise `hg` cannot be dropped for complex shapes: reference components `(1, i)` have
    unconjugated square sum `1 + i² = 0`; the model (like numpy: `0/0`) does not return the
    global shape (here: setup 2 in scale 2, roving component 5 — the merged value should be 5). -/
theorem hg_needed :
    mergeModeShapesQ [[[⟨1, 0⟩], [⟨0, 1⟩], [⟨3, 0⟩]], [[⟨2, 0⟩], [⟨0, 2⟩], [⟨10, 0⟩]]] [[0, 1], [0, 1]]
      = .ok [[⟨1, 0⟩], [⟨0, 1⟩], [⟨3, 0⟩], [⟨0, 0⟩]] := by
  decide +kernel

/-- **C02_stats_driver** — `C02_stats_results` at the executed instantiation `mergeResultsQ`
    (rational `Fn`/`Xi`, Gaussian-rational `Phi`): whatever `sqrt` the driver is run with, wherever
    that `sqrt` is exact at the population variance the reported dispersion times the mean is its
    non-negative root, and the merged values are the arithmetic means. -/
theorem C02_stats_driver (sqrt : Rat → Rat) (names : List String)
    (setups : List (List (AlgRes Rat (Cpx Rat)))) (refInd : List (List Nat))
    (out : List (String × PoserRes Rat (Cpx Rat)))
    (hnd : names.Nodup) (hne : setups ≠ []) (hlen : ∀ s ∈ setups, s.length = names.length)
    (h : mergeResultsQ sqrt names setups refInd = .ok out) :
    out.map (·.1) = names ∧
    ∀ gi (hgi : gi < out.length),
      (∀ k, k < out[gi].2.Fn.length →
        (setups.map (fun s => (s.getD gi default).Fn.getD k 0)).sum ≠ 0 →
        SqrtAt sqrt (pvar (setups.map (fun s => (s.getD gi default).Fn.getD k 0))) →
        MeanDisp (setups.map (fun s => (s.getD gi default).Fn.getD k 0))
          (out[gi].2.Fn.getD k 0) (out[gi].2.Fn_cov.getD k 0)) ∧
      (∀ k, k < out[gi].2.Xi.length →
        (setups.map (fun s => (s.getD gi default).Xi.getD k 0)).sum ≠ 0 →
        SqrtAt sqrt (pvar (setups.map (fun s => (s.getD gi default).Xi.getD k 0))) →
        MeanDisp (setups.map (fun s => (s.getD gi default).Xi.getD k 0))
          (out[gi].2.Xi.getD k 0) (out[gi].2.Xi_cov.getD k 0)) :=
  C02_stats_results sqrt realPart names setups refInd out hnd hne hlen h

/-- non-vacuity of `C02_stats_driver` over the driver's numbers: two setups, frequencies 1 and 3
    (population variance 1, where the table `sqrt` is exact): merged 2, dispersion 1/2 -/
example :
    let sqrt : Rat → Rat := fun x => if x = 1 then 1 else 0
    let setups : List (List (AlgRes Rat (Cpx Rat))) :=
      [[⟨[1], [3], [[⟨2, 0⟩], [⟨4, 1⟩]]⟩], [⟨[3], [5], [[⟨-1, 0⟩], [⟨7, 0⟩]]⟩]]
    (mergeResultsQ sqrt ["ssi"] setups [[0], [0]]).toOption
      = some [("ssi", ⟨[[⟨2, 0⟩], [⟨4, 1⟩], [⟨-14, 0⟩]], [2], [1/2], [4], [1/4]⟩)] ∧
    SqrtAt sqrt (pvar [1, 3]) ∧ ([1, 3] : List Rat).sum ≠ 0 ∧ MeanDisp ([1, 3] : List Rat) 2 (1/2) := by
  intro sqrt setups
  refine ⟨by decide +kernel, ?_, by decide +kernel, ?_⟩
  · unfold SqrtAt; decide +kernel
  · unfold MeanDisp; norm_num

/-- non-vacuity of `C02_merge_all_driver`: a genuinely complex 4-row, 2-mode global matrix
    `G r k = (r+1) + (k+1)i`, reference = global row 1, real factors `(2, 3)` and `(−1/2, 5)` -/
example : mergeModeShapesQ
      [[[⟨2, 2⟩, ⟨3, 6⟩], [⟨4, 2⟩, ⟨6, 6⟩], [⟨6, 2⟩, ⟨9, 6⟩]],
       [[⟨-2, -1/2⟩, ⟨20, 10⟩], [⟨-1, -1/2⟩, ⟨10, 10⟩]]] [[1], [1]]
      = .ok [[⟨4, 2⟩, ⟨6, 6⟩], [⟨2, 2⟩, ⟨3, 6⟩], [⟨6, 2⟩, ⟨9, 6⟩], [⟨8, 2⟩, ⟨12, 6⟩]] := by
  -- the hypotheses of the theorem hold for this instance ...
  have _h := C02_merge_all_driver (fun r k => ⟨(r : Rat) + 1, (k : Rat) + 1⟩) 2 [1]
    [0, 1, 2] [1] (fun k => if k = 0 then 2 else 3)
    [([3, 1], [1], fun k => if k = 0 then -1/2 else 5)]
    (by decide) (by decide) (by decide)
    (by
      intro p hp
      simp only [List.mem_singleton] at hp
      subst hp
      refine ⟨by decide, by decide, by decide, ?_⟩
      intro k _
      by_cases hk : k = 0 <;> simp [hk])
    (by
      intro k hk
      have : k = 0 ∨ k = 1 := by omega
      rcases this with rfl | rfl <;> decide +kernel)
  -- ... and this is what the executed model returns
  decide +kernel

end PV.C02
