import PyomaVerif.Model.Plscf
import PyomaVerif.Lemmas.Plscf
import Mathlib.Algebra.Field.Rat
import Mathlib.Algebra.Order.Field.Rat
import Mathlib.Tactic.NormNum
import Mathlib.Tactic.IntervalCases
/-!
# C05 — pLSCF recovers an exactly rational spectrum and reports its poles

Property theorems only (helper lemmas: `Lemmas/Plscf.lean`).  Everything is for all model
orders `p`, channel counts `m`, reference counts, line counts.

Layout found in `rmfd2ac` (F12): with `A_den = [A_0, …, A_p]` (so `n = p+1` blocks) the state
matrix is `(p+1)m × (p+1)m`,
```
  [ -P_{p-1}  -P_{p-2}  …  -P_0   0 ]        P_k = A_p⁻¹ A_k  (np.linalg.solve(A_p, A_k))
  [    I         0      …   0     0 ]
  [    0         I      …   0     0 ]
  [    ⋮                    ⋮     ⋮ ]
  [    0         0      …   I     0 ]
```
i.e. the `p`-block companion of `λ^p + P_{p-1}λ^{p-1} + … + P_0` extended by one block row
`[0 … I]` and one zero block column.
-/
namespace PV.C05
open PV PV.Plscf Finset

variable {K : Type} [Field K]

/-- **Companion, forward.**  `P i` is what `solve(A_p, A_{p-1-i})` returned (`hsolve`: the
    solves are exact), `A_p` is injective.  If `A(λ)·w = 0`, `w ≠ 0`, then the stacked vector
    `[λ^p w; λ^{p-1} w; …; λ w; w]` (block `j` is `λ^{p-j} w`, `p+1` blocks — the code's order)
    is an eigenvector of the matrix `rmfd2ac` builds, with eigenvalue `λ` (any `λ`, also `0`). -/
theorem C05_companion (p m : Nat) (A P : Nat → Nat → Nat → K)
    (hsolve : ∀ i < p, ∀ a < m, ∀ b < m, ∑ t ∈ range m, A p a t * P i t b = A (p - 1 - i) a b)
    (hinj : ∀ y : Nat → K, (∀ a < m, ∑ b ∈ range m, A p a b * y b = 0) → ∀ b < m, y b = 0)
    (lam : K) (w : Nat → K)
    (hroot : ∀ a < m, polyEval p m A lam w a = 0)
    (hw : ∃ b < m, w b ≠ 0) :
    (∀ r < (p + 1) * m,
        mulVec (companionA (p + 1) m p P) (blockVec p m lam w) r = lam * blockVec p m lam w r)
      ∧ ∃ c < (p + 1) * m, blockVec p m lam w c ≠ 0 := by
  have hmon : ∀ a < m, monicEval p m P lam w a = 0 := by
    apply hinj
    intro a ha
    rw [← polyEval_eq p m A P lam w hsolve a ha]
    exact hroot a ha
  refine ⟨fun r hr => comp_eig_of_monic p m P lam w hmon r hr, ?_⟩
  obtain ⟨b, hb, hwb⟩ := hw
  refine ⟨p * m + b, ?_, ?_⟩
  · rw [Nat.succ_mul]; omega
  · rw [blockVec_blk p m lam w p b hb]; simpa using hwb

/-- **Companion, converse.**  Every eigenpair `(λ, v)` of that matrix with `λ ≠ 0`, `v ≠ 0`
    arises so: with `w` the last block of `v`, `w ≠ 0`, `A(λ)·w = 0`, and
    `v = [λ^p w; …; λ w; w]`.  (Only exactness of the solves is used.) -/
theorem C05_companion_conv (p m : Nat) (A P : Nat → Nat → Nat → K)
    (hsolve : ∀ i < p, ∀ a < m, ∀ b < m, ∑ t ∈ range m, A p a t * P i t b = A (p - 1 - i) a b)
    (lam : K) (hlam : lam ≠ 0) (v : Nat → K)
    (heig : ∀ r < (p + 1) * m, mulVec (companionA (p + 1) m p P) v r = lam * v r)
    (hv : ∃ c < (p + 1) * m, v c ≠ 0) :
    (∃ b < m, v (p * m + b) ≠ 0)
      ∧ (∀ a < m, polyEval p m A lam (fun b => v (p * m + b)) a = 0)
      ∧ ∀ c < (p + 1) * m, v c = blockVec p m lam (fun b => v (p * m + b)) c := by
  have hform := eig_eq_blockVec p m P lam v heig
  refine ⟨?_, ?_, hform⟩
  · by_contra hcon
    have hz : ∀ b < m, v (p * m + b) = 0 := by
      intro b hb
      by_contra h
      exact hcon ⟨b, hb, h⟩
    obtain ⟨c, hc, hvc⟩ := hv
    apply hvc
    rw [hform c hc]
    unfold blockVec
    have hm : 0 < m := by
      rcases Nat.eq_zero_or_pos m with h0 | h0
      · subst h0; simp at hc
      · exact h0
    simp only
    rw [hz _ (Nat.mod_lt _ hm), mul_zero]
  · intro a ha
    rw [polyEval_eq p m A P lam _ hsolve a ha]
    apply Finset.sum_eq_zero
    intro t ht
    rw [eig_monic p m P lam hlam v heig t (mem_range.mp ht), mul_zero]

/-- **The extra block column (F12).**  The last `m` columns of the state matrix and of the
    output matrix are zero: every unit vector of the last block is an eigenvector for `λ = 0`
    and contributes nothing to the output. -/
theorem C05_companion_extra (p l m : Nat) (Bn P : Nat → Nat → Nat → K)
    (r c : Nat) (hr : r < (p + 1) * m) (hc : p * m ≤ c) :
    (companionA (p + 1) m p P).e r c = 0 ∧ (companionC (p + 1) l m p Bn P).e r c = 0 := by
  have hm : 0 < m := by
    rcases Nat.eq_zero_or_pos m with h0 | h0
    · subst h0; simp at hr
    · exact h0
  have hq : ¬ c / m < p := by
    rw [not_lt]
    exact (Nat.le_div_iff_mul_le hm).mpr hc
  constructor
  · unfold companionA
    have hne : ¬ (c + m = r) := by rw [Nat.succ_mul] at hr; omega
    simp only [if_neg hq, if_neg hne, ite_self]
  · unfold companionC
    simp only
    rw [if_neg hq]

/-- … and it contributes *only* `λ = 0`, with exactly that eigenspace: `A·v = 0` iff `v` is
    supported on the last block.  (The non-zero spectrum is the one of `C05_companion_conv`.) -/
theorem C05_companion_kernel (p m : Nat) (P : Nat → Nat → Nat → K) (v : Nat → K) :
    (∀ r < (p + 1) * m, mulVec (companionA (p + 1) m p P) v r = 0) ↔ ∀ c < p * m, v c = 0 :=
  kernel_iff p m P v

/-- **`rmfd2ac` is that matrix, with exact solves.**  Whenever the model of `rmfd2ac` returns
    (equal stack lengths `p+1`), its result is `companionA`/`companionC` of a `P` satisfying
    `A_p · P_i = A_{p-1-i}` exactly (certificate re-checked inside `solveChecked`). -/
theorem C05_rmfd2ac_solves [DecidableEq K] [Inhabited K] (Ad Bn : Coefs K) (p : Nat)
    (hA : Ad.len = p + 1) (hB : Bn.len = p + 1) (Am Cm : Mat K)
    (h : rmfd2ac Ad Bn = some (Am, Cm)) :
    ∃ P : Nat → Nat → Nat → K,
      Am = companionA (p + 1) Bn.c p P ∧ Cm = companionC (p + 1) Bn.r Bn.c p Bn.blk P ∧
      ∀ i < p, ∀ a < Bn.c, ∀ b < Bn.c,
        ∑ t ∈ range Bn.c, Ad.blk p a t * P i t b = Ad.blk (p - 1 - i) a b := by
  unfold rmfd2ac at h
  simp only [hA, hB, Nat.min_self, Nat.add_sub_cancel] at h
  split at h
  · exact absurd h (by simp)
  · rename_i P hP
    injection h with h
    injection h with h1 h2
    refine ⟨P, h1.symm, h2.symm, ?_⟩
    intro i hi a ha b hb
    have := solveAll_sound Bn.c _ _ p P hP i hi a ha b hb
    rw [sumTo_eq] at this
    rw [this]
    have e : p + 1 - 2 - i = p - 1 - i := by omega
    rw [e]

/-! ## Normal equations of `pLSCF`

`residRe/residIm Nch n Om (Sy o) α (β o) f c` are the real and imaginary parts of
`Xo[f,:]·β_o[:,c] + Yo[f,:]·α[:,c] = B_o(z_f)[c] − (Sy[o,:,f]·A(z_f))[c]`, the linearised
error the algorithm minimises (`Xo`, `Yo` are the model's, i.e. the code's, arrays). -/

/-- **The residual is the fit equation.**  With `A(z_f)[c',c] = Σ_i z_f^i·α[i·Nch+c', c]` and
    `B_o(z_f)[c] = Σ_i z_f^i·β[i,c]` (real coefficients), `residRe`/`residIm` are the real and
    imaginary parts of `B_o(z_f)[c] − Σ_{c'} Sy[o,c',f]·A(z_f)[c',c]`. -/
theorem C05_resid_is_fit (Nch n : Nat) (Om : Nat → Cx K) (Syo : Nat → Nat → Cx K)
    (α β : Nat → Nat → K) (f c : Nat) :
    residRe Nch n Om Syo α β f c
      = ∑ i ∈ range (n + 1), (Xo Om f i).re * β i c
        - ∑ c' ∈ range Nch,
            ((Syo c' f).re * ∑ i ∈ range (n + 1), (Xo Om f i).re * α (i * Nch + c') c
              - (Syo c' f).im * ∑ i ∈ range (n + 1), (Xo Om f i).im * α (i * Nch + c') c)
    ∧ residIm Nch n Om Syo α β f c
      = ∑ i ∈ range (n + 1), (Xo Om f i).im * β i c
        - ∑ c' ∈ range Nch,
            ((Syo c' f).re * ∑ i ∈ range (n + 1), (Xo Om f i).im * α (i * Nch + c') c
              + (Syo c' f).im * ∑ i ∈ range (n + 1), (Xo Om f i).re * α (i * Nch + c') c) := by
  constructor
  · unfold residRe
    rw [sum_blocks, sub_eq_add_neg]
    congr 1
    rw [Finset.sum_comm, ← Finset.sum_neg_distrib]
    apply Finset.sum_congr rfl
    intro c' hc'
    simp only [Finset.mul_sum, ← Finset.sum_sub_distrib, ← Finset.sum_neg_distrib]
    apply Finset.sum_congr rfl
    intro i _
    unfold Yo
    rw [blk_div i (mem_range.mp hc'), blk_mod i (mem_range.mp hc')]
    simp only [Cx.neg, Cx.mul]
    ring
  · unfold residIm
    rw [sum_blocks, sub_eq_add_neg]
    congr 1
    rw [Finset.sum_comm, ← Finset.sum_neg_distrib]
    apply Finset.sum_congr rfl
    intro c' hc'
    simp only [Finset.mul_sum, ← Finset.sum_add_distrib, ← Finset.sum_neg_distrib]
    apply Finset.sum_congr rfl
    intro i _
    unfold Yo
    rw [blk_div i (mem_range.mp hc'), blk_mod i (mem_range.mp hc')]
    simp only [Cx.neg, Cx.mul]
    ring

/-- **Exact fit ⇒ `M·α = 0`.**  If `Sy[o,:,f]·A(z_f) = B_o(z_f)` at every line with real
    coefficients, then the coefficient pair is a null vector of the reduced normal matrix `M`
    that `pLSCF` accumulates — for every exact result `X o` of `solve(Ro, So)`; no invertibility
    is needed (only the symmetry of `Ro`).  Either sign of the basis: `Om` is arbitrary. -/
theorem C05_exact_fit (Nch Nref Nf n : Nat) (Om : Nat → Cx K) (Sy : Nat → Nat → Nat → Cx K)
    (X : Nat → Nat → Nat → K)
    (hX : ∀ o < Nref, ∀ i < n + 1, ∀ J < (n + 1) * Nch,
      sumTo (n + 1) (fun t => Ro Nf Om i t * X o t J) = So Nch Nf Om (Sy o) i J)
    (α : Nat → Nat → K) (β : Nat → Nat → Nat → K)
    (hfit : ∀ o < Nref, ∀ f < Nf, ∀ c < Nch,
      residRe Nch n Om (Sy o) α (β o) f c = 0 ∧ residIm Nch n Om (Sy o) α (β o) f c = 0)
    (I : Nat) (hI : I < (n + 1) * Nch) (c : Nat) (hc : c < Nch) :
    sumTo ((n + 1) * Nch) (fun J => Mmat Nch Nref Nf n Om Sy X I J * α J c) = 0 :=
  Mmat_mul_alpha Nch Nref Nf n Om Sy X hX α β hfit I hI c hc

/-- The fit equation is invariant under right multiplication of the pair by a real matrix `G`
    (so the library's normalisation `A_k·A_c⁻¹`, `B_k·A_c⁻¹` of an exactly fitting pair fits). -/
theorem C05_fit_rightmul (Nch n : Nat) (Om : Nat → Cx K) (Syo : Nat → Nat → Cx K)
    (α β G : Nat → Nat → K) (f c : Nat)
    (h : ∀ k < Nch, residRe Nch n Om Syo α β f k = 0 ∧ residIm Nch n Om Syo α β f k = 0) :
    residRe Nch n Om Syo (fun J c => ∑ k ∈ range Nch, α J k * G k c)
        (fun i c => ∑ k ∈ range Nch, β i k * G k c) f c = 0
    ∧ residIm Nch n Om Syo (fun J c => ∑ k ∈ range Nch, α J k * G k c)
        (fun i c => ∑ k ∈ range Nch, β i k * G k c) f c = 0 := by
  have hre : residRe Nch n Om Syo (fun J c => ∑ k ∈ range Nch, α J k * G k c)
        (fun i c => ∑ k ∈ range Nch, β i k * G k c) f c
      = ∑ k ∈ range Nch, residRe Nch n Om Syo α β f k * G k c := by
    unfold residRe
    exact resid_lin _ _ Nch _ _ α β G c
  have him : residIm Nch n Om Syo (fun J c => ∑ k ∈ range Nch, α J k * G k c)
        (fun i c => ∑ k ∈ range Nch, β i k * G k c) f c
      = ∑ k ∈ range Nch, residIm Nch n Om Syo α β f k * G k c := by
    unfold residIm
    exact resid_lin _ _ Nch _ _ α β G c
  rw [hre, him]
  constructor
  · apply Finset.sum_eq_zero; intro k hk; rw [(h k (mem_range.mp hk)).1, zero_mul]
  · apply Finset.sum_eq_zero; intro k hk; rw [(h k (mem_range.mp hk)).2, zero_mul]

/-- **What a returned order certifies**: every solve inside `plscfOrder` was exact, `M` is the
    accumulated matrix, `alpha` is `[I; Z]` (`LO`) / `[Z; I]` (`HI`). -/
theorem C05_plscfOrder_sound [DecidableEq K] [Inhabited K] (Nch Nref Nf n : Nat) (hi : Bool)
    (Om : Nat → Cx K) (Sy : Nat → Nat → Nat → Cx K) (out : OrderOut K)
    (h : plscfOrder Nch Nref Nf n hi Om Sy = some out) :
    ∃ X Z, OrderCert Nch Nref Nf n hi Om Sy out X Z :=
  plscfOrder_sound Nch Nref Nf n hi Om Sy out h

/-- `M·α★ = 0` for the matrix `M` the model returns. -/
theorem C05_exact_fit_out [DecidableEq K] [Inhabited K] (Nch Nref Nf n : Nat) (hi : Bool)
    (Om : Nat → Cx K) (Sy : Nat → Nat → Nat → Cx K) (out : OrderOut K)
    (h : plscfOrder Nch Nref Nf n hi Om Sy = some out)
    (α : Nat → Nat → K) (β : Nat → Nat → Nat → K)
    (hfit : ∀ o < Nref, ∀ f < Nf, ∀ c < Nch,
      residRe Nch n Om (Sy o) α (β o) f c = 0 ∧ residIm Nch n Om (Sy o) α (β o) f c = 0)
    (I : Nat) (hI : I < (n + 1) * Nch) (c : Nat) (hc : c < Nch) :
    sumTo ((n + 1) * Nch) (fun J => out.M I J * α J c) = 0 := by
  obtain ⟨X, Z, cert⟩ := plscfOrder_sound Nch Nref Nf n hi Om Sy out h
  rw [← Mmat_mul_alpha Nch Nref Nf n Om Sy X cert.hX α β hfit I hI c hc]
  apply sumTo_congr
  intro J hJ
  rw [cert.hM I hI J hJ]

/-- **Exact recovery, `LO` constraint (`sgn_basf = -1`).**  If the spectrum is fitted exactly
    by a real pair normalised to `α★_0 = I` and the unconstrained block `M[Nch:, Nch:]` is
    injective, the denominator returned for that order is exactly `α★`. -/
theorem C05_exact_fit_unique_LO [DecidableEq K] [Inhabited K] (Nch Nref Nf n : Nat)
    (Om : Nat → Cx K) (Sy : Nat → Nat → Nat → Cx K) (out : OrderOut K)
    (h : plscfOrder Nch Nref Nf n false Om Sy = some out)
    (α : Nat → Nat → K) (β : Nat → Nat → Nat → K)
    (hfit : ∀ o < Nref, ∀ f < Nf, ∀ c < Nch,
      residRe Nch n Om (Sy o) α (β o) f c = 0 ∧ residIm Nch n Om (Sy o) α (β o) f c = 0)
    (hnorm : ∀ I < Nch, ∀ c < Nch, α I c = if I = c then 1 else 0)
    (hinj : ∀ y : Nat → K,
      (∀ I < n * Nch, ∑ J ∈ range (n * Nch), out.M (Nch + I) (Nch + J) * y J = 0)
        → ∀ J < n * Nch, y J = 0) :
    ∀ I < (n + 1) * Nch, ∀ c < Nch, out.alpha I c = α I c := by
  have hM := C05_exact_fit_out Nch Nref Nf n false Om Sy out h α β hfit
  obtain ⟨X, Z, cert⟩ := plscfOrder_sound Nch Nref Nf n false Om Sy out h
  have hZ := cert.hZ
  simp only [Bool.false_eq_true, ↓reduceIte] at hZ
  rw [hZ.2]
  exact unique_LO Nch n out.M Z α hZ.1 hM hnorm hinj

/-- **Exact recovery, `HI` constraint (`sgn_basf = +1`)**: normalisation `α★_n = I`, block
    `M[:n·Nch, :n·Nch]`. -/
theorem C05_exact_fit_unique_HI [DecidableEq K] [Inhabited K] (Nch Nref Nf n : Nat)
    (Om : Nat → Cx K) (Sy : Nat → Nat → Nat → Cx K) (out : OrderOut K)
    (h : plscfOrder Nch Nref Nf n true Om Sy = some out)
    (α : Nat → Nat → K) (β : Nat → Nat → Nat → K)
    (hfit : ∀ o < Nref, ∀ f < Nf, ∀ c < Nch,
      residRe Nch n Om (Sy o) α (β o) f c = 0 ∧ residIm Nch n Om (Sy o) α (β o) f c = 0)
    (hnorm : ∀ I < Nch, ∀ c < Nch, α (n * Nch + I) c = if I = c then 1 else 0)
    (hinj : ∀ y : Nat → K,
      (∀ I < n * Nch, ∑ J ∈ range (n * Nch), out.M I J * y J = 0) → ∀ J < n * Nch, y J = 0) :
    ∀ I < (n + 1) * Nch, ∀ c < Nch, out.alpha I c = α I c := by
  have hM := C05_exact_fit_out Nch Nref Nf n true Om Sy out h α β hfit
  obtain ⟨X, Z, cert⟩ := plscfOrder_sound Nch Nref Nf n true Om Sy out h
  have hZ := cert.hZ
  simp only [↓reduceIte] at hZ
  rw [hZ.2]
  exact unique_HI Nch n out.M Z α hZ.1 hM hnorm hinj

/-- **Numerator.**  Once the denominator is recovered and `Ro` is injective, the numerator
    returned for every reference row is exactly `β★`. -/
theorem C05_exact_fit_beta [DecidableEq K] [Inhabited K] (Nch Nref Nf n : Nat) (hi : Bool)
    (Om : Nat → Cx K) (Sy : Nat → Nat → Nat → Cx K) (out : OrderOut K)
    (h : plscfOrder Nch Nref Nf n hi Om Sy = some out)
    (α : Nat → Nat → K) (β : Nat → Nat → Nat → K)
    (hfit : ∀ o < Nref, ∀ f < Nf, ∀ c < Nch,
      residRe Nch n Om (Sy o) α (β o) f c = 0 ∧ residIm Nch n Om (Sy o) α (β o) f c = 0)
    (halpha : ∀ I < (n + 1) * Nch, ∀ c < Nch, out.alpha I c = α I c)
    (hRinj : ∀ y : Nat → K,
      (∀ i < n + 1, ∑ t ∈ range (n + 1), Ro Nf Om i t * y t = 0) → ∀ t < n + 1, y t = 0) :
    ∀ o < Nref, ∀ t < n + 1, ∀ c < Nch, out.beta o t c = β o t c := by
  obtain ⟨X, Z, cert⟩ := plscfOrder_sound Nch Nref Nf n hi Om Sy out h
  intro o ho t ht c hc
  refine unique_block (n + 1) (Ro Nf Om)
    (fun i => ∑ J ∈ range ((n + 1) * Nch), So Nch Nf Om (Sy o) i J * α J c)
    (fun t => out.beta o t c) (fun t => β o t c) ?_ ?_ hRinj t ht
  · intro i hi'
    have := cert.hbeta o ho i hi' c hc
    rw [sumTo_eq, sumTo_eq] at this
    rw [this]
    apply Finset.sum_congr rfl
    intro J hJ
    rw [halpha J (mem_range.mp hJ) c hc]
  · intro i hi'
    have := per_ref_eq1 Nch Nf n Om (Sy o) α (β o) (hfit o ho) i hi' c hc
    rw [add_comm]
    exact this

/-! ## Pole tables -/
section tables
variable [LT K] [DecidableLT K] [DecidableEq K]

/-- **Cell rule of `ac2mp_poly`.**  For one recorded eigenpair: the pole cell is filled iff the
    eigenvalue is non-zero and the real part of `log(λ_d)/dt` is not positive; the frequency cell
    is filled exactly when the pole cell is; the damping cell when moreover `λ_c ≠ 0`. -/
theorem C05_cell_iff (sqrt : K → K) (twoPi invdt : K) (cor : Bool) (invTau : K) (e : EigIn K) :
    ((toContinuousBlank cor invTau (lambdOf invdt e)).isSome
        ↔ (¬ (e.lamd.re = 0 ∧ e.lamd.im = 0) ∧ ¬ 0 < e.logv.re * invdt))
    ∧ ((fnCell sqrt twoPi (toContinuousBlank cor invTau (lambdOf invdt e))).isSome
        ↔ (toContinuousBlank cor invTau (lambdOf invdt e)).isSome)
    ∧ ((xiCell sqrt (toContinuousBlank cor invTau (lambdOf invdt e))).isSome
        ↔ ∃ l, toContinuousBlank cor invTau (lambdOf invdt e) = some l ∧ ¬ (l.re = 0 ∧ l.im = 0)) := by
  refine ⟨?_, ?_, ?_⟩
  · unfold lambdOf
    by_cases h0 : e.lamd.re = 0 ∧ e.lamd.im = 0
    · simp [h0, toContinuousBlank]
    · by_cases hp : 0 < e.logv.re * invdt
      · simp [h0, hp, toContinuousBlank, blanked]
      · simp [h0, hp, toContinuousBlank, blanked]
  · cases toContinuousBlank cor invTau (lambdOf invdt e) <;> simp [fnCell]
  · cases h : toContinuousBlank cor invTau (lambdOf invdt e) with
    | none => simp [xiCell]
    | some l =>
      by_cases hz : l.re = 0 ∧ l.im = 0
      · simp [xiCell, hz]
      · have hz' : l.re = 0 → ¬ l.im = 0 := fun a b => hz ⟨a, b⟩
        simp [xiCell, hz]
        exact hz'

/-- **Zero eigenvalues (F12).**  An eigenvalue `λ_d = 0` (the `Nch` extra ones of the companion)
    gives NaN in the pole, frequency and damping cells, whatever `np.log` recorded. -/
theorem C05_zero_eig_nan (sqrt : K → K) (twoPi invdt : K) (cor : Bool) (invTau : K) (e : EigIn K)
    (h : e.lamd.re = 0 ∧ e.lamd.im = 0) :
    toContinuousBlank cor invTau (lambdOf invdt e) = none
    ∧ fnCell sqrt twoPi (toContinuousBlank cor invTau (lambdOf invdt e)) = none
    ∧ xiCell sqrt (toContinuousBlank cor invTau (lambdOf invdt e)) = none := by
  have : toContinuousBlank cor invTau (lambdOf invdt e) = none := by
    simp [lambdOf, h, toContinuousBlank]
  rw [this]
  exact ⟨rfl, rfl, rfl⟩

/-- … and their mode-shape cell is NaN as well: an exact null vector `q` of the state matrix
    (real and imaginary parts) is supported on the last block, where the output matrix of
    `rmfd2ac` has zero columns, so `C·q = 0` and the unity normalisation is `0/0`. -/
theorem C05_zero_eig_phi_nan (p l m : Nat) (Bn P : Nat → Nat → Nat → K) (q : List (Cx K))
    (lambd : Option (Cx K))
    (hre : ∀ r < (p + 1) * m,
      mulVec (companionA (p + 1) m p P) (fun t => (q.getD t ⟨0, 0⟩).re) r = 0)
    (him : ∀ r < (p + 1) * m,
      mulVec (companionA (p + 1) m p P) (fun t => (q.getD t ⟨0, 0⟩).im) r = 0) :
    phiCell (companionC (p + 1) l m p Bn P) lambd q = none := by
  have kre := (kernel_iff p m P _).mp hre
  have kim := (kernel_iff p m P _).mp him
  have hzero : ∀ x ∈ phiRaw (companionC (p + 1) l m p Bn P) q, x = (⟨0, 0⟩ : Cx K) := by
    intro x hx
    unfold phiRaw at hx
    rw [List.mem_map] at hx
    obtain ⟨a, _, rfl⟩ := hx
    have hterm : ∀ (g : Nat → K), (∀ c < p * m, g c = 0) →
        sumTo (companionC (p + 1) l m p Bn P).c
          (fun t => (companionC (p + 1) l m p Bn P).e a t * g t) = 0 := by
      intro g hg
      rw [sumTo_eq]
      apply Finset.sum_eq_zero
      intro t ht
      by_cases htp : t < p * m
      · rw [hg t htp, mul_zero]
      · have hm : 0 < m := by
          rcases Nat.eq_zero_or_pos m with h0 | h0
          · subst h0; simp [companionC] at ht
          · exact h0
        have hq : ¬ t / m < p := by
          rw [not_lt]
          exact (Nat.le_div_iff_mul_le hm).mpr (not_lt.mp htp)
        have : (companionC (p + 1) l m p Bn P).e a t = 0 := by
          unfold companionC
          simp only [if_neg hq]
        rw [this, zero_mul]
    rw [hterm _ kre, hterm _ kim]
  have hget : ∀ k, (phiRaw (companionC (p + 1) l m p Bn P) q).getD k ⟨0, 0⟩ = (⟨0, 0⟩ : Cx K) := by
    intro k
    rw [List.getD_eq_getElem?_getD]
    cases hk : (phiRaw (companionC (p + 1) l m p Bn P) q)[k]? with
    | none => rfl
    | some x =>
      simp only [Option.getD_some]
      exact hzero x (List.mem_of_getElem? hk)
  unfold phiCell
  split
  · rfl
  · simp only [hget, and_self, ↓reduceIte]

/-- **Columns of one order**: row `r` of every column `ac2mp_poly` produces is the cell rule
    applied to the `r`-th recorded eigenpair — one cell per eigenvalue, nothing else. -/
theorem C05_column (sqrt : K → K) (twoPi invdt : K) (cor : Bool) (invTau : K) (C : Mat K)
    (eigs : List (EigIn K)) (r : Nat) :
    (ac2mpPoly sqrt twoPi invdt cor invTau C eigs).lam[r]?
        = (eigs[r]?).map (fun e => toContinuousBlank cor invTau (lambdOf invdt e))
    ∧ (ac2mpPoly sqrt twoPi invdt cor invTau C eigs).fn[r]?
        = (eigs[r]?).map (fun e => fnCell sqrt twoPi (toContinuousBlank cor invTau (lambdOf invdt e)))
    ∧ (ac2mpPoly sqrt twoPi invdt cor invTau C eigs).xi[r]?
        = (eigs[r]?).map (fun e => xiCell sqrt (toContinuousBlank cor invTau (lambdOf invdt e)))
    ∧ (ac2mpPoly sqrt twoPi invdt cor invTau C eigs).phi[r]?
        = (eigs[r]?).map (fun e => phiCell C (lambdOf invdt e) e.q) := by
  simp only [ac2mpPoly, List.getElem?_map, Option.map_map]
  exact ⟨trivial, rfl, rfl, trivial⟩

omit [Field K] [LT K] [DecidableLT K] [DecidableEq K] in
/-- **Padded tables (`pLSCF_poles`).**  In all four tables the cell at row `r`, order column `k`
    is the `r`-th entry of that order's column if there is one and NaN otherwise: rows beyond
    the order's pole count are NaN in every table, and no entry is dropped. -/
theorem C05_table (cols : List (Column K)) (T : Tables K) (h : padTables cols = .ok T)
    (k : Nat) (hk : k < cols.length) (r : Nat) :
    cellOf T.fn r k = ((cols[k]).fn[r]?).join
    ∧ cellOf T.xi r k = ((cols[k]).xi[r]?).join
    ∧ cellOf T.lam r k = ((cols[k]).lam[r]?).join
    ∧ cellOf T.phi r k = ((cols[k]).phi[r]?).join := by
  unfold padTables at h
  split at h
  · exact absurd h (by simp)
  · rename_i t hphi
    injection h with h
    subst h
    refine ⟨?_, ?_, ?_, ?_⟩
    · have := cellOf_zipLongest (cols.map (·.fn)) r k (by simpa using hk)
      simpa using this
    · have := cellOf_zipLongest (cols.map (·.xi)) r k (by simpa using hk)
      simpa using this
    · have := cellOf_zipLongest (cols.map (·.lam)) r k (by simpa using hk)
      simpa using this
    · have := cellOf_padPhi (cols.map (·.phi)) t hphi r k (by simpa using hk)
      simpa using this

/-- **NaN pattern of the order column.**  With the columns coming from `ac2mp_poly`: the
    frequency (and pole) cell `(r, k)` is non-NaN iff row `r` is the image of an eigenvalue of
    order `k`'s companion that is non-zero and whose continuous-time pole has non-positive real
    part; in particular every row `r ≥` that order's eigenvalue count is NaN in all tables. -/
theorem C05_table_iff (sqrt : K → K) (twoPi invdt : K) (cor : Bool) (invTau : K)
    (inputs : List (Mat K × List (EigIn K))) (T : Tables K)
    (h : padTables (inputs.map fun p => ac2mpPoly sqrt twoPi invdt cor invTau p.1 p.2) = .ok T)
    (k : Nat) (hk : k < inputs.length) (r : Nat) :
    ((cellOf T.fn r k).isSome ↔
        ∃ e, (inputs[k]).2[r]? = some e ∧ ¬ (e.lamd.re = 0 ∧ e.lamd.im = 0) ∧ ¬ 0 < e.logv.re * invdt)
    ∧ ((cellOf T.lam r k).isSome ↔ (cellOf T.fn r k).isSome)
    ∧ ((inputs[k]).2.length ≤ r →
        cellOf T.fn r k = none ∧ cellOf T.xi r k = none ∧ cellOf T.lam r k = none
          ∧ cellOf T.phi r k = none) := by
  have hk' : k < (inputs.map fun p => ac2mpPoly sqrt twoPi invdt cor invTau p.1 p.2).length := by
    simpa using hk
  obtain ⟨hfn, hxi, hlam, hphi⟩ := C05_table _ T h k hk' r
  have hcol := C05_column sqrt twoPi invdt cor invTau (inputs[k]).1 (inputs[k]).2 r
  simp only [List.getElem_map] at hfn hxi hlam hphi
  rw [hfn, hxi, hlam, hphi, hcol.1, hcol.2.1, hcol.2.2.1, hcol.2.2.2]
  refine ⟨?_, ?_, ?_⟩
  · cases he : (inputs[k]).2[r]? with
    | none => simp
    | some e =>
      have := (C05_cell_iff sqrt twoPi invdt cor invTau e)
      simp only [Option.map_some, Option.join_some, Option.some.injEq, exists_eq_left']
      rw [this.2.1, this.1]
  · cases he : (inputs[k]).2[r]? with
    | none => simp
    | some e =>
      have := (C05_cell_iff sqrt twoPi invdt cor invTau e)
      simp only [Option.map_some, Option.join_some]
      rw [this.2.1]
  · intro hr
    have : (inputs[k]).2[r]? = none := List.getElem?_eq_none_iff.mpr hr
    rw [this]
    simp

/-- **Modal map** (definitional): a kept pole `λ` (no window correction) is reported with
    `fn = |λ|/2π` and `xi = −Re λ/|λ|`. -/
theorem modal_map (sqrt : K → K) (twoPi invTau : K) (l : Cx K) (hl : ¬ 0 < l.re)
    (hz : ¬ (l.re = 0 ∧ l.im = 0)) :
    toContinuousBlank false invTau (some l) = some l
    ∧ fnCell sqrt twoPi (toContinuousBlank false invTau (some l))
        = some (sqrt (l.re * l.re + l.im * l.im) / twoPi)
    ∧ xiCell sqrt (toContinuousBlank false invTau (some l))
        = some (-(l.re / sqrt (l.re * l.re + l.im * l.im))) := by
  have : toContinuousBlank false invTau (some l) = some l := by
    simp [toContinuousBlank, blanked, hl]
  rw [this]
  refine ⟨rfl, rfl, ?_⟩
  simp [xiCell, hz, xiOf, Cx.normSq]

end tables

/-! ## Non-vacuity: concrete instances satisfying the hypotheses -/
section examples

/-- two channels, order 1: `A(λ) = A_1·(λ·I − diag(2,3))`, `A_1 = [[1,1],[0,1]]` -/
def exA : Nat → Nat → Nat → Rat := fun k a b =>
  if k = 1 then (if a = 0 then 1 else if b = 0 then 0 else 1)
  else (if a = 0 then (if b = 0 then -2 else -3) else (if b = 0 then 0 else -3))
def exP : Nat → Nat → Nat → Rat := fun _ a b => if a = b then (if a = 0 then -2 else -3) else 0
def exw : Nat → Rat := fun b => if b = 0 then 1 else 0

-- hypotheses of `C05_companion` / `C05_companion_conv`
example : ∀ i < 1, ∀ a < 2, ∀ b < 2, ∑ t ∈ range 2, exA 1 a t * exP i t b = exA (1 - 1 - i) a b := by
  decide +kernel
example : ∀ a < 2, polyEval 1 2 exA 2 exw a = 0 := by decide +kernel
example : ∃ b < 2, exw b ≠ 0 := ⟨0, by decide, by decide⟩
example : ∀ y : Nat → Rat, (∀ a < 2, ∑ b ∈ range 2, exA 1 a b * y b = 0) → ∀ b < 2, y b = 0 := by
  intro y h b hb
  have h0 := h 0 (by decide)
  have h1 := h 1 (by decide)
  simp [Finset.sum_range_succ, exA] at h0 h1
  interval_cases b
  · rw [h1] at h0; simpa using h0
  · exact h1
-- the conclusion on this instance, by evaluation: `[2,0,1,0]` is an eigenvector for `λ = 2`,
-- and the two unit vectors of the extra block are null vectors
example : ∀ r < 4, mulVec (companionA 2 2 1 exP) (blockVec 1 2 (2 : Rat) exw) r
    = 2 * blockVec 1 2 (2 : Rat) exw r := by decide +kernel
example : ∀ r < 4, mulVec (companionA 2 2 1 exP) (fun c => if c = 3 then (1 : Rat) else 0) r = 0 := by
  decide +kernel
-- `rmfd2ac` returns on the corresponding stacks (hypothesis of `C05_rmfd2ac_solves`)
example : (rmfd2ac ⟨2, 2, 2, exA⟩ ⟨2, 1, 2, fun _ _ _ => (1 : Rat)⟩).map
    (fun AC => (AC.1.toLists, AC.2.toLists))
    = some ([[2, 0, 0, 0], [0, 3, 0, 0], [1, 0, 0, 0], [0, 1, 0, 0]], [[3, 4, 0, 0]]) := by
  decide +kernel

/-- one channel, one reference, order 1, three lines `z = 1, i, −1`:
    `Sy = 1/(1 + z/2)`, i.e. `α★ = [1, 1/2]`, `β★ = [1, 0]` -/
def exOm : Nat → Cx Rat := fun f => if f = 0 then ⟨1, 0⟩ else if f = 1 then ⟨0, 1⟩ else ⟨-1, 0⟩
def exSy : Nat → Nat → Nat → Cx Rat := fun _ _ f =>
  if f = 0 then ⟨2/3, 0⟩ else if f = 1 then ⟨4/5, -2/5⟩ else ⟨2, 0⟩
def exAlpha : Nat → Nat → Rat := fun J _ => if J = 0 then 1 else 1/2
def exBeta : Nat → Nat → Nat → Rat := fun _ i _ => if i = 0 then 1 else 0

-- hypotheses of `C05_exact_fit*`: the fit is exact, the pair is normalised, the model returns,
-- the unconstrained block and `Ro` are non-singular; and the conclusion by evaluation
example : ∀ o < 1, ∀ f < 3, ∀ c < 1,
    residRe 1 1 exOm (exSy o) exAlpha (exBeta o) f c = 0
      ∧ residIm 1 1 exOm (exSy o) exAlpha (exBeta o) f c = 0 := by decide +kernel
example : ∀ I < 1, ∀ c < 1, exAlpha I c = if I = c then 1 else 0 := by decide +kernel
example : (plscfOrder 1 1 3 1 false exOm exSy).map
    (fun o => (o.alpha 0 0, o.alpha 1 0, o.beta 0 0 0, o.beta 0 1 0, decide (o.M 1 1 ≠ 0)))
    = some (1, 1/2, 1, 0, true) := by decide +kernel
example : Ro 3 exOm 0 0 * Ro 3 exOm 1 1 - Ro 3 exOm 0 1 * Ro 3 exOm 1 0 ≠ 0 := by decide +kernel

-- hypotheses of `C05_table` / `C05_table_iff`: `padTables` returns on increasing orders; an
-- order with a stable pole, an unstable one (blanked) and a zero eigenvalue (F12)
def exEigs : List (EigIn Rat) :=
  [⟨⟨1/2, 0⟩, ⟨-7/10, 0⟩, [⟨1, 0⟩]⟩, ⟨⟨2, 0⟩, ⟨7/10, 0⟩, [⟨1, 0⟩]⟩, ⟨⟨0, 0⟩, ⟨0, 0⟩, [⟨0, 0⟩]⟩]
def exC : Mat Rat := ⟨1, 1, fun _ _ => 1⟩
example : (match padTables [ac2mpPoly id 1 10 false 0 exC (exEigs.take 1),
                            ac2mpPoly id 1 10 false 0 exC exEigs] with
    | .ok T => (T.lam.map (·.map (·.map fun z => (z.re, z.im))), T.fn.length, T.phi.length)
    | .error _ => ([], 0, 0))
    = ([[some (-7, 0), some (-7, 0)], [none, none], [none, none]], 3, 3) := by decide +kernel

end examples

end PV.C05
