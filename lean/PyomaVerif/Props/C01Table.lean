import PyomaVerif.Props.C01E2E
import PyomaVerif.Lemmas.Poles
/-!
# C01, end to end, concluded on the tables `ssi.SSI_poles` returns

`Props/C01E2E.lean` ends with `Recovered`, whose last clause takes the content of the order-`n` column as a
hypothesis (`hper : perOrder n = …`).  Here the column comes from the model function `ssiPoles`
(`Model/Poles.lean`: the per-order loop, `AA[ii]`, `CC[ii]`, `ac2mp`, the writes into column `ii`), run by
the driver op `ssi_poles` and compared cell by cell with `ssi.SSI_poles` (stream `ssi.SSI_poles[values]`).

* `C01_table_of_recovered` — any lists `AA`, `CC` whose entry `n` is a realised pair for which a mode is
  `Recovered`: the cells of column `n` of `Fn`, `Xi`, `Lambds`, `Phi`.
* `C01_e2e_cov_table`, `C01_e2e_dat_table` — the lists are those the model of `SSI_fast`'s loop
  (`fastLists`) builds from the recorded factors of the Hankel matrix of the record; `ssiPoles` is shown
  to return (no hypothesis `… = .ok T`).
-/
namespace PV.C01Table
open PV PV.Mat PV.Cov PV.FreeVib PV.C11 PV.C01E2E PV.Poles Matrix

/-- the recorded discrete eigenvalues of one `eig` call as the function the contracts speak about -/
def lamsOf (e : EigRec) : ℕ → Cpx ℚ := fun k => e.lamd.getD k 0

/-- what the tables hold for one mode at order `n` -/
def ModeInTable {n : ℕ} (C : ℕ → Fin n → ℚ) (l : ℕ) (dt : ℝ) (lam : Cpx ℚ) (w : Fin n → Cpx ℚ)
    (mu : ℂ) (e : EigRec) (twoPi : ℚ) (T : SsiTables) : Prop :=
  (∃ k, k < n ∧ lamsOf e k = lam) ∧
  ∀ k, k < n → lamsOf e k = lam →
    lamC (toC (lamsOf e k)) dt = mu ∧
    fnR (lamC (toC (lamsOf e k)) dt) = fnR mu ∧ xiR (lamC (toC (lamsOf e k)) dt) = xiR mu ∧
    T.fn.e k n = some (fnOf (e.absc.getD k 0) twoPi) ∧
    T.xi.e k n = some (xiOf (e.lamc.getD k 0) (e.absc.getD k 0)) ∧
    T.lam.e k n = some (toCQ (e.lamc.getD k 0)) ∧
    (∀ t, T.phi.e k n t = ((normalise (trueShape C l w))[t]?).map toCQ) ∧
    ∀ (rtol : ℚ) (reqs : List (ℚ × Option ℕ)) (cells : List (ℕ × ℕ)), 0 ≤ rtol →
      Extracted T.fn rtol reqs cells → (fnOf (e.absc.getD k 0) twoPi, some n) ∈ reqs →
      ∃ r', (r', n) ∈ cells ∧ T.fn.e r' n = some (fnOf (e.absc.getD k 0) twoPi)

/-- **from `Recovered` to the cells of the tables.**  `inp` any input of `ssiPoles` with `step = 1` whose
    `CC[n]` is the realised `Chat` and whose `(n−1)`-th recorded eigen-decomposition (the call for order
    `n`) is `e`, with `n` eigenvalues (`lam_c`, `abs(lam_c)` of length `n`).  If the call returns `T`:
    the tables have `ordmax` rows and `ordmax + 1` columns; column `n` is NaN from row `n` on; the mode's
    discrete pole is `lam_d[k]` for some `k < n`, and for every such `k` the cells `(k, n)` hold
    `fn = |λ_c|/2π`, `xi = −Re λ_c/|λ_c|`, `λ_c` of the recorded `λ_c[k]`, the unity-normalised true shape
    `C·w`; the exact `λ_c` is the system's `mu`; extraction of that frequency at order `n` returns a cell of
    column `n` holding it. -/
theorem C01_table_of_recovered {n : ℕ} (A : Matrix (Fin n) (Fin n) ℚ) (C : ℕ → Fin n → ℚ) (l : ℕ)
    (dt : ℝ) (lam : Cpx ℚ) (w : Fin n → Cpx ℚ) (mu : ℂ) (Ahat Chat : Mat ℚ) (e : EigRec)
    (hrec : Recovered A C l dt lam w mu Ahat Chat e.V (lamsOf e))
    (inp : SsiIn) (hstep : inp.step = 1) (hn1 : 1 ≤ n) (hno : n ≤ inp.ordmax)
    (hCC : inp.CC[n]? = some Chat) (hrecs : inp.recs[n - 1]? = some e)
    (hlc : e.lamc.length = n) (hla : e.absc.length = n)
    (T : SsiTables) (hT : ssiPoles inp = .ok T) :
    (T.fn.r = inp.ordmax ∧ T.fn.c = inp.ordmax + 1)
    ∧ (∀ r, n ≤ r → T.fn.e r n = none ∧ T.xi.e r n = none ∧ T.lam.e r n = none
        ∧ ∀ t, T.phi.e r n t = none)
    ∧ ModeInTable C l dt lam w mu e inp.twoPi T := by
  obtain ⟨_, _, hshape, _, hpass, _⟩ := ssiPoles_spec inp T hT
  have hii : 1 + (n - 1) * inp.step = n := by rw [hstep]; omega
  obtain ⟨A', C', _, hC', _, _, _, hfn, hxi, hlam, hphi, _⟩ := hpass (n - 1) (by omega)
  rw [hii] at hC' hfn hxi hlam hphi
  rw [hCC] at hC'
  obtain rfl : Chat = C' := Option.some.inj hC'
  have hpo : passOut inp (n - 1) Chat = ac2mp Chat e inp.twoPi := by
    unfold passOut
    rw [List.getD_eq_getElem?_getD, hrecs]
    rfl
  rw [hpo] at hfn hxi hlam hphi
  have hfl : (ac2mp Chat e inp.twoPi).fn.length = n := by simp [ac2mp, hla]
  rw [hfl] at hxi hlam hphi
  refine ⟨⟨hshape.1, by rw [hshape.2.1, hstep, Nat.div_one]⟩, ?_, ?_⟩
  · intro r hr
    refine ⟨?_, ?_, ?_, ?_⟩
    · rw [hfn r]; exact List.getElem?_eq_none_iff.mpr (by omega)
    · rw [hxi r, if_neg (by omega)]
    · rw [hlam r, if_neg (by omega)]
    · intro t; rw [hphi r t, if_neg (by omega)]
  · obtain ⟨_, _, hex, hall⟩ := hrec
    refine ⟨hex, ?_⟩
    intro k hk hlk
    obtain ⟨h1, h2, h3, hshape', _⟩ := hall k hk hlk
    have ha : e.absc[k]? = some (e.absc.getD k 0) := by
      rw [List.getD_eq_getElem?_getD, List.getElem?_eq_getElem (by omega)]; rfl
    have hl : e.lamc[k]? = some (e.lamc.getD k 0) := by
      rw [List.getD_eq_getElem?_getD, List.getElem?_eq_getElem (by omega)]; rfl
    have hfnk : T.fn.e k n = some (fnOf (e.absc.getD k 0) inp.twoPi) := by
      rw [hfn k]
      show (e.absc.map (fun a => fnOf a inp.twoPi))[k]? = _
      rw [List.getElem?_map, ha]; rfl
    refine ⟨h1, h2, h3, hfnk, ?_, ?_, ?_, ?_⟩
    · rw [hxi k, if_pos hk]
      show (List.zipWith xiOf e.lamc e.absc)[k]? = _
      rw [List.getElem?_zipWith, hl, ha]
    · rw [hlam k, if_pos hk]
      show (e.lamc[k]?).map toCQ = _
      rw [hl]; rfl
    · intro t
      rw [hphi k t, if_pos hk]
      have : (ac2mp Chat e inp.twoPi).phi = shapesOf (cplx Chat) e.V := rfl
      rw [this, hshape']
    · intro rtol reqs cells hr hex' hreq
      exact C01C11.C01_extract T.fn rtol hr reqs cells hex' _ n hreq
        ⟨k, by rw [hshape.1]; omega, hfnk⟩

/-! ## the lists of `SSI_fast` -/

theorem fastLists_len (Rinv : ℕ → Mat ℚ) (Q Obs : Mat ℚ) (l ordmax : ℕ) :
    (fastLists Rinv Q Obs l ordmax 1).1.length = ordmax + 1
      ∧ (fastLists Rinv Q Obs l ordmax 1).2.length = ordmax + 1 := by
  simp [fastLists]

/-- with `step = 1` list position `n` holds the pair of order `n` -/
theorem fastLists_get (Rinv : ℕ → Mat ℚ) (Q Obs : Mat ℚ) (l ordmax n : ℕ) (hn : n ≤ ordmax) :
    (fastLists Rinv Q Obs l ordmax 1).1[n]? = some (fastA (Rinv n) Q (dnPart Obs l) n)
      ∧ (fastLists Rinv Q Obs l ordmax 1).2[n]? = some (outC Obs l n) := by
  have h : n < (ordmax + 1 + 1 - 1) / 1 := by rw [Nat.div_one]; omega
  constructor
  · simp only [fastLists]
    rw [List.getElem?_map, List.getElem?_range h, Option.map_some, Nat.mul_one]
  · simp only [fastLists]
    rw [List.getElem?_map, List.getElem?_range h, Option.map_some, Nat.mul_one]

/-- `ssiPoles` on the lists of `SSI_fast` (`step = 1`, no `calc_unc`) returns, as soon as no recorded
    eigen-decomposition has more than `N = ordmax` eigenvalues -/
theorem ssiPoles_fast_ok (Rinv : ℕ → Mat ℚ) (Q Obs : Mat ℚ) (l N : ℕ) (recs : List EigRec)
    (twoPi : ℚ) (hwf : ∀ k, k < N → (recs.getD k EigRec.empty).absc.length ≤ N) :
    ∃ T, ssiPoles ⟨(fastLists Rinv Q Obs l N 1).1, (fastLists Rinv Q Obs l N 1).2, N, 1, recs, twoPi,
      none⟩ = .ok T := by
  obtain ⟨h1, h2⟩ := fastLists_len Rinv Q Obs l N
  refine ssiPoles_ok _ rfl (by show N < _; rw [h1]; omega) (by show N < _; rw [h2]; omega) ?_ hwf
  intro ii hii
  simp [fastLists, outC]

/-- **C01_e2e_cov_table — covariance-driven SSI (`cov_mm`), fast routine, concluded on the tables of
    `SSI_poles`.**  Hypotheses of `C01_e2e_cov` for the fast routine (record, rank conditions, contracts
    `SvdOf`, `SqrtOf`, `QrC` with `Rinvs n` the inverse recorded for order `n`), and for the pole step:
    `recs` the recorded eigen-decompositions of the successive `ac2mp` calls, the one for order `n`
    (`recs[n−1] = e`) satisfying `EigOf` for the matrix the model of `SSI_fast` put at list position `n`,
    with `n` values of `λ_c` and `|λ_c|`, and no record longer than `N`.  NOT assumed: which list entry
    goes to which column, the content of the column, that `SSI_poles` returns.
    Then `ssiPoles` on the lists `fastLists` builds returns tables `T` (`N × (N+1)`), column `n` has
    nothing below row `n`, and every mode of the system is in it (`ModeInTable`). -/
theorem C01_e2e_cov_table {n : ℕ} (A : Matrix (Fin n) (Fin n) ℚ) (C : ℕ → Fin n → ℚ) (x0 : Fin n → ℚ)
    (Y Yref : Mat ℚ) (p : ℕ) (s : ℚ) (hl : 0 < Y.r) (hY : IsFreeResponse A C x0 Y)
    (Γr : Matrix (Fin ((p + 1) * Yref.r)) (Fin n) ℚ)
    (hΓ : gamMx A x0 Yref p s Y.c ((p + 1) * Yref.r) * Γr = 1)
    (Olp : Matrix (Fin n) (Fin (p * Y.r)) ℚ) (hObs : Olp * obsMx (p * Y.r) Y.r A C = 1)
    (U V : Mat ℚ) (S sq : ℕ → ℚ) (N : ℕ)
    (hsvd : SvdOf (hankMM Y Yref p s) U V S N) (hsq : SqrtOf sq S N)
    (Q R : Mat ℚ) (Rinvs : ℕ → Mat ℚ)
    (hqr : QrC (upPart (obsOf U sq N) Y.r) Q R (Rinvs n) (p * Y.r) N n)
    (recs : List EigRec) (twoPi : ℚ) (e : EigRec) (hn1 : 1 ≤ n) (hrecs : recs[n - 1]? = some e)
    (heig : EigOf n (fastA (Rinvs n) Q (dnPart (obsOf U sq N) Y.r) n) e.V (lamsOf e))
    (hlc : e.lamc.length = n) (hla : e.absc.length = n)
    (hwf : ∀ k, k < N → (recs.getD k EigRec.empty).absc.length ≤ N)
    (dt : ℝ) (hdt : 0 < dt) (lam : Cpx ℚ) (w : Fin n → Cpx ℚ) (mu : ℂ) (hm : Mode A dt lam w mu) :
    ∃ T, ssiPoles ⟨(fastLists Rinvs Q (obsOf U sq N) Y.r N 1).1,
          (fastLists Rinvs Q (obsOf U sq N) Y.r N 1).2, N, 1, recs, twoPi, none⟩ = .ok T
      ∧ (T.fn.r = N ∧ T.fn.c = N + 1)
      ∧ (∀ r, n ≤ r → T.fn.e r n = none ∧ T.xi.e r n = none ∧ T.lam.e r n = none
          ∧ ∀ t, T.phi.e r n t = none)
      ∧ ModeInTable C Y.r dt lam w mu e twoPi T := by
  obtain ⟨hn, _, _, Tm, Tinv, hT, _, hfast, _⟩ := realised_of_factor_rank A C Y.r p hl
    (hankMM Y Yref p s) U V S sq N
    (PV.C12.C12_shape_mm Y Yref p s).1 (gamMx A x0 Yref p s Y.c ((p + 1) * Yref.r)) Γr hΓ
    (hankMM_factor A C x0 Y Yref p s hY) Olp hObs hsvd hsq
  obtain ⟨hA1, hC1⟩ := hfast Q R (Rinvs n) hqr
  have hrec := recovered_of_similar A C Y.r dt hdt lam w mu hm _ (outC (obsOf U sq N) Y.r n) rfl rfl
    Tm Tinv hT hA1 hC1 e.V (lamsOf e) heig
  obtain ⟨T, hTok⟩ := ssiPoles_fast_ok Rinvs Q (obsOf U sq N) Y.r N recs twoPi hwf
  obtain ⟨h1, h2, h3⟩ := C01_table_of_recovered A C Y.r dt lam w mu _ _ e hrec
    ⟨(fastLists Rinvs Q (obsOf U sq N) Y.r N 1).1, (fastLists Rinvs Q (obsOf U sq N) Y.r N 1).2, N, 1,
      recs, twoPi, none⟩ rfl hn1 hn (fastLists_get Rinvs Q (obsOf U sq N) Y.r N n hn).2 hrecs hlc hla T hTok
  exact ⟨T, hTok, h1, h2, h3⟩

/-- **C01_e2e_dat_table — data-driven SSI, fast routine, concluded on the tables of `SSI_poles`**
    (as `C01_e2e_cov_table`, with the Hankel matrix `hankDatOfR Rf r p` of the recorded triangular factor
    and the contract `DatQr`). -/
theorem C01_e2e_dat_table {n : ℕ} (A : Matrix (Fin n) (Fin n) ℚ) (C : ℕ → Fin n → ℚ) (x0 : Fin n → ℚ)
    (Y Yref : Mat ℚ) (p : ℕ) (s : ℚ) (hl : 0 < Y.r) (hY : IsFreeResponse A C x0 Y)
    (Γr : Matrix (Fin ((p + 1) * Yref.r)) (Fin n) ℚ)
    (hΓ : gamMx A x0 Yref p s Y.c ((p + 1) * Yref.r) * Γr = 1)
    (Olp : Matrix (Fin n) (Fin (p * Y.r)) ℚ) (hObs : Olp * obsMx (p * Y.r) Y.r A C = 1)
    (Rf : Mat ℚ) (hRc : Rf.c = (Yref.r + Y.r) * (p + 1))
    (hdq : DatQr (hankYs Y Yref p s) Rf ((p + 1) * Yref.r) ((p + 1) * Y.r) (Y.c - p - (p + 1) - 1))
    (U V : Mat ℚ) (S sq : ℕ → ℚ) (N : ℕ)
    (hsvd : SvdOf (hankDatOfR Rf Yref.r p) U V S N) (hsq : SqrtOf sq S N)
    (Q R : Mat ℚ) (Rinvs : ℕ → Mat ℚ)
    (hqr : QrC (upPart (obsOf U sq N) Y.r) Q R (Rinvs n) (p * Y.r) N n)
    (recs : List EigRec) (twoPi : ℚ) (e : EigRec) (hn1 : 1 ≤ n) (hrecs : recs[n - 1]? = some e)
    (heig : EigOf n (fastA (Rinvs n) Q (dnPart (obsOf U sq N) Y.r) n) e.V (lamsOf e))
    (hlc : e.lamc.length = n) (hla : e.absc.length = n)
    (hwf : ∀ k, k < N → (recs.getD k EigRec.empty).absc.length ≤ N)
    (dt : ℝ) (hdt : 0 < dt) (lam : Cpx ℚ) (w : Fin n → Cpx ℚ) (mu : ℂ) (hm : Mode A dt lam w mu) :
    ∃ T, ssiPoles ⟨(fastLists Rinvs Q (obsOf U sq N) Y.r N 1).1,
          (fastLists Rinvs Q (obsOf U sq N) Y.r N 1).2, N, 1, recs, twoPi, none⟩ = .ok T
      ∧ (T.fn.r = N ∧ T.fn.c = N + 1)
      ∧ (∀ r, n ≤ r → T.fn.e r n = none ∧ T.xi.e r n = none ∧ T.lam.e r n = none
          ∧ ∀ t, T.phi.e r n t = none)
      ∧ ModeInTable C Y.r dt lam w mu e twoPi T := by
  obtain ⟨q, hdec, horth⟩ := hdq.dec
  obtain ⟨G, hG1, hG2⟩ := hankDat_factor A C x0 Y Yref p s hY q Rf.e hdec horth hdq.tri
  have eH : hankDatOfR Rf Yref.r p
      = ⟨(p + 1) * Y.r, (p + 1) * Yref.r, fun i j => Rf.e j ((p + 1) * Yref.r + i)⟩ := by
    refine mat_ext ?_ (Nat.mul_comm _ _) (fun i j => ?_)
    · show Rf.c - Yref.r * (p + 1) = (p + 1) * Y.r
      rw [hRc, Nat.add_mul, Nat.add_sub_cancel_left, Nat.mul_comm]
    · show Rf.e j (Yref.r * (p + 1) + i) = Rf.e j ((p + 1) * Yref.r + i)
      rw [Nat.mul_comm]
  rw [eH] at hsvd
  have hGr : G * (toMx ((p + 1) * Yref.r) ((p + 1) * Yref.r) Rf.e * Γr) = 1 := by
    rw [← Matrix.mul_assoc, hG2, hΓ]
  obtain ⟨hn, _, _, Tm, Tinv, hT, _, hfast, _⟩ := realised_of_factor_rank A C Y.r p hl
    ⟨(p + 1) * Y.r, (p + 1) * Yref.r, fun i j => Rf.e j ((p + 1) * Yref.r + i)⟩ U V S sq N rfl
    G _ hGr hG1 Olp hObs hsvd hsq
  obtain ⟨hA1, hC1⟩ := hfast Q R (Rinvs n) hqr
  have hrec := recovered_of_similar A C Y.r dt hdt lam w mu hm _ (outC (obsOf U sq N) Y.r n) rfl rfl
    Tm Tinv hT hA1 hC1 e.V (lamsOf e) heig
  obtain ⟨T, hTok⟩ := ssiPoles_fast_ok Rinvs Q (obsOf U sq N) Y.r N recs twoPi hwf
  obtain ⟨h1, h2, h3⟩ := C01_table_of_recovered A C Y.r dt lam w mu _ _ e hrec
    ⟨(fastLists Rinvs Q (obsOf U sq N) Y.r N 1).1, (fastLists Rinvs Q (obsOf U sq N) Y.r N 1).2, N, 1,
      recs, twoPi, none⟩ rfl hn1 hn (fastLists_get Rinvs Q (obsOf U sq N) Y.r N n hn).2 hrecs hlc hla T hTok
  exact ⟨T, hTok, h1, h2, h3⟩

/-- the matrix handed to `eig` in the pass for order `n` is the one `SSI_fast` put at list position
    `n`: the subject of the contract `heig` above is what the model passes, not an assumption -/
theorem ssiEigArgs_fast (Rinvs : ℕ → Mat ℚ) (Q Obs : Mat ℚ) (l N n : ℕ) (hn1 : 1 ≤ n) (hn : n ≤ N) :
    (ssiEigArgs (fastLists Rinvs Q Obs l N 1).1 N 1)[n - 1]?
      = some (some (fastA (Rinvs n) Q (dnPart Obs l) n)) := by
  unfold ssiEigArgs
  rw [List.getElem?_map, ssiOrders_get N 1 (by omega) (n - 1) (by omega), Option.map_some]
  have : 1 + (n - 1) * 1 = n := by omega
  rw [this, (fastLists_get Rinvs Q Obs l N n hn).1]

/-- the eigen-contract only reads the first `n` recorded values -/
theorem eigOf_congr {n : ℕ} {Ahat : Mat ℚ} {V : Mat (Cpx ℚ)} {lams lams' : ℕ → Cpx ℚ}
    (h : EigOf n Ahat V lams) (he : ∀ k, k < n → lams k = lams' k) : EigOf n Ahat V lams' where
  hVc := h.hVc
  eq := fun k hk => by rw [← he k hk]; exact h.eq k hk
  ne := h.ne
  complete := by
    rw [h.complete]
    apply Finset.prod_congr rfl
    intro k _
    rw [he k.1 k.2]

/-! ## Non-vacuity: the instances of `C01E2E` (`Ex`: damped rotation, `cov_mm`; `ExDat`: undamped
rotation, `dat`) with two recorded eigen-decompositions (orders 1 and 2; `λ_c`, `|λ_c|` arbitrary
rationals standing for the recorded `np.log`, `np.abs` values) satisfy all hypotheses jointly. -/
namespace Ex
open PV.C01E2E.Ex

def e1 : EigRec := ⟨[⟨0, 0⟩], ⟨1, 1, fun _ _ => ⟨1, 0⟩⟩, ⟨1, 1, fun _ _ => ⟨1, 0⟩⟩, [⟨-1, 0⟩], [1], [1]⟩
def e2 : EigRec := ⟨[⟨0, 3/4⟩, ⟨0, -3/4⟩], Vec, Vec, [⟨-29, 157⟩, ⟨-29, -157⟩], [160, 160], [3/4, 3/4]⟩

theorem table : ∃ T, ssiPoles ⟨(fastLists (fun _ => Rinv) Q (obsOf U sq 2) Y.r 2 1).1,
      (fastLists (fun _ => Rinv) Q (obsOf U sq 2) Y.r 2 1).2, 2, 1, [e1, e2], 7, none⟩ = .ok T
    ∧ (T.fn.r = 2 ∧ T.fn.c = 2 + 1)
    ∧ (∀ r, 2 ≤ r → T.fn.e r 2 = none ∧ T.xi.e r 2 = none ∧ T.lam.e r 2 = none
        ∧ ∀ t, T.phi.e r 2 t = none)
    ∧ ModeInTable C Y.r (1 / 100) lam w mu e2 7 T :=
  C01_e2e_cov_table A C x0 Y Y 1 1 (by decide) free Γr hΓ Olp hObs U V S sq 2 hsvd hsq Q R (fun _ => Rinv)
    hqr [e1, e2] 7 e2 (by decide) rfl
    (eigOf_congr (eig_of _ (by decide +kernel)) (fun k hk => by
      obtain rfl | rfl : k = 0 ∨ k = 1 := by omega
      all_goals rfl))
    rfl rfl
    (fun k hk => by
      obtain rfl | rfl : k = 0 ∨ k = 1 := by omega
      all_goals decide)
    (1 / 100) (by norm_num) lam w mu mode

/-- the cells behind `table`: the frequency cell of the mode is `|λ_c|/2π = 160/7`, the shape cell the
    unity-normalised `C·w = (1, −i)` -/
example : ∀ T, ssiPoles ⟨(fastLists (fun _ => Rinv) Q (obsOf U sq 2) Y.r 2 1).1,
      (fastLists (fun _ => Rinv) Q (obsOf U sq 2) Y.r 2 1).2, 2, 1, [e1, e2], 7, none⟩ = .ok T →
    T.fn.e 0 2 = some (160 / 7) ∧ T.phi.e 0 2 0 = some (1, 0) ∧ T.phi.e 0 2 1 = some (0, -1) := by
  intro T hT
  obtain ⟨T', hT', _, _, ⟨_, hall⟩⟩ := table
  rw [hT] at hT'
  obtain rfl : T = T' := by injection hT'
  obtain ⟨_, _, _, hfn, _, _, hphi, _⟩ := hall 0 (by decide) rfl
  refine ⟨hfn, ?_, ?_⟩
  · rw [hphi 0]; decide +kernel
  · rw [hphi 1]; decide +kernel

end Ex

namespace ExDat
open PV.C01E2E.ExDat

def e1 : EigRec := ⟨[⟨0, 0⟩], ⟨1, 1, fun _ _ => ⟨1, 0⟩⟩, ⟨1, 1, fun _ _ => ⟨1, 0⟩⟩, [⟨-1, 0⟩], [1], [1]⟩
def e2 : EigRec := ⟨[⟨0, 1⟩, ⟨0, -1⟩], Vec, Vec, [⟨0, 157⟩, ⟨0, -157⟩], [157, 157], [1, 1]⟩

theorem table : ∃ T, ssiPoles ⟨(fastLists (fun _ => Rinv) Q (obsOf U sq 2) Y.r 2 1).1,
      (fastLists (fun _ => Rinv) Q (obsOf U sq 2) Y.r 2 1).2, 2, 1, [e1, e2], 7, none⟩ = .ok T
    ∧ (T.fn.r = 2 ∧ T.fn.c = 2 + 1)
    ∧ (∀ r, 2 ≤ r → T.fn.e r 2 = none ∧ T.xi.e r 2 = none ∧ T.lam.e r 2 = none
        ∧ ∀ t, T.phi.e r 2 t = none)
    ∧ ModeInTable C Y.r (1 / 100) lam w mu e2 7 T :=
  C01_e2e_dat_table A C x0 Y Y 1 (1/3) (by decide) free Γr hΓ Olp hObs Rf rfl hdq U V S sq 2 hsvd hsq
    Q R (fun _ => Rinv) hqr [e1, e2] 7 e2 (by decide) rfl
    (eigOf_congr (eig_of _ (by decide +kernel)) (fun k hk => by
      obtain rfl | rfl : k = 0 ∨ k = 1 := by omega
      all_goals rfl))
    rfl rfl
    (fun k hk => by
      obtain rfl | rfl : k = 0 ∨ k = 1 := by omega
      all_goals decide)
    (1 / 100) (by norm_num) lam w mu mode

end ExDat

end PV.C01Table
