import PyomaVerif.Props.C17Table
import PyomaVerif.Props.C09Stored
import PyomaVerif.Lemmas.PolesStored
/-!
# C17 — the two models of the `Fn_cov` / `Xi_cov` loop of `ssi.SSI_poles` are ONE, and the table is stored

`Model/Unc.lean` (`covTables`, op `unc_table`, stream `SSI_poles[Fn_cov-table]`) and `Model/Poles.lean`
(`ssiPoles … .fnCov`, op `ssi_poles`, stream `ssi.SSI_poles[cov values]`) both mirror the uncertainty block of
`SSI_poles`.  The C17 table theorems (`C17_table_cells`, `C17_fncov_cell`, `C17_table_variance`, …) speak about the
first, the class-level chain (`ssiPoles` → hard criteria → result) about the second.

* `covTables_cells` — `C17_table_cells` for the scalar structure of the MODEL (no field axioms: the statement
  applies verbatim to `Rat` / `Cpx Rat` with the instances the driver runs);
* `orderRecs` — the per-order records `covTables` expects, read off the input of `ssiPoles`;
* `covTables_eq_ssiPoles_fnCov` — for `step = 1` and `calc_unc`, a returning `ssiPoles` call and `covTables` on the
  same records produce the SAME `Fn_cov` and `Xi_cov` tables, cell by cell (every `(jj, ii)`, NaN included);
* `C17_stored` — the `Fn_cov` table of a returning `ssiPoles` call handed to the hard-criteria part of `run()`
  (class programs regenerated from `/repo`, `calc_unc` on): `Fn_poles_cov` of the result is that table blanked
  exactly at the poles failing an enabled criterion; a kept pole's cell is `|cov_fx[0,0]|` of `covTables`.
-/
namespace PV.C17Stored
open PV PV.Unc PV.Poles PV.Hc PV.HcFn PV.C09 PV.C09C18 PV.C09All PV.Stored

section Cells
variable {R K : Type} [Zero R] [One R] [Add R] [Neg R] [Mul R] [Div R] [NatCast R] [Inhabited R]
  [Zero K] [One K] [Add K] [Neg K] [Mul K] [Div K] [Inhabited K]

/-- **`C17_table_cells` without field axioms** (the loops only move values): if at every order the pole loop stays
    inside the `ordmax` rows, `covTables` terminates and cell `[jj, ii]` of `Fn_cov` / `Xi_cov` is
    `abs(cov_fx[0, 0])` / `abs(cov_fx[1, 0])` of pole `jj` of order `ii` for `1 ≤ ii ≤ ordmax`, `jj < len(lam_c)`,
    NaN elsewhere. -/
theorem covTables_cells (ι : R → K) (re im : K → R) (conj : K → K) (absR : R → R) (pi dt : R)
    (ordmax : Nat) (Q1 Q2 Q3 : Mat R) (recs : Nat → OrderRec R K)
    (hnp : ∀ ii, 1 ≤ ii → ii ≤ ordmax → (recs ii).np ≤ ordmax) :
    ∃ t, covTables ι re im conj absR pi dt ordmax Q1 Q2 Q3 recs = some t ∧
      (∀ jj ii, t.fn jj ii =
        if 1 ≤ ii ∧ ii ≤ ordmax ∧ jj < (recs ii).np then
          some (absR ((covFx ι re im conj pi dt ii (pnQ1 ii ordmax Q1) (pnQ23 ii ordmax Q2 Q3)
            (recs ii) jj).e 0 0))
        else none) ∧
      (∀ jj ii, t.xi jj ii =
        if 1 ≤ ii ∧ ii ≤ ordmax ∧ jj < (recs ii).np then
          some (absR ((covFx ι re im conj pi dt ii (pnQ1 ii ordmax Q1) (pnQ23 ii ordmax Q2 Q3)
            (recs ii) jj).e 1 0))
        else none) := by
  have hstep : ∀ ii ∈ List.range' 1 ordmax, ∀ t : CovTabs R, ∃ t',
      orderPass ι re im conj absR pi dt ordmax Q1 Q2 Q3 (recs ii) ii t = some t' ∧
      (∀ a b, t'.fn a b = if b = ii ∧ a < (recs ii).np then
        some (absR ((covFx ι re im conj pi dt ii (pnQ1 ii ordmax Q1) (pnQ23 ii ordmax Q2 Q3)
          (recs ii) a).e 0 0)) else t.fn a b) ∧
      (∀ a b, t'.xi a b = if b = ii ∧ a < (recs ii).np then
        some (absR ((covFx ι re im conj pi dt ii (pnQ1 ii ordmax Q1) (pnQ23 ii ordmax Q2 Q3)
          (recs ii) a).e 1 0)) else t.xi a b) := by
    intro ii hii t
    rw [List.mem_range'_1] at hii
    have hle : (recs ii).np ≤ ordmax := hnp ii hii.1 (by omega)
    obtain ⟨t', h1, h2, h3⟩ := foldlM_write ordmax ii
      (fun a => absR ((covFx ι re im conj pi dt ii (pnQ1 ii ordmax Q1) (pnQ23 ii ordmax Q2 Q3)
        (recs ii) a).e 0 0))
      (fun a => absR ((covFx ι re im conj pi dt ii (pnQ1 ii ordmax Q1) (pnQ23 ii ordmax Q2 Q3)
        (recs ii) a).e 1 0))
      (List.range (recs ii).np) (fun a ha => Nat.lt_of_lt_of_le (List.mem_range.mp ha) hle) t
    refine ⟨t', h1, ?_, ?_⟩
    · intro a b; rw [h2 a b]; simp only [List.mem_range]
    · intro a b; rw [h3 a b]; simp only [List.mem_range]
  obtain ⟨t', h1, h2, h3⟩ := foldlM_orders (List.range' 1 ordmax)
    (fun ii t => orderPass ι re im conj absR pi dt ordmax Q1 Q2 Q3 (recs ii) ii t)
    (fun ii a => absR ((covFx ι re im conj pi dt ii (pnQ1 ii ordmax Q1) (pnQ23 ii ordmax Q2 Q3)
        (recs ii) a).e 0 0))
    (fun ii a => absR ((covFx ι re im conj pi dt ii (pnQ1 ii ordmax Q1) (pnQ23 ii ordmax Q2 Q3)
        (recs ii) a).e 1 0))
    (fun ii => (recs ii).np) hstep ⟨fun _ _ => none, fun _ _ => none⟩
  refine ⟨t', h1, ?_, ?_⟩
  · intro jj ii
    rw [h2 jj ii]
    by_cases hc : 1 ≤ ii ∧ ii ≤ ordmax ∧ jj < (recs ii).np
    · rw [if_pos hc, if_pos ⟨List.mem_range'_1.mpr ⟨hc.1, by omega⟩, hc.2.2⟩]
    · rw [if_neg hc, if_neg]
      intro h
      have := List.mem_range'_1.mp h.1
      exact hc ⟨this.1, by omega, h.2⟩
  · intro jj ii
    rw [h3 jj ii]
    by_cases hc : 1 ≤ ii ∧ ii ≤ ordmax ∧ jj < (recs ii).np
    · rw [if_pos hc, if_pos ⟨List.mem_range'_1.mpr ⟨hc.1, by omega⟩, hc.2.2⟩]
    · rw [if_neg hc, if_neg]
      intro h
      have := List.mem_range'_1.mp h.1
      exact hc ⟨this.1, by omega, h.2⟩

end Cells

attribute [local instance] cpxOne

/-- the external results of order `ii` as `covTables` takes them, read off the input of `ssiPoles`: the record
    of the `(ii − 1)`-th `ac2mp` call (`step = 1`) and the inverse `OO` recorded in that pass -/
def orderRecs (inp : SsiIn) (u : UncIn) (ii : Nat) : OrderRec Rat (Cpx Rat) :=
  let e := inp.recs.getD (ii - 1) EigRec.empty
  ⟨e.lamc.length, fun j => e.lamd.getD j 0, fun j => e.lamc.getD j 0, fun j => e.absd.getD j 0,
   fun j => e.absc.getD j 0, e.L, e.V, u.OO.getD (ii - 1) ⟨0, 0, fun _ _ => 0⟩⟩

/-- the value of one `(jj, ii)` pass is the same expression in the two models -/
theorem covVals_eq_covFx (inp : SsiIn) (u : UncIn) (ii jj : Nat) :
    covVals u inp.ordmax ii (u.OO.getD (ii - 1) ⟨0, 0, fun _ _ => 0⟩) (inp.recs.getD (ii - 1) EigRec.empty) jj
      = (qabs ((covFx Cpx.ofReal Cpx.re Cpx.im Cpx.conj u.pi u.dt ii (pnQ1 ii inp.ordmax u.Q1)
            (pnQ23 ii inp.ordmax u.Q2 u.Q3) (orderRecs inp u ii) jj).e 0 0),
         qabs ((covFx Cpx.ofReal Cpx.re Cpx.im Cpx.conj u.pi u.dt ii (pnQ1 ii inp.ordmax u.Q1)
            (pnQ23 ii inp.ordmax u.Q2 u.Q3) (orderRecs inp u ii) jj).e 1 0)) := rfl

/-- **covTables_eq_ssiPoles_fnCov — one uncertainty loop, two models, the same tables.**  `inp` an input of
    `ssiPoles` with `calc_unc` (`inp.unc = some u`) and `step = 1` on which it returns `T`; every recorded
    eigen-decomposition has as many `λ_c` as `|λ_c|` (`hrec`: both are elementwise images of `lam_d`; the pole loop
    runs over `len(lam_c)`, the rows were checked against `len(fn)`).  Then `covTables` (the model the C17 table
    theorems are about) on the per-order records `orderRecs inp u`, with `np.abs = qabs`, returns tables whose every
    cell equals the cell of `T.fnCov` / `T.xiCov`. -/
theorem covTables_eq_ssiPoles_fnCov (inp : SsiIn) (u : UncIn) (hu : inp.unc = some u) (hstep : inp.step = 1)
    (hrec : ∀ k, ((inp.recs.getD k EigRec.empty).lamc).length = ((inp.recs.getD k EigRec.empty).absc).length)
    (T : SsiTables) (hT : ssiPoles inp = .ok T) :
    ∃ t, covTables Cpx.ofReal Cpx.re Cpx.im Cpx.conj qabs u.pi u.dt inp.ordmax u.Q1 u.Q2 u.Q3 (orderRecs inp u)
        = some t
      ∧ ∀ jj ii, t.fn jj ii = ocell T.fnCov jj ii ∧ t.xi jj ii = ocell T.xiCov jj ii := by
  obtain ⟨_, _, _, _, hpass, hnan⟩ := ssiPoles_spec inp T hT
  have hlen : ∀ ii, 1 ≤ ii → ii ≤ inp.ordmax → (orderRecs inp u ii).np ≤ inp.ordmax := by
    intro ii h1 h2
    obtain ⟨A, C, _, _, _, hl, _⟩ := hpass (ii - 1) (by rw [hstep]; omega)
    show ((inp.recs.getD (ii - 1) EigRec.empty).lamc).length ≤ _
    rw [hrec]
    simpa [passOut, ac2mp] using hl
  obtain ⟨t, ht, hfn, hxi⟩ := covTables_cells Cpx.ofReal Cpx.re Cpx.im Cpx.conj qabs u.pi u.dt inp.ordmax
    u.Q1 u.Q2 u.Q3 (orderRecs inp u) hlen
  refine ⟨t, ht, ?_⟩
  intro jj ii
  rw [hfn jj ii, hxi jj ii]
  by_cases hv : 1 ≤ ii ∧ ii ≤ inp.ordmax
  · have hk : 1 + (ii - 1) * inp.step = ii := by rw [hstep]; omega
    obtain ⟨A, C, _, _, _, _, _, _, _, _, _, hcov⟩ := hpass (ii - 1) (by rw [hk]; exact hv.2)
    obtain ⟨c1, c2⟩ := hcov u hu jj
    rw [hk] at c1 c2
    rw [c1, c2, covVals_eq_covFx inp u ii jj]
    have hnp : (passOut inp (ii - 1) C).lamc.length = (orderRecs inp u ii).np := rfl
    rw [hnp]
    by_cases hj : jj < (orderRecs inp u ii).np
    · simp only [hv.1, hv.2, hj, and_self, if_true]
    · simp only [hv.1, hv.2, hj, and_false, if_false, and_self]
  · rw [if_neg (fun h => hv ⟨h.1, h.2.1⟩), if_neg (fun h => hv ⟨h.1, h.2.1⟩)]
    obtain ⟨hc, _⟩ := hnan ii (fun k hk => by
      by_contra hle
      apply hv
      rw [hstep] at hk
      constructor <;> omega)
    obtain ⟨_, _, _, h4, h5⟩ := hc jj
    rw [h4, h5]
    exact ⟨rfl, rfl⟩

/-! ## the table handed to the hard criteria and stored -/

/-- the unfiltered tables of a run WITH uncertainties: `rawOf T` and the two covariance tables of `T`
    (`Phi_cov` is allocated and never written: NaN) -/
def origCov (T : SsiTables) : Tbl → Nat × Nat → Option Cell
  | .fncov, x => (ocell T.fnCov x.1 x.2).map .real
  | .xicov, x => (ocell T.xiCov x.1 x.2).map .real
  | o, x => (rawOf T).orig o x

/-- the data of a run with `calc_unc` on an `r × c` grid -/
noncomputable def paramsCov (T : SsiTables) (r c : Nat) (xiMax mpcLim mpdLim covMax : Rat)
    (dir : Nat → (Nat → Cx Rat) → ℝ × ℝ) : Params (Nat × Nat) :=
  { (rawOf T).params r c xiMax mpcLim mpdLim covMax dir with orig := origCov T }

/-- the frequency-covariance table is a required result field of the four SSI classes -/
theorem required_fncov : ∀ cl ∈ classes, cl.hasCov = true → "Fn_poles_cov" ∈ cl.required := by decide

/-- **C17_stored — `Fn_poles_cov` of the result is the `covTables` table, filtered.**  `inp`: `calc_unc`, `step = 1`,
    `ssiPoles inp = .ok T` (`hrec` as in `covTables_eq_ssiPoles_fnCov`).  For every SSI class program regenerated
    from `/repo` (`cl.hasCov`), every value of `hc["conj"]` and every limits, the hard-criteria part of `run()` on
    the unfiltered tables of `T` (uncertainties on) terminates; the stored `Fn_poles_cov` is the unfiltered one
    blanked exactly at the poles failing an enabled criterion (`FiltOf`, the criterion `cov_max` included); the
    cell of a `Kept` pole `(jj, ii)` is the cell of the table `covTables` returns on the same records — i.e.
    (`covTables_cells`, `C17_table_cells`) `|cov_fx[0,0]|` of pole `jj` of order `ii`; every other cell is NaN. -/
theorem C17_stored (inp : SsiIn) (u : UncIn) (hu : inp.unc = some u) (hstep : inp.step = 1)
    (hrec : ∀ k, ((inp.recs.getD k EigRec.empty).lamc).length = ((inp.recs.getD k EigRec.empty).absc).length)
    (T : SsiTables) (hT : ssiPoles inp = .ok T)
    (cl : ClassSpec) (hcl : cl ∈ classes) (hcov : cl.hasCov = true) (conjOn : Bool)
    (xiMax mpcLim mpdLim covMax : ℚ) (dir : Nat → (Nat → Cx Rat) → ℝ × ℝ) :
    let p := paramsCov T inp.ordmax (inp.ordmax + 1) xiMax mpcLim mpdLim covMax dir
    ∃ t, covTables Cpx.ofReal Cpx.re Cpx.im Cpx.conj qabs u.pi u.dt inp.ordmax u.Q1 u.Q2 u.Q3 (orderRecs inp u)
        = some t ∧
      ∃ e' Tc, runOf cl conjOn true p = some e' ∧
        e' (retVar cl.prog "Fn_poles_cov") = some (CVal.tbl Tc) ∧ FiltOf p conjOn true .fncov Tc ∧
        (∀ jj ii, Kept p conjOn true (jj, ii) → Tc (jj, ii) = (t.fn jj ii).map .real) ∧
        (∀ jj ii, ¬ Kept p conjOn true (jj, ii) → Tc (jj, ii) = none) := by
  intro p
  obtain ⟨t, ht, hcells⟩ := covTables_eq_ssiPoles_fnCov inp u hu hstep hrec T hT
  obtain ⟨e', Tc, he', hTc, hF⟩ := C09_kept_iff_field cl hcl conjOn true (by simp [flagOk, hcov]) p
    "Fn_poles_cov" (required_fncov cl hcl hcov) .fncov rfl rfl
  refine ⟨t, ht, e', Tc, he', hTc, hF, ?_, ?_⟩
  · intro jj ii hk
    rw [hF.eq_of_kept _ hk, (hcells jj ii).1]
    rfl
  · intro jj ii hk
    exact hF.none_of_not_kept _ hk

/-! ## Non-vacuity: a one-order run with `calc_unc` (one channel, `ordmax = 1`, one real pole `λ_d = 1/2`,
records `λ_c = −69`, `|λ_c| = 69`, `|λ_d| = 1/2`; `Q1..Q3`, `OO` small rational matrices) satisfies the hypotheses of
`covTables_eq_ssiPoles_fnCov` and `C17_stored`, and the cell `Fn_cov[0, 1]` is a number. -/
namespace Ex

def e : EigRec :=
  ⟨[⟨1/2, 0⟩], ⟨1, 1, fun _ _ => ⟨1, 0⟩⟩, ⟨1, 1, fun _ _ => ⟨1, 0⟩⟩, [⟨-69, 0⟩], [69], [1/2]⟩
def u : UncIn :=
  ⟨⟨1, 2, fun _ j => if j = 0 then 1 else 2⟩, ⟨1, 2, fun _ j => if j = 0 then 3 else 1⟩,
   ⟨1, 2, fun _ j => if j = 0 then 1 else 1⟩, [⟨1, 1, fun _ _ => 1⟩], 3, 1 / 100⟩
def inp : SsiIn :=
  ⟨[⟨0, 0, fun _ _ => 0⟩, ⟨1, 1, fun _ _ => 1/2⟩], [⟨1, 0, fun _ _ => 0⟩, ⟨1, 1, fun _ _ => 1⟩], 1, 1, [e], 7,
   some u⟩

theorem hrec : ∀ k, ((inp.recs.getD k EigRec.empty).lamc).length = ((inp.recs.getD k EigRec.empty).absc).length := by
  intro k
  cases k with
  | zero => rfl
  | succ k => simp [inp, EigRec.empty]

theorem returns : ∃ T, ssiPoles inp = .ok T :=
  ssiPoles_ok inp rfl (by decide) (by decide)
    (fun ii h => by
      have h2 : ii < 2 := h
      obtain rfl | rfl : ii = 0 ∨ ii = 1 := by omega
      all_goals rfl)
    (fun k hk => by
      have h1 : k < 1 := hk
      obtain rfl : k = 0 := by omega
      decide)

/-- the two models agree on the instance, and the cell `Fn_cov[0, 1]` of both is a number -/
example : ∃ T t, ssiPoles inp = .ok T ∧
    covTables Cpx.ofReal Cpx.re Cpx.im Cpx.conj qabs u.pi u.dt inp.ordmax u.Q1 u.Q2 u.Q3 (orderRecs inp u) = some t ∧
    (∀ jj ii, t.fn jj ii = ocell T.fnCov jj ii ∧ t.xi jj ii = ocell T.xiCov jj ii) ∧
    (ocell T.fnCov 0 1).isSome = true := by
  obtain ⟨T, hT⟩ := returns
  obtain ⟨t, ht, hc⟩ := covTables_eq_ssiPoles_fnCov inp u rfl rfl hrec T hT
  refine ⟨T, t, hT, ht, hc, ?_⟩
  obtain ⟨_, _, _, _, hpass, _⟩ := ssiPoles_spec inp T hT
  obtain ⟨A, C, _, _, _, _, _, _, _, _, _, hcov⟩ := hpass 0 (by decide)
  have := (hcov u rfl 0).1
  have h1 : (1 + 0 * inp.step) = 1 := rfl
  rw [h1] at this
  rw [this]
  have hl : (passOut inp 0 C).lamc.length = 1 := rfl
  rw [hl, if_pos (by decide)]
  rfl

/-- … and the hypotheses of `C17_stored`, for every SSI class and the conjugate criterion on -/
example (cl : ClassSpec) (hcl : cl ∈ classes) (hcov : cl.hasCov = true) :=
  C17_stored inp u rfl rfl hrec _ returns.choose_spec cl hcl hcov true (1 / 5) (7 / 10) 2 1 (fun _ _ => (1, -1))

end Ex

end PV.C17Stored
