import PyomaVerif.Props.WiringDefaults
/-! Default values as regenerated obligations — part C12 (see `Props/WiringDefaults.lean`; one module per property so that a
changed default is reported by the property it belongs to). -/
namespace PV.WiringDefaults
open PV.Defaults PV.DefaultsTbl PV.Wiring

/-- **C12 / C01 / C17 run-parameter defaults of the SSI classes.** `br` is required; `method = None` (so that
    `self.run_params.method or self.method` falls through to the class attribute, see `WiringClass`), `ref_ind = None`
    (all channels are references), `ordmin = 0`, `ordmax = None`, `step = 1`, `calc_unc = False`, `nb = 100`; the class
    body of `SSIRunParams` holds fields only (no validator that could rewrite a value).  The library functions agree:
    `build_hank(calc_unc=False, nb=100)` with `method` required, `SSI_fast(step=1, calc_unc=False, T=None, nb=100)`,
    `SSI(step=1)`, `SSI_poles(step=1, calc_unc=False, Q1..Q4=None)`, `SSI_multi_setup(step=1)`, `ac2mp(calc_unc=False)`. -/
theorem C12_runparams_defaults :
    rpDefaults ssiClasses [("br", .required), ("method", .none), ("ref_ind", .none), ("ordmin", .int 0), ("ordmax", .none),
        ("step", .int 1), ("calc_unc", .bool false), ("nb", .int 100)] = true
    ∧ ssiClasses.all (fun c => runParamCls c == some "SSIRunParams") = true
    ∧ extrasOf "SSIRunParams" = []
    ∧ funcDefaults "ssi.build_hank" [("Y", .required), ("Yref", .required), ("br", .required), ("method", .required),
        ("calc_unc", .bool false), ("nb", .int 100)] = true
    ∧ funcDefaults "ssi.SSI_fast" [("step", .int 1), ("calc_unc", .bool false), ("T", .none), ("nb", .int 100)] = true
    ∧ funcDefaults "ssi.SSI" [("step", .int 1)] = true
    ∧ funcDefaults "ssi.SSI_poles" [("dt", .required), ("step", .int 1), ("calc_unc", .bool false),
        ("Q1", .none), ("Q2", .none), ("Q3", .none), ("Q4", .none)] = true
    ∧ funcDefaults "ssi.SSI_multi_setup" [("method_hank", .required), ("step", .int 1)] = true
    ∧ funcDefaults "ssi.ac2mp" [("dt", .required), ("calc_unc", .bool false)] = true := by
  decide

end PV.WiringDefaults
