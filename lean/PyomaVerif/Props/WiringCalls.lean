import PyomaVerif.Model.Wiring
/-!
# The complete list of library calls of every `run` / `mpe` / `mpe_from_plot` body and, per call, the exact SET of
callee parameters that receive an argument (C03–C06, C10–C13, C16)

The obligations of `WiringRun` / `WiringMpe` / `WiringStore` say which expression a NAMED parameter receives; they
are silent about parameters they do not name.  Here the set is closed: a call site that starts passing a further
argument (a new data flow into a core routine, e.g. `ssi.SSI_poles(..., xi_max=hc["xi_max"])` together with a new
optional parameter of the callee), drops one, or a body that gains or loses a call, makes the obligation false.
Positional / keyword spelling and keyword order are immaterial (the translator resolves positionals through the
callee's signature; sets are compared).  Passing a default value explicitly (`calc_unc=False`) DOES change the set and
is reported: the obligation cannot know the callee's default is what was written.
-/
namespace PV.WiringCalls
open PV.Wiring

/-- the hard-criteria / mask / label tail shared by the two SSI `run` bodies -/
def ssiTail : List (String × List String) :=
  [("gen.HC_conj", ["lambd"]),
   ("gen.applymask", ["list_arr", "mask", "len_phi"]),
   ("gen.HC_damp", ["damp", "max_damp"]),
   ("gen.applymask", ["list_arr", "mask", "len_phi"]),
   ("gen.HC_phi_comp", ["phi", "mpc_lim", "mpd_lim"]),
   ("gen.applymask", ["list_arr", "mask", "len_phi"]),
   ("gen.applymask", ["list_arr", "mask", "len_phi"]),
   ("gen.HC_cov", ["Fn_cov", "max_cov"]),
   ("gen.applymask", ["list_arr", "mask", "len_phi"]),
   ("gen.SC_apply", ["Fn", "Xi", "Phi", "ordmin", "ordmax", "step", "err_fn", "err_xi", "err_phi"]),
   ("return SSIResult", ["Obs", "A", "C", "H", "Lambds", "Fn_poles", "Xi_poles", "Phi_poles", "Lab",
                         "Fn_poles_cov", "Xi_poles_cov", "Phi_poles_cov"])]

/-- … and by the two pLSCF `run` bodies (no covariance criterion) -/
def plscfTail : List (String × List String) :=
  [("plscf.pLSCF", ["Sy", "dt", "ordmax", "sgn_basf"]),
   ("plscf.pLSCF_poles", ["Ad", "Bn", "dt", "nxseg", "methodSy"]),
   ("gen.HC_conj", ["lambd"]),
   ("gen.applymask", ["list_arr", "mask", "len_phi"]),
   ("gen.HC_damp", ["damp", "max_damp"]),
   ("gen.applymask", ["list_arr", "mask", "len_phi"]),
   ("gen.HC_phi_comp", ["phi", "mpc_lim", "mpd_lim"]),
   ("gen.applymask", ["list_arr", "mask", "len_phi"]),
   ("gen.applymask", ["list_arr", "mask", "len_phi"]),
   ("gen.SC_apply", ["Fn", "Xi", "Phi", "ordmin", "ordmax", "step", "err_fn", "err_xi", "err_phi"]),
   ("return self.ResultCls", ["freq", "Sy", "Ad", "Bn", "Fn_poles", "Xi_poles", "Phi_poles", "Lab"])]

/-- **C12 / C10 (C01, C09, C17).** `SSIdat.run` (= `SSIcov.run`): Hankel matrix, realisation, poles, then the tail. -/
theorem C12_ssidat_run_calls :
    callsExactly "SSIdat" "run"
      ([("ssi.build_hank", ["Y", "Yref", "br", "method", "calc_unc", "nb"]),
        ("ssi.SSI_fast", ["H", "br", "ordmax", "step", "calc_unc", "T", "nb"]),
        ("ssi.SSI_poles", ["Obs", "AA", "CC", "ordmax", "dt", "step", "calc_unc", "Q1", "Q2", "Q3", "Q4"])]
       ++ ssiTail) = true := by
  decide

/-- **C03 / C10.** `SSIdat_MS.run` (= `SSIcov_MS.run`). -/
theorem C03_ssidat_ms_run_calls :
    callsExactly "SSIdat_MS" "run"
      ([("ssi.SSI_multi_setup", ["Y", "fs", "br", "ordmax", "step", "method_hank"]),
        ("ssi.SSI_poles", ["Obs", "AA", "CC", "ordmax", "dt", "step", "calc_unc"])]
       ++ ssiTail) = true := by
  decide

/-- **C05 / C10.** `pLSCF.run` and `pLSCF_MS.run` differ in the spectral estimator only. -/
theorem C05_plscf_run_calls :
    callsExactly "pLSCF" "run" (("fdd.SD_est", ["Yall", "Yref", "dt", "nxseg", "method", "pov"]) :: plscfTail) = true
    ∧ callsExactly "pLSCF_MS" "run" (("fdd.SD_PreGER", ["Y", "fs", "nxseg", "method", "pov"]) :: plscfTail) = true := by
  decide

/-- **C13 / C06.** `FDD.run` (= EFDD / FSDD `.run`). -/
theorem C13_fdd_run_calls :
    callsExactly "FDD" "run"
      [("fdd.SD_est", ["Yall", "Yref", "dt", "nxseg", "method", "pov"]),
       ("fdd.SD_svalsvec", ["SD"]),
       ("return self.ResultCls", ["freq", "Sy", "S_val", "S_vec"])] = true := by
  decide

/-- **C04.** `FDD_MS.run`, `EFDD_MS.run` (pLSCF_MS: `C05_plscf_run_calls`). -/
theorem C04_ms_run_calls :
    (["FDD_MS", "EFDD_MS"].all fun c => callsExactly c "run"
      [("fdd.SD_PreGER", ["Y", "fs", "nxseg", "method", "pov"]),
       ("fdd.SD_svalsvec", ["SD"]),
       ("return self.ResultCls", ["freq", "Sy", "S_val", "S_vec"])]) = true := by
  decide

/-- **C11.** `SSIdat.mpe`, `pLSCF.mpe`: one call each. -/
theorem C11_mpe_calls :
    callsExactly "SSIdat" "mpe"
      [("ssi.SSI_mpe", ["freq_ref", "Fn_pol", "Xi_pol", "Phi_pol", "order", "Lab", "rtol", "Fn_cov", "Xi_cov", "Phi_cov"])] = true
    ∧ callsExactly "pLSCF" "mpe"
      [("plscf.pLSCF_mpe", ["sel_freq", "Fn_pol", "Xi_pol", "Phi_pol", "order", "Lab", "rtol"])] = true := by
  decide

/-- **C06 (C07).** `FDD.mpe`, `EFDD.mpe`: one call each. -/
theorem C06_mpe_calls :
    callsExactly "FDD" "mpe" [("fdd.FDD_mpe", ["Sval", "Svec", "freq", "sel_freq", "DF"])] = true
    ∧ callsExactly "EFDD" "mpe"
      [("fdd.EFDD_mpe", ["Sy", "freq", "dt", "sel_freq", "methodSy", "method", "DF1", "DF2", "cm", "MAClim", "sppk", "npmax"])] = true := by
  decide

/-- **C16.** the four `mpe_from_plot` bodies make the same single call, with the same parameter set, as the
    corresponding `mpe`. -/
theorem C16_from_plot_calls :
    callsExactly "SSIdat" "mpe_from_plot"
      [("ssi.SSI_mpe", ["freq_ref", "Fn_pol", "Xi_pol", "Phi_pol", "order", "Lab", "rtol", "Fn_cov", "Xi_cov", "Phi_cov"])] = true
    ∧ callsExactly "pLSCF" "mpe_from_plot"
      [("plscf.pLSCF_mpe", ["sel_freq", "Fn_pol", "Xi_pol", "Phi_pol", "order", "Lab", "rtol"])] = true
    ∧ callsExactly "FDD" "mpe_from_plot" [("fdd.FDD_mpe", ["Sval", "Svec", "freq", "sel_freq", "DF"])] = true
    ∧ callsExactly "EFDD" "mpe_from_plot"
      [("fdd.EFDD_mpe", ["Sy", "freq", "dt", "sel_freq", "methodSy", "method", "DF1", "DF2", "cm", "MAClim", "sppk", "npmax"])] = true := by
  decide

end PV.WiringCalls
