import PyomaVerif.Lemmas.FreeVib
import PyomaVerif.Props.C01C11
import Mathlib.LinearAlgebra.Matrix.Charpoly.Coeff
import Mathlib.Tactic.FinCases
import Mathlib.Tactic.NormNum
/-!
# C01, end to end — from the free-vibration record to the extracted `(fn, xi, shape)`

`Props/C01.lean` proves the links (Hankel factorises ⇒ factor `= O·T` ⇒ realised matrix similar ⇒ equal
poles and shapes) one by one.  Here they are assembled into closed statements about the executable
models, for both Hankel methods and both realisation routines:

* `C01_e2e_cov` — record `y_t = C·Aᵗ·x0` ⟶ `hankMM` ⟶ recorded `svd`/`sqrt` ⟶ `obsOf` ⟶
  `fastA`/`legacyA`, `outC` ⟶ recorded `eig` ⟶ `log`/`abs` pole map ⟶ `shapesOf` ⟶ `polesTable` ⟶
  extraction: for every mode of the system (`Mode`: simple eigenvalue `lam = exp(mu·dt)` below
  Nyquist, eigenvector `w`) the order-`n` column of the pole table contains a pole with exactly
  `lam_c = mu`, `fn = |mu|/2π`, `xi = −Re mu/|mu|`, shape `normalise (C·w)`, and extraction at order `n`
  returns the value stored for it (`Recovered`).
* `C01_e2e_dat` — the same for the data-driven Hankel `hankDatOfR` of the recorded triangular factor of
  the model's stacked matrix `hankYs`.  **Closed, with the same rank condition as `cov_mm`**: the
  only extra contract is that of `np.linalg.qr(Ys.T, mode="r")` (`DatQr`: `R` upper triangular and
  `Ysᵀ = Q·R` for SOME `Q` with orthonormal columns — `Q` is never returned); no rank condition on
  the past-reference block is needed (`H = Yf·Q₁` uses orthonormality only, and `Γ_dat·R₁₁ = Γ_cov`).
* `Mode.conj`, `C01_pole_pair` — poles of a real system come in conjugate pairs; the two poles of a
  pair get the same `fn`, `xi` and conjugate shapes.
* at the end: exact rational instances (2 states, 2 channels, 2 block rows) satisfying ALL hypotheses
  of `C01_e2e_cov` (damped rotation) resp. `C01_e2e_dat` (undamped rotation, rank-deficient past
  block) jointly.

Hypotheses, exhaustively.  *Data*: `IsFreeResponse` (the record is the free response).  *Rank conditions
of the property*: `Γ` right invertible (`Γ = X·Ypᵀ`: every mode excited and present in the
references), `(A, C)` observable by the `p` upper block rows.  *Recorded-factor contracts*: `SvdOf`
("exactly `n` non-zero singular values" is derived from the rank conditions), `SqrtOf`, `QrC` (QR of the upper part, `inv` of the leading
block **if** it is invertible), `PinvC` (`pinv` is a left inverse **if** one exists), `EigOf`
(`n` eigenpairs, complete), for `dat` also `DatQr`.  The exactness of `np.log`/`np.abs` is in the
definitions `lamC`, `fnR`, `xiR` (the code's formulas over ℂ); the model's `fnOf`/`xiOf` are those
formulas on the recorded rationals (`fnOf_cast`, `xiOf_cast`).
-/
namespace PV.C01E2E
open PV PV.Mat PV.Cov PV.FreeVib PV.C11 Matrix Finset Polynomial

/-- contract of `scipy.linalg.eig(A_n)` as `ac2mp` uses it: `n` eigenpairs (`lams k`, column `k` of
    `V`), non-zero eigenvectors, and completeness (the eigenvalues with their multiplicities are the
    roots of the characteristic polynomial). -/
structure EigOf (n : ℕ) (Ahat : Mat ℚ) (V : Mat (Cpx ℚ)) (lams : ℕ → Cpx ℚ) : Prop where
  hVc : V.c = n
  eq : ∀ k, k < n → (toMx n n (cplx Ahat).e).mulVec (fun t : Fin n => V.e t.1 k)
        = lams k • (fun t : Fin n => V.e t.1 k)
  ne : ∀ k, k < n → (fun t : Fin n => V.e t.1 k) ≠ 0
  complete : (toMx n n (cplx Ahat).e).charpoly = ∏ k : Fin n, (X - C (lams k.1))

/-- a mode of the true system: `lam` a simple eigenvalue of the (real) state matrix with eigenvector
    `w`, image `exp(mu·dt)` of the continuous pole `mu`, below the Nyquist frequency. -/
structure Mode {n : ℕ} (A : Matrix (Fin n) (Fin n) ℚ) (dt : ℝ) (lam : Cpx ℚ) (w : Fin n → Cpx ℚ)
    (mu : ℂ) : Prop where
  eig : (A.map ofR).mulVec w = lam • w
  ne : w ≠ 0
  simple : ∀ u, (A.map ofR).mulVec u = lam • u → ∃ c : Cpx ℚ, u = c • w
  disc : toC lam = Complex.exp (mu * dt)
  nyq : |mu.im| * dt < Real.pi

/-- the true mode shape at the `l` measured channels: `C·w` -/
def trueShape {n : ℕ} (C : ℕ → Fin n → ℚ) (l : ℕ) (w : Fin n → Cpx ℚ) : List (Cpx ℚ) :=
  (List.range l).map fun a => ∑ t, ofR (C a t) * w t

/-- **what the run returns for one mode.**  `(Ahat, Chat)` the realised pair of order `n`,
    `(V, lams)` the record of `eig(Ahat)`:
    1. `Ahat` has the characteristic polynomial of `A` — the `n` poles of the order-`n` column are
       the eigenvalues of the system, with multiplicities;
    2. every returned pole is an eigenvalue of the system;
    3. the mode's `lam` is among them, and for every `k` with `lams k = lam`: the pole map
       gives `lam_c = mu` exactly, `fn`, `xi` are those of `mu`, column `k` of the model's
       `shapesOf` is the unity-normalised true shape, and for any record `absl`, `twoPi` of
       `np.abs(lam_c)`, `2π`: with the order-`n` column of the frequency table filled by the model
       (`fnOf`, `polesTable`), extraction (`SSI_mpe`, any `rtol ≥ 0`) of the table value of pole `k`
       at order `n` returns a cell of that column holding exactly that value. -/
def Recovered {n : ℕ} (A : Matrix (Fin n) (Fin n) ℚ) (C : ℕ → Fin n → ℚ) (l : ℕ) (dt : ℝ)
    (lam : Cpx ℚ) (w : Fin n → Cpx ℚ) (mu : ℂ) (Ahat Chat : Mat ℚ) (V : Mat (Cpx ℚ))
    (lams : ℕ → Cpx ℚ) : Prop :=
  (toMx n n Ahat.e).charpoly = A.charpoly ∧
  (∀ k, k < n → ∃ u, u ≠ 0 ∧ (A.map ofR).mulVec u = lams k • u) ∧
  (∃ k, k < n ∧ lams k = lam) ∧
  ∀ k, k < n → lams k = lam →
    lamC (toC (lams k)) dt = mu ∧
    fnR (lamC (toC (lams k)) dt) = fnR mu ∧ xiR (lamC (toC (lams k)) dt) = xiR mu ∧
    (shapesOf (cplx Chat) V).getD k [] = normalise (trueShape C l w) ∧
    ∀ (ordmax : ℕ) (absl : ℕ → ℚ) (twoPi rtol : ℚ) (perOrder : ℕ → List ℚ)
      (reqs : List (ℚ × Option ℕ)) (cells : List (ℕ × ℕ)),
      n ≤ ordmax → 0 ≤ rtol →
      perOrder n = (List.range n).map (fun j => fnOf (absl j) twoPi) →
      Extracted (tableMat ordmax perOrder) rtol reqs cells →
      (fnOf (absl k) twoPi, some n) ∈ reqs →
      ∃ r', (r', n) ∈ cells ∧ (tableMat ordmax perOrder).e r' n = some (fnOf (absl k) twoPi)

/-- **from similarity to the recovered mode** (the part of the chain after the realisation). -/
theorem recovered_of_similar {n : ℕ} (A : Matrix (Fin n) (Fin n) ℚ) (C : ℕ → Fin n → ℚ) (l : ℕ)
    (dt : ℝ) (hdt : 0 < dt) (lam : Cpx ℚ) (w : Fin n → Cpx ℚ) (mu : ℂ) (hm : Mode A dt lam w mu)
    (Ahat Chat : Mat ℚ) (hCr : Chat.r = l) (hCc : Chat.c = n)
    (T Tinv : Matrix (Fin n) (Fin n) ℚ) (hT : T * Tinv = 1)
    (hA : toMx n n Ahat.e = Tinv * A * T) (hC : toMx l n Chat.e = outMx l C * T)
    (V : Mat (Cpx ℚ)) (lams : ℕ → Cpx ℚ) (he : EigOf n Ahat V lams) :
    Recovered A C l dt lam w mu Ahat Chat V lams := by
  have hTc : T.map ofR * Tinv.map ofR = 1 := by
    rw [← Matrix.map_mul, hT]; exact Matrix.map_one ofR (map_zero _) (map_one _)
  have hAc := similar_map Ahat A T Tinv hA
  have hCc' : toMx l n (cplx Chat).e = outMx l (fun a t => ofR (C a t)) * T.map ofR := by
    rw [out_map Chat (outMx l C) T hC]; rfl
  have hchar : (toMx n n (cplx Ahat).e).charpoly = (A.map ofR).charpoly := by
    rw [hAc]; exact charpoly_similar _ _ _ hTc
  refine ⟨?_, ?_, ?_, ?_⟩
  · rw [hA]; exact charpoly_similar A T Tinv hT
  · intro k hk
    have h := eig_transfer (A.map ofR) (T.map ofR) (Tinv.map ofR) (toMx n n (cplx Ahat).e)
      (outMx l (fun a t => ofR (C a t))) (toMx l n (cplx Chat).e) hTc hAc hCc'
      (fun t : Fin n => V.e t.1 k) (lams k) (he.eq k hk)
    refine ⟨(T.map ofR).mulVec (fun t : Fin n => V.e t.1 k), ?_, h.1⟩
    intro h0
    have hT' : Tinv.map ofR * T.map ofR = 1 := mul_eq_one_comm.mp hTc
    have hvv : (fun t : Fin n => V.e t.1 k)
        = (Tinv.map ofR * T.map ofR).mulVec (fun t : Fin n => V.e t.1 k) := by
      rw [hT', Matrix.one_mulVec]
    rw [← Matrix.mulVec_mulVec, h0, Matrix.mulVec_zero] at hvv
    exact he.ne k hk hvv
  · apply root_of_prod
    rw [← he.complete, hchar]
    exact eig_isRoot _ lam w hm.ne hm.eig
  · intro k hk hlam
    have hpole : lamC (toC (lams k)) dt = mu := by
      rw [hlam, hm.disc]; exact lamC_exp mu dt hdt hm.nyq
    refine ⟨hpole, by rw [hpole], by rw [hpole], ?_, ?_⟩
    · have hk' : k < V.c := by rw [he.hVc]; exact hk
      have := shape_exact (A.map ofR) (T.map ofR) (Tinv.map ofR) (fun a t => ofR (C a t))
        (cplx Ahat) (cplx Chat) V hCr hCc hTc hAc hCc' k hk' lam w
        (by rw [← hlam]; exact he.eq k hk) (he.ne k hk) hm.simple
      exact this
    · intro ordmax absl twoPi rtol perOrder reqs cells hno hr hper hex hreq
      have hn1 : 1 ≤ n := by omega
      refine C01C11.C01_extract _ rtol hr reqs cells hex _ n hreq ⟨k, by show k < ordmax; omega, ?_⟩
      rw [tableMat_cell ordmax perOrder k n (by omega) hn1 hno, hper]
      simp [List.getElem?_range hk]

/-- **C01_e2e_cov — covariance-driven SSI with the moment-matrix Hankel, from the record to the
    extracted values, both realisation routines.**
    System `(A, C, x0)` with `n` states; `Y` (`l = Y.r` channels) its free response; `Yref` the
    reference rows handed to `build_hank` (any matrix here; in the code rows of `Y`); `p` = `br`,
    `s` = the scale `1/√N`.  Rank conditions: `Γ = X·Ypᵀ` (`gamMx`) right invertible, `(A, C)` observable
    by `p` block rows.  Contracts: recorded SVD of `hankMM Y Yref p s` on `N = ordmax` triples,
    `sq = √S`; `QrC` for the upper part of the order-`N` factor
    (fast routine), `PinvC` for the upper part of the order-`n` factor (legacy routine); `EigOf`
    for the two realised matrices.  Then the Hankel matrix has exactly `n` non-zero singular values
    (`n ≤ N`, `S t ≠ 0 ⇔ t < n` — derived, `svd_rank_count`) and every mode of the system is `Recovered`
    through both routines. -/
theorem C01_e2e_cov {n : ℕ} (A : Matrix (Fin n) (Fin n) ℚ) (C : ℕ → Fin n → ℚ) (x0 : Fin n → ℚ)
    (Y Yref : Mat ℚ) (p : ℕ) (s : ℚ) (hl : 0 < Y.r) (hY : IsFreeResponse A C x0 Y)
    (Γr : Matrix (Fin ((p + 1) * Yref.r)) (Fin n) ℚ)
    (hΓ : gamMx A x0 Yref p s Y.c ((p + 1) * Yref.r) * Γr = 1)
    (Olp : Matrix (Fin n) (Fin (p * Y.r)) ℚ) (hObs : Olp * obsMx (p * Y.r) Y.r A C = 1)
    (U V : Mat ℚ) (S sq : ℕ → ℚ) (N : ℕ)
    (hsvd : SvdOf (hankMM Y Yref p s) U V S N) (hsq : SqrtOf sq S N)
    (Q R Rinv : Mat ℚ) (hqr : QrC (upPart (obsOf U sq N) Y.r) Q R Rinv (p * Y.r) N n)
    (Pinv : Mat ℚ) (hpinv : PinvC (obsOf U sq n) Pinv (p * Y.r) n Y.r)
    (Vf Vl : Mat (Cpx ℚ)) (lamf laml : ℕ → Cpx ℚ)
    (heigf : EigOf n (fastA Rinv Q (dnPart (obsOf U sq N) Y.r) n) Vf lamf)
    (heigl : EigOf n (legacyA Pinv (obsOf U sq n) Y.r) Vl laml)
    (dt : ℝ) (hdt : 0 < dt) (lam : Cpx ℚ) (w : Fin n → Cpx ℚ) (mu : ℂ) (hm : Mode A dt lam w mu) :
    (n ≤ N ∧ (∀ t, t < n → S t ≠ 0) ∧ (∀ t, n ≤ t → t < N → S t = 0)) ∧
    Recovered A C Y.r dt lam w mu (fastA Rinv Q (dnPart (obsOf U sq N) Y.r) n)
        (outC (obsOf U sq N) Y.r n) Vf lamf ∧
    Recovered A C Y.r dt lam w mu (legacyA Pinv (obsOf U sq n) Y.r)
        (outC (obsOf U sq n) Y.r n) Vl laml := by
  obtain ⟨hn, hpos, hzero, T, Tinv, hT, _, hfast, hleg⟩ := realised_of_factor_rank A C Y.r p hl
    (hankMM Y Yref p s) U V S sq N
    (PV.C12.C12_shape_mm Y Yref p s).1 (gamMx A x0 Yref p s Y.c ((p + 1) * Yref.r)) Γr hΓ
    (hankMM_factor A C x0 Y Yref p s hY) Olp hObs hsvd hsq
  obtain ⟨hA1, hC1⟩ := hfast Q R Rinv hqr
  obtain ⟨hA2, hC2⟩ := hleg Pinv hpinv
  exact ⟨⟨hn, hpos, hzero⟩,
    recovered_of_similar A C Y.r dt hdt lam w mu hm _ (outC (obsOf U sq N) Y.r n) rfl rfl T Tinv hT
      hA1 hC1 Vf lamf heigf,
    recovered_of_similar A C Y.r dt hdt lam w mu hm _ (outC (obsOf U sq n) Y.r n) rfl rfl T Tinv hT
      hA2 hC2 Vl laml heigl⟩

/-- contract of `R = np.linalg.qr(Ys.T, mode="r")` in `build_hank(method="dat")`: `R` upper
    triangular and `Ysᵀ = Q·R` for some `Q` (`T × (a+b)`) with orthonormal columns — `Q` is not
    returned by the call, hence existential.  `a = (p+1)·r` past-reference rows, `b = (p+1)·l` future
    rows, `T = N − 1` columns. -/
structure DatQr (Ys Rf : Mat ℚ) (a b T : ℕ) : Prop where
  tri : ∀ i j, j < i → Rf.e i j = 0
  dec : ∃ q : ℕ → ℕ → ℚ,
    (∀ (i : Fin (a + b)) (c : Fin T), Ys.e i.1 c.1 = ∑ t : Fin (a + b), q c.1 t.1 * Rf.e t.1 i.1) ∧
    (∀ u t : Fin (a + b), ∑ c : Fin T, q c.1 u.1 * q c.1 t.1 = if u = t then 1 else 0)

/-- **C01_e2e_dat — data-driven SSI, from the record to the extracted values, both routines.**
    As `C01_e2e_cov`, with `H = hankDatOfR Rf r p` (`Rᵀ[a:, :a]` of the recorded triangular factor `Rf` of
    the model's stacked matrix `hankYs Y Yref p s`).  The LQ/QR step needs exactly the contract `DatQr`
    (shape of `Rf`, triangular, `Ysᵀ = Q·Rf` with orthonormal `Q`); the rank conditions are the SAME as
    for `cov_mm` (`Γ = X·Ypᵀ` right invertible, observability by `p` block rows) — in particular the
    past-reference block `Yp` may be rank deficient (it always is for noise-free data when
    `(p+1)·r > n`), `Rf` may have zeros on its diagonal. -/
theorem C01_e2e_dat {n : ℕ} (A : Matrix (Fin n) (Fin n) ℚ) (C : ℕ → Fin n → ℚ) (x0 : Fin n → ℚ)
    (Y Yref : Mat ℚ) (p : ℕ) (s : ℚ) (hl : 0 < Y.r) (hY : IsFreeResponse A C x0 Y)
    (Γr : Matrix (Fin ((p + 1) * Yref.r)) (Fin n) ℚ)
    (hΓ : gamMx A x0 Yref p s Y.c ((p + 1) * Yref.r) * Γr = 1)
    (Olp : Matrix (Fin n) (Fin (p * Y.r)) ℚ) (hObs : Olp * obsMx (p * Y.r) Y.r A C = 1)
    (Rf : Mat ℚ) (hRc : Rf.c = (Yref.r + Y.r) * (p + 1))
    (hdq : DatQr (hankYs Y Yref p s) Rf ((p + 1) * Yref.r) ((p + 1) * Y.r) (Y.c - p - (p + 1) - 1))
    (U V : Mat ℚ) (S sq : ℕ → ℚ) (N : ℕ)
    (hsvd : SvdOf (hankDatOfR Rf Yref.r p) U V S N) (hsq : SqrtOf sq S N)
    (Q R Rinv : Mat ℚ) (hqr : QrC (upPart (obsOf U sq N) Y.r) Q R Rinv (p * Y.r) N n)
    (Pinv : Mat ℚ) (hpinv : PinvC (obsOf U sq n) Pinv (p * Y.r) n Y.r)
    (Vf Vl : Mat (Cpx ℚ)) (lamf laml : ℕ → Cpx ℚ)
    (heigf : EigOf n (fastA Rinv Q (dnPart (obsOf U sq N) Y.r) n) Vf lamf)
    (heigl : EigOf n (legacyA Pinv (obsOf U sq n) Y.r) Vl laml)
    (dt : ℝ) (hdt : 0 < dt) (lam : Cpx ℚ) (w : Fin n → Cpx ℚ) (mu : ℂ) (hm : Mode A dt lam w mu) :
    (n ≤ N ∧ (∀ t, t < n → S t ≠ 0) ∧ (∀ t, n ≤ t → t < N → S t = 0)) ∧
    Recovered A C Y.r dt lam w mu (fastA Rinv Q (dnPart (obsOf U sq N) Y.r) n)
        (outC (obsOf U sq N) Y.r n) Vf lamf ∧
    Recovered A C Y.r dt lam w mu (legacyA Pinv (obsOf U sq n) Y.r)
        (outC (obsOf U sq n) Y.r n) Vl laml := by
  obtain ⟨q, hdec, horth⟩ := hdq.dec
  obtain ⟨G, hG1, hG2⟩ := hankDat_factor A C x0 Y Yref p s hY q Rf.e hdec horth hdq.tri
  have e : hankDatOfR Rf Yref.r p
      = ⟨(p + 1) * Y.r, (p + 1) * Yref.r, fun i j => Rf.e j ((p + 1) * Yref.r + i)⟩ := by
    refine mat_ext ?_ (Nat.mul_comm _ _) (fun i j => ?_)
    · show Rf.c - Yref.r * (p + 1) = (p + 1) * Y.r
      rw [hRc, Nat.add_mul, Nat.add_sub_cancel_left, Nat.mul_comm]
    · show Rf.e j (Yref.r * (p + 1) + i) = Rf.e j ((p + 1) * Yref.r + i)
      rw [Nat.mul_comm]
  rw [e] at hsvd
  have hGr : G * (toMx ((p + 1) * Yref.r) ((p + 1) * Yref.r) Rf.e * Γr) = 1 := by
    rw [← Matrix.mul_assoc, hG2, hΓ]
  obtain ⟨hn, hpos, hzero, T, Tinv, hT, _, hfast, hleg⟩ := realised_of_factor_rank A C Y.r p hl
    ⟨(p + 1) * Y.r, (p + 1) * Yref.r, fun i j => Rf.e j ((p + 1) * Yref.r + i)⟩ U V S sq N rfl
    G _ hGr hG1 Olp hObs hsvd hsq
  obtain ⟨hA1, hC1⟩ := hfast Q R Rinv hqr
  obtain ⟨hA2, hC2⟩ := hleg Pinv hpinv
  exact ⟨⟨hn, hpos, hzero⟩,
    recovered_of_similar A C Y.r dt hdt lam w mu hm _ (outC (obsOf U sq N) Y.r n) rfl rfl T Tinv hT
      hA1 hC1 Vf lamf heigf,
    recovered_of_similar A C Y.r dt hdt lam w mu hm _ (outC (obsOf U sq n) Y.r n) rfl rfl T Tinv hT
      hA2 hC2 Vl laml heigl⟩

/-! ## conjugate pole pairs of a real system -/

/-- **modes of a real system come in conjugate pairs**: with `(lam, w, mu)` also
    `(conj lam, conj w, conj mu)` is a mode (simple, below Nyquist). -/
theorem Mode.conj {n : ℕ} {A : Matrix (Fin n) (Fin n) ℚ} {dt : ℝ} {lam : Cpx ℚ} {w : Fin n → Cpx ℚ}
    {mu : ℂ} (hm : Mode A dt lam w mu) :
    Mode A dt (Cpx.conj lam) (fun t => Cpx.conj (w t)) ((starRingEnd ℂ) mu) where
  eig := eig_conj A lam w hm.eig
  ne := by
    intro h
    apply hm.ne
    funext t
    have := congrArg Cpx.conj (congrFun h t)
    rw [conj_conj] at this
    rw [this]; rfl
  simple := simple_conj A lam w hm.simple
  disc := by
    rw [toC_conj, hm.disc, ← Complex.exp_conj, map_mul, Complex.conj_ofReal]
  nyq := by
    rw [Complex.conj_im, abs_neg]; exact hm.nyq

/-- an underdamped (non-real) pole differs from its conjugate: the pair consists of two poles -/
theorem conj_ne_self (lam : Cpx ℚ) (h : lam.im ≠ 0) : Cpx.conj lam ≠ lam := by
  intro he
  have := congrArg Cpx.im he
  simp only [Cpx.conj] at this
  apply h
  linarith

/-- the true shape belonging to the conjugate eigenvector is the conjugate shape -/
theorem trueShape_conj {n : ℕ} (C : ℕ → Fin n → ℚ) (l : ℕ) (w : Fin n → Cpx ℚ) :
    trueShape C l (fun t => Cpx.conj (w t)) = (trueShape C l w).map Cpx.conj := by
  unfold trueShape
  rw [List.map_map]
  apply List.map_congr_left
  intro a _
  show _ = conjR (∑ t, ofR (C a t) * w t)
  rw [map_sum]
  apply Finset.sum_congr rfl
  intro t _
  rw [map_mul, conjR_ofR]; rfl

/-- **C01_pole_pair — the pole-pair clause.**  If the run recovers a mode and its conjugate (both
    follow from `C01_e2e_cov` / `C01_e2e_dat` by `Mode.conj`), then any two table entries `k`, `k'`
    holding `lam` and `conj lam` have the same `fn`, the same `xi`, and conjugate shapes: the
    order-`n = 2m` column consists of `m` conjugate pairs (its poles are the `n` eigenvalues of the
    system, `Recovered` clause 1) with the system's `fn`, `xi` and shapes. -/
theorem C01_pole_pair {n : ℕ} (A : Matrix (Fin n) (Fin n) ℚ) (C : ℕ → Fin n → ℚ) (l : ℕ) (dt : ℝ)
    (lam : Cpx ℚ) (w : Fin n → Cpx ℚ) (mu : ℂ) (Ahat Chat : Mat ℚ) (V : Mat (Cpx ℚ))
    (lams : ℕ → Cpx ℚ)
    (h : Recovered A C l dt lam w mu Ahat Chat V lams)
    (h' : Recovered A C l dt (Cpx.conj lam) (fun t => Cpx.conj (w t)) ((starRingEnd ℂ) mu) Ahat Chat V lams) :
    (∃ k k', k < n ∧ k' < n ∧ lams k = lam ∧ lams k' = Cpx.conj lam) ∧
    ∀ k k', k < n → k' < n → lams k = lam → lams k' = Cpx.conj lam →
      fnR (lamC (toC (lams k')) dt) = fnR (lamC (toC (lams k)) dt) ∧
      xiR (lamC (toC (lams k')) dt) = xiR (lamC (toC (lams k)) dt) ∧
      fnR (lamC (toC (lams k)) dt) = fnR mu ∧ xiR (lamC (toC (lams k)) dt) = xiR mu ∧
      (shapesOf (cplx Chat) V).getD k [] = normalise (trueShape C l w) ∧
      (shapesOf (cplx Chat) V).getD k' [] = ((shapesOf (cplx Chat) V).getD k []).map Cpx.conj := by
  obtain ⟨_, _, ⟨k0, hk0, hl0⟩, hall⟩ := h
  obtain ⟨_, _, ⟨k1, hk1, hl1⟩, hall'⟩ := h'
  refine ⟨⟨k0, k1, hk0, hk1, hl0, hl1⟩, ?_⟩
  intro k k' hk hk' hlk hlk'
  obtain ⟨_, hf, hx, hs, _⟩ := hall k hk hlk
  obtain ⟨_, hf', hx', hs', _⟩ := hall' k' hk' hlk'
  obtain ⟨c1, c2⟩ := fn_xi_conj mu
  refine ⟨by rw [hf', hf, c1], by rw [hx', hx, c2], hf, hx, hs, ?_⟩
  rw [hs', hs, trueShape_conj, normalise_conj]

/-! ## Non-vacuity: all hypotheses of `C01_e2e_cov` hold jointly for an exact rational instance

Damped rotation `A = ¾·J` (`J` the rotation by 90°: one underdamped mode at a quarter of the sampling
frequency, discrete poles `±¾i`), two channels `C = ⅘·I`, `x0 = e₁`, record of 6 samples, both channels
as references, `br = p = 1` (two block rows), scale `s = 1`.  Then `O₂ = [C; C·A]` has orthonormal
columns and `Γ` orthogonal rows, so the Hankel matrix has the exact rational SVD below
(`S = (81/256, 729/4096)`, `√S = (9/16, 27/64)`). -/
namespace Ex

/-- a matrix from its rows -/
def ofRows (r c : ℕ) (rows : List (List ℚ)) : Mat ℚ := ⟨r, c, fun i j => (rows.getD i []).getD j 0⟩

def A : Matrix (Fin 2) (Fin 2) ℚ :=
  toMx 2 2 fun i j => if i = 0 ∧ j = 1 then -3/4 else if i = 1 ∧ j = 0 then 3/4 else 0
def C : ℕ → Fin 2 → ℚ := fun a k => if a = k.1 then 4/5 else 0
def x0 : Fin 2 → ℚ := fun k => if k.1 = 0 then 1 else 0
/-- the state sequence in closed (recursive) form: `x_{t+1} = (−¾·x_t[1], ¾·x_t[0])` -/
def xs : ℕ → ℕ → ℚ
  | 0, k => if k = 0 then 1 else 0
  | t + 1, k => if k = 0 then -3/4 * xs t 1 else 3/4 * xs t 0
/-- the record: 2 channels, 6 samples -/
def Y : Mat ℚ := ⟨2, 6, fun a t => 4/5 * xs t a⟩

theorem state_eq (t : ℕ) : stateAt A x0 t = fun k => xs t k.1 := by
  induction t with
  | zero =>
    funext k
    fin_cases k <;> simp [stateAt, xs, x0]
  | succ t ih =>
    unfold stateAt at ih ⊢
    rw [pow_succ', ← Matrix.mulVec_mulVec, ih]
    funext k
    fin_cases k <;> simp [A, toMx, Matrix.mulVec, dotProduct, Fin.sum_univ_two, xs]

theorem free : IsFreeResponse A C x0 Y := by
  intro a t ha _
  rw [state_eq]
  have ha' : a < 2 := ha
  obtain rfl | rfl : a = 0 ∨ a = 1 := by omega
  all_goals simp [Y, C, Fin.sum_univ_two]

/-- right inverse of `Γ` -/
def Γr : Matrix (Fin ((1 + 1) * Y.r)) (Fin 2) ℚ :=
  toMx 4 2 (ofRows 4 2 [[0, 256/135], [-4096/1215, 0], [-16384/3645, 0], [0, -1024/405]]).e
/-- left inverse of the one-block-row observability matrix `C` -/
def Olp : Matrix (Fin 2) (Fin (1 * Y.r)) ℚ := toMx 2 2 fun i j => if i = j then 5/4 else 0

theorem hΓ : gamMx A x0 Y 1 1 Y.c ((1 + 1) * Y.r) * Γr = 1 := by
  have : gamMx A x0 Y 1 1 Y.c ((1 + 1) * Y.r) = Matrix.of fun (k : Fin 2) (c : Fin 4) =>
      (1 * 1 : ℚ) * ∑ t ∈ range (6 - 1 - (1 + 1) - 1), xs (1 + 2 + t) k.1 * Y.e (c.1 % 2) (1 + 1 - c.1 / 2 + t) := by
    ext k c
    simp only [gamMx, gamFn, state_eq, Matrix.of_apply]
    rfl
  rw [this]
  decide +kernel

theorem hObs : (Olp * obsMx (1 * Y.r) Y.r A C : Matrix (Fin 2) (Fin 2) ℚ) = 1 := by
  have : obsMx (1 * Y.r) Y.r A C = Matrix.of fun (i : Fin 2) (k : Fin 2) => C i.1 k := by
    ext i k
    exact obsFn_first 2 A C i.1 i.2 k
  rw [this]
  decide +kernel

/-- recorded SVD of the Hankel matrix -/
def U : Mat ℚ := ofRows 4 2 [[0, 4/5], [4/5, 0], [-3/5, 0], [0, 3/5]]
def V : Mat ℚ := ofRows 4 2 [[3/5, 0], [0, -3/5], [0, -4/5], [-4/5, 0]]
def S : ℕ → ℚ := fun t => if t = 0 then 81/256 else if t = 1 then 729/4096 else 0
def sq : ℕ → ℚ := fun t => if t = 0 then 9/16 else if t = 1 then 27/64 else 0

theorem hsvd : SvdOf (hankMM Y Y 1 1) U V S 2 where
  dec := by
    have h : ∀ i, i < 4 → ∀ j, j < 4 →
        (hankMM Y Y 1 1).e i j = ∑ t ∈ range 2, U.e i t * S t * V.e j t := by decide +kernel
    exact fun i j hi hj => h i hi j hj
  orthU := by decide +kernel
  orthV := by decide +kernel
  nonneg := by decide +kernel
  ordered := by
    intro t ht
    obtain rfl : t = 0 := by omega
    decide +kernel

theorem hsq : SqrtOf sq S 2 := by
  unfold SqrtOf
  decide +kernel

/-- recorded QR of the upper part of the factor, inverse of `R`, pseudo-inverse of the upper part -/
def Q : Mat ℚ := ofRows 2 2 [[0, 1], [1, 0]]
def R : Mat ℚ := ⟨2, 2, fun i j => if i = j then (if i = 0 then 9/20 else 27/80) else 0⟩
def Rinv : Mat ℚ := ofRows 2 2 [[20/9, 0], [0, 80/27]]
def Pinv : Mat ℚ := ofRows 2 2 [[0, 20/9], [80/27, 0]]

theorem hqr : QrC (upPart (obsOf U sq 2) Y.r) Q R Rinv (1 * Y.r) 2 2 where
  hRc := rfl
  hQr := rfl
  dec := by decide +kernel
  orth := by decide +kernel
  tri := fun i j hij => by simp only [R]; rw [if_neg (by omega)]
  inv := fun _ => by decide +kernel

theorem hpinv : PinvC (obsOf U sq 2) Pinv (1 * Y.r) 2 Y.r where
  hPc := rfl
  inv := fun _ => by decide +kernel

/-- the realised matrices of the two routines are the same matrix `[[0, 9/16], [−1, 0]]` -/
example : toMx 2 2 (fastA Rinv Q (dnPart (obsOf U sq 2) Y.r) 2).e
      = toMx 2 2 (ofRows 2 2 [[0, 9/16], [-1, 0]]).e ∧
    toMx 2 2 (legacyA Pinv (obsOf U sq 2) Y.r).e = toMx 2 2 (ofRows 2 2 [[0, 9/16], [-1, 0]]).e := by
  decide +kernel

/-- recorded eigen-decomposition: poles `±¾i`, eigenvectors `(3, ±4i)` (arbitrary scaling) -/
def lams : ℕ → Cpx ℚ := fun k => if k = 0 then ⟨0, 3/4⟩ else ⟨0, -3/4⟩
def Vec : Mat (Cpx ℚ) := ⟨2, 2, fun t k => if t = 0 then ⟨3, 0⟩ else if k = 0 then ⟨0, 4⟩ else ⟨0, -4⟩⟩

theorem eig_of (Ahat : Mat ℚ)
    (h : toMx 2 2 Ahat.e = toMx 2 2 (ofRows 2 2 [[0, 9/16], [-1, 0]]).e) : EigOf 2 Ahat Vec lams where
  hVc := rfl
  eq := by
    rw [cplx_toMx, h]
    decide +kernel
  ne := by decide +kernel
  complete := by
    rw [cplx_toMx, h, Matrix.charpoly_fin_two, Fin.prod_univ_two]
    have h1 : ((toMx 2 2 (ofRows 2 2 [[0, 9/16], [-1, 0]]).e).map ofR).trace = lams 0 + lams 1 := by
      decide +kernel
    have h2 : ((toMx 2 2 (ofRows 2 2 [[0, 9/16], [-1, 0]]).e).map ofR).det = lams 0 * lams 1 := by
      rw [Matrix.det_fin_two]
      decide +kernel
    rw [h1, h2]
    simp only [map_add, map_mul, Fin.val_zero, Fin.val_one]
    ring

/-- the mode: discrete pole `¾i`, eigenvector `(1, −i)`; sampling interval `1/100`, continuous pole
    `mu = 100·log(¾i)` -/
def lam : Cpx ℚ := ⟨0, 3/4⟩
def w : Fin 2 → Cpx ℚ := fun k => if k.1 = 0 then ⟨1, 0⟩ else ⟨0, -1⟩
noncomputable def mu : ℂ := Complex.log (toC lam) * 100

theorem toC_lam : toC lam = ⟨0, 3/4⟩ := by
  apply Complex.ext <;> simp [toC, lam]

theorem mode : Mode A (1 / 100) lam w mu where
  eig := by decide +kernel
  ne := by decide +kernel
  simple := by
    intro u hu
    refine ⟨u 0, ?_⟩
    have h0 := congrFun hu 0
    simp only [Matrix.mulVec, dotProduct, Fin.sum_univ_two, Matrix.map_apply, Pi.smul_apply,
      smul_eq_mul] at h0
    rw [show A 0 0 = 0 from by decide +kernel, show A 0 1 = -3/4 from by decide +kernel] at h0
    have hre := congrArg Cpx.re h0
    have him := congrArg Cpx.im h0
    simp only [Cpx.add_re, Cpx.add_im, Cpx.mul_re, Cpx.mul_im, ofR_re, ofR_im, lam] at hre him
    funext k
    fin_cases k
    · apply Cpx.ext' <;> simp [w]
    · apply Cpx.ext'
      · simp [w]; linarith
      · simp [w]; linarith
  disc := by
    have hz : toC lam ≠ 0 := by
      rw [toC_lam]; intro h; have := congrArg Complex.im h; norm_num at this
    have : mu * ((1 / 100 : ℝ) : ℂ) = Complex.log (toC lam) := by
      unfold mu; push_cast; ring
    rw [this, Complex.exp_log hz]
  nyq := by
    have harg : (toC lam).arg = Real.pi / 2 := by
      rw [Complex.arg_eq_pi_div_two_iff, toC_lam]; norm_num
    have him : mu.im = Real.pi / 2 * 100 := by
      unfold mu
      rw [show (100 : ℂ) = ((100 : ℝ) : ℂ) by norm_num, Complex.im_mul_ofReal, Complex.log_im, harg]
    rw [him, abs_of_pos (by positivity)]
    nlinarith [Real.pi_pos]

/-- **all hypotheses of `C01_e2e_cov` hold together**: the mode of the instance is recovered through
    both routines. -/
theorem recovered :
    (2 ≤ 2 ∧ (∀ t, t < 2 → S t ≠ 0) ∧ (∀ t, 2 ≤ t → t < 2 → S t = 0)) ∧
    Recovered A C Y.r (1 / 100) lam w mu (fastA Rinv Q (dnPart (obsOf U sq 2) Y.r) 2)
        (outC (obsOf U sq 2) Y.r 2) Vec lams ∧
    Recovered A C Y.r (1 / 100) lam w mu (legacyA Pinv (obsOf U sq 2) Y.r)
        (outC (obsOf U sq 2) Y.r 2) Vec lams :=
  C01_e2e_cov A C x0 Y Y 1 1 (by decide) free Γr hΓ Olp hObs U V S sq 2 hsvd hsq Q R Rinv hqr Pinv hpinv Vec Vec lams lams
    (eig_of _ (by decide +kernel)) (eig_of _ (by decide +kernel)) (1 / 100) (by norm_num) lam w mu mode

/-- the values behind `recovered`: the shape the model returns for pole 0 is `(1, −i)` — the
    unity-normalised `C·w` — and for pole 1 its conjugate -/
example : (shapesOf (cplx (outC (obsOf U sq 2) Y.r 2)) Vec).getD 0 [] = [⟨1, 0⟩, ⟨0, -1⟩] ∧
    normalise (trueShape C 2 w) = [⟨1, 0⟩, ⟨0, -1⟩] ∧
    (shapesOf (cplx (outC (obsOf U sq 2) Y.r 2)) Vec).getD 1 [] = [⟨1, 0⟩, ⟨0, 1⟩] := by
  decide +kernel

/-- … and the conjugate mode is recovered too (`Mode.conj`), so `C01_pole_pair` applies -/
example :
    Recovered A C Y.r (1 / 100) (Cpx.conj lam) (fun t => Cpx.conj (w t)) ((starRingEnd ℂ) mu)
        (fastA Rinv Q (dnPart (obsOf U sq 2) Y.r) 2) (outC (obsOf U sq 2) Y.r 2) Vec lams :=
  (C01_e2e_cov A C x0 Y Y 1 1 (by decide) free Γr hΓ Olp hObs U V S sq 2 hsvd hsq Q R Rinv hqr Pinv hpinv Vec Vec lams lams
    (eig_of _ (by decide +kernel)) (eig_of _ (by decide +kernel)) (1 / 100) (by norm_num) _ _ _
    mode.conj).2.1

end Ex

/-! ## Non-vacuity of `C01_e2e_dat`: all hypotheses hold jointly

Undamped rotation `A = J` (poles `±i`), channels `C = diag(9/10, 6/5)`, `x0 = e₁`, 12 samples, both channels as
references, `p = 1`, `s = 1/3 = 1/√N` (`N = 9`, the value the code passes).  The stacked matrix `Ys` (8 × 8) has rank 2:
the past-reference block is rank deficient and the recorded triangular factor `Rf` has zero rows — exactly the
situation in which no rank condition on the past block can be assumed.  `Qd` is an orthonormal factor with
`Ysᵀ = Qd·Rf` (columns `±½` on the even / odd samples). -/
namespace ExDat
open Ex (ofRows)

def A : Matrix (Fin 2) (Fin 2) ℚ :=
  toMx 2 2 fun i j => if i = 0 ∧ j = 1 then -1 else if i = 1 ∧ j = 0 then 1 else 0
def C : ℕ → Fin 2 → ℚ := fun a k => if a = k.1 then (if a = 0 then 9/10 else 6/5) else 0
def x0 : Fin 2 → ℚ := fun k => if k.1 = 0 then 1 else 0
def xs : ℕ → ℕ → ℚ
  | 0, k => if k = 0 then 1 else 0
  | t + 1, k => if k = 0 then -xs t 1 else xs t 0
def Y : Mat ℚ := ⟨2, 12, fun a t => (if a = 0 then 9/10 else 6/5) * xs t a⟩

theorem state_eq (t : ℕ) : stateAt A x0 t = fun k => xs t k.1 := by
  induction t with
  | zero =>
    funext k
    fin_cases k <;> simp [stateAt, xs, x0]
  | succ t ih =>
    unfold stateAt at ih ⊢
    rw [pow_succ', ← Matrix.mulVec_mulVec, ih]
    funext k
    fin_cases k <;> simp [A, toMx, Matrix.mulVec, dotProduct, Fin.sum_univ_two, xs]

theorem free : IsFreeResponse A C x0 Y := by
  intro a t ha _
  rw [state_eq]
  have ha' : a < 2 := ha
  obtain rfl | rfl : a = 0 ∨ a = 1 := by omega
  all_goals simp [Y, C, Fin.sum_univ_two]

def Γr : Matrix (Fin ((1 + 1) * Y.r)) (Fin 2) ℚ :=
  toMx 4 2 (ofRows 4 2 [[0, 9/10], [-6/5, 0], [-9/10, 0], [0, -6/5]]).e
def Olp : Matrix (Fin 2) (Fin (1 * Y.r)) ℚ :=
  toMx 2 2 fun i j => if i = j then (if i = 0 then 10/9 else 5/6) else 0

theorem hΓ : gamMx A x0 Y 1 (1/3) Y.c ((1 + 1) * Y.r) * Γr = 1 := by
  have : gamMx A x0 Y 1 (1/3) Y.c ((1 + 1) * Y.r) = Matrix.of fun (k : Fin 2) (c : Fin 4) =>
      (1/3 * (1/3) : ℚ) * ∑ t ∈ range (12 - 1 - (1 + 1) - 1),
        xs (1 + 2 + t) k.1 * Y.e (c.1 % 2) (1 + 1 - c.1 / 2 + t) := by
    ext k c
    simp only [gamMx, gamFn, state_eq, Matrix.of_apply]
    rfl
  rw [this]
  decide +kernel

theorem hObs : (Olp * obsMx (1 * Y.r) Y.r A C : Matrix (Fin 2) (Fin 2) ℚ) = 1 := by
  have : obsMx (1 * Y.r) Y.r A C = Matrix.of fun (i : Fin 2) (k : Fin 2) => C i.1 k := by
    ext i k
    exact obsFn_first 2 A C i.1 i.2 k
  rw [this]
  decide +kernel

/-- the recorded triangular factor of `Ysᵀ` (rows 2..7 vanish: rank 2) -/
def Rf : Mat ℚ := ⟨8, 8, fun i j =>
  if i = 0 then [3/5, 0, 0, -4/5, 0, 4/5, -3/5, 0].getD j 0
  else if i = 1 then [0, 4/5, 3/5, 0, -3/5, 0, 0, -4/5].getD j 0 else 0⟩
/-- an orthonormal factor (not returned by `qr(mode="r")`), by columns -/
def Qd : ℕ → ℕ → ℚ := fun c t =>
  ([[-1/2, 0, 1/2, 0, -1/2, 0, 1/2, 0], [0, -1/2, 0, 1/2, 0, -1/2, 0, 1/2],
    [1/2, 0, 1/2, 0, 1/2, 0, 1/2, 0], [1/2, 0, 1/2, 0, -1/2, 0, -1/2, 0],
    [1/2, 0, -1/2, 0, -1/2, 0, 1/2, 0], [0, 1/2, 0, 1/2, 0, 1/2, 0, 1/2],
    [0, 1/2, 0, 1/2, 0, -1/2, 0, -1/2], [0, 1/2, 0, -1/2, 0, -1/2, 0, 1/2]].getD t []).getD c 0

theorem hdq : DatQr (hankYs Y Y 1 (1/3)) Rf ((1 + 1) * Y.r) ((1 + 1) * Y.r) (Y.c - 1 - (1 + 1) - 1) where
  tri := by
    intro i j hij
    simp only [Rf]
    by_cases h0 : i = 0
    · omega
    · rw [if_neg h0]
      by_cases h1 : i = 1
      · obtain rfl : j = 0 := by omega
        rw [if_pos h1]; rfl
      · rw [if_neg h1]
  dec := ⟨Qd, by decide +kernel, by decide +kernel⟩

/-- the data-driven Hankel matrix of the instance and its recorded SVD (`S = (1, 1)`) -/
def U : Mat ℚ := ofRows 4 2 [[3/5, 0], [0, 4/5], [0, -3/5], [4/5, 0]]
def V : Mat ℚ := ofRows 4 2 [[0, 1], [-1, 0], [0, 0], [0, 0]]
def S : ℕ → ℚ := fun t => if t < 2 then 1 else 0
def sq : ℕ → ℚ := fun t => if t < 2 then 1 else 0

example : toMx 4 4 (hankDatOfR Rf Y.r 1).e
    = toMx 4 4 (ofRows 4 4 [[0, -3/5, 0, 0], [4/5, 0, 0, 0], [-3/5, 0, 0, 0], [0, -4/5, 0, 0]]).e := by
  decide +kernel

theorem hsvd : SvdOf (hankDatOfR Rf Y.r 1) U V S 2 where
  dec := by
    have h : ∀ i, i < 4 → ∀ j, j < 4 →
        (hankDatOfR Rf Y.r 1).e i j = ∑ t ∈ range 2, U.e i t * S t * V.e j t := by decide +kernel
    exact fun i j hi hj => h i hi j hj
  orthU := by decide +kernel
  orthV := by decide +kernel
  nonneg := by decide +kernel
  ordered := by
    intro t ht
    obtain rfl : t = 0 := by omega
    decide +kernel

theorem hsq : SqrtOf sq S 2 := by
  unfold SqrtOf
  decide +kernel

def Q : Mat ℚ := ofRows 2 2 [[1, 0], [0, 1]]
def R : Mat ℚ := ⟨2, 2, fun i j => if i = j then (if i = 0 then 3/5 else 4/5) else 0⟩
def Rinv : Mat ℚ := ofRows 2 2 [[5/3, 0], [0, 5/4]]

theorem hqr : QrC (upPart (obsOf U sq 2) Y.r) Q R Rinv (1 * Y.r) 2 2 where
  hRc := rfl
  hQr := rfl
  dec := by decide +kernel
  orth := by decide +kernel
  tri := fun i j hij => by simp only [R]; rw [if_neg (by omega)]
  inv := fun _ => by decide +kernel

theorem hpinv : PinvC (obsOf U sq 2) Rinv (1 * Y.r) 2 Y.r where
  hPc := rfl
  inv := fun _ => by decide +kernel

def lams : ℕ → Cpx ℚ := fun k => if k = 0 then ⟨0, 1⟩ else ⟨0, -1⟩
def Vec : Mat (Cpx ℚ) := ⟨2, 2, fun t k => if t = 0 then ⟨1, 0⟩ else if k = 0 then ⟨0, -1⟩ else ⟨0, 1⟩⟩

theorem eig_of (Ahat : Mat ℚ)
    (h : toMx 2 2 Ahat.e = toMx 2 2 (ofRows 2 2 [[0, -1], [1, 0]]).e) : EigOf 2 Ahat Vec lams where
  hVc := rfl
  eq := by
    rw [cplx_toMx, h]
    decide +kernel
  ne := by decide +kernel
  complete := by
    rw [cplx_toMx, h, Matrix.charpoly_fin_two, Fin.prod_univ_two]
    have h1 : ((toMx 2 2 (ofRows 2 2 [[0, -1], [1, 0]]).e).map ofR).trace = lams 0 + lams 1 := by
      decide +kernel
    have h2 : ((toMx 2 2 (ofRows 2 2 [[0, -1], [1, 0]]).e).map ofR).det = lams 0 * lams 1 := by
      rw [Matrix.det_fin_two]
      decide +kernel
    rw [h1, h2]
    simp only [map_add, map_mul, Fin.val_zero, Fin.val_one]
    ring

def lam : Cpx ℚ := ⟨0, 1⟩
def w : Fin 2 → Cpx ℚ := fun k => if k.1 = 0 then ⟨1, 0⟩ else ⟨0, -1⟩
noncomputable def mu : ℂ := Complex.log (toC lam) * 100

theorem toC_lam : toC lam = ⟨0, 1⟩ := by
  apply Complex.ext <;> simp [toC, lam]

theorem mode : Mode A (1 / 100) lam w mu where
  eig := by decide +kernel
  ne := by decide +kernel
  simple := by
    intro u hu
    refine ⟨u 0, ?_⟩
    have h0 := congrFun hu 0
    simp only [Matrix.mulVec, dotProduct, Fin.sum_univ_two, Matrix.map_apply, Pi.smul_apply,
      smul_eq_mul] at h0
    rw [show A 0 0 = 0 from by decide +kernel, show A 0 1 = -1 from by decide +kernel] at h0
    have hre := congrArg Cpx.re h0
    have him := congrArg Cpx.im h0
    simp only [Cpx.add_re, Cpx.add_im, Cpx.mul_re, Cpx.mul_im, ofR_re, ofR_im, lam] at hre him
    funext k
    fin_cases k
    · apply Cpx.ext' <;> simp [w]
    · apply Cpx.ext'
      · simp [w]; linarith
      · simp [w]; linarith
  disc := by
    have hz : toC lam ≠ 0 := by
      rw [toC_lam]; intro h; have := congrArg Complex.im h; norm_num at this
    have : mu * ((1 / 100 : ℝ) : ℂ) = Complex.log (toC lam) := by
      unfold mu; push_cast; ring
    rw [this, Complex.exp_log hz]
  nyq := by
    have harg : (toC lam).arg = Real.pi / 2 := by
      rw [Complex.arg_eq_pi_div_two_iff, toC_lam]; norm_num
    have him : mu.im = Real.pi / 2 * 100 := by
      unfold mu
      rw [show (100 : ℂ) = ((100 : ℝ) : ℂ) by norm_num, Complex.im_mul_ofReal, Complex.log_im, harg]
    rw [him, abs_of_pos (by positivity)]
    nlinarith [Real.pi_pos]

/-- **all hypotheses of `C01_e2e_dat` hold together** -/
theorem recovered :
    (2 ≤ 2 ∧ (∀ t, t < 2 → S t ≠ 0) ∧ (∀ t, 2 ≤ t → t < 2 → S t = 0)) ∧
    Recovered A C Y.r (1 / 100) lam w mu (fastA Rinv Q (dnPart (obsOf U sq 2) Y.r) 2)
        (outC (obsOf U sq 2) Y.r 2) Vec lams ∧
    Recovered A C Y.r (1 / 100) lam w mu (legacyA Rinv (obsOf U sq 2) Y.r)
        (outC (obsOf U sq 2) Y.r 2) Vec lams :=
  C01_e2e_dat A C x0 Y Y 1 (1/3) (by decide) free Γr hΓ Olp hObs Rf rfl hdq U V S sq 2 hsvd hsq
    Q R Rinv hqr Rinv hpinv Vec Vec lams lams
    (eig_of _ (by decide +kernel)) (eig_of _ (by decide +kernel)) (1 / 100) (by norm_num) lam w mu mode

/-- the shape returned for pole 0 is the unity-normalised `C·w = (9/10, −(6/5)i)`, i.e. `(¾i, 1)` -/
example : (shapesOf (cplx (outC (obsOf U sq 2) Y.r 2)) Vec).getD 0 [] = [⟨0, 3/4⟩, ⟨1, 0⟩] ∧
    normalise (trueShape C 2 w) = [⟨0, 3/4⟩, ⟨1, 0⟩] := by
  decide +kernel

end ExDat

end PV.C01E2E
