import PyomaVerif.Props.WiringDefaults
/-! Default values as regenerated obligations — part C13 (see `Props/WiringDefaults.lean`; one module per property so that a
changed default is reported by the property it belongs to). -/
namespace PV.WiringDefaults
open PV.Defaults PV.DefaultsTbl PV.Wiring

/-- **C13 / C04 / C05 spectral defaults.** `nxseg = 1024, method_SD = "per", pov = 0.5` for every class that estimates
    spectra (FDD, EFDD, FSDD, FDD_MS, EFDD_MS, pLSCF, pLSCF_MS) and for `fdd.SD_PreGER`; the estimator `fdd.SD_est` itself
    defaults to the correlogram (`method="cor"`; every class passes the method explicitly, `C13_run_spectral`).
    `plscf.pLSCF(sgn_basf=-1.0)`: the sign the periodogram convention needs. -/
theorem C13_defaults :
    rpDefaults (fddClasses ++ efddClasses ++ plscfClasses) [("nxseg", .int 1024), ("method_SD", .str "per"), ("pov", .float 1 2)] = true
    ∧ funcDefaults "fdd.SD_PreGER" [("Y", .required), ("fs", .required), ("nxseg", .int 1024), ("pov", .float 1 2), ("method", .str "per")] = true
    ∧ funcDefaults "fdd.SD_est" [("Yall", .required), ("Yref", .required), ("dt", .required), ("nxseg", .int 1024),
        ("method", .str "cor"), ("pov", .float 1 2)] = true
    ∧ funcDefaults "plscf.pLSCF" [("Sy", .required), ("dt", .required), ("ordmax", .required), ("sgn_basf", .float (-1) 1)] = true
    ∧ extrasOf "FDDRunParams" = [] ∧ extrasOf "EFDDRunParams" = [] := by
  decide

end PV.WiringDefaults
