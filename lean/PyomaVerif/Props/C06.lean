import PyomaVerif.Model.Fdd
import PyomaVerif.Lemmas.Fdd
import Mathlib.Algebra.Star.Basic
import Mathlib.Tactic.LinearCombination
/-!
# C06 — FDD picks the dominant line in the band and its singular vector
(`fdd.SD_svalsvec`, `fdd.FDD_mpe`).  Property theorems only; all for every grid size,
channel count and every ordered field of scalars.
-/
set_option linter.unusedSectionVars false
namespace PV.C06
open PV PV.Fdd

variable {K : Type} [Field K] [LinearOrder K] [IsStrictOrderedRing K]

/-- **Band limits.** `idxlim[0]`, `idxlim[1]` are grid lines nearest to `sel ∓ DF`, the first
    such line when two are equally near. -/
theorem C06_band_limits (nf : Nat) (hnf : 0 < nf) (freq : Nat → K) (sel DF : K) :
    bandLo nf freq sel DF < nf ∧ bandHi nf freq sel DF < nf ∧
    (∀ i, i < nf → |freq (bandLo nf freq sel DF) - (sel - DF)| ≤ |freq i - (sel - DF)|) ∧
    (∀ i, i < bandLo nf freq sel DF →
        |freq (bandLo nf freq sel DF) - (sel - DF)| < |freq i - (sel - DF)|) ∧
    (∀ i, i < nf → |freq (bandHi nf freq sel DF) - (sel + DF)| ≤ |freq i - (sel + DF)|) ∧
    (∀ i, i < bandHi nf freq sel DF →
        |freq (bandHi nf freq sel DF) - (sel + DF)| < |freq i - (sel + DF)|) := by
  refine ⟨argminTo_lt hnf _, argminTo_lt hnf _, ?_, ?_, ?_, ?_⟩
  · intro i hi
    have := argminTo_le (fun i => absK (freq i - (sel - DF))) i hi
    simpa only [absK_eq_abs, bandLo, bandHi] using this
  · intro i hi
    have := argminTo_first (fun i => absK (freq i - (sel - DF))) i hi
    simpa only [absK_eq_abs, bandLo, bandHi] using this
  · intro i hi
    have := argminTo_le (fun i => absK (freq i - (sel + DF))) i hi
    simpa only [absK_eq_abs, bandLo, bandHi] using this
  · intro i hi
    have := argminTo_first (fun i => absK (freq i - (sel + DF))) i hi
    simpa only [absK_eq_abs, bandLo, bandHi] using this

/-- `argmin |ratio − max ratio|` is the first index attaining the maximum of the slice. -/
theorem pickIdx_spec (s1 s2 : Nat → K) (lo m : Nat) (hm : 0 < m) :
    pickIdx s1 s2 lo m < m ∧
    (∀ i, i < m → ratioAt s1 s2 lo i ≤ ratioAt s1 s2 lo (pickIdx s1 s2 lo m)) ∧
    (∀ i, i < pickIdx s1 s2 lo m → ratioAt s1 s2 lo i < ratioAt s1 s2 lo (pickIdx s1 s2 lo m)) ∧
    maxTo m (ratioAt s1 s2 lo) = ratioAt s1 s2 lo (pickIdx s1 s2 lo m) := by
  set r := ratioAt s1 s2 lo with hr
  set M := maxTo m r with hM
  have ham : argmaxTo m r < m := argmaxTo_lt hm r
  have hmax : ∀ i, i < m → r i ≤ M := fun i hi => argmaxTo_le r i hi
  set g : Nat → K := fun i => absK (r i - M) with hg
  have hidx : pickIdx s1 s2 lo m = argminTo m g := rfl
  have hlt : argminTo m g < m := argminTo_lt hm g
  have h0 : g (argminTo m g) ≤ 0 := by
    have := argminTo_le g (argmaxTo m r) ham
    have e : g (argmaxTo m r) = 0 := by
      simp only [hg, absK_eq_abs, hM, maxTo, sub_self, abs_zero]
    rw [e] at this; exact this
  have hval : r (argminTo m g) = M := by
    have : |r (argminTo m g) - M| ≤ 0 := by simpa only [hg, absK_eq_abs] using h0
    have := abs_eq_zero.mp (le_antisymm this (abs_nonneg _))
    exact sub_eq_zero.mp this
  rw [hidx]
  refine ⟨hlt, ?_, ?_, hval.symm⟩
  · intro i hi; rw [hval]; exact hmax i hi
  · intro i hi
    rw [hval]
    have h1 := argminTo_first g i hi
    have h2 : g (argminTo m g) = 0 := le_antisymm h0 (by simp only [hg, absK_eq_abs]; exact abs_nonneg _)
    rw [h2] at h1
    have hne : r i ≠ M := by
      intro he
      simp only [hg, absK_eq_abs, he, sub_self, abs_zero, lt_self_iff_false] at h1
    exact lt_of_le_of_ne (hmax i (lt_trans hi hlt)) hne

/-- **C06_pick.** Whenever `FDD_mpe` returns for a selected frequency, the returned line `k`
    lies in `[lo, hi)` with `lo`, `hi` the band-limit lines, the ratio of the first to the second
    stored value at `k` is at least that of every line of the band, and `k` is the first such
    line.  (The returned frequency is `freq[k]`, see `C06_mode`.) -/
theorem C06_pick (nch nref nf : Nat) (freq s1 s2 : Nat → K) (sel DF : K) (p : Pick K)
    (h : fddPick nch nref nf freq s1 s2 sel DF = .ok p) :
    p.lo = bandLo nf freq sel DF ∧ p.hi = bandHi nf freq sel DF ∧
    p.lo ≤ p.idx ∧ p.idx < p.hi ∧ p.hi < nf ∧
    (∀ k, p.lo ≤ k → k < p.hi → s1 k / s2 k ≤ s1 p.idx / s2 p.idx) ∧
    (∀ k, p.lo ≤ k → k < p.idx → s1 k / s2 k < s1 p.idx / s2 p.idx) ∧
    p.mx = s1 p.idx / s2 p.idx := by
  unfold fddPick at h
  split_ifs at h with h1 h2 h3
  injection h with h
  subst h
  have hm : 0 < bandHi nf freq sel DF - bandLo nf freq sel DF := Nat.pos_of_ne_zero h3
  obtain ⟨a, b, c, d⟩ := pickIdx_spec s1 s2 (bandLo nf freq sel DF) _ hm
  refine ⟨rfl, rfl, Nat.le_add_right _ _, by dsimp only; omega,
    argminTo_lt (Nat.pos_of_ne_zero h1) _, ?_, ?_, d⟩
  · intro k hk1 hk2
    have := b (k - bandLo nf freq sel DF) (by dsimp only at hk1 hk2; omega)
    simp only [ratioAt] at this
    rwa [Nat.add_sub_cancel' hk1] at this
  · intro k hk1 hk2
    have := c (k - bandLo nf freq sel DF) (by dsimp only at hk1 hk2; omega)
    simp only [ratioAt] at this
    rwa [Nat.add_sub_cancel' hk1] at this

/-- on a strictly increasing grid the returned frequency lies between the band-limit lines -/
theorem C06_pick_in_band (nch nref nf : Nat) (freq s1 s2 : Nat → K) (sel DF : K) (p : Pick K)
    (h : fddPick nch nref nf freq s1 s2 sel DF = .ok p)
    (hmono : ∀ i j, i < j → j < nf → freq i < freq j) :
    freq p.lo ≤ freq p.idx ∧ freq p.idx < freq p.hi := by
  obtain ⟨_, _, h3, h4, h5, _⟩ := C06_pick nch nref nf freq s1 s2 sel DF p h
  constructor
  · rcases Nat.eq_or_lt_of_le h3 with e | e
    · rw [e]
    · exact le_of_lt (hmono _ _ e (lt_trans h4 h5))
  · exact hmono _ _ h4 h5

theorem ratio_sq_le_iff {a b c d : K} (ha : 0 ≤ a) (hb : 0 < b) (hc : 0 ≤ c) (hd : 0 < d) :
    a ^ 2 / b ^ 2 ≤ c ^ 2 / d ^ 2 ↔ a / b ≤ c / d := by
  rw [← div_pow, ← div_pow]
  exact pow_le_pow_iff_left₀ (div_nonneg ha hb.le) (div_nonneg hc hd.le) two_ne_zero

theorem ratio_sq_lt_iff {a b c d : K} (ha : 0 ≤ a) (hb : 0 < b) (hc : 0 ≤ c) (hd : 0 < d) :
    a ^ 2 / b ^ 2 < c ^ 2 / d ^ 2 ↔ a / b < c / d := by
  rw [← div_pow, ← div_pow]
  exact pow_lt_pow_iff_left₀ (div_nonneg ha hb.le) (div_nonneg hc hd.le) two_ne_zero

/-- **Stored square roots.** `SD_svalsvec` stores `s = √σ`; squaring is monotone on the
    non-negative reals, so the picked line also maximises the ratio `σ₁/σ₂` of the singular
    values themselves over the band, and is the first line to do so. -/
theorem C06_pick_sqrt (nch nref nf : Nat) (freq s1 s2 sig1 sig2 : Nat → K) (sel DF : K)
    (p : Pick K) (h : fddPick nch nref nf freq s1 s2 sel DF = .ok p)
    (h1 : ∀ k, p.lo ≤ k → k < p.hi → 0 ≤ s1 k ∧ sig1 k = s1 k ^ 2)
    (h2 : ∀ k, p.lo ≤ k → k < p.hi → 0 < s2 k ∧ sig2 k = s2 k ^ 2) :
    (∀ k, p.lo ≤ k → k < p.hi → sig1 k / sig2 k ≤ sig1 p.idx / sig2 p.idx) ∧
    (∀ k, p.lo ≤ k → k < p.idx → sig1 k / sig2 k < sig1 p.idx / sig2 p.idx) := by
  obtain ⟨_, _, h3, h4, _, h6, h7, _⟩ := C06_pick nch nref nf freq s1 s2 sel DF p h
  have a1 := h1 p.idx h3 h4
  have a2 := h2 p.idx h3 h4
  constructor
  · intro k hk1 hk2
    have b1 := h1 k hk1 hk2
    have b2 := h2 k hk1 hk2
    rw [b1.2, b2.2, a1.2, a2.2]
    exact (ratio_sq_le_iff b1.1 b2.1 a1.1 a2.1).mpr (h6 k hk1 hk2)
  · intro k hk1 hk2
    have b1 := h1 k hk1 (lt_trans hk2 h4)
    have b2 := h2 k hk1 (lt_trans hk2 h4)
    rw [b1.2, b2.2, a1.2, a2.2]
    exact (ratio_sq_lt_iff b1.1 b2.1 a1.1 a2.1).mpr (h7 k hk1 hk2)

/-- **Exception branch.** The line selection raises exactly when the grid is empty, there is
    no second singular value, or the band `[lo, hi)` is empty (`np.max` of an empty slice). -/
theorem C06_empty_band (nch nref nf : Nat) (freq s1 s2 : Nat → K) (sel DF : K) :
    (∃ e, fddPick nch nref nf freq s1 s2 sel DF = .error e) ↔
      (nf = 0 ∨ nch < 2 ∨ nref < 2 ∨ bandHi nf freq sel DF ≤ bandLo nf freq sel DF) := by
  unfold fddPick
  split_ifs with h1 h2 h3
  · simp [h1]
  · constructor
    · intro _; rcases h2 with h | h
      · exact Or.inr (Or.inl h)
      · exact Or.inr (Or.inr (Or.inl h))
    · intro _; exact ⟨_, rfl⟩
  · constructor
    · intro _; exact Or.inr (Or.inr (Or.inr (by omega)))
    · intro _; exact ⟨_, rfl⟩
  · constructor
    · rintro ⟨e, he⟩; cases he
    · rintro (h | h | h | h)
      · exact absurd h h1
      · exact absurd (Or.inl h) h2
      · exact absurd (Or.inr h) h2
      · omega

/-- one pass of the loop: frequency `freq[k]` of the picked line and the normalised row
    `Svec[0, :, k]` -/
theorem C06_mode (nch nref nf : Nat) (freq : Nat → K) (Sval : Nat → Nat → Nat → K)
    (Svec : Nat → Nat → Nat → Cx K) (DF sel : K) (m : ModeOut K)
    (h : fddOne nch nref nf freq Sval Svec DF sel = .ok m) :
    fddPick nch nref nf freq (Sval 0 0) (Sval 1 1) sel DF = .ok m.pick ∧
    m.fn = freq m.pick.idx ∧
    m.phi = (normalise nch (fun i => Svec 0 i m.pick.idx)).map (fun v => (List.range nch).map v) := by
  unfold fddOne at h
  split at h
  · cases h
  · rename_i p hp
    injection h with h
    subst h
    exact ⟨hp, rfl, rfl⟩

/-- **C06_shape.** The normalised shape is `c·φ` with `c ≠ 0`; the component of `φ` of largest
    magnitude (the first one, on ties) becomes exactly 1 and no component has magnitude above 1. -/
theorem C06_shape (n : Nat) (phi out : Nat → Cx K) (h : normalise n phi = some out) :
    ∃ c : Cx K, c ≠ 0 ∧ (∀ i, out i = c * phi i) ∧
      out (argmaxTo n (fun i => (phi i).normSq)) = 1 ∧
      (∀ i, i < n → (out i).normSq ≤ 1) ∧
      (∀ i, i < n → (phi i).normSq ≤ (phi (argmaxTo n (fun i => (phi i).normSq))).normSq) ∧
      (∀ i, i < argmaxTo n (fun i => (phi i).normSq) →
        (phi i).normSq < (phi (argmaxTo n (fun i => (phi i).normSq))).normSq) := by
  simp only [normalise] at h
  split_ifs at h with hz
  injection h with h
  subst h
  set k := argmaxTo n (fun i => (phi i).normSq) with hk
  have hk0 : phi k ≠ 0 := fun e => hz (Cx.normSq_eq_zero.mpr e)
  have hpos : 0 < (phi k).normSq := lt_of_le_of_ne (Cx.normSq_nonneg _) (Ne.symm hz)
  refine ⟨Cx.inv (phi k), Cx.inv_ne_zero hk0, fun i => Cx.div_eq_inv_mul _ _, Cx.div_self hk0, ?_,
    fun i hi => argmaxTo_le (fun i => (phi i).normSq) i hi,
    fun i hi => argmaxTo_first (fun i => (phi i).normSq) i hi⟩
  intro i hi
  rw [Cx.normSq_div _ hk0, div_le_one hpos]
  exact argmaxTo_le (fun i => (phi i).normSq) i hi

/-- the normalisation yields NaNs (`none`) exactly for the zero vector -/
theorem C06_shape_none (n : Nat) (hn : 0 < n) (phi : Nat → Cx K) :
    normalise n phi = none ↔ ∀ i, i < n → phi i = 0 := by
  simp only [normalise]
  split_ifs with hz
  · simp only [true_iff]
    intro i hi
    have := argmaxTo_le (fun i => (phi i).normSq) i hi
    simp only [hz] at this
    exact Cx.normSq_eq_zero.mp (le_antisymm this (Cx.normSq_nonneg _))
  · simp only [false_iff]
    intro hall
    exact hz (Cx.normSq_eq_zero.mpr (hall _ (argmaxTo_lt hn _)))

/-- **C06_convention.** If at line `k` the first left singular vector is a non-zero multiple
    `w` (a unit, `|w| = 1`, under the SVD contract) of `conj(a)` — which is what the
    `conj(X)·Y` cross-spectrum convention gives for a narrow-band response with complex
    channel amplitudes `a`, see `C06_rank_one` — then the stored row `S_vec[0, :, k]` is
    `conj(w)·a`: a multiple, of the same modulus, of the channels' complex amplitudes. -/
theorem C06_convention (U : Nat → Nat → Nat → Cx K) (k n : Nat) (a : Nat → Cx K) (w : Cx K)
    (hw : w ≠ 0) (hU : ∀ j, j < n → U k j 0 = w * Cx.conj (a j)) :
    ∃ c : Cx K, c ≠ 0 ∧ c.normSq = w.normSq ∧ ∀ j, j < n → svecPlace U 0 j k = c * a j := by
  refine ⟨Cx.conj w, ?_, Cx.normSq_conj w, ?_⟩
  · intro e
    apply hw
    have := congrArg Cx.conj e
    rw [Cx.conj_conj] at this
    rw [this]; ext <;> simp
  · intro j hj
    simp only [svecPlace, hU j hj, Cx.conj_mul, Cx.conj_conj]

/-- **Rank-one spectral matrix.** In any field with an involution: if
    `σ·conj(a_i)·a_j = s₁·u_i·conj(v_j)` for all `i, j` (the spectral matrix of a narrow-band
    response equals the leading term of its SVD) with `σ ≠ 0`, `a ≠ 0`, then `u = w·conj(a)`
    for a non-zero `w` — the hypothesis of `C06_convention`. -/
theorem C06_rank_one {S ι : Type} [Field S] [StarRing S] (σ s1 : S) (a u v : ι → S)
    (hσ : σ ≠ 0) (i0 : ι) (ha : a i0 ≠ 0)
    (h : ∀ i j, σ * star (a i) * a j = s1 * u i * star (v j)) :
    ∃ w : S, w ≠ 0 ∧ ∀ i, u i = w * star (a i) := by
  have hsa : star (a i0) ≠ 0 := by
    intro e; apply ha; have := congrArg star e; simpa using this
  have h00 := h i0 i0
  have hne : s1 * u i0 * star (v i0) ≠ 0 := by
    rw [← h00]; exact mul_ne_zero (mul_ne_zero hσ hsa) ha
  have hs1 : s1 ≠ 0 := fun e => hne (by rw [e]; ring)
  have hv : star (v i0) ≠ 0 := fun e => hne (by rw [e]; ring)
  refine ⟨σ * a i0 / (s1 * star (v i0)), div_ne_zero (mul_ne_zero hσ ha) (mul_ne_zero hs1 hv), ?_⟩
  intro i
  have := h i i0
  field_simp
  linear_combination -this

/-- **Faithful decomposition (partial).** The stored arrays are a re-arrangement of what the
    SVD routine returned: off-diagonal zeros, the diagonal carries the square roots (their
    squares are the singular values; non-negativity and ordering are inherited), and the
    conjugate transpose of the stored vector matrix is `U`.  Unitarity of `U`, ordering and
    non-negativity of `S` are the LAPACK contract (hypotheses here; validated numerically by
    the oracle), not proved. -/
theorem C06_faithful_partial (sq S : Nat → Nat → K) (U : Nat → Nat → Nat → Cx K) (k : Nat)
    (hsq : ∀ i, sq k i ^ 2 = S k i) (hnn : ∀ i, 0 ≤ sq k i)
    (hmono : ∀ i j, i ≤ j → sq k j ≤ sq k i) :
    (∀ i j, i ≠ j → svalPlace sq i j k = 0) ∧
    (∀ i, 0 ≤ svalPlace sq i i k ∧ svalPlace sq i i k ^ 2 = S k i) ∧
    (∀ i j, i ≤ j → svalPlace sq j j k ≤ svalPlace sq i i k) ∧
    (∀ i j, Cx.conj (svecPlace U i j k) = U k j i) := by
  refine ⟨?_, ?_, ?_, ?_⟩
  · intro i j hij; simp [svalPlace, hij]
  · intro i; simp [svalPlace, hnn, hsq]
  · intro i j hij; simpa [svalPlace] using hmono i j hij
  · intro i j; simp [svecPlace, Cx.conj_conj]

/-! ### Non-vacuity -/
def exFreq : Nat → Rat := fun i => (i : Rat) / 2
def exS1 : Nat → Rat := fun i => if i = 2 then 9 else if i = 3 then 9 else (i : Rat) + 1
def exS2 : Nat → Rat := fun _ => 3

/-- grid `0, ½, 1, …`, `sel = 1`, `DF = 1`: band lines `[0, 4)`, ratio maximal (3) first at line 2 -/
example : (match fddPick 2 2 6 exFreq exS1 exS2 1 1 with
    | .ok p => (p.lo, p.hi, p.idx, p.mx) | .error _ => (9, 9, 9, 0)) = (0, 4, 2, 3) := by decide +kernel
example : ∃ p, fddPick 2 2 6 exFreq exS1 exS2 1 1 = .ok p := by
  cases h : fddPick 2 2 6 exFreq exS1 exS2 1 1 with
  | ok p => exact ⟨p, rfl⟩
  | error e =>
    exfalso
    have : (match fddPick 2 2 6 exFreq exS1 exS2 1 1 with | .ok _ => true | .error _ => false) = true := by
      decide +kernel
    rw [h] at this; cases this
/-- empty band -/
example : (match fddPick 2 2 6 exFreq exS1 exS2 1 (1/10) with | .ok _ => true | .error _ => false) = false := by
  decide +kernel
def exPhi : Nat → Cx Rat := fun i => if i = 0 then ⟨1, 1⟩ else if i = 1 then ⟨0, -2⟩ else ⟨1/2, 0⟩
example : (normalise 3 exPhi).map (fun o => ((o 1).re, (o 1).im, (o 0).re, (o 0).im))
    = some (1, 0, -1/2, 1/2) := by decide +kernel
example : ∃ out, normalise 3 exPhi = some out := by
  cases h : normalise 3 exPhi with
  | some o => exact ⟨o, rfl⟩
  | none =>
    exfalso
    have : (normalise 3 exPhi).isSome = true := by decide +kernel
    rw [h] at this; cases this
/-- `C06_convention`: `a = (1, i)`, `w = i` -/
example : ∀ j, j < 2 → (fun (_ : Nat) (j _ : Nat) => (⟨0, 1⟩ : Cx Rat) * Cx.conj (if j = 0 then ⟨1, 0⟩ else ⟨0, 1⟩)) 0 j 0
    = (⟨0, 1⟩ : Cx Rat) * Cx.conj ((fun j => if j = 0 then (⟨1, 0⟩ : Cx Rat) else ⟨0, 1⟩) j) := by
  intro j _; rfl
end PV.C06
