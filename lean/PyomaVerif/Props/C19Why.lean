import PyomaVerif.Model.Geo
import PyomaVerif.Lemmas.Geo
import PyomaVerif.Props.C19
/-!
# C19 clauses 10/11: WHICH check fires

`C19_reject_iff_geo1/2` say that a malformed table set raises `ValueError`; with several malformations at once the
code reports the FIRST failing check in a fixed order.  Here the order is a list and the theorems say: the exception of
`checkGeo1/2` is the reason of the first check of the list that fails (whatever else is wrong further down, including
the sensor names), and a missing required sheet is reported before anything else.  Executed by the streams
`check_on_geo{1,2}` (single faults) and `check_on_geo{1,2}[two faults]`, which compare the message of the real exception
with the message of the model's reason.
-/
namespace PV.C19
open PV PV.Geo

/-- the reason of the first failing check of an ordered list `(fails, reason)` -/
def firstWhy (l : List (Bool × Why)) : Option Why := (l.find? (·.1)).map (·.2)

theorem firstWhy_of_first (l : List (Bool × Why)) (i : Nat) (w : Why) (hi : l[i]? = some (true, w))
    (hb : ∀ j < i, ∀ c, l[j]? = some c → c.1 = false) : firstWhy l = some w := by
  induction l generalizing i with
  | nil => simp at hi
  | cons c t ih =>
    cases i with
    | zero =>
      simp only [List.getElem?_cons_zero, Option.some.injEq] at hi
      subst hi
      simp [firstWhy]
    | succ i =>
      have hc : c.1 = false := hb 0 (Nat.succ_pos i) c rfl
      have := ih i (by simpa using hi) (fun j hj c' hc' => hb (j + 1) (Nat.succ_lt_succ hj) c' (by simpa using hc'))
      simp only [firstWhy, List.find?_cons, hc] at this ⊢
      exact this

/-- the checks of `check_on_geo1` on sheet names, shapes and row labels, in the order of the code -/
def geo1Checks (d : List (String × Tbl)) (co di : Tbl) : List (Bool × Why) :=
  [(d.any (fun p => !geo1All.contains p.1), .unknownSheet), (co.ncols != 3, .coordCols),
   (co.shape != di.shape, .shapeMismatch), (colsBad d "BG nodes" 3, .bgNodesCols),
   (colsBad d "BG lines" 2, .bgLinesCols), (colsBad d "BG surfaces" 3, .bgSurfCols),
   (co.index != di.index, .indexMismatch)]

/-- the checks of `check_on_geo2` on sheet names and shapes, in the order of the code -/
def geo2Checks (d : List (String × Tbl)) (pt mp : Tbl) : List (Bool × Why) :=
  [(d.any (fun p => !geo2All.contains p.1), .unknownSheet), (pt.ncols != 3, .coordCols),
   (pt.shape != mp.shape, .shapeMismatch), (signBad d pt, .signShape), (colsBad d "BG nodes" 3, .bgNodesCols),
   (colsBad d "BG lines" 2, .bgLinesCols), (colsBad d "BG surfaces" 3, .bgSurfCols)]

theorem ite_chain7 (b1 b2 b3 b4 b5 b6 b7 : Bool) (w1 w2 w3 w4 w5 w6 w7 : Why) :
    (if b1 then some w1 else if b2 then some w2 else if b3 then some w3 else if b4 then some w4 else
      if b5 then some w5 else if b6 then some w6 else if b7 then some w7 else none) =
    firstWhy [(b1, w1), (b2, w2), (b3, w3), (b4, w4), (b5, w5), (b6, w6), (b7, w7)] := by
  cases b1 <;> cases b2 <;> cases b3 <;> cases b4 <;> cases b5 <;> cases b6 <;> cases b7 <;> rfl

theorem geo1Pre_eq_firstWhy (d : List (String × Tbl)) (co di : Tbl) : geo1Pre d co di = firstWhy (geo1Checks d co di) :=
  ite_chain7 _ _ _ _ _ _ _ _ _ _ _ _ _ _

theorem geo2Pre_eq_firstWhy (d : List (String × Tbl)) (pt mp : Tbl) : geo2Pre d pt mp = firstWhy (geo2Checks d pt mp) :=
  ite_chain7 _ _ _ _ _ _ _ _ _ _ _ _ _ _

/-- **Which check fires, geometry 1.**  The required sheets present: if check number `i` of the ordered list fails and
    every earlier one passes, the exception is `ValueError` with the reason of check `i` — whatever the later checks,
    the name table and the index sheets look like. -/
theorem C19_geo1_first_why (fd : FileDict) (r : Option (List (List Nat))) (nm : NamesArg) (co di : Tbl)
    (hn : fd.names = some nm) (hco : (dropInfo fd.tbls).lookup "sensors coordinates" = some co)
    (hdi : (dropInfo fd.tbls).lookup "sensors directions" = some di) (i : Nat) (w : Why)
    (hi : (geo1Checks (dropInfo fd.tbls) co di)[i]? = some (true, w))
    (hb : ∀ j < i, ∀ c, (geo1Checks (dropInfo fd.tbls) co di)[j]? = some c → c.1 = false) :
    checkGeo1 fd r = .error (.valueError w) := by
  have hp : geo1Pre (dropInfo fd.tbls) co di = some w := by
    rw [geo1Pre_eq_firstWhy]; exact firstWhy_of_first _ i w hi hb
  simp only [checkGeo1, hn, hco, hdi, hp]

/-- **Which check fires, geometry 2.** -/
theorem C19_geo2_first_why (fd : FileDict) (r : Option (List (List Nat))) (nm : NamesArg) (pt mp : Tbl)
    (hn : fd.names = some nm) (hpt : (dropInfo fd.tbls).lookup "points coordinates" = some pt)
    (hmp : (dropInfo fd.tbls).lookup "mapping" = some mp) (i : Nat) (w : Why)
    (hi : (geo2Checks (dropInfo fd.tbls) pt mp)[i]? = some (true, w))
    (hb : ∀ j < i, ∀ c, (geo2Checks (dropInfo fd.tbls) pt mp)[j]? = some c → c.1 = false) :
    checkGeo2 fd r = .error (.valueError w) := by
  have hp : geo2Pre (dropInfo fd.tbls) pt mp = some w := by
    rw [geo2Pre_eq_firstWhy]; exact firstWhy_of_first _ i w hi hb
  simp only [checkGeo2, checkGeo2With, hn, hpt, hmp, hp]

/-- **A missing required sheet comes first**: whatever else is wrong. -/
theorem C19_missing_first (fd : FileDict) (r : Option (List (List Nat))) :
    ((fd.names = none ∨ (dropInfo fd.tbls).lookup "sensors coordinates" = none ∨
        (dropInfo fd.tbls).lookup "sensors directions" = none) →
      checkGeo1 fd r = .error (.valueError .missingRequired)) ∧
    ((fd.names = none ∨ (dropInfo fd.tbls).lookup "points coordinates" = none ∨
        (dropInfo fd.tbls).lookup "mapping" = none) →
      checkGeo2 fd r = .error (.valueError .missingRequired)) := by
  constructor
  · intro h
    unfold checkGeo1
    simp only
    split
    · rename_i a b c h1 h2 h3
      rcases h with h | h | h <;> simp_all
    · rfl
  · intro h
    unfold checkGeo2 checkGeo2With
    simp only
    split
    · rename_i a b c h1 h2 h3
      rcases h with h | h | h <;> simp_all
    · rfl

/-! ## non-vacuity: two faults at once -/

/-- directions of another shape AND labelled differently AND an unknown sensor name: the shape is reported
    (check 2 fails, checks 0-1 pass) -/
def exTwoFaults : FileDict :=
  ⟨some (.table [[some "a", some "zz"]]),
   [("sensors coordinates", exCo), ("sensors directions", ⟨["c", "a"], ["x", "y", "z"], [[.num 1, .num 0, .num 0], [.num 0, .num 1, .num 0]]⟩)]⟩
example : (geo1Checks (dropInfo exTwoFaults.tbls) exCo ⟨["c", "a"], ["x", "y", "z"], [[.num 1, .num 0, .num 0], [.num 0, .num 1, .num 0]]⟩).map (·.1)
    = [false, false, true, false, false, false, true] := by decide +kernel
example : checkGeo1 exTwoFaults none = .error (.valueError .shapeMismatch) := by decide +kernel
/-- geometry 2: a sign table of another shape AND four BG-line columns: the sign is reported -/
example : checkGeo2 ⟨exFd2.names, [("points coordinates", exPts), ("mapping", exMap), ("constraints", exCs),
      ("sensors sign", ⟨["1"], ["x", "y", "z"], [[.num 1, .num 1, .num 1]]⟩),
      ("BG lines", ⟨["1"], ["a", "b", "c", "d"], [[.num 1, .num 1, .num 1, .num 1]]⟩)]⟩ none
    = .error (.valueError .signShape) := by decide +kernel
/-- a missing mapping AND an unknown sheet: the missing sheet is reported -/
example : checkGeo2 ⟨exFd2.names, [("points coordinates", exPts), ("foo", exPts)]⟩ none
    = .error (.valueError .missingRequired) := by decide +kernel

end PV.C19
