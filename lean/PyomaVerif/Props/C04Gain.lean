import PyomaVerif.Props.C04Inv
/-!
# C04 — the gain clause for the executable model with its checked inverse
(depth round 2, runner-up gap C04: `C04_gain_checked`)

`C04_gain` (Props/C04.lean) is stated for an abstract `inv` under `InvContract inv` and needs the
reference block of the scaled setup invertible at EVERY line index `f : Nat` (`hG ∀ f`).  Here the
clause is stated for what the driver op `sd_preger` runs — `sdPreGERchecked sd gaussInv …` on the
records with setup `k` multiplied by `c`:

* `C04_gain_line` — `C04_gain` line by line (the invertibility of setup `k`'s reference block is
  needed at that line only);
* `C04_checked_lines` — a value returned by `sdPreGERchecked` certifies that `invOpt` returned a
  matrix for every reference block of every setup at every line of the frequency vector;
* `C04_gain_checked` — no `InvContract`, no `method`, no invertibility hypothesis left: a returned
  value of the checked model on the scaled records has (1) the mean reference block in which only
  setup `k`'s term changed, by `φ c · ψ c`, and (2) roving blocks `T_ii · mean'` with the
  transmissibility of the UNSCALED records, at every line `f < len(freq)`.
-/
namespace PV.C04
open PV PV.Mat Finset

section line
variable {T D F K : Type} [One T] [Div T] [Field K]
variable {sd : Estimator T D F K} {inv : Mat K → Mat K} {fs : T} {nxseg : Nat} {pov : T}
  {method : SdMethod} {n : Nat} {Y : Nat → Setup D}

/-- the reference block of the scaled setup is `φ c · ψ c` times the unscaled one -/
theorem refBlock_scaled [Mul D] {φ ψ : D → K} (hh : SdHomog sd φ ψ) (hm : method ≠ .other)
    (c : D) (k f : Nat) :
    refBlock (Y 0).ref.r (gyy sd fs nxseg pov method (scaleSetup c k Y)) k f
      = Mat.scale (φ c * ψ c) (refBlock (Y 0).ref.r (gyy sd fs nxseg pov method Y) k f) := by
  obtain ⟨g0, g1, ge⟩ := gyy_scaled hh fs nxseg pov hm c k Y
  simp only [refBlock, TenG.head01, TenG.line, Mat.scale, g0, g1, ge]

/-- **Gains, one frequency line.**  `C04_gain` with the invertibility of setup `k`'s reference
    block required at the line `f` only. -/
theorem C04_gain_line [Mul D] (φ ψ : D → K) (hs : SdShape sd) (hh : SdHomog sd φ ψ)
    (hinv : InvContract inv) (hm : method ≠ .other)
    (href : ∀ ii, ii < n → (Y ii).ref.r = (Y 0).ref.r)
    (k : Nat) (c : D) (hc : φ c * ψ c ≠ 0) (f : Nat)
    (hG : ∃ W, IsLeftInv W (refBlock (Y 0).ref.r (gyy sd fs nxseg pov method Y) k f)) :
    (∀ i j, i < (Y 0).ref.r → j < (Y 0).ref.r →
      (sdPreGER sd inv fs nxseg pov method n (scaleSetup c k Y)).S.e i j f
        = (1 / (n : K)) * ∑ ii ∈ range n,
            (if ii = k then φ c * ψ c else 1) * (estRef sd fs nxseg pov method Y ii).S.e i j f)
    ∧ (∀ ii a j, ii < n → a < (Y ii).mov.r →
      (sdPreGER sd inv fs nxseg pov method n (scaleSetup c k Y)).S.e
          ((Y 0).ref.r + (∑ k' ∈ range ii, (Y k').mov.r) + a) j f
        = (Mat.mul
            (Mat.mul (movBlock (Y 0).ref.r (gyy sd fs nxseg pov method Y) ii f)
                     (inv (refBlock (Y 0).ref.r (gyy sd fs nxseg pov method Y) ii f)))
            ((meanRefRef n (Y 0).ref.r
              (gyy sd fs nxseg pov method (scaleSetup c k Y))).line f)).e a j) := by
  have href' : ∀ ii, ii < n → (scaleSetup c k Y ii).ref.r = (scaleSetup c k Y 0).ref.r := by
    intro ii hii; rw [scaleSetup_ref_r, scaleSetup_ref_r]; exact href ii hii
  have h0 : (scaleSetup c k Y 0).ref.r = (Y 0).ref.r := scaleSetup_ref_r c k Y 0
  refine ⟨?_, ?_⟩
  · intro i j hi hj
    rw [sdPreGER_ref inv hs hm i j f (by rw [h0]; exact hi),
      mean_e hs hm href' i j f (by rw [h0]; exact hj)]
    congr 1
    apply Finset.sum_congr rfl
    intro ii _
    by_cases hik : ii = k
    · subst hik; rw [if_pos rfl, estRef_scaled hh]
    · rw [if_neg hik, one_mul, estRef_congr sd fs nxseg pov method (scaleSetup_ne c Y hik)]
  · intro ii a j hii ha
    have := sdPreGER_roving (sd := sd) (fs := fs) (nxseg := nxseg) (pov := pov) (Y := scaleSetup c k Y)
      inv hs hm href' ii a j f hii (by rw [scaleSetup_mov_r]; exact ha)
    simp only [scaleSetup_mov_r, h0] at this
    rw [this]
    by_cases hik : ii = k
    · subst hik
      obtain ⟨g0, g1, ge⟩ := gyy_scaled hh fs nxseg pov hm c ii Y
      have e := href ii hii
      have hmb : movBlock (Y 0).ref.r (gyy sd fs nxseg pov method (scaleSetup c ii Y)) ii f
          = Mat.scale (φ c * ψ c) (movBlock (Y 0).ref.r (gyy sd fs nxseg pov method Y) ii f) := by
        simp only [movBlock, TenG.tail0head1, TenG.line, Mat.scale, g0, g1, ge]
      have hrb := refBlock_scaled (sd := sd) (fs := fs) (nxseg := nxseg) (pov := pov) (Y := Y) hh hm c ii f
      have hcG : (refBlock (Y 0).ref.r (gyy sd fs nxseg pov method Y) ii f).c = (Y 0).ref.r := by
        rw [← e]; exact refBlock_c hs hm ii f
      have hrG : (refBlock (Y 0).ref.r (gyy sd fs nxseg pov method Y) ii f).r = (Y 0).ref.r := by
        rw [← e]; exact refBlock_r hs hm ii f
      have hsq : (refBlock (Y 0).ref.r (gyy sd fs nxseg pov method Y) ii f).r
          = (refBlock (Y 0).ref.r (gyy sd fs nxseg pov method Y) ii f).c := by rw [hrG, hcG]
      have hAc : (movBlock (Y 0).ref.r (gyy sd fs nxseg pov method Y) ii f).c
          = (refBlock (Y 0).ref.r (gyy sd fs nxseg pov method Y) ii f).c := by
        rw [hcG, ← e]; exact movBlock_c hs hm ii f
      obtain ⟨W0, hW0⟩ := hG
      have hW : IsLeftInv (inv (refBlock (Y 0).ref.r (gyy sd fs nxseg pov method Y) ii f)) _ :=
        hinv _ hsq ⟨W0, hW0⟩
      have hW' : IsLeftInv (inv (Mat.scale (φ c * ψ c)
          (refBlock (Y 0).ref.r (gyy sd fs nxseg pov method Y) ii f))) _ :=
        hinv _ hsq ⟨_, isLeftInv_scale hc hW0⟩
      simp only [rovingLine, hmb, hrb]
      have c1 : (Mat.mul (Mat.scale (φ c * ψ c) (movBlock (Y 0).ref.r (gyy sd fs nxseg pov method Y) ii f))
          (inv (Mat.scale (φ c * ψ c) (refBlock (Y 0).ref.r (gyy sd fs nxseg pov method Y) ii f)))).c
            = (refBlock (Y 0).ref.r (gyy sd fs nxseg pov method Y) ii f).c := by
        simp only [Mat.mul]; rw [hW'.2.1]; simp only [Mat.scale]; exact hsq
      have c2 : (Mat.mul (movBlock (Y 0).ref.r (gyy sd fs nxseg pov method Y) ii f)
          (inv (refBlock (Y 0).ref.r (gyy sd fs nxseg pov method Y) ii f))).c
            = (refBlock (Y 0).ref.r (gyy sd fs nxseg pov method Y) ii f).c := by
        simp only [Mat.mul]; rw [hW.2.1]; exact hsq
      show sumTo _ _ = sumTo _ _
      rw [sumTo_eq, sumTo_eq, c1, c2]
      apply Finset.sum_congr rfl
      intro t ht
      rw [transmissibility_scale hinv hc hsq ⟨W0, hW0⟩ hAc a t (mem_range.mp ht)]
    · have hg : gyy sd fs nxseg pov method (scaleSetup c k Y) ii = gyy sd fs nxseg pov method Y ii :=
        gyy_congr sd fs nxseg pov method (scaleSetup_ne c Y hik)
      simp only [rovingLine, movBlock, refBlock, hg]

/-- a value returned by the checked model certifies every inversion it stands for: `invOpt`
    returned a matrix for the (square) reference block of every setup at every line of the
    frequency vector (`np.linalg.inv` raised no `LinAlgError`). -/
theorem C04_checked_lines (invOpt : Mat K → Option (Mat K)) (out : SdOut F K)
    (h : sdPreGERchecked sd invOpt fs nxseg pov method n Y = .ok out) :
    ∀ ff ii, ff < out.freq.length → ii < n →
      (refBlock (Y 0).ref.r (gyy sd fs nxseg pov method Y) ii ff).r
          = (refBlock (Y 0).ref.r (gyy sd fs nxseg pov method Y) ii ff).c
      ∧ (invOpt (refBlock (Y 0).ref.r (gyy sd fs nxseg pov method Y) ii ff)).isSome = true := by
  unfold sdPreGERchecked at h
  split at h
  · cases h
  · split at h
    · cases h
    · simp only [] at h
      split at h
      · cases h
      · split at h
        · cases h
        · split at h
          · cases h
          · split at h
            · cases h
            · rename_i hl
              have ho := (Except.ok.inj h).symm
              subst ho
              intro ff ii hff hii
              simp only [Bool.not_eq_true, Bool.not_eq_false', List.all_eq_true, List.mem_range,
                Bool.and_eq_true, beq_iff_eq] at hl
              exact hl ff hff ii hii

end line

section checked
variable {T D F K : Type} [One T] [Div T] [Field K] [DecidableEq K] [Inhabited K]
variable {sd : Estimator T D F K} {fs : T} {nxseg : Nat} {pov : T}
  {method : SdMethod} {n : Nat} {Y : Nat → Setup D}

/-- **Gains, for the executable model with its own inverse.**  Multiply every channel of setup
    `k` by `c` (estimator homogeneous: `sd(cA, dB) = φ c · ψ d · sd(A, B)`, `φ c · ψ c ≠ 0`).
    Whenever `sdPreGERchecked sd gaussInv …` — what the driver op `sd_preger` runs — returns a
    value `out` on the scaled records, then at every line `f` of its frequency vector
    (1) in the mean reference block only setup `k`'s term changed, by the factor `φ c · ψ c`;
    (2) every roving block is `T_ii · mean'` with the transmissibility
    `T_ii = G_mov,ref⁽ⁱⁱ⁾ · gaussInv(G_ref,ref⁽ⁱⁱ⁾)` of the UNSCALED records.
    No `InvContract`, `method` or invertibility hypothesis: all three follow from the returned
    value (`C04_checked_ok`, `C04_checked_lines`, `C04_gaussInv_sound/_contract`). -/
theorem C04_gain_checked [Mul D] (φ ψ : D → K) (hs : SdShape sd) (hh : SdHomog sd φ ψ)
    (href : ∀ ii, ii < n → (Y ii).ref.r = (Y 0).ref.r)
    (k : Nat) (hk : k < n) (c : D) (hc : φ c * ψ c ≠ 0)
    (out : SdOut F K)
    (h : sdPreGERchecked sd gaussInv fs nxseg pov method n (scaleSetup c k Y) = .ok out) :
    ∀ f, f < out.freq.length →
    (∀ i j, i < (Y 0).ref.r → j < (Y 0).ref.r →
      out.S.e i j f
        = (1 / (n : K)) * ∑ ii ∈ range n,
            (if ii = k then φ c * ψ c else 1) * (estRef sd fs nxseg pov method Y ii).S.e i j f)
    ∧ (∀ ii a j, ii < n → a < (Y ii).mov.r →
      out.S.e ((Y 0).ref.r + (∑ k' ∈ range ii, (Y k').mov.r) + a) j f
        = (Mat.mul
            (Mat.mul (movBlock (Y 0).ref.r (gyy sd fs nxseg pov method Y) ii f)
                     ((gaussInv (refBlock (Y 0).ref.r (gyy sd fs nxseg pov method Y) ii f)).getD
                        (refBlock (Y 0).ref.r (gyy sd fs nxseg pov method Y) ii f)))
            ((meanRefRef n (Y 0).ref.r
              (gyy sd fs nxseg pov method (scaleSetup c k Y))).line f)).e a j) := by
  intro f hf
  obtain ⟨hout, -, hm⟩ := C04_checked_ok gaussInv out h
  have hl := (C04_checked_lines gaussInv out h f k hf hk).2
  have h0 : (scaleSetup c k Y 0).ref.r = (Y 0).ref.r := scaleSetup_ref_r c k Y 0
  rw [h0, refBlock_scaled hh hm] at hl
  -- the scaled block was inverted, hence the unscaled block has a left inverse
  have hG : ∃ W, IsLeftInv W (refBlock (Y 0).ref.r (gyy sd fs nxseg pov method Y) k f) := by
    cases hg : gaussInv (Mat.scale (φ c * ψ c)
        (refBlock (Y 0).ref.r (gyy sd fs nxseg pov method Y) k f)) with
    | none => rw [hg] at hl; cases hl
    | some W => exact ⟨_, isLeftInv_unscale (C04_gaussInv_sound _ W hg)⟩
  rw [hout]
  exact C04_gain_line (inv := fun G => (gaussInv G).getD G) φ ψ hs hh C04_gaussInv_contract hm href
    k c hc f hG

end checked

/-! ## Non-vacuity: the toy estimator and the two setups of `Props/C04.lean`, setup 1 scaled by 3;
the checked model with `gaussInv` returns a value (kernel-evaluated over `ℚ`). -/
section examples

theorem exGainChecked_ok : ∃ out, sdPreGERchecked (exSd (K := ℚ)) gaussInv 100 8 (1/4) .per 2
    (scaleSetup 3 1 exY) = .ok out := by
  cases h : sdPreGERchecked (exSd (K := ℚ)) gaussInv 100 8 (1/4) .per 2 (scaleSetup 3 1 exY) with
  | ok out => exact ⟨out, rfl⟩
  | error e =>
    have : (sdPreGERchecked (exSd (K := ℚ)) gaussInv 100 8 (1/4) .per 2
        (scaleSetup 3 1 exY)).isOk = true := by
      decide +kernel
    rw [h] at this; cases this

/-- all hypotheses of `C04_gain_checked` hold jointly, and its conclusion is not empty: the
    returned value has two frequency lines -/
example : ∀ out, sdPreGERchecked (exSd (K := ℚ)) gaussInv 100 8 (1/4) .per 2 (scaleSetup 3 1 exY) = .ok out →
    out.freq.length = 2 ∧
    out.S.e 0 0 1 = (1 / ((2 : ℕ) : ℚ)) * ∑ ii ∈ range 2,
      (if ii = 1 then id (3 : ℚ) * id 3 else 1) * (estRef exSd 100 8 (1/4) .per exY ii).S.e 0 0 1 :=
  fun out h =>
  have hlen : out.freq.length = 2 := by
    rw [(C04_checked_ok gaussInv out h).1]; rfl
  ⟨hlen, ((C04_gain_checked (K := ℚ) (sd := exSd) (fs := 100) (nxseg := 8) (pov := 1/4)
    (method := .per) (n := 2) (Y := exY) id id exShape exHomog (fun _ _ => rfl) 1 (by decide) 3
    (by norm_num) out h) 1 (by rw [hlen]; decide)).1 0 0 (by decide) (by decide)⟩

end examples

end PV.C04
