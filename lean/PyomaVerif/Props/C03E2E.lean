import PyomaVerif.Lemmas.MsFreeVib
import PyomaVerif.Props.C01E2E
import PyomaVerif.Props.C03C11
/-!
# C03, end to end — from the per-setup free-vibration records to the extracted global modes

`Props/C03.lean` proves the links of PreGER multi-setup SSI (`C03_rows`, `C03_rebase`, `C03_interleave`,
`C03_assembled`, `C03_identify`) and `Props/C03C11.lean` the extraction; `Props/C01E2E.lean` closes the
single-setup chain.  Here the multi-setup chain is closed, for both Hankel methods:

records `y⁽ⁱ⁾_t = g_i·C_g[refs ++ mov_i]·Aᵗ·x0_i` ⟶ per setup `hankMM` / `hankDatOfR` ⟶ recorded `svd`, `sqrt` ⟶
`Obs_i = U[:, :N]·√S` ⟶ `O_ref = Obs_i[ref_id]`, `O_mov = Obs_i[mov_id]` (`refRows`, `movRows`) ⟶ recorded
`pinv(O_ref)` ⟶ `O_movs = O_mov·pinv(O_ref)·O1_ref` (`rebase`) ⟶ interleaving (`allRows`) ⟶ `Obs_all` ⟶ recorded
`qr`, `inv` ⟶ `fastA`, `outC` ⟶ recorded `eig` ⟶ pole map, `shapesOf`, pole table, extraction (`Recovered`, the
predicate of `C01E2E`, over ALL sensors in the order references, roving of setup 0, roving of setup 1, …).

* `C03_e2e_core` — from `SetupOK` per setup (any Hankel matrix that factorises), `C03_e2e_cov`, `C03_e2e_dat`.
* **What the gains and initial states do.**  Setup `i` has its own gain `g_i ≠ 0` and initial state `x0_i`; its
  recorded factor is `O(A, C_i)·M_i` with `M_i = g_i·T_i` (`T_i` the state basis its SVD happened to pick).
  `Obs_all = O_br(A, C_g[order])·M₁` where `M₁ = g_0·T_0` belongs to the FIRST setup alone (clause 2 of the
  conclusion ties `M₁` to setup 0's factor): the `g_i`, `T_i`, `x0_i` of the later setups cancel in the
  re-basing, `g_0` survives as an overall factor of `Obs_all` (`C[n] = C_g[order]·M₁`) and drops out of the poles
  (similarity) and of the unity-normalised shapes.  The initial states enter through the rank condition only
  (`Γ_i` right invertible: every mode excited in every setup and present in its references).
* **Rank-deficient `pinv`.**  `O_ref` has `N = ordmax` columns of which only `n` are non-zero on exact data:
  for `N > n` it has NO left inverse and the contract "`pinv` is a left inverse" (`C03_rebase`, DESIGN 4/C03) is
  not available; `PinvMS` (the first Penrose identity `M·M⁺·M = M`, unconditional) is what the proof uses
  (`rebase_deficient`).
* Hypotheses, exhaustively.  *Data*: `IsFreeResponse` per setup, rows = references then roving
  (`pre_multisetup`'s layout, `C03_split`), references = the first `nref` rows of the stacked record.
  *Rank conditions*: `Γ_i` right invertible for every setup; `(A, C_g[refs])` observable by `br` block rows;
  `(A, C_g[order])` observable by `br − 1` block rows (the global shift-invariance solve drops one block row);
  `g_i ≠ 0`.  *Recorded-factor contracts*: `SvdOf`, `SqrtOf`, `PinvMS` per setup, `QrC`, `EigOf` for the global
  step, for `dat` also `DatQr` per setup.
* at the end: exact rational two-setup instances (2 states, one reference + one roving sensor per setup,
  different gains and initial states, `br = 3`) satisfying ALL hypotheses of `C03_e2e_cov` (`Ex`) resp.
  `C03_e2e_dat` (`ExD`) jointly.
-/
namespace PV.C03E2E
open PV PV.Mat PV.Cov PV.FreeVib PV.MsFreeVib PV.Multi PV.C01E2E PV.C03C11 Matrix Finset

/-- number of sensors of the merged result -/
abbrev nDof (refIds : List ℕ) (movIds : List (List ℕ)) : ℕ := refIds.length + (movIds.map List.length).sum

/-- the model's `Obs_all` from the recorded per-setup factors -/
abbrev obsAllOf (br N : ℕ) (refIds : List ℕ) (movIds : List (List ℕ)) (U : ℕ → Mat ℚ) (sq : ℕ → ℕ → ℚ)
    (P : ℕ → Mat ℚ) : Mat ℚ :=
  msObsAll br N refIds.length (movIds.map List.length) (fun i => obsOf (U i) (sq i) N) P

/-- the conclusion shared by the three theorems -/
def Conclusion {n : ℕ} (A : Matrix (Fin n) (Fin n) ℚ) (Cg : ℕ → Fin n → ℚ) (br N : ℕ) (refIds : List ℕ)
    (movIds : List (List ℕ)) (U : ℕ → Mat ℚ) (S sq : ℕ → ℕ → ℚ) (P : ℕ → Mat ℚ) (Q Rinv : Mat ℚ)
    (Vf : Mat (Cpx ℚ)) (lamf : ℕ → Cpx ℚ) (dt : ℝ) (lam : Cpx ℚ) (w : Fin n → Cpx ℚ) (mu : ℂ) : Prop :=
  -- 1. every per-setup Hankel matrix has exactly `n` non-zero singular values
  (∀ i mi, movIds[i]? = some mi →
    n ≤ N ∧ (∀ t, t < n → S i t ≠ 0) ∧ (∀ t, n ≤ t → t < N → S i t = 0)) ∧
  (∃ M1 M1inv : Matrix (Fin n) (Fin n) ℚ, M1 * M1inv = 1 ∧
    -- 2. `M₁` is the gain-times-basis of the FIRST setup: its factor is `O(A, C_g[refs ++ mov₀])·M₁`
    (∀ m0, movIds[0]? = some m0 → ∀ r, r < (br + 1) * (refIds.length + m0.length) → ∀ j : Fin n,
      (U 0).e r j.1 * sq 0 j.1
        = ∑ k, obsFn (refIds.length + m0.length) A (msC Cg (refIds ++ m0)) r k * M1 k j) ∧
    -- 3. `Obs_all = [O_br(A, C_g[order])·M₁ | 0]`, `order` = references, then roving by setup
    (∀ r, r < br * nDof refIds movIds →
      (∀ j : Fin n, (obsAllOf br N refIds movIds U sq P).e r j.1
        = ∑ k, obsFn (nDof refIds movIds) A (msC Cg (orderOf refIds movIds)) r k * M1 k j) ∧
      (∀ t, n ≤ t → t < N → (obsAllOf br N refIds movIds U sq P).e r t = 0)) ∧
    -- 4. the realised pair of order `n` is `(M₁⁻¹·A·M₁, C_g[order]·M₁)`
    toMx n n (fastA Rinv Q (dnPart (obsAllOf br N refIds movIds U sq P) (nDof refIds movIds)) n).e
      = M1inv * A * M1 ∧
    toMx (nDof refIds movIds) n (outC (obsAllOf br N refIds movIds U sq P) (nDof refIds movIds) n).e
      = outMx (nDof refIds movIds) (msC Cg (orderOf refIds movIds)) * M1) ∧
  -- 5. the mode is recovered: global `fn`, `xi`, global shape over all sensors, extraction at order `n`
  Recovered A (msC Cg (orderOf refIds movIds)) (nDof refIds movIds) dt lam w mu
    (fastA Rinv Q (dnPart (obsAllOf br N refIds movIds U sq P) (nDof refIds movIds)) n)
    (outC (obsAllOf br N refIds movIds U sq P) (nDof refIds movIds) n) Vf lamf

/-- **C03_e2e_core.**  The chain for any per-setup Hankel matrices `H i` that satisfy `SetupOK` (factorise as
    `O(A, g_i·C_g[refs ++ mov_i])·Γ_i`, `Γ_i` right invertible, recorded SVD / square roots / `pinv`). -/
theorem C03_e2e_core {n : ℕ} (A : Matrix (Fin n) (Fin n) ℚ) (Cg : ℕ → Fin n → ℚ) (br N : ℕ) (hbr : 1 ≤ br)
    (refIds : List ℕ) (movIds : List (List ℕ)) (href : 0 < refIds.length) (hne : movIds ≠ [])
    (g : ℕ → ℚ) (H U V P : ℕ → Mat ℚ) (S sq : ℕ → ℕ → ℚ)
    (hset : ∀ i mi, movIds[i]? = some mi →
      SetupOK A Cg br N refIds mi (g i) (H i) (U i) (V i) (S i) (sq i) (P i))
    (Olr : Matrix (Fin n) (Fin (br * refIds.length)) ℚ)
    (hObsR : Olr * obsMx (br * refIds.length) refIds.length A (msC Cg refIds) = 1)
    (Olg : Matrix (Fin n) (Fin ((br - 1) * nDof refIds movIds)) ℚ)
    (hObsG : Olg * obsMx ((br - 1) * nDof refIds movIds) (nDof refIds movIds) A
      (msC Cg (orderOf refIds movIds)) = 1)
    (Q R Rinv : Mat ℚ)
    (hqr : QrC (upPart (obsAllOf br N refIds movIds U sq P) (nDof refIds movIds)) Q R Rinv
      ((br - 1) * nDof refIds movIds) N n)
    (Vf : Mat (Cpx ℚ)) (lamf : ℕ → Cpx ℚ)
    (heig : EigOf n (fastA Rinv Q (dnPart (obsAllOf br N refIds movIds U sq P) (nDof refIds movIds)) n)
      Vf lamf)
    (dt : ℝ) (hdt : 0 < dt) (lam : Cpx ℚ) (w : Fin n → Cpx ℚ) (mu : ℂ) (hm : Mode A dt lam w mu) :
    Conclusion A Cg br N refIds movIds U S sq P Q Rinv Vf lamf dt lam w mu := by
  obtain ⟨hrank, M1, M1inv, hM, hfac0, hrows⟩ :=
    ms_obs_all A Cg br N refIds movIds hne g H U V P S sq Olr hObsR hset
  obtain ⟨m0, h0⟩ : ∃ m0, movIds[0]? = some m0 := by
    cases hmov : movIds with
    | nil => exact absurd hmov hne
    | cons x xs => exact ⟨x, rfl⟩
  have hn : n ≤ N := (hrank 0 m0 h0).1
  obtain ⟨hA, hC⟩ := ms_realised A (msC Cg (orderOf refIds movIds)) br N (nDof refIds movIds) hbr
    (by show 0 < refIds.length + _; omega) (obsAllOf br N refIds movIds U sq P) hn M1 M1inv hM
    (fun r hr j => (hrows r hr).1 j) Olg hObsG Q R Rinv hqr
  refine ⟨hrank, ⟨M1, M1inv, hM, ?_, hrows, hA, hC⟩, ?_⟩
  · intro m0' hm0' r hr j
    exact hfac0 m0' hm0' r (by rw [(hset 0 m0' hm0').hHr]; exact hr) j
  · exact recovered_of_similar A _ (nDof refIds movIds) dt hdt lam w mu hm _ _ rfl rfl M1 M1inv hM hA hC
      Vf lamf heig

/-- the reference rows of the stacked record `vstack(ref, mov)`: what `SSI_multi_setup` passes as `Y_ref` -/
abbrev refPart (Y : Mat ℚ) (nref : ℕ) : Mat ℚ := rowSlice Y 0 nref

/-- data model, rank condition and recorded-factor contracts of ONE setup, covariance-driven (`cov_mm`):
    `Y` the stacked record (`nref` references, then the roving channels `mi`), free response of
    `(A, g·C_g[refs ++ mi], x0)`; `Γ = X·Ypᵀ` right invertible; recorded SVD of `hankMM Y Y_ref br s`
    (`s` the scale `1/√N` the code passes — any value), `√S`, `pinv(O_ref)`. -/
structure CovSetup {n : ℕ} (A : Matrix (Fin n) (Fin n) ℚ) (Cg : ℕ → Fin n → ℚ) (br N : ℕ)
    (refIds mi : List ℕ) (g : ℚ) (x0 : Fin n → ℚ) (Y : Mat ℚ) (s : ℚ) (U V : Mat ℚ) (S sq : ℕ → ℚ)
    (P : Mat ℚ) : Prop where
  hg : g ≠ 0
  rows : Y.r = refIds.length + mi.length
  free : IsFreeResponse A (fun a t => g * msC Cg (refIds ++ mi) a t) x0 Y
  gam : ∃ Γr : Matrix (Fin ((br + 1) * (refPart Y refIds.length).r)) (Fin n) ℚ,
    gamMx A x0 (refPart Y refIds.length) br s Y.c ((br + 1) * (refPart Y refIds.length).r) * Γr = 1
  svd : SvdOf (hankMM Y (refPart Y refIds.length) br s) U V S N
  sqrt : SqrtOf sq S N
  pinv : PinvMS (oRef br refIds.length mi.length (obsOf U sq N)) P (br * refIds.length) N

theorem CovSetup.ok {n : ℕ} {A : Matrix (Fin n) (Fin n) ℚ} {Cg : ℕ → Fin n → ℚ} {br N : ℕ}
    {refIds mi : List ℕ} {g : ℚ} {x0 : Fin n → ℚ} {Y : Mat ℚ} {s : ℚ} {U V : Mat ℚ} {S sq : ℕ → ℚ}
    {P : Mat ℚ} (h : CovSetup A Cg br N refIds mi g x0 Y s U V S sq P) :
    SetupOK A Cg br N refIds mi g (hankMM Y (refPart Y refIds.length) br s) U V S sq P where
  hg := h.hg
  hHr := by rw [(PV.C12.C12_shape_mm Y (refPart Y refIds.length) br s).1, h.rows]
  fac := by
    obtain ⟨Γr, hΓ⟩ := h.gam
    refine ⟨gamMx A x0 (refPart Y refIds.length) br s Y.c ((br + 1) * (refPart Y refIds.length).r), Γr, hΓ, ?_⟩
    have := hankMM_factor A (fun a t => g * msC Cg (refIds ++ mi) a t) x0 Y (refPart Y refIds.length) br s
      h.free
    rw [← congrArg (fun l => obsMx (hankMM Y (refPart Y refIds.length) br s).r l A
      (fun a t => g * msC Cg (refIds ++ mi) a t)) h.rows]
    exact this
  svd := h.svd
  sqrt := h.sqrt
  pinv := h.pinv

/-- **C03_e2e_cov — PreGER multi-setup covariance-driven SSI (moment-matrix Hankel), from the per-setup
    records to the extracted global modes.**  Global system `(A, C_g)` with `n` states; reference DOFs `refIds`
    (shared, first in every record), roving DOFs `movIds[i]` of setup `i`; setup `i` records the free response of
    `(A, g_i·C_g[refIds ++ movIds[i]], x0_i)` (`CovSetup`: data model, `Γ_i` right invertible, recorded
    `svd`/`sqrt`/`pinv`).  Rank conditions of the global step: references observable by `br` block rows,
    all sensors by `br − 1`.  Contracts of the global step: `QrC`, `EigOf`.  Then `Conclusion`: exactly `n`
    non-zero singular values per setup; `Obs_all = O_br(A, C_g[order])·M₁` with `M₁` the gain-times-basis of the
    first setup (no other gain, basis or initial state in it); realised pair similar to `(A, C_g[order]·M₁)`;
    every mode `Recovered` over all sensors (same predicate as `C01_e2e_cov`). -/
theorem C03_e2e_cov {n : ℕ} (A : Matrix (Fin n) (Fin n) ℚ) (Cg : ℕ → Fin n → ℚ) (br N : ℕ) (hbr : 1 ≤ br)
    (refIds : List ℕ) (movIds : List (List ℕ)) (href : 0 < refIds.length) (hne : movIds ≠ [])
    (g : ℕ → ℚ) (x0 : ℕ → Fin n → ℚ) (Y : ℕ → Mat ℚ) (s : ℕ → ℚ) (U V P : ℕ → Mat ℚ) (S sq : ℕ → ℕ → ℚ)
    (hset : ∀ i mi, movIds[i]? = some mi →
      CovSetup A Cg br N refIds mi (g i) (x0 i) (Y i) (s i) (U i) (V i) (S i) (sq i) (P i))
    (Olr : Matrix (Fin n) (Fin (br * refIds.length)) ℚ)
    (hObsR : Olr * obsMx (br * refIds.length) refIds.length A (msC Cg refIds) = 1)
    (Olg : Matrix (Fin n) (Fin ((br - 1) * nDof refIds movIds)) ℚ)
    (hObsG : Olg * obsMx ((br - 1) * nDof refIds movIds) (nDof refIds movIds) A
      (msC Cg (orderOf refIds movIds)) = 1)
    (Q R Rinv : Mat ℚ)
    (hqr : QrC (upPart (obsAllOf br N refIds movIds U sq P) (nDof refIds movIds)) Q R Rinv
      ((br - 1) * nDof refIds movIds) N n)
    (Vf : Mat (Cpx ℚ)) (lamf : ℕ → Cpx ℚ)
    (heig : EigOf n (fastA Rinv Q (dnPart (obsAllOf br N refIds movIds U sq P) (nDof refIds movIds)) n)
      Vf lamf)
    (dt : ℝ) (hdt : 0 < dt) (lam : Cpx ℚ) (w : Fin n → Cpx ℚ) (mu : ℂ) (hm : Mode A dt lam w mu) :
    Conclusion A Cg br N refIds movIds U S sq P Q Rinv Vf lamf dt lam w mu :=
  C03_e2e_core A Cg br N hbr refIds movIds href hne g
    (fun i => hankMM (Y i) (refPart (Y i) refIds.length) br (s i)) U V P S sq
    (fun i mi hmi => (hset i mi hmi).ok) Olr hObsR Olg hObsG Q R Rinv hqr Vf lamf heig dt hdt lam w mu hm

/-- one setup, data-driven (`dat`): as `CovSetup` with the recorded triangular factor `Rf` of the stacked
    matrix `hankYs` (`DatQr`, `Q` existential) and the recorded SVD of `hankDatOfR Rf nref br`.  The rank
    condition is the SAME `Γ` condition as for `cov_mm` (the past block may be rank deficient). -/
structure DatSetup {n : ℕ} (A : Matrix (Fin n) (Fin n) ℚ) (Cg : ℕ → Fin n → ℚ) (br N : ℕ)
    (refIds mi : List ℕ) (g : ℚ) (x0 : Fin n → ℚ) (Y : Mat ℚ) (s : ℚ) (Rf U V : Mat ℚ) (S sq : ℕ → ℚ)
    (P : Mat ℚ) : Prop where
  hg : g ≠ 0
  rows : Y.r = refIds.length + mi.length
  free : IsFreeResponse A (fun a t => g * msC Cg (refIds ++ mi) a t) x0 Y
  gam : ∃ Γr : Matrix (Fin ((br + 1) * (refPart Y refIds.length).r)) (Fin n) ℚ,
    gamMx A x0 (refPart Y refIds.length) br s Y.c ((br + 1) * (refPart Y refIds.length).r) * Γr = 1
  hRc : Rf.c = ((refPart Y refIds.length).r + Y.r) * (br + 1)
  qr : DatQr (hankYs Y (refPart Y refIds.length) br s) Rf ((br + 1) * (refPart Y refIds.length).r)
    ((br + 1) * Y.r) (Y.c - br - (br + 1) - 1)
  svd : SvdOf (hankDatOfR Rf (refPart Y refIds.length).r br) U V S N
  sqrt : SqrtOf sq S N
  pinv : PinvMS (oRef br refIds.length mi.length (obsOf U sq N)) P (br * refIds.length) N

theorem DatSetup.ok {n : ℕ} {A : Matrix (Fin n) (Fin n) ℚ} {Cg : ℕ → Fin n → ℚ} {br N : ℕ}
    {refIds mi : List ℕ} {g : ℚ} {x0 : Fin n → ℚ} {Y : Mat ℚ} {s : ℚ} {Rf U V : Mat ℚ} {S sq : ℕ → ℚ}
    {P : Mat ℚ} (h : DatSetup A Cg br N refIds mi g x0 Y s Rf U V S sq P) :
    SetupOK A Cg br N refIds mi g (hankDatOfR Rf (refPart Y refIds.length).r br) U V S sq P := by
  set Yref := refPart Y refIds.length with hYref
  obtain ⟨q, hdec, horth⟩ := h.qr.dec
  obtain ⟨G, hG1, hG2⟩ := hankDat_factor A (fun a t => g * msC Cg (refIds ++ mi) a t) x0 Y Yref br s h.free
    q Rf.e hdec horth h.qr.tri
  obtain ⟨Γr, hΓ⟩ := h.gam
  have e : hankDatOfR Rf Yref.r br
      = ⟨(br + 1) * Y.r, (br + 1) * Yref.r, fun i j => Rf.e j ((br + 1) * Yref.r + i)⟩ := by
    refine mat_ext ?_ (Nat.mul_comm _ _) (fun i j => ?_)
    · show Rf.c - Yref.r * (br + 1) = (br + 1) * Y.r
      rw [h.hRc, Nat.add_mul, Nat.add_sub_cancel_left, Nat.mul_comm]
    · show Rf.e j (Yref.r * (br + 1) + i) = Rf.e j ((br + 1) * Yref.r + i)
      rw [Nat.mul_comm]
  have hsvd := h.svd
  rw [e] at hsvd ⊢
  have hGr : G * (toMx ((br + 1) * Yref.r) ((br + 1) * Yref.r) Rf.e * Γr) = 1 := by
    rw [← Matrix.mul_assoc, hG2, hΓ]
  exact {
    hg := h.hg
    hHr := by show (br + 1) * Y.r = _; rw [h.rows]
    fac := ⟨G, _, hGr, by
      rw [← congrArg (fun l => obsMx ((br + 1) * Y.r) l A (fun a t => g * msC Cg (refIds ++ mi) a t)) h.rows]
      exact hG1⟩
    svd := hsvd
    sqrt := h.sqrt
    pinv := h.pinv }

/-- **C03_e2e_dat — PreGER multi-setup data-driven SSI, from the per-setup records to the extracted global
    modes.**  As `C03_e2e_cov` with `DatSetup` per setup: the only extra contract is `DatQr` of
    `np.linalg.qr(Ys.T, mode="r")`; rank conditions identical. -/
theorem C03_e2e_dat {n : ℕ} (A : Matrix (Fin n) (Fin n) ℚ) (Cg : ℕ → Fin n → ℚ) (br N : ℕ) (hbr : 1 ≤ br)
    (refIds : List ℕ) (movIds : List (List ℕ)) (href : 0 < refIds.length) (hne : movIds ≠ [])
    (g : ℕ → ℚ) (x0 : ℕ → Fin n → ℚ) (Y : ℕ → Mat ℚ) (s : ℕ → ℚ) (Rf U V P : ℕ → Mat ℚ) (S sq : ℕ → ℕ → ℚ)
    (hset : ∀ i mi, movIds[i]? = some mi →
      DatSetup A Cg br N refIds mi (g i) (x0 i) (Y i) (s i) (Rf i) (U i) (V i) (S i) (sq i) (P i))
    (Olr : Matrix (Fin n) (Fin (br * refIds.length)) ℚ)
    (hObsR : Olr * obsMx (br * refIds.length) refIds.length A (msC Cg refIds) = 1)
    (Olg : Matrix (Fin n) (Fin ((br - 1) * nDof refIds movIds)) ℚ)
    (hObsG : Olg * obsMx ((br - 1) * nDof refIds movIds) (nDof refIds movIds) A
      (msC Cg (orderOf refIds movIds)) = 1)
    (Q R Rinv : Mat ℚ)
    (hqr : QrC (upPart (obsAllOf br N refIds movIds U sq P) (nDof refIds movIds)) Q R Rinv
      ((br - 1) * nDof refIds movIds) N n)
    (Vf : Mat (Cpx ℚ)) (lamf : ℕ → Cpx ℚ)
    (heig : EigOf n (fastA Rinv Q (dnPart (obsAllOf br N refIds movIds U sq P) (nDof refIds movIds)) n)
      Vf lamf)
    (dt : ℝ) (hdt : 0 < dt) (lam : Cpx ℚ) (w : Fin n → Cpx ℚ) (mu : ℂ) (hm : Mode A dt lam w mu) :
    Conclusion A Cg br N refIds movIds U S sq P Q Rinv Vf lamf dt lam w mu :=
  C03_e2e_core A Cg br N hbr refIds movIds href hne g
    (fun i => hankDatOfR (Rf i) (refPart (Y i) refIds.length).r br) U V P S sq
    (fun i mi hmi => (hset i mi hmi).ok) Olr hObsR Olg hObsG Q R Rinv hqr Vf lamf heig dt hdt lam w mu hm

/-! ## Non-vacuity: all hypotheses of `C03_e2e_cov` hold jointly for an exact rational two-setup instance

Global system: undamped rotation `A = J` (poles `±i`, the system of `C01E2E.ExDat`), three DOFs with output
rows `C_g = [(5/2, 3/2); (4, 4); (−3/2, 5/2)]`.  DOF 1 carries the shared reference sensor; setup 0 roves DOF 0
with gain `g₀ = 1` from `x0 = e₁`, setup 1 roves DOF 2 with gain `g₁ = 2` from `x0 = e₂`: `order = [1, 0, 2]`.
Records of 12 samples, `br = 3` (Hankel matrices `8 × 4`), `ordmax = 2`, scale `s = 1`.  Every per-setup
observability matrix has orthogonal columns of norm 9 and `Γ_i` orthogonal rows, so the Hankel matrices have the
exact SVDs below (`S = (144, 144)` resp. `(576, 576)`, `√S = 12` resp. `24`); the global `[C; C·J]` has orthogonal
columns of norm 7.  `Obs_all = (4/3)·O₃(J, C_g[order])`: the `4/3 = √S₀/9` belongs to setup 0, nothing of
`g₁ = 2` or setup 1's initial state is left. -/
namespace Ex
open _root_.PV.C01E2E.Ex (ofRows)
open _root_.PV.C01E2E.ExDat (xs lams Vec lam w mu)

abbrev A : Matrix (Fin 2) (Fin 2) ℚ := C01E2E.ExDat.A
def Cg : ℕ → Fin 2 → ℚ := fun r k =>
  if r = 0 then (if k.1 = 0 then 5/2 else 3/2) else if r = 1 then 4 else (if k.1 = 0 then -3/2 else 5/2)
def refIds : List ℕ := [1]
def movIds : List (List ℕ) := [[0], [2]]

def x00 : Fin 2 → ℚ := fun k => if k.1 = 0 then 1 else 0
def x01 : Fin 2 → ℚ := fun k => if k.1 = 0 then 0 else 1
/-- the records: rows = reference DOF 1, then the roving DOF; setup 1 starts a quarter period later and is
    recorded with gain 2 -/
def Y0 : Mat ℚ := ⟨2, 12, fun a t => 1 * (Cg ([1, 0].getD a 0) 0 * xs t 0 + Cg ([1, 0].getD a 0) 1 * xs t 1)⟩
def Y1 : Mat ℚ :=
  ⟨2, 12, fun a t => 2 * (Cg ([1, 2].getD a 0) 0 * xs (t + 1) 0 + Cg ([1, 2].getD a 0) 1 * xs (t + 1) 1)⟩

theorem state_eq0 (t : ℕ) : stateAt A x00 t = fun k => xs t k.1 := C01E2E.ExDat.state_eq t

theorem state_eq1 (t : ℕ) : stateAt A x01 t = fun k => xs (t + 1) k.1 := by
  induction t with
  | zero =>
    funext k
    fin_cases k <;> simp [stateAt, xs, x01]
  | succ t ih =>
    unfold stateAt at ih ⊢
    rw [pow_succ', ← Matrix.mulVec_mulVec, ih]
    funext k
    fin_cases k <;> simp [A, C01E2E.ExDat.A, toMx, Matrix.mulVec, dotProduct, Fin.sum_univ_two, xs]

theorem free0 : IsFreeResponse A (fun a t => 1 * msC Cg (refIds ++ [0]) a t) x00 Y0 := by
  intro a t ha _
  rw [state_eq0]
  have ha' : a < 2 := ha
  obtain rfl | rfl : a = 0 ∨ a = 1 := by omega
  all_goals simp [Y0, msC, refIds, Fin.sum_univ_two]

theorem free1 : IsFreeResponse A (fun a t => 2 * msC Cg (refIds ++ [2]) a t) x01 Y1 := by
  intro a t ha _
  rw [state_eq1]
  have ha' : a < 2 := ha
  obtain rfl | rfl : a = 0 ∨ a = 1 := by omega
  all_goals simp [Y1, msC, refIds, Fin.sum_univ_two]; ring

/-- recorded SVDs, square roots and pseudo-inverses of the reference parts -/
def U0 : Mat ℚ := ofRows 8 2 [[4/9, 4/9], [5/18, 1/6], [4/9, -4/9], [1/6, -5/18], [-4/9, -4/9], [-5/18, -1/6],
  [-4/9, 4/9], [-1/6, 5/18]]
def U1 : Mat ℚ := ofRows 8 2 [[4/9, 4/9], [-1/6, 5/18], [4/9, -4/9], [5/18, 1/6], [-4/9, -4/9], [1/6, -5/18],
  [-4/9, 4/9], [-5/18, -1/6]]
def V0 : Mat ℚ := ofRows 4 2 [[-1/2, 1/2], [-1/2, -1/2], [1/2, -1/2], [1/2, 1/2]]
def S0 : ℕ → ℚ := fun t => if t < 2 then 144 else 0
def sq0 : ℕ → ℚ := fun t => if t < 2 then 12 else 0
def S1 : ℕ → ℚ := fun t => if t < 2 then 576 else 0
def sq1 : ℕ → ℚ := fun t => if t < 2 then 24 else 0
def P0 : Mat ℚ := ofRows 2 3 [[3/64, 3/32, -3/64], [3/64, -3/32, -3/64]]
def P1 : Mat ℚ := ofRows 2 3 [[3/128, 3/64, -3/128], [3/128, -3/64, -3/128]]
def Γr0 : Matrix (Fin ((3 + 1) * (refPart Y0 refIds.length).r)) (Fin 2) ℚ :=
  toMx 4 2 (ofRows 4 2 [[-1/32, 1/32], [-1/32, -1/32], [1/32, -1/32], [1/32, 1/32]]).e
def Γr1 : Matrix (Fin ((3 + 1) * (refPart Y1 refIds.length).r)) (Fin 2) ℚ :=
  toMx 4 2 (ofRows 4 2 [[-1/64, 1/64], [-1/64, -1/64], [1/64, -1/64], [1/64, 1/64]]).e

theorem hΓ0 : gamMx A x00 (refPart Y0 refIds.length) 3 1 Y0.c ((3 + 1) * (refPart Y0 refIds.length).r) * Γr0
    = 1 := by
  have : gamMx A x00 (refPart Y0 refIds.length) 3 1 Y0.c ((3 + 1) * (refPart Y0 refIds.length).r)
      = Matrix.of fun (k : Fin 2) (c : Fin 4) => (1 * 1 : ℚ) * ∑ t ∈ range (12 - 3 - (3 + 1) - 1),
        xs (3 + 2 + t) k.1 * (refPart Y0 1).e (c.1 % 1) (3 + 1 - c.1 / 1 + t) := by
    ext k c
    simp only [gamMx, gamFn, state_eq0, Matrix.of_apply]
    rfl
  rw [this]
  decide +kernel

theorem hΓ1 : gamMx A x01 (refPart Y1 refIds.length) 3 1 Y1.c ((3 + 1) * (refPart Y1 refIds.length).r) * Γr1
    = 1 := by
  have : gamMx A x01 (refPart Y1 refIds.length) 3 1 Y1.c ((3 + 1) * (refPart Y1 refIds.length).r)
      = Matrix.of fun (k : Fin 2) (c : Fin 4) => (1 * 1 : ℚ) * ∑ t ∈ range (12 - 3 - (3 + 1) - 1),
        xs (3 + 2 + t + 1) k.1 * (refPart Y1 1).e (c.1 % 1) (3 + 1 - c.1 / 1 + t) := by
    ext k c
    simp only [gamMx, gamFn, state_eq1, Matrix.of_apply]
    rfl
  rw [this]
  decide +kernel

theorem cov0 : CovSetup A Cg 3 2 refIds [0] 1 x00 Y0 1 U0 V0 S0 sq0 P0 where
  hg := one_ne_zero
  rows := rfl
  free := free0
  gam := ⟨Γr0, hΓ0⟩
  svd := {
    dec := by
      have h : ∀ i, i < 8 → ∀ j, j < 4 → (hankMM Y0 (refPart Y0 refIds.length) 3 1).e i j
          = ∑ t ∈ range 2, U0.e i t * S0 t * V0.e j t := by decide +kernel
      exact fun i j hi hj => h i hi j hj
    orthU := by decide +kernel
    orthV := by decide +kernel
    nonneg := by decide +kernel
    ordered := by
      intro t ht
      obtain rfl : t = 0 := by omega
      decide +kernel }
  sqrt := by unfold SqrtOf; decide +kernel
  pinv := ⟨rfl, by decide +kernel⟩

theorem cov1 : CovSetup A Cg 3 2 refIds [2] 2 x01 Y1 1 U1 V0 S1 sq1 P1 where
  hg := two_ne_zero
  rows := rfl
  free := free1
  gam := ⟨Γr1, hΓ1⟩
  svd := {
    dec := by
      have h : ∀ i, i < 8 → ∀ j, j < 4 → (hankMM Y1 (refPart Y1 refIds.length) 3 1).e i j
          = ∑ t ∈ range 2, U1.e i t * S1 t * V0.e j t := by decide +kernel
      exact fun i j hi hj => h i hi j hj
    orthU := by decide +kernel
    orthV := by decide +kernel
    nonneg := by decide +kernel
    ordered := by
      intro t ht
      obtain rfl : t = 0 := by omega
      decide +kernel }
  sqrt := by unfold SqrtOf; decide +kernel
  pinv := ⟨rfl, by decide +kernel⟩

/-- the per-setup data as functions of the setup number -/
def g : ℕ → ℚ := fun i => if i = 0 then 1 else 2
def x0 : ℕ → Fin 2 → ℚ := fun i => if i = 0 then x00 else x01
def Y : ℕ → Mat ℚ := fun i => if i = 0 then Y0 else Y1
def U : ℕ → Mat ℚ := fun i => if i = 0 then U0 else U1
def P : ℕ → Mat ℚ := fun i => if i = 0 then P0 else P1
def S : ℕ → ℕ → ℚ := fun i => if i = 0 then S0 else S1
def sq : ℕ → ℕ → ℚ := fun i => if i = 0 then sq0 else sq1

theorem hset : ∀ i mi, movIds[i]? = some mi →
    CovSetup A Cg 3 2 refIds mi (g i) (x0 i) (Y i) ((fun _ => 1) i) (U i) ((fun _ => V0) i) (S i) (sq i) (P i) := by
  intro i mi h
  match i with
  | 0 =>
    obtain rfl : [0] = mi := by simpa [movIds] using h
    exact cov0
  | 1 =>
    obtain rfl : [2] = mi := by simpa [movIds] using h
    exact cov1
  | i + 2 => simp [movIds] at h

/-- the model's `Obs_all` of the instance: `(4/3)·O₃(J, C_g[1, 0, 2])` -/
example : toMx 9 2 (obsAllOf 3 2 refIds movIds U sq P).e
    = toMx 9 2 (ofRows 9 2 [[16/3, 16/3], [10/3, 2], [-2, 10/3], [16/3, -16/3], [2, -10/3], [10/3, 2],
        [-16/3, -16/3], [-10/3, -2], [2, -10/3]]).e := by
  decide +kernel

def Olr : Matrix (Fin 2) (Fin (3 * refIds.length)) ℚ :=
  toMx 2 3 (ofRows 2 3 [[1/16, 1/8, -1/16], [1/16, -1/8, -1/16]]).e
def Olg : Matrix (Fin 2) (Fin ((3 - 1) * nDof refIds movIds)) ℚ :=
  toMx 2 6 (ofRows 2 6 [[4/49, 5/98, -3/98, 4/49, 3/98, 5/98], [4/49, 3/98, 5/98, -4/49, -5/98, 3/98]]).e

theorem hObsR : Olr * obsMx (3 * refIds.length) refIds.length A (msC Cg refIds) = 1 := by
  decide +kernel

theorem hObsG : Olg * obsMx ((3 - 1) * nDof refIds movIds) (nDof refIds movIds) A
    (msC Cg (orderOf refIds movIds)) = 1 := by
  decide +kernel

def Q : Mat ℚ := ofRows 6 2 [[4/7, 4/7], [5/14, 3/14], [-3/14, 5/14], [4/7, -4/7], [3/14, -5/14], [5/14, 3/14]]
def R : Mat ℚ := ⟨2, 2, fun i j => if i = j then 28/3 else 0⟩
def Rinv : Mat ℚ := ofRows 2 2 [[3/28, 0], [0, 3/28]]

theorem hqr : QrC (upPart (obsAllOf 3 2 refIds movIds U sq P) (nDof refIds movIds)) Q R Rinv
    ((3 - 1) * nDof refIds movIds) 2 2 where
  hRc := rfl
  hQr := rfl
  dec := by decide +kernel
  orth := by decide +kernel
  tri := fun i j hij => by simp only [R]; rw [if_neg (by omega)]
  inv := fun _ => by decide +kernel

/-- **all hypotheses of `C03_e2e_cov` hold together**: the mode `i` of the global system is recovered from the
    two setups -/
theorem recovered :
    Conclusion A Cg 3 2 refIds movIds U S sq P Q Rinv Vec lams (1 / 100) lam w mu :=
  C03_e2e_cov A Cg 3 2 (by decide) refIds movIds (by decide) (by decide) g x0 Y (fun _ => 1) U (fun _ => V0) P S sq
    hset Olr hObsR Olg hObsG Q R Rinv hqr Vec lams
    (C01E2E.ExDat.eig_of _ (by decide +kernel)) (1 / 100) (by norm_num) lam w mu C01E2E.ExDat.mode

/-- the values behind `recovered`: the shape the model returns for pole `i` over the sensors `[1, 0, 2]` is
    the unity-normalised `C_g[order]·w = (4 − 4i, 5/2 − 3/2·i, −3/2 − 5/2·i)/(4 − 4i)` — no trace of the
    gain 2 of the second setup -/
example : (shapesOf (cplx (outC (obsAllOf 3 2 refIds movIds U sq P) (nDof refIds movIds) 2)) Vec).getD 0 []
      = [⟨1, 0⟩, ⟨1/2, 1/8⟩, ⟨1/8, -1/2⟩] ∧
    normalise (trueShape (msC Cg (orderOf refIds movIds)) 3 w) = [⟨1, 0⟩, ⟨1/2, 1/8⟩, ⟨1/8, -1/2⟩] := by
  decide +kernel

end Ex

/-! ## Non-vacuity of `C03_e2e_dat`: all hypotheses hold jointly for an exact rational two-setup instance

Same global rotation `A = J`; output rows `C_g = [(1, 1); (4, 0); (9, 1)]`, reference at DOF 1 (it sees the first
state only — the second through the rotation), setup 0 roves DOF 0 with gain `3/2` from `x0 = e₁`, setup 1 roves
DOF 2 with gain `7/2` from `x0 = e₂`; 26 samples, `br = 3`, `s = 1/3`: the stacked matrices `Ys` are `12 × 18` of
rank 2 (past block rank deficient, ten zero rows in the recorded triangular factors `Rf`), `Qd` orthonormal
factors with `Ysᵀ = Qd·Rf`.  `S = (9, 9)` resp. `(49, 49)`.  Here the first setup's basis is not a multiple of the
identity: `Obs_all = O₃(J, C_g[order])·M₁` with `M₁ = ½·J`. -/
namespace ExD
open _root_.PV.C01E2E.Ex (ofRows)
open _root_.PV.C01E2E.ExDat (xs lams Vec lam w mu)
open _root_.PV.C03E2E.Ex (A refIds movIds x00 x01 state_eq0 state_eq1)

def Cg : ℕ → Fin 2 → ℚ := fun r k =>
  if r = 0 then 1 else if r = 1 then (if k.1 = 0 then 4 else 0) else (if k.1 = 0 then 9 else 1)
def Y0 : Mat ℚ :=
  ⟨2, 26, fun a t => 3/2 * (Cg ([1, 0].getD a 0) 0 * xs t 0 + Cg ([1, 0].getD a 0) 1 * xs t 1)⟩
def Y1 : Mat ℚ :=
  ⟨2, 26, fun a t => 7/2 * (Cg ([1, 2].getD a 0) 0 * xs (t + 1) 0 + Cg ([1, 2].getD a 0) 1 * xs (t + 1) 1)⟩

theorem free0 : IsFreeResponse A (fun a t => 3/2 * msC Cg (refIds ++ [0]) a t) x00 Y0 := by
  intro a t ha _
  rw [state_eq0]
  have ha' : a < 2 := ha
  obtain rfl | rfl : a = 0 ∨ a = 1 := by omega
  all_goals simp [Y0, msC, refIds, Fin.sum_univ_two]; ring

theorem free1 : IsFreeResponse A (fun a t => 7/2 * msC Cg (refIds ++ [2]) a t) x01 Y1 := by
  intro a t ha _
  rw [state_eq1]
  have ha' : a < 2 := ha
  obtain rfl | rfl : a = 0 ∨ a = 1 := by omega
  all_goals simp [Y1, msC, refIds, Fin.sum_univ_two]; ring

/-- the recorded triangular factors of `Ysᵀ` (rows 2..11 vanish: rank 2) -/
def Rf0 : Mat ℚ := ⟨12, 12, fun i j =>
  if i = 0 then [6, 0, -6, 0, 0, 3/2, -6, -3/2, 0, -3/2, 6, 3/2].getD j 0
  else if i = 1 then [0, 6, 0, -6, -6, -3/2, 0, -3/2, 6, 3/2, 0, 3/2].getD j 0 else 0⟩
def Rf1 : Mat ℚ := ⟨12, 12, fun i j =>
  if i = 0 then [14, 0, -14, 0, 0, 7/2, -14, -63/2, 0, -7/2, 14, 63/2].getD j 0
  else if i = 1 then [0, 14, 0, -14, -14, -63/2, 0, -7/2, 14, 63/2, 0, 7/2].getD j 0 else 0⟩
/-- orthonormal factors (not returned by `qr(mode="r")`), by columns: the two normalised state sequences and ten
    `±½` vectors orthogonal to them -/
def QdRest : List (List ℚ) := [[1/2, 0, 1/2, 0, 1/2, 0, 1/2, 0, 0, 0, 0, 0, 0, 0, 0, 0, 0, 0], [1/2, 0, 1/2, 0, -1/2, 0, -1/2, 0, 0, 0, 0, 0, 0, 0, 0, 0, 0, 0], [1/2, 0, -1/2, 0, -1/2, 0, 1/2, 0, 0, 0, 0, 0, 0, 0, 0, 0, 0, 0], [0, 0, 0, 0, 0, 0, 0, 0, 1/2, 0, 1/2, 0, 1/2, 0, 1/2, 0, 0, 0], [0, 0, 0, 0, 0, 0, 0, 0, 1/2, 0, 1/2, 0, -1/2, 0, -1/2, 0, 0, 0], [0, 0, 0, 0, 0, 0, 0, 0, 1/2, 0, -1/2, 0, -1/2, 0, 1/2, 0, 0, 0], [0, 1/2, 0, 1/2, 0, 1/2, 0, 1/2, 0, 0, 0, 0, 0, 0, 0, 0, 0, 0], [0, 1/2, 0, 1/2, 0, -1/2, 0, -1/2, 0, 0, 0, 0, 0, 0, 0, 0, 0, 0], [0, 1/2, 0, -1/2, 0, -1/2, 0, 1/2, 0, 0, 0, 0, 0, 0, 0, 0, 0, 0], [0, 0, 0, 0, 0, 0, 0, 0, 0, 1/2, 0, 1/2, 0, 1/2, 0, 1/2, 0, 0]]
def Qd0 : ℕ → ℕ → ℚ := fun c t =>
  (([[1/3, 0, -1/3, 0, 1/3, 0, -1/3, 0, 1/3, 0, -1/3, 0, 1/3, 0, -1/3, 0, 1/3, 0], [0, 1/3, 0, -1/3, 0, 1/3, 0, -1/3, 0, 1/3, 0, -1/3, 0, 1/3, 0, -1/3, 0, 1/3]] ++ QdRest).getD t []).getD c 0
def Qd1 : ℕ → ℕ → ℚ := fun c t =>
  (([[0, -1/3, 0, 1/3, 0, -1/3, 0, 1/3, 0, -1/3, 0, 1/3, 0, -1/3, 0, 1/3, 0, -1/3], [1/3, 0, -1/3, 0, 1/3, 0, -1/3, 0, 1/3, 0, -1/3, 0, 1/3, 0, -1/3, 0, 1/3, 0]] ++ QdRest).getD t []).getD c 0

theorem tri_of (r0 r1 : List ℚ) (h : r1.getD 0 0 = 0) : ∀ i j, j < i →
    (if i = 0 then r0.getD j 0 else if i = 1 then r1.getD j 0 else 0 : ℚ) = 0 := by
  intro i j hij
  by_cases h0 : i = 0
  · omega
  · rw [if_neg h0]
    by_cases h1 : i = 1
    · obtain rfl : j = 0 := by omega
      rw [if_pos h1]; exact h
    · rw [if_neg h1]

def U0 : Mat ℚ := ofRows 8 2 [[0, -2/3], [1/6, -1/6], [-2/3, 0], [-1/6, -1/6], [0, 2/3], [-1/6, 1/6], [2/3, 0], [1/6, 1/6]]
def U1 : Mat ℚ := ofRows 8 2 [[0, -2/7], [1/14, -9/14], [-2/7, 0], [-9/14, -1/14], [0, 2/7], [-1/14, 9/14], [2/7, 0], [9/14, 1/14]]
def V0 : Mat ℚ := ofRows 4 2 [[1, 0], [0, 1], [0, 0], [0, 0]]
def S0 : ℕ → ℚ := fun t => if t < 2 then 9 else 0
def sq0 : ℕ → ℚ := fun t => if t < 2 then 3 else 0
def S1 : ℕ → ℚ := fun t => if t < 2 then 49 else 0
def sq1 : ℕ → ℚ := fun t => if t < 2 then 7 else 0
def P0 : Mat ℚ := ofRows 2 3 [[0, -1/2, 0], [-1/4, 0, 1/4]]
def P1 : Mat ℚ := ofRows 2 3 [[0, -1/2, 0], [-1/4, 0, 1/4]]
def Γr0 : Matrix (Fin ((3 + 1) * (refPart Y0 refIds.length).r)) (Fin 2) ℚ :=
  toMx 4 2 (ofRows 4 2 [[0, 1/12], [-1/12, 0], [0, -1/12], [1/12, 0]]).e
def Γr1 : Matrix (Fin ((3 + 1) * (refPart Y1 refIds.length).r)) (Fin 2) ℚ :=
  toMx 4 2 (ofRows 4 2 [[0, 1/28], [-1/28, 0], [0, -1/28], [1/28, 0]]).e

theorem hΓ0 : gamMx A x00 (refPart Y0 refIds.length) 3 (1/3) Y0.c ((3 + 1) * (refPart Y0 refIds.length).r) * Γr0
    = 1 := by
  have : gamMx A x00 (refPart Y0 refIds.length) 3 (1/3) Y0.c ((3 + 1) * (refPart Y0 refIds.length).r)
      = Matrix.of fun (k : Fin 2) (c : Fin 4) => (1/3 * (1/3) : ℚ) * ∑ t ∈ range (26 - 3 - (3 + 1) - 1),
        xs (3 + 2 + t) k.1 * (refPart Y0 1).e (c.1 % 1) (3 + 1 - c.1 / 1 + t) := by
    ext k c
    simp only [gamMx, gamFn, state_eq0, Matrix.of_apply]
    rfl
  rw [this]
  decide +kernel

theorem hΓ1 : gamMx A x01 (refPart Y1 refIds.length) 3 (1/3) Y1.c ((3 + 1) * (refPart Y1 refIds.length).r) * Γr1
    = 1 := by
  have : gamMx A x01 (refPart Y1 refIds.length) 3 (1/3) Y1.c ((3 + 1) * (refPart Y1 refIds.length).r)
      = Matrix.of fun (k : Fin 2) (c : Fin 4) => (1/3 * (1/3) : ℚ) * ∑ t ∈ range (26 - 3 - (3 + 1) - 1),
        xs (3 + 2 + t + 1) k.1 * (refPart Y1 1).e (c.1 % 1) (3 + 1 - c.1 / 1 + t) := by
    ext k c
    simp only [gamMx, gamFn, state_eq1, Matrix.of_apply]
    rfl
  rw [this]
  decide +kernel

theorem dat0 : DatSetup A Cg 3 2 refIds [0] (3/2) x00 Y0 (1/3) Rf0 U0 V0 S0 sq0 P0 where
  hg := by norm_num
  rows := rfl
  free := free0
  gam := ⟨Γr0, hΓ0⟩
  hRc := rfl
  qr := {
    tri := tri_of _ _ rfl
    dec := ⟨Qd0, by decide +kernel, by decide +kernel⟩ }
  svd := {
    dec := by
      have h : ∀ i, i < 8 → ∀ j, j < 4 → (hankDatOfR Rf0 (refPart Y0 refIds.length).r 3).e i j
          = ∑ t ∈ range 2, U0.e i t * S0 t * V0.e j t := by decide +kernel
      exact fun i j hi hj => h i hi j hj
    orthU := by decide +kernel
    orthV := by decide +kernel
    nonneg := by decide +kernel
    ordered := by
      intro t ht
      obtain rfl : t = 0 := by omega
      decide +kernel }
  sqrt := by unfold SqrtOf; decide +kernel
  pinv := ⟨rfl, by decide +kernel⟩

theorem dat1 : DatSetup A Cg 3 2 refIds [2] (7/2) x01 Y1 (1/3) Rf1 U1 V0 S1 sq1 P1 where
  hg := by norm_num
  rows := rfl
  free := free1
  gam := ⟨Γr1, hΓ1⟩
  hRc := rfl
  qr := {
    tri := tri_of _ _ rfl
    dec := ⟨Qd1, by decide +kernel, by decide +kernel⟩ }
  svd := {
    dec := by
      have h : ∀ i, i < 8 → ∀ j, j < 4 → (hankDatOfR Rf1 (refPart Y1 refIds.length).r 3).e i j
          = ∑ t ∈ range 2, U1.e i t * S1 t * V0.e j t := by decide +kernel
      exact fun i j hi hj => h i hi j hj
    orthU := by decide +kernel
    orthV := by decide +kernel
    nonneg := by decide +kernel
    ordered := by
      intro t ht
      obtain rfl : t = 0 := by omega
      decide +kernel }
  sqrt := by unfold SqrtOf; decide +kernel
  pinv := ⟨rfl, by decide +kernel⟩

def g : ℕ → ℚ := fun i => if i = 0 then 3/2 else 7/2
def x0 : ℕ → Fin 2 → ℚ := fun i => if i = 0 then x00 else x01
def Y : ℕ → Mat ℚ := fun i => if i = 0 then Y0 else Y1
def Rf : ℕ → Mat ℚ := fun i => if i = 0 then Rf0 else Rf1
def U : ℕ → Mat ℚ := fun i => if i = 0 then U0 else U1
def P : ℕ → Mat ℚ := fun i => if i = 0 then P0 else P1
def S : ℕ → ℕ → ℚ := fun i => if i = 0 then S0 else S1
def sq : ℕ → ℕ → ℚ := fun i => if i = 0 then sq0 else sq1

theorem hset : ∀ i mi, movIds[i]? = some mi →
    DatSetup A Cg 3 2 refIds mi (g i) (x0 i) (Y i) ((fun _ => 1/3) i) (Rf i) (U i) ((fun _ => V0) i) (S i) (sq i)
      (P i) := by
  intro i mi h
  match i with
  | 0 =>
    obtain rfl : [0] = mi := by simpa [movIds] using h
    exact dat0
  | 1 =>
    obtain rfl : [2] = mi := by simpa [movIds] using h
    exact dat1
  | i + 2 => simp [movIds] at h

/-- the model's `Obs_all` of the instance: `O₃(J, C_g[1, 0, 2])·(½·J)` -/
example : toMx 9 2 (obsAllOf 3 2 refIds movIds U sq P).e
    = toMx 9 2 (ofRows 9 2 [[0, -2], [1/2, -1/2], [1/2, -9/2], [-2, 0], [-1/2, -1/2], [-9/2, -1/2], [0, 2], [-1/2, 1/2], [-1/2, 9/2]]).e := by
  decide +kernel

def Olr : Matrix (Fin 2) (Fin (3 * refIds.length)) ℚ :=
  toMx 2 3 (ofRows 2 3 [[1/8, 0, -1/8], [0, -1/4, 0]]).e
def Olg : Matrix (Fin 2) (Fin ((3 - 1) * nDof refIds movIds)) ℚ :=
  toMx 2 6 (ofRows 2 6 [[1/25, 1/100, 9/100, 0, 1/100, 1/100], [0, 1/100, 1/100, -1/25, -1/100, -9/100]]).e

theorem hObsR : Olr * obsMx (3 * refIds.length) refIds.length A (msC Cg refIds) = 1 := by
  decide +kernel

theorem hObsG : Olg * obsMx ((3 - 1) * nDof refIds movIds) (nDof refIds movIds) A
    (msC Cg (orderOf refIds movIds)) = 1 := by
  decide +kernel

def Q : Mat ℚ := ofRows 6 2 [[0, -2/5], [1/10, -1/10], [1/10, -9/10], [-2/5, 0], [-1/10, -1/10], [-9/10, -1/10]]
def R : Mat ℚ := ⟨2, 2, fun i j => if i = j then 5 else 0⟩
def Rinv : Mat ℚ := ofRows 2 2 [[1/5, 0], [0, 1/5]]

theorem hqr : QrC (upPart (obsAllOf 3 2 refIds movIds U sq P) (nDof refIds movIds)) Q R Rinv
    ((3 - 1) * nDof refIds movIds) 2 2 where
  hRc := rfl
  hQr := rfl
  dec := by decide +kernel
  orth := by decide +kernel
  tri := fun i j hij => by simp only [R]; rw [if_neg (by omega)]
  inv := fun _ => by decide +kernel

/-- **all hypotheses of `C03_e2e_dat` hold together** -/
theorem recovered :
    Conclusion A Cg 3 2 refIds movIds U S sq P Q Rinv Vec lams (1 / 100) lam w mu :=
  C03_e2e_dat A Cg 3 2 (by decide) refIds movIds (by decide) (by decide) g x0 Y (fun _ => 1/3) Rf U (fun _ => V0) P
    S sq hset Olr hObsR Olg hObsG Q R Rinv hqr Vec lams
    (C01E2E.ExDat.eig_of _ (by decide +kernel)) (1 / 100) (by norm_num) lam w mu C01E2E.ExDat.mode

/-- the shape returned for pole `i` over the sensors `[1, 0, 2]`: the unity-normalised
    `C_g[order]·w = (4, 1 − i, 9 − i)/(9 − i)` -/
example : (shapesOf (cplx (outC (obsAllOf 3 2 refIds movIds U sq P) (nDof refIds movIds) 2)) Vec).getD 0 []
      = [⟨18/41, 2/41⟩, ⟨5/41, -4/41⟩, ⟨1, 0⟩] ∧
    normalise (trueShape (msC Cg (orderOf refIds movIds)) 3 w) = [⟨18/41, 2/41⟩, ⟨5/41, -4/41⟩, ⟨1, 0⟩] := by
  decide +kernel

end ExD

end PV.C03E2E
