import PyomaVerif.Props.C01TableLegacy
import PyomaVerif.Lemmas.SsiArgs
/-!
# C01 (clauses 7/8): `SSI_fast` as ONE model function, and the LAPACK arguments of both realisation routines

`fastSSI` (`Model/SsiArgs.lean`, driver op `ssi_fast_whole`, stream `ssi.SSI_fast[whole,args]`) derives
`l = int(H.shape[0] / (br + 1))` and forms the matrices handed to `np.linalg.qr` and `np.linalg.inv`;
`legacyPinvArgs` (op `ssi_legacy_args`, stream `ssi.SSI[pinv args]`) forms the matrices the legacy `ssi.SSI`
hands to `np.linalg.pinv`.

* `fastSSI_args` — whenever `fastSSI` returns: `l = U.r / (br + 1)`, `Obs` is the clipped product, the `qr`
  argument is `Obs[: Obs.shape[0] − l, :]` (no hypothesis).
* `fastSSI_get` — inside the recorded factors the call returns; its lists are those of `fastLists` with the DERIVED
  `l`; `fastQrArg_eq`, `fastInvArgs_get`: the `qr` argument is `upPart (obsOf U sq N) l`, the `inv` argument of pass
  `k` is `leadBlock R (k·step)` — exactly the subjects of the contract `QrC` in `C01_e2e_*_table`.
* `legacyPinvArgs_get` — the `pinv` argument of pass `n` is `upPart (obsOf U sq n) l`, the subject of `PinvC`.
* `C01_e2e_cov_table_whole`, `C01_e2e_dat_table_whole` — the end-to-end table theorems with the lists coming from
  `fastSSI` (no `l` handed in: `U` has as many rows as the Hankel matrix).
-/
namespace PV.C01Args
open PV PV.Mat PV.Cov PV.FreeVib PV.C11 PV.C01E2E PV.Poles PV.C01Table PV.C01TableLegacy Matrix

/-! ## `fastSSI` -/

/-- **what `fastSSI` derives and forms, with no hypothesis besides "the call returns"**: `l` is
    `int(H.shape[0] / (br + 1))` (`U.r = H.shape[0]`), `Obs` the clipped product `U1[:, :ordmax]·S1rad[:ordmax, :ordmax]`,
    and the matrix handed to `np.linalg.qr` is `Obs[: Obs.shape[0] − l, :]`. -/
theorem fastSSI_args (Rinv : ℕ → Mat ℚ) (Q R U : Mat ℚ) (sq : List ℚ) (br ordmax step : ℕ)
    (out : FastOut ℚ) (h : fastSSI Rinv Q R U sq br ordmax step = .ok out) :
    out.l = U.r / (br + 1) ∧ legacyObs U sq ordmax = .ok out.obs ∧ out.qrArg = upPart out.obs out.l
      ∧ step ≠ 0 := by
  unfold fastSSI at h
  cases hO : legacyObs U sq ordmax with
  | error e => rw [hO] at h; simp at h
  | ok Obs =>
    rw [hO] at h
    by_cases hs : step = 0
    · simp [hs] at h
    · simp only [if_neg hs] at h
      cases hL : fastLoop Rinv R (Mat.mul (transpose Q) (dnPart Obs (U.r / (br + 1)))) Obs (U.r / (br + 1))
          (scOrders 0 ordmax step) 0 with
      | error e => rw [hL] at h; simp at h
      | ok t =>
        obtain ⟨As, Cs, Is⟩ := t
        rw [hL] at h
        simp only [Except.ok.injEq] at h
        subst h
        exact ⟨rfl, rfl, rfl, hs⟩

/-- **`fastSSI` inside the recorded factors.**  `U` has `(p+1)·l` rows (`br = p`), at least `N = ordmax` recorded
    columns / singular values; the recorded `Q` has at least `N` columns and `R` at least `N` rows and columns
    (numpy's shapes of the reduced QR of a `p·l × N` matrix with `N ≤ p·l`); `step ≥ 1`.  Then the call returns, the
    derived channel count is `l`, the `qr` argument is `upPart Obs l`, the lists are those of `fastLists` for THAT
    `l`, and the `inv` argument of pass `k` is `R[:k·step, :k·step]`. -/
theorem fastSSI_get (Rinv : ℕ → Mat ℚ) (Q R U : Mat ℚ) (sq : List ℚ) (p l N step : ℕ)
    (hUr : U.r = (p + 1) * l) (hU : N ≤ U.c) (hq : N ≤ sq.length)
    (hQc : N ≤ Q.c) (hRr : N ≤ R.r) (hRc : N ≤ R.c) (hs : 0 < step) :
    ∃ out, fastSSI Rinv Q R U sq p N step = .ok out
      ∧ out.l = l ∧ out.obs = obsOf U (sqFn sq) N
      ∧ out.qrArg = upPart (obsOf U (sqFn sq) N) l
      ∧ out.A = (fastLists Rinv Q (obsOf U (sqFn sq) N) l N step).1
      ∧ out.C = (fastLists Rinv Q (obsOf U (sqFn sq) N) l N step).2
      ∧ out.invArgs.length = N / step + 1
      ∧ ∀ k, k * step ≤ N → out.invArgs[k]? = some (leadBlock R (k * step)) := by
  have hl : U.r / (p + 1) = l := by rw [hUr]; exact Nat.mul_div_cancel_left l (Nat.succ_pos p)
  have hlr : l ≤ (obsOf U (sqFn sq) N).r := by
    show l ≤ U.r
    rw [hUr]; exact Nat.le_mul_of_pos_left l (Nat.succ_pos p)
  obtain ⟨As, Cs, Is, hok, hAl, hCl, hIl, hget⟩ := fastLoop_spec Rinv R
    (Mat.mul (transpose Q) (dnPart (obsOf U (sqFn sq) N) l)) (obsOf U (sqFn sq) N) l hlr
    (scOrders 0 N step) 0 (by
      intro ii hi
      obtain ⟨k, hk1, hk2⟩ := (mem_scOrders 0 N step hs ii).mp hi
      refine ⟨by omega, by omega, ?_, ?_, ?_⟩
      · show ii ≤ Q.c; omega
      · show ii ≤ N; omega
      · show ii ≤ N; omega)
  have hlen := scOrders_zero_length N step hs
  have hfl := fastLists_len_step Rinv Q (obsOf U (sqFn sq) N) l N step hs
  refine ⟨⟨l, obsOf U (sqFn sq) N, As, Cs, upPart (obsOf U (sqFn sq) N) l, Is⟩, ?_, rfl, rfl, rfl, ?_, ?_,
    by rw [hIl, hlen], ?_⟩
  · unfold fastSSI
    rw [legacyObs_ok U sq N hU hq, hl]
    simp only [if_neg (Nat.ne_of_gt hs)]
    rw [hok]
  · apply List.ext_getElem?
    intro k
    by_cases hk : k < N / step + 1
    · have hks : k * step ≤ N := (Nat.le_div_iff_mul_le hs).mp (by omega)
      have h1 := (hget k (k * step) (scOrders_zero_get N step hs k hks)).1
      rw [Nat.zero_add] at h1
      have hpos : k < (N + 1 + step - 1) / step := by
        have := hfl.1
        simp only [fastLists, List.length_map, List.length_range] at this
        omega
      show As[k]? = _
      rw [h1]
      simp only [fastLists]
      rw [List.getElem?_map, List.getElem?_range hpos, Option.map_some]
      rfl
    · rw [List.getElem?_eq_none (by show As.length ≤ k; rw [hAl, hlen]; omega),
        List.getElem?_eq_none (by rw [hfl.1]; omega)]
  · apply List.ext_getElem?
    intro k
    by_cases hk : k < N / step + 1
    · have hks : k * step ≤ N := (Nat.le_div_iff_mul_le hs).mp (by omega)
      have h1 := (hget k (k * step) (scOrders_zero_get N step hs k hks)).2.1
      have hpos : k < (N + 1 + step - 1) / step := by
        have := hfl.2
        simp only [fastLists, List.length_map, List.length_range] at this
        omega
      show Cs[k]? = _
      rw [h1]
      simp only [fastLists]
      rw [List.getElem?_map, List.getElem?_range hpos, Option.map_some]
    · rw [List.getElem?_eq_none (by show Cs.length ≤ k; rw [hCl, hlen]; omega),
        List.getElem?_eq_none (by rw [hfl.2]; omega)]
  · intro k hk
    exact (hget k (k * step) (scOrders_zero_get N step hs k hk)).2.2

/-- **the matrix handed to `np.linalg.qr` is the subject of the contract `QrC`** of `C01_e2e_cov_table` /
    `C01_e2e_dat_table` (`upPart (obsOf U sq N) l` with `l` derived from the row count of `U` and `br`). -/
theorem fastQrArg_eq (Rinv : ℕ → Mat ℚ) (Q R U : Mat ℚ) (sq : List ℚ) (p l N step : ℕ)
    (hUr : U.r = (p + 1) * l) (hU : N ≤ U.c) (hq : N ≤ sq.length) (out : FastOut ℚ)
    (h : fastSSI Rinv Q R U sq p N step = .ok out) :
    out.qrArg = upPart (obsOf U (sqFn sq) N) l := by
  obtain ⟨h1, h2, h3, _⟩ := fastSSI_args Rinv Q R U sq p N step out h
  rw [legacyObs_ok U sq N hU hq] at h2
  have hl : U.r / (p + 1) = l := by rw [hUr]; exact Nat.mul_div_cancel_left l (Nat.succ_pos p)
  rw [h3, h1, hl, ← Except.ok.inj h2]

/-- **the matrix handed to `np.linalg.inv` in pass `k` is `R[:k·step, :k·step]`**: for `step = 1` and `k = n` the
    matrix whose inverse the contract `QrC.inv` speaks about. -/
theorem fastInvArgs_get (Rinv : ℕ → Mat ℚ) (Q R U : Mat ℚ) (sq : List ℚ) (p l N step : ℕ)
    (hUr : U.r = (p + 1) * l) (hU : N ≤ U.c) (hq : N ≤ sq.length)
    (hQc : N ≤ Q.c) (hRr : N ≤ R.r) (hRc : N ≤ R.c) (hs : 0 < step) (out : FastOut ℚ)
    (h : fastSSI Rinv Q R U sq p N step = .ok out) (k : ℕ) (hk : k * step ≤ N) :
    out.invArgs[k]? = some (leadBlock R (k * step)) := by
  obtain ⟨out', hok, _, _, _, _, _, _, hget⟩ := fastSSI_get Rinv Q R U sq p l N step hUr hU hq hQc hRr hRc hs
  rw [h] at hok
  obtain rfl : out = out' := Except.ok.inj hok
  exact hget k hk

/-! ## the legacy routine -/

/-- **the matrices handed to `np.linalg.pinv` by the legacy `ssi.SSI`** (`step = 1`, inside the recorded factors):
    `N + 1` calls, the one of pass `n` on `Obs_n[: −l]` of the `n`-column factor — the subject of the contract
    `PinvC (obsOf U sq n) (Pinvs n) …` of `C01_e2e_*_table_legacy`. -/
theorem legacyPinvArgs_get (U : Mat ℚ) (sq : List ℚ) (p l N : ℕ)
    (hUr : U.r = (p + 1) * l) (hU : N ≤ U.c) (hq : N ≤ sq.length) :
    ∃ Ps, legacyPinvArgs U sq p N 1 = .ok Ps ∧ Ps.length = N + 1
      ∧ ∀ n, n ≤ N → Ps[n]? = some (upPart (obsOf U (sqFn sq) n) l) := by
  have hl : U.r / (p + 1) = l := by rw [hUr]; exact Nat.mul_div_cancel_left l (Nat.succ_pos p)
  obtain ⟨Ps, hok, hPl, hget⟩ := legacyArgLoop_spec U sq l (scOrders 0 N 1) (by
    intro ii hi
    obtain ⟨k, hk1, hk2⟩ := (mem_scOrders 0 N 1 (by omega) ii).mp hi
    omega)
  refine ⟨Ps, ?_, by rw [hPl, scOrders_zero_length N 1 (by omega), Nat.div_one], ?_⟩
  · unfold legacyPinvArgs
    rw [if_neg (by omega), hl]
    exact hok
  · intro n hn
    have := hget n (n * 1) (scOrders_zero_get N 1 (by omega) n (by omega))
    rwa [Nat.mul_one] at this

/-- the argument loop fails exactly where the routine fails: same exception or both return -/
theorem legacyPinvArgs_step_zero (U : Mat ℚ) (sq : List ℚ) (br ordmax : ℕ) (Pinvs : ℕ → Mat ℚ) :
    legacyPinvArgs U sq br ordmax 0 = .error "ValueError"
      ∧ legacySSI Pinvs U sq br ordmax 0 = .error "ValueError" := ⟨rfl, rfl⟩

/-! ## end to end with the lists of `fastSSI` -/

/-- **C01_e2e_cov_table_whole — covariance-driven SSI, fast routine as ONE model function.**  As
    `C01_e2e_cov_table`, but the lists handed to `ssiPoles` are those `fastSSI` returns from the recorded factors:
    the channel count is NOT an input (`hUr`: `U1` has as many rows as the Hankel matrix — numpy's shape of
    `np.linalg.svd(H)`), the subject of the `qr` contract is the argument the model forms (`out.qrArg`) and the
    subject of its `inv` clause the `n`-th recorded `inv` argument.  Shape hypotheses on the recorded `Q`, `R`
    (`hQc`, `hRr`, `hRc`) are numpy's shape rule for the reduced QR of a `p·l × N` matrix with `N ≤ p·l`. -/
theorem C01_e2e_cov_table_whole {n : ℕ} (A : Matrix (Fin n) (Fin n) ℚ) (C : ℕ → Fin n → ℚ) (x0 : Fin n → ℚ)
    (Y Yref : Mat ℚ) (p : ℕ) (s : ℚ) (hl : 0 < Y.r) (hY : IsFreeResponse A C x0 Y)
    (Γr : Matrix (Fin ((p + 1) * Yref.r)) (Fin n) ℚ)
    (hΓ : gamMx A x0 Yref p s Y.c ((p + 1) * Yref.r) * Γr = 1)
    (Olp : Matrix (Fin n) (Fin (p * Y.r)) ℚ) (hObs : Olp * obsMx (p * Y.r) Y.r A C = 1)
    (U V : Mat ℚ) (S : ℕ → ℚ) (sq : List ℚ) (N : ℕ)
    (hUr : U.r = (hankMM Y Yref p s).r) (hUc : N ≤ U.c) (hql : N ≤ sq.length)
    (hsvd : SvdOf (hankMM Y Yref p s) U V S N) (hsq : SqrtOf (sqFn sq) S N)
    (Q R : Mat ℚ) (Rinvs : ℕ → Mat ℚ) (hQc : N ≤ Q.c) (hRr : N ≤ R.r) (hRc : N ≤ R.c)
    (hqr : ∀ out, fastSSI Rinvs Q R U sq p N 1 = .ok out → QrC out.qrArg Q R (Rinvs n) (p * Y.r) N n)
    (recs : List EigRec) (twoPi : ℚ) (e : EigRec) (hn1 : 1 ≤ n) (hrecs : recs[n - 1]? = some e)
    (heig : ∀ out Ahat, fastSSI Rinvs Q R U sq p N 1 = .ok out →
      (ssiEigArgs out.A N 1)[n - 1]? = some (some Ahat) → EigOf n Ahat e.V (lamsOf e))
    (hlc : e.lamc.length = n) (hla : e.absc.length = n)
    (hwf : ∀ k, k < N → (recs.getD k EigRec.empty).absc.length ≤ N)
    (dt : ℝ) (hdt : 0 < dt) (lam : Cpx ℚ) (w : Fin n → Cpx ℚ) (mu : ℂ) (hm : Mode A dt lam w mu) :
    ∃ out T, fastSSI Rinvs Q R U sq p N 1 = .ok out ∧ out.l = Y.r
      ∧ out.invArgs[n]? = some (leadBlock R n)
      ∧ ssiPoles ⟨out.A, out.C, N, 1, recs, twoPi, none⟩ = .ok T
      ∧ (T.fn.r = N ∧ T.fn.c = N + 1)
      ∧ (∀ r, n ≤ r → T.fn.e r n = none ∧ T.xi.e r n = none ∧ T.lam.e r n = none
          ∧ ∀ t, T.phi.e r n t = none)
      ∧ ModeInTable C Y.r dt lam w mu e twoPi T := by
  have hUr' : U.r = (p + 1) * Y.r := by rw [hUr]; exact (PV.C12.C12_shape_mm Y Yref p s).1
  obtain ⟨out, hok, hl', _, hqa, hA, hC, _, hinv⟩ :=
    fastSSI_get Rinvs Q R U sq p Y.r N 1 hUr' hUc hql hQc hRr hRc (by omega)
  have hqr' := hqr out hok
  rw [hqa] at hqr'
  -- the rank of the system is at most N
  obtain ⟨hn, _⟩ := realised_of_factor_rank A C Y.r p hl (hankMM Y Yref p s) U V S (sqFn sq) N
    (PV.C12.C12_shape_mm Y Yref p s).1 (gamMx A x0 Yref p s Y.c ((p + 1) * Yref.r)) Γr hΓ
    (hankMM_factor A C x0 Y Yref p s hY) Olp hObs hsvd hsq
  have heig' := heig out _ hok (by rw [hA]; exact ssiEigArgs_fast Rinvs Q _ Y.r N n hn1 hn)
  obtain ⟨T, hT, h1, h2, h3⟩ := C01_e2e_cov_table A C x0 Y Yref p s hl hY Γr hΓ Olp hObs U V S (sqFn sq) N
    hsvd hsq Q R Rinvs hqr' recs twoPi e hn1 hrecs heig' hlc hla hwf dt hdt lam w mu hm
  refine ⟨out, T, hok, hl', ?_, by rw [hA, hC]; exact hT, h1, h2, h3⟩
  have := hinv n (by omega)
  rwa [Nat.mul_one] at this

/-- **C01_e2e_dat_table_whole — data-driven SSI, fast routine as ONE model function** (as
    `C01_e2e_cov_table_whole`, with the Hankel matrix `hankDatOfR Rf r p` of the recorded triangular factor). -/
theorem C01_e2e_dat_table_whole {n : ℕ} (A : Matrix (Fin n) (Fin n) ℚ) (C : ℕ → Fin n → ℚ) (x0 : Fin n → ℚ)
    (Y Yref : Mat ℚ) (p : ℕ) (s : ℚ) (hl : 0 < Y.r) (hY : IsFreeResponse A C x0 Y)
    (Γr : Matrix (Fin ((p + 1) * Yref.r)) (Fin n) ℚ)
    (hΓ : gamMx A x0 Yref p s Y.c ((p + 1) * Yref.r) * Γr = 1)
    (Olp : Matrix (Fin n) (Fin (p * Y.r)) ℚ) (hObs : Olp * obsMx (p * Y.r) Y.r A C = 1)
    (Rf : Mat ℚ) (hRfc : Rf.c = (Yref.r + Y.r) * (p + 1))
    (hdq : DatQr (hankYs Y Yref p s) Rf ((p + 1) * Yref.r) ((p + 1) * Y.r) (Y.c - p - (p + 1) - 1))
    (U V : Mat ℚ) (S : ℕ → ℚ) (sq : List ℚ) (N : ℕ)
    (hUr : U.r = (hankDatOfR Rf Yref.r p).r) (hUc : N ≤ U.c) (hql : N ≤ sq.length)
    (hsvd : SvdOf (hankDatOfR Rf Yref.r p) U V S N) (hsq : SqrtOf (sqFn sq) S N)
    (Q R : Mat ℚ) (Rinvs : ℕ → Mat ℚ) (hQc : N ≤ Q.c) (hRr : N ≤ R.r) (hRc : N ≤ R.c)
    (hqr : ∀ out, fastSSI Rinvs Q R U sq p N 1 = .ok out → QrC out.qrArg Q R (Rinvs n) (p * Y.r) N n)
    (recs : List EigRec) (twoPi : ℚ) (e : EigRec) (hn1 : 1 ≤ n) (hrecs : recs[n - 1]? = some e)
    (heig : ∀ out Ahat, fastSSI Rinvs Q R U sq p N 1 = .ok out →
      (ssiEigArgs out.A N 1)[n - 1]? = some (some Ahat) → EigOf n Ahat e.V (lamsOf e))
    (hlc : e.lamc.length = n) (hla : e.absc.length = n)
    (hwf : ∀ k, k < N → (recs.getD k EigRec.empty).absc.length ≤ N)
    (dt : ℝ) (hdt : 0 < dt) (lam : Cpx ℚ) (w : Fin n → Cpx ℚ) (mu : ℂ) (hm : Mode A dt lam w mu) :
    ∃ out T, fastSSI Rinvs Q R U sq p N 1 = .ok out ∧ out.l = Y.r
      ∧ out.invArgs[n]? = some (leadBlock R n)
      ∧ ssiPoles ⟨out.A, out.C, N, 1, recs, twoPi, none⟩ = .ok T
      ∧ (T.fn.r = N ∧ T.fn.c = N + 1)
      ∧ (∀ r, n ≤ r → T.fn.e r n = none ∧ T.xi.e r n = none ∧ T.lam.e r n = none
          ∧ ∀ t, T.phi.e r n t = none)
      ∧ ModeInTable C Y.r dt lam w mu e twoPi T := by
  have hUr' : U.r = (p + 1) * Y.r := by
    rw [hUr]
    show Rf.c - Yref.r * (p + 1) = (p + 1) * Y.r
    rw [hRfc, Nat.add_mul, Nat.add_sub_cancel_left, Nat.mul_comm]
  obtain ⟨out, hok, hl', _, hqa, hA, hC, _, hinv⟩ :=
    fastSSI_get Rinvs Q R U sq p Y.r N 1 hUr' hUc hql hQc hRr hRc (by omega)
  have hqr' := hqr out hok
  rw [hqa] at hqr'
  -- the lists do not depend on the eigen-contract: get `n ≤ N` from the table theorem's own derivation
  have hn : n ≤ N := by
    obtain ⟨q, hdec, horth⟩ := hdq.dec
    obtain ⟨G, hG1, hG2⟩ := hankDat_factor A C x0 Y Yref p s hY q Rf.e hdec horth hdq.tri
    have eH : hankDatOfR Rf Yref.r p
        = ⟨(p + 1) * Y.r, (p + 1) * Yref.r, fun i j => Rf.e j ((p + 1) * Yref.r + i)⟩ := by
      refine mat_ext ?_ (Nat.mul_comm _ _) (fun i j => ?_)
      · show Rf.c - Yref.r * (p + 1) = (p + 1) * Y.r
        rw [hRfc, Nat.add_mul, Nat.add_sub_cancel_left, Nat.mul_comm]
      · show Rf.e j (Yref.r * (p + 1) + i) = Rf.e j ((p + 1) * Yref.r + i)
        rw [Nat.mul_comm]
    have hsvd' := hsvd
    rw [eH] at hsvd'
    have hGr : G * (toMx ((p + 1) * Yref.r) ((p + 1) * Yref.r) Rf.e * Γr) = 1 := by
      rw [← Matrix.mul_assoc, hG2, hΓ]
    exact (realised_of_factor_rank A C Y.r p hl
      ⟨(p + 1) * Y.r, (p + 1) * Yref.r, fun i j => Rf.e j ((p + 1) * Yref.r + i)⟩ U V S (sqFn sq) N rfl
      G _ hGr hG1 Olp hObs hsvd' hsq).1
  have heig' := heig out _ hok (by rw [hA]; exact ssiEigArgs_fast Rinvs Q _ Y.r N n hn1 hn)
  obtain ⟨T, hT, h1, h2, h3⟩ := C01_e2e_dat_table A C x0 Y Yref p s hl hY Γr hΓ Olp hObs Rf hRfc hdq U V S
    (sqFn sq) N hsvd hsq Q R Rinvs hqr' recs twoPi e hn1 hrecs heig' hlc hla hwf dt hdt lam w mu hm
  refine ⟨out, T, hok, hl', ?_, by rw [hA, hC]; exact hT, h1, h2, h3⟩
  have := hinv n (by omega)
  rwa [Nat.mul_one] at this

/-! ## Non-vacuity: the instances of `C01E2E` (`Ex`: damped rotation, `cov_mm`; `ExDat`: undamped rotation, `dat`)
with the recorded roots as a list and the recorded `Q`, `R`, `R⁻¹` satisfy all hypotheses jointly; the arguments the
model forms are evaluated by the kernel. -/
namespace Ex
open PV.C01E2E.Ex PV.C01TableLegacy.Ex

theorem hqrL : QrC (upPart (obsOf U (sqFn sqL) 2) Y.r) Q R Rinv (1 * Y.r) 2 2 where
  hRc := rfl
  hQr := rfl
  dec := by decide +kernel
  orth := by decide +kernel
  tri := fun i j hij => by simp only [R]; rw [if_neg (by omega)]
  inv := fun _ => by decide +kernel

/-- `fastSSI_get`, `fastSSI_args`, `fastQrArg_eq`, `fastInvArgs_get`: the instance returns (`U` is `4 × 2`,
    `br = 1`: the derived `l` is `2`) -/
theorem whole_ok : ∃ out, fastSSI (fun _ => Rinv) Q R U sqL 1 2 1 = .ok out ∧ out.l = 2
    ∧ out.qrArg = upPart (obsOf U (sqFn sqL) 2) 2 ∧ out.invArgs[2]? = some (leadBlock R 2) := by
  obtain ⟨out, hok, hl, _, hq, _, _, _, hinv⟩ := fastSSI_get (fun _ => Rinv) Q R U sqL 1 2 2 1 rfl
    (by decide) (by decide) (by decide) (by decide) (by decide) (by decide)
  exact ⟨out, hok, hl, hq, by simpa using hinv 2 (by decide)⟩

example : ∃ out, fastSSI (fun _ => Rinv) Q R U sqL 1 2 1 = .ok out
    ∧ out.l = U.r / (1 + 1) ∧ out.qrArg = upPart out.obs out.l := by
  obtain ⟨out, hok, _⟩ := whole_ok
  obtain ⟨h1, _, h3, _⟩ := fastSSI_args _ _ _ _ _ _ _ _ out hok
  exact ⟨out, hok, h1, h3⟩

example : ∀ out, fastSSI (fun _ => Rinv) Q R U sqL 1 2 1 = .ok out →
    out.qrArg = upPart (obsOf U (sqFn sqL) 2) 2 ∧ out.invArgs[1]? = some (leadBlock R 1) := fun out h =>
  ⟨fastQrArg_eq _ Q R U sqL 1 2 2 1 rfl (by decide) (by decide) out h,
   by simpa using fastInvArgs_get _ Q R U sqL 1 2 2 1 rfl (by decide) (by decide) (by decide) (by decide)
        (by decide) (by decide) out h 1 (by decide)⟩

/-- the `qr` argument of the instance is the `2 × 2` upper part `[[0, 27/80], [9/20, 0]]` of the factor; the `inv`
    argument of pass 2 is `R` itself -/
example : ∀ out, fastSSI (fun _ => Rinv) Q R U sqL 1 2 1 = .ok out →
    toMx 2 2 out.qrArg.e = toMx 2 2 (ofRows 2 2 [[0, 27/80], [9/20, 0]]).e := by
  intro out h
  rw [fastQrArg_eq _ Q R U sqL 1 2 2 1 rfl (by decide) (by decide) out h]
  decide +kernel

/-- `legacyPinvArgs_get` on the instance -/
example : ∃ Ps, legacyPinvArgs U sqL 1 2 1 = .ok Ps ∧ Ps.length = 3
    ∧ Ps[2]? = some (upPart (obsOf U (sqFn sqL) 2) 2) := by
  obtain ⟨Ps, h1, h2, h3⟩ := legacyPinvArgs_get U sqL 1 2 2 rfl (by decide) (by decide)
  exact ⟨Ps, h1, h2, h3 2 (by decide)⟩

theorem table : ∃ out T, fastSSI (fun _ => Rinv) Q R U sqL 1 2 1 = .ok out ∧ out.l = Y.r
    ∧ out.invArgs[2]? = some (leadBlock R 2)
    ∧ ssiPoles ⟨out.A, out.C, 2, 1, [C01Table.Ex.e1, C01Table.Ex.e2], 7, none⟩ = .ok T
    ∧ (T.fn.r = 2 ∧ T.fn.c = 2 + 1)
    ∧ (∀ r, 2 ≤ r → T.fn.e r 2 = none ∧ T.xi.e r 2 = none ∧ T.lam.e r 2 = none
        ∧ ∀ t, T.phi.e r 2 t = none)
    ∧ ModeInTable C Y.r (1 / 100) lam w mu C01Table.Ex.e2 7 T :=
  C01_e2e_cov_table_whole A C x0 Y Y 1 1 (by decide) free Γr hΓ Olp hObs U V S sqL 2 rfl (by decide)
    (by decide) hsvd hsqL Q R (fun _ => Rinv) (by decide) (by decide) (by decide)
    (fun out h => by
      rw [fastQrArg_eq _ Q R U sqL 1 2 2 1 rfl (by decide) (by decide) out h]
      exact hqrL)
    [C01Table.Ex.e1, C01Table.Ex.e2] 7 C01Table.Ex.e2 (by decide) rfl
    (fun out Ahat h hA => by
      obtain ⟨out', hok, _, _, _, hAl, _⟩ := fastSSI_get (fun _ => Rinv) Q R U sqL 1 2 2 1 rfl
        (by decide) (by decide) (by decide) (by decide) (by decide) (by decide)
      rw [h] at hok
      obtain rfl : out = out' := Except.ok.inj hok
      rw [hAl, ssiEigArgs_fast (fun _ => Rinv) Q _ 2 2 2 (by decide) (by decide)] at hA
      obtain rfl : fastA Rinv Q (dnPart (obsOf U (sqFn sqL) 2) 2) 2 = Ahat :=
        Option.some.inj (Option.some.inj hA)
      exact eigOf_congr (eig_of _ (by decide +kernel)) (fun k hk => by
        obtain rfl | rfl : k = 0 ∨ k = 1 := by omega
        all_goals rfl))
    rfl rfl
    (fun k hk => by
      obtain rfl | rfl : k = 0 ∨ k = 1 := by omega
      all_goals decide)
    (1 / 100) (by norm_num) lam w mu mode

end Ex

namespace ExDat
open PV.C01E2E.ExDat PV.C01TableLegacy.ExDat

theorem hqrL : QrC (upPart (obsOf U (sqFn sqL) 2) Y.r) Q R Rinv (1 * Y.r) 2 2 where
  hRc := rfl
  hQr := rfl
  dec := by decide +kernel
  orth := by decide +kernel
  tri := fun i j hij => by simp only [R]; rw [if_neg (by omega)]
  inv := fun _ => by decide +kernel

theorem table : ∃ out T, fastSSI (fun _ => Rinv) Q R U sqL 1 2 1 = .ok out ∧ out.l = Y.r
    ∧ out.invArgs[2]? = some (leadBlock R 2)
    ∧ ssiPoles ⟨out.A, out.C, 2, 1, [C01Table.ExDat.e1, C01Table.ExDat.e2], 7, none⟩ = .ok T
    ∧ (T.fn.r = 2 ∧ T.fn.c = 2 + 1)
    ∧ (∀ r, 2 ≤ r → T.fn.e r 2 = none ∧ T.xi.e r 2 = none ∧ T.lam.e r 2 = none
        ∧ ∀ t, T.phi.e r 2 t = none)
    ∧ ModeInTable C Y.r (1 / 100) lam w mu C01Table.ExDat.e2 7 T :=
  C01_e2e_dat_table_whole A C x0 Y Y 1 (1/3) (by decide) free Γr hΓ Olp hObs Rf rfl hdq U V S sqL 2 rfl
    (by decide) (by decide) hsvd hsqL Q R (fun _ => Rinv) (by decide) (by decide) (by decide)
    (fun out h => by
      rw [fastQrArg_eq _ Q R U sqL 1 2 2 1 rfl (by decide) (by decide) out h]
      exact hqrL)
    [C01Table.ExDat.e1, C01Table.ExDat.e2] 7 C01Table.ExDat.e2 (by decide) rfl
    (fun out Ahat h hA => by
      obtain ⟨out', hok, _, _, _, hAl, _⟩ := fastSSI_get (fun _ => Rinv) Q R U sqL 1 2 2 1 rfl
        (by decide) (by decide) (by decide) (by decide) (by decide) (by decide)
      rw [h] at hok
      obtain rfl : out = out' := Except.ok.inj hok
      rw [hAl, ssiEigArgs_fast (fun _ => Rinv) Q _ 2 2 2 (by decide) (by decide)] at hA
      obtain rfl : fastA Rinv Q (dnPart (obsOf U (sqFn sqL) 2) 2) 2 = Ahat :=
        Option.some.inj (Option.some.inj hA)
      exact eigOf_congr (eig_of _ (by decide +kernel)) (fun k hk => by
        obtain rfl | rfl : k = 0 ∨ k = 1 := by omega
        all_goals rfl))
    rfl rfl
    (fun k hk => by
      obtain rfl | rfl : k = 0 ∨ k = 1 := by omega
      all_goals decide)
    (1 / 100) (by norm_num) lam w mu mode

end ExDat

end PV.C01Args
