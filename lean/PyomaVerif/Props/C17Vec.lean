import PyomaVerif.Lemmas.VecKron
import PyomaVerif.Props.C17Jac
import Mathlib.Analysis.SpecialFunctions.Complex.Log
import Mathlib.Tactic.FinCases
import Mathlib.Tactic.NormNum
/-!
# C17 (vectorised link) — `Q1..Q3` of `SSI_fast` and the contraction of `SSI_poles`
(`S4_n`, `Pnn`, `np.kron(φ, I)`, `OO`, `χᴴ`) compute, column by column of the factor `T`, the
first-order perturbation of each eigenvalue of `A_n`; `Fn_cov` is the sum of squared directional
derivatives of the frequency.
-/
namespace PV.C17
open PV PV.Mat PV.Unc Finset Matrix TrivSqZeroExt

/-! ## 1. vec / Kronecker / selection identities of the model's definitions -/


/-- **`vec(A·X·B) = (Bᵀ ⊗ A)·vec(X)`** for the model's `kron` (numpy's `np.kron` layout) and the
    column stacking `vecC` (`reshape(-1, order="F")`), every size, commutative semiring. -/
theorem C17_vec_AXB {K : Type} [CommSemiring K] (A X B : Mat K) (hXr : X.r = A.c) (hXc : X.c = B.r)
    (m : Nat) : mulVec (kron (transpose B) A) (vecC X) m = vecC (mul (mul A X) B) m :=
  kron_mulVec_vecC A X B hXr hXc m

/-- **`Pnn` (eq. 15, as the loop of `SSI_poles` builds it) is the commutation matrix**:
    `Pnn·vec(X) = vec(Xᵀ)` for every `n × n` matrix; applied to a matrix whose columns are
    vectorisations, `(Pnn·Y)[i·n + a, :] = Y[a·n + i, :]`. -/
theorem C17_pnn_commutation {K : Type} [CommSemiring K] (n : Nat) :
    (∀ (X : Mat K), X.r = n → X.c = n → ∀ m, m < n * n →
        mulVec (pnn n) (vecC X) m = vecC (transpose X) m) ∧
    (∀ (Y : Mat K) (i a k : Nat), i < n → a < n →
        (mul (pnn n) Y).e (i * n + a) k = Y.e (a * n + i) k) :=
  ⟨fun X hr hc m hm => pnn_mulVec_vecC X n hr hc m hm,
   fun Y i a k hi ha => pnn_mul_e n Y i a k hi ha⟩

/-- **Selection matrices.** `Sel1·Obs = O↑` (`Obs[:−l]`), `Sel2·Obs = O↓` (`Obs[l:]`), the selection of
    `Q4` picks the first block row `C`, `S4_n` picks the leading `n × n` block of the unvectorised
    `ordmax × ordmax` matrix, and `np.kron(φ, eye(n))` contracts the unvectorised column with `φ`. -/
theorem C17_selections {K : Type} [CommSemiring K] (m l : Nat) (X : Mat K) :
    (∀ i k, i < m → (mul (hstack2 (eye m) (zeros m l)) X).e i k = X.e i k) ∧
    (∀ i k, i < m → (mul (hstack2 (zeros m l) (eye m)) X).e i k = X.e (l + i) k) ∧
    (∀ n N (Q : Mat K) i a k, n ≤ N → i < n → a < n →
        (mul (s4n n N) Q).e (i * n + a) k = Q.e (i * N + a) k) ∧
    (∀ c n (v : Nat → K) (Y : Mat K) i k, i < n →
        (mul (selVI c n v) Y).e i k = ∑ j ∈ range c, v j * Y.e (j * n + i) k) :=
  ⟨fun i k hi => sel1_mul_e m l X i k hi, fun i k hi => sel2_mul_e m l X i k hi,
   fun n N Q i a k hn hi ha => s4n_mul_e n N hn Q i a k hi ha,
   fun c n v Y i k hi => selVI_mul_e c n v Y i k hi⟩

/-- **Entries of `Q1..Q3`** (eqs 36–37 as coded: `np.dot(np.dot(O_p.T, Sel1), JOHTi)` stacked by
    `ii`): row `b·ordmax + a` is `(O↑ᵀ·JOHT_b[:−l])[a]`, `(O↓ᵀ·JOHT_b[:−l])[a]`, `(O↑ᵀ·JOHT_b[l:])[a]`. -/
theorem C17_q123_entries {K : Type} [Field K] [Inhabited K] (H T Op Om : Mat K) (l r p ordmax : Nat)
    (U V : Mat K) (sig rs : Nat → K) (Ki : Nat → Mat K) (hOr : Op.r = p * l) (hOc : Op.c = ordmax)
    (hMr : Om.r = p * l) (hMc : Om.c = ordmax) (a b k : Nat) (ha : a < ordmax) (hb : b < ordmax)
    (hk : k < T.c) :
    let J := johT H T ((p + 1) * l) ((p + 1) * r) (Unc.col U b) (Unc.col V b) (sig b) (rs b) (Ki b)
    (q1234 H T Op Om l r p ordmax U V sig rs Ki).1.e (b * ordmax + a) k
        = ∑ s ∈ range (p * l), Op.e s a * J.e s k ∧
    (q1234 H T Op Om l r p ordmax U V sig rs Ki).2.1.e (b * ordmax + a) k
        = ∑ s ∈ range (p * l), Om.e s a * J.e s k ∧
    (q1234 H T Op Om l r p ordmax U V sig rs Ki).2.2.1.e (b * ordmax + a) k
        = ∑ s ∈ range (p * l), Op.e s a * J.e (l + s) k :=
  q1234_e H T Op Om l r p ordmax U V sig rs Ki hOr hOc hMr hMc a b k ha hb hk

/-! ## 2. First-order perturbation of the realisation and of its eigenvalues -/

section Main
set_option linter.unusedSectionVars false
variable {R K : Type} [Field R] [Inhabited R] [Field K] [Inhabited K]

/-- `JOHTi` under the bundled contract: entry `(i, k)` is the ε-part of `(s̃·ũ)_i`. -/
theorem C17_johT_contract (H dH T Ki : Mat R) (u v : Nat → R) (sig rs : R)
    (ud vd : Nat → DualNumber R) (sd s : DualNumber R)
    (h : SvFirstOrder H dH Ki u v sig rs ud vd sd s)
    (k : Nat) (hk : k < T.c) (hcol : ∀ m, m < dH.c * dH.r → T.e m k = vecC dH m)
    (hHr : H.r = dH.r) (hHc : H.c = dH.c) (h0 : 0 < dH.c) (h2 : (2 : R) ≠ 0)
    (i : Nat) (hi : i < dH.r) :
    (johT H T dH.r dH.c u v sig rs Ki).e i k = (s * ud i).snd := by
  have := C17_johT_first_order H dH T Ki u v sig rs k hk hcol hHr hHc h.ki_cols h0 h2 h.rs_sq h.ki_inv
    (fun i : Fin dH.r => ud i.1) (fun j : Fin dH.c => vd j.1) sd s
    (by funext i; exact h.u_fst i.1 i.2) (by funext j; exact h.v_fst j.1 j.2) h.sd_fst h.Hv h.uH
    h.uu h.vv h.s_sq h.s_rs i hi
  rw [this]
  rfl

/-- **What `PnQ1` and `PnQ2_Q3` encode.**  Let column `k` of `T` be `vec_c(ΔH)`, and take ANY first-order
    singular triples `b < n` of `H + ε·ΔH` extending the recorded ones (`SvFirstOrder`), with
    `Õ = [s̃_b·ũ_b]` the first-order observability matrix, `Õ↑ = Õ[:−l]`, `Õ↓ = Õ[l:]` (`obsD`).  Then with
    `Q1..Q3` the model of `SSI_fast` on `O_p = Obs[:−l]`, `O_m = Obs[l:]`, `Obs = Uom·diag(√σ)`:
    `unvec(PnQ1[:, k]) = O↑₀ᵀ·ε(O↑) + (O↑₀ᵀ·ε(O↑))ᵀ` and
    `unvec(PnQ2_Q3[:, k]) = ε(O↑)ᵀ·O↓₀ + O↑₀ᵀ·ε(O↓)` (leading `n × n` blocks, promoted by `ι`). -/
theorem C17_Q_unvec (ι : R →+* K) (H dH T U V : Mat R) (l r p N n : Nat) (sq sig rs : Nat → R)
    (Ki : Nat → Mat R) (k : Nat) (hk : k < T.c)
    (hcol : ∀ m, m < dH.c * dH.r → T.e m k = vecC dH m)
    (hHr : H.r = dH.r) (hHc : H.c = dH.c) (hr : dH.r = (p + 1) * l) (hc : dH.c = (p + 1) * r)
    (h0 : 0 < dH.c) (h2 : (2 : R) ≠ 0) (hn : n ≤ N) (hUr : U.r = dH.r)
    (ud vd : Nat → Nat → DualNumber R) (sd s : Nat → DualNumber R)
    (hsv : ∀ b, b < n → SvFirstOrder H dH (Ki b) (Unc.col U b) (Unc.col V b) (sig b) (rs b) (ud b) (vd b)
      (sd b) (s b))
    (hsq : ∀ b, b < n → (s b).fst = sq b) :
    let Obs := obsOf U sq N
    let Q := q1234 H T (upPart Obs l) (dnPart Obs l) l r p N U V sig rs Ki
    let Ou : Matrix (Fin (p * l)) (Fin n) (DualNumber R) := obsD 0 (p * l) n s ud
    let Od : Matrix (Fin (p * l)) (Fin n) (DualNumber R) := obsD l (p * l) n s ud
    unvecK ι n (pnQ1 n N Q.1) k
        = ((mfst Ou)ᵀ * msnd Ou + ((mfst Ou)ᵀ * msnd Ou)ᵀ).map ι ∧
    unvecK ι n (pnQ23 n N Q.2.1 Q.2.2.1) k
        = (((mfst Od)ᵀ * msnd Ou)ᵀ + (mfst Ou)ᵀ * msnd Od).map ι := by
  intro Obs Q Ou Od
  have hpl : p * l + l = dH.r := by rw [hr]; ring
  have hOr : (upPart Obs l).r = p * l := by
    show U.r - l - 0 = p * l
    rw [hUr]; omega
  have hMr : (dnPart Obs l).r = p * l := by
    show U.r - l = p * l
    rw [hUr]; omega
  -- entries of Q1..Q3 in terms of the first-order observability matrix
  have hJ : ∀ b, b < n → ∀ t, t < dH.r →
      (johT H T ((p + 1) * l) ((p + 1) * r) (Unc.col U b) (Unc.col V b) (sig b) (rs b) (Ki b)).e t k
        = (s b * ud b t).snd := by
    intro b hb t ht
    rw [← hr, ← hc]
    exact C17_johT_contract H dH T (Ki b) _ _ _ _ _ _ _ _ (hsv b hb) k hk hcol hHr hHc h0 h2 t ht
  have hu0 : ∀ (a : Fin n) (t : Fin (p * l)), (upPart Obs l).e t.1 a.1 = mfst Ou t a := by
    intro a t
    have ht : 0 + t.1 < dH.r := by have := t.2; omega
    simp only [upPart, rowSlice, Obs, obsOf, mfst, Matrix.map_apply, Ou, obsD, fst_mul,
      (hsv a.1 a.2).u_fst _ ht, hsq a.1 a.2, Unc.col]
    ring
  have hd0 : ∀ (a : Fin n) (t : Fin (p * l)), (dnPart Obs l).e t.1 a.1 = mfst Od t a := by
    intro a t
    have ht : l + t.1 < dH.r := by have := t.2; omega
    simp only [dnPart, rowSlice, Obs, obsOf, mfst, Matrix.map_apply, Od, obsD, fst_mul,
      (hsv a.1 a.2).u_fst _ ht, hsq a.1 a.2, Unc.col]
    ring
  have hQ := fun (a b : Fin n) => q1234_e H T (upPart Obs l) (dnPart Obs l) l r p N U V sig rs Ki
    hOr rfl hMr rfl a.1 b.1 k (lt_of_lt_of_le a.2 hn) (lt_of_lt_of_le b.2 hn) hk
  have hQ1 : ∀ a b : Fin n, Q.1.e (b.1 * N + a.1) k = ((mfst Ou)ᵀ * msnd Ou) a b := by
    intro a b
    rw [(hQ a b).1, Matrix.mul_apply, Finset.sum_range]
    refine Finset.sum_congr rfl fun t _ => ?_
    have ht : t.1 < dH.r := by have := t.2; omega
    rw [hJ b.1 b.2 t.1 ht, hu0 a t]
    simp [msnd, Ou, obsD]
  have hQ2 : ∀ a b : Fin n, Q.2.1.e (b.1 * N + a.1) k = ((mfst Od)ᵀ * msnd Ou) a b := by
    intro a b
    rw [(hQ a b).2.1, Matrix.mul_apply, Finset.sum_range]
    refine Finset.sum_congr rfl fun t _ => ?_
    have ht : t.1 < dH.r := by have := t.2; omega
    rw [hJ b.1 b.2 t.1 ht, hd0 a t]
    simp [msnd, Ou, obsD]
  have hQ3 : ∀ a b : Fin n, Q.2.2.1.e (b.1 * N + a.1) k = ((mfst Ou)ᵀ * msnd Od) a b := by
    intro a b
    rw [(hQ a b).2.2, Matrix.mul_apply, Finset.sum_range]
    refine Finset.sum_congr rfl fun t _ => ?_
    have ht : l + t.1 < dH.r := by have := t.2; omega
    rw [hJ b.1 b.2 (l + t.1) ht, hu0 a t]
    simp [msnd, Od, obsD]
  constructor
  · ext i j
    simp only [unvecK, Matrix.map_apply, Matrix.add_apply, Matrix.transpose_apply]
    rw [pnQ1_e n N hn Q.1 i.1 j.1 k i.2 j.2 (by exact hk), hQ1 j i, hQ1 i j, add_comm]
  · ext i j
    simp only [unvecK, Matrix.map_apply, Matrix.add_apply, Matrix.transpose_apply]
    rw [pnQ23_e n N hn Q.2.1 Q.2.2.1 i.1 j.1 k i.2 j.2 (by exact hk) (by exact hk), hQ2 j i, hQ3 i j]

/-- the argument of `np.linalg.inv` in `OO = inv(O_p.T·O_p)` (model `ooArg`) is `O↑₀ᵀ·O↑₀`, the value part of
    the first-order normal matrix, when `Obs = Uom·diag(√σ)` and the first-order triples extend the
    recorded ones. -/
theorem C17_ooArg_value (dH U : Mat R) (l p N n : Nat) (sq : Nat → R)
    (hr : dH.r = (p + 1) * l) (hUr : U.r = dH.r) (ud : Nat → Nat → DualNumber R)
    (s : Nat → DualNumber R)
    (hu : ∀ b, b < n → ∀ i, i < dH.r → (ud b i).fst = Unc.col U b i)
    (hsq : ∀ b, b < n → (s b).fst = sq b) :
    toMx n n (ooArg (obsOf U sq N) l n).e
      = (mfst (obsD 0 (p * l) n s ud))ᵀ * mfst (obsD 0 (p * l) n s ud) := by
  ext i j
  have hrl : U.r - l = p * l := by rw [hUr, hr]; rw [Nat.succ_mul]; omega
  simp only [toMx, ooArg, Mat.mul, Mat.transpose, obsOf, sumTo_eq, hrl, Matrix.mul_apply,
    Matrix.transpose_apply, mfst, Matrix.map_apply, obsD, fst_mul]
  rw [Finset.sum_range]
  refine Finset.sum_congr rfl fun t _ => ?_
  have ht : 0 + t.1 < dH.r := by have := t.2; rw [hr, Nat.succ_mul]; omega
  rw [hu i.1 i.2 _ ht, hu j.1 j.2 _ ht, hsq i.1 i.2, hsq j.1 j.2]
  simp only [Unc.col, Nat.zero_add]
  ring

omit [Inhabited K] in
/-- **Existence of the first-order inverse.**  If the recorded `OO` is an exact inverse of the model's
    `inv` argument, the first-order normal matrix `Õ↑ᵀ·Õ↑` has the left inverse
    `W̃ = OO − ε·OO·ε(Õ↑ᵀÕ↑)·OO` over the dual numbers (so the hypothesis `hW` of the theorems below is
    satisfiable for every first-order observability matrix extending the recorded one). -/
theorem C17_first_order_inverse_exists (ι : R →+* K) (dH U : Mat R) (l p N n : Nat) (sq : Nat → R)
    (hr : dH.r = (p + 1) * l) (hUr : U.r = dH.r) (ud : Nat → Nat → DualNumber R)
    (s : Nat → DualNumber R)
    (hu : ∀ b, b < n → ∀ i, i < dH.r → (ud b i).fst = Unc.col U b i)
    (hsq : ∀ b, b < n → (s b).fst = sq b)
    (OO : Mat R) (hOO : toMx n n OO.e * toMx n n (ooArg (obsOf U sq N) l n).e = 1) :
    ∃ W : Matrix (Fin n) (Fin n) (DualNumber K),
      W * ((dlift ι (obsD 0 (p * l) n s ud))ᵀ * dlift ι (obsD 0 (p * l) n s ud)) = 1 ∧
      mfst W = (toMx n n OO.e).map ι := by
  refine ⟨_, dual_left_inverse _ ((toMx n n OO.e).map ι) ?_, mfst_dmat _ _⟩
  rw [mfst_mul, mfst_transpose, mfst_dlift, ← Matrix.transpose_map, ← Matrix.map_mul,
    ← C17_ooArg_value dH U l p N n sq hr hUr ud s hu hsq, ← Matrix.map_mul, hOO,
    Matrix.map_one ι (map_zero ι) (map_one ι)]

/-- **First-order perturbation of the state matrix, as the `Q` matrices encode it.**  With the
    recorded inverse `OO` of `O↑ₙᵀ·O↑ₙ` exact and `Ã = W̃·Õ↑ᵀ·Õ↓`, `W̃ = (Õ↑ᵀÕ↑)⁻¹` over the dual numbers
    (what `inv(R[:n,:n])·S[:n,:n]` is, `C17_fastA_normal_eq`):
    `ε(A) = OO·(unvec(PnQ2_Q3[:, k]) − unvec(PnQ1[:, k])·A₀)`. -/
theorem C17_A_first_order (ι : R →+* K) (H dH T U V : Mat R) (l r p N n : Nat) (sq sig rs : Nat → R)
    (Ki : Nat → Mat R) (k : Nat) (hk : k < T.c)
    (hcol : ∀ m, m < dH.c * dH.r → T.e m k = vecC dH m)
    (hHr : H.r = dH.r) (hHc : H.c = dH.c) (hr : dH.r = (p + 1) * l) (hc : dH.c = (p + 1) * r)
    (h0 : 0 < dH.c) (h2 : (2 : R) ≠ 0) (hn : n ≤ N) (hUr : U.r = dH.r)
    (ud vd : Nat → Nat → DualNumber R) (sd s : Nat → DualNumber R)
    (hsv : ∀ b, b < n → SvFirstOrder H dH (Ki b) (Unc.col U b) (Unc.col V b) (sig b) (rs b) (ud b) (vd b)
      (sd b) (s b))
    (hsq : ∀ b, b < n → (s b).fst = sq b)
    (OO : Mat R) (hOO : toMx n n OO.e * toMx n n (ooArg (obsOf U sq N) l n).e = 1)
    (W A : Matrix (Fin n) (Fin n) (DualNumber K)) :
    let Obs := obsOf U sq N
    let Q := q1234 H T (upPart Obs l) (dnPart Obs l) l r p N U V sig rs Ki
    let Ou : Matrix (Fin (p * l)) (Fin n) (DualNumber K) := dlift ι (obsD 0 (p * l) n s ud)
    let Od : Matrix (Fin (p * l)) (Fin n) (DualNumber K) := dlift ι (obsD l (p * l) n s ud)
    W * (Ouᵀ * Ou) = 1 → A = W * (Ouᵀ * Od) →
    msnd A = (toMx n n OO.e).map ι *
      (unvecK ι n (pnQ23 n N Q.2.1 Q.2.2.1) k - unvecK ι n (pnQ1 n N Q.1) k * mfst A) := by
  intro Obs Q Ou Od hW hA
  obtain ⟨e1, e23⟩ := C17_Q_unvec ι H dH T U V l r p N n sq sig rs Ki k hk hcol hHr hHc hr hc h0 h2
    hn hUr ud vd sd s hsv hsq
  have hs := C17_realisation_sens Ou Od W A hW hA
  -- the recorded inverse is the value part of the first-order inverse
  have hoo := C17_ooArg_value dH U l p N n sq hr hUr ud s
    (fun b hb i hi => (hsv b hb).u_fst i hi) hsq
  have hW0 : mfst W = (toMx n n OO.e).map ι := by
    have hw := congrArg mfst hW
    rw [mfst_mul, mfst_mul, mfst_transpose, mfst_one, mfst_dlift] at hw
    have ho := congrArg (fun M => M.map ι) hOO
    simp only [hoo, Matrix.map_mul, Matrix.map_one ι (map_zero ι) (map_one ι)] at ho
    rw [Matrix.transpose_map] at ho
    have ho' := mul_eq_one_comm.mp ho
    calc mfst W = mfst W * (((mfst (obsD 0 (p * l) n s ud)).map ι)ᵀ
            * (mfst (obsD 0 (p * l) n s ud)).map ι * (toMx n n OO.e).map ι) := by
          rw [ho', Matrix.mul_one]
      _ = (toMx n n OO.e).map ι := by rw [← Matrix.mul_assoc, hw, Matrix.one_mul]
  rw [hs, e1, e23, hW0]
  simp only [Ou, Od, mfst_dlift, msnd_dlift, Matrix.map_add ι (map_add ι), Matrix.map_mul,
    Matrix.transpose_mul, Matrix.transpose_transpose, Matrix.transpose_map]
  congr 2
  rw [add_comm]

/-- **`JaohT[k]` is the first-order perturbation of the eigenvalue.**  For column `k` of the factor
    with `T[:, k] = vec_c(ΔH)`, ANY first-order identification of `H + ε·ΔH` extending the recorded
    factors (singular triples `b < n`, `Õ`, `W̃`, `Ã = W̃·Õ↑ᵀ·Õ↓`, eigen-triple `(λ̃, φ̃, χ̃)` of `Ã` with
    `χ₀·φ₀ ≠ 0`, value parts `lam_d[jj]`, `r_eigvt[:, jj]`, `conj(l_eigvt[:, jj])`) has
    `ε(λ̃) = JaohT[k]`, the entry the model of `SSI_poles` computes from the model's `Q1..Q3` of
    `SSI_fast` through `S4_n`, `Pnn`, `np.kron(φ, I)`, `OO`, `χ` (eqs 43, 44, 49). -/
theorem C17_lambda_first_order (ι : R →+* K) (H dH T U V : Mat R) (l r p N n : Nat)
    (sq sig rs : Nat → R) (Ki : Nat → Mat R) (k : Nat) (hk : k < T.c)
    (hcol : ∀ m, m < dH.c * dH.r → T.e m k = vecC dH m)
    (hHr : H.r = dH.r) (hHc : H.c = dH.c) (hr : dH.r = (p + 1) * l) (hc : dH.c = (p + 1) * r)
    (h0 : 0 < dH.c) (h2 : (2 : R) ≠ 0) (hn : n ≤ N) (hUr : U.r = dH.r)
    (ud vd : Nat → Nat → DualNumber R) (sd s : Nat → DualNumber R)
    (hsv : ∀ b, b < n → SvFirstOrder H dH (Ki b) (Unc.col U b) (Unc.col V b) (sig b) (rs b) (ud b) (vd b)
      (sd b) (s b))
    (hsq : ∀ b, b < n → (s b).fst = sq b)
    (OO : Mat R) (hOc : OO.c = n)
    (hOO : toMx n n OO.e * toMx n n (ooArg (obsOf U sq N) l n).e = 1)
    (W A : Matrix (Fin n) (Fin n) (DualNumber K)) (φ χ : Fin n → DualNumber K) (lam : DualNumber K)
    (phi chi : Nat → K) (hphi : ∀ j : Fin n, (φ j).fst = phi j.1) (hchi : ∀ j : Fin n, (χ j).fst = chi j.1) :
    let Obs := obsOf U sq N
    let Q := q1234 H T (upPart Obs l) (dnPart Obs l) l r p N U V sig rs Ki
    let Ou : Matrix (Fin (p * l)) (Fin n) (DualNumber K) := dlift ι (obsD 0 (p * l) n s ud)
    let Od : Matrix (Fin (p * l)) (Fin n) (DualNumber K) := dlift ι (obsD l (p * l) n s ud)
    W * (Ouᵀ * Ou) = 1 → A = W * (Ouᵀ * Od) →
    A *ᵥ φ = lam • φ → χ ᵥ* A = lam • χ → (χ ⬝ᵥ φ).fst ≠ 0 →
    (jaohT ι n chi phi OO
        (qiOf ι n phi lam.fst (pnQ1 n N Q.1) (pnQ23 n N Q.2.1 Q.2.2.1))).e 0 k = lam.snd := by
  intro Obs Q Ou Od hW hA hr' hl hne
  have hA1 := C17_A_first_order ι H dH T U V l r p N n sq sig rs Ki k hk hcol hHr hHc hr hc h0 h2 hn
    hUr ud vd sd s hsv hsq OO hOO W A hW hA
  have hφ : (fun j : Fin n => phi j.1) = vfst φ := by funext j; exact (hphi j).symm
  have hχ : (fun j : Fin n => chi j.1) = vfst χ := by funext j; exact (hchi j).symm
  have hφ0 : mfst A *ᵥ vfst φ = lam.fst • vfst φ := by
    have := congrArg vfst hr'
    rwa [vfst_mulVec, vfst_smul] at this
  rw [jaohT_contraction ι n chi phi lam.fst OO _ _ k hOc (by exact hk), hφ, hχ,
    C17_eig_sens A φ χ lam hr' hl hne, hA1]
  congr 2
  rw [← Matrix.mulVec_mulVec, Matrix.sub_mulVec, ← Matrix.mulVec_mulVec, hφ0, Matrix.mulVec_smul,
    Matrix.add_mulVec, Matrix.smul_mulVec, neg_smul]
  congr 1
  abel


/-- **The QR-based state matrix of `SSI_fast` (`fastA`, the model of
    `np.dot(np.linalg.inv(R[:n, :n]), S[:n, :n])`, `S = Qᵀ·O_m`) is the normal-equation solution**, over
    any commutative ring — in particular over the dual numbers, i.e. to first order. -/
theorem C17_fastA_normal_eq {S : Type} [CommRing S] {M N n : ℕ} (hn : n ≤ N) (Op Om Q Rm Rinv : Mat S)
    (hRc : Rinv.c = n) (hQr : Q.r = M)
    (hQR : toMx M N Op.e = toMx M N Q.e * toMx N N Rm.e)
    (hOrth : (toMx M N Q.e)ᵀ * toMx M N Q.e = 1)
    (hTri : ∀ i j, j < i → Rm.e i j = 0)
    (hRinv : toMx n n Rinv.e * toMx n n Rm.e = 1) :
    let W := toMx n n Rinv.e * (toMx n n Rinv.e)ᵀ
    W * ((toMx M n Op.e)ᵀ * toMx M n Op.e) = 1 ∧
    toMx n n (fastA Rinv Q Om n).e = W * ((toMx M n Op.e)ᵀ * toMx M n Om.e) :=
  fastA_normal hn Op Om Q Rm Rinv hRc hQr hQR hOrth hTri hRinv

/-- **`C17_lambda_first_order` with the state matrix as `SSI_fast` computes it.**  The first-order
    state matrix is `fastA` run over the dual numbers on ANY first-order QR factorisation of the
    first-order `O↑` (all `ordmax` columns; `Q̃ᵀQ̃ = 1`, `R̃` upper triangular, `R̃inv·R̃[:n,:n] = 1`) whose
    first `n` columns are `Õ↑`, `Õ↓` of the first-order singular triples. -/
theorem C17_lambda_first_order_qr (ι : R →+* K) (H dH T U V : Mat R) (l r p N n : Nat)
    (sq sig rs : Nat → R) (Ki : Nat → Mat R) (k : Nat) (hk : k < T.c)
    (hcol : ∀ m, m < dH.c * dH.r → T.e m k = vecC dH m)
    (hHr : H.r = dH.r) (hHc : H.c = dH.c) (hr : dH.r = (p + 1) * l) (hc : dH.c = (p + 1) * r)
    (h0 : 0 < dH.c) (h2 : (2 : R) ≠ 0) (hn : n ≤ N) (hUr : U.r = dH.r)
    (ud vd : Nat → Nat → DualNumber R) (sd s : Nat → DualNumber R)
    (hsv : ∀ b, b < n → SvFirstOrder H dH (Ki b) (Unc.col U b) (Unc.col V b) (sig b) (rs b) (ud b)
      (vd b) (sd b) (s b))
    (hsq : ∀ b, b < n → (s b).fst = sq b)
    (OO : Mat R) (hOc : OO.c = n)
    (hOO : toMx n n OO.e * toMx n n (ooArg (obsOf U sq N) l n).e = 1)
    (Opd Omd Qd Rd Rinvd : Mat (DualNumber K)) (hRc : Rinvd.c = n) (hQr : Qd.r = p * l)
    (hOpd : toMx (p * l) n Opd.e = dlift ι (obsD 0 (p * l) n s ud))
    (hOmd : toMx (p * l) n Omd.e = dlift ι (obsD l (p * l) n s ud))
    (hQR : toMx (p * l) N Opd.e = toMx (p * l) N Qd.e * toMx N N Rd.e)
    (hOrth : (toMx (p * l) N Qd.e)ᵀ * toMx (p * l) N Qd.e = 1)
    (hTri : ∀ i j, j < i → Rd.e i j = 0)
    (hRinv : toMx n n Rinvd.e * toMx n n Rd.e = 1)
    (φ χ : Fin n → DualNumber K) (lam : DualNumber K) (phi chi : Nat → K)
    (hphi : ∀ j : Fin n, (φ j).fst = phi j.1) (hchi : ∀ j : Fin n, (χ j).fst = chi j.1)
    (hev : toMx n n (fastA Rinvd Qd Omd n).e *ᵥ φ = lam • φ)
    (hlv : χ ᵥ* toMx n n (fastA Rinvd Qd Omd n).e = lam • χ) (hne : (χ ⬝ᵥ φ).fst ≠ 0) :
    let Obs := obsOf U sq N
    let Q := q1234 H T (upPart Obs l) (dnPart Obs l) l r p N U V sig rs Ki
    (jaohT ι n chi phi OO
        (qiOf ι n phi lam.fst (pnQ1 n N Q.1) (pnQ23 n N Q.2.1 Q.2.2.1))).e 0 k = lam.snd := by
  intro Obs Q
  obtain ⟨hW, hA⟩ := fastA_normal hn Opd Omd Qd Rd Rinvd hRc hQr hQR hOrth hTri hRinv
  rw [hOpd] at hW
  rw [hOpd, hOmd] at hA
  exact C17_lambda_first_order ι H dH T U V l r p N n sq sig rs Ki k hk hcol hHr hHc hr hc h0 h2 hn
    hUr ud vd sd s hsv hsq OO hOc hOO _ _ φ χ lam phi chi hphi hchi hW hA hev hlv hne

/-- `C17_lambda_first_order` on the bundled contract `FirstOrderIdent`. -/
theorem C17_lambda_first_order_bundled (ι : R →+* K) (H dH T U V : Mat R) (l r p N n : Nat)
    (sq sig rs : Nat → R) (Ki : Nat → Mat R) (OO : Mat R) (phi chi : Nat → K) (k : Nat)
    (lam : DualNumber K)
    (h : FirstOrderIdent ι H dH T U V l r p N n sq sig rs Ki OO phi chi k lam) :
    let Obs := obsOf U sq N
    let Q := q1234 H T (upPart Obs l) (dnPart Obs l) l r p N U V sig rs Ki
    (jaohT ι n chi phi OO
        (qiOf ι n phi lam.fst (pnQ1 n N Q.1) (pnQ23 n N Q.2.1 Q.2.2.1))).e 0 k = lam.snd := by
  obtain ⟨ud, vd, sd, s, W, A, φ, χ, hsv, hsq, hphi, hchi, hW, hA, hev, hlv, hne⟩ := h.ident
  exact C17_lambda_first_order ι H dH T U V l r p N n sq sig rs Ki k h.hk h.hcol h.hHr h.hHc h.hr h.hc
    h.h0 h.h2 h.hn h.hUr ud vd sd s hsv hsq OO h.hOc h.hOO W A φ χ lam phi chi hphi hchi hW hA hev
    hlv hne

/-- **The scaling direction.**  If column `k` of the factor is `vec_c(H)` itself (`ΔH = H`), the recorded
    factors satisfy their value-level contracts (`SvExact` for `b < n`, exact `OO`) and
    `(lam0, phi, chi)` is an exact eigen-triple of `A₀ = OO·O↑ₙᵀ·O↓ₙ`, then the first-order identification
    exists explicitly (`ũ = u`, `ṽ = v`, `σ̃ = σ(1 + ε)`, `s̃ = √σ(1 + ε/2)`, `W̃ = OO(1 − ε)`, `Ã = A₀`,
    `λ̃ = lam0`): `FirstOrderIdent` holds for every order `n` — and therefore
    (`C17_lambda_first_order_bundled`) the model's `JaohT[k]` is `0`: scaling the Hankel matrix does
    not move the eigenvalues. -/
theorem C17_scaling_direction (ι : R →+* K) (H T U V : Mat R) (l r p N n : Nat)
    (sq sig rs : Nat → R) (Ki : Nat → Mat R) (OO : Mat R) (phi chi : Nat → K) (lam0 : K) (k : Nat)
    (hk : k < T.c) (hcol : ∀ m, m < H.c * H.r → T.e m k = vecC H m)
    (hr : H.r = (p + 1) * l) (hc : H.c = (p + 1) * r) (h0 : 0 < H.c) (h2 : (2 : R) ≠ 0)
    (hn : n ≤ N) (hUr : U.r = H.r)
    (hsv : ∀ b, b < n → SvExact H (Ki b) (Unc.col U b) (Unc.col V b) (sig b) (rs b) (sq b))
    (hOc : OO.c = n) (hOO : toMx n n OO.e * toMx n n (ooArg (obsOf U sq N) l n).e = 1)
    (hr' : ((toMx n n OO.e * ((toMx (p * l) n (upPart (obsOf U sq N) l).e)ᵀ
              * toMx (p * l) n (dnPart (obsOf U sq N) l).e)).map ι) *ᵥ (fun j : Fin n => phi j.1)
            = lam0 • fun j : Fin n => phi j.1)
    (hl' : (fun j : Fin n => chi j.1) ᵥ* ((toMx n n OO.e * ((toMx (p * l) n
              (upPart (obsOf U sq N) l).e)ᵀ * toMx (p * l) n (dnPart (obsOf U sq N) l).e)).map ι)
            = lam0 • fun j : Fin n => chi j.1)
    (hne : (fun j : Fin n => chi j.1) ⬝ᵥ (fun j : Fin n => phi j.1) ≠ 0) :
    FirstOrderIdent ι H H T U V l r p N n sq sig rs Ki OO phi chi k (inl lam0) ∧
    (jaohT ι n chi phi OO (qiOf ι n phi lam0
      (pnQ1 n N (q1234 H T (upPart (obsOf U sq N) l) (dnPart (obsOf U sq N) l) l r p N U V sig rs Ki).1)
      (pnQ23 n N
        (q1234 H T (upPart (obsOf U sq N) l) (dnPart (obsOf U sq N) l) l r p N U V sig rs Ki).2.1
        (q1234 H T (upPart (obsOf U sq N) l) (dnPart (obsOf U sq N) l) l r p N U V sig rs
          Ki).2.2.1))).e 0 k = 0 := by
  set ud : Nat → Nat → DualNumber R := fun b i => inl (Unc.col U b i) with hud
  set vd : Nat → Nat → DualNumber R := fun b j => inl (Unc.col V b j) with hvd
  set sd : Nat → DualNumber R := fun b => inl (sig b) + inr (sig b) with hsd
  set s : Nat → DualNumber R := fun b => inl (sq b) + inr (sq b / 2) with hs
  have hsvd : ∀ b, b < n → SvFirstOrder H H (Ki b) (Unc.col U b) (Unc.col V b) (sig b) (rs b) (ud b)
      (vd b) (sd b) (s b) := fun b hb => (hsv b hb).scaling h2
  have hsq : ∀ b, b < n → (s b).fst = sq b := fun b _ => by simp [hs]
  -- the first-order observability blocks are `(1 + ε/2)·O₀`
  have hhalf : ∀ off, msnd (obsD off (p * l) n s ud) = (1 / 2 : R) • mfst (obsD off (p * l) n s ud) := by
    intro off
    ext t b
    simp [msnd, mfst, obsD, hs, hud]
    ring
  set c : K := ι (1 / 2) with hc'
  have hcc : c + c = 1 := by
    rw [hc', ← map_add, show (1 / 2 : R) + 1 / 2 = 1 by field_simp; ring]
    exact map_one ι
  set O0 : Matrix (Fin (p * l)) (Fin n) K := (mfst (obsD 0 (p * l) n s ud)).map ι with hO0
  set D0 : Matrix (Fin (p * l)) (Fin n) K := (mfst (obsD l (p * l) n s ud)).map ι with hD0
  have hmu : mfst (dlift ι (obsD 0 (p * l) n s ud)) = O0 := mfst_dlift _ _
  have hmd : mfst (dlift ι (obsD l (p * l) n s ud)) = D0 := mfst_dlift _ _
  have hsu : msnd (dlift ι (obsD 0 (p * l) n s ud)) = c • O0 := by
    rw [msnd_dlift, hhalf]; ext t b; simp [hO0, hc']
  have hsd' : msnd (dlift ι (obsD l (p * l) n s ud)) = c • D0 := by
    rw [msnd_dlift, hhalf]; ext t b; simp [hD0, hc']
  set W0 : Matrix (Fin n) (Fin n) K := (toMx n n OO.e).map ι with hW0
  have hoo := C17_ooArg_value H U l p N n sq hr hUr ud s
    (fun b hb i hi => (hsvd b hb).u_fst i hi) hsq
  have hWM : W0 * (O0ᵀ * O0) = 1 := by
    rw [hW0, hO0, ← Matrix.transpose_map, ← Matrix.map_mul, ← hoo, ← Matrix.map_mul, hOO,
      Matrix.map_one ι (map_zero ι) (map_one ι)]
  have hup : toMx (p * l) n (upPart (obsOf U sq N) l).e = mfst (obsD 0 (p * l) n s ud) := by
    ext t b
    simp [toMx, upPart, rowSlice, obsOf, mfst, obsD, hs, hud, Unc.col]
    ring
  have hdn : toMx (p * l) n (dnPart (obsOf U sq N) l).e = mfst (obsD l (p * l) n s ud) := by
    ext t b
    simp [toMx, dnPart, rowSlice, obsOf, mfst, obsD, hs, hud, Unc.col]
    ring
  set W : Matrix (Fin n) (Fin n) (DualNumber K) := dmat W0 (-W0) with hWd
  set A := W * ((dlift ι (obsD 0 (p * l) n s ud))ᵀ * dlift ι (obsD l (p * l) n s ud)) with hA
  have hW : W * ((dlift ι (obsD 0 (p * l) n s ud))ᵀ * dlift ι (obsD 0 (p * l) n s ud)) = 1 := by
    apply dual_mat_ext
    · rw [mfst_mul, mfst_mul, mfst_transpose, hmu, mfst_dmat, mfst_one, hWM]
    · rw [msnd_mul, mfst_mul, msnd_mul, mfst_transpose, msnd_transpose, hmu, hsu, mfst_dmat,
        msnd_dmat, msnd_one, Matrix.transpose_smul, Matrix.mul_smul, Matrix.smul_mul, ← add_smul,
        hcc, one_smul, Matrix.neg_mul, add_neg_cancel]
  have hA0 : mfst A = W0 * (O0ᵀ * D0) := by
    rw [hA, mfst_mul, mfst_mul, mfst_transpose, hmu, hmd, mfst_dmat]
  have hA1 : msnd A = 0 := by
    rw [hA, msnd_mul, mfst_mul, msnd_mul, mfst_transpose, msnd_transpose, hmu, hmd, hsu, hsd',
      mfst_dmat, msnd_dmat, Matrix.transpose_smul, Matrix.mul_smul, Matrix.smul_mul, ← add_smul,
      hcc, one_smul, Matrix.neg_mul, add_neg_cancel]
  have hAeq : (toMx n n OO.e * ((toMx (p * l) n (upPart (obsOf U sq N) l).e)ᵀ
      * toMx (p * l) n (dnPart (obsOf U sq N) l).e)).map ι = mfst A := by
    rw [hA0, hup, hdn, Matrix.map_mul, Matrix.map_mul, Matrix.transpose_map]
  rw [hAeq] at hr' hl'
  have hident : FirstOrderIdent ι H H T U V l r p N n sq sig rs Ki OO phi chi k (inl lam0) := by
    refine ⟨hk, hcol, rfl, rfl, hr, hc, h0, h2, hn, hUr, hOc, hOO, ud, vd, sd, s, W, A,
      fun j => inl (phi j.1), fun j => inl (chi j.1), hsvd, hsq, fun _ => rfl, fun _ => rfl, hW, hA,
      ?_, ?_, ?_⟩
    · apply dual_vec_ext
      · rw [vfst_mulVec, vfst_smul]; exact hr'
      · rw [vsnd_mulVec, vsnd_smul, hA1]
        have e : vsnd (fun j : Fin n => (inl (phi j.1) : DualNumber K)) = 0 := by
          ext j; simp [vsnd]
        rw [e]; simp
    · apply dual_vec_ext
      · rw [vfst_vecMul, vfst_smul]; exact hl'
      · rw [vsnd_vecMul, vsnd_smul, hA1]
        have e : vsnd (fun j : Fin n => (inl (chi j.1) : DualNumber K)) = 0 := by
          ext j; simp [vsnd]
        rw [e]; simp
    · rw [fst_dotProduct]; exact hne
  refine ⟨hident, ?_⟩
  have := C17_lambda_first_order_bundled ι H H T U V l r p N n sq sig rs Ki OO phi chi k (inl lam0)
    hident
  simpa using this


end Main

/-! ## 3. The reported variance is the sum of squared directional derivatives -/

/-- **`Fn_cov[jj, n] = Σ_k (D_k fn)²`.**  Model of one pass of the uncertainty loop of `SSI_poles`
    (`poleVar`: `S4_n`, `Pnn`, eq. 44, eq. 43, `Ufx = Jfx_l·[Re; Im]`, `cov_fx[0, 0]`) on the model's
    `Q1..Q3` of `SSI_fast`, with `Jfx_l` evaluated at `lam_d[jj] = lam0` (`jfxAt`: exact `np.pi`, `np.abs`,
    `np.log`).  If for every column `k` of the factor there is a first-order identification of
    `H + ε·unvec(T[:, k])` extending the recorded factors (`FirstOrderIdent`) with eigenvalue
    `λ̃_k = lam0 + ε·ε_k(λ)`, and `lam0` is off the branch cut of `log` with `log(lam0) ≠ 0`, then the
    model's `cov_fx[0, 0]` — and its `abs`, which `SSI_poles` stores — is
    `Σ_k (D_k fn)²`, `D_k fn = d(fn)(Re ε_k(λ), Im ε_k(λ))` the derivative (first component of the Fréchet
    derivative of `(Re λ, Im λ) ↦ (|log λ|/(2π·dt), 100·ξ)`, `C17_fx_jacobian`) along the first-order
    eigenvalue perturbation. -/
theorem C17_variance_is_sum_of_squares (dt : ℝ) (H T U V : Mat ℝ) (dH : Nat → Mat ℝ)
    (l r p N n : Nat) (sq sig rs : Nat → ℝ) (Ki : Nat → Mat ℝ) (OO : Mat ℝ) (phi chi : Nat → ℂ)
    (lam0 : ℂ) (lam : Nat → DualNumber ℂ)
    (hid : ∀ k, k < T.c → FirstOrderIdent Complex.ofRealHom H (dH k) T U V l r p N n sq sig rs Ki OO
      phi chi k (lam k))
    (hl0 : ∀ k, k < T.c → (lam k).fst = lam0)
    (hs : lam0 ∈ Complex.slitPlane) (hμ : lamC dt ![lam0.re, lam0.im] ≠ 0) :
    let Obs := obsOf U sq N
    let Q := q1234 H T (upPart Obs l) (dnPart Obs l) l r p N U V sig rs Ki
    let q : Fin 2 → ℝ := ![lam0.re, lam0.im]
    let v := poleVar Complex.ofRealHom Complex.re Complex.im n N Q.1 Q.2.1 Q.2.2.1 OO lam0 chi phi
      (jfxAt dt q)
    v = ∑ k ∈ range T.c, (fderiv ℝ (fxMap dt) q ![(lam k).snd.re, (lam k).snd.im] 0) ^ 2 ∧
    |v| = ∑ k ∈ range T.c, (fderiv ℝ (fxMap dt) q ![(lam k).snd.re, (lam k).snd.im] 0) ^ 2 := by
  intro Obs Q q v
  have hq : ((q 0 : ℂ) + (q 1 : ℂ) * Complex.I) = lam0 := by
    simp [q, Complex.re_add_im]
  have hD := (C17_fx_jacobian dt q (by rw [hq]; exact hs) hμ).fderiv
  have hv : v = ∑ k ∈ range T.c,
      (fderiv ℝ (fxMap dt) q ![(lam k).snd.re, (lam k).snd.im] 0) ^ 2 := by
    show poleVar _ _ _ _ _ _ _ _ _ _ _ _ _ = _
    unfold poleVar
    rw [var00_ufxOf Complex.re Complex.im (jfxAt dt q) _ rfl (by show 0 < 2; decide) rfl]
    show ∑ k ∈ range T.c, _ = _
    refine Finset.sum_congr rfl fun k hk => ?_
    have hk' := mem_range.mp hk
    have hj := C17_lambda_first_order_bundled Complex.ofRealHom H (dH k) T U V l r p N n sq sig rs Ki
      OO phi chi k (lam k) (hid k hk')
    rw [hl0 k hk'] at hj
    simp only at hj
    rw [hj, hD]
    simp [toMx, Matrix.mulVec, dotProduct, Fin.sum_univ_two]
    ring
  refine ⟨hv, ?_⟩
  rw [hv]
  exact abs_of_nonneg (Finset.sum_nonneg fun k _ => sq_nonneg _)

/-! ## Non-vacuity -/

namespace ExVec
section Data
variable (R : Type) [Field R]
/-- `H = 4·u·vᵀ + 1·u₂·v₂ᵀ`, `u = v = (3/5, 4/5)`, `u₂ = v₂ = (−4/5, 3/5)` (one channel, one block row) -/
def H : Mat R := ⟨2, 2, fun i j =>
  if i = 0 then (if j = 0 then 52 / 25 else 36 / 25) else (if j = 0 then 36 / 25 else 73 / 25)⟩
def dH : Mat R := ⟨2, 2, fun i j => if i = 0 then (if j = 0 then 1 else 2) else (if j = 0 then 3 else 4)⟩
/-- one-column factor `T = vec_c(ΔH)` -/
def T : Mat R := ⟨4, 1, fun m _ => vecC (dH R) m⟩
/-- `Uom = Vom = (3/5, 4/5)ᵀ` (`ordmax = 1`) -/
def U : Mat R := ⟨2, 1, fun i _ => if i = 0 then 3 / 5 else 4 / 5⟩
/-- the inverse of eq. 28 for `σ = 4` -/
def Ki : Mat R := ⟨2, 2, fun i j =>
  if i = 0 then (if j = 0 then 31 / 24 else 3 / 10) else (if j = 0 then -1 / 2 else 2 / 5)⟩
/-- `OO = inv(O↑ᵀO↑)`, `O↑ = (6/5)` -/
def OO : Mat R := ⟨1, 1, fun _ _ => 25 / 36⟩
end Data

section Inst
set_option linter.unusedSectionVars false
variable {R K : Type} [Field R] [CharZero R] [Inhabited R] [Field K]

theorem sv_value :
    toMx 2 2 (H R).e *ᵥ (fun j : Fin 2 => Unc.col (U R) 0 j.1)
      = (4 : R) • (fun i : Fin 2 => Unc.col (U R) 0 i.1) ∧
    (fun i : Fin 2 => Unc.col (U R) 0 i.1) ᵥ* toMx 2 2 (H R).e
      = (4 : R) • (fun j : Fin 2 => Unc.col (U R) 0 j.1) ∧
    (fun i : Fin 2 => Unc.col (U R) 0 i.1) ⬝ᵥ (fun i : Fin 2 => Unc.col (U R) 0 i.1) = 1 := by
  refine ⟨?_, ?_, ?_⟩
  · ext i; fin_cases i <;>
      simp [toMx, H, U, Unc.col, Matrix.mulVec, dotProduct, Fin.sum_univ_two] <;> norm_num
  · ext i; fin_cases i <;>
      simp [toMx, H, U, Unc.col, Matrix.vecMul, dotProduct, Fin.sum_univ_two] <;> norm_num
  · simp [U, Unc.col, dotProduct, Fin.sum_univ_two]; norm_num

theorem ki_inv :
    toMx 2 2 (Ki R).e * toMx 2 2 (kiArg (H R) 2 (Unc.col (U R) 0) 4).e = 1 := by
  rw [C17_kiArg_bridge (H R) 2 (Unc.col (U R) 0) 4 rfl (by decide)]
  show toMx 2 2 (Ki R).e * svKarg (toMx 2 2 (H R).e) (fun j : Fin 2 => Unc.col (U R) 0 j.1) 4
    (lastIx 2 (by decide)) = 1
  ext i j
  fin_cases i <;> fin_cases j <;>
    simp [svKarg, rowAt, Matrix.mul_apply, Fin.sum_univ_two, lastIx, toMx, H, U, Ki, Unc.col] <;>
    norm_num [Matrix.mul_apply, Fin.sum_univ_two, toMx, Matrix.transpose_apply]

/-- **The contracts are satisfiable** (any characteristic-0 fields `R →+* K`; order `n = ordmax = 1`,
    one channel, one block row): the recorded triple `(u, 4, v)` of `H`, `Ki` the exact inverse of
    eq. 28, `√σ = 2`, `OO = 25/36`; the first-order triple comes from `C17_sv_sens_exists`, the
    first-order inverse from `C17_first_order_inverse_exists`; `A` is `1 × 1`, so `φ = χ = (1)`,
    `λ̃ = Ã₀₀`, and `λ₀ = 4/3`. -/
theorem ident (ι : R →+* K) :
    ∃ lam : DualNumber K,
      FirstOrderIdent ι (H R) (dH R) (T R) (U R) (U R) 1 1 1 1 1 (fun _ => 2) (fun _ => 4)
        (fun _ => 1 / 2) (fun _ => Ki R) (OO R) (fun _ => 1) (fun _ => 1) 0 lam ∧
      lam.fst = ι (4 / 3) := by
  obtain ⟨h1, h2, h3⟩ := sv_value (R := R)
  have hK := ki_inv (R := R)
  have hK' := hK
  rw [C17_kiArg_bridge (H R) 2 (Unc.col (U R) 0) 4 rfl (by decide)] at hK'
  obtain ⟨a, b, c, d⟩ := C17_sv_sens_exists (toMx 2 2 (H R).e) (toMx 2 2 (dH R).e)
    (fun i : Fin 2 => Unc.col (U R) 0 i.1) (fun j : Fin 2 => Unc.col (U R) 0 j.1) 4
    (lastIx 2 (by decide)) (toMx 2 2 (Ki R).e) (by norm_num : (4 : R) ≠ 0) h1 h2 h3 h3 hK'
  -- the first-order triple, indexed by ℕ
  set ud0 := dvec (fun i : Fin 2 => Unc.col (U R) 0 i.1)
    (svDu (toMx 2 2 (H R).e) (fun i : Fin 2 => Unc.col (U R) 0 i.1)
      (fun j : Fin 2 => Unc.col (U R) 0 j.1) 4 (lastIx 2 (by decide)) (toMx 2 2 (Ki R).e)
      (toMx 2 2 (dH R).e)) with hud0
  set vd0 := dvec (fun j : Fin 2 => Unc.col (U R) 0 j.1)
    (svDv (toMx 2 2 (H R).e) (fun i : Fin 2 => Unc.col (U R) 0 i.1)
      (fun j : Fin 2 => Unc.col (U R) 0 j.1) 4 (lastIx 2 (by decide)) (toMx 2 2 (Ki R).e)
      (toMx 2 2 (dH R).e)) with hvd0
  set dσ := svDsig (fun i : Fin 2 => Unc.col (U R) 0 i.1) (fun j : Fin 2 => Unc.col (U R) 0 j.1)
    (toMx 2 2 (dH R).e) with hdσ
  let ud : Nat → Nat → DualNumber R := fun _ i => if h : i < 2 then ud0 ⟨i, h⟩ else 0
  let vd : Nat → Nat → DualNumber R := fun _ i => if h : i < 2 then vd0 ⟨i, h⟩ else 0
  let sd : Nat → DualNumber R := fun _ => inl 4 + inr dσ
  let s : Nat → DualNumber R := fun _ => inl 2 + inr (dσ / 4)
  have eu : (fun i : Fin (dH R).r => ud 0 i.1) = ud0 := by
    funext i; exact dif_pos (show i.1 < 2 from i.2)
  have ev : (fun j : Fin (dH R).c => vd 0 j.1) = vd0 := by
    funext j; exact dif_pos (show j.1 < 2 from j.2)
  have hsv : ∀ b, b < 1 → SvFirstOrder (H R) (dH R) (Ki R) (Unc.col (U R) b) (Unc.col (U R) b) 4
      (1 / 2) (ud b) (vd b) (sd b) (s b) := by
    intro b hb
    obtain rfl : b = 0 := by omega
    refine ⟨by norm_num, rfl, hK, ?_, ?_, by simp [sd], ?_, ?_, ?_, ?_, ?_, by simp [s]⟩
    · intro i hi
      have hi' : i < 2 := hi
      show (if h : i < 2 then ud0 ⟨i, h⟩ else 0).fst = _
      rw [dif_pos hi']
      simp [ud0, dvec]
    · intro j hj
      have hj' : j < 2 := hj
      show (if h : j < 2 then vd0 ⟨j, h⟩ else 0).fst = _
      rw [dif_pos hj']
      simp [vd0, dvec]
    · rw [eu, ev]; exact a
    · rw [eu, ev]; exact b
    · rw [eu]; exact c
    · rw [ev]; exact d
    · apply TrivSqZeroExt.ext
      · simp [s, sd]; norm_num
      · simp [s, sd]; ring
  have hsq : ∀ b, b < 1 → (s b).fst = (fun _ : Nat => (2 : R)) b := by
    intro b _; simp [s]
  have hOO : toMx 1 1 (OO R).e * toMx 1 1 (ooArg (obsOf (U R) (fun _ => (2 : R)) 1) 1 1).e = 1 := by
    ext i j
    have hi : i = 0 := Subsingleton.elim _ _
    have hj : j = 0 := Subsingleton.elim _ _
    subst hi hj
    simp [toMx, OO, ooArg, obsOf, Mat.mul, Mat.transpose, U, sumTo, Matrix.mul_apply]
    norm_num
  obtain ⟨W, hW, hW0⟩ := C17_first_order_inverse_exists ι (dH R) (U R) 1 1 1 1 (fun _ => 2) rfl rfl
    ud s (fun b hb i hi => (hsv b hb).u_fst i hi) hsq (OO R) hOO
  set A := W * ((dlift ι (obsD 0 (1 * 1) 1 s ud))ᵀ * dlift ι (obsD 1 (1 * 1) 1 s ud)) with hA
  refine ⟨A 0 0, ⟨Nat.one_pos, fun m _ => rfl, rfl, rfl, rfl, rfl, Nat.two_pos, two_ne_zero, le_refl _, rfl,
    rfl, hOO, ud, vd, sd, s, W, A, fun _ => 1, fun _ => 1, hsv, hsq, fun _ => by simp,
    fun _ => by simp, hW, hA, ?_, ?_, ?_⟩, ?_⟩
  · ext i
    · have hi : i = 0 := Subsingleton.elim _ _
      subst hi
      simp [Matrix.mulVec, dotProduct]
    · have hi : i = 0 := Subsingleton.elim _ _
      subst hi
      simp [Matrix.mulVec, dotProduct]
  · ext i
    · have hi : i = 0 := Subsingleton.elim _ _
      subst hi
      simp [Matrix.vecMul, dotProduct]
    · have hi : i = 0 := Subsingleton.elim _ _
      subst hi
      simp [Matrix.vecMul, dotProduct]
  · simp [dotProduct]
  · have h0 : (A 0 0).fst = mfst A 0 0 := rfl
    rw [h0, hA, mfst_mul, mfst_mul, mfst_transpose, mfst_dlift, mfst_dlift, hW0,
      ← Matrix.transpose_map, ← Matrix.map_mul, ← Matrix.map_mul, Matrix.map_apply]
    congr 1
    have hu0 : (ud 0 0).fst = 3 / 5 := by
      rw [(hsv 0 Nat.one_pos).u_fst 0 Nat.two_pos]; simp [Unc.col, U]
    have hu1 : (ud 0 1).fst = 4 / 5 := by
      rw [(hsv 0 Nat.one_pos).u_fst 1 (by show 1 < 2; decide)]; simp [Unc.col, U]
    rw [Matrix.mul_apply, Fin.sum_univ_one, Matrix.mul_apply]
    show (toMx 1 1 (OO R).e) 0 0 * ∑ t : Fin 1, _ = _
    rw [Fin.sum_univ_one]
    simp only [toMx, OO, Matrix.transpose_apply, mfst, Matrix.map_apply, obsD, fst_mul, s]
    simp
    rw [hu0, hu1]
    norm_num

end Inst
end ExVec

/-! ### small instances of the vec / Kronecker / selection identities -/

/-- `A` is `2×3`, `X` is `3×2`, `B` is `2×2` (shape hypotheses of `C17_vec_AXB`), and the common value
    of both sides at `m = 3` is non-trivial. -/
example :
    let A : Mat Rat := ⟨2, 3, fun i j => (i + 2 * j + 1 : Nat)⟩
    let X : Mat Rat := ⟨3, 2, fun i j => (3 * i + j : Nat)⟩
    let B : Mat Rat := ⟨2, 2, fun i j => (i * j + 1 : Nat)⟩
    X.r = A.c ∧ X.c = B.r ∧ mulVec (kron (transpose B) A) (vecC X) 3 = 168 ∧
      vecC (mul (mul A X) B) 3 = 168 := by
  decide +kernel

/-- `Pnn` for `n = 2` swaps the two middle entries of `vec`: `Pnn·vec([[1,2],[3,4]]) = vec` of the
    transpose; the index hypotheses of `C17_pnn_commutation` / `C17_selections` are satisfiable. -/
example :
    let X : Mat Rat := ⟨2, 2, fun i j => (2 * i + j + 1 : Nat)⟩
    X.r = 2 ∧ X.c = 2 ∧ (1 : Nat) < 2 * 2 ∧ mulVec (pnn 2) (vecC X) 1 = 2 ∧ vecC X 1 = 3 ∧
      (mul (s4n 1 2) (⟨4, 1, fun t _ => (t + 5 : Nat)⟩ : Mat Rat)).e (0 * 1 + 0) 0 = 5 ∧
      (mul (hstack2 (zeros 2 1) (eye 2)) (⟨3, 1, fun t _ => (t + 5 : Nat)⟩ : Mat Rat)).e 1 0 = 7 := by
  decide +kernel

/-- shape hypotheses of `C17_q123_entries` on the data of `ExVec` (`O_p = Obs[:−1]`, `O_m = Obs[1:]`,
    `Obs = Uom·diag(2)`), and a non-trivial entry: `Q3[0, 0] = 222/125 = 1.776` (the value the real
    code returns for this input). -/
example :
    let Obs := obsOf (ExVec.U ℚ) (fun _ => 2) 1
    (upPart Obs 1).r = 1 * 1 ∧ (upPart Obs 1).c = 1 ∧ (dnPart Obs 1).r = 1 * 1 ∧
      (dnPart Obs 1).c = 1 ∧ (0 : Nat) < (ExVec.T ℚ).c ∧
      (q1234 (ExVec.H ℚ) (ExVec.T ℚ) (upPart Obs 1) (dnPart Obs 1) 1 1 1 1 (ExVec.U ℚ) (ExVec.U ℚ)
        (fun _ => 4) (fun _ => 1 / 2) (fun _ => ExVec.Ki ℚ)).2.2.1.e (0 * 1 + 0) 0 = 222 / 125 := by
  decide +kernel

/-! ### the first-order identification -/

/-- over `ℚ` (`ι = id`): the bundled contract holds and the conclusion of
    `C17_lambda_first_order_bundled` is a non-trivial number: `λ̃ = 4/3 + (26/27)·ε` (the central finite
    difference of the real code on this input gives `0.96296…`). -/
example : ∃ lam : DualNumber ℚ,
    FirstOrderIdent (RingHom.id ℚ) (ExVec.H ℚ) (ExVec.dH ℚ) (ExVec.T ℚ) (ExVec.U ℚ) (ExVec.U ℚ) 1 1 1 1 1
      (fun _ => 2) (fun _ => 4) (fun _ => 1 / 2) (fun _ => ExVec.Ki ℚ) (ExVec.OO ℚ) (fun _ => 1)
      (fun _ => 1) 0 lam ∧ lam.fst = 4 / 3 ∧ lam.snd = 26 / 27 := by
  obtain ⟨lam, h, h0⟩ := ExVec.ident (RingHom.id ℚ)
  refine ⟨lam, h, h0, ?_⟩
  have := C17_lambda_first_order_bundled _ _ _ _ _ _ _ _ _ _ _ _ _ _ _ _ _ _ _ _ h
  simp only [h0, RingHom.id_apply] at this
  rw [← this]
  decide +kernel

/-- `C17_johT_contract`, `C17_ooArg_value` apply to the unpacked instance. -/
example : ∃ (x : DualNumber ℚ),
    (johT (ExVec.H ℚ) (ExVec.T ℚ) (ExVec.dH ℚ).r (ExVec.dH ℚ).c (Unc.col (ExVec.U ℚ) 0)
      (Unc.col (ExVec.U ℚ) 0) 4 (1 / 2) (ExVec.Ki ℚ)).e 0 0 = x.snd := by
  obtain ⟨lam, h, _⟩ := ExVec.ident (RingHom.id ℚ)
  obtain ⟨ud, vd, sd, s, W, A, φ, χ, hsv, hsq, _⟩ := h.ident
  have _ := C17_ooArg_value (ExVec.dH ℚ) (ExVec.U ℚ) 1 1 1 1 (fun _ => 2) h.hr h.hUr ud s
    (fun b hb i hi => (hsv b hb).u_fst i hi) hsq
  exact ⟨_, C17_johT_contract (ExVec.H ℚ) (ExVec.dH ℚ) (ExVec.T ℚ) (ExVec.Ki ℚ) _ _ _ _ _ _ _ _
    (hsv 0 Nat.one_pos) 0 h.hk h.hcol h.hHr h.hHc h.h0 h.h2 0 Nat.two_pos⟩

/-- `C17_Q_unvec`, `C17_A_first_order`, `C17_lambda_first_order` apply to the unpacked instance
    (all their hypotheses hold simultaneously over `ℚ`). -/
example : ∃ (A : Matrix (Fin 1) (Fin 1) (DualNumber ℚ)) (lam : DualNumber ℚ),
    msnd A = (toMx 1 1 (ExVec.OO ℚ).e).map (RingHom.id ℚ) *
      (unvecK (RingHom.id ℚ) 1 (pnQ23 1 1
          (q1234 (ExVec.H ℚ) (ExVec.T ℚ) (upPart (obsOf (ExVec.U ℚ) (fun _ => 2) 1) 1)
            (dnPart (obsOf (ExVec.U ℚ) (fun _ => 2) 1) 1) 1 1 1 1 (ExVec.U ℚ) (ExVec.U ℚ)
            (fun _ => 4) (fun _ => 1 / 2) (fun _ => ExVec.Ki ℚ)).2.1
          (q1234 (ExVec.H ℚ) (ExVec.T ℚ) (upPart (obsOf (ExVec.U ℚ) (fun _ => 2) 1) 1)
            (dnPart (obsOf (ExVec.U ℚ) (fun _ => 2) 1) 1) 1 1 1 1 (ExVec.U ℚ) (ExVec.U ℚ)
            (fun _ => 4) (fun _ => 1 / 2) (fun _ => ExVec.Ki ℚ)).2.2.1) 0
        - unvecK (RingHom.id ℚ) 1 (pnQ1 1 1
          (q1234 (ExVec.H ℚ) (ExVec.T ℚ) (upPart (obsOf (ExVec.U ℚ) (fun _ => 2) 1) 1)
            (dnPart (obsOf (ExVec.U ℚ) (fun _ => 2) 1) 1) 1 1 1 1 (ExVec.U ℚ) (ExVec.U ℚ)
            (fun _ => 4) (fun _ => 1 / 2) (fun _ => ExVec.Ki ℚ)).1) 0 * mfst A) ∧
    lam.snd = 26 / 27 := by
  obtain ⟨lam, h, h0⟩ := ExVec.ident (RingHom.id ℚ)
  obtain ⟨ud, vd, sd, s, W, A, φ, χ, hsv, hsq, hphi, hchi, hW, hA, hev, hlv, hne⟩ := h.ident
  refine ⟨A, lam, ?_, ?_⟩
  · exact C17_A_first_order (RingHom.id ℚ) (ExVec.H ℚ) (ExVec.dH ℚ) (ExVec.T ℚ) (ExVec.U ℚ) (ExVec.U ℚ)
      1 1 1 1 1 (fun _ => 2) (fun _ => 4) (fun _ => 1 / 2) (fun _ => ExVec.Ki ℚ) 0 h.hk h.hcol h.hHr
      h.hHc h.hr h.hc h.h0 h.h2 h.hn h.hUr ud vd sd s hsv hsq (ExVec.OO ℚ) h.hOO W A hW hA
  · have := C17_lambda_first_order (RingHom.id ℚ) (ExVec.H ℚ) (ExVec.dH ℚ) (ExVec.T ℚ) (ExVec.U ℚ)
      (ExVec.U ℚ) 1 1 1 1 1 (fun _ => 2) (fun _ => 4) (fun _ => 1 / 2) (fun _ => ExVec.Ki ℚ) 0 h.hk
      h.hcol h.hHr h.hHc h.hr h.hc h.h0 h.h2 h.hn h.hUr ud vd sd s hsv hsq (ExVec.OO ℚ) h.hOc h.hOO W A
      φ χ lam (fun _ => 1) (fun _ => 1) hphi hchi hW hA hev hlv hne
    simp only [h0, RingHom.id_apply] at this
    rw [← this]
    decide +kernel

/-- `C17_lambda_first_order_qr` applies: on the instance, `Õ↑ = (x)`, `Õ↓ = (y)` are `1 × 1`, so
    `Q̃ = (1)`, `R̃ = (x)`, `R̃inv = (W̃₀₀·x)` is an exact first-order QR factorisation, the state matrix
    is `fastA` run over `ℚ[ε]`, `φ = χ = (1)`, `λ̃ = fastA₀₀`; conclusion `ε(λ̃) = 26/27`. -/
example : ∃ (Rinvd Qd Omd : Mat (DualNumber ℚ)),
    ((fastA Rinvd Qd Omd 1).e 0 0).fst = 4 / 3 ∧ ((fastA Rinvd Qd Omd 1).e 0 0).snd = 26 / 27 := by
  obtain ⟨lam, h, h0⟩ := ExVec.ident (RingHom.id ℚ)
  obtain ⟨ud, vd, sd, s, W, A, φ, χ, hsv, hsq, hphi, hchi, hW, hA, hev, hlv, hne⟩ := h.ident
  set Ou := dlift (RingHom.id ℚ) (obsD 0 (1 * 1) 1 s ud) with hOu
  set Od := dlift (RingHom.id ℚ) (obsD 1 (1 * 1) 1 s ud) with hOd
  set x := Ou ⟨0, by decide⟩ 0 with hx
  set y := Od ⟨0, by decide⟩ 0 with hy
  have e0 : ∀ t : Fin (1 * 1), t = ⟨0, by decide⟩ := fun t => Fin.ext (by have := t.2; omega)
  have hWx : W 0 0 * (x * x) = 1 := by
    have := congrFun (congrFun hW 0) 0
    rw [Matrix.mul_apply, Fin.sum_univ_one, Matrix.mul_apply, sum_fin_one_mul] at this
    simp only [Matrix.transpose_apply] at this
    exact this
  let Opd : Mat (DualNumber ℚ) := ⟨1, 1, fun _ _ => x⟩
  let Omd : Mat (DualNumber ℚ) := ⟨1, 1, fun _ _ => y⟩
  let Qd : Mat (DualNumber ℚ) := ⟨1, 1, fun _ _ => 1⟩
  let Rd : Mat (DualNumber ℚ) := ⟨1, 1, fun i j => if j < i then 0 else x⟩
  let Rinvd : Mat (DualNumber ℚ) := ⟨1, 1, fun _ _ => W 0 0 * x⟩
  have hOpd : toMx (1 * 1) 1 Opd.e = Ou := by
    ext t b
    all_goals (rw [e0 t, Subsingleton.elim b 0]; rfl)
  have hOmd : toMx (1 * 1) 1 Omd.e = Od := by
    ext t b
    all_goals (rw [e0 t, Subsingleton.elim b 0]; rfl)
  have hQR : toMx (1 * 1) 1 Opd.e = toMx (1 * 1) 1 Qd.e * toMx 1 1 Rd.e := by
    ext t b <;> simp [toMx, Opd, Qd, Rd, Matrix.mul_apply]
  have hOrth : (toMx (1 * 1) 1 Qd.e)ᵀ * toMx (1 * 1) 1 Qd.e = 1 := by
    ext a b
    all_goals (rw [Subsingleton.elim a 0, Subsingleton.elim b 0, Matrix.mul_apply, sum_fin_one_mul])
    all_goals simp [toMx, Qd]
  have hRinv : toMx 1 1 Rinvd.e * toMx 1 1 Rd.e = 1 := by
    ext a b
    all_goals (rw [Subsingleton.elim a 0, Subsingleton.elim b 0, Matrix.mul_apply, Fin.sum_univ_one])
    all_goals simp only [toMx, Rinvd, Rd, Fin.val_zero, lt_self_iff_false, if_false, mul_assoc, hWx]
    all_goals simp
  set lam' := (fastA Rinvd Qd Omd 1).e 0 0 with hl'
  have hev' : toMx 1 1 (fastA Rinvd Qd Omd 1).e *ᵥ (fun _ : Fin 1 => (1 : DualNumber ℚ))
      = lam' • fun _ : Fin 1 => (1 : DualNumber ℚ) := by
    ext i <;> (rw [Subsingleton.elim i 0]; simp [Matrix.mulVec, dotProduct, toMx, hl'])
  have hlv' : (fun _ : Fin 1 => (1 : DualNumber ℚ)) ᵥ* toMx 1 1 (fastA Rinvd Qd Omd 1).e
      = lam' • fun _ : Fin 1 => (1 : DualNumber ℚ) := by
    ext i <;> (rw [Subsingleton.elim i 0]; simp [Matrix.vecMul, dotProduct, toMx, hl'])
  have hfst : lam'.fst = 4 / 3 := by
    have hxf : x.fst = 6 / 5 := by
      simp only [hx, hOu, dlift, dmat, obsD, fst_add, fst_inl, fst_inr, Matrix.map_apply, mfst,
        RingHom.id_apply, fst_mul]
      simp only [Fin.val_zero, add_zero]
      rw [(hsv 0 Nat.one_pos).u_fst 0 Nat.two_pos, hsq 0 Nat.one_pos]
      simp [Unc.col, ExVec.U]; norm_num
    have hyf : y.fst = 8 / 5 := by
      simp only [hy, hOd, dlift, dmat, obsD, fst_add, fst_inl, fst_inr, Matrix.map_apply, mfst,
        RingHom.id_apply, fst_mul]
      simp only [Fin.val_zero, add_zero]
      rw [(hsv 0 Nat.one_pos).u_fst 1 (by show 1 < 2; decide), hsq 0 Nat.one_pos]
      simp [Unc.col, ExVec.U]; norm_num
    have hWf : (W 0 0).fst = 25 / 36 := by
      have := congrArg TrivSqZeroExt.fst hWx
      simp only [fst_mul, hxf, fst_one] at this
      linarith
    have : lam' = W 0 0 * x * y := by
      simp [hl', fastA, Mat.mul, leadBlock, Mat.transpose, sumTo_eq, Rinvd, Qd, Omd]
    rw [this, fst_mul, fst_mul, hWf, hxf, hyf]
    norm_num
  have := C17_lambda_first_order_qr (RingHom.id ℚ) (ExVec.H ℚ) (ExVec.dH ℚ) (ExVec.T ℚ) (ExVec.U ℚ)
    (ExVec.U ℚ) 1 1 1 1 1 (fun _ => 2) (fun _ => 4) (fun _ => 1 / 2) (fun _ => ExVec.Ki ℚ) 0 h.hk
    h.hcol h.hHr h.hHc h.hr h.hc h.h0 h.h2 h.hn h.hUr ud vd sd s hsv hsq (ExVec.OO ℚ) h.hOc h.hOO
    Opd Omd Qd Rd Rinvd rfl rfl hOpd hOmd hQR hOrth (fun i j hij => by simp [Rd, hij]) hRinv
    (fun _ => 1) (fun _ => 1) lam' (fun _ => 1) (fun _ => 1) (fun _ => by simp) (fun _ => by simp)
    hev' hlv' (by simp [dotProduct])
  refine ⟨Rinvd, Qd, Omd, hfst, ?_⟩
  simp only [hfst] at this
  rw [← this]
  decide +kernel

/-- hypotheses of `C17_variance_is_sum_of_squares` over `ℝ`/`ℂ` (`dt = 1/100`, `lam0 = 4/3`: off the
    branch cut, `log(4/3) ≠ 0`), one factor column. -/
example : ∃ lam : Nat → DualNumber ℂ,
    (∀ k, k < (ExVec.T ℝ).c → FirstOrderIdent Complex.ofRealHom (ExVec.H ℝ) ((fun _ => ExVec.dH ℝ) k)
      (ExVec.T ℝ) (ExVec.U ℝ) (ExVec.U ℝ) 1 1 1 1 1 (fun _ => 2) (fun _ => 4) (fun _ => 1 / 2)
      (fun _ => ExVec.Ki ℝ) (ExVec.OO ℝ) (fun _ => 1) (fun _ => 1) k (lam k)) ∧
    (∀ k, k < (ExVec.T ℝ).c → (lam k).fst = (4 / 3 : ℂ)) ∧
    (4 / 3 : ℂ) ∈ Complex.slitPlane ∧ lamC (1 / 100) ![(4 / 3 : ℂ).re, (4 / 3 : ℂ).im] ≠ 0 := by
  obtain ⟨lam, h, h0⟩ := ExVec.ident (R := ℝ) (K := ℂ) Complex.ofRealHom
  have h43 : (Complex.ofRealHom (4 / 3 : ℝ)) = (4 / 3 : ℂ) := by simp
  have hre : (4 / 3 : ℂ).re = 4 / 3 := by
    rw [← h43]; simp
  have him : (4 / 3 : ℂ).im = 0 := by
    rw [← h43]; simp
  refine ⟨fun _ => lam, ?_, ?_, ?_, ?_⟩
  · intro k hk
    have hk' : k < 1 := hk
    obtain rfl : k = 0 := by omega
    exact h
  · intro k _
    rw [h0, h43]
  · rw [Complex.mem_slitPlane_iff]
    left; rw [hre]; norm_num
  · rw [hre, him]
    unfold lamC
    simp only [Matrix.cons_val_zero, Matrix.cons_val_one, Complex.ofReal_zero, zero_mul, add_zero]
    have hpos : (0 : ℝ) < Real.log (4 / 3) := Real.log_pos (by norm_num)
    rw [← Complex.ofReal_log (by norm_num : (0 : ℝ) ≤ 4 / 3), ← Complex.ofReal_mul]
    exact_mod_cast (mul_pos hpos (by norm_num)).ne'

/-! ### order 2: the scaling direction -/

namespace ExScale
/-- two channels, one block row (`l = 2`, `p = 1`, `r = 1`), order `n = ordmax = 2`:
    `H = 4·u₁v₁ᵀ + u₂v₂ᵀ`, `u₁ = (2,2,1,0)/3`, `u₂ = (1,−2,2,0)/3`, `v₁ = (3,4)/5`, `v₂ = (−4,3)/5`. -/
def H : Mat ℚ := ⟨4, 2, fun i j =>
  if i = 0 then (if j = 0 then 4 / 3 else 7 / 3)
  else if i = 1 then (if j = 0 then 32 / 15 else 26 / 15)
  else if i = 2 then (if j = 0 then 4 / 15 else 22 / 15) else 0⟩
def T : Mat ℚ := ⟨8, 1, fun m _ => vecC H m⟩
def U : Mat ℚ := ⟨4, 2, fun i b =>
  if b = 0 then (if i = 0 then 2 / 3 else if i = 1 then 2 / 3 else if i = 2 then 1 / 3 else 0)
  else (if i = 0 then 1 / 3 else if i = 1 then -2 / 3 else if i = 2 then 2 / 3 else 0)⟩
def V : Mat ℚ := ⟨2, 2, fun j b =>
  if b = 0 then (if j = 0 then 3 / 5 else 4 / 5) else (if j = 0 then -4 / 5 else 3 / 5)⟩
def sig : Nat → ℚ := fun b => if b = 0 then 4 else 1
def rs : Nat → ℚ := fun b => if b = 0 then 1 / 2 else 1
def sq : Nat → ℚ := fun b => if b = 0 then 2 else 1
def Ki : Nat → Mat ℚ := fun b =>
  if b = 0 then ⟨2, 2, fun i j =>
    if i = 0 then (if j = 0 then 31 / 24 else 3 / 10) else (if j = 0 then -1 / 2 else 2 / 5)⟩
  else ⟨2, 2, fun i j =>
    if i = 0 then (if j = 0 then 7 / 15 else -2 / 5) else (if j = 0 then -22 / 45 else 3 / 10)⟩
def OO : Mat ℚ := ⟨2, 2, fun i j =>
  if i = 0 then (if j = 0 then 5 / 16 else 1 / 4) else (if j = 0 then 1 / 4 else 2)⟩
def phi : Nat → ℚ := fun j => if j = 0 then 1 else 2
def chi : Nat → ℚ := fun _ => 1

theorem svExact : ∀ b, b < 2 →
    SvExact H (Ki b) (Unc.col U b) (Unc.col V b) (sig b) (rs b) (sq b) := by
  intro b hb
  interval_cases b
  · refine ⟨?_, ?_, ?_, ?_, by decide +kernel, by decide +kernel, rfl, ?_⟩
    · decide +kernel
    · decide +kernel
    · decide +kernel
    · decide +kernel
    · decide +kernel
  · refine ⟨?_, ?_, ?_, ?_, by decide +kernel, by decide +kernel, rfl, ?_⟩
    · decide +kernel
    · decide +kernel
    · decide +kernel
    · decide +kernel
    · decide +kernel
/-- **`FirstOrderIdent` is satisfiable at order `n = 2`** (two channels; `Pnn`, `S4_n`, the contraction
    with `φ = (1, 2)`, `χ = (1, 1)` all non-trivial), through `C17_scaling_direction`; the model's
    `JaohT` vanishes there although `Q1`, `Q2`, `Q3` do not. -/
theorem ident2 :
    FirstOrderIdent (RingHom.id ℚ) H H T U V 2 1 1 2 2 sq sig rs Ki OO phi chi 0 (inl 1) ∧
    (jaohT (RingHom.id ℚ) 2 chi phi OO (qiOf (RingHom.id ℚ) 2 phi 1
      (pnQ1 2 2 (q1234 H T (upPart (obsOf U sq 2) 2) (dnPart (obsOf U sq 2) 2) 2 1 1 2 U V sig rs Ki).1)
      (pnQ23 2 2
        (q1234 H T (upPart (obsOf U sq 2) 2) (dnPart (obsOf U sq 2) 2) 2 1 1 2 U V sig rs Ki).2.1
        (q1234 H T (upPart (obsOf U sq 2) 2) (dnPart (obsOf U sq 2) 2) 2 1 1 2 U V sig rs
          Ki).2.2.1))).e 0 0 = 0 :=
  C17_scaling_direction (RingHom.id ℚ) H T U V 2 1 1 2 2 sq sig rs Ki OO phi chi 1 0 (by decide)
    (fun m _ => rfl) rfl rfl (by decide) two_ne_zero (le_refl 2) rfl svExact rfl
    (by decide +kernel) (by decide +kernel) (by decide +kernel) (by decide +kernel)

/-- … and `Q1[:, 0]` is not zero on this instance (the cancellation in
    `−λ·(Pnn + I)·Q1_n + Pnn·Q2_n + Q3_n` contracted with `φ` and `χ·OO` is genuine). -/
example : (q1234 H T (upPart (obsOf U sq 2) 2) (dnPart (obsOf U sq 2) 2) 2 1 1 2 U V sig rs Ki).1.e 1 0
    ≠ 0 := by decide +kernel
end ExScale

end PV.C17
