import PyomaVerif.Generated.FnCalls
/-!
# Call sites INSIDE the module-level functions of `functions/fdd.py` — obligations over the regenerated table

`Generated/FnCalls.lean` is rewritten from the tested tree before every check (`harness/translate_fncalls.py`).  The
hand-written models `Model/Spectral(M).lean` (`SD_est`), `Model/PreGER.lean` (`SD_PreGER`), `Model/EfddAll.lean`
(`EFDD_mpe`) call their parts with the arguments stated here; each obligation says WHICH VALUE reaches WHICH PARAMETER of
the callee under WHICH branch test — not how the call is spelled (positional / keyword, helper variables and written-out
defaults are normalised away by the translator).
-/
namespace PV.WiringFn
open PV.FnCallsTbl PV.Gen.FnCalls

/-- the two data arguments of both `csd` calls: channel axis against reference axis, `Ndat` from the reference -/
def csdX : String × String := ("x", "Yall.reshape(Yall.shape[0], 1, Yref.shape[1])")
def csdY : String × String := ("y", "Yref.reshape(1, Yref.shape[0], Yref.shape[1])")

/-- **C13 (`sdEstCor`, `corPxy`).** Under `method == 'cor'` — and nothing else — `SD_est` calls
    `csd(x, y, window='boxcar', nperseg=nxseg//2, noverlap=0, nfft=nxseg)`; `fs`, `detrend`, `scaling`, `average`,
    `return_onesided`, `axis` are scipy's defaults (`1.0`, `'constant'`, `'density'`, `'mean'`, one-sided, last axis). -/
theorem C13_sd_est_csd_cor :
    bindsExactly sites "SD_est" "signal.csd" 0 ["method == 'cor'"]
      [csdX, csdY, ("window", "'boxcar'"), ("nperseg", "nxseg // 2"), ("noverlap", "0"), ("nfft", "nxseg")] = true := by
  decide

/-- **C13 (`sdEstPer`, `perNoverlap`).** Under `method == 'per'` after `method == 'cor'` failed, `SD_est` calls
    `csd(x, y, fs=1/dt, window='hann', nperseg=nxseg, noverlap=nxseg*pov)`; `nfft`, `detrend`, `scaling`, `average` are
    scipy's defaults. -/
theorem C13_sd_est_csd_per :
    bindsExactly sites "SD_est" "signal.csd" 1 ["not (method == 'cor')", "method == 'per'"]
      [csdX, csdY, ("fs", "1 / dt"), ("window", "'hann'"), ("nperseg", "nxseg"), ("noverlap", "nxseg * pov")] = true := by
  decide

/-- **C13 (`expWin`).** The lag window: `exponential(M = n₂, center = 0, tau = −n₂/log(0.01), sym = False)` with
    `n₂ = irfft(Pxy).shape[2]`, in the `'cor'` branch. -/
theorem C13_sd_est_expwin :
    bindsExactly sites "SD_est" "signal.windows.exponential" 0 ["method == 'cor'"]
      [("M", "np.fft.irfft(Pxy).shape[2]"), ("center", "0"),
       ("tau", "-np.fft.irfft(Pxy).shape[2] / np.log(0.01)"), ("sym", "False")] = true := by
  decide

/-- **C13.** These are all the `csd` / window / module-function calls of `SD_est`, in this order; the first `csd`
    result goes to `Pxy` (its frequency vector is dropped), the second IS `freq, Sy`. -/
theorem C13_sd_est_calls :
    callsOf sites "SD_est" = ["signal.csd", "signal.windows.exponential", "signal.csd"]
    ∧ (siteOf sites "SD_est" "signal.csd" 0).map (·.ret) = some ["_", "Pxy"]
    ∧ (siteOf sites "SD_est" "signal.csd" 1).map (·.ret) = some ["freq", "Sy"]
    ∧ (sites.filter (fun s => s.caller == "SD_est")).all (fun s => !s.loop) = true := by
  decide

/-- **C13 / C04.** Signature defaults of the two estimators. -/
theorem C13_sd_est_defaults :
    dfltOf sigs "SD_est" "nxseg" = some "1024" ∧ dfltOf sigs "SD_est" "method" = some "'cor'"
    ∧ dfltOf sigs "SD_est" "pov" = some "0.5"
    ∧ dfltOf sigs "SD_PreGER" "nxseg" = some "1024" ∧ dfltOf sigs "SD_PreGER" "pov" = some "0.5"
    ∧ dfltOf sigs "SD_PreGER" "method" = some "'per'" := by
  decide

/-- the arguments of an `SD_est` call of `SD_PreGER` with the given reference block -/
def pregerArgs (ref : String) : List (String × String) :=
  [("Yall", "np.vstack((Y[ii]['ref'], Y[ii]['mov']))"), ("Yref", ref), ("dt", "1 / fs"),
   ("nxseg", "nxseg"), ("method", "method"), ("pov", "pov")]

/-- **C04 (`Model/PreGER.callArgs`, `gyy`).** `SD_PreGER` calls `SD_est` four times inside the loop over the setups:
    per setup (all sensors, reference block) then (all sensors, moving block), `dt = 1/fs`, and `nxseg`, `method`, `pov`
    handed on unchanged — under `method == 'per'`, and the same two calls under `method == 'cor'`; nothing else. -/
theorem C04_preger_sd_est_calls :
    callsOf sites "SD_PreGER" = ["SD_est", "SD_est", "SD_est", "SD_est"]
    ∧ bindsExactly sites "SD_PreGER" "SD_est" 0 ["method == 'per'"] (pregerArgs "Y[ii]['ref']") = true
    ∧ bindsExactly sites "SD_PreGER" "SD_est" 1 ["method == 'per'"] (pregerArgs "Y[ii]['mov']") = true
    ∧ bindsExactly sites "SD_PreGER" "SD_est" 2 ["not (method == 'per')", "method == 'cor'"] (pregerArgs "Y[ii]['ref']") = true
    ∧ bindsExactly sites "SD_PreGER" "SD_est" 3 ["not (method == 'per')", "method == 'cor'"] (pregerArgs "Y[ii]['mov']") = true
    ∧ (sites.filter (fun s => s.caller == "SD_PreGER")).all (fun s => s.loop) = true
    ∧ ((sites.filter (fun s => s.caller == "SD_PreGER")).map (·.ret)
        = [["freq", "Sy_allref"], ["_", "Sy_allmov"], ["freq", "Sy_allref"], ["_", "Sy_allmov"]]) := by
  decide

/-- **C06 / C07 (`Model/EfddAll.efddMpe`).** `EFDD_mpe` decomposes `Sy` once, runs the FDD stage once on the result with
    `DF = DF1` (all requested frequencies), and per requested frequency `n` calls
    `SDOF_bellandMS(Sy, dt, sel_freq[n], Phi_FDD[:, n], method, cm, MAClim, DF = DF2)`. -/
theorem C07_efdd_inner_calls :
    callsOf sites "EFDD_mpe" = ["SD_svalsvec", "FDD_mpe", "SDOF_bellandMS"]
    ∧ bindsExactly sites "EFDD_mpe" "SD_svalsvec" 0 [] [("SD", "Sy")] = true
    ∧ (siteOf sites "EFDD_mpe" "SD_svalsvec" 0).map (·.ret) = some ["Sval", "Svec"]
    ∧ bindsExactly sites "EFDD_mpe" "FDD_mpe" 0 []
        [("Sval", "Sval"), ("Svec", "Svec"), ("freq", "freq"), ("sel_freq", "sel_freq"), ("DF", "DF1")] = true
    ∧ (siteOf sites "EFDD_mpe" "FDD_mpe" 0).map (fun s => (s.ret, s.loop)) = some (["Freq_FDD", "Phi_FDD"], false)
    ∧ bindsExactly sites "EFDD_mpe" "SDOF_bellandMS" 0 []
        [("Sy", "Sy"), ("dt", "dt"), ("sel_fn", "sel_freq[n]"), ("phi_FDD", "Phi_FDD[:, n]"), ("method", "method"),
         ("cm", "cm"), ("MAClim", "MAClim"), ("DF", "DF2")] = true
    ∧ (siteOf sites "EFDD_mpe" "SDOF_bellandMS" 0).map (fun s => (s.ret, s.loop)) = some (["SDOFbell", "SDOFms"], true) := by
  decide

end PV.WiringFn
