import PyomaVerif.Generated.FnCalls
/-!
# Call sites INSIDE the module-level functions of `functions/fdd.py` — obligations over the regenerated table

`Generated/FnCalls.lean` is rewritten from the tested tree before every check (`harness/translate_fncalls.py`).  The
hand-written models `Model/Spectral(M).lean` (`SD_est`), `Model/PreGER.lean` (`SD_PreGER`), `Model/EfddAll.lean`
(`EFDD_mpe`) call their parts with the arguments stated here; each obligation says WHICH VALUE reaches WHICH PARAMETER of
the callee under WHICH branch test — not how the call is spelled (positional / keyword, helper variables and written-out
defaults are normalised away by the translator).
-/
namespace PV.WiringFn
open PV.FnCallsTbl PV.Gen.FnCalls

/-- the tracked calls of a function that leave the function's own module-private helpers aside (a helper whose name starts
    with `_` is part of the body it was extracted from; what it computes is compared by the correspondence streams) -/
def publicCallsOf (caller : String) : List String :=
  (callsOf sites caller).filter (fun c => !c.startsWith "_")

/-- the two data arguments of both `csd` calls: channel axis against reference axis, `Ndat` from the reference -/
def csdX : String × String := ("x", "Yall.reshape(Yall.shape[0], 1, Yref.shape[1])")
def csdY : String × String := ("y", "Yref.reshape(1, Yref.shape[0], Yref.shape[1])")

/-- **C13 (`sdEstCor`, `corPxy`).** Under `method == 'cor'` — and nothing else — `SD_est` calls
    `csd(x, y, window='boxcar', nperseg=nxseg//2, noverlap=0, nfft=nxseg)`; `fs`, `detrend`, `scaling`, `average`,
    `return_onesided`, `axis` are scipy's defaults (`1.0`, `'constant'`, `'density'`, `'mean'`, one-sided, last axis). -/
theorem C13_sd_est_csd_cor :
    bindsUnder sites "SD_est" "signal.csd" "method == 'cor'"
      [csdX, csdY, ("window", "'boxcar'"), ("nperseg", "nxseg // 2"), ("noverlap", "0"), ("nfft", "nxseg")] = true := by
  decide

/-- **C13 (`sdEstPer`, `perNoverlap`).** Under `method == 'per'` after `method == 'cor'` failed, `SD_est` calls
    `csd(x, y, fs=1/dt, window='hann', nperseg=nxseg, noverlap=nxseg*pov)`; `nfft`, `detrend`, `scaling`, `average` are
    scipy's defaults. -/
theorem C13_sd_est_csd_per :
    bindsUnder sites "SD_est" "signal.csd" "method == 'per'"
      [csdX, csdY, ("fs", "1 / dt"), ("window", "'hann'"), ("nperseg", "nxseg"), ("noverlap", "nxseg * pov")] = true := by
  decide

/-- **C13 (`expWin`).** The lag window: `exponential(M = n₂, center = 0, tau = −n₂/log(0.01), sym = False)` with
    `n₂ = irfft(Pxy).shape[2]`, in the `'cor'` branch. -/
theorem C13_sd_est_expwin :
    bindsUnder sites "SD_est" "signal.windows.exponential" "method == 'cor'"
      [("M", "np.fft.irfft(Pxy).shape[2]"), ("center", "0"),
       ("tau", "-np.fft.irfft(Pxy).shape[2] / np.log(0.01)"), ("sym", "False")] = true := by
  decide

/-- **C13.** These are all the `csd` / window / module-function calls of `SD_est` (two `csd`, one window; which branch
    is written first is immaterial: the tests are exclusive); the `csd` result of the `'cor'` branch goes to `Pxy` (its
    frequency vector is dropped), that of the `'per'` branch IS `freq, Sy`. -/
theorem C13_sd_est_calls :
    (publicCallsOf "SD_est").length = 3
    ∧ (publicCallsOf "SD_est").count "signal.csd" = 2
    ∧ (publicCallsOf "SD_est").count "signal.windows.exponential" = 1
    ∧ (sitesUnder sites "SD_est" "signal.csd" "method == 'cor'").map (·.ret) = [["_", "Pxy"]]
    ∧ (sitesUnder sites "SD_est" "signal.csd" "method == 'per'").map (·.ret) = [["freq", "Sy"]]
    ∧ (sites.filter (fun s => s.caller == "SD_est")).all (fun s => !s.loop) = true := by
  decide +kernel

/-- **C13 / C04.** Signature defaults of the two estimators. -/
theorem C13_sd_est_defaults :
    dfltOf sigs "SD_est" "nxseg" = some "1024" ∧ dfltOf sigs "SD_est" "method" = some "'cor'"
    ∧ dfltOf sigs "SD_est" "pov" = some "0.5"
    ∧ dfltOf sigs "SD_PreGER" "nxseg" = some "1024" ∧ dfltOf sigs "SD_PreGER" "pov" = some "0.5"
    ∧ dfltOf sigs "SD_PreGER" "method" = some "'per'" := by
  decide

/-- the arguments of an `SD_est` call of `SD_PreGER` with the given reference block -/
def pregerArgs (ref : String) : List (String × String) :=
  [("Yall", "np.vstack((Y[ii]['ref'], Y[ii]['mov']))"), ("Yref", ref), ("dt", "1 / fs"),
   ("nxseg", "nxseg"), ("method", "method"), ("pov", "pov")]

/-- the `SD_est` calls of `SD_PreGER`, in source order -/
def pregerSites : List FnSite := sites.filter (fun s => s.caller == "SD_PreGER" && s.callee == "SD_est")

/-- the calls come in pairs under one and the same branch test: (all sensors, reference block) → `freq, Sy_allref`,
    then (all sensors, moving block) → `_, Sy_allmov` -/
def pairsOk : List FnSite → Bool
  | a :: b :: rest =>
    a.bind == pregerArgs "Y[ii]['ref']" && a.ret == ["freq", "Sy_allref"]
      && b.bind == pregerArgs "Y[ii]['mov']" && b.ret == ["_", "Sy_allmov"] && a.path == b.path && pairsOk rest
  | [] => true
  | _ => false

/-- **C04 (`Model/PreGER.callArgs`, `gyy`).** Every call `SD_PreGER` makes is an `SD_est` call inside the loop over the
    setups, and the calls come in pairs per branch: (all sensors, reference block) then (all sensors, moving block), with
    `dt = 1/fs`, and `nxseg`, `method`, `pov` handed on unchanged.  (Whether the `'per'` and `'cor'` branches are written
    as two textually identical bodies — as in the pinned tree — or as one is immaterial and not constrained.) -/
theorem C04_preger_sd_est_calls :
    pregerSites ≠ []
    ∧ (callsOf sites "SD_PreGER").all (· == "SD_est") = true
    ∧ pregerSites.all (fun s => s.loop) = true
    ∧ pairsOk pregerSites = true := by
  decide

/-- **C06 / C07 (`Model/EfddAll.efddMpe`).** `EFDD_mpe` decomposes `Sy` once, runs the FDD stage once on the result with
    `DF = DF1` (all requested frequencies), and per requested frequency `n` calls
    `SDOF_bellandMS(Sy, dt, sel_freq[n], Phi_FDD[:, n], method, cm, MAClim, DF = DF2)`. -/
theorem C07_efdd_inner_calls :
    publicCallsOf "EFDD_mpe" = ["SD_svalsvec", "FDD_mpe", "SDOF_bellandMS"]
    ∧ bindsExactly sites "EFDD_mpe" "SD_svalsvec" 0 [] [("SD", "Sy")] = true
    ∧ (siteOf sites "EFDD_mpe" "SD_svalsvec" 0).map (·.ret) = some ["Sval", "Svec"]
    ∧ bindsExactly sites "EFDD_mpe" "FDD_mpe" 0 []
        [("Sval", "Sval"), ("Svec", "Svec"), ("freq", "freq"), ("sel_freq", "sel_freq"), ("DF", "DF1")] = true
    ∧ (siteOf sites "EFDD_mpe" "FDD_mpe" 0).map (fun s => (s.ret, s.loop)) = some (["Freq_FDD", "Phi_FDD"], false)
    ∧ bindsExactly sites "EFDD_mpe" "SDOF_bellandMS" 0 []
        [("Sy", "Sy"), ("dt", "dt"), ("sel_fn", "sel_freq[n]"), ("phi_FDD", "Phi_FDD[:, n]"), ("method", "method"),
         ("cm", "cm"), ("MAClim", "MAClim"), ("DF", "DF2")] = true
    ∧ (siteOf sites "EFDD_mpe" "SDOF_bellandMS" 0).map (fun s => (s.ret, s.loop)) = some (["SDOFbell", "SDOFms"], true) := by
  decide +kernel

end PV.WiringFn
