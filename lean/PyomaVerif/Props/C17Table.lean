import PyomaVerif.Lemmas.UncTable
import PyomaVerif.Lemmas.EigFirstOrder
import PyomaVerif.Props.C17Vec
import PyomaVerif.Lemmas.FreeVib
/-!
# C17 (structure) — the tables `Fn_cov` / `Xi_cov`, the factor of `build_hank` fed into the capstone,
the clipped last block, and `fxMap` = the pole map of `ac2mp`

* `C17_table_cells` — closed form of the two nested write loops of `SSI_poles` (`covTables`): which cell
  receives which pole's `|cov_fx[0,0]|`, `|cov_fx[1,0]|`; NaN elsewhere.
* `C17_table_variance` — the capstone `C17_variance_is_sum_of_squares` for every cell of that table.
* `C17_factor_column_is_vec`, `C17_fncov_of_build_hank` — the factor `covFactor`/`buildHankUnc` actually
  builds, column `k` = `vec_c((H_k − H)·s)`, fed into the capstone.
* `C17_blockEst_explicit`, `C17_block_columns`, `C17_block_mean_general`, `C17_block_mean_clipped`,
  `C17_last_block_bias` — which columns enter which block, for every `nb`, `N`.
* `C17_fxMap_is_ac2mp`, `C17_fxMap_fnOf_xiOf` — `fxMap` is the map `ac2mp` computes (`FreeVib.lamC`,
  `fnR`, `xiR`; `Realise.fnOf`, `xiOf` on the records), damping in percent.
* `C17_eig_first_order_exists`, `C17_first_order_ident_exists` — the first-order identification that
  `FirstOrderIdent` assumed EXISTS for every direction, from value-level contracts and simplicity of the
  eigenvalue; `C17_fncov_of_factor_exact`, `C17_fncov_of_build_hank_exact` — the composed statement with no
  first-order object assumed.
* non-vacuity: `ExTab` (table on order-2 data; `FirstOrderIdent` at order 2 for arbitrary directions),
  `ExReal` (all hypotheses of the composed statement jointly, over `ℝ`/`ℂ`, factor built by `covFactor`),
  `ExBlocks`.
-/
namespace PV.C17
open PV PV.Mat PV.Unc Finset

/-! ## 1. The tables -/

section Table
variable {R K : Type} [Field R] [Inhabited R] [Field K] [Inhabited K]

/-- the value the pole loop computes for pole `jj` at order `n`: `cov_fx[0, 0]` is the model pass
    `poleVar` on the `jj`-th eigenvalue, the `jj`-th column of `r_eigvt`, the conjugated `jj`-th column of
    `l_eigvt`, and `Jfx_l` of the `jj`-th `lam_c`, `lam_d`. -/
theorem C17_covFx_is_poleVar (ι : R → K) (re im : K → R) (conj : K → K) (pi dt : R) (n ordmax : Nat)
    (Q1 Q2 Q3 : Mat R) (rc : OrderRec R K) (jj : Nat) :
    (covFx ι re im conj pi dt n (pnQ1 n ordmax Q1) (pnQ23 n ordmax Q2 Q3) rc jj).e 0 0
      = poleVar ι re im n ordmax Q1 Q2 Q3 rc.oo (rc.lamd jj) (fun m => conj (rc.lv.e m jj))
          (Unc.col rc.rv jj)
          (jfx pi dt (rc.absd jj) (rc.absc jj) (re (rc.lamc jj)) (im (rc.lamc jj)) (re (rc.lamd jj))
            (im (rc.lamd jj))) := rfl

/-- **Table assembly of `SSI_poles`.**  If at every order the pole loop stays inside the `ordmax` rows
    (`len(lam_c) ≤ ordmax`; `ac2mp` returns `ii` poles at order `ii`), the run of the two loops
    (`covTables`) terminates without `IndexError` and cell `[jj, ii]` of `Fn_cov` (resp. `Xi_cov`) is
    `abs(cov_fx[0, 0])` (resp. `abs(cov_fx[1, 0])`) of pole `jj` of order `ii` — computed with
    `PnQ1`, `PnQ2_Q3`, `OO` of THAT order and the `jj`-th eigen-triple of THAT order — for
    `1 ≤ ii ≤ ordmax`, `jj < len(lam_c)`, and NaN in every other cell (column 0, rows `≥ len(lam_c)`). -/
theorem C17_table_cells (ι : R → K) (re im : K → R) (conj : K → K) (absR : R → R) (pi dt : R)
    (ordmax : Nat) (Q1 Q2 Q3 : Mat R) (recs : Nat → OrderRec R K)
    (hnp : ∀ ii, 1 ≤ ii → ii ≤ ordmax → (recs ii).np ≤ ordmax) :
    ∃ t, covTables ι re im conj absR pi dt ordmax Q1 Q2 Q3 recs = some t ∧
      (∀ jj ii, t.fn jj ii =
        if 1 ≤ ii ∧ ii ≤ ordmax ∧ jj < (recs ii).np then
          some (absR (poleVar ι re im ii ordmax Q1 Q2 Q3 (recs ii).oo ((recs ii).lamd jj)
            (fun m => conj ((recs ii).lv.e m jj)) (Unc.col (recs ii).rv jj)
            (jfx pi dt ((recs ii).absd jj) ((recs ii).absc jj) (re ((recs ii).lamc jj))
              (im ((recs ii).lamc jj)) (re ((recs ii).lamd jj)) (im ((recs ii).lamd jj)))))
        else none) ∧
      (∀ jj ii, t.xi jj ii =
        if 1 ≤ ii ∧ ii ≤ ordmax ∧ jj < (recs ii).np then
          some (absR ((covFx ι re im conj pi dt ii (pnQ1 ii ordmax Q1) (pnQ23 ii ordmax Q2 Q3)
            (recs ii) jj).e 1 0))
        else none) := by
  have hstep : ∀ ii ∈ List.range' 1 ordmax, ∀ t : CovTabs R, ∃ t',
      orderPass ι re im conj absR pi dt ordmax Q1 Q2 Q3 (recs ii) ii t = some t' ∧
      (∀ a b, t'.fn a b = if b = ii ∧ a < (recs ii).np then
        some (absR ((covFx ι re im conj pi dt ii (pnQ1 ii ordmax Q1) (pnQ23 ii ordmax Q2 Q3)
          (recs ii) a).e 0 0)) else t.fn a b) ∧
      (∀ a b, t'.xi a b = if b = ii ∧ a < (recs ii).np then
        some (absR ((covFx ι re im conj pi dt ii (pnQ1 ii ordmax Q1) (pnQ23 ii ordmax Q2 Q3)
          (recs ii) a).e 1 0)) else t.xi a b) := by
    intro ii hii t
    rw [List.mem_range'_1] at hii
    have hle : (recs ii).np ≤ ordmax := hnp ii hii.1 (by omega)
    obtain ⟨t', h1, h2, h3⟩ := foldlM_write ordmax ii
      (fun a => absR ((covFx ι re im conj pi dt ii (pnQ1 ii ordmax Q1) (pnQ23 ii ordmax Q2 Q3)
        (recs ii) a).e 0 0))
      (fun a => absR ((covFx ι re im conj pi dt ii (pnQ1 ii ordmax Q1) (pnQ23 ii ordmax Q2 Q3)
        (recs ii) a).e 1 0))
      (List.range (recs ii).np) (fun a ha => lt_of_lt_of_le (List.mem_range.mp ha) hle) t
    refine ⟨t', h1, ?_, ?_⟩
    · intro a b; rw [h2 a b]; simp only [List.mem_range]
    · intro a b; rw [h3 a b]; simp only [List.mem_range]
  obtain ⟨t', h1, h2, h3⟩ := foldlM_orders (List.range' 1 ordmax)
    (fun ii t => orderPass ι re im conj absR pi dt ordmax Q1 Q2 Q3 (recs ii) ii t)
    (fun ii a => absR ((covFx ι re im conj pi dt ii (pnQ1 ii ordmax Q1) (pnQ23 ii ordmax Q2 Q3)
        (recs ii) a).e 0 0))
    (fun ii a => absR ((covFx ι re im conj pi dt ii (pnQ1 ii ordmax Q1) (pnQ23 ii ordmax Q2 Q3)
        (recs ii) a).e 1 0))
    (fun ii => (recs ii).np) hstep ⟨fun _ _ => none, fun _ _ => none⟩
  refine ⟨t', h1, ?_, ?_⟩
  · intro jj ii
    rw [h2 jj ii]
    by_cases hc : 1 ≤ ii ∧ ii ≤ ordmax ∧ jj < (recs ii).np
    · rw [if_pos hc, if_pos ⟨List.mem_range'_1.mpr ⟨hc.1, by omega⟩, hc.2.2⟩]
      rfl
    · rw [if_neg hc, if_neg]
      intro h
      have := List.mem_range'_1.mp h.1
      exact hc ⟨this.1, by omega, h.2⟩
  · intro jj ii
    rw [h3 jj ii]
    by_cases hc : 1 ≤ ii ∧ ii ≤ ordmax ∧ jj < (recs ii).np
    · rw [if_pos hc, if_pos ⟨List.mem_range'_1.mpr ⟨hc.1, by omega⟩, hc.2.2⟩]
    · rw [if_neg hc, if_neg]
      intro h
      have := List.mem_range'_1.mp h.1
      exact hc ⟨this.1, by omega, h.2⟩

/-- the loop raises (`IndexError`) as soon as some order reports more poles than the tables have
    rows: if the FIRST order does (`len(lam_c) > ordmax` at `ii = 1`), `covTables` is `none`. -/
theorem C17_table_index_error (ι : R → K) (re im : K → R) (conj : K → K) (absR : R → R) (pi dt : R)
    (ordmax : Nat) (Q1 Q2 Q3 : Mat R) (recs : Nat → OrderRec R K) (h1 : 1 ≤ ordmax)
    (hbig : ordmax < (recs 1).np) :
    covTables ι re im conj absR pi dt ordmax Q1 Q2 Q3 recs = none := by
  obtain ⟨m, rfl⟩ : ∃ m, ordmax = m + 1 := ⟨ordmax - 1, by omega⟩
  unfold covTables
  rw [List.range'_succ, List.foldlM_cons]
  have hpass : ∀ t, orderPass ι re im conj absR pi dt (m + 1) Q1 Q2 Q3 (recs 1) 1 t = none := by
    intro t
    unfold orderPass
    obtain ⟨d, hd⟩ : ∃ d, (recs 1).np = (m + 1) + 1 + d := ⟨(recs 1).np - (m + 2), by omega⟩
    rw [hd, show m + 1 + 1 + d = (m + 1) + (1 + d) by ring, List.range_add, List.foldlM_append]
    obtain ⟨t', h1', -, -⟩ := foldlM_write (m + 1) 1
      (fun a => absR ((covFx ι re im conj pi dt 1 (pnQ1 1 (m + 1) Q1) (pnQ23 1 (m + 1) Q2 Q3)
        (recs 1) a).e 0 0))
      (fun a => absR ((covFx ι re im conj pi dt 1 (pnQ1 1 (m + 1) Q1) (pnQ23 1 (m + 1) Q2 Q3)
        (recs 1) a).e 1 0))
      (List.range (m + 1)) (fun a ha => List.mem_range.mp ha) t
    simp only at h1' ⊢
    rw [h1']
    show List.foldlM _ t' (List.map _ (List.range (1 + d))) = none
    rw [show 1 + d = d + 1 by ring, List.range_succ_eq_map, List.map_cons, List.foldlM_cons]
    simp
  rw [hpass]
  rfl

end Table

/-! ## 2. Every cell of the table is a sum of squared directional derivatives -/

/-- `Jfx_l` built from exact records (`np.pi`, `np.abs`, `np.log`) is `jfxAt` at `(Re, Im) lam_d[jj]`. -/
theorem jfx_of_exact_records (dt : ℝ) (lamd lamc : ℂ) (absd absc : ℝ)
    (hlc : lamc = lamC dt ![lamd.re, lamd.im]) (habsd : absd = ‖lamd‖) (habsc : absc = ‖lamc‖) :
    jfx Real.pi dt absd absc lamc.re lamc.im lamd.re lamd.im = jfxAt dt ![lamd.re, lamd.im] := by
  unfold jfxAt
  simp only [Matrix.cons_val_zero, Matrix.cons_val_one]
  rw [Complex.re_add_im, ← hlc, habsd, habsc]

/-- **`Fn_cov[jj, ii] = Σ_k (D_k fn)²` for every cell the loops write.**  `t` is the result of the model of
    the two loops of `SSI_poles` (`covTables`, with `np.conj`, `np.abs`, exact `np.pi`) on the model's
    `Q1..Q3` of `SSI_fast`; `recs ii` the per-order records.  For a cell `1 ≤ ii ≤ ordmax`,
    `jj < len(lam_c)`: if the records of that pole are exact (`lam_c = log(lam_d)/dt`, `np.abs`) and for
    every factor column `k` there is a first-order identification (`FirstOrderIdent`) at ORDER `ii`
    extending the recorded factors with the `jj`-th eigen-triple of that order, then the stored value
    is the sum over the factor columns of the squared derivative of `fn` along the first-order
    eigenvalue perturbation.  Hypotheses beyond `C17_variance_is_sum_of_squares`: none (the loop bound
    `len(lam_c) ≤ ordmax` holds for `ac2mp`, which returns `ii` poles). -/
theorem C17_table_variance (dt : ℝ) (H T U V : Mat ℝ) (dH : Nat → Mat ℝ) (l r p ordmax : Nat)
    (sq sig rs : Nat → ℝ) (Ki : Nat → Mat ℝ) (recs : Nat → OrderRec ℝ ℂ) (t : CovTabs ℝ)
    (hnp : ∀ ii, 1 ≤ ii → ii ≤ ordmax → (recs ii).np ≤ ordmax)
    (ii jj : Nat) (h1 : 1 ≤ ii) (h2 : ii ≤ ordmax) (hj : jj < (recs ii).np)
    (hlc : (recs ii).lamc jj = lamC dt ![((recs ii).lamd jj).re, ((recs ii).lamd jj).im])
    (habsd : (recs ii).absd jj = ‖(recs ii).lamd jj‖)
    (habsc : (recs ii).absc jj = ‖(recs ii).lamc jj‖)
    (lam : Nat → DualNumber ℂ)
    (hid : ∀ k, k < T.c → FirstOrderIdent Complex.ofRealHom H (dH k) T U V l r p ordmax ii sq sig rs Ki
      (recs ii).oo (Unc.col (recs ii).rv jj) (fun m => (starRingEnd ℂ) ((recs ii).lv.e m jj)) k (lam k))
    (hl0 : ∀ k, k < T.c → (lam k).fst = (recs ii).lamd jj)
    (hs : (recs ii).lamd jj ∈ Complex.slitPlane)
    (hμ : lamC dt ![((recs ii).lamd jj).re, ((recs ii).lamd jj).im] ≠ 0) :
    let Obs := obsOf U sq ordmax
    let Q := q1234 H T (upPart Obs l) (dnPart Obs l) l r p ordmax U V sig rs Ki
    covTables Complex.ofRealHom Complex.re Complex.im (starRingEnd ℂ) (fun x : ℝ => |x|) Real.pi dt
        ordmax Q.1 Q.2.1 Q.2.2.1 recs = some t →
    t.fn jj ii = some (∑ k ∈ range T.c,
      (fderiv ℝ (fxMap dt) ![((recs ii).lamd jj).re, ((recs ii).lamd jj).im]
        ![(lam k).snd.re, (lam k).snd.im] 0) ^ 2) := by
  intro Obs Q ht
  obtain ⟨t', e, hfn, -⟩ := C17_table_cells (⇑Complex.ofRealHom) Complex.re Complex.im (starRingEnd ℂ)
    (fun x : ℝ => |x|) Real.pi dt ordmax Q.1 Q.2.1 Q.2.2.1 recs hnp
  rw [ht] at e
  obtain rfl : t = t' := Option.some.inj e
  rw [hfn jj ii, if_pos ⟨h1, h2, hj⟩,
    jfx_of_exact_records dt _ _ _ _ hlc habsd habsc]
  congr 1
  exact (C17_variance_is_sum_of_squares dt H T U V dH l r p ordmax ii sq sig rs Ki (recs ii).oo
    (Unc.col (recs ii).rv jj) (fun m => (starRingEnd ℂ) ((recs ii).lv.e m jj)) ((recs ii).lamd jj) lam
    hid hl0 hs hμ).2

/-! ## 3. The factor `build_hank` actually builds, fed into the capstone -/

/-- **Column `k` of the factor is `vec_c` of the scaled deviation matrix** `(H_k − H)·s` (`devMat`), for
    every row index: the hypothesis `hcol` of `FirstOrderIdent` holds for the model's `covFactor` with
    `ΔH_k = devMat … k`. -/
theorem C17_factor_column_is_vec {K : Type} [Field K] (Yf Yp : Mat K) (nb N : Nat) (s : K) (T : Mat K)
    (h : covFactor Yf Yp nb N s = .ok T) (k m : Nat) :
    T.e m k = vecC (devMat Yf Yp N nb s k) m := by
  unfold covFactor at h
  split_ifs at h
  cases h
  rfl

/-- **`Fn_cov` for the factor of `build_hank`: variance = Σ_k (D fn · ε_k λ)²,
    `ε_k` the first-order change along `ΔH_k = (H_k − H)·s`.**  `T` is the factor the model `covFactor`
    returns for the stacked data `Yf`, `Yp` (`nb` blocks, `s = 1/sqrt(nb(nb−1))` as computed), `H = Yf·Ypᵀ`
    the full estimate; `Q1..Q3` the model of `SSI_fast` on `(H, T)`, `t` the tables of the model of
    `SSI_poles`.  For a written cell `(jj, ii)`: if for every block `k < nb` there is a first-order
    identification of `H + ε·(H_k − H)·s` at order `ii` extending the recorded factors
    (`FirstOrderCore`: no statement about `T` is assumed — `T[:, k] = vec_c(ΔH_k)` is proved,
    `C17_factor_column_is_vec`) with eigenvalue `lam_d[jj] + ε·ε_k(λ)`, then
    `Fn_cov[jj, ii] = Σ_{k<nb} (D fn(Re ε_k λ, Im ε_k λ))²`. -/
theorem C17_fncov_of_factor (dt : ℝ) (Yf Yp : Mat ℝ) (nb N : Nat) (s : ℝ) (T U V : Mat ℝ)
    (hT : covFactor Yf Yp nb N s = .ok T) (l r p ordmax : Nat)
    (sq sig rs : Nat → ℝ) (Ki : Nat → Mat ℝ) (recs : Nat → OrderRec ℝ ℂ) (t : CovTabs ℝ)
    (hnp : ∀ ii, 1 ≤ ii → ii ≤ ordmax → (recs ii).np ≤ ordmax)
    (ii jj : Nat) (h1 : 1 ≤ ii) (h2 : ii ≤ ordmax) (hj : jj < (recs ii).np)
    (hlc : (recs ii).lamc jj = lamC dt ![((recs ii).lamd jj).re, ((recs ii).lamd jj).im])
    (habsd : (recs ii).absd jj = ‖(recs ii).lamd jj‖)
    (habsc : (recs ii).absc jj = ‖(recs ii).lamc jj‖)
    (lam : Nat → DualNumber ℂ)
    (hid : ∀ k, k < nb → FirstOrderCore Complex.ofRealHom (mulT Yf Yp) (devMat Yf Yp N nb s k) U V l r p
      ordmax ii sq sig rs Ki (recs ii).oo (Unc.col (recs ii).rv jj)
      (fun m => (starRingEnd ℂ) ((recs ii).lv.e m jj)) (lam k))
    (hl0 : ∀ k, k < nb → (lam k).fst = (recs ii).lamd jj)
    (hs : (recs ii).lamd jj ∈ Complex.slitPlane)
    (hμ : lamC dt ![((recs ii).lamd jj).re, ((recs ii).lamd jj).im] ≠ 0) :
    let Obs := obsOf U sq ordmax
    let Q := q1234 (mulT Yf Yp) T (upPart Obs l) (dnPart Obs l) l r p ordmax U V sig rs Ki
    covTables Complex.ofRealHom Complex.re Complex.im (starRingEnd ℂ) (fun x : ℝ => |x|) Real.pi dt
        ordmax Q.1 Q.2.1 Q.2.2.1 recs = some t →
    t.fn jj ii = some (∑ k ∈ range nb,
      (fderiv ℝ (fxMap dt) ![((recs ii).lamd jj).re, ((recs ii).lamd jj).im]
        ![(lam k).snd.re, (lam k).snd.im] 0) ^ 2) := by
  intro Obs Q ht
  have hc : T.c = nb := (C17_factor_shape Yf Yp nb N s T hT).2
  have := C17_table_variance dt (mulT Yf Yp) T U V (fun k => devMat Yf Yp N nb s k) l r p ordmax sq sig rs
    Ki recs t hnp ii jj h1 h2 hj hlc habsd habsc lam
    (fun k hk => (hid k (hc ▸ hk)).toIdent T k hk
      (fun m _ => C17_factor_column_is_vec Yf Yp nb N s T hT k m))
    (fun k hk => hl0 k (hc ▸ hk)) hs hμ ht
  rw [this, hc]

/-- **The same through `build_hank`.**  `(H, T) = build_hank(Y, Yref, br = p, "cov_mm", calc_unc=True, nb)`
    as the model `buildHankUnc` computes them (`l = Y.shape[0]` channels, `r = Yref.shape[0] ≥ 1`
    references): the shape contracts of the capstone hold by construction
    (`H`, `ΔH_k` are `(p+1)l × (p+1)r`), what remains is: `Uom` has `(p+1)l` rows, the recorded `OO` is the
    exact inverse, and for every block a first-order identification exists (`IdentExists`). -/
theorem C17_fncov_of_build_hank (dt : ℝ) (Y Yref : Mat ℝ) (p nb : Nat) (s0 s : ℝ) (H T U V : Mat ℝ)
    (hB : buildHankUnc Y Yref p nb s0 s = (H, .ok T)) (hr0 : 0 < Yref.r) (ordmax : Nat)
    (sq sig rs : Nat → ℝ) (Ki : Nat → Mat ℝ) (recs : Nat → OrderRec ℝ ℂ) (t : CovTabs ℝ)
    (hnp : ∀ ii, 1 ≤ ii → ii ≤ ordmax → (recs ii).np ≤ ordmax)
    (ii jj : Nat) (h1 : 1 ≤ ii) (h2 : ii ≤ ordmax) (hj : jj < (recs ii).np)
    (hlc : (recs ii).lamc jj = lamC dt ![((recs ii).lamd jj).re, ((recs ii).lamd jj).im])
    (habsd : (recs ii).absd jj = ‖(recs ii).lamd jj‖)
    (habsc : (recs ii).absc jj = ‖(recs ii).lamc jj‖)
    (hUr : U.r = (p + 1) * Y.r) (hOc : (recs ii).oo.c = ii)
    (hOO : toMx ii ii (recs ii).oo.e * toMx ii ii (ooArg (obsOf U sq ordmax) Y.r ii).e = 1)
    (lam : Nat → DualNumber ℂ)
    (hex : ∀ k, k < nb → IdentExists Complex.ofRealHom H
      (devMat (hankYf Y p s0) (hankYp Y.c Yref p s0) (Y.c - p - (p + 1)) nb s k) U V Y.r p ii sq sig rs Ki
      (Unc.col (recs ii).rv jj) (fun m => (starRingEnd ℂ) ((recs ii).lv.e m jj)) (lam k))
    (hl0 : ∀ k, k < nb → (lam k).fst = (recs ii).lamd jj)
    (hs : (recs ii).lamd jj ∈ Complex.slitPlane)
    (hμ : lamC dt ![((recs ii).lamd jj).re, ((recs ii).lamd jj).im] ≠ 0) :
    let Obs := obsOf U sq ordmax
    let Q := q1234 H T (upPart Obs Y.r) (dnPart Obs Y.r) Y.r Yref.r p ordmax U V sig rs Ki
    covTables Complex.ofRealHom Complex.re Complex.im (starRingEnd ℂ) (fun x : ℝ => |x|) Real.pi dt
        ordmax Q.1 Q.2.1 Q.2.2.1 recs = some t →
    t.fn jj ii = some (∑ k ∈ range nb,
      (fderiv ℝ (fxMap dt) ![((recs ii).lamd jj).re, ((recs ii).lamd jj).im]
        ![(lam k).snd.re, (lam k).snd.im] 0) ^ 2) := by
  unfold buildHankUnc at hB
  obtain ⟨rfl, hT⟩ := Prod.mk.inj hB
  exact C17_fncov_of_factor dt (hankYf Y p s0) (hankYp Y.c Yref p s0) nb (Y.c - p - (p + 1)) s T U V hT
    Y.r Yref.r p ordmax sq sig rs Ki recs t hnp ii jj h1 h2 hj hlc habsd habsc lam
    (fun k hk => ⟨rfl, rfl, rfl, rfl, Nat.mul_pos (Nat.succ_pos p) hr0, two_ne_zero, h2, hUr, hOc, hOO,
      hex k hk⟩) hl0 hs hμ

/-! ## 4. Which columns enter which block (every `nb`, `N`; the clipped last block) -/

/-- **The block estimate, for every `k`, `Nb` and every number of columns (no `hfit`).**  `blockEst`
    (the slices `Yf[:, k*Nb:(k+1)*Nb]`, `Yp[:, …]` as numpy clips them, `np.dot`, `* N / Nb`) is the explicit
    sum `blockEstR` over the columns `start ≤ t < stop` that `blockCols` names, times `N`, divided by
    `Nb` — also when the slice holds fewer than `Nb` columns. -/
theorem C17_blockEst_explicit {K : Type} [Field K] (Yf Yp : Mat K) (N Nb k i j : Nat) :
    (blockEst Yf Yp N Nb k).r = (blockEstR Yf Yp N Nb k).r ∧
    (blockEst Yf Yp N Nb k).c = (blockEstR Yf Yp N Nb k).c ∧
    (blockEst Yf Yp N Nb k).e i j = (blockEstR Yf Yp N Nb k).e i j ∧
    (blockEstR Yf Yp N Nb k).e i j
      = (∑ t ∈ range ((blockCols Yf.c Nb k).2 - (blockCols Yf.c Nb k).1),
          Yf.e i ((blockCols Yf.c Nb k).1 + t) * Yp.e j ((blockCols Yf.c Nb k).1 + t))
        * (N : K) / (Nb : K) := by
  refine ⟨rfl, rfl, ?_, ?_⟩
  · simp only [blockEst, blockEstR, blockCols, mulT, colSliceT, sumTo_eq]
    by_cases h : k * Nb ≤ Yf.c
    · rw [Nat.min_eq_left h]
    · have h' : Yf.c < k * Nb := Nat.lt_of_not_le h
      have hle : k * Nb ≤ (k + 1) * Nb := Nat.mul_le_mul_right _ (Nat.le_succ k)
      have e1 : min ((k + 1) * Nb) Yf.c - k * Nb = 0 := by omega
      have e2 : min ((k + 1) * Nb) Yf.c - min (k * Nb) Yf.c = 0 := by omega
      rw [e1, e2]
      simp
  · simp only [blockEstR, sumTo_eq]

/-- **Which columns enter which block** (`ncols = N − 1` columns of `Yf`, `Yp`; `Nb = N // nb ≥ 1`).
    * `nb ∤ N`: every block `k < nb` is full — columns `k·Nb ≤ t < (k+1)·Nb` — and the
      `N mod nb − 1` columns `nb·Nb ≤ t < N − 1` enter NO block (they enter `Hank` only).
    * `nb ∣ N`: blocks `k < nb − 1` are full, the LAST block holds the `Nb − 1` columns
      `(nb−1)·Nb ≤ t < N − 1` (the slice is clipped; the estimate is still divided by `Nb`,
      `C17_last_block_bias`), and no column is left over. -/
theorem C17_block_columns (N nb : Nat) (hnb : 1 ≤ nb) (hNb : 1 ≤ N / nb) :
    (¬ nb ∣ N →
      (∀ k, k < nb → blockCols (N - 1) (N / nb) k = (k * (N / nb), (k + 1) * (N / nb))) ∧
      leftoverCols (N - 1) (N / nb) nb = (nb * (N / nb), N - 1) ∧
      (N - 1) - nb * (N / nb) = N % nb - 1 ∧ 1 ≤ N % nb) ∧
    (nb ∣ N →
      (∀ k, k + 1 < nb → blockCols (N - 1) (N / nb) k = (k * (N / nb), (k + 1) * (N / nb))) ∧
      blockCols (N - 1) (N / nb) (nb - 1) = ((nb - 1) * (N / nb), N - 1) ∧
      (N - 1) - (nb - 1) * (N / nb) = N / nb - 1 ∧
      leftoverCols (N - 1) (N / nb) nb = (N - 1, N - 1)) := by
  have hdm : nb * (N / nb) + N % nb = N := Nat.div_add_mod N nb
  have hlt : N % nb < nb := Nat.mod_lt _ (by omega)
  generalize hq : N / nb = q at *
  generalize hm : N % nb = m at *
  have hfull : ∀ k, k + 1 ≤ nb → (k + 1) * q ≤ nb * q := fun k hk => Nat.mul_le_mul_right _ hk
  have hmono : ∀ k, k * q ≤ (k + 1) * q := fun k => Nat.mul_le_mul_right _ (Nat.le_succ k)
  constructor
  · intro hdiv
    have hm1 : 1 ≤ m := by
      rcases Nat.eq_zero_or_pos m with h0 | h0
      · exact absurd (Nat.dvd_of_mod_eq_zero (hm ▸ h0)) hdiv
      · exact h0
    refine ⟨fun k hk => ?_, ?_, by omega, hm1⟩
    · have := hfull k hk
      have := hmono k
      simp only [blockCols]
      rw [Nat.min_eq_left (by omega), Nat.min_eq_left (by omega)]
    · simp only [leftoverCols]
      rw [Nat.min_eq_left (by omega)]
  · intro hdiv
    have hm0 : m = 0 := by rw [← hm]; exact Nat.mod_eq_zero_of_dvd hdiv
    subst hm0
    obtain ⟨nb', rfl⟩ : ∃ nb', nb = nb' + 1 := ⟨nb - 1, by omega⟩
    have hexp : (nb' + 1) * q = nb' * q + q := Nat.succ_mul _ _
    refine ⟨fun k hk => ?_, ?_, ?_, ?_⟩
    · have h2 := hmono k
      have h3 : (k + 1) * q ≤ nb' * q := Nat.mul_le_mul_right _ (by omega)
      simp only [blockCols]
      rw [Nat.min_eq_left (by omega), Nat.min_eq_left (by omega)]
    · simp only [blockCols, Nat.add_sub_cancel]
      rw [Nat.min_eq_left (by omega), Nat.min_eq_right (by omega)]
    · simp only [Nat.add_sub_cancel]; omega
    · simp only [leftoverCols]
      rw [Nat.min_eq_right (by omega)]

/-- **Sum of the block estimates, in general**: the products of the first `min(nb·Nb, ncols)` columns,
    times `N/Nb` (`C17_block_mean` is the case `nb·Nb = ncols`). -/
theorem C17_block_mean_general {K : Type} [Field K] (Yf Yp : Mat K) (N Nb nb i j : Nat) :
    ∑ k ∈ range nb, (blockEst Yf Yp N Nb k).e i j
      = (∑ t ∈ range (min (nb * Nb) Yf.c), Yf.e i t * Yp.e j t) * (N : K) / (Nb : K) := by
  have hk : ∀ k, (blockEst Yf Yp N Nb k).e i j
      = (∑ t ∈ range (min ((k + 1) * Nb) Yf.c - k * Nb), Yf.e i (k * Nb + t) * Yp.e j (k * Nb + t))
        * (N : K) / (Nb : K) := by
    intro k
    simp only [blockEst, mulT, colSliceT, sumTo_eq]
  simp only [hk, div_eq_mul_inv]
  rw [← Finset.sum_mul, ← Finset.sum_mul,
    sum_blocks_clip (fun m => Yf.e i m * Yp.e j m) nb Nb Yf.c]

/-- **`nb ∣ N` (clipped last block): the block estimates average to the full estimate exactly**:
    with the `N − 1` columns of `cov_mm` and `N = nb·Nb`, `Σ_k H_k = nb·H` — so in
    `C17_factor_gram_centered` the rank-one term vanishes (`hbar = h`) and `T·Tᵀ` is exactly the sample
    covariance of the mean of the block estimates AS COMPUTED (the last of them biased, next theorem). -/
theorem C17_block_mean_clipped {K : Type} [Field K] (Yf Yp : Mat K) (N nb i j : Nat)
    (hc : Yf.c = N - 1) (hdiv : nb ∣ N) (hNb : ((N / nb : Nat) : K) ≠ 0) :
    ∑ k ∈ range nb, (blockEst Yf Yp N (N / nb) k).e i j = (nb : K) * (mulT Yf Yp).e i j := by
  rw [C17_block_mean_general, Nat.mul_div_cancel' hdiv, hc, Nat.min_eq_right (Nat.sub_le N 1)]
  have hN : (N : K) = (nb : K) * ((N / nb : Nat) : K) := by
    rw [← Nat.cast_mul, Nat.mul_div_cancel' hdiv]
  simp only [mulT, sumTo_eq, hc]
  rw [hN]
  field_simp

/-- **The clipped last block is biased by `(Nb−1)/Nb`.**  For `nb ∣ N` (and the `N − 1` columns of
    `cov_mm`) the last block estimate is the sum of its `Nb − 1` column products times `N`, divided by
    `Nb` — i.e. `(Nb − 1)/Nb` times the moment estimate over the columns it holds.  (The property's
    "block-wise Hankel estimates" is therefore not met by that block; the oracle skips `nb ∣ N`.) -/
theorem C17_last_block_bias {K : Type} [Field K] (Yf Yp : Mat K) (N nb i j : Nat)
    (hc : Yf.c = N - 1) (hnb : 1 ≤ nb) (hNb : 1 ≤ N / nb) (hdiv : nb ∣ N) :
    (blockEst Yf Yp N (N / nb) (nb - 1)).e i j
      = (∑ t ∈ range (N / nb - 1),
          Yf.e i ((nb - 1) * (N / nb) + t) * Yp.e j ((nb - 1) * (N / nb) + t)) * (N : K)
        / ((N / nb : Nat) : K) := by
  obtain ⟨-, h2, h3, -⟩ := (C17_block_columns N nb hnb hNb).2 hdiv
  obtain ⟨-, -, e1, e2⟩ := C17_blockEst_explicit Yf Yp N (N / nb) (nb - 1) i j
  rw [e1, e2, hc, h2]
  simp only [h3]

/-! ## 5. `fxMap` is the pole map of `ac2mp` -/

/-- **`fxMap` (the map whose Jacobian is `Jfx_l`, `C17_fx_jacobian`) is the map `ac2mp` computes**, in the
    form C01 proves correct (`FreeVib.lamC`, `fnR`, `xiR`: `lam_c = log(lam_d)/dt`, `fn = |lam_c|/2π`,
    `xi = −Re lam_c/|lam_c|`, `C01E2E.Recovered`), with the damping in percent:
    `fxMap dt (Re λ, Im λ) = (fn(λ), 100·xi(λ))`. -/
theorem C17_fxMap_is_ac2mp (dt : ℝ) (q : Fin 2 → ℝ) :
    fxMap dt q = ![FreeVib.fnR (FreeVib.lamC ((q 0 : ℂ) + (q 1 : ℂ) * Complex.I) dt),
      100 * FreeVib.xiR (FreeVib.lamC ((q 0 : ℂ) + (q 1 : ℂ) * Complex.I) dt)] ∧
    Unc.lamC dt q = FreeVib.lamC ((q 0 : ℂ) + (q 1 : ℂ) * Complex.I) dt :=
  ⟨rfl, rfl⟩

theorem ratio_diff (a A t T : ℝ) (ht : t ≠ 0) (hT : T ≠ 0) :
    a / t - A / T = ((a - A) + (A / T) * (T - t)) / t := by
  field_simp
  ring

/-- **… and of the executed model functions `Realise.fnOf`, `Realise.xiOf`** (what the driver runs for C01
    on the RECORDED rationals `absl ≈ |lam_c|`, `twoPi ≈ 2π`, `lamc ≈ lam_c`): they are the two
    components of `fxMap` (the second divided by 100) up to the rounding of the records — exactly
    equal when the records are exact. -/
theorem C17_fxMap_fnOf_xiOf (dt : ℝ) (q : Fin 2 → ℝ) (lamc : Cpx ℚ) (absl twoPi : ℚ)
    (hμ : Unc.lamC dt q ≠ 0) (ha : 0 < absl) (ht : 0 < twoPi) :
    |((fnOf absl twoPi : ℚ) : ℝ) - fxMap dt q 0|
      ≤ (|(absl : ℝ) - ‖Unc.lamC dt q‖| + |fxMap dt q 0| * |2 * Real.pi - twoPi|) / twoPi ∧
    |100 * ((xiOf lamc absl : ℚ) : ℝ) - fxMap dt q 1|
      ≤ (100 * |(lamc.re : ℝ) - (Unc.lamC dt q).re| + |fxMap dt q 1| * |‖Unc.lamC dt q‖ - absl|) / absl := by
  have ha' : (0 : ℝ) < absl := by exact_mod_cast ha
  have ht' : (0 : ℝ) < twoPi := by exact_mod_cast ht
  have hn : ‖Unc.lamC dt q‖ ≠ 0 := norm_ne_zero_iff.mpr hμ
  have hpi : (2 * Real.pi) ≠ 0 := by positivity
  constructor
  · have e : ((fnOf absl twoPi : ℚ) : ℝ) - fxMap dt q 0
        = (((absl : ℝ) - ‖Unc.lamC dt q‖) + fxMap dt q 0 * (2 * Real.pi - twoPi)) / twoPi := by
      rw [FreeVib.fnOf_cast]
      show (absl : ℝ) / twoPi - ‖Unc.lamC dt q‖ / (2 * Real.pi) = _
      rw [ratio_diff _ _ _ _ ht'.ne' hpi]
      rfl
    rw [e, abs_div, abs_of_pos ht']
    apply div_le_div_of_nonneg_right _ ht'.le
    calc _ ≤ |(absl : ℝ) - ‖Unc.lamC dt q‖| + |fxMap dt q 0 * (2 * Real.pi - twoPi)| := abs_add_le _ _
      _ = _ := by rw [abs_mul]
  · have e : 100 * ((xiOf lamc absl : ℚ) : ℝ) - fxMap dt q 1
        = -((100 * ((lamc.re : ℝ) - (Unc.lamC dt q).re)
            + -(fxMap dt q 1) * (‖Unc.lamC dt q‖ - absl)) / absl) := by
      have hx : ((xiOf lamc absl : ℚ) : ℝ) = -((lamc.re : ℝ) / absl) := by simp [xiOf]
      rw [hx]
      show 100 * -((lamc.re : ℝ) / absl) - 100 * -((Unc.lamC dt q).re / ‖Unc.lamC dt q‖) = _
      have := ratio_diff (lamc.re : ℝ) (Unc.lamC dt q).re absl ‖Unc.lamC dt q‖ ha'.ne' hn
      have e1 : fxMap dt q 1 = 100 * -((Unc.lamC dt q).re / ‖Unc.lamC dt q‖) := rfl
      rw [e1]
      linear_combination (-100) * this
    rw [e, abs_neg, abs_div, abs_of_pos ha']
    apply div_le_div_of_nonneg_right _ ha'.le
    calc _ ≤ |100 * ((lamc.re : ℝ) - (Unc.lamC dt q).re)| + |-(fxMap dt q 1) * (‖Unc.lamC dt q‖ - absl)| :=
          abs_add_le _ _
      _ = _ := by rw [abs_mul, abs_mul, abs_neg]; simp

/-! ## 6. Existence of the first-order identification (simple eigenvalue) -/

section Exists
open Matrix TrivSqZeroExt
variable {R K : Type} [Field R] [Inhabited R] [Field K]

/-- **First-order eigen-triple of a simple eigenvalue** (what `FirstOrderIdent` assumed): over a field,
    `A₀φ₀ = λ₀φ₀`, `χ₀ᵀA₀ = λ₀χ₀ᵀ`, `χ₀·φ₀ ≠ 0` and a one-dimensional eigenspace (given `χ₀·φ₀ ≠ 0` this is
    algebraic multiplicity one) ⇒ for every `A₁` there are `λ₁`, `φ₁`, `χ₁` with
    `(A₀+εA₁)(φ₀+εφ₁) = (λ₀+ελ₁)(φ₀+εφ₁)` and `(χ₀+εχ₁)ᵀ(A₀+εA₁) = (λ₀+ελ₁)(χ₀+εχ₁)ᵀ` over the dual numbers
    (`range(A₀−λ₀) = ker(χ₀ᵀ·)` by rank–nullity, `rank(A₀−λ₀)ᵀ = rank(A₀−λ₀)`). -/
theorem C17_eig_first_order_exists {n : Nat} (A : Matrix (Fin n) (Fin n) (DualNumber K))
    (φ0 χ0 : Fin n → K) (l0 : K)
    (hr : mfst A *ᵥ φ0 = l0 • φ0) (hl : χ0 ᵥ* mfst A = l0 • χ0) (hne : χ0 ⬝ᵥ φ0 ≠ 0)
    (hs : ∀ u, mfst A *ᵥ u = l0 • u → ∃ c : K, u = c • φ0) :
    ∃ (lam : DualNumber K) (φ χ : Fin n → DualNumber K),
      lam.fst = l0 ∧ vfst φ = φ0 ∧ vfst χ = χ0 ∧
      A *ᵥ φ = lam • φ ∧ χ ᵥ* A = lam • χ ∧ (χ ⬝ᵥ φ).fst ≠ 0 :=
  eig_first_order_exists A φ0 χ0 l0 hr hl hne hs

/-- **`FirstOrderIdent` holds for EVERY perturbation direction, from value-level contracts only.**
    If the recorded factors satisfy their exactness contracts — exact singular triples `b < n` with unit
    vectors, `Ki` the exact inverse of eq. 28, `rs = 1/√σ`, `sq = √σ` (`SvExact`), `OO` the exact inverse of
    `O↑ₙᵀO↑ₙ` — and `(lam0, phi, chi)` is an exact eigen-triple of `A₀ = OO·O↑ₙᵀ·O↓ₙ` with `χ·φ ≠ 0` whose
    eigenspace is one-dimensional (a SIMPLE eigenvalue), then for every `ΔH` of the shape of `H` and every
    factor `T` whose column `k` is `vec_c(ΔH)` a first-order identification exists, with
    `λ̃ = lam0 + ε·(…)`.  So the hypothesis `hid` of `C17_variance_is_sum_of_squares`,
    `C17_table_variance`, `C17_fncov_of_factor` is implied by the value-level contracts plus
    simplicity of the eigenvalue.  Stronger than the property's premise: simplicity (the code divides by
    `χ·φ`, which vanishes for a defective eigenvalue) and exactness of the LAPACK records. -/
theorem C17_first_order_ident_exists (ι : R →+* K) (H dH T U V : Mat R) (l r p N n : Nat)
    (sq sig rs : Nat → R) (Ki : Nat → Mat R) (OO : Mat R) (phi chi : Nat → K) (lam0 : K) (k : Nat)
    (hk : k < T.c) (hcol : ∀ m, m < dH.c * dH.r → T.e m k = vecC dH m)
    (hdr : dH.r = H.r) (hdc : dH.c = H.c)
    (hr : H.r = (p + 1) * l) (hc : H.c = (p + 1) * r) (h0 : 0 < H.c) (h2 : (2 : R) ≠ 0)
    (hn : n ≤ N) (hUr : U.r = H.r)
    (hsv : ∀ b, b < n → SvExact H (Ki b) (Unc.col U b) (Unc.col V b) (sig b) (rs b) (sq b))
    (hOc : OO.c = n) (hOO : toMx n n OO.e * toMx n n (ooArg (obsOf U sq N) l n).e = 1)
    (hr' : ((toMx n n OO.e * ((toMx (p * l) n (upPart (obsOf U sq N) l).e)ᵀ
              * toMx (p * l) n (dnPart (obsOf U sq N) l).e)).map ι) *ᵥ (fun j : Fin n => phi j.1)
            = lam0 • fun j : Fin n => phi j.1)
    (hl' : (fun j : Fin n => chi j.1) ᵥ* ((toMx n n OO.e * ((toMx (p * l) n
              (upPart (obsOf U sq N) l).e)ᵀ * toMx (p * l) n (dnPart (obsOf U sq N) l).e)).map ι)
            = lam0 • fun j : Fin n => chi j.1)
    (hne : (fun j : Fin n => chi j.1) ⬝ᵥ (fun j : Fin n => phi j.1) ≠ 0)
    (hsimple : ∀ u : Fin n → K,
      ((toMx n n OO.e * ((toMx (p * l) n (upPart (obsOf U sq N) l).e)ᵀ
              * toMx (p * l) n (dnPart (obsOf U sq N) l).e)).map ι) *ᵥ u = lam0 • u →
      ∃ c : K, u = c • fun j : Fin n => phi j.1) :
    ∃ lam : DualNumber K,
      FirstOrderIdent ι H dH T U V l r p N n sq sig rs Ki OO phi chi k lam ∧ lam.fst = lam0 := by
  obtain ⟨dr, dc, de⟩ := dH
  simp only at hdr hdc
  subst hdr hdc
  -- bridged matrices and the closed-form first-order singular triples
  set Hm : Matrix (Fin H.r) (Fin H.c) R := toMx H.r H.c H.e with hHm
  set dHm : Matrix (Fin H.r) (Fin H.c) R := toMx H.r H.c de with hdHm
  set lst : Fin H.c := lastIx H.c h0 with hlst
  let ub : Nat → Fin H.r → R := fun b i => Unc.col U b i.1
  let vb : Nat → Fin H.c → R := fun b j => Unc.col V b j.1
  let Kim : Nat → Matrix (Fin H.c) (Fin H.c) R := fun b => toMx H.c H.c (Ki b).e
  let ud0 : Nat → Fin H.r → DualNumber R := fun b =>
    dvec (ub b) (svDu Hm (ub b) (vb b) (sig b) lst (Kim b) dHm)
  let vd0 : Nat → Fin H.c → DualNumber R := fun b =>
    dvec (vb b) (svDv Hm (ub b) (vb b) (sig b) lst (Kim b) dHm)
  let dσ : Nat → R := fun b => svDsig (ub b) (vb b) dHm
  let ud : Nat → Nat → DualNumber R := fun b i => if h : i < H.r then ud0 b ⟨i, h⟩ else 0
  let vd : Nat → Nat → DualNumber R := fun b j => if h : j < H.c then vd0 b ⟨j, h⟩ else 0
  let sd : Nat → DualNumber R := fun b => inl (sig b) + inr (dσ b)
  let s : Nat → DualNumber R := fun b => inl (sq b) + inr (dσ b / (2 * sq b))
  have eu : ∀ b, (fun i : Fin H.r => ud b i.1) = ud0 b := by
    intro b; funext i; exact dif_pos i.2
  have ev : ∀ b, (fun j : Fin H.c => vd b j.1) = vd0 b := by
    intro b; funext j; exact dif_pos j.2
  have hsvd : ∀ b, b < n → SvFirstOrder H ⟨H.r, H.c, de⟩ (Ki b) (Unc.col U b) (Unc.col V b) (sig b)
      (rs b) (ud b) (vd b) (sd b) (s b) := by
    intro b hb
    have hx := hsv b hb
    have hσ : sig b ≠ 0 := by
      intro h; have := hx.rs_sq; rw [h, mul_zero] at this; exact zero_ne_one this
    have hsq0 : sq b ≠ 0 := by
      intro h; have := hx.sq_rs; rw [h, zero_mul] at this; exact zero_ne_one this
    have hsqsq : sq b * sq b = sig b := by
      have h1 : sq b * sq b * (rs b * rs b * sig b) = sig b := by
        have : sq b * sq b * (rs b * rs b * sig b) = (sq b * rs b) * (sq b * rs b) * sig b := by ring
        rw [this, hx.sq_rs]; ring
      rwa [hx.rs_sq, mul_one] at h1
    have hK := hx.ki_inv
    rw [C17_kiArg_bridge H H.c (Unc.col V b) (sig b) rfl h0] at hK
    obtain ⟨a1, a2, a3, a4⟩ := C17_sv_sens_exists Hm dHm (ub b) (vb b) (sig b) lst (Kim b) hσ hx.Hv
      hx.uH hx.uu hx.vv hK
    refine ⟨hx.rs_sq, hx.ki_cols, hx.ki_inv, ?_, ?_, by simp [sd], ?_, ?_, ?_, ?_, ?_, by simpa [s] using hx.sq_rs⟩
    · intro i hi
      have hi' : i < H.r := hi
      show (if h : i < H.r then ud0 b ⟨i, h⟩ else 0).fst = _
      rw [dif_pos hi']
      simp [ud0, dvec, ub]
    · intro j hj
      have hj' : j < H.c := hj
      show (if h : j < H.c then vd0 b ⟨j, h⟩ else 0).fst = _
      rw [dif_pos hj']
      simp [vd0, dvec, vb]
    · show dmat Hm dHm *ᵥ (fun j : Fin H.c => vd b j.1) = sd b • fun i : Fin H.r => ud b i.1
      rw [eu, ev]; exact a1
    · show (fun i : Fin H.r => ud b i.1) ᵥ* dmat Hm dHm = sd b • fun j : Fin H.c => vd b j.1
      rw [eu, ev]; exact a2
    · show (fun i : Fin H.r => ud b i.1) ⬝ᵥ (fun i : Fin H.r => ud b i.1) = 1
      rw [eu]; exact a3
    · show (fun j : Fin H.c => vd b j.1) ⬝ᵥ (fun j : Fin H.c => vd b j.1) = 1
      rw [ev]; exact a4
    · apply TrivSqZeroExt.ext
      · simpa [s, sd] using hsqsq
      · simp [s, sd]
        field_simp
        ring
  have hsq : ∀ b, b < n → (s b).fst = sq b := fun b _ => by simp [s]
  have hu : ∀ b, b < n → ∀ i, i < H.r → (ud b i).fst = Unc.col U b i :=
    fun b hb i hi => (hsvd b hb).u_fst i hi
  obtain ⟨W, hW, hW0⟩ := C17_first_order_inverse_exists ι (⟨H.r, H.c, de⟩ : Mat R) U l p N n sq hr hUr
    ud s hu hsq OO hOO
  set A := W * ((dlift ι (obsD 0 (p * l) n s ud))ᵀ * dlift ι (obsD l (p * l) n s ud)) with hA
  have hpl : p * l + l = H.r := by rw [hr]; ring
  have hup : toMx (p * l) n (upPart (obsOf U sq N) l).e = mfst (obsD 0 (p * l) n s ud) := by
    ext t b
    have ht : 0 + t.1 < H.r := by have := t.2; omega
    simp only [toMx, upPart, rowSlice, obsOf, mfst, Matrix.map_apply, obsD, fst_mul, hu b.1 b.2 _ ht,
      hsq b.1 b.2, Unc.col]
    ring
  have hdn : toMx (p * l) n (dnPart (obsOf U sq N) l).e = mfst (obsD l (p * l) n s ud) := by
    ext t b
    have ht : l + t.1 < H.r := by have := t.2; omega
    simp only [toMx, dnPart, rowSlice, obsOf, mfst, Matrix.map_apply, obsD, fst_mul, hu b.1 b.2 _ ht,
      hsq b.1 b.2, Unc.col]
    ring
  have hA0 : mfst A = (toMx n n OO.e * ((toMx (p * l) n (upPart (obsOf U sq N) l).e)ᵀ
      * toMx (p * l) n (dnPart (obsOf U sq N) l).e)).map ι := by
    rw [hA, mfst_mul, mfst_mul, mfst_transpose, mfst_dlift, mfst_dlift, hW0, hup, hdn, Matrix.map_mul,
      Matrix.map_mul, Matrix.transpose_map]
  rw [← hA0] at hr' hl' hsimple
  obtain ⟨lam, φ, χ, hlam, hφ, hχ, hev, hlv, hne'⟩ :=
    eig_first_order_exists A (fun j : Fin n => phi j.1) (fun j : Fin n => chi j.1) lam0 hr' hl' hne
      hsimple
  refine ⟨lam, ⟨hk, hcol, rfl, rfl, hr, hc, h0, h2, hn, hUr, hOc, hOO, ud, vd, sd, s, W, A, φ, χ, hsvd, hsq,
    fun j => congrFun hφ j, fun j => congrFun hχ j, hW, hA, hev, hlv, hne'⟩, hlam⟩

end Exists

/-! ## 7. The composed statement from value-level contracts only -/

section Exact
open Matrix TrivSqZeroExt

/-- **`Fn_cov[jj, ii]` of the factor of `build_hank` is `Σ_k (D fn · ε_k λ)²` — no first-order object assumed.**
    `T` the factor `covFactor` builds from `Yf`, `Yp` (`H = Yf·Ypᵀ`, `ΔH_k = (H_k − H)·s`); tables from the
    model of `SSI_poles` on the model's `Q1..Q3` of `SSI_fast`.  If the recorded factors are exact
    (`SvExact` for the singular triples `b < ii`, `OO` the inverse of `O↑ᵀO↑` at order `ii`, `lam_c`, `np.abs`
    exact) and the `jj`-th recorded eigen-triple of order `ii` is an exact eigen-triple of
    `A₀ = OO·O↑ᵀ·O↓` for a SIMPLE eigenvalue off the branch cut of `log` (`log λ ≠ 0`), then for every block
    `k < nb` a first-order identification of `H + ε·ΔH_k` exists, its eigenvalue is `lam_d[jj] + ε·ε_k(λ)`,
    and the stored variance is the sum over the blocks of the squared derivative of `fn` along `ε_k(λ)`. -/
theorem C17_fncov_of_factor_exact (dt : ℝ) (Yf Yp : Mat ℝ) (nb N : Nat) (s : ℝ) (T U V : Mat ℝ)
    (hT : covFactor Yf Yp nb N s = .ok T) (l r p ordmax : Nat)
    (hYf : Yf.r = (p + 1) * l) (hYp : Yp.r = (p + 1) * r) (hr0 : 0 < Yp.r) (hUr : U.r = Yf.r)
    (sq sig rs : Nat → ℝ) (Ki : Nat → Mat ℝ) (recs : Nat → OrderRec ℝ ℂ) (t : CovTabs ℝ)
    (hnp : ∀ ii, 1 ≤ ii → ii ≤ ordmax → (recs ii).np ≤ ordmax)
    (ii jj : Nat) (h1 : 1 ≤ ii) (h2 : ii ≤ ordmax) (hj : jj < (recs ii).np)
    (hlc : (recs ii).lamc jj = lamC dt ![((recs ii).lamd jj).re, ((recs ii).lamd jj).im])
    (habsd : (recs ii).absd jj = ‖(recs ii).lamd jj‖)
    (habsc : (recs ii).absc jj = ‖(recs ii).lamc jj‖)
    (hsv : ∀ b, b < ii → SvExact (mulT Yf Yp) (Ki b) (Unc.col U b) (Unc.col V b) (sig b) (rs b) (sq b))
    (hOc : (recs ii).oo.c = ii)
    (hOO : toMx ii ii (recs ii).oo.e * toMx ii ii (ooArg (obsOf U sq ordmax) l ii).e = 1)
    (hr' : ((toMx ii ii (recs ii).oo.e * ((toMx (p * l) ii (upPart (obsOf U sq ordmax) l).e)ᵀ
              * toMx (p * l) ii (dnPart (obsOf U sq ordmax) l).e)).map Complex.ofRealHom)
            *ᵥ (fun m : Fin ii => Unc.col (recs ii).rv jj m.1)
          = (recs ii).lamd jj • fun m : Fin ii => Unc.col (recs ii).rv jj m.1)
    (hl' : (fun m : Fin ii => (starRingEnd ℂ) ((recs ii).lv.e m.1 jj)) ᵥ*
            ((toMx ii ii (recs ii).oo.e * ((toMx (p * l) ii (upPart (obsOf U sq ordmax) l).e)ᵀ
              * toMx (p * l) ii (dnPart (obsOf U sq ordmax) l).e)).map Complex.ofRealHom)
          = (recs ii).lamd jj • fun m : Fin ii => (starRingEnd ℂ) ((recs ii).lv.e m.1 jj))
    (hne : (fun m : Fin ii => (starRingEnd ℂ) ((recs ii).lv.e m.1 jj))
            ⬝ᵥ (fun m : Fin ii => Unc.col (recs ii).rv jj m.1) ≠ 0)
    (hsimple : ∀ u : Fin ii → ℂ,
      ((toMx ii ii (recs ii).oo.e * ((toMx (p * l) ii (upPart (obsOf U sq ordmax) l).e)ᵀ
              * toMx (p * l) ii (dnPart (obsOf U sq ordmax) l).e)).map Complex.ofRealHom) *ᵥ u
          = (recs ii).lamd jj • u →
      ∃ c : ℂ, u = c • fun m : Fin ii => Unc.col (recs ii).rv jj m.1)
    (hs : (recs ii).lamd jj ∈ Complex.slitPlane)
    (hμ : lamC dt ![((recs ii).lamd jj).re, ((recs ii).lamd jj).im] ≠ 0) :
    let Obs := obsOf U sq ordmax
    let Q := q1234 (mulT Yf Yp) T (upPart Obs l) (dnPart Obs l) l r p ordmax U V sig rs Ki
    covTables Complex.ofRealHom Complex.re Complex.im (starRingEnd ℂ) (fun x : ℝ => |x|) Real.pi dt
        ordmax Q.1 Q.2.1 Q.2.2.1 recs = some t →
    ∃ lam : Nat → DualNumber ℂ,
      (∀ k, k < nb → FirstOrderIdent Complex.ofRealHom (mulT Yf Yp) (devMat Yf Yp N nb s k) T U V l r p
          ordmax ii sq sig rs Ki (recs ii).oo (Unc.col (recs ii).rv jj)
          (fun m => (starRingEnd ℂ) ((recs ii).lv.e m jj)) k (lam k) ∧
        (lam k).fst = (recs ii).lamd jj) ∧
      t.fn jj ii = some (∑ k ∈ range nb,
        (fderiv ℝ (fxMap dt) ![((recs ii).lamd jj).re, ((recs ii).lamd jj).im]
          ![(lam k).snd.re, (lam k).snd.im] 0) ^ 2) := by
  intro Obs Q ht
  have hc : T.c = nb := (C17_factor_shape Yf Yp nb N s T hT).2
  have hex : ∀ k, k < nb → ∃ lam : DualNumber ℂ,
      FirstOrderIdent Complex.ofRealHom (mulT Yf Yp) (devMat Yf Yp N nb s k) T U V l r p ordmax ii sq sig rs
        Ki (recs ii).oo (Unc.col (recs ii).rv jj) (fun m => (starRingEnd ℂ) ((recs ii).lv.e m jj)) k lam ∧
      lam.fst = (recs ii).lamd jj := fun k hk =>
    C17_first_order_ident_exists Complex.ofRealHom (mulT Yf Yp) (devMat Yf Yp N nb s k) T U V l r p ordmax
      ii sq sig rs Ki (recs ii).oo _ _ ((recs ii).lamd jj) k (hc ▸ hk)
      (fun m _ => C17_factor_column_is_vec Yf Yp nb N s T hT k m) rfl rfl hYf hYp hr0 two_ne_zero h2 hUr
      hsv hOc hOO hr' hl' hne hsimple
  choose lam hlam using hex
  refine ⟨fun k => if h : k < nb then lam k h else 0, fun k hk => ?_, ?_⟩
  · simp only [dif_pos hk]
    exact hlam k hk
  · have := C17_table_variance dt (mulT Yf Yp) T U V (fun k => devMat Yf Yp N nb s k) l r p ordmax sq sig
      rs Ki recs t hnp ii jj h1 h2 hj hlc habsd habsc (fun k => if h : k < nb then lam k h else 0)
      (fun k hk => by
        have hk' : k < nb := hc ▸ hk
        simp only [dif_pos hk']
        exact (hlam k hk').1)
      (fun k hk => by
        have hk' : k < nb := hc ▸ hk
        simp only [dif_pos hk']
        exact (hlam k hk').2) hs hμ ht
    rw [this, hc]

/-- **The same through `build_hank`**: `(H, T) = build_hank(Y, Yref, br = p, "cov_mm", calc_unc=True, nb)` as the
    model `buildHankUnc` computes them; `l = Y.shape[0]`, `r = Yref.shape[0] ≥ 1`.  All shape contracts hold by
    construction; what is assumed is exactness of the recorded factors and simplicity of the eigenvalue. -/
theorem C17_fncov_of_build_hank_exact (dt : ℝ) (Y Yref : Mat ℝ) (p nb : Nat) (s0 s : ℝ) (H T U V : Mat ℝ)
    (hB : buildHankUnc Y Yref p nb s0 s = (H, .ok T)) (hr0 : 0 < Yref.r) (ordmax : Nat)
    (hUr : U.r = (p + 1) * Y.r)
    (sq sig rs : Nat → ℝ) (Ki : Nat → Mat ℝ) (recs : Nat → OrderRec ℝ ℂ) (t : CovTabs ℝ)
    (hnp : ∀ ii, 1 ≤ ii → ii ≤ ordmax → (recs ii).np ≤ ordmax)
    (ii jj : Nat) (h1 : 1 ≤ ii) (h2 : ii ≤ ordmax) (hj : jj < (recs ii).np)
    (hlc : (recs ii).lamc jj = lamC dt ![((recs ii).lamd jj).re, ((recs ii).lamd jj).im])
    (habsd : (recs ii).absd jj = ‖(recs ii).lamd jj‖)
    (habsc : (recs ii).absc jj = ‖(recs ii).lamc jj‖)
    (hsv : ∀ b, b < ii → SvExact H (Ki b) (Unc.col U b) (Unc.col V b) (sig b) (rs b) (sq b))
    (hOc : (recs ii).oo.c = ii)
    (hOO : toMx ii ii (recs ii).oo.e * toMx ii ii (ooArg (obsOf U sq ordmax) Y.r ii).e = 1)
    (hr' : ((toMx ii ii (recs ii).oo.e * ((toMx (p * Y.r) ii (upPart (obsOf U sq ordmax) Y.r).e)ᵀ
              * toMx (p * Y.r) ii (dnPart (obsOf U sq ordmax) Y.r).e)).map Complex.ofRealHom)
            *ᵥ (fun m : Fin ii => Unc.col (recs ii).rv jj m.1)
          = (recs ii).lamd jj • fun m : Fin ii => Unc.col (recs ii).rv jj m.1)
    (hl' : (fun m : Fin ii => (starRingEnd ℂ) ((recs ii).lv.e m.1 jj)) ᵥ*
            ((toMx ii ii (recs ii).oo.e * ((toMx (p * Y.r) ii (upPart (obsOf U sq ordmax) Y.r).e)ᵀ
              * toMx (p * Y.r) ii (dnPart (obsOf U sq ordmax) Y.r).e)).map Complex.ofRealHom)
          = (recs ii).lamd jj • fun m : Fin ii => (starRingEnd ℂ) ((recs ii).lv.e m.1 jj))
    (hne : (fun m : Fin ii => (starRingEnd ℂ) ((recs ii).lv.e m.1 jj))
            ⬝ᵥ (fun m : Fin ii => Unc.col (recs ii).rv jj m.1) ≠ 0)
    (hsimple : ∀ u : Fin ii → ℂ,
      ((toMx ii ii (recs ii).oo.e * ((toMx (p * Y.r) ii (upPart (obsOf U sq ordmax) Y.r).e)ᵀ
              * toMx (p * Y.r) ii (dnPart (obsOf U sq ordmax) Y.r).e)).map Complex.ofRealHom) *ᵥ u
          = (recs ii).lamd jj • u →
      ∃ c : ℂ, u = c • fun m : Fin ii => Unc.col (recs ii).rv jj m.1)
    (hs : (recs ii).lamd jj ∈ Complex.slitPlane)
    (hμ : lamC dt ![((recs ii).lamd jj).re, ((recs ii).lamd jj).im] ≠ 0) :
    let Obs := obsOf U sq ordmax
    let Q := q1234 H T (upPart Obs Y.r) (dnPart Obs Y.r) Y.r Yref.r p ordmax U V sig rs Ki
    covTables Complex.ofRealHom Complex.re Complex.im (starRingEnd ℂ) (fun x : ℝ => |x|) Real.pi dt
        ordmax Q.1 Q.2.1 Q.2.2.1 recs = some t →
    ∃ lam : Nat → DualNumber ℂ,
      (∀ k, k < nb → (lam k).fst = (recs ii).lamd jj) ∧
      t.fn jj ii = some (∑ k ∈ range nb,
        (fderiv ℝ (fxMap dt) ![((recs ii).lamd jj).re, ((recs ii).lamd jj).im]
          ![(lam k).snd.re, (lam k).snd.im] 0) ^ 2) := by
  unfold buildHankUnc at hB
  obtain ⟨rfl, hT⟩ := Prod.mk.inj hB
  intro Obs Q ht
  obtain ⟨lam, a, b⟩ := C17_fncov_of_factor_exact dt (hankYf Y p s0) (hankYp Y.c Yref p s0) nb
    (Y.c - p - (p + 1)) s T U V hT Y.r Yref.r p ordmax rfl rfl (Nat.mul_pos (Nat.succ_pos p) hr0) hUr sq sig
    rs Ki recs t hnp ii jj h1 h2 hj hlc habsd habsc hsv hOc hOO hr' hl' hne hsimple hs hμ ht
  exact ⟨lam, fun k hk => (a k hk).2, b⟩

end Exact

/-! ## Non-vacuity -/

namespace ExTab
open PV.C17.ExScale

/-- `Q1..Q3` of the order-2 instance `ExScale` (two channels, one block row) -/
def Q : Mat ℚ × Mat ℚ × Mat ℚ × Mat ℚ :=
  q1234 H T (upPart (obsOf U sq 2) 2) (dnPart (obsOf U sq 2) 2) 2 1 1 2 U V sig rs Ki
/-- arbitrary per-order records with `len(lam_c) = ii` -/
def recs : Nat → OrderRec ℚ ℚ := fun ii =>
  ⟨ii, fun j => 1 + j, fun j => 1 / 2 + j, fun _ => 2, fun _ => 3, ⟨2, 2, fun i j => 1 + i + 2 * j⟩,
    ⟨2, 2, fun i j => 1 + 2 * i + j⟩, ⟨ii, ii, OO.e⟩⟩

/-- `C17_table_cells` on `ordmax = 2`: the hypothesis holds (`len(lam_c) = ii ≤ 2`), the run succeeds, the three
    written cells `(0,1)`, `(0,2)`, `(1,2)` hold three different non-zero values, column 0 and cell `(1,1)`
    are NaN (`absR := id`, `im := x/3`: the theorem is for arbitrary `abs`, `real`, `imag`). -/
example : ∃ t, covTables (K := ℚ) id id (fun x => x / 3) id id 3 (1 / 100) 2 Q.1 Q.2.1 Q.2.2.1 recs
      = some t ∧
    t.fn 0 1 = some (390625 / 944784) ∧ t.fn 0 2 = some (15625 / 11573604) ∧
    t.fn 1 2 = some (15625 / 729) ∧ t.fn 0 0 = none ∧ t.fn 1 0 = none ∧ t.fn 1 1 = none ∧
    t.xi 1 1 = none ∧ t.xi 1 2 = some (-1562500 / 6561) := by
  have hnp : ∀ ii, 1 ≤ ii → ii ≤ 2 → (recs ii).np ≤ 2 := fun ii _ h => h
  obtain ⟨t, h, hfn, hxi⟩ := C17_table_cells (K := ℚ) id id (fun x => x / 3) id id 3 (1 / 100) 2
    Q.1 Q.2.1 Q.2.2.1 recs hnp
  refine ⟨t, h, ?_, ?_, ?_, ?_, ?_, ?_, ?_, ?_⟩
  · rw [hfn]; decide +kernel
  · rw [hfn]; decide +kernel
  · rw [hfn]; decide +kernel
  · rw [hfn]; decide +kernel
  · rw [hfn]; decide +kernel
  · rw [hfn]; decide +kernel
  · rw [hxi]; decide +kernel
  · rw [hxi]; decide +kernel

/-- `C17_table_index_error`: an order-1 record claiming two poles with `ordmax = 1`. -/
example : covTables (K := ℚ) id id (fun x => x / 3) id id 3 (1 / 100) 1 Q.1 Q.2.1 Q.2.2.1
    (fun _ => recs 2) = none :=
  C17_table_index_error _ _ _ _ _ _ _ 1 _ _ _ _ (le_refl 1) (by decide)

end ExTab

/-! ### existence of the first-order identification: order 2, arbitrary direction (over `ℚ`) -/

namespace ExTab
open PV.C17.ExScale Matrix TrivSqZeroExt

/-- **`C17_first_order_ident_exists` at order `n = 2`, for EVERY direction `ΔH`** (the instance `ExScale`: two
    channels, exact rational SVD, `A₀ = [[1/3, 1/3], [2/3, 2/3]]` with the simple eigenvalue `1`,
    `φ = (1, 2)`, `χ = (1, 1)`): all hypotheses hold jointly, so `FirstOrderIdent` — so far exhibited at order
    1 and along `ΔH = H` only — is satisfiable for arbitrary entries `f` of `ΔH`. -/
theorem ident2_any (f : Nat → Nat → ℚ) :
    ∃ lam : DualNumber ℚ,
      FirstOrderIdent (RingHom.id ℚ) H ⟨4, 2, f⟩ ⟨8, 1, fun m _ => vecC (⟨4, 2, f⟩ : Mat ℚ) m⟩ U V 2 1 1 2 2
        sq sig rs Ki OO phi chi 0 lam ∧ lam.fst = 1 := by
  have hA : ((toMx 2 2 OO.e * ((toMx (1 * 2) 2 (upPart (obsOf U sq 2) 2).e)ᵀ
      * toMx (1 * 2) 2 (dnPart (obsOf U sq 2) 2).e)).map (RingHom.id ℚ))
      = !![1 / 3, 1 / 3; 2 / 3, 2 / 3] := by decide +kernel
  refine C17_first_order_ident_exists (RingHom.id ℚ) H ⟨4, 2, f⟩ _ U V 2 1 1 2 2 sq sig rs Ki OO phi chi 1 0
    Nat.one_pos (fun m _ => rfl) rfl rfl rfl rfl Nat.two_pos two_ne_zero (le_refl 2) rfl svExact rfl
    (by decide +kernel) (by decide +kernel) (by decide +kernel) (by decide +kernel) ?_
  intro u hu
  rw [hA] at hu
  have h0 := congrFun hu 0
  simp [Matrix.mulVec, dotProduct, Fin.sum_univ_two] at h0
  refine ⟨u 0, ?_⟩
  funext j
  fin_cases j
  · simp [phi]
  · simp [phi]; linarith

/-- … and on the generic direction `ΔH[i, j] = i + 2j + 1` the first-order eigenvalue perturbation is a
    non-zero number, equal to the model's `JaohT[0]` (`C17_lambda_first_order_bundled`). -/
example : ∃ lam : DualNumber ℚ,
    FirstOrderIdent (RingHom.id ℚ) H ⟨4, 2, fun i j => (i + 2 * j + 1 : ℕ)⟩
      ⟨8, 1, fun m _ => vecC (⟨4, 2, fun i j => ((i + 2 * j + 1 : ℕ) : ℚ)⟩ : Mat ℚ) m⟩ U V 2 1 1 2 2
      sq sig rs Ki OO phi chi 0 lam ∧ lam.fst = 1 ∧ lam.snd ≠ 0 := by
  obtain ⟨lam, h, h0⟩ := ident2_any (fun i j => ((i + 2 * j + 1 : ℕ) : ℚ))
  refine ⟨lam, h, h0, ?_⟩
  have := C17_lambda_first_order_bundled _ _ _ _ _ _ _ _ _ _ _ _ _ _ _ _ _ _ _ _ h
  simp only [h0] at this
  rw [← this]
  decide +kernel

end ExTab

/-! ### the composed statement over `ℝ`/`ℂ`: factor of `covFactor`, table, exact contracts (order 1) -/

namespace ExReal
open Matrix TrivSqZeroExt

/-- stacked data with `Yf·Ypᵀ = ExVec.H` (one channel, one block row): `Yf = H`, `Yp = I`; two columns,
    `N = 3`, `nb = 2` blocks of `Nb = 1` column. -/
noncomputable def Yf : Mat ℝ := ExVec.H ℝ
noncomputable def Yp : Mat ℝ := ⟨2, 2, fun i j => if i = j then 1 else 0⟩
noncomputable def recs (dt : ℝ) : Nat → OrderRec ℝ ℂ := fun _ =>
  ⟨1, fun _ => 4 / 3, fun _ => lamC dt ![(4 / 3 : ℂ).re, (4 / 3 : ℂ).im], fun _ => ‖(4 / 3 : ℂ)‖,
    fun _ => ‖lamC dt ![(4 / 3 : ℂ).re, (4 / 3 : ℂ).im]‖, ⟨1, 1, fun _ _ => 1⟩, ⟨1, 1, fun _ _ => 1⟩,
    ExVec.OO ℝ⟩

theorem hH : toMx 2 2 (mulT Yf Yp).e = toMx 2 2 (ExVec.H ℝ).e := by
  ext i j
  fin_cases i <;> fin_cases j <;>
    simp [toMx, mulT, Yf, Yp, sumTo_eq, ExVec.H]

theorem svExact : SvExact (mulT Yf Yp) (ExVec.Ki ℝ) (Unc.col (ExVec.U ℝ) 0) (Unc.col (ExVec.U ℝ) 0) 4
    (1 / 2) 2 := by
  obtain ⟨h1, h2, h3⟩ := ExVec.sv_value (R := ℝ)
  have hK := ExVec.ki_inv (R := ℝ)
  rw [C17_kiArg_bridge (ExVec.H ℝ) 2 (Unc.col (ExVec.U ℝ) 0) 4 rfl (by decide)] at hK
  refine ⟨?_, ?_, h3, h3, by norm_num, by norm_num, rfl, ?_⟩
  · show toMx 2 2 (mulT Yf Yp).e *ᵥ _ = _
    rw [hH]; exact h1
  · show _ ᵥ* toMx 2 2 (mulT Yf Yp).e = _
    rw [hH]; exact h2
  · show toMx 2 2 (ExVec.Ki ℝ).e * toMx 2 2 (kiArg (mulT Yf Yp) 2 (Unc.col (ExVec.U ℝ) 0) 4).e = 1
    rw [C17_kiArg_bridge (mulT Yf Yp) 2 (Unc.col (ExVec.U ℝ) 0) 4 rfl (by decide)]
    show toMx 2 2 (ExVec.Ki ℝ).e * svKarg (toMx 2 2 (mulT Yf Yp).e) _ 4 _ = 1
    rw [hH]; exact hK

theorem hOO : toMx 1 1 (ExVec.OO ℝ).e * toMx 1 1 (ooArg (obsOf (ExVec.U ℝ) (fun _ => (2 : ℝ)) 1) 1 1).e = 1 := by
  ext i j
  have hi : i = 0 := Subsingleton.elim _ _
  have hj : j = 0 := Subsingleton.elim _ _
  subst hi hj
  simp [toMx, ExVec.OO, ooArg, obsOf, Mat.mul, Mat.transpose, ExVec.U, sumTo, Matrix.mul_apply]
  norm_num

/-- the `1 × 1` state matrix `A₀ = OO·O↑ᵀ·O↓ = 25/36 · 6/5 · 8/5 = 4/3` -/
theorem hA0 : ((toMx 1 1 (ExVec.OO ℝ).e * ((toMx (1 * 1) 1 (upPart (obsOf (ExVec.U ℝ) (fun _ => (2 : ℝ)) 1) 1).e)ᵀ
      * toMx (1 * 1) 1 (dnPart (obsOf (ExVec.U ℝ) (fun _ => (2 : ℝ)) 1) 1).e)).map Complex.ofRealHom)
    = fun _ _ => (4 / 3 : ℂ) := by
  ext i j
  simp [toMx, ExVec.OO, obsOf, upPart, dnPart, rowSlice, ExVec.U, Matrix.mul_apply]
  norm_num

/-- **All hypotheses of `C17_fncov_of_factor_exact` (hence of `C17_fncov_of_factor`, `C17_table_variance`,
    `C17_first_order_ident_exists` over `ℝ`/`ℂ`) hold jointly**, with a factor that `covFactor` itself
    builds (two blocks, `s = 1/√2`): the table cell `Fn_cov[0, 1]` of the model run is the sum over the two
    blocks of the squared directional derivatives of `fn`. -/
example (dt : ℝ) (hdt : dt = 1 / 100) : ∃ (T : Mat ℝ) (t : CovTabs ℝ) (lam : Nat → DualNumber ℂ),
    covFactor Yf Yp 2 3 (1 / Real.sqrt 2) = .ok T ∧
    covTables Complex.ofRealHom Complex.re Complex.im (starRingEnd ℂ) (fun x : ℝ => |x|) Real.pi dt 1
      (q1234 (mulT Yf Yp) T (upPart (obsOf (ExVec.U ℝ) (fun _ => 2) 1) 1)
        (dnPart (obsOf (ExVec.U ℝ) (fun _ => 2) 1) 1) 1 1 1 1 (ExVec.U ℝ) (ExVec.U ℝ) (fun _ => 4)
        (fun _ => 1 / 2) (fun _ => ExVec.Ki ℝ)).1
      (q1234 (mulT Yf Yp) T (upPart (obsOf (ExVec.U ℝ) (fun _ => 2) 1) 1)
        (dnPart (obsOf (ExVec.U ℝ) (fun _ => 2) 1) 1) 1 1 1 1 (ExVec.U ℝ) (ExVec.U ℝ) (fun _ => 4)
        (fun _ => 1 / 2) (fun _ => ExVec.Ki ℝ)).2.1
      (q1234 (mulT Yf Yp) T (upPart (obsOf (ExVec.U ℝ) (fun _ => 2) 1) 1)
        (dnPart (obsOf (ExVec.U ℝ) (fun _ => 2) 1) 1) 1 1 1 1 (ExVec.U ℝ) (ExVec.U ℝ) (fun _ => 4)
        (fun _ => 1 / 2) (fun _ => ExVec.Ki ℝ)).2.2.1 (recs dt) = some t ∧
    (∀ k, k < 2 → (lam k).fst = (4 / 3 : ℂ)) ∧
    t.fn 0 1 = some (∑ k ∈ range 2,
      (fderiv ℝ (fxMap dt) ![(4 / 3 : ℂ).re, (4 / 3 : ℂ).im] ![(lam k).snd.re, (lam k).snd.im] 0) ^ 2) := by
  obtain ⟨T, hT⟩ : ∃ T, covFactor Yf Yp 2 3 (1 / Real.sqrt 2) = .ok T := ⟨_, rfl⟩
  have hnp : ∀ ii, 1 ≤ ii → ii ≤ 1 → ((recs dt) ii).np ≤ 1 := fun _ _ _ => le_refl 1
  obtain ⟨t, ht, -, -⟩ := C17_table_cells (⇑Complex.ofRealHom) Complex.re Complex.im (starRingEnd ℂ)
    (fun x : ℝ => |x|) Real.pi dt 1
    (q1234 (mulT Yf Yp) T (upPart (obsOf (ExVec.U ℝ) (fun _ => 2) 1) 1)
      (dnPart (obsOf (ExVec.U ℝ) (fun _ => 2) 1) 1) 1 1 1 1 (ExVec.U ℝ) (ExVec.U ℝ) (fun _ => 4)
      (fun _ => 1 / 2) (fun _ => ExVec.Ki ℝ)).1 _ _ (recs dt) hnp
  have h43 : (Complex.ofRealHom (4 / 3 : ℝ)) = (4 / 3 : ℂ) := by simp
  have hre : (4 / 3 : ℂ).re = 4 / 3 := by rw [← h43]; simp
  have him : (4 / 3 : ℂ).im = 0 := by rw [← h43]; simp
  have hone : (fun m : Fin 1 => (starRingEnd ℂ) (((recs dt) 1).lv.e m.1 0)) = fun _ => (1 : ℂ) := by
    funext m; simp [recs]
  have hphi : (fun m : Fin 1 => Unc.col ((recs dt) 1).rv 0 m.1) = fun _ => (1 : ℂ) := by
    funext m; simp [recs, Unc.col]
  obtain ⟨lam, h1, h2⟩ := C17_fncov_of_factor_exact dt Yf Yp 2 3 (1 / Real.sqrt 2) T (ExVec.U ℝ) (ExVec.U ℝ)
    hT 1 1 1 1 rfl rfl Nat.two_pos rfl (fun _ => 2) (fun _ => 4) (fun _ => 1 / 2) (fun _ => ExVec.Ki ℝ)
    (recs dt) t hnp 1 0 (le_refl 1) (le_refl 1) Nat.one_pos rfl rfl rfl
    (fun b hb => by
      obtain rfl : b = 0 := by omega
      exact svExact)
    rfl hOO
    (by
      rw [show ((recs dt) 1).oo = ExVec.OO ℝ from rfl, hA0, hphi]
      ext i; simp [Matrix.mulVec, dotProduct, recs])
    (by
      rw [show ((recs dt) 1).oo = ExVec.OO ℝ from rfl, hA0, hone]
      ext i; simp [Matrix.vecMul, dotProduct, recs])
    (by rw [hone, hphi]; simp [dotProduct])
    (by
      intro u _
      refine ⟨u 0, ?_⟩
      rw [hphi]
      funext j
      rw [Subsingleton.elim j 0]
      simp)
    (by
      show (4 / 3 : ℂ) ∈ Complex.slitPlane
      rw [Complex.mem_slitPlane_iff]; left; rw [hre]; norm_num)
    (by
      show lamC dt ![(4 / 3 : ℂ).re, (4 / 3 : ℂ).im] ≠ 0
      rw [hre, him, hdt]
      unfold lamC
      simp only [Matrix.cons_val_zero, Matrix.cons_val_one, Complex.ofReal_zero, zero_mul, add_zero]
      have hpos : (0 : ℝ) < Real.log (4 / 3) := Real.log_pos (by norm_num)
      rw [← Complex.ofReal_log (by norm_num : (0 : ℝ) ≤ 4 / 3), ← Complex.ofReal_mul]
      exact_mod_cast (mul_pos hpos (by norm_num)).ne')
    ht
  exact ⟨T, t, lam, hT, ht, fun k hk => (h1 k hk).2, h2⟩

/-- structural hypotheses of `C17_fncov_of_build_hank[_exact]` on a record (one channel, 6 samples, `p = 1`,
    `nb = 2`): the model of `build_hank` returns a factor, the reference set is non-empty.  (The exactness
    hypotheses are exhibited jointly at the `covFactor` level above: no record with a rational SVD of its
    Hankel matrix was found.) -/
example : ∃ H T, buildHankUnc (⟨1, 6, fun _ t => ((t * t + 1 : ℕ) : ℝ)⟩ : Mat ℝ)
    ⟨1, 6, fun _ t => ((t * t + 1 : ℕ) : ℝ)⟩ 1 2 1 1 = (H, .ok T) ∧
    0 < (⟨1, 6, fun _ t => ((t * t + 1 : ℕ) : ℝ)⟩ : Mat ℝ).r := ⟨_, _, rfl, Nat.one_pos⟩

end ExReal

/-! ### blocks and the pole map -/

namespace ExBlocks
/-- stacked data with `N − 1 = 5` columns (`N = 6`) -/
def Yf : Mat ℚ := ⟨2, 5, fun i t => (((t + 1) * (i + 1) + t * t : ℕ) : ℚ)⟩
def Yp : Mat ℚ := ⟨2, 5, fun j t => (((t + j) % 3 : ℕ) : ℚ) - 1⟩

/-- hypotheses of `C17_block_columns`, both branches: `N = 6`, `nb = 3` (`nb ∣ N`: last block clipped to
    `Nb − 1 = 1` column, nothing left over) and `N = 6`, `nb = 4` (`nb ∤ N`: four full blocks of one column,
    `6 mod 4 − 1 = 1` column left over). -/
example : (1 ≤ 3 ∧ 1 ≤ 6 / 3 ∧ 3 ∣ 6 ∧ blockCols (6 - 1) (6 / 3) (3 - 1) = (4, 5) ∧
      leftoverCols (6 - 1) (6 / 3) 3 = (5, 5)) ∧
    (1 ≤ 4 ∧ 1 ≤ 6 / 4 ∧ ¬ 4 ∣ 6 ∧ blockCols (6 - 1) (6 / 4) 3 = (3, 4) ∧
      leftoverCols (6 - 1) (6 / 4) 4 = (4, 5)) := by decide

/-- hypotheses of `C17_block_mean_clipped` / `C17_last_block_bias` (`Yf.c = N − 1`, `nb ∣ N`, `Nb ≠ 0`), and the
    two conclusions on the data: the three block estimates sum to `3·H` although the last one is
    `(Nb−1)/Nb = 1/2` of the moment estimate over its single column (`6·Yf[0,4]·Yp[1,4] = 6·21·1`, halved). -/
example : Yf.c = 6 - 1 ∧ 3 ∣ 6 ∧ ((6 / 3 : ℕ) : ℚ) ≠ 0 ∧ 1 ≤ 3 ∧ 1 ≤ 6 / 3 ∧
    ∑ k ∈ range 3, (blockEst Yf Yp 6 (6 / 3) k).e 0 1 = 3 * (mulT Yf Yp).e 0 1 ∧
    (mulT Yf Yp).e 0 1 ≠ 0 ∧
    (blockEst Yf Yp 6 (6 / 3) 2).e 0 1 = 6 * 21 * 1 / 2 := by
  refine ⟨rfl, by decide, by norm_num, by decide, by decide, ?_, ?_, ?_⟩
  · exact C17_block_mean_clipped Yf Yp 6 3 0 1 rfl (by decide) (by norm_num)
  · decide +kernel
  · decide +kernel

/-- hypotheses of `C17_fxMap_fnOf_xiOf`: `lam_d = 4/3`, `dt = 1/100` (`log(4/3)·100 ≠ 0`), records
    `absl = 28`, `twoPi = 6`. -/
example : Unc.lamC (1 / 100) ![4 / 3, 0] ≠ 0 ∧ (0 : ℚ) < 28 ∧ (0 : ℚ) < 6 := by
  refine ⟨?_, by norm_num, by norm_num⟩
  unfold Unc.lamC
  simp only [Matrix.cons_val_zero, Matrix.cons_val_one, Complex.ofReal_zero, zero_mul, add_zero]
  have hpos : (0 : ℝ) < Real.log (4 / 3) := Real.log_pos (by norm_num)
  rw [← Complex.ofReal_log (by norm_num : (0 : ℝ) ≤ 4 / 3), ← Complex.ofReal_mul]
  exact_mod_cast (mul_pos hpos (by norm_num)).ne'

end ExBlocks

end PV.C17
