import PyomaVerif.Lemmas.UncTable
import PyomaVerif.Props.C17Vec
import PyomaVerif.Lemmas.FreeVib
/-!
# C17 (structure) — the tables `Fn_cov` / `Xi_cov`, the factor of `build_hank` fed into the capstone,
the clipped last block, and `fxMap` = the pole map of `ac2mp`

* `C17_table_cells` — closed form of the two nested write loops of `SSI_poles` (`covTables`): which cell
  receives which pole's `|cov_fx[0,0]|`, `|cov_fx[1,0]|`; NaN elsewhere.
* `C17_table_variance` — the capstone `C17_variance_is_sum_of_squares` for every cell of that table.
* `C17_factor_column_is_vec`, `C17_fncov_of_build_hank` — the factor `covFactor`/`buildHankUnc` actually
  builds, column `k` = `vec_c((H_k − H)·s)`, fed into the capstone.
* `C17_blockEst_explicit`, `C17_block_columns`, `C17_block_mean_general`, `C17_block_mean_clipped`,
  `C17_last_block_bias` — which columns enter which block, for every `nb`, `N`.
* `C17_fxMap_is_ac2mp`, `C17_fxMap_fnOf_xiOf` — `fxMap` is the map `ac2mp` computes (`FreeVib.lamC`,
  `fnR`, `xiR`; `Realise.fnOf`, `xiOf` on the records), damping in percent.
-/
namespace PV.C17
open PV PV.Mat PV.Unc Finset

/-! ## 1. The tables -/

section Table
variable {R K : Type} [Field R] [Inhabited R] [Field K] [Inhabited K]

/-- the value the pole loop computes for pole `jj` at order `n`: `cov_fx[0, 0]` is the model pass
    `poleVar` on the `jj`-th eigenvalue, the `jj`-th column of `r_eigvt`, the conjugated `jj`-th column of
    `l_eigvt`, and `Jfx_l` of the `jj`-th `lam_c`, `lam_d`. -/
theorem C17_covFx_is_poleVar (ι : R → K) (re im : K → R) (conj : K → K) (pi dt : R) (n ordmax : Nat)
    (Q1 Q2 Q3 : Mat R) (rc : OrderRec R K) (jj : Nat) :
    (covFx ι re im conj pi dt n (pnQ1 n ordmax Q1) (pnQ23 n ordmax Q2 Q3) rc jj).e 0 0
      = poleVar ι re im n ordmax Q1 Q2 Q3 rc.oo (rc.lamd jj) (fun m => conj (rc.lv.e m jj))
          (Unc.col rc.rv jj)
          (jfx pi dt (rc.absd jj) (rc.absc jj) (re (rc.lamc jj)) (im (rc.lamc jj)) (re (rc.lamd jj))
            (im (rc.lamd jj))) := rfl

/-- **Table assembly of `SSI_poles`.**  If at every order the pole loop stays inside the `ordmax` rows
    (`len(lam_c) ≤ ordmax`; `ac2mp` returns `ii` poles at order `ii`), the run of the two loops
    (`covTables`) terminates without `IndexError` and cell `[jj, ii]` of `Fn_cov` (resp. `Xi_cov`) is
    `abs(cov_fx[0, 0])` (resp. `abs(cov_fx[1, 0])`) of pole `jj` of order `ii` — computed with
    `PnQ1`, `PnQ2_Q3`, `OO` of THAT order and the `jj`-th eigen-triple of THAT order — for
    `1 ≤ ii ≤ ordmax`, `jj < len(lam_c)`, and NaN in every other cell (column 0, rows `≥ len(lam_c)`). -/
theorem C17_table_cells (ι : R → K) (re im : K → R) (conj : K → K) (absR : R → R) (pi dt : R)
    (ordmax : Nat) (Q1 Q2 Q3 : Mat R) (recs : Nat → OrderRec R K)
    (hnp : ∀ ii, 1 ≤ ii → ii ≤ ordmax → (recs ii).np ≤ ordmax) :
    ∃ t, covTables ι re im conj absR pi dt ordmax Q1 Q2 Q3 recs = some t ∧
      (∀ jj ii, t.fn jj ii =
        if 1 ≤ ii ∧ ii ≤ ordmax ∧ jj < (recs ii).np then
          some (absR (poleVar ι re im ii ordmax Q1 Q2 Q3 (recs ii).oo ((recs ii).lamd jj)
            (fun m => conj ((recs ii).lv.e m jj)) (Unc.col (recs ii).rv jj)
            (jfx pi dt ((recs ii).absd jj) ((recs ii).absc jj) (re ((recs ii).lamc jj))
              (im ((recs ii).lamc jj)) (re ((recs ii).lamd jj)) (im ((recs ii).lamd jj)))))
        else none) ∧
      (∀ jj ii, t.xi jj ii =
        if 1 ≤ ii ∧ ii ≤ ordmax ∧ jj < (recs ii).np then
          some (absR ((covFx ι re im conj pi dt ii (pnQ1 ii ordmax Q1) (pnQ23 ii ordmax Q2 Q3)
            (recs ii) jj).e 1 0))
        else none) := by
  have hstep : ∀ ii ∈ List.range' 1 ordmax, ∀ t : CovTabs R, ∃ t',
      orderPass ι re im conj absR pi dt ordmax Q1 Q2 Q3 (recs ii) ii t = some t' ∧
      (∀ a b, t'.fn a b = if b = ii ∧ a < (recs ii).np then
        some (absR ((covFx ι re im conj pi dt ii (pnQ1 ii ordmax Q1) (pnQ23 ii ordmax Q2 Q3)
          (recs ii) a).e 0 0)) else t.fn a b) ∧
      (∀ a b, t'.xi a b = if b = ii ∧ a < (recs ii).np then
        some (absR ((covFx ι re im conj pi dt ii (pnQ1 ii ordmax Q1) (pnQ23 ii ordmax Q2 Q3)
          (recs ii) a).e 1 0)) else t.xi a b) := by
    intro ii hii t
    rw [List.mem_range'_1] at hii
    have hle : (recs ii).np ≤ ordmax := hnp ii hii.1 (by omega)
    obtain ⟨t', h1, h2, h3⟩ := foldlM_write ordmax ii
      (fun a => absR ((covFx ι re im conj pi dt ii (pnQ1 ii ordmax Q1) (pnQ23 ii ordmax Q2 Q3)
        (recs ii) a).e 0 0))
      (fun a => absR ((covFx ι re im conj pi dt ii (pnQ1 ii ordmax Q1) (pnQ23 ii ordmax Q2 Q3)
        (recs ii) a).e 1 0))
      (List.range (recs ii).np) (fun a ha => lt_of_lt_of_le (List.mem_range.mp ha) hle) t
    refine ⟨t', h1, ?_, ?_⟩
    · intro a b; rw [h2 a b]; simp only [List.mem_range]
    · intro a b; rw [h3 a b]; simp only [List.mem_range]
  obtain ⟨t', h1, h2, h3⟩ := foldlM_orders (List.range' 1 ordmax)
    (fun ii t => orderPass ι re im conj absR pi dt ordmax Q1 Q2 Q3 (recs ii) ii t)
    (fun ii a => absR ((covFx ι re im conj pi dt ii (pnQ1 ii ordmax Q1) (pnQ23 ii ordmax Q2 Q3)
        (recs ii) a).e 0 0))
    (fun ii a => absR ((covFx ι re im conj pi dt ii (pnQ1 ii ordmax Q1) (pnQ23 ii ordmax Q2 Q3)
        (recs ii) a).e 1 0))
    (fun ii => (recs ii).np) hstep ⟨fun _ _ => none, fun _ _ => none⟩
  refine ⟨t', h1, ?_, ?_⟩
  · intro jj ii
    rw [h2 jj ii]
    by_cases hc : 1 ≤ ii ∧ ii ≤ ordmax ∧ jj < (recs ii).np
    · rw [if_pos hc, if_pos ⟨List.mem_range'_1.mpr ⟨hc.1, by omega⟩, hc.2.2⟩]
      rfl
    · rw [if_neg hc, if_neg]
      intro h
      have := List.mem_range'_1.mp h.1
      exact hc ⟨this.1, by omega, h.2⟩
  · intro jj ii
    rw [h3 jj ii]
    by_cases hc : 1 ≤ ii ∧ ii ≤ ordmax ∧ jj < (recs ii).np
    · rw [if_pos hc, if_pos ⟨List.mem_range'_1.mpr ⟨hc.1, by omega⟩, hc.2.2⟩]
    · rw [if_neg hc, if_neg]
      intro h
      have := List.mem_range'_1.mp h.1
      exact hc ⟨this.1, by omega, h.2⟩

/-- the loop raises (`IndexError`) as soon as some order reports more poles than the tables have
    rows: if the FIRST order does (`len(lam_c) > ordmax` at `ii = 1`), `covTables` is `none`. -/
theorem C17_table_index_error (ι : R → K) (re im : K → R) (conj : K → K) (absR : R → R) (pi dt : R)
    (ordmax : Nat) (Q1 Q2 Q3 : Mat R) (recs : Nat → OrderRec R K) (h1 : 1 ≤ ordmax)
    (hbig : ordmax < (recs 1).np) :
    covTables ι re im conj absR pi dt ordmax Q1 Q2 Q3 recs = none := by
  obtain ⟨m, rfl⟩ : ∃ m, ordmax = m + 1 := ⟨ordmax - 1, by omega⟩
  unfold covTables
  rw [List.range'_succ, List.foldlM_cons]
  have hpass : ∀ t, orderPass ι re im conj absR pi dt (m + 1) Q1 Q2 Q3 (recs 1) 1 t = none := by
    intro t
    unfold orderPass
    obtain ⟨d, hd⟩ : ∃ d, (recs 1).np = (m + 1) + 1 + d := ⟨(recs 1).np - (m + 2), by omega⟩
    rw [hd, show m + 1 + 1 + d = (m + 1) + (1 + d) by ring, List.range_add, List.foldlM_append]
    obtain ⟨t', h1', -, -⟩ := foldlM_write (m + 1) 1
      (fun a => absR ((covFx ι re im conj pi dt 1 (pnQ1 1 (m + 1) Q1) (pnQ23 1 (m + 1) Q2 Q3)
        (recs 1) a).e 0 0))
      (fun a => absR ((covFx ι re im conj pi dt 1 (pnQ1 1 (m + 1) Q1) (pnQ23 1 (m + 1) Q2 Q3)
        (recs 1) a).e 1 0))
      (List.range (m + 1)) (fun a ha => List.mem_range.mp ha) t
    simp only at h1' ⊢
    rw [h1']
    show List.foldlM _ t' (List.map _ (List.range (1 + d))) = none
    rw [show 1 + d = d + 1 by ring, List.range_succ_eq_map, List.map_cons, List.foldlM_cons]
    simp
  rw [hpass]
  rfl

end Table

/-! ## 2. Every cell of the table is a sum of squared directional derivatives -/

/-- `Jfx_l` built from exact records (`np.pi`, `np.abs`, `np.log`) is `jfxAt` at `(Re, Im) lam_d[jj]`. -/
theorem jfx_of_exact_records (dt : ℝ) (lamd lamc : ℂ) (absd absc : ℝ)
    (hlc : lamc = lamC dt ![lamd.re, lamd.im]) (habsd : absd = ‖lamd‖) (habsc : absc = ‖lamc‖) :
    jfx Real.pi dt absd absc lamc.re lamc.im lamd.re lamd.im = jfxAt dt ![lamd.re, lamd.im] := by
  unfold jfxAt
  simp only [Matrix.cons_val_zero, Matrix.cons_val_one]
  rw [Complex.re_add_im, ← hlc, habsd, habsc]

/-- **`Fn_cov[jj, ii] = Σ_k (D_k fn)²` for every cell the loops write.**  `t` is the result of the model of
    the two loops of `SSI_poles` (`covTables`, with `np.conj`, `np.abs`, exact `np.pi`) on the model's
    `Q1..Q3` of `SSI_fast`; `recs ii` the per-order records.  For a cell `1 ≤ ii ≤ ordmax`,
    `jj < len(lam_c)`: if the records of that pole are exact (`lam_c = log(lam_d)/dt`, `np.abs`) and for
    every factor column `k` there is a first-order identification (`FirstOrderIdent`) at ORDER `ii`
    extending the recorded factors with the `jj`-th eigen-triple of that order, then the stored value
    is the sum over the factor columns of the squared derivative of `fn` along the first-order
    eigenvalue perturbation.  Hypotheses beyond `C17_variance_is_sum_of_squares`: none (the loop bound
    `len(lam_c) ≤ ordmax` holds for `ac2mp`, which returns `ii` poles). -/
theorem C17_table_variance (dt : ℝ) (H T U V : Mat ℝ) (dH : Nat → Mat ℝ) (l r p ordmax : Nat)
    (sq sig rs : Nat → ℝ) (Ki : Nat → Mat ℝ) (recs : Nat → OrderRec ℝ ℂ) (t : CovTabs ℝ)
    (hnp : ∀ ii, 1 ≤ ii → ii ≤ ordmax → (recs ii).np ≤ ordmax)
    (ii jj : Nat) (h1 : 1 ≤ ii) (h2 : ii ≤ ordmax) (hj : jj < (recs ii).np)
    (hlc : (recs ii).lamc jj = lamC dt ![((recs ii).lamd jj).re, ((recs ii).lamd jj).im])
    (habsd : (recs ii).absd jj = ‖(recs ii).lamd jj‖)
    (habsc : (recs ii).absc jj = ‖(recs ii).lamc jj‖)
    (lam : Nat → DualNumber ℂ)
    (hid : ∀ k, k < T.c → FirstOrderIdent Complex.ofRealHom H (dH k) T U V l r p ordmax ii sq sig rs Ki
      (recs ii).oo (Unc.col (recs ii).rv jj) (fun m => (starRingEnd ℂ) ((recs ii).lv.e m jj)) k (lam k))
    (hl0 : ∀ k, k < T.c → (lam k).fst = (recs ii).lamd jj)
    (hs : (recs ii).lamd jj ∈ Complex.slitPlane)
    (hμ : lamC dt ![((recs ii).lamd jj).re, ((recs ii).lamd jj).im] ≠ 0) :
    let Obs := obsOf U sq ordmax
    let Q := q1234 H T (upPart Obs l) (dnPart Obs l) l r p ordmax U V sig rs Ki
    covTables Complex.ofRealHom Complex.re Complex.im (starRingEnd ℂ) (fun x : ℝ => |x|) Real.pi dt
        ordmax Q.1 Q.2.1 Q.2.2.1 recs = some t →
    t.fn jj ii = some (∑ k ∈ range T.c,
      (fderiv ℝ (fxMap dt) ![((recs ii).lamd jj).re, ((recs ii).lamd jj).im]
        ![(lam k).snd.re, (lam k).snd.im] 0) ^ 2) := by
  intro Obs Q ht
  obtain ⟨t', e, hfn, -⟩ := C17_table_cells (⇑Complex.ofRealHom) Complex.re Complex.im (starRingEnd ℂ)
    (fun x : ℝ => |x|) Real.pi dt ordmax Q.1 Q.2.1 Q.2.2.1 recs hnp
  rw [ht] at e
  obtain rfl : t = t' := Option.some.inj e
  rw [hfn jj ii, if_pos ⟨h1, h2, hj⟩,
    jfx_of_exact_records dt _ _ _ _ hlc habsd habsc]
  congr 1
  exact (C17_variance_is_sum_of_squares dt H T U V dH l r p ordmax ii sq sig rs Ki (recs ii).oo
    (Unc.col (recs ii).rv jj) (fun m => (starRingEnd ℂ) ((recs ii).lv.e m jj)) ((recs ii).lamd jj) lam
    hid hl0 hs hμ).2

/-! ## 3. The factor `build_hank` actually builds, fed into the capstone -/

/-- **Column `k` of the factor is `vec_c` of the scaled deviation matrix** `(H_k − H)·s` (`devMat`), for
    every row index: the hypothesis `hcol` of `FirstOrderIdent` holds for the model's `covFactor` with
    `ΔH_k = devMat … k`. -/
theorem C17_factor_column_is_vec {K : Type} [Field K] (Yf Yp : Mat K) (nb N : Nat) (s : K) (T : Mat K)
    (h : covFactor Yf Yp nb N s = .ok T) (k m : Nat) :
    T.e m k = vecC (devMat Yf Yp N nb s k) m := by
  unfold covFactor at h
  split_ifs at h
  cases h
  rfl

/-- **`Fn_cov` for the factor of `build_hank`: variance = Σ_k (D fn · ε_k λ)²,
    `ε_k` the first-order change along `ΔH_k = (H_k − H)·s`.**  `T` is the factor the model `covFactor`
    returns for the stacked data `Yf`, `Yp` (`nb` blocks, `s = 1/sqrt(nb(nb−1))` as computed), `H = Yf·Ypᵀ`
    the full estimate; `Q1..Q3` the model of `SSI_fast` on `(H, T)`, `t` the tables of the model of
    `SSI_poles`.  For a written cell `(jj, ii)`: if for every block `k < nb` there is a first-order
    identification of `H + ε·(H_k − H)·s` at order `ii` extending the recorded factors
    (`FirstOrderCore`: no statement about `T` is assumed — `T[:, k] = vec_c(ΔH_k)` is proved,
    `C17_factor_column_is_vec`) with eigenvalue `lam_d[jj] + ε·ε_k(λ)`, then
    `Fn_cov[jj, ii] = Σ_{k<nb} (D fn(Re ε_k λ, Im ε_k λ))²`. -/
theorem C17_fncov_of_factor (dt : ℝ) (Yf Yp : Mat ℝ) (nb N : Nat) (s : ℝ) (T U V : Mat ℝ)
    (hT : covFactor Yf Yp nb N s = .ok T) (l r p ordmax : Nat)
    (sq sig rs : Nat → ℝ) (Ki : Nat → Mat ℝ) (recs : Nat → OrderRec ℝ ℂ) (t : CovTabs ℝ)
    (hnp : ∀ ii, 1 ≤ ii → ii ≤ ordmax → (recs ii).np ≤ ordmax)
    (ii jj : Nat) (h1 : 1 ≤ ii) (h2 : ii ≤ ordmax) (hj : jj < (recs ii).np)
    (hlc : (recs ii).lamc jj = lamC dt ![((recs ii).lamd jj).re, ((recs ii).lamd jj).im])
    (habsd : (recs ii).absd jj = ‖(recs ii).lamd jj‖)
    (habsc : (recs ii).absc jj = ‖(recs ii).lamc jj‖)
    (lam : Nat → DualNumber ℂ)
    (hid : ∀ k, k < nb → FirstOrderCore Complex.ofRealHom (mulT Yf Yp) (devMat Yf Yp N nb s k) U V l r p
      ordmax ii sq sig rs Ki (recs ii).oo (Unc.col (recs ii).rv jj)
      (fun m => (starRingEnd ℂ) ((recs ii).lv.e m jj)) (lam k))
    (hl0 : ∀ k, k < nb → (lam k).fst = (recs ii).lamd jj)
    (hs : (recs ii).lamd jj ∈ Complex.slitPlane)
    (hμ : lamC dt ![((recs ii).lamd jj).re, ((recs ii).lamd jj).im] ≠ 0) :
    let Obs := obsOf U sq ordmax
    let Q := q1234 (mulT Yf Yp) T (upPart Obs l) (dnPart Obs l) l r p ordmax U V sig rs Ki
    covTables Complex.ofRealHom Complex.re Complex.im (starRingEnd ℂ) (fun x : ℝ => |x|) Real.pi dt
        ordmax Q.1 Q.2.1 Q.2.2.1 recs = some t →
    t.fn jj ii = some (∑ k ∈ range nb,
      (fderiv ℝ (fxMap dt) ![((recs ii).lamd jj).re, ((recs ii).lamd jj).im]
        ![(lam k).snd.re, (lam k).snd.im] 0) ^ 2) := by
  intro Obs Q ht
  have hc : T.c = nb := (C17_factor_shape Yf Yp nb N s T hT).2
  have := C17_table_variance dt (mulT Yf Yp) T U V (fun k => devMat Yf Yp N nb s k) l r p ordmax sq sig rs
    Ki recs t hnp ii jj h1 h2 hj hlc habsd habsc lam
    (fun k hk => (hid k (hc ▸ hk)).toIdent T k hk
      (fun m _ => C17_factor_column_is_vec Yf Yp nb N s T hT k m))
    (fun k hk => hl0 k (hc ▸ hk)) hs hμ ht
  rw [this, hc]

/-- **The same through `build_hank`.**  `(H, T) = build_hank(Y, Yref, br = p, "cov_mm", calc_unc=True, nb)`
    as the model `buildHankUnc` computes them (`l = Y.shape[0]` channels, `r = Yref.shape[0] ≥ 1`
    references): the shape contracts of the capstone hold by construction
    (`H`, `ΔH_k` are `(p+1)l × (p+1)r`), what remains is: `Uom` has `(p+1)l` rows, the recorded `OO` is the
    exact inverse, and for every block a first-order identification exists (`IdentExists`). -/
theorem C17_fncov_of_build_hank (dt : ℝ) (Y Yref : Mat ℝ) (p nb : Nat) (s0 s : ℝ) (H T U V : Mat ℝ)
    (hB : buildHankUnc Y Yref p nb s0 s = (H, .ok T)) (hr0 : 0 < Yref.r) (ordmax : Nat)
    (sq sig rs : Nat → ℝ) (Ki : Nat → Mat ℝ) (recs : Nat → OrderRec ℝ ℂ) (t : CovTabs ℝ)
    (hnp : ∀ ii, 1 ≤ ii → ii ≤ ordmax → (recs ii).np ≤ ordmax)
    (ii jj : Nat) (h1 : 1 ≤ ii) (h2 : ii ≤ ordmax) (hj : jj < (recs ii).np)
    (hlc : (recs ii).lamc jj = lamC dt ![((recs ii).lamd jj).re, ((recs ii).lamd jj).im])
    (habsd : (recs ii).absd jj = ‖(recs ii).lamd jj‖)
    (habsc : (recs ii).absc jj = ‖(recs ii).lamc jj‖)
    (hUr : U.r = (p + 1) * Y.r) (hOc : (recs ii).oo.c = ii)
    (hOO : toMx ii ii (recs ii).oo.e * toMx ii ii (ooArg (obsOf U sq ordmax) Y.r ii).e = 1)
    (lam : Nat → DualNumber ℂ)
    (hex : ∀ k, k < nb → IdentExists Complex.ofRealHom H
      (devMat (hankYf Y p s0) (hankYp Y.c Yref p s0) (Y.c - p - (p + 1)) nb s k) U V Y.r p ii sq sig rs Ki
      (Unc.col (recs ii).rv jj) (fun m => (starRingEnd ℂ) ((recs ii).lv.e m jj)) (lam k))
    (hl0 : ∀ k, k < nb → (lam k).fst = (recs ii).lamd jj)
    (hs : (recs ii).lamd jj ∈ Complex.slitPlane)
    (hμ : lamC dt ![((recs ii).lamd jj).re, ((recs ii).lamd jj).im] ≠ 0) :
    let Obs := obsOf U sq ordmax
    let Q := q1234 H T (upPart Obs Y.r) (dnPart Obs Y.r) Y.r Yref.r p ordmax U V sig rs Ki
    covTables Complex.ofRealHom Complex.re Complex.im (starRingEnd ℂ) (fun x : ℝ => |x|) Real.pi dt
        ordmax Q.1 Q.2.1 Q.2.2.1 recs = some t →
    t.fn jj ii = some (∑ k ∈ range nb,
      (fderiv ℝ (fxMap dt) ![((recs ii).lamd jj).re, ((recs ii).lamd jj).im]
        ![(lam k).snd.re, (lam k).snd.im] 0) ^ 2) := by
  unfold buildHankUnc at hB
  obtain ⟨rfl, hT⟩ := Prod.mk.inj hB
  exact C17_fncov_of_factor dt (hankYf Y p s0) (hankYp Y.c Yref p s0) nb (Y.c - p - (p + 1)) s T U V hT
    Y.r Yref.r p ordmax sq sig rs Ki recs t hnp ii jj h1 h2 hj hlc habsd habsc lam
    (fun k hk => ⟨rfl, rfl, rfl, rfl, Nat.mul_pos (Nat.succ_pos p) hr0, two_ne_zero, h2, hUr, hOc, hOO,
      hex k hk⟩) hl0 hs hμ

/-! ## 4. Which columns enter which block (every `nb`, `N`; the clipped last block) -/

/-- **The block estimate, for every `k`, `Nb` and every number of columns (no `hfit`).**  `blockEst`
    (the slices `Yf[:, k*Nb:(k+1)*Nb]`, `Yp[:, …]` as numpy clips them, `np.dot`, `* N / Nb`) is the explicit
    sum `blockEstR` over the columns `start ≤ t < stop` that `blockCols` names, times `N`, divided by
    `Nb` — also when the slice holds fewer than `Nb` columns. -/
theorem C17_blockEst_explicit {K : Type} [Field K] (Yf Yp : Mat K) (N Nb k i j : Nat) :
    (blockEst Yf Yp N Nb k).r = (blockEstR Yf Yp N Nb k).r ∧
    (blockEst Yf Yp N Nb k).c = (blockEstR Yf Yp N Nb k).c ∧
    (blockEst Yf Yp N Nb k).e i j = (blockEstR Yf Yp N Nb k).e i j ∧
    (blockEstR Yf Yp N Nb k).e i j
      = (∑ t ∈ range ((blockCols Yf.c Nb k).2 - (blockCols Yf.c Nb k).1),
          Yf.e i ((blockCols Yf.c Nb k).1 + t) * Yp.e j ((blockCols Yf.c Nb k).1 + t))
        * (N : K) / (Nb : K) := by
  refine ⟨rfl, rfl, ?_, ?_⟩
  · simp only [blockEst, blockEstR, blockCols, mulT, colSliceT, sumTo_eq]
    by_cases h : k * Nb ≤ Yf.c
    · rw [Nat.min_eq_left h]
    · have h' : Yf.c < k * Nb := Nat.lt_of_not_le h
      have hle : k * Nb ≤ (k + 1) * Nb := Nat.mul_le_mul_right _ (Nat.le_succ k)
      have e1 : min ((k + 1) * Nb) Yf.c - k * Nb = 0 := by omega
      have e2 : min ((k + 1) * Nb) Yf.c - min (k * Nb) Yf.c = 0 := by omega
      rw [e1, e2]
      simp
  · simp only [blockEstR, sumTo_eq]

/-- **Which columns enter which block** (`ncols = N − 1` columns of `Yf`, `Yp`; `Nb = N // nb ≥ 1`).
    * `nb ∤ N`: every block `k < nb` is full — columns `k·Nb ≤ t < (k+1)·Nb` — and the
      `N mod nb − 1` columns `nb·Nb ≤ t < N − 1` enter NO block (they enter `Hank` only).
    * `nb ∣ N`: blocks `k < nb − 1` are full, the LAST block holds the `Nb − 1` columns
      `(nb−1)·Nb ≤ t < N − 1` (the slice is clipped; the estimate is still divided by `Nb`,
      `C17_last_block_bias`), and no column is left over. -/
theorem C17_block_columns (N nb : Nat) (hnb : 1 ≤ nb) (hNb : 1 ≤ N / nb) :
    (¬ nb ∣ N →
      (∀ k, k < nb → blockCols (N - 1) (N / nb) k = (k * (N / nb), (k + 1) * (N / nb))) ∧
      leftoverCols (N - 1) (N / nb) nb = (nb * (N / nb), N - 1) ∧
      (N - 1) - nb * (N / nb) = N % nb - 1 ∧ 1 ≤ N % nb) ∧
    (nb ∣ N →
      (∀ k, k + 1 < nb → blockCols (N - 1) (N / nb) k = (k * (N / nb), (k + 1) * (N / nb))) ∧
      blockCols (N - 1) (N / nb) (nb - 1) = ((nb - 1) * (N / nb), N - 1) ∧
      (N - 1) - (nb - 1) * (N / nb) = N / nb - 1 ∧
      leftoverCols (N - 1) (N / nb) nb = (N - 1, N - 1)) := by
  have hdm : nb * (N / nb) + N % nb = N := Nat.div_add_mod N nb
  have hlt : N % nb < nb := Nat.mod_lt _ (by omega)
  generalize hq : N / nb = q at *
  generalize hm : N % nb = m at *
  have hfull : ∀ k, k + 1 ≤ nb → (k + 1) * q ≤ nb * q := fun k hk => Nat.mul_le_mul_right _ hk
  have hmono : ∀ k, k * q ≤ (k + 1) * q := fun k => Nat.mul_le_mul_right _ (Nat.le_succ k)
  constructor
  · intro hdiv
    have hm1 : 1 ≤ m := by
      rcases Nat.eq_zero_or_pos m with h0 | h0
      · exact absurd (Nat.dvd_of_mod_eq_zero (hm ▸ h0)) hdiv
      · exact h0
    refine ⟨fun k hk => ?_, ?_, by omega, hm1⟩
    · have := hfull k hk
      have := hmono k
      simp only [blockCols]
      rw [Nat.min_eq_left (by omega), Nat.min_eq_left (by omega)]
    · simp only [leftoverCols]
      rw [Nat.min_eq_left (by omega)]
  · intro hdiv
    have hm0 : m = 0 := by rw [← hm]; exact Nat.mod_eq_zero_of_dvd hdiv
    subst hm0
    obtain ⟨nb', rfl⟩ : ∃ nb', nb = nb' + 1 := ⟨nb - 1, by omega⟩
    have hexp : (nb' + 1) * q = nb' * q + q := Nat.succ_mul _ _
    refine ⟨fun k hk => ?_, ?_, ?_, ?_⟩
    · have h2 := hmono k
      have h3 : (k + 1) * q ≤ nb' * q := Nat.mul_le_mul_right _ (by omega)
      simp only [blockCols]
      rw [Nat.min_eq_left (by omega), Nat.min_eq_left (by omega)]
    · simp only [blockCols, Nat.add_sub_cancel]
      rw [Nat.min_eq_left (by omega), Nat.min_eq_right (by omega)]
    · simp only [Nat.add_sub_cancel]; omega
    · simp only [leftoverCols]
      rw [Nat.min_eq_right (by omega)]

/-- **Sum of the block estimates, in general**: the products of the first `min(nb·Nb, ncols)` columns,
    times `N/Nb` (`C17_block_mean` is the case `nb·Nb = ncols`). -/
theorem C17_block_mean_general {K : Type} [Field K] (Yf Yp : Mat K) (N Nb nb i j : Nat) :
    ∑ k ∈ range nb, (blockEst Yf Yp N Nb k).e i j
      = (∑ t ∈ range (min (nb * Nb) Yf.c), Yf.e i t * Yp.e j t) * (N : K) / (Nb : K) := by
  have hk : ∀ k, (blockEst Yf Yp N Nb k).e i j
      = (∑ t ∈ range (min ((k + 1) * Nb) Yf.c - k * Nb), Yf.e i (k * Nb + t) * Yp.e j (k * Nb + t))
        * (N : K) / (Nb : K) := by
    intro k
    simp only [blockEst, mulT, colSliceT, sumTo_eq]
  simp only [hk, div_eq_mul_inv]
  rw [← Finset.sum_mul, ← Finset.sum_mul,
    sum_blocks_clip (fun m => Yf.e i m * Yp.e j m) nb Nb Yf.c]

/-- **`nb ∣ N` (clipped last block): the block estimates average to the full estimate exactly**:
    with the `N − 1` columns of `cov_mm` and `N = nb·Nb`, `Σ_k H_k = nb·H` — so in
    `C17_factor_gram_centered` the rank-one term vanishes (`hbar = h`) and `T·Tᵀ` is exactly the sample
    covariance of the mean of the block estimates AS COMPUTED (the last of them biased, next theorem). -/
theorem C17_block_mean_clipped {K : Type} [Field K] (Yf Yp : Mat K) (N nb i j : Nat)
    (hc : Yf.c = N - 1) (hdiv : nb ∣ N) (hNb : ((N / nb : Nat) : K) ≠ 0) :
    ∑ k ∈ range nb, (blockEst Yf Yp N (N / nb) k).e i j = (nb : K) * (mulT Yf Yp).e i j := by
  rw [C17_block_mean_general, Nat.mul_div_cancel' hdiv, hc, Nat.min_eq_right (Nat.sub_le N 1)]
  have hN : (N : K) = (nb : K) * ((N / nb : Nat) : K) := by
    rw [← Nat.cast_mul, Nat.mul_div_cancel' hdiv]
  simp only [mulT, sumTo_eq, hc]
  rw [hN]
  field_simp

/-- **The clipped last block is biased by `(Nb−1)/Nb`.**  For `nb ∣ N` (and the `N − 1` columns of
    `cov_mm`) the last block estimate is the sum of its `Nb − 1` column products times `N`, divided by
    `Nb` — i.e. `(Nb − 1)/Nb` times the moment estimate over the columns it holds.  (The property's
    "block-wise Hankel estimates" is therefore not met by that block; the oracle skips `nb ∣ N`.) -/
theorem C17_last_block_bias {K : Type} [Field K] (Yf Yp : Mat K) (N nb i j : Nat)
    (hc : Yf.c = N - 1) (hnb : 1 ≤ nb) (hNb : 1 ≤ N / nb) (hdiv : nb ∣ N) :
    (blockEst Yf Yp N (N / nb) (nb - 1)).e i j
      = (∑ t ∈ range (N / nb - 1),
          Yf.e i ((nb - 1) * (N / nb) + t) * Yp.e j ((nb - 1) * (N / nb) + t)) * (N : K)
        / ((N / nb : Nat) : K) := by
  obtain ⟨-, h2, h3, -⟩ := (C17_block_columns N nb hnb hNb).2 hdiv
  obtain ⟨-, -, e1, e2⟩ := C17_blockEst_explicit Yf Yp N (N / nb) (nb - 1) i j
  rw [e1, e2, hc, h2]
  simp only [h3]

/-! ## 5. `fxMap` is the pole map of `ac2mp` -/

/-- **`fxMap` (the map whose Jacobian is `Jfx_l`, `C17_fx_jacobian`) is the map `ac2mp` computes**, in the
    form C01 proves correct (`FreeVib.lamC`, `fnR`, `xiR`: `lam_c = log(lam_d)/dt`, `fn = |lam_c|/2π`,
    `xi = −Re lam_c/|lam_c|`, `C01E2E.Recovered`), with the damping in percent:
    `fxMap dt (Re λ, Im λ) = (fn(λ), 100·xi(λ))`. -/
theorem C17_fxMap_is_ac2mp (dt : ℝ) (q : Fin 2 → ℝ) :
    fxMap dt q = ![FreeVib.fnR (FreeVib.lamC ((q 0 : ℂ) + (q 1 : ℂ) * Complex.I) dt),
      100 * FreeVib.xiR (FreeVib.lamC ((q 0 : ℂ) + (q 1 : ℂ) * Complex.I) dt)] ∧
    Unc.lamC dt q = FreeVib.lamC ((q 0 : ℂ) + (q 1 : ℂ) * Complex.I) dt :=
  ⟨rfl, rfl⟩

theorem ratio_diff (a A t T : ℝ) (ht : t ≠ 0) (hT : T ≠ 0) :
    a / t - A / T = ((a - A) + (A / T) * (T - t)) / t := by
  field_simp
  ring

/-- **… and of the executed model functions `Realise.fnOf`, `Realise.xiOf`** (what the driver runs for C01
    on the RECORDED rationals `absl ≈ |lam_c|`, `twoPi ≈ 2π`, `lamc ≈ lam_c`): they are the two
    components of `fxMap` (the second divided by 100) up to the rounding of the records — exactly
    equal when the records are exact. -/
theorem C17_fxMap_fnOf_xiOf (dt : ℝ) (q : Fin 2 → ℝ) (lamc : Cpx ℚ) (absl twoPi : ℚ)
    (hμ : Unc.lamC dt q ≠ 0) (ha : 0 < absl) (ht : 0 < twoPi) :
    |((fnOf absl twoPi : ℚ) : ℝ) - fxMap dt q 0|
      ≤ (|(absl : ℝ) - ‖Unc.lamC dt q‖| + |fxMap dt q 0| * |2 * Real.pi - twoPi|) / twoPi ∧
    |100 * ((xiOf lamc absl : ℚ) : ℝ) - fxMap dt q 1|
      ≤ (100 * |(lamc.re : ℝ) - (Unc.lamC dt q).re| + |fxMap dt q 1| * |‖Unc.lamC dt q‖ - absl|) / absl := by
  have ha' : (0 : ℝ) < absl := by exact_mod_cast ha
  have ht' : (0 : ℝ) < twoPi := by exact_mod_cast ht
  have hn : ‖Unc.lamC dt q‖ ≠ 0 := norm_ne_zero_iff.mpr hμ
  have hpi : (2 * Real.pi) ≠ 0 := by positivity
  constructor
  · have e : ((fnOf absl twoPi : ℚ) : ℝ) - fxMap dt q 0
        = (((absl : ℝ) - ‖Unc.lamC dt q‖) + fxMap dt q 0 * (2 * Real.pi - twoPi)) / twoPi := by
      rw [FreeVib.fnOf_cast]
      show (absl : ℝ) / twoPi - ‖Unc.lamC dt q‖ / (2 * Real.pi) = _
      rw [ratio_diff _ _ _ _ ht'.ne' hpi]
      rfl
    rw [e, abs_div, abs_of_pos ht']
    apply div_le_div_of_nonneg_right _ ht'.le
    calc _ ≤ |(absl : ℝ) - ‖Unc.lamC dt q‖| + |fxMap dt q 0 * (2 * Real.pi - twoPi)| := abs_add_le _ _
      _ = _ := by rw [abs_mul]
  · have e : 100 * ((xiOf lamc absl : ℚ) : ℝ) - fxMap dt q 1
        = -((100 * ((lamc.re : ℝ) - (Unc.lamC dt q).re)
            + -(fxMap dt q 1) * (‖Unc.lamC dt q‖ - absl)) / absl) := by
      have hx : ((xiOf lamc absl : ℚ) : ℝ) = -((lamc.re : ℝ) / absl) := by simp [xiOf]
      rw [hx]
      show 100 * -((lamc.re : ℝ) / absl) - 100 * -((Unc.lamC dt q).re / ‖Unc.lamC dt q‖) = _
      have := ratio_diff (lamc.re : ℝ) (Unc.lamC dt q).re absl ‖Unc.lamC dt q‖ ha'.ne' hn
      have e1 : fxMap dt q 1 = 100 * -((Unc.lamC dt q).re / ‖Unc.lamC dt q‖) := rfl
      rw [e1]
      linear_combination (-100) * this
    rw [e, abs_neg, abs_div, abs_of_pos ha']
    apply div_le_div_of_nonneg_right _ ha'.le
    calc _ ≤ |100 * ((lamc.re : ℝ) - (Unc.lamC dt q).re)| + |-(fxMap dt q 1) * (‖Unc.lamC dt q‖ - absl)| :=
          abs_add_le _ _
      _ = _ := by rw [abs_mul, abs_mul, abs_neg]; simp

end PV.C17
