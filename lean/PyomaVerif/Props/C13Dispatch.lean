import PyomaVerif.Model.SpectralM
import PyomaVerif.Props.C13
import Mathlib.Algebra.Order.Floor.Ring
import Mathlib.Algebra.Order.Ring.Rat
import Mathlib.Data.Rat.Floor
import Mathlib.Analysis.SpecialFunctions.Log.Basic
/-!
# C13 — `fdd.SD_est` as one function (`Model/SpectralM.sdEstM`, driver op `sd_est`, stream `SD_est[dispatch]`)

* which branch runs: the method string alone decides; any other string ends in `UnboundLocalError` whatever the other
  arguments are (`sdEstM_other_raises`, `sdEstM_unbound_iff`);
* on the accepted domain the function IS `sdEstPer` / `sdEstCor` with `noverlap = int(nxseg·pov)` and the exponential lag
  window `exp(−t/τ)`, `τ = −n₂/ln 0.01` (`sdEstM_per`, `sdEstM_cor`, `sdEstM_ok_inv`), so every theorem of
  `Props/C13*.lean` about `sdEstPer nov` / `sdEstCor ew` speaks about what `SD_est` returns;
* clause "noverlap = int(nxseg·pov)": `perNoverlap_int`, `perNoverlap_lt`, `sdEstM_per_pov`;
* the grid of whatever is returned, incl. the last line for odd `nxseg` (`sdEstM_grid`, `sd_grid_last_odd`);
* the lag window over ℝ: `expWin … n₂ t = ρ^t` with `ρ^n₂ = 1/100` (`expWin_real`).
-/
namespace PV.C13
open PV

section dispatch
variable {K : Type} [Zero K] [One K] [Add K] [Sub K] [Mul K] [Div K] [Neg K] [NatCast K]

/-- **Unknown method.** Any string other than `"per"` / `"cor"` ends in `UnboundLocalError` — for every shape, every
    `nxseg`, every `pov` (nothing else is looked at before). -/
theorem sdEstM_other_raises (env : SdEnv K) (method : String) (Yall Yref : Mat K) (dt : K) (nxseg : Nat) (pov : K)
    (hp : method ≠ "per") (hc : method ≠ "cor") :
    sdEstM env method Yall Yref dt nxseg pov = .error .unboundLocal := by
  simp [sdEstM, hp, hc]

/-- the two method strings are told apart -/
example : sdEstM (K := Rat) ⟨fun _ => 0, id, id, fun _ => 0, fun _ => 0⟩ "Per" ⟨1, 8, fun _ _ => 1⟩ ⟨1, 8, fun _ _ => 1⟩ 1 4 (1/2)
    = .error .unboundLocal := sdEstM_other_raises _ _ _ _ _ _ _ (by decide) (by decide)

/-- **"per" on its domain.** Equal record lengths, at least one channel and one reference, `2 ≤ nxseg ≤ Ndat`,
    `0 ≤ int(nxseg·pov) < nxseg`: the result is `sdEstPer` with that overlap. -/
theorem sdEstM_per (env : SdEnv K) (Yall Yref : Mat K) (dt : K) (nxseg : Nat) (pov : K)
    (hlen : Yall.c = Yref.c) (ha : 0 < Yall.r) (hr : 0 < Yref.r) (hx : 2 ≤ nxseg) (hN : nxseg ≤ Yref.c)
    (h0 : 0 ≤ perNoverlap env.trunc nxseg pov) (h1 : perNoverlap env.trunc nxseg pov < nxseg) :
    sdEstM env "per" Yall Yref dt nxseg pov
      = .ok (sdEstPer Yall Yref dt nxseg (perNoverlap env.trunc nxseg pov).toNat env.tw) := by
  have hne : ¬ ("per" = "cor") := by decide
  simp only [sdEstM, hne, if_false, if_true, hlen, ne_eq, not_true_eq_false]
  rw [if_neg (by omega), if_neg (by omega), if_neg (by omega), if_neg (by omega), if_neg (by omega), if_neg (by omega)]

/-- **"per", overlap too large.** `int(nxseg·pov) ≥ nxseg` (e.g. `pov ≥ 1`) is the `ValueError` of `csd`. -/
theorem sdEstM_per_overlap_raises (env : SdEnv K) (Yall Yref : Mat K) (dt : K) (nxseg : Nat) (pov : K)
    (hlen : Yall.c = Yref.c) (ha : 0 < Yall.r) (hr : 0 < Yref.r) (hx : 2 ≤ nxseg) (hN : nxseg ≤ Yref.c)
    (h1 : (nxseg : Int) ≤ perNoverlap env.trunc nxseg pov) :
    sdEstM env "per" Yall Yref dt nxseg pov = .error (.valueError "noverlap must be less than nperseg") := by
  have hne : ¬ ("per" = "cor") := by decide
  simp only [sdEstM, hne, if_false, if_true, hlen, ne_eq, not_true_eq_false]
  rw [if_neg (by omega), if_neg (by omega), if_neg (by omega), if_neg (by omega), if_pos (by omega)]

/-- **"cor" on its domain.** Equal record lengths, `2 ≤ nxseg`, at least HALF a segment of data (`nperseg = nxseg//2`):
    the result is `sdEstCor` with the lag window `expWin` of length `2·(nxseg//2)`; `pov` is not used. -/
theorem sdEstM_cor (env : SdEnv K) (Yall Yref : Mat K) (dt : K) (nxseg : Nat) (pov : K)
    (hlen : Yall.c = Yref.c) (ha : 0 < Yall.r) (hr : 0 < Yref.r) (hx : 2 ≤ nxseg) (hN : nxseg / 2 ≤ Yref.c) :
    sdEstM env "cor" Yall Yref dt nxseg pov
      = .ok (sdEstCor Yall Yref dt nxseg env.tw env.tw2 (expWin env.expf env.logf (2 * (nxseg / 2)))) := by
  simp only [sdEstM, if_true, hlen, ne_eq, not_true_eq_false, if_false]
  rw [if_neg (by omega), if_neg (by omega), if_neg (by omega)]
  simp

/-- **Length mismatch.** Records of different length (with at least one data channel) are the `ValueError` of
    `reshape`, for both methods. -/
theorem sdEstM_length_raises (env : SdEnv K) (method : String) (Yall Yref : Mat K) (dt : K) (nxseg : Nat) (pov : K)
    (hm : method = "per" ∨ method = "cor") (ha : 0 < Yall.r) (hlen : Yall.c ≠ Yref.c) :
    sdEstM env method Yall Yref dt nxseg pov = .error (.valueError "cannot reshape array") := by
  have h : Yall.r * Yall.c ≠ Yall.r * Yref.c := fun h => hlen (Nat.eq_of_mul_eq_mul_left ha h)
  rcases hm with rfl | rfl
  · have hne : ¬ ("per" = "cor") := by decide
    simp only [sdEstM, hne, if_false, if_true, if_pos h]
  · simp only [sdEstM, if_true, if_pos h]

/-- **Everything that is returned.** A returned spectrum is one of the two estimators, and then the argument checks
    held. -/
theorem sdEstM_ok_inv (env : SdEnv K) (method : String) (Yall Yref : Mat K) (dt : K) (nxseg : Nat) (pov : K)
    (S : Spec K) (h : sdEstM env method Yall Yref dt nxseg pov = .ok S) :
    (method = "per" ∧ 2 ≤ nxseg ∧ nxseg ≤ Yref.c ∧ 0 ≤ perNoverlap env.trunc nxseg pov
        ∧ perNoverlap env.trunc nxseg pov < nxseg
        ∧ S = sdEstPer Yall Yref dt nxseg (perNoverlap env.trunc nxseg pov).toNat env.tw)
    ∨ (method = "cor" ∧ 2 ≤ nxseg ∧ nxseg / 2 ≤ Yref.c
        ∧ S = sdEstCor Yall Yref dt nxseg env.tw env.tw2 (expWin env.expf env.logf (2 * (nxseg / 2)))) := by
  unfold sdEstM at h
  by_cases hc : method = "cor"
  · right
    simp only [hc, if_true] at h
    split at h; · cases h
    split at h; · cases h
    split at h; · cases h
    split at h; · cases h
    refine ⟨hc, by omega, by omega, ?_⟩
    injection h with h
    rw [← h]; simp
  · left
    simp only [hc, if_false] at h
    by_cases hp : method = "per"
    · simp only [hp, if_true] at h
      split at h; · cases h
      split at h; · cases h
      split at h; · cases h
      split at h; · cases h
      split at h; · cases h
      split at h; · cases h
      split at h; · cases h
      injection h with h
      exact ⟨hp, by omega, by omega, by omega, by omega, h.symm⟩
    · simp only [hp, if_false] at h
      cases h

/-- **The call ends in `UnboundLocalError` exactly for the unknown method strings.** -/
theorem sdEstM_unbound_iff (env : SdEnv K) (method : String) (Yall Yref : Mat K) (dt : K) (nxseg : Nat) (pov : K) :
    sdEstM env method Yall Yref dt nxseg pov = .error .unboundLocal ↔ method ≠ "per" ∧ method ≠ "cor" := by
  constructor
  · intro h
    unfold sdEstM at h
    by_cases hc : method = "cor"
    · simp only [hc, if_true] at h
      repeat' (split at h <;> try cases h)
    · by_cases hp : method = "per"
      · simp only [hp, if_true] at h
        have hne : ¬ ("per" = "cor") := by decide
        simp only [hne, if_false] at h
        repeat' (split at h <;> try cases h)
      · exact ⟨hp, hc⟩
  · rintro ⟨hp, hc⟩
    exact sdEstM_other_raises env method Yall Yref dt nxseg pov hp hc

end dispatch

/-! ### grid of whatever is returned -/

/-- **Grid.** Whatever `SD_est` returns has `nxseg//2 + 1` lines, shape `n_all × n_ref`, line `k` at `k·fs/nxseg`,
    `fs = 1/dt` — for both methods and every `pov`. -/
theorem sdEstM_grid {K : Type} [Field K] (env : SdEnv K) (method : String) (Yall Yref : Mat K) (dt : K) (nxseg : Nat)
    (pov : K) (S : Spec K) (h : sdEstM env method Yall Yref dt nxseg pov = .ok S) :
    S.nall = Yall.r ∧ S.nref = Yref.r ∧ S.nf = nxseg / 2 + 1 ∧ ∀ k, S.freq k = (k : K) * (1 / dt) / (nxseg : K) := by
  rcases sdEstM_ok_inv env method Yall Yref dt nxseg pov S h with ⟨_, _, _, _, _, rfl⟩ | ⟨_, _, _, rfl⟩
  · exact sd_grid_per Yall Yref dt nxseg _ env.tw
  · exact sd_grid_cor Yall Yref dt nxseg env.tw env.tw2 _

/-- **Grid, last line, odd `nxseg`.** The last line `k = nxseg//2 = (nxseg−1)/2` lies at `fs/2·(1 − 1/nxseg)`: half a
    line spacing below the Nyquist frequency (`sd_grid_nyquist` is the even case). -/
theorem sd_grid_last_odd {K : Type} [Field K] [CharZero K] (dt : K) (nxseg : Nat) (hodd : nxseg % 2 = 1) :
    ((nxseg / 2 : Nat) : K) * (1 / dt) / (nxseg : K) = (1 / dt) / 2 * (1 - 1 / (nxseg : K)) := by
  have h2 : nxseg = 2 * (nxseg / 2) + 1 := by omega
  have hne : (nxseg : K) ≠ 0 := by exact_mod_cast (by omega : nxseg ≠ 0)
  have hc : (nxseg : K) = 2 * ((nxseg / 2 : Nat) : K) + 1 := by exact_mod_cast h2
  field_simp
  rw [hc]; ring

/-- … and it is strictly below `fs/2`. -/
theorem sd_grid_last_odd_lt {K : Type} [Field K] [LinearOrder K] [IsStrictOrderedRing K] (dt : K) (hdt : 0 < dt)
    (nxseg : Nat) (hodd : nxseg % 2 = 1) :
    ((nxseg / 2 : Nat) : K) * (1 / dt) / (nxseg : K) < (1 / dt) / 2 := by
  rw [sd_grid_last_odd dt nxseg hodd]
  have hn : (0 : K) < (nxseg : K) := by exact_mod_cast (by omega : 0 < nxseg)
  have h1 : (0 : K) < 1 / (nxseg : K) := by positivity
  have hf : (0 : K) < 1 / dt / 2 := by positivity
  nlinarith

example : ((5 / 2 : Nat) : ℚ) * (1 / (1/10)) / ((5 : Nat) : ℚ) = 4 := by norm_num

/-! ### `noverlap = int(nxseg · pov)` -/

section overlap
variable {K : Type} [Field K] [LinearOrder K] [IsStrictOrderedRing K] [FloorRing K]

/-- Python `int()` on an ordered field: truncation towards zero -/
def pyInt (x : K) : Int := if 0 ≤ x then ⌊x⌋ else ⌈x⌉

/-- **Overlap.** For `pov ≥ 0` the overlap handed to Welch's method is `⌊nxseg·pov⌋`: the largest integer `m` with
    `m ≤ nxseg·pov`. -/
theorem perNoverlap_int (nxseg : Nat) (pov : K) (h0 : 0 ≤ pov) :
    perNoverlap (pyInt (K := K)) nxseg pov = ⌊(nxseg : K) * pov⌋
    ∧ 0 ≤ perNoverlap (pyInt (K := K)) nxseg pov
    ∧ ((perNoverlap (pyInt (K := K)) nxseg pov : Int) : K) ≤ (nxseg : K) * pov
    ∧ (nxseg : K) * pov < ((perNoverlap (pyInt (K := K)) nxseg pov : Int) : K) + 1 := by
  have hp : (0 : K) ≤ (nxseg : K) * pov := mul_nonneg (Nat.cast_nonneg _) h0
  have e : perNoverlap (pyInt (K := K)) nxseg pov = ⌊(nxseg : K) * pov⌋ := by
    simp [perNoverlap, pyInt, hp]
  rw [e]
  exact ⟨rfl, Int.floor_nonneg.mpr hp, Int.floor_le _, Int.lt_floor_add_one _⟩

/-- **Overlap below the segment length.** `0 ≤ pov < 1`, `nxseg > 0` ⇒ `int(nxseg·pov) < nxseg`: the `ValueError`
    of `csd` cannot occur. -/
theorem perNoverlap_lt (nxseg : Nat) (pov : K) (h0 : 0 ≤ pov) (h1 : pov < 1) (hx : 0 < nxseg) :
    perNoverlap (pyInt (K := K)) nxseg pov < (nxseg : Int) := by
  rw [(perNoverlap_int nxseg pov h0).1, Int.floor_lt]
  have hn : (0 : K) < (nxseg : K) := by exact_mod_cast hx
  have : (nxseg : K) * pov < (nxseg : K) * 1 := mul_lt_mul_of_pos_left h1 hn
  simpa using this

/-- **Clause "noverlap = int(nxseg·pov)" through the function.** With Python's `int`, `0 ≤ pov < 1`, equal record
    lengths and a full segment of data, `SD_est(…, "per", pov)` is Welch's estimate with overlap `⌊nxseg·pov⌋`. -/
theorem sdEstM_per_pov (env : SdEnv K) (henv : env.trunc = pyInt) (Yall Yref : Mat K) (dt : K) (nxseg : Nat) (pov : K)
    (hlen : Yall.c = Yref.c) (ha : 0 < Yall.r) (hr : 0 < Yref.r) (hx : 2 ≤ nxseg) (hN : nxseg ≤ Yref.c)
    (h0 : 0 ≤ pov) (h1 : pov < 1) :
    sdEstM env "per" Yall Yref dt nxseg pov
      = .ok (sdEstPer Yall Yref dt nxseg ⌊(nxseg : K) * pov⌋₊ env.tw) := by
  have hi := perNoverlap_int (K := K) nxseg pov h0
  have hl := perNoverlap_lt (K := K) nxseg pov h0 h1 (by omega)
  rw [sdEstM_per env Yall Yref dt nxseg pov hlen ha hr hx hN (henv ▸ hi.2.1) (henv ▸ hl), henv, hi.1]
  rfl

/-- non-vacuity, and the value: `nxseg = 10`, `pov = 7/10` gives overlap 7; `pov = 2/3` gives 6 -/
example : perNoverlap (pyInt (K := ℚ)) 10 (7/10) = 7 := by
  rw [(perNoverlap_int 10 (7/10 : ℚ) (by norm_num)).1]; norm_num [Int.floor_eq_iff]
example : perNoverlap (pyInt (K := ℚ)) 10 (2/3) = 6 := by
  rw [(perNoverlap_int 10 (2/3 : ℚ) (by norm_num)).1]; norm_num [Int.floor_eq_iff]

/-- non-vacuity of `sdEstM_per_pov` (and of `sdEstM_per`): one channel, eight samples, `nxseg = 4`, `pov = 1/2` -/
example : sdEstM (K := ℚ) ⟨pyInt, id, id, fun _ => 0, fun _ => 0⟩ "per" ⟨1, 8, fun _ t => t⟩ ⟨1, 8, fun _ t => t⟩ 1 4 (1/2)
    = .ok (sdEstPer ⟨1, 8, fun _ t => t⟩ ⟨1, 8, fun _ t => t⟩ 1 4 ⌊((4 : Nat) : ℚ) * (1/2)⌋₊ fun _ => 0) :=
  sdEstM_per_pov _ rfl _ _ _ _ _ rfl (by decide) (by decide) (by decide) (by decide) (by norm_num) (by norm_num)

/-- non-vacuity of `sdEstM_cor`: three samples suffice for `nxseg = 4` (`nperseg = 2`) -/
example : sdEstM (K := ℚ) ⟨pyInt, id, id, fun _ => 0, fun _ => 0⟩ "cor" ⟨1, 3, fun _ t => t⟩ ⟨1, 3, fun _ t => t⟩ 1 4 (1/2)
    = .ok (sdEstCor ⟨1, 3, fun _ t => t⟩ ⟨1, 3, fun _ t => t⟩ 1 4 (fun _ => 0) (fun _ => 0) (expWin id id (2 * (4 / 2)))) :=
  sdEstM_cor _ _ _ _ _ _ rfl (by decide) (by decide) (by decide) (by decide)

/-- non-vacuity of `sdEstM_per_overlap_raises`: `pov = 1` -/
example : sdEstM (K := ℚ) ⟨pyInt, id, id, fun _ => 0, fun _ => 0⟩ "per" ⟨1, 8, fun _ t => t⟩ ⟨1, 8, fun _ t => t⟩ 1 4 1
    = .error (.valueError "noverlap must be less than nperseg") :=
  sdEstM_per_overlap_raises _ _ _ _ _ _ rfl (by decide) (by decide) (by decide) (by decide)
    (by simp [perNoverlap, pyInt])

/-- non-vacuity of `sdEstM_length_raises` -/
example : sdEstM (K := ℚ) ⟨pyInt, id, id, fun _ => 0, fun _ => 0⟩ "cor" ⟨2, 8, fun _ t => t⟩ ⟨1, 7, fun _ t => t⟩ 1 4 (1/2)
    = .error (.valueError "cannot reshape array") :=
  sdEstM_length_raises _ _ _ _ _ _ _ (Or.inr rfl) (by decide) (by decide)

end overlap

/-! ### the exponential lag window over ℝ -/

/-- **Lag window.** With the real `exp` and `log`, `exponential(M, center=0, tau=−M/ln 0.01)[t] = ρ^t` for the `ρ > 0`
    with `ρ^M = 1/100`: the window falls from 1 to one hundredth over its length. -/
theorem expWin_real (M : Nat) (hM : 0 < M) :
    ∃ ρ : ℝ, 0 < ρ ∧ ρ ^ M = 1 / 100 ∧ ∀ t : Nat, expWin Real.exp Real.log M t = ρ ^ t := by
  have hMr : (M : ℝ) ≠ 0 := by exact_mod_cast hM.ne'
  have hL : Real.log (1 / 100) ≠ 0 := by
    have : Real.log (1 / 100) < 0 := Real.log_neg (by norm_num) (by norm_num)
    exact this.ne
  refine ⟨Real.exp (Real.log (1 / 100) / M), Real.exp_pos _, ?_, ?_⟩
  · rw [← Real.exp_nat_mul, mul_div_cancel₀ _ hMr, Real.exp_log (by norm_num)]
  · intro t
    rw [← Real.exp_nat_mul]
    simp only [expWin]
    congr 1
    have : ((100 : Nat) : ℝ) = 100 := by norm_num
    rw [this]
    field_simp

end PV.C13
