import PyomaVerif.Props.C15
import PyomaVerif.Props.C02State
/-!
# C02 ∘ C15 — the hypotheses `hne`, `hlen` of `C02_stats_results` / `C02_poser` / `mergeResults_ok`
and `fresh ≠ []` of `C02_results_fresh` are facts about every object the constructor accepted

`MultiSetup_PoSER.__init__` runs `_init_setups` (model `Orch.Poser.check`, characterised by
`C15_poser_iff`).  `cfg` is what the validation sees (per setup and algorithm: class, result
flags; the number of names), `setups` / `names` what `merge_results` reads of the same object:
the two views have the same shape (`hshape`, `hn`).
-/
namespace PV.C02
open PV.Merge PV.Orch

/-- **C02_results_of_accepted** — an accepted object has at least two setups, at least one name,
    and every setup carries exactly one algorithm per name. -/
theorem C02_results_of_accepted {Cl K C : Type} [DecidableEq Cl] (cfg : Poser.Config Cl)
    (names : List String) (setups : List (List (AlgRes K C)))
    (hshape : cfg.setups.map List.length = setups.map List.length)
    (hn : cfg.nNames = names.length) (hacc : Poser.accepts cfg = true) :
    setups ≠ [] ∧ 2 ≤ setups.length ∧ names ≠ [] ∧ (∀ s ∈ setups, s.length = names.length) := by
  obtain ⟨h2, hne, hcl, hnn, _⟩ := (PV.C15.C15_poser_iff cfg).mp hacc
  have hlen : setups.length = cfg.setups.length := by
    simpa using (congrArg List.length hshape).symm
  have hall : ∀ n ∈ cfg.setups.map List.length, n = cfg.nNames ∧ n ≠ 0 := by
    intro n hn'
    obtain ⟨s, hs, rfl⟩ := List.mem_map.mp hn'
    have := congrArg List.length (hcl s hs)
    simp only [Poser.classes, List.length_map] at this
    exact ⟨by rw [this, hnn], by simpa using hne s hs⟩
  have h0 : ∃ s0, s0 ∈ setups := by
    cases setups with
    | nil => simp at hlen; omega
    | cons s0 _ => exact ⟨s0, by simp⟩
  refine ⟨by intro e; subst e; simp at hlen; omega, by omega, ?_, ?_⟩
  · obtain ⟨s0, hs0⟩ := h0
    have := hall s0.length (by rw [hshape]; exact List.mem_map.mpr ⟨s0, hs0, rfl⟩)
    intro e; subst e
    simp at hn
    omega
  · intro s hs
    have := hall s.length (by rw [hshape]; exact List.mem_map.mpr ⟨s, hs, rfl⟩)
    omega

theorem groupAppend_ne_nil {α : Type} (g : List (String × List α)) (key : String) (a : α) :
    groupAppend g key a ≠ [] := by
  cases g with
  | nil => simp [groupAppend]
  | cons p rest => obtain ⟨k, as⟩ := p; simp only [groupAppend]; split <;> simp

theorem groupSetup_ne_nil {α : Type} (names : List String) :
    ∀ (s : List α) (g : List (String × List α)) (ii : Nat) (out : List (String × List α)),
      (g ≠ [] ∨ s ≠ []) → groupSetup names g ii s = .ok out → out ≠ [] := by
  intro s
  induction s with
  | nil => intro g ii out h e; simp only [groupSetup, Except.ok.injEq] at e; subst e; simpa using h
  | cons a as ih =>
    intro g ii out _ e
    simp only [groupSetup] at e
    split at e
    · cases e
    · exact ih _ _ _ (Or.inl (groupAppend_ne_nil _ _ _)) e

theorem algGroups_ne_nil {α : Type} (names : List String) :
    ∀ (ss : List (List α)) (g out : List (String × List α)),
      (g ≠ [] ∨ ∃ s ∈ ss.head?, s ≠ []) → algGroups names g ss = .ok out → out ≠ [] := by
  intro ss
  induction ss with
  | nil => intro g out h e; simp only [algGroups, Except.ok.injEq] at e; subst e; simpa using h
  | cons s ss ih =>
    intro g out h e
    simp only [algGroups] at e
    split at e
    · cases e
    · rename_i g' hg'
      refine ih _ _ (Or.inl (groupSetup_ne_nil names s g 0 g' ?_ hg')) e
      rcases h with h | ⟨s', hs', hne⟩
      · exact Or.inl h
      · simp only [List.head?_cons, Option.mem_def, Option.some.injEq] at hs'
        subst hs'; exact Or.inr hne

/-- **`fresh ≠ []` of `C02_results_fresh` holds on every accepted object**: what `merge_results`
    returns there is never the empty dictionary (nor `None`). -/
theorem C02_fresh_ne_of_accepted {Cl K C : Type} [DecidableEq Cl]
    [Zero K] [Add K] [Sub K] [Mul K] [Div K] [NatCast K]
    [Zero C] [Add C] [Mul C] [Div C] [Inhabited C] (sqrt : K → K) (re : C → C)
    (cfg : Poser.Config Cl)
    (names : List String) (setups : List (List (AlgRes K C))) (refInd : List (List Nat))
    (hshape : cfg.setups.map List.length = setups.map List.length)
    (hn : cfg.nNames = names.length) (hacc : Poser.accepts cfg = true)
    (fresh : List (String × PoserRes K C))
    (h : mergeResults sqrt re names setups refInd = .ok fresh) : fresh ≠ [] := by
  obtain ⟨hne, _, hnames, hlen⟩ := C02_results_of_accepted cfg names setups hshape hn hacc
  obtain ⟨s0, ss, rfl⟩ := List.exists_cons_of_ne_nil hne
  have hs0 : s0 ≠ [] := by
    intro e
    have := hlen s0 (by simp)
    rw [e] at this
    exact hnames (List.length_eq_zero_iff.mp this.symm)
  rw [mergeResults_eq] at h
  cases hg : algGroups names [] (s0 :: ss) with
  | error e1 => simp [hg] at h
  | ok groups =>
    simp only [hg] at h
    have hk := mapE_groupStep_keys sqrt re refInd groups fresh h
    have hgn := algGroups_ne_nil names (s0 :: ss) [] groups (Or.inr ⟨s0, by simp, hs0⟩) hg
    intro e
    subst e
    simp at hk
    exact hgn hk

/-- non-vacuity: two setups of one run-and-extracted algorithm each, one name -/
example : Poser.accepts (C := Nat) ⟨[[⟨0, true, true⟩], [⟨0, true, true⟩]], 1⟩ = true ∧
    ([[⟨0, true, true⟩], [⟨0, true, true⟩]] : List (List (Poser.AlgInfo Nat))).map List.length
      = ([[ExState.a1], [ExState.a2]] : List (List (AlgRes Rat Rat))).map List.length := by
  decide +kernel

end PV.C02
