import PyomaVerif.Model.Unc
import PyomaVerif.Lemmas.Sum
import PyomaVerif.Lemmas.Unc
import Mathlib.Algebra.Order.BigOperators.Ring.Finset
import Mathlib.Algebra.Order.Field.Basic
import Mathlib.Analysis.Real.Sqrt
import Mathlib.Tactic.FinCases
import Mathlib.Tactic.NormNum
import Mathlib.LinearAlgebra.Matrix.Notation
import Mathlib.Data.Fin.VecNotation
/-!
# C17 — frequency variance = first-order propagation of the Hankel covariance factor
Property theorems only; all sizes.  `Model/Unc.lean` mirrors the code after the repairs
in `proposed_fixes/fix_13.diff`, `fix_14.diff`, `fix_25.diff`.
-/
namespace PV.C17
open PV PV.Mat PV.Unc Finset

/-! ## The factor `T` of `build_hank` -/

/-- shape of the factor: one row per Hankel entry, one column per block. -/
theorem C17_factor_shape {K} [Field K] (Yf Yp : Mat K) (nb N : Nat) (s : K) (T : Mat K)
    (h : covFactor Yf Yp nb N s = .ok T) : T.r = Yf.r * Yp.r ∧ T.c = nb := by
  unfold covFactor at h
  split_ifs at h
  cases h
  exact ⟨rfl, rfl⟩

/-- **Column stacking.** Row `idxC R i j = j·R + i` (`R` = number of Hankel rows) of column
    `k` is `s` times the deviation of entry `(i, j)` of block estimate `k` from entry `(i, j)`
    of the full estimate. -/
theorem C17_factor_entry {K} [Field K] (Yf Yp : Mat K) (nb N : Nat) (s : K) (T : Mat K)
    (h : covFactor Yf Yp nb N s = .ok T) (i j k : Nat) (hi : i < Yf.r) :
    T.e (idxC Yf.r i j) k
      = s * ((blockEst Yf Yp N (N / nb) k).e i j - (mulT Yf Yp).e i j) := by
  unfold covFactor at h
  split_ifs at h
  cases h
  simp only [vecC, idxC, blockEst, mulT, colSliceT, blk_div j hi, blk_mod j hi]
  ring

/-- the block estimate is the moment estimate over the block's `Nb` columns, in the
    normalisation of the full estimate: with `Yf = ŷf/√N`, `Yp = ŷp/√N` it equals
    `(1/Nb)·Σ_{t in block k} ŷf[i,t]·ŷp[j,t]`. -/
theorem C17_block_entry {K} [Field K] (Yf Yp : Mat K) (N Nb k i j : Nat)
    (hfit : (k + 1) * Nb ≤ Yf.c) :
    (blockEst Yf Yp N Nb k).e i j
      = (∑ t ∈ range Nb, Yf.e i (k * Nb + t) * Yp.e j (k * Nb + t)) * (N : K) / (Nb : K) := by
  have hw : min ((k + 1) * Nb) Yf.c - k * Nb = Nb := by
    rw [Nat.min_eq_left hfit, Nat.succ_mul, Nat.add_sub_cancel_left]
  simp only [blockEst, mulT, colSliceT, sumTo_eq, hw]

/-- **Block-wise Hankel estimates.** When the `nb` blocks tile the data columns exactly, the
    block estimates average to `N/(nb·Nb)` times the full estimate (`= N/(N−1)`, the full
    estimate divides `N−1` products by `N`): they estimate the same matrix. -/
theorem C17_block_mean {K} [Field K] (Yf Yp : Mat K) (N Nb nb i j : Nat)
    (htile : nb * Nb = Yf.c) :
    ∑ k ∈ range nb, (blockEst Yf Yp N Nb k).e i j
      = (mulT Yf Yp).e i j * (N : K) / (Nb : K) := by
  have hk : ∀ k ∈ range nb, (blockEst Yf Yp N Nb k).e i j
      = (∑ t ∈ range Nb, Yf.e i (k * Nb + t) * Yp.e j (k * Nb + t)) * (N : K) / (Nb : K) := by
    intro k hk
    apply C17_block_entry
    rw [← htile]
    exact Nat.mul_le_mul_right _ (Nat.succ_le_of_lt (mem_range.mp hk))
  rw [Finset.sum_congr rfl hk]
  simp only [div_eq_mul_inv]
  rw [← Finset.sum_mul, ← Finset.sum_mul,
    ← sum_range_mul nb Nb (fun m => Yf.e i m * Yp.e j m), htile]
  simp only [mulT, sumTo_eq]

/-- **Gram identity.** `T·Tᵀ = 1/(nb(nb−1))·Σ_k (h_k − h)(h_k − h)ᵀ` with `h_k` the
    column-stacked block estimates and `h` the column-stacked full estimate. -/
theorem C17_factor_gram {K} [Field K] (Yf Yp : Mat K) (nb N : Nat) (s : K) (T : Mat K)
    (hs : s * s = 1 / ((nb : K) * ((nb : K) - 1)))
    (h : covFactor Yf Yp nb N s = .ok T) (m m' : Nat) :
    (mulT T T).e m m'
      = 1 / ((nb : K) * ((nb : K) - 1)) *
        ∑ k ∈ range nb,
          (vecC (blockEst Yf Yp N (N / nb) k) m - vecC (mulT Yf Yp) m) *
          (vecC (blockEst Yf Yp N (N / nb) k) m' - vecC (mulT Yf Yp) m') := by
  unfold covFactor at h
  split_ifs at h
  cases h
  simp only [mulT, sumTo_eq]
  rw [← hs, Finset.mul_sum]
  apply Finset.sum_congr rfl
  intro k _
  ring

/-- Centred form: with `hbar` the mean of the block vectors (`nb·hbar = Σ_k h_k`), the Gram
    matrix is the sample covariance of the mean plus a rank-one term in `hbar − h`
    (`hbar − h = (N/(nb·Nb) − 1)·h` by `C17_block_mean`, i.e. of relative size `1/N`). -/
theorem C17_factor_gram_centered {K} [Field K] (Yf Yp : Mat K) (nb N : Nat) (s : K) (T : Mat K)
    (h : covFactor Yf Yp nb N s = .ok T) (hbar : Nat → K)
    (hmean : ∀ m, (nb : K) * hbar m = ∑ k ∈ range nb, vecC (blockEst Yf Yp N (N / nb) k) m)
    (m m' : Nat) :
    (mulT T T).e m m'
      = s * s * (∑ k ∈ range nb,
          (vecC (blockEst Yf Yp N (N / nb) k) m - hbar m) *
          (vecC (blockEst Yf Yp N (N / nb) k) m' - hbar m')
        + (nb : K) * ((hbar m - vecC (mulT Yf Yp) m) * (hbar m' - vecC (mulT Yf Yp) m'))) := by
  unfold covFactor at h
  split_ifs at h
  cases h
  simp only [mulT, sumTo_eq]
  exact gram_centered nb (fun k => vecC (blockEst Yf Yp N (N / nb) k) m)
    (fun k => vecC (blockEst Yf Yp N (N / nb) k) m') s _ _ (hbar m) (hbar m') (hmean m) (hmean m')

/-! ## Vectorisation convention of the Kronecker selections -/

/-- `(I_c ⊗ uᵀ)·vec_c(H) = Hᵀ·u` for the column-stacking `vec_c` (eq. 33, `Ti1`). -/
theorem C17_vec_convention_left {K} [Field K] (H : Mat K) (u : Nat → K) (a : Nat) (ha : a < H.c) :
    mulVec (selIU H.c H.r u) (vecC H) a = ∑ i ∈ range H.r, H.e i a * u i := by
  simp only [mulVec, selIU, kron, eye, rowVec, vecC, sumTo_eq, Nat.div_one]
  rw [sum_range_mul, Finset.sum_eq_single a]
  · apply Finset.sum_congr rfl
    intro i hi
    rw [blk_div a (mem_range.mp hi), blk_mod a (mem_range.mp hi)]
    simp
    ring
  · intro j _ hja
    apply Finset.sum_eq_zero
    intro i hi
    rw [blk_div j (mem_range.mp hi)]
    simp [Ne.symm hja]
  · intro hn
    exact absurd (mem_range.mpr ha) hn

/-- `(vᵀ ⊗ I_r)·vec_c(H) = H·v` for the column-stacking `vec_c` (eq. 33, `Ti2`). -/
theorem C17_vec_convention_right {K} [Field K] (H : Mat K) (v : Nat → K) (i : Nat) (hi : i < H.r) :
    mulVec (selVI H.c H.r v) (vecC H) i = ∑ j ∈ range H.c, H.e i j * v j := by
  simp only [mulVec, selVI, kron, eye, rowVec, vecC, sumTo_eq, Nat.mod_eq_of_lt hi]
  rw [sum_range_mul]
  apply Finset.sum_congr rfl
  intro j _
  rw [Finset.sum_eq_single i]
  · rw [blk_div j hi, blk_mod j hi]
    simp
    ring
  · intro b hb hbi
    rw [blk_mod j (mem_range.mp hb)]
    simp [Ne.symm hbi]
  · intro hn
    exact absurd (mem_range.mpr hi) hn

/-- the 2×3 matrix `[[1,2,3],[4,5,6]]` -/
def exH : Mat Rat := ⟨2, 3, fun i j => (3 * i + j + 1 : Nat)⟩
def exU : Nat → Rat := fun i => if i = 0 then 1 else 0
def exV : Nat → Rat := fun j => if j = 0 then 1 else 0

/-- **The factor must be in the vectorisation the selections assume.**  Both selection
    identities hold for every matrix with the column-stacking `vecC`; with the row-major
    `vecR` (numpy's default `reshape(-1)`) both fail already on the non-square
    `H = [[1,2,3],[4,5,6]]`: `(I₃ ⊗ e₀ᵀ)·vecR(H) = (1,3,5) ≠ Hᵀe₀ = (1,2,3)` and
    `(e₀ᵀ ⊗ I₂)·vecR(H) = (1,2) ≠ H·e₀ = (1,4)`. -/
theorem C17_vec_convention :
    (∀ {K : Type} [Field K] (H : Mat K) (u v : Nat → K),
        (∀ a, a < H.c → mulVec (selIU H.c H.r u) (vecC H) a = ∑ i ∈ range H.r, H.e i a * u i) ∧
        (∀ i, i < H.r → mulVec (selVI H.c H.r v) (vecC H) i = ∑ j ∈ range H.c, H.e i j * v j)) ∧
    (mulVec (selIU exH.c exH.r exU) (vecR exH) 1 = 3 ∧ sumTo exH.r (fun i => exH.e i 1 * exU i) = 2) ∧
    (mulVec (selVI exH.c exH.r exV) (vecR exH) 1 = 2 ∧ sumTo exH.c (fun j => exH.e 1 j * exV j) = 4) := by
  refine ⟨fun H u v => ⟨fun a ha => C17_vec_convention_left H u a ha,
    fun i hi => C17_vec_convention_right H v i hi⟩, ?_, ?_⟩
  · decide +kernel
  · decide +kernel

/-- the two vectorisations agree exactly where the index maps agree: `vecR` of `H` is `vecC`
    of `Hᵀ` (so a row-major factor describes the covariance of `vec_c(Hᵀ)`, not `vec_c(H)`). -/
theorem C17_vecR_eq_vecC_transpose {K} (H : Mat K) (m : Nat) : vecR H m = vecC (transpose H) m := rfl

/-! ## Variance read-out: additive over the columns of the factor -/

/-- the code's `Jfx·[Re(w·Q); Im(w·Q)]` is a real matrix times `Q` … -/
theorem C17_ufx_linear {K} [Field K] (J : Mat K) (wr wi : Nat → K) (Q : Mat K) (a j : Nat) :
    (ufx J wr wi Q).e a j = (mul (gOf J wr wi Q.r) Q).e a j := by
  simp only [ufx, mul, gOf, sumTo_eq]
  rw [Finset.mul_sum, Finset.mul_sum, ← Finset.sum_add_distrib]
  apply Finset.sum_congr rfl
  intro m _
  ring

/-- **Additivity.** With every `Q` a real matrix `M` times the factor `T`, the reported
    `cov_fx[0,0]` for a factor with columns `t_1..t_k` is the sum over the columns of the value
    reported for the single-column factor `t_j`, each of which is a square
    (`d_j·d_j`, `d_j` the linear read-out of `t_j`). -/
theorem C17_additive {K} [Field K] (J : Mat K) (wr wi : Nat → K) (M T : Mat K) :
    var00 (ufx J wr wi (mul M T))
        = ∑ j ∈ range T.c, var00 (ufx J wr wi (mul M (colOf T j))) ∧
    ∀ j, var00 (ufx J wr wi (mul M (colOf T j)))
        = (ufx J wr wi (mul M (colOf T j))).e 0 0 * (ufx J wr wi (mul M (colOf T j))).e 0 0 := by
  constructor
  · simp only [var00, mulT, ufx, mul, colOf, sumTo_eq, Finset.sum_range_one]
  · intro j
    simp only [var00, mulT, ufx, mul, colOf, sumTo_eq, Finset.sum_range_one]

/-- the same for the stored `abs(cov_fx[0,0])` over an ordered field. -/
theorem C17_additive_abs {K} [Field K] [LinearOrder K] [IsStrictOrderedRing K]
    (J : Mat K) (wr wi : Nat → K) (M T : Mat K) :
    |var00 (ufx J wr wi (mul M T))|
        = ∑ j ∈ range T.c, |var00 (ufx J wr wi (mul M (colOf T j)))| := by
  have hnn : ∀ j, 0 ≤ var00 (ufx J wr wi (mul M (colOf T j))) := by
    intro j
    rw [(C17_additive J wr wi M T).2 j]
    exact mul_self_nonneg _
  rw [(C17_additive J wr wi M T).1, abs_of_nonneg (Finset.sum_nonneg (fun j _ => hnn j))]
  apply Finset.sum_congr rfl
  intro j _
  rw [abs_of_nonneg (hnn j)]

/-! ## Sensitivities over dual numbers -/

open Matrix TrivSqZeroExt in
/-- **Eigenvalue sensitivity (core of eq. 43).** Over the dual numbers `K[ε]`: if
    `A·φ = λ·φ`, `χ·A = λ·χ` (`χ` the row vector the code forms as `conj(l_eigvt[:, jj])`) and
    `χ·φ` has a non-zero value part, then `ε(λ) = χ₀·ε(A)·φ₀ / (χ₀·φ₀)`.  `K = ℂ` in the
    application. -/
theorem C17_eig_sens {K : Type} [Field K] {n : Nat} (A : Matrix (Fin n) (Fin n) (DualNumber K))
    (φ χ : Fin n → DualNumber K) (lam : DualNumber K)
    (hr : A *ᵥ φ = lam • φ) (hl : χ ᵥ* A = lam • χ) (hne : (χ ⬝ᵥ φ).fst ≠ 0) :
    lam.snd = (vfst χ ⬝ᵥ (msnd A *ᵥ vfst φ)) / (vfst χ ⬝ᵥ vfst φ) := by
  have h1 := congrArg vsnd hr
  rw [vsnd_mulVec, vsnd_smul] at h1
  have h2 := congrArg vfst hl
  rw [vfst_vecMul, vfst_smul] at h2
  rw [fst_dotProduct] at hne
  exact eig_sens_pair (mfst A) (msnd A) (vfst φ) (vsnd φ) (vfst χ) lam.fst lam.snd h1 h2 hne

open Matrix in
/-- **Sensitivity of the realisation (least-squares form, what `Pnn`, `Q1..Q3` assemble).**
    Over the dual numbers, with `W` the inverse of `O↑ᵀO↑` (full column rank of `O↑`) and
    `A = W·O↑ᵀ·O↓` (`= O↑⁺·O↓`, the code's `inv(R)·Qᵀ·O↓`):
    `ε(A) = W₀·( ε(O↑)ᵀ·O↓₀ + O↑₀ᵀ·ε(O↓) − (ε(O↑)ᵀ·O↑₀ + O↑₀ᵀ·ε(O↑))·A₀ )`.
    No assumption that `O↓₀ = O↑₀·A₀` (the least-squares residual may be non-zero). -/
theorem C17_realisation_sens {K : Type} [Field K] {a n : Nat}
    (Op Om : Matrix (Fin a) (Fin n) (DualNumber K)) (W A : Matrix (Fin n) (Fin n) (DualNumber K))
    (hW : W * (Opᵀ * Op) = 1) (hA : A = W * (Opᵀ * Om)) :
    msnd A = mfst W * ((msnd Op)ᵀ * mfst Om + (mfst Op)ᵀ * msnd Om
        - ((msnd Op)ᵀ * mfst Op + (mfst Op)ᵀ * msnd Op) * mfst A) := by
  have hW' : (Opᵀ * Op) * W = 1 := mul_eq_one_comm.mp hW
  have hN : (Opᵀ * Op) * A = Opᵀ * Om := by
    rw [hA, ← Matrix.mul_assoc, hW', Matrix.one_mul]
  have h1 := congrArg msnd hN
  rw [msnd_mul, msnd_mul, msnd_mul, mfst_mul, mfst_transpose, msnd_transpose] at h1
  have hW0 : mfst W * ((mfst Op)ᵀ * mfst Op) = 1 := by
    have := congrArg mfst hW
    rwa [mfst_mul, mfst_mul, mfst_transpose, mfst_one] at this
  have h2 : (mfst Op)ᵀ * mfst Op * msnd A
      = (mfst Op)ᵀ * msnd Om + (msnd Op)ᵀ * mfst Om
        - ((mfst Op)ᵀ * msnd Op + (msnd Op)ᵀ * mfst Op) * mfst A := by
    rw [← h1]; abel
  calc msnd A = (mfst W * ((mfst Op)ᵀ * mfst Op)) * msnd A := by rw [hW0, Matrix.one_mul]
    _ = mfst W * ((mfst Op)ᵀ * mfst Op * msnd A) := by simp only [Matrix.mul_assoc]
    _ = _ := by rw [h2]; congr 1; abel

open Matrix in
/-- contraction with an eigenvector of `A₀` (eq. 44: `−λ·(P+I)·Q1 + P·Q2 + Q3`): the terms
    `O↑₀ᵀ·ε(O↑)` (`Q1`), its transpose (`P·Q1`), `ε(O↑)ᵀ·O↓₀` (`P·Q2`) and `O↑₀ᵀ·ε(O↓)` (`Q3`). -/
theorem C17_realisation_sens_eig {K : Type} [Field K] {a n : Nat}
    (Op Om : Matrix (Fin a) (Fin n) (DualNumber K)) (W A : Matrix (Fin n) (Fin n) (DualNumber K))
    (hW : W * (Opᵀ * Op) = 1) (hA : A = W * (Opᵀ * Om))
    (φ0 : Fin n → K) (l0 : K) (hφ : mfst A *ᵥ φ0 = l0 • φ0) :
    msnd A *ᵥ φ0 = mfst W *ᵥ
      ( -(l0 • (((mfst Op)ᵀ * msnd Op + (msnd Op)ᵀ * mfst Op) *ᵥ φ0))
        + ((msnd Op)ᵀ * mfst Om) *ᵥ φ0 + ((mfst Op)ᵀ * msnd Om) *ᵥ φ0 ) := by
  rw [C17_realisation_sens Op Om W A hW hA, ← Matrix.mulVec_mulVec, Matrix.sub_mulVec,
    Matrix.add_mulVec, ← Matrix.mulVec_mulVec (φ0) _ (mfst A), hφ, Matrix.mulVec_smul]
  congr 1
  rw [add_comm ((msnd Op)ᵀ * mfst Op)]
  abel

open Matrix in
/-- **Sensitivity of the realisation (residual-free form of DESIGN).** For ANY left inverse
    `L` of `O↑` over the dual numbers and `A = L·O↓`, if the shift equation holds exactly at
    the expansion point (`O↓₀ = O↑₀·A₀`), then `ε(A) = L₀·(ε(O↓) − ε(O↑)·A₀)`. -/
theorem C17_realisation_sens_consistent {K : Type} [Field K] {a n : Nat}
    (Op Om : Matrix (Fin a) (Fin n) (DualNumber K)) (L : Matrix (Fin n) (Fin a) (DualNumber K))
    (A : Matrix (Fin n) (Fin n) (DualNumber K))
    (hL : L * Op = 1) (hA : A = L * Om) (hshift : mfst Om = mfst Op * mfst A) :
    msnd A = mfst L * (msnd Om - msnd Op * mfst A) := by
  have h0 := congrArg msnd hL
  rw [msnd_mul, msnd_one] at h0
  have h3 : msnd L * mfst Op = -(mfst L * msnd Op) := by
    rw [eq_neg_iff_add_eq_zero, add_comm]; exact h0
  rw [hA, msnd_mul, hshift, ← hA, ← Matrix.mul_assoc (msnd L), h3, Matrix.mul_sub,
    Matrix.neg_mul, Matrix.mul_assoc]
  abel

/-! ## Non-vacuity -/

/-- stacked data of a 2-row / 1-row toy record with 6 columns -/
def exYf : Mat Rat := ⟨2, 6, fun i t => if i = 0 then (t : Rat) + 1 else ((t * t : Nat) : Rat) - 3⟩
def exYp : Mat Rat := ⟨3, 6, fun j t => ((t + j) % 3 : Nat)⟩

/-- `nb = 3` blocks of `Nb = 7 // 3 = 2` columns: the factor exists, is column stacked, and the
    deviations are non-zero. -/
example : ∃ T, covFactor exYf exYp 3 7 (1 / 2) = .ok T ∧ T.r = 6 ∧ T.c = 3 ∧
    T.e (idxC 2 1 2) 1 = (1 / 2) * ((blockEst exYf exYp 7 2 1).e 1 2 - (mulT exYf exYp).e 1 2) ∧
    (blockEst exYf exYp 7 2 1).e 1 2 ≠ (mulT exYf exYp).e 1 2 := by
  refine ⟨_, rfl, rfl, rfl, ?_, ?_⟩ <;> decide +kernel

/-- the tiling hypothesis of `C17_block_mean` holds for `nb = 3`, `Nb = 2` on 6 columns -/
example : 3 * 2 = exYf.c := rfl
example : (1 + 1) * 2 ≤ exYf.c := by decide

/-- the scale hypothesis `s·s = 1/(nb(nb−1))` of `C17_factor_gram` (never satisfiable in `ℚ`,
    `nb(nb−1)` is not a square) is satisfiable over `ℝ`, together with `covFactor … = .ok T`. -/
example : ∃ (s : ℝ) (T : Mat ℝ),
    s * s = 1 / (((3 : Nat) : ℝ) * (((3 : Nat) : ℝ) - 1)) ∧
    covFactor (⟨2, 6, fun i t => (i : ℝ) + t⟩ : Mat ℝ) ⟨3, 6, fun j t => (j : ℝ) * t⟩ 3 7 s = .ok T := by
  refine ⟨Real.sqrt (1 / 6), _, ?_, rfl⟩
  rw [Real.mul_self_sqrt (by norm_num)]
  norm_num

open Matrix TrivSqZeroExt in
/-- a 2×2 first-order eigen-triple over `ℚ[ε]`: `A = [[2,1],[0,3]] + ε·[[1,2],[3,4]]`,
    `λ = 2 − 2ε`, `φ = (1, −3ε)`, `χ = (1 + 4ε, −1)`; `χ₀·ε(A)·φ₀/(χ₀·φ₀) = (1 − 3)/1 = −2`. -/
example :
    let A : Matrix (Fin 2) (Fin 2) (DualNumber ℚ) :=
      !![inl 2 + inr 1, inl 1 + inr 2; inr 3, inl 3 + inr 4]
    let φ : Fin 2 → DualNumber ℚ := ![inl 1, inr (-3)]
    let χ : Fin 2 → DualNumber ℚ := ![inl 1 + inr 4, inl (-1)]
    let lam : DualNumber ℚ := inl 2 + inr (-2)
    A *ᵥ φ = lam • φ ∧ χ ᵥ* A = lam • χ ∧ (χ ⬝ᵥ φ).fst ≠ 0 ∧ msnd A ≠ 0 := by
  intro A φ χ lam
  refine ⟨?_, ?_, ?_, ?_⟩
  · ext i <;> fin_cases i <;>
      simp [A, φ, lam, Matrix.mulVec, dotProduct, Fin.sum_univ_two] <;> norm_num
  · ext i <;> fin_cases i <;>
      simp [A, χ, lam, Matrix.vecMul, dotProduct, Fin.sum_univ_two] <;> norm_num
  · simp [χ, φ, dotProduct, Fin.sum_univ_two]
  · intro h
    have := congrFun (congrFun h 0) 0
    simp [msnd, A] at this

open Matrix TrivSqZeroExt in
/-- a 2×1 observability pair over `ℚ[ε]` with full column rank: `O↑ = (1 + ε, 2)ᵀ`,
    `O↓ = (3, 1 + ε)ᵀ`, `W = (O↑ᵀO↑)⁻¹ = 1/5 − (2/25)ε`. -/
example :
    let Op : Matrix (Fin 2) (Fin 1) (DualNumber ℚ) := !![inl 1 + inr 1; inl 2]
    let W : Matrix (Fin 1) (Fin 1) (DualNumber ℚ) := !![inl (1 / 5) + inr (-2 / 25)]
    W * (Opᵀ * Op) = 1 := by
  intro Op W
  ext i j <;> fin_cases i <;> fin_cases j <;>
    simp [Op, W, Matrix.mul_apply, Fin.sum_univ_two] <;> norm_num

open Matrix TrivSqZeroExt in
/-- hypotheses of `C17_realisation_sens_consistent`: `L = W·O↑ᵀ` for the pair above is a left
    inverse, `O↓ = (3 + ε, 6)ᵀ` satisfies the shift equation at the expansion point with
    `A₀ = 3`. -/
example :
    let Op : Matrix (Fin 2) (Fin 1) (DualNumber ℚ) := !![inl 1 + inr 1; inl 2]
    let L : Matrix (Fin 1) (Fin 2) (DualNumber ℚ) :=
      !![inl (1 / 5) + inr (3 / 25), inl (2 / 5) + inr (-4 / 25)]
    let Om : Matrix (Fin 2) (Fin 1) (DualNumber ℚ) := !![inl 3 + inr 1; inl 6]
    L * Op = 1 ∧ mfst Om = mfst Op * mfst (L * Om) := by
  intro Op L Om
  constructor
  · ext i j <;> fin_cases i <;> fin_cases j <;>
      simp [Op, L, Matrix.mul_apply, Fin.sum_univ_two] <;> norm_num
  · ext i j
    fin_cases i <;> fin_cases j <;>
      simp [Op, L, Om, mfst, Matrix.mul_apply] <;> norm_num

end PV.C17
