import PyomaVerif.Model.Efdd
import PyomaVerif.Lemmas.Efdd
import Mathlib.Analysis.Real.Sqrt
import Mathlib.Analysis.SpecialFunctions.Log.Basic
import Mathlib.Analysis.SpecialFunctions.Trigonometric.Basic
import Mathlib.Tactic.Positivity
/-!
# C07 — EFDD/FSDD recover frequency and damping of an exact SDOF spectral bell
(`fdd.SDOF_bellandMS`, `fdd.EFDD_mpe`).  Property theorems only.  The accuracy tolerances
(2.5 %, 15 %, MAC 0.999) are *not* theorems: they are validated by the oracle on the real
code (harness/c07.py).
-/
set_option linter.unusedSectionVars false
namespace PV.C07
open PV PV.Fdd PV.Efdd Finset

section scale
variable {K : Type} [Field K] [LinearOrder K] [IsStrictOrderedRing K]

/-- **Normalised correlation is scale free**: for `c > 0` the arg-max does not move and the
    quotient is unchanged. -/
theorem C07_normCorr_scale (n : Nat) (x : Nat → K) (c : K) (hc : 0 < c) (i : Nat) :
    normCorr n (fun t => c * x t) i = normCorr n x i := by
  simp only [normCorr, argmaxTo_scale hc]
  exact mul_div_mul_left _ _ (ne_of_gt hc)

/-- FSDD: `φᴴ·(c·Sy)·φ = c·φᴴ·Sy·φ` on every line; the MAC mask does not involve `Sy`. -/
theorem C07_bell_scale_fsdd (nch cm nf : Nat) (dt : K) (Sy : Nat → Nat → Nat → Cx K)
    (Sval Sval' : Nat → Nat → Nat → K) (Svec : Nat → Nat → Nat → Cx K) (phi : Nat → Cx K)
    (sel DF MAClim c : K) (l : Nat) :
    sdofBell .FSDD nch cm nf dt (fun i j l => Cx.smul c (Sy i j l)) Sval' Svec phi sel DF MAClim l
      = Cx.smul c (sdofBell .FSDD nch cm nf dt Sy Sval Svec phi sel DF MAClim l) := by
  have hval : ∀ csm, bellVal .FSDD nch (fun i j l => Cx.smul c (Sy i j l)) Sval' phi csm l
      = Cx.smul c (bellVal .FSDD nch Sy Sval phi csm l) := by
    intro csm
    simp only [bellVal, CxL.mul_smul, sumTo_smul, CxL.smul_mul]
  simp only [sdofBell, bellAt, hval]
  split_ifs
  · rw [← sumTo_smul]
    congr 1; funext csm
    split_ifs
    · rfl
    · exact (CxL.smul_zero c).symm
  · exact (CxL.smul_zero c).symm

/-- EFDD (repaired code): stored values scaled by `r` (`r = √c` under the SVD contract
    `svd(c·S) = (U, c·Σ, V)`) scale the bell by `r² = c`. -/
theorem C07_bell_scale_efdd (nch cm nf : Nat) (dt : K) (Sy Sy' : Nat → Nat → Nat → Cx K)
    (Sval : Nat → Nat → Nat → K) (Svec : Nat → Nat → Nat → Cx K) (phi : Nat → Cx K)
    (sel DF MAClim r : K) (l : Nat) :
    sdofBell .EFDD nch cm nf dt Sy' (fun i j l => r * Sval i j l) Svec phi sel DF MAClim l
      = Cx.smul (r * r) (sdofBell .EFDD nch cm nf dt Sy Sval Svec phi sel DF MAClim l) := by
  simp only [sdofBell, bellAt, bellVal, CxL.ofReal_mul_mul]
  split_ifs
  · rw [← sumTo_smul]
    congr 1; funext csm
    split_ifs
    · rfl
    · exact (CxL.smul_zero _).symm
  · exact (CxL.smul_zero _).symm

/-- the first-stage pick (hence `phi_FDD`) only sees ratios of stored values -/
theorem C07_pick_scale (nch nref nf : Nat) (freq s1 s2 : Nat → K) (sel DF r : K) (hr : r ≠ 0) :
    fddPick nch nref nf freq (fun k => r * s1 k) (fun k => r * s2 k) sel DF
      = fddPick nch nref nf freq s1 s2 sel DF := by
  have e : ∀ lo, ratioAt (fun k => r * s1 k) (fun k => r * s2 k) lo = ratioAt s1 s2 lo := by
    intro lo; funext i; simp only [ratioAt]; exact mul_div_mul_left _ _ hr
  simp only [fddPick, pickIdx, e]

/-- **C07_scale.** Multiply the whole spectral matrix by `c > 0`.  Under the SVD contract
    (`U` unchanged — so `S_vec`, the FDD shape and the MAC mask are unchanged — and stored
    square roots multiplied by `r`, `r² = c`) and for any inverse transform that is
    homogeneous for positive real factors, the normalised correlation is the same sequence,
    hence so is every later quantity (`postFft`: crossings, extrema, indices, `Td`, `fd`,
    decrement ratios — and with them slope, `lam`, `xi`, `fn`). -/
theorem C07_scale (m : Method) (hm : m = .FSDD ∨ m = .EFDD) (nch cm nf : Nat) (dt : K)
    (Sy : Nat → Nat → Nat → Cx K) (Sval : Nat → Nat → Nat → K) (Svec : Nat → Nat → Nat → Cx K)
    (phi : Nat → Cx K) (sel DF MAClim c r : K) (hc : 0 < c) (hr : r * r = c)
    (ifftRe : (Nat → Cx K) → Nat → K)
    (hlin : ∀ (s : K) (b : Nat → Cx K), 0 < s →
      ifftRe (fun l => Cx.smul s (b l)) = fun i => s * ifftRe b i)
    (sppk npmax : Nat) :
    (∀ i, normCorr (5 * nf)
        (ifftRe (sdofBell m nch cm nf dt (fun i j l => Cx.smul c (Sy i j l))
          (fun i j l => r * Sval i j l) Svec phi sel DF MAClim)) i
      = normCorr (5 * nf) (ifftRe (sdofBell m nch cm nf dt Sy Sval Svec phi sel DF MAClim)) i) ∧
    postFft nf (normCorr (5 * nf)
        (ifftRe (sdofBell m nch cm nf dt (fun i j l => Cx.smul c (Sy i j l))
          (fun i j l => r * Sval i j l) Svec phi sel DF MAClim))) dt sppk npmax
      = postFft nf (normCorr (5 * nf)
        (ifftRe (sdofBell m nch cm nf dt Sy Sval Svec phi sel DF MAClim))) dt sppk npmax := by
  have hb : sdofBell m nch cm nf dt (fun i j l => Cx.smul c (Sy i j l))
        (fun i j l => r * Sval i j l) Svec phi sel DF MAClim
      = fun l => Cx.smul c (sdofBell m nch cm nf dt Sy Sval Svec phi sel DF MAClim l) := by
    funext l
    rcases hm with rfl | rfl
    · exact C07_bell_scale_fsdd nch cm nf dt Sy Sval _ Svec phi sel DF MAClim c l
    · rw [← hr]; exact C07_bell_scale_efdd nch cm nf dt Sy _ Sval Svec phi sel DF MAClim r l
  have hn : normCorr (5 * nf)
        (ifftRe (sdofBell m nch cm nf dt (fun i j l => Cx.smul c (Sy i j l))
          (fun i j l => r * Sval i j l) Svec phi sel DF MAClim))
      = normCorr (5 * nf) (ifftRe (sdofBell m nch cm nf dt Sy Sval Svec phi sel DF MAClim)) := by
    funext i
    rw [hb, hlin c _ hc]
    exact C07_normCorr_scale _ _ c hc i
  exact ⟨fun i => congrFun hn i, by rw [hn]⟩

/-- **Bell = spectral density (EFDD, repaired code).** If the stored value is a square root
    of the first singular value `σ₁` (what `SD_svalsvec` stores), the EFDD bell on a line
    passing the MAC test is `σ₁` itself. -/
theorem C07_bell_efdd (nch : Nat) (Sy : Nat → Nat → Nat → Cx K) (Sval : Nat → Nat → Nat → K)
    (phi : Nat → Cx K) (csm l : Nat) (sig : K) (h : Sval csm csm l ^ 2 = sig) :
    bellVal .EFDD nch Sy Sval phi csm l = Cx.ofReal sig := by
  simp only [bellVal, ← h, sq]

end scale

section fit
variable {K : Type} [Field K] [LinearOrder K] [IsStrictOrderedRing K]

theorem sum_sq_pos (n : Nat) (hn : 2 ≤ n) : (0 : K) < ∑ k ∈ range n, (k : K) * (k : K) := by
  have h1 : (1 : K) * 1 ≤ ∑ k ∈ range n, (k : K) * (k : K) := by
    have := Finset.single_le_sum (f := fun k : Nat => (k : K) * (k : K)) (s := range n)
      (fun k _ => mul_self_nonneg _) (Finset.mem_range.mpr (by omega : 1 < n))
    simpa using this
  linarith

/-- **Through-origin least squares is exact on a line**: if `δ_k = k·d` for `k < n`
    (`n ≥ 2`) then `Σ k·δ_k / Σ k² = d`. -/
theorem C07_slope_exact (n : Nat) (hn : 2 ≤ n) (d : K) (delta : Nat → K)
    (h : ∀ k, k < n → delta k = (k : K) * d) : slope n delta = d := by
  unfold slope
  rw [sumTo_eq, sumTo_eq]
  have : ∑ k ∈ range n, (k : K) * delta k = d * ∑ k ∈ range n, (k : K) * (k : K) := by
    rw [Finset.mul_sum]
    apply Finset.sum_congr rfl
    intro k hk
    rw [h k (Finset.mem_range.mp hk)]; ring
  rw [this, mul_div_assoc, div_self (ne_of_gt (sum_sq_pos n hn)), mul_one]

end fit

/-- **C07_logdec.** For `0 < ξ < 1`: if the magnitudes of the successive extrema decay by
    `exp(−πξ/√(1−ξ²))` per half cycle, then the decrements `log(|m₀|/|m_k|)` lie on a line
    whose through-origin slope is `πξ/√(1−ξ²)`; with the factor 2 of the `"per"` branch
    `xi = lam/√(4π²+lam²)` is exactly `ξ`, and `fd/√(1−xi²)` turns the damped frequency
    `fn·√(1−ξ²)` back into `fn`. -/
theorem C07_logdec (ξ fn A : ℝ) (h0 : 0 < ξ) (h1 : ξ < 1) (hA : 0 < A) (n nf : ℕ) (hn : 2 ≤ n)
    (l001 : ℝ) (m : ℕ → ℝ)
    (hm : ∀ k, k < n → |m k| = A * Real.exp (-((k : ℝ) * (Real.pi * ξ / √(1 - ξ ^ 2))))) :
    slope n (fun k => Real.log (absK (m 0) / absK (m k))) = Real.pi * ξ / √(1 - ξ ^ 2) ∧
    xiOf Real.sqrt Real.pi
      (lamOf .per nf l001 (slope n (fun k => Real.log (absK (m 0) / absK (m k))))) = ξ ∧
    fnOf Real.sqrt (fn * √(1 - ξ ^ 2)) ξ = fn := by
  have hs2 : 0 < 1 - ξ ^ 2 := by nlinarith
  have hs : 0 < √(1 - ξ ^ 2) := Real.sqrt_pos.mpr hs2
  have hss : √(1 - ξ ^ 2) * √(1 - ξ ^ 2) = 1 - ξ ^ 2 := Real.mul_self_sqrt hs2.le
  set s := √(1 - ξ ^ 2) with hsdef
  set d := Real.pi * ξ / s with hd
  have hslope : slope n (fun k => Real.log (absK (m 0) / absK (m k))) = d := by
    apply C07_slope_exact n hn
    intro k hk
    rw [absK_eq_abs, absK_eq_abs, hm k hk, hm 0 (by omega)]
    have e : A * Real.exp (-(((0 : ℕ) : ℝ) * d)) / (A * Real.exp (-((k : ℝ) * d)))
        = Real.exp ((k : ℝ) * d) := by
      rw [Nat.cast_zero, zero_mul, neg_zero, Real.exp_zero, mul_one, Real.exp_neg]
      field_simp
    rw [e, Real.log_exp]
  refine ⟨hslope, ?_, ?_⟩
  · rw [hslope]
    simp only [lamOf, xiOf, Nat.cast_ofNat]
    have hpi : 0 < Real.pi := Real.pi_pos
    have harg : 4 * (Real.pi * Real.pi) + 2 * d * (2 * d) = (2 * Real.pi / s) * (2 * Real.pi / s) := by
      rw [hd]
      have hs' : s ≠ 0 := ne_of_gt hs
      field_simp
      nlinarith [hss]
    rw [harg, Real.sqrt_mul_self (by positivity), hd]
    have hs' : s ≠ 0 := ne_of_gt hs
    field_simp
  · simp only [fnOf, Nat.cast_one]
    have : (1 : ℝ) - ξ * ξ = 1 - ξ ^ 2 := by ring
    rw [this, ← hsdef]
    field_simp

section peaks
variable {K : Type} [Field K] [LinearOrder K] [IsStrictOrderedRing K]

/-- **Zero crossings**: exactly the indices `i` (with `i+1` inside the array) at which the sign
    of the sample differs from the sign of the next one, in increasing order. -/
theorem C07_zeroCross (n : Nat) (x : Nat → K) :
    (∀ i, i ∈ zeroCross n x ↔ (i + 1 < n ∧ sgn (x i) ≠ sgn (x (i + 1)))) ∧
    (zeroCross n x).Pairwise (· < ·) := by
  constructor
  · intro i
    simp only [zeroCross, List.mem_filter, List.mem_range, bne_iff_ne, ne_eq]
    constructor
    · rintro ⟨h1, h2⟩; exact ⟨by omega, h2⟩
    · rintro ⟨h1, h2⟩; exact ⟨by omega, h2⟩
  · exact List.Pairwise.filter _ List.pairwise_lt_range

theorem winMax_spec (x : Nat → K) (a b : Nat) (hab : a < b) :
    (∀ t, a ≤ t → t < b → x t ≤ winMax x a b) ∧ (∃ t, a ≤ t ∧ t < b ∧ x t = winMax x a b) := by
  have hpos : 0 < b - a := by omega
  constructor
  · intro t h1 h2
    have := argmaxTo_le (n := b - a) (fun t => x (a + t)) (t - a) (by omega)
    simp only [Nat.add_sub_cancel' h1] at this
    exact this
  · exact ⟨a + argmaxTo (b - a) (fun t => x (a + t)), Nat.le_add_right _ _,
      by have := argmaxTo_lt hpos (fun t => x (a + t)); omega, rfl⟩

theorem winMin_spec (x : Nat → K) (a b : Nat) (hab : a < b) :
    (∀ t, a ≤ t → t < b → winMin x a b ≤ x t) ∧ (∃ t, a ≤ t ∧ t < b ∧ x t = winMin x a b) := by
  have hpos : 0 < b - a := by omega
  constructor
  · intro t h1 h2
    have := argminTo_le (n := b - a) (fun t => x (a + t)) (t - a) (by omega)
    simp only [Nat.add_sub_cancel' h1] at this
    exact this
  · exact ⟨a + argminTo (b - a) (fun t => x (a + t)), Nat.le_add_right _ _,
      by have := argminTo_lt hpos (fun t => x (a + t)); omega, rfl⟩

/-- **C07_extrema.** For a strictly increasing crossing list `zc` (e.g. `zeroCross`), the
    `j`-th selected maximum / minimum (`j < ⌈(len zc − 2)/2⌉`) is the largest / smallest sample
    of the window `[zc[2j], zc[2j+2])` between every second crossing, and is attained there. -/
theorem C07_extrema (x : Nat → K) (zc : List Nat) (hs : zc.Pairwise (· < ·)) (j : Nat)
    (hj : j < nWin zc) :
    ∃ a b M m, zc[2 * j]? = some a ∧ zc[2 * j + 2]? = some b ∧ a < b ∧
      (maxList x zc)[j]? = some M ∧ (minList x zc)[j]? = some m ∧
      (∀ t, a ≤ t → t < b → x t ≤ M) ∧ (∃ t, a ≤ t ∧ t < b ∧ x t = M) ∧
      (∀ t, a ≤ t → t < b → m ≤ x t) ∧ (∃ t, a ≤ t ∧ t < b ∧ x t = m) := by
  have hlen : 2 * j + 2 < zc.length := by unfold nWin at hj; omega
  have h1 : 2 * j < zc.length := by omega
  have hab : zc[2 * j] < zc[2 * j + 2] := by
    have := List.pairwise_iff_getElem.mp hs (2 * j) (2 * j + 2) h1 hlen (by omega)
    exact this
  refine ⟨zc[2 * j], zc[2 * j + 2], winMax x zc[2 * j] zc[2 * j + 2], winMin x zc[2 * j] zc[2 * j + 2],
    List.getElem?_eq_getElem h1, List.getElem?_eq_getElem hlen, hab, ?_, ?_,
    (winMax_spec x _ _ hab).1, (winMax_spec x _ _ hab).2,
    (winMin_spec x _ _ hab).1, (winMin_spec x _ _ hab).2⟩
  · simp only [maxList, List.getElem?_map, List.getElem?_range hj, Option.map_some, List.getD_eq_getElem?_getD,
      List.getElem?_eq_getElem h1, List.getElem?_eq_getElem hlen, Option.getD_some]
  · simp only [minList, List.getElem?_map, List.getElem?_range hj, Option.map_some, List.getD_eq_getElem?_getD,
      List.getElem?_eq_getElem h1, List.getElem?_eq_getElem hlen, Option.getD_some]

/-- **Interleave order.** The two lists have the same length, so the truncation branch is a
    no-op and `minmax` is `min₀, max₀, min₁, max₁, …`: entry `2j` is the `j`-th minimum, entry
    `2j+1` the `j`-th maximum (each window starts on the sample before a crossing, so for a
    correlation starting positive this is time order). -/
theorem C07_interleave (x : Nat → K) (zc : List Nat) :
    truncPair (maxList x zc) (minList x zc) = (maxList x zc, minList x zc) ∧
    (interleave (minList x zc) (maxList x zc)).length = 2 * nWin zc ∧
    ∀ j, (interleave (minList x zc) (maxList x zc))[2 * j]? = (minList x zc)[j]? ∧
         (interleave (minList x zc) (maxList x zc))[2 * j + 1]? = (maxList x zc)[j]? := by
  have hl : (minList x zc).length = (maxList x zc).length := by simp [minList, maxList]
  refine ⟨?_, ?_, ?_⟩
  · simp [truncPair, hl]
  · rw [interleave_length _ _ hl]; simp [minList]
  · intro j; exact interleave_getElem? _ _ hl j

end peaks

section timeaxis
variable {K : Type} [Field K] [LinearOrder K] [IsStrictOrderedRing K]

/-- **C07_timeaxis.** The coded time axis `linspace(0, nf·dt, ⌊5nf/2⌋)` has spacing
    `nf·dt/(⌊5nf/2⌋−1)`; the lags of the `5nf`-point inverse transform of a spectrum with
    line spacing `1/(2(nf−1)dt)` are spaced `2(nf−1)dt/(5nf)`.  For `nf ≥ 8` the coded spacing
    is the larger one and exceeds the true one by at most the fraction `2/nf` (so the
    frequency read off the peak spacing is biased low by at most that fraction). -/
theorem C07_timeaxis (nf : Nat) (hnf : 8 ≤ nf) (dt : K) (hdt : 0 < dt) :
    trueStep nf dt ≤ timeStep nf dt ∧
    timeStep nf dt - trueStep nf dt ≤ 2 / (nf : K) * trueStep nf dt := by
  obtain ⟨q, hq⟩ : ∃ q : Nat, 5 * nf / 2 - 1 = q := ⟨_, rfl⟩
  have hq1 : 5 * nf ≤ 2 * q + 3 := by omega
  have hq2 : 2 * q + 2 ≤ 5 * nf := by omega
  obtain ⟨p, hp⟩ : ∃ p : Nat, nf - 1 = p := ⟨_, rfl⟩
  have hp1 : nf = p + 1 := by omega
  simp only [timeStep, trueStep, hq, hp]
  have hN : (8 : K) ≤ (nf : K) := by exact_mod_cast hnf
  have c1 : (5 : K) * (nf : K) ≤ 2 * (q : K) + 3 := by exact_mod_cast hq1
  have c2 : (2 : K) * (q : K) + 2 ≤ 5 * (nf : K) := by exact_mod_cast hq2
  have c3 : (nf : K) = (p : K) + 1 := by exact_mod_cast hp1
  have hNpos : (0 : K) < (nf : K) := by linarith
  have hQpos : (0 : K) < (q : K) := by linarith
  have h5N : (0 : K) < ((5 * nf : Nat) : K) := by push_cast; linarith
  push_cast
  constructor
  · rw [div_le_div_iff₀ (by linarith) hQpos]
    nlinarith [mul_pos hdt hNpos, mul_pos hdt hQpos]
  · rw [div_sub_div _ _ (ne_of_gt hQpos) (by positivity), div_mul_div_comm,
      div_le_div_iff₀ (by positivity) (by positivity)]
    have hp0 : (0 : K) ≤ (p : K) := by linarith
    have c1' : 5 * (nf : K) - 3 ≤ 2 * (q : K) := by linarith
    have k1 : (p : K) * (5 * (nf : K) - 3) ≤ (p : K) * (2 * (q : K)) :=
      mul_le_mul_of_nonneg_left c1' hp0
    have k2 : ((nf : K) + 2) * ((p : K) * (5 * (nf : K) - 3)) ≤ ((nf : K) + 2) * ((p : K) * (2 * (q : K))) :=
      mul_le_mul_of_nonneg_left k1 (by linarith)
    have k3 : 5 * (nf : K) ^ 3 ≤ ((nf : K) + 2) * ((p : K) * (5 * (nf : K) - 3)) := by
      have : (p : K) = (nf : K) - 1 := by linarith
      rw [this]
      nlinarith [mul_nonneg (by linarith : (0 : K) ≤ (nf : K) - 8) (by linarith : (0 : K) ≤ 2 * (nf : K) + 3)]
    have key : 5 * (nf : K) ^ 3 ≤ ((nf : K) + 2) * ((p : K) * (2 * (q : K))) := le_trans k3 k2
    have := mul_le_mul_of_nonneg_left key (mul_pos hdt hNpos).le
    nlinarith [this]

end timeaxis

/-! ### Non-vacuity -/
/-- a damped cosine sampled at 12 points; crossings at 1, 4, 7 ⇒ one window `[1, 7)` -/
def exX : Nat → Rat := fun i =>
  [(1:Rat), 1/2, -3/4, -1/2, -1/8, 3/8, 1/2, 1/4, -1/4, -3/8, -1/8, 1/16].getD i 0
example : zeroCross 12 exX = [1, 4, 7, 10] := by decide +kernel
example : nWin (zeroCross 12 exX) = 1 := by decide +kernel
example : maxList exX (zeroCross 12 exX) = [1/2] ∧ minList exX (zeroCross 12 exX) = [-3/4] := by
  decide +kernel
/-- `C07_timeaxis` at `nf = 513`, `dt = 1/100` -/
example : (8 ≤ 513) ∧ (0 < (1/100 : Rat)) := by decide +kernel
/-- `C07_scale`'s transform hypothesis is satisfiable: take the real part of the first sample -/
example : ∀ (s : Rat) (b : Nat → Cx Rat), 0 < s →
    (fun (g : Nat → Cx Rat) (_ : Nat) => (g 0).re) (fun l => Cx.smul s (b l))
      = fun i => s * (fun (g : Nat → Cx Rat) (_ : Nat) => (g 0).re) b i := by
  intro s b _; rfl
/-- `C07_logdec`: `ξ = 1/2`, `A = 1`, `m k = exp(−k·d)` satisfies the decay hypothesis -/
example : ∀ k, k < 5 → |(fun k : ℕ => Real.exp (-((k : ℝ) * (Real.pi * (1/2) / √(1 - (1/2 : ℝ) ^ 2))))) k|
    = 1 * Real.exp (-((k : ℝ) * (Real.pi * (1/2) / √(1 - (1/2 : ℝ) ^ 2)))) := by
  intro k _; rw [abs_of_pos (Real.exp_pos _), one_mul]
end PV.C07
