import PyomaVerif.Lemmas.Merge
import PyomaVerif.Model.Cpx
/-!
# C02 — PoSER merging reproduces the global mode shape from re-scaled setups
-/
namespace PV.C02
open PV.Merge

variable {C : Type} [Field C] [Inhabited C]

/-- A setup of the PoSER layout, for one mode: the global row of each of its channels,
    the positions of its reference channels, and its (per-setup, per-mode) scale factor. -/
structure SetupD (C : Type) where
  rows : List Nat
  ref : List Nat
  s : C

/-- the mode shape a setup reports: the global shape restricted to its sensors, times `s` -/
def SetupD.phi (G : Nat → C) (d : SetupD C) : List C := d.rows.map (fun r => d.s * G r)

/-- well-formed setup w.r.t. the common global reference rows `refRows` -/
structure Good (re : C → C) (G : Nat → C) (refRows : List Nat) (s0 : C) (d : SetupD C) : Prop where
  inRange : ∀ i ∈ d.ref, i < d.rows.length
  sameRefs : pick d.rows d.ref = refRows
  sne : d.s ≠ 0
  real : re (s0 / d.s) = s0 / d.s

theorem tail_merge (re : C → C) (G : Nat → C) (refRows : List Nat) (s0 : C)
    (hg : dot (refRows.map G) (refRows.map G) ≠ 0) :
    ∀ ds : List (SetupD C), (∀ d ∈ ds, Good re G refRows s0 d) →
      (List.zipWith (fun phi ref => (delete phi ref).map
          (fun x => msf re (pick phi ref) ((refRows.map G).map (s0 * ·)) * x))
        (ds.map (SetupD.phi G)) (ds.map (·.ref))).flatten
      = (rovingConcat (ds.map (·.rows)) (ds.map (·.ref))).map (fun r => s0 * G r) := by
  intro ds
  induction ds with
  | nil => intro _; simp [rovingConcat]
  | cons d ds ih =>
    intro h
    have hd := h d (by simp)
    have hrest := ih (fun d' hd' => h d' (by simp [hd']))
    simp only [List.map_cons, List.zipWith_cons_cons, List.flatten_cons, rovingConcat,
      List.map_append]
    unfold rovingConcat at hrest
    rw [hrest]
    congr 1
    -- the head setup
    have hpick : pick (SetupD.phi G d) d.ref = (refRows.map G).map (d.s * ·) := by
      unfold SetupD.phi
      rw [pick_map _ _ _ hd.inRange, hd.sameRefs, List.map_map]
      rfl
    rw [hpick, msf_scaled re (refRows.map G) d.s s0 hd.sne hg hd.real]
    unfold SetupD.phi
    rw [delete_map, List.map_map]
    apply List.map_congr_left
    intro r _
    have := hd.sne
    simp only [Function.comp]
    field_simp

/-- **C02_merge.** For every global mode shape `G` (one mode), every layout and every non-zero
    real scale factors: if each setup reports `s_i · G[rows_i]`, all setups list the same global
    reference rows in the same order, and the (unconjugated) square sum of the reference
    components does not vanish, then the merged mode shape is the global shape in the scale of
    the FIRST setup, ordered as: reference rows (first setup's order), then each setup's roving
    rows in ascending channel order, setups in order.
    (One mode.  The whole matrix — every mode, every row, the executed `mergeModeShapes` with its
    exception checks — is `C02_merge_all` in `Props/C02Matrix.lean`; `hg` is discharged there for
    real-valued reference components, `C02_merge_all_real`, and shown to be needed for complex
    ones, `hg_needed` in `Props/C02Driver.lean`.) -/
theorem C02_merge (re : C → C) (G : Nat → C) (refRows : List Nat) (d0 : SetupD C) (ds : List (SetupD C))
    (h0in : ∀ i ∈ d0.ref, i < d0.rows.length) (h0ref : pick d0.rows d0.ref = refRows)
    (hds : ∀ d ∈ ds, Good re G refRows d0.s d)
    (hg : dot (refRows.map G) (refRows.map G) ≠ 0) :
    mergedCol re ((d0 :: ds).map (SetupD.phi G)) ((d0 :: ds).map (·.ref))
      = (refRows ++ rovingConcat ((d0 :: ds).map (·.rows)) ((d0 :: ds).map (·.ref))).map
          (fun r => d0.s * G r) := by
  simp only [List.map_cons, mergedCol]
  have hpick0 : pick (SetupD.phi G d0) d0.ref = (refRows.map G).map (d0.s * ·) := by
    unfold SetupD.phi
    rw [pick_map _ _ _ h0in, h0ref, List.map_map]
    rfl
  rw [hpick0, tail_merge re G refRows d0.s hg ds hds]
  simp only [rovingConcat, List.zipWith_cons_cons, List.flatten_cons, List.map_append,
    List.append_assoc]
  congr 1
  · rw [List.map_map]; rfl
  · congr 1
    unfold SetupD.phi
    rw [delete_map]

/-- **C02_order.** The rows after the references are laid out by the very function
    (`rovingConcat`) that lays out the sensor names after `REF1..REFk`: whatever labels the
    channels carry, merging and name flattening put them in the same order. -/
theorem C02_order (names : List (List String)) (refs : List (List Nat)) :
    (flattenNames names refs).drop (refs.headD []).length = rovingConcat names refs ∧
    (flattenNames names refs).take (refs.headD []).length
      = (List.range (refs.headD []).length).map (fun i => s!"REF{i+1}") := by
  unfold flattenNames
  constructor
  · rw [List.drop_append_of_le_length (by simp)]; simp
  · rw [List.take_append_of_le_length (by simp)]; simp

/-- labels travel with the values: relabelling commutes with the roving layout -/
theorem C02_order_parametric {α β} (f : α → β) (xs : List (List α)) (refs : List (List Nat)) :
    rovingConcat (xs.map (·.map f)) refs = (rovingConcat xs refs).map f :=
  rovingConcat_map f xs refs

omit [Inhabited C] in
/-- **C02_stats** (algebraic core, kept under this name for `Props/C02C01.lean`): for ANY number
    `σ` with `σ² = pvar xs`, `(σ/mean·mean)² = pvar xs`.  `σ` is a hypothesis here; the statement
    about what `merge_results` computes (the model `mergeResults`: grouping, stacking, mean,
    `sqrt(pvar)/mean` with `sqrt` under its contract) is `C02_stats_results` / `C02_stats_group`
    in `Props/C02Results.lean`. -/
theorem C02_stats (xs : List C) (sigma : C) (hs : sigma * sigma = pvar xs) (hm : mean xs ≠ 0) :
    (sigma / mean xs * mean xs) * (sigma / mean xs * mean xs) = pvar xs := by
  have : sigma / mean xs * mean xs = sigma := by field_simp
  rw [this, hs]

/-! ### non-vacuity: two setups of a 4-row global shape over ℚ, scales 2 and −1/2 -/
example :
    let G : Nat → Rat := fun r => (r : Rat) + 1
    let d0 : SetupD Rat := ⟨[0, 1, 2], [1], 2⟩
    let d1 : SetupD Rat := ⟨[3, 1], [1], -1/2⟩
    mergedCol id ([d0, d1].map (SetupD.phi G)) ([d0, d1].map (·.ref)) = [4, 2, 6, 8] := by
  decide +kernel

end PV.C02
