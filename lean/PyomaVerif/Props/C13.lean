import PyomaVerif.Model.Spectral
import PyomaVerif.Lemmas.Spectral
import Mathlib.Tactic.IntervalCases
/-!
# C13 — spectral matrix estimation (`fdd.SD_est`): grid, pairing, scaling, phase convention
Property theorems only; all for every record length, segment length, overlap, channel
and reference count, and every ordered field of scalars.
-/
namespace PV.C13
open PV Finset
variable {K : Type}

/-! ### pairing -/

/-- **Pairing ("per").** Entry `(i,j,·)` is the scalar Welch estimate of (row `i` of the first
    argument, row `j` of the second argument), first argument conjugated. -/
theorem sd_pairing_per_entry [Field K] (Yall Yref : Mat K) (dt : K) (nxseg nov : Nat)
    (tw : Nat → CxS K) (i j k : Nat) :
    (sdEstPer Yall Yref dt nxseg nov tw).e i j k
      = (welchCsd (Yall.e i) (Yref.e j) Yref.c (1 / dt) (hann tw) nxseg nov nxseg tw).val k := rfl

/-- **Pairing ("per").** Entry `(i,j,·)` depends on nothing but the samples `t < Ndat` of row `i`
    of the data and of row `j` of the reference data. -/
theorem sd_pairing_per [Field K] (Yall Yref Yall' Yref' : Mat K) (dt : K) (nxseg nov : Nat)
    (tw : Nat → CxS K) (i j k : Nat) (hc : Yref'.c = Yref.c)
    (hi : ∀ t, t < Yref.c → Yall'.e i t = Yall.e i t)
    (hj : ∀ t, t < Yref.c → Yref'.e j t = Yref.e j t) :
    (sdEstPer Yall' Yref' dt nxseg nov tw).e i j k = (sdEstPer Yall Yref dt nxseg nov tw).e i j k := by
  rw [sd_pairing_per_entry, sd_pairing_per_entry, hc, welchCsd_val, welchCsd_val]
  congr 1
  apply sum_congr rfl; intro s hs
  rw [welchX_congr (Yall.e i) (Yall'.e i), welchX_congr (Yref.e j) (Yref'.e j)]
  · intro t ht; exact hj _ (seg_index_lt _ _ _ _ _ (mem_range.mp hs) ht)
  · intro t ht; exact hi _ (seg_index_lt _ _ _ _ _ (mem_range.mp hs) ht)

/-- **Pairing ("cor").** The same for the correlogram chain. -/
theorem sd_pairing_cor [Field K] (Yall Yref Yall' Yref' : Mat K) (dt : K) (nxseg : Nat)
    (tw tw2 : Nat → CxS K) (ew : Nat → K) (i j k : Nat) (hc : Yref'.c = Yref.c)
    (hi : ∀ t, t < Yref.c → Yall'.e i t = Yall.e i t)
    (hj : ∀ t, t < Yref.c → Yref'.e j t = Yref.e j t) :
    (sdEstCor Yall' Yref' dt nxseg tw tw2 ew).e i j k
      = (sdEstCor Yall Yref dt nxseg tw tw2 ew).e i j k := by
  have hP : corPxy Yall' Yref' nxseg tw i j = corPxy Yall Yref nxseg tw i j := by
    funext q
    simp only [corPxy]
    rw [hc, welchCsd_val, welchCsd_val]
    congr 1
    apply sum_congr rfl; intro s hs
    rw [welchX_congr (Yall.e i) (Yall'.e i), welchX_congr (Yref.e j) (Yref'.e j)]
    · intro t ht; exact hj _ (seg_index_lt _ _ _ _ _ (mem_range.mp hs) ht)
    · intro t ht; exact hi _ (seg_index_lt _ _ _ _ _ (mem_range.mp hs) ht)
  simp only [sdEstCor, hP]

/-! ### frequency grid -/

/-- **Grid ("per").** `nxseg/2 + 1` lines, shape `n_all × n_ref`, line `k` at `k·fs/nxseg`
    with `fs = 1/dt`. -/
theorem sd_grid_per [Field K] (Yall Yref : Mat K) (dt : K) (nxseg nov : Nat) (tw : Nat → CxS K) :
    let S := sdEstPer Yall Yref dt nxseg nov tw
    S.nall = Yall.r ∧ S.nref = Yref.r ∧ S.nf = nxseg / 2 + 1
      ∧ ∀ k, S.freq k = (k : K) * (1 / dt) / (nxseg : K) := by
  refine ⟨rfl, rfl, rfl, ?_⟩
  intro k
  simp only [sdEstPer, welchCsd, inv_inv, mul_inv, div_eq_mul_inv]
  ring

/-- **Grid ("cor").** The same grid for the correlogram chain. -/
theorem sd_grid_cor [Field K] (Yall Yref : Mat K) (dt : K) (nxseg : Nat) (tw tw2 : Nat → CxS K)
    (ew : Nat → K) :
    let S := sdEstCor Yall Yref dt nxseg tw tw2 ew
    S.nall = Yall.r ∧ S.nref = Yref.r ∧ S.nf = nxseg / 2 + 1
      ∧ ∀ k, S.freq k = (k : K) * (1 / dt) / (nxseg : K) := by
  refine ⟨rfl, rfl, ?_, ?_⟩
  · simp only [sdEstCor]; omega
  · intro k; simp only [sdEstCor, div_eq_mul_inv]; ring

/-- **Grid, last line.** For even `nxseg > 0` the last line `k = nxseg/2` of either grid is
    the Nyquist frequency `fs/2`. -/
theorem sd_grid_nyquist [Field K] [CharZero K] (dt : K) (nxseg : Nat) (hpos : 0 < nxseg)
    (heven : nxseg % 2 = 0) :
    ((nxseg / 2 : Nat) : K) * (1 / dt) / (nxseg : K) = (1 / dt) / 2 := by
  have h2 : nxseg = 2 * (nxseg / 2) := by omega
  have hne : (nxseg : K) ≠ 0 := by exact_mod_cast (by omega : nxseg ≠ 0)
  have hc : (nxseg : K) = 2 * ((nxseg / 2 : Nat) : K) := by exact_mod_cast congrArg (Nat.cast (R := K)) h2
  have hh : ((nxseg / 2 : Nat) : K) = (nxseg : K) / 2 := by rw [hc]; simp
  rw [hh]; field_simp

/-! ### bilinearity ("per") -/

theorem sd_bilinear_per_add_left [Field K] (Y Y' Yref : Mat K) (dt : K) (nxseg nov : Nat)
    (tw : Nat → CxS K) (i j k : Nat) :
    (sdEstPer (Mat.add Y Y') Yref dt nxseg nov tw).e i j k
      = (sdEstPer Y Yref dt nxseg nov tw).e i j k + (sdEstPer Y' Yref dt nxseg nov tw).e i j k := by
  simp only [sd_pairing_per_entry, welchCsd_val, Mat.add, welchX_add, CxS.conj_add, add_mul,
    sum_add_distrib, mul_add]

theorem sd_bilinear_per_add_right [Field K] (Y Yref Yref' : Mat K) (dt : K) (nxseg nov : Nat)
    (tw : Nat → CxS K) (i j k : Nat) (hc : Yref'.c = Yref.c) :
    (sdEstPer Y (Mat.add Yref Yref') dt nxseg nov tw).e i j k
      = (sdEstPer Y Yref dt nxseg nov tw).e i j k + (sdEstPer Y Yref' dt nxseg nov tw).e i j k := by
  simp only [sd_pairing_per_entry, welchCsd_val, Mat.add, welchX_add, hc, mul_add,
    sum_add_distrib]

/-- real-homogeneous in each argument … -/
theorem sd_bilinear_per_smul [Field K] (Y Yref : Mat K) (g h dt : K) (nxseg nov : Nat)
    (tw : Nat → CxS K) (i j k : Nat) :
    (sdEstPer (Mat.scale g Y) (Mat.scale h Yref) dt nxseg nov tw).e i j k
      = CxS.ofReal (g * h) * (sdEstPer Y Yref dt nxseg nov tw).e i j k := by
  simp only [sd_pairing_per_entry, welchCsd_val, Mat.scale, welchX_smul, CxS.conj_mul,
    CxS.conj_ofReal, CxS.ofReal_mul, mul_sum]
  apply sum_congr rfl; intro s _; ring

/-- … hence a common gain `g` scales the spectral matrix by `g²`. -/
theorem sd_gain_sq_per [Field K] (Y Yref : Mat K) (g dt : K) (nxseg nov : Nat)
    (tw : Nat → CxS K) (i j k : Nat) :
    (sdEstPer (Mat.scale g Y) (Mat.scale g Yref) dt nxseg nov tw).e i j k
      = CxS.smul (g ^ 2) ((sdEstPer Y Yref dt nxseg nov tw).e i j k) := by
  rw [sd_bilinear_per_smul, CxS.smul_eq, pow_two]

/-! ### bilinearity ("cor") -/

theorem sd_bilinear_cor_add_left [Field K] (Y Y' Yref : Mat K) (dt : K) (nxseg : Nat)
    (tw tw2 : Nat → CxS K) (ew : Nat → K) (i j k : Nat) :
    (sdEstCor (Mat.add Y Y') Yref dt nxseg tw tw2 ew).e i j k
      = (sdEstCor Y Yref dt nxseg tw tw2 ew).e i j k
        + (sdEstCor Y' Yref dt nxseg tw tw2 ew).e i j k := by
  simp only [sdEstCor, corPxy_add_left, corFromPxy_add]

theorem sd_bilinear_cor_add_right [Field K] (Y Yref Yref' : Mat K) (dt : K) (nxseg : Nat)
    (tw tw2 : Nat → CxS K) (ew : Nat → K) (i j k : Nat) (hc : Yref'.c = Yref.c) :
    (sdEstCor Y (Mat.add Yref Yref') dt nxseg tw tw2 ew).e i j k
      = (sdEstCor Y Yref dt nxseg tw tw2 ew).e i j k
        + (sdEstCor Y Yref' dt nxseg tw tw2 ew).e i j k := by
  simp only [sdEstCor, corPxy_add_right _ _ _ _ _ _ _ hc, corFromPxy_add]

theorem sd_bilinear_cor_smul [Field K] (Y Yref : Mat K) (g h dt : K) (nxseg : Nat)
    (tw tw2 : Nat → CxS K) (ew : Nat → K) (i j k : Nat) :
    (sdEstCor (Mat.scale g Y) (Mat.scale h Yref) dt nxseg tw tw2 ew).e i j k
      = CxS.ofReal (g * h) * (sdEstCor Y Yref dt nxseg tw tw2 ew).e i j k := by
  simp only [sdEstCor, corPxy_smul, corFromPxy_smul]

theorem sd_gain_sq_cor [Field K] (Y Yref : Mat K) (g dt : K) (nxseg : Nat)
    (tw tw2 : Nat → CxS K) (ew : Nat → K) (i j k : Nat) :
    (sdEstCor (Mat.scale g Y) (Mat.scale g Yref) dt nxseg tw tw2 ew).e i j k
      = CxS.smul (g ^ 2) ((sdEstCor Y Yref dt nxseg tw tw2 ew).e i j k) := by
  rw [sd_bilinear_cor_smul, CxS.smul_eq, pow_two]

/-! ### positive semidefiniteness ("per", identical arguments) -/

/-- **Dyad decomposition.** With identical arguments and `dt ≥ 0` every line `k` of the
    periodogram estimate is one non-negative multiple `c` of the sum over the segments of the
    dyads `conj(x_s)·x_sᵀ` of the segment transforms `x_s = (X_{i,s}[k])_i`. -/
theorem sd_per_dyads [Field K] [LinearOrder K] [IsStrictOrderedRing K] (Y : Mat K) (dt : K)
    (hdt : 0 ≤ dt) (nxseg nov : Nat) (tw : Nat → CxS K) (k : Nat) :
    ∃ c : K, 0 ≤ c ∧ ∃ (nseg : Nat) (X : Nat → Nat → CxS K), ∀ i j,
      (sdEstPer Y Y dt nxseg nov tw).e i j k
        = CxS.ofReal c * ∑ s ∈ range nseg, CxS.conj (X i s) * X j s := by
  refine ⟨csdCoef (1 / dt) (hann tw) Y.c nxseg nov nxseg k,
    csdCoef_nonneg _ (div_nonneg zero_le_one hdt) _ _ _ _ _ _,
    welchNseg Y.c nxseg nov, fun i s => welchX (Y.e i) (hann tw) nxseg (nxseg - nov) tw s k, ?_⟩
  intro i j
  rw [sd_pairing_per_entry, welchCsd_val]

/-- **Hermitian.** -/
theorem sd_per_hermitian [Field K] (Y : Mat K) (dt : K) (nxseg nov : Nat) (tw : Nat → CxS K)
    (i j k : Nat) :
    (sdEstPer Y Y dt nxseg nov tw).e j i k = CxS.conj ((sdEstPer Y Y dt nxseg nov tw).e i j k) := by
  simp only [sd_pairing_per_entry, welchCsd_val, CxS.conj_mul, CxS.conj_ofReal, CxS.conj_sum,
    CxS.conj_conj]
  congr 1
  apply sum_congr rfl; intro s _; ring

/-- **Positive semidefinite.** `zᴴ·S[:,:,k]·z` is real and non-negative for every complex `z`. -/
theorem sd_per_psd [Field K] [LinearOrder K] [IsStrictOrderedRing K] (Y : Mat K) (dt : K)
    (hdt : 0 ≤ dt) (nxseg nov : Nat) (tw : Nat → CxS K) (k : Nat) (z : Nat → CxS K) :
    let Q := ∑ i ∈ range Y.r, ∑ j ∈ range Y.r,
      CxS.conj (z i) * (sdEstPer Y Y dt nxseg nov tw).e i j k * z j
    Q.im = 0 ∧ 0 ≤ Q.re := by
  obtain ⟨c, hc, nseg, X, hX⟩ := sd_per_dyads Y dt hdt nxseg nov tw k
  intro Q
  let U : Nat → CxS K := fun s => ∑ j ∈ range Y.r, X j s * z j
  have key : ∀ s, CxS.conj (U s) * U s
      = ∑ i ∈ range Y.r, ∑ j ∈ range Y.r, CxS.conj (z i) * (CxS.conj (X i s) * X j s) * z j := by
    intro s
    simp only [U, CxS.conj_sum, CxS.conj_mul, sum_mul_sum]
    apply sum_congr rfl; intro i _; apply sum_congr rfl; intro j _; ring
  have hQ : Q = CxS.ofReal (c * ∑ s ∈ range nseg,
      ((U s).re * (U s).re + (U s).im * (U s).im)) := by
    rw [CxS.ofReal_mul, CxS.ofReal_sum]
    simp only [← CxS.conj_mul_self, key]
    show (∑ i ∈ range Y.r, ∑ j ∈ range Y.r,
      CxS.conj (z i) * (sdEstPer Y Y dt nxseg nov tw).e i j k * z j) = _
    simp only [hX, mul_sum, sum_mul]
    symm
    rw [sum_comm]
    apply sum_congr rfl; intro i _
    rw [sum_comm]
    apply sum_congr rfl; intro j _
    apply sum_congr rfl; intro s _
    ring
  rw [hQ]
  refine ⟨rfl, ?_⟩
  exact mul_nonneg hc (sum_nonneg fun s _ => add_nonneg (mul_self_nonneg _) (mul_self_nonneg _))

/-! ### phase convention -/

/-- **DFT shift.** For a twiddle with `tw(a+b) = tw a·tw b`, `tw n = 1` (as `exp(−2πi·m/n)`),
    a circular delay by `d` samples multiplies line `k` of the length-`n` transform by
    `tw(k·d)` — the phase `−2π·k·d/n`. -/
theorem dft_shift [Field K] (n : Nat) (tw : Nat → CxS K) (hmul : ∀ a b, tw (a + b) = tw a * tw b)
    (hn : tw n = 1) (x : Nat → CxS K) (d k : Nat) :
    dft n tw (circDelay n d x) k = tw (k * d) * dft n tw x k := by
  rcases Nat.eq_zero_or_pos n with h0 | hpos
  · subst h0; simp [dft_eq]
  have hed := circ_advance n d hpos
  generalize hE : n - d % n = e at hed
  let F : Nat → CxS K := fun u => x (u % n) * tw (k * u)
  have hF : ∀ u, F (u + n) = F u := by
    intro u; simp only [F]; rw [Nat.add_mod_right, tw_periodic tw n hmul hn]
  have h1 := sum_periodic_shift n F hF e
  have h2 : ∑ t ∈ range n, F t = dft n tw x k := by
    rw [dft_eq]; apply sum_congr rfl; intro t ht
    simp only [F]; rw [Nat.mod_eq_of_lt (mem_range.mp ht)]
  have h3 : ∑ t ∈ range n, F (t + e) = dft n tw (circDelay n d x) k * tw (k * e) := by
    rw [dft_eq, sum_mul]; apply sum_congr rfl; intro t _
    simp only [F, circDelay, hE]; rw [Nat.mul_add, hmul]; ring
  have h4 : tw (k * e) * tw (k * d) = 1 := by
    rw [← hmul, ← Nat.mul_add, hed, ← Nat.mul_assoc]; exact tw_mul_period tw n hmul hn _
  calc dft n tw (circDelay n d x) k
      = (dft n tw (circDelay n d x) k * tw (k * e)) * tw (k * d) := by rw [mul_assoc, h4, mul_one]
    _ = tw (k * d) * dft n tw x k := by rw [← h3, h1, h2]; ring

/-- **Gain and delay, `conj(X)·Y` convention.** If in every segment the second record is `g`
    times the circular delay by `d` samples of the first (a segment-periodic gain-and-delay
    pair) and the window is flat, then at every line the cross spectrum is exactly
    `g·tw(k·d)` times the auto spectrum: gain `g`, phase `−2π·f·d·dt`. -/
theorem csd_gain_delay [Field K] (x y : Nat → K) (n : Nat) (fs c : K) (w : Nat → K)
    (nperseg nov : Nat) (tw : Nat → CxS K) (hmul : ∀ a b, tw (a + b) = tw a * tw b)
    (hn : tw nperseg = 1) (g : K) (d : Nat) (hw : ∀ t, t < nperseg → w t = c)
    (hy : ∀ s t, s < welchNseg n nperseg nov → t < nperseg →
      y (s * (nperseg - nov) + t)
        = g * x (s * (nperseg - nov) + (t + (nperseg - d % nperseg)) % nperseg)) (k : Nat) :
    (welchCsd x y n fs w nperseg nov nperseg tw).val k
      = (CxS.ofReal g * tw (k * d)) * (welchCsd x x n fs w nperseg nov nperseg tw).val k := by
  rw [welchCsd_val, welchCsd_val]
  have hseg : ∀ s, s < welchNseg n nperseg nov →
      welchX y w nperseg (nperseg - nov) tw s k
        = (CxS.ofReal g * tw (k * d)) * welchX x w nperseg (nperseg - nov) tw s k := by
    intro s hs
    set st := nperseg - nov
    have hm : segMean y nperseg st s = g * segMean x nperseg st s := by
      rw [segMean_eq, segMean_eq, ← mul_div_assoc, mul_sum]
      congr 1
      rw [← sum_circDelay nperseg d (fun t => g * x (s * st + t))]
      exact sum_congr rfl (fun t ht => by rw [hy s t hs (mem_range.mp ht)]; rfl)
    let v : Nat → CxS K := fun t => CxS.ofReal (c * (x (s * st + t) - segMean x nperseg st s))
    have hx : welchX x w nperseg st tw s k = dft nperseg tw v k := by
      rw [welchX_eq, dft_eq]
      exact sum_congr rfl (fun t ht => by rw [hw t (mem_range.mp ht)])
    have hyv : welchX y w nperseg st tw s k = CxS.ofReal g * dft nperseg tw (circDelay nperseg d v) k := by
      rw [welchX_eq, dft_eq, mul_sum]
      apply sum_congr rfl; intro t ht
      have ht' := mem_range.mp ht
      rw [hw t ht', hy s t hs ht', hm]
      simp only [v, circDelay]
      rw [← mul_assoc, ← CxS.ofReal_mul]; congr 2; ring
    rw [hyv, dft_shift nperseg tw hmul hn, hx]; ring
  rw [mul_left_comm]
  congr 1
  rw [mul_sum]
  apply sum_congr rfl; intro s hs
  rw [hseg s (mem_range.mp hs)]; ring

/-! ### grid-line sinusoids ("per") -/

/-- **Grid-line sinusoids.** Channels `y_c[u] = Re(a_c·exp(+2πi·k0·u/n))` (stationary sinusoids at
    grid line `k0`, complex amplitudes `a_c`), twiddle of unit modulus with `tw(a+b) = tw a·tw b`,
    `tw n = 1`, and `k0, 1, 2k0−1, 2k0, 2k0+1` not multiples of `n` (this holds for `n ≥ 3`,
    `1 ≤ k0 < n/2`): line `k0` of the periodogram estimate, for every overlap, is one real
    multiple of `conj(a_i)·a_j` — so `S_ij/S_ii = a_j/a_i`, the complex amplitude ratio. -/
theorem sd_sinusoid [Field K] [LinearOrder K] [IsStrictOrderedRing K] (Y : Mat K) (dt : K)
    (n nov : Nat) (tw : Nat → CxS K) (hmul : ∀ a b, tw (a + b) = tw a * tw b) (hn : tw n = 1)
    (hunit : ∀ m, CxS.conj (tw m) * tw m = 1) (k0 : Nat) (hk0 : 1 ≤ k0)
    (h1 : tw 1 ≠ 1) (hk : tw k0 ≠ 1) (h2 : tw (2 * k0) ≠ 1) (h3 : tw (2 * k0 + 1) ≠ 1)
    (h4 : tw (2 * k0 - 1) ≠ 1) (a : Nat → CxS K)
    (hY : ∀ c u, Y.e c u = (a c * CxS.conj (tw (k0 * u))).re) :
    ∃ C : K, ∀ i j,
      (sdEstPer Y Y dt n nov tw).e i j k0 = CxS.ofReal C * (CxS.conj (a i) * a j) := by
  have hX : ∀ c s, welchX (Y.e c) (hann tw) n (n - nov) tw s k0
      = CxS.ofReal ((n : K) / 4) * (a c * CxS.conj (tw (k0 * (s * (n - nov))))) := by
    intro c s
    set b := a c * CxS.conj (tw (k0 * (s * (n - nov)))) with hb
    have hseg : ∀ t, Y.e c (s * (n - nov) + t) = (b * CxS.conj (tw (k0 * t))).re := by
      intro t; rw [hY, Nat.mul_add, hmul, CxS.conj_mul, hb, mul_assoc]
    have hm : segMean (Y.e c) n (n - nov) s = 0 := by
      rw [segMean_eq]
      simp only [hseg]
      rw [← CxS.sum_re, ← mul_sum, ← CxS.conj_sum, geo_sum tw n hmul hn k0 hk, CxS.conj_zero, mul_zero,
        CxS.zero_re, zero_div]
    rw [welchX_eq, hm]
    simp only [sub_zero, hseg]
    exact hann_line tw n hmul hn hunit k0 hk0 h1 h2 h3 h4 b
  refine ⟨csdCoef (1 / dt) (hann tw) Y.c n nov n k0
    * (((welchNseg Y.c n nov : Nat) : K) * (((n : K) / 4) * ((n : K) / 4))), ?_⟩
  intro i j
  rw [sd_pairing_per_entry, welchCsd_val]
  have hterm : ∀ s, CxS.conj (welchX (Y.e i) (hann tw) n (n - nov) tw s k0)
      * welchX (Y.e j) (hann tw) n (n - nov) tw s k0
      = CxS.ofReal (((n : K) / 4) * ((n : K) / 4)) * (CxS.conj (a i) * a j) := by
    intro s
    rw [hX, hX, CxS.conj_mul, CxS.conj_mul, CxS.conj_conj, CxS.conj_ofReal, CxS.ofReal_mul]
    linear_combination (CxS.ofReal ((n : K) / 4) * CxS.ofReal ((n : K) / 4) * (CxS.conj (a i) * a j))
      * hunit (k0 * (s * (n - nov)))
  simp only [hterm, sum_const, card_range, nsmul_eq_mul]
  rw [← CxS.ofReal_natCast, ← mul_assoc, ← mul_assoc, ← CxS.ofReal_mul, ← CxS.ofReal_mul, mul_assoc]

/-- the amplitude-ratio form: `S_ij·a_i = S_ii·a_j`. -/
theorem sd_sinusoid_ratio [Field K] [LinearOrder K] [IsStrictOrderedRing K] (Y : Mat K) (dt : K)
    (n nov : Nat) (tw : Nat → CxS K) (hmul : ∀ a b, tw (a + b) = tw a * tw b) (hn : tw n = 1)
    (hunit : ∀ m, CxS.conj (tw m) * tw m = 1) (k0 : Nat) (hk0 : 1 ≤ k0)
    (h1 : tw 1 ≠ 1) (hk : tw k0 ≠ 1) (h2 : tw (2 * k0) ≠ 1) (h3 : tw (2 * k0 + 1) ≠ 1)
    (h4 : tw (2 * k0 - 1) ≠ 1) (a : Nat → CxS K)
    (hY : ∀ c u, Y.e c u = (a c * CxS.conj (tw (k0 * u))).re) (i j : Nat) :
    (sdEstPer Y Y dt n nov tw).e i j k0 * a i = (sdEstPer Y Y dt n nov tw).e i i k0 * a j := by
  obtain ⟨C, hC⟩ := sd_sinusoid Y dt n nov tw hmul hn hunit k0 hk0 h1 hk h2 h3 h4 a hY
  rw [hC, hC]; ring

/-! ### Non-vacuity: exact instances over `Rat` with the length-4 twiddle `(−i)^m`. -/

/-- `exp(−2πi·m/4) = (−i)^m` -/
def tw4 (m : Nat) : CxS Rat :=
  match m % 4 with
  | 0 => ⟨1, 0⟩
  | 1 => ⟨0, -1⟩
  | 2 => ⟨-1, 0⟩
  | _ => ⟨0, 1⟩

theorem tw4_mul : ∀ a b, tw4 (a + b) = tw4 a * tw4 b := by
  intro a b
  have h : (a + b) % 4 = ((a % 4) + (b % 4)) % 4 := Nat.add_mod a b 4
  have ha := Nat.mod_lt a (by decide : 4 > 0)
  have hb := Nat.mod_lt b (by decide : 4 > 0)
  unfold tw4
  rw [h]
  generalize a % 4 = p at *
  generalize b % 4 = q at *
  interval_cases p <;> interval_cases q <;> decide +kernel

theorem tw4_period : tw4 4 = 1 := by decide +kernel

theorem tw4_unit : ∀ m, CxS.conj (tw4 m) * tw4 m = 1 := by
  intro m
  have hm := Nat.mod_lt m (by decide : 4 > 0)
  unfold tw4
  generalize m % 4 = p at *
  interval_cases p <;> decide +kernel

def exRec : List Rat := [1, 3, -2, 5, 0, 2, 7, -1]
def exX (t : Nat) : Rat := exRec.getD t 0
/-- `−3` times the circular delay by one sample of each length-4 segment of `exX` -/
def exYd (t : Nat) : Rat := ([-15, -3, -9, 6, 3, 0, -6, -21] : List Rat).getD t 0
def exY : Mat Rat := ⟨2, 8, fun i t => if i = 0 then exX t else exYd t⟩
/-- differs from `exY` in row 1 only -/
def exY' : Mat Rat := ⟨2, 8, fun i t => if i = 0 then exX t else 7⟩

-- pairing: the hypotheses hold for two different records agreeing in row 0
example : exY'.c = exY.c ∧ (∀ t, t < exY.c → exY'.e 0 t = exY.e 0 t) ∧ exY'.e 1 2 ≠ exY.e 1 2 :=
  ⟨rfl, fun _ _ => rfl, by decide +kernel⟩
-- grid: even positive segment length; the last line is `fs/2`
example : 0 < 16 ∧ 16 % 2 = 0 := by decide
example : (sdEstPer exY exY (1/100) 4 2 tw4).freq 2 = 50 := by decide +kernel
-- PSD: a positive sampling interval
example : (0 : Rat) ≤ 1 / 100 := by decide +kernel
example : (sdEstPer exY exY (1/100) 4 2 tw4).e 0 0 1 ≠ 0 := by decide +kernel
-- DFT shift: `tw4` satisfies the hypotheses; a non-trivial instance of the conclusion
example : dft 4 tw4 (circDelay 4 1 (fun t => CxS.ofReal (exX t))) 1 = ⟨2, -3⟩
    ∧ dft 4 tw4 (fun t => CxS.ofReal (exX t)) 1 = ⟨3, 2⟩ ∧ tw4 (1 * 1) = ⟨0, -1⟩ := by
  decide +kernel
-- gain and delay: `exYd` is a segment-periodic gain-and-delay copy of `exX` (g = −3, d = 1)
theorem ex_gain_delay : ∀ s t, s < welchNseg 8 4 0 → t < 4 →
    exYd (s * (4 - 0) + t) = (-3) * exX (s * (4 - 0) + (t + (4 - 1 % 4)) % 4) := by
  intro s t hs ht
  have h2 : welchNseg 8 4 0 = 2 := by decide
  rw [h2] at hs
  interval_cases s <;> interval_cases t <;> decide +kernel
example : (welchCsd exX exYd 8 100 (fun _ => 1) 4 0 4 tw4).val 1
    = (CxS.ofReal (-3) * tw4 (1 * 1)) * (welchCsd exX exX 8 100 (fun _ => 1) 4 0 4 tw4).val 1 :=
  csd_gain_delay exX exYd 8 100 1 (fun _ => 1) 4 0 tw4 tw4_mul tw4_period (-3) 1 (fun _ _ => rfl)
    ex_gain_delay 1
example : (welchCsd exX exX 8 100 (fun _ => 1) 4 0 4 tw4).val 1 ≠ 0 := by decide +kernel

-- grid-line sinusoids: two channels with amplitudes 2+i and −1+3i at line 1 of 4, 12 samples
def exA (c : Nat) : CxS Rat := if c = 0 then ⟨2, 1⟩ else ⟨-1, 3⟩
def exS : Mat Rat := ⟨2, 12, fun c u => (exA c * CxS.conj (tw4 (1 * u))).re⟩
example : (sdEstPer exS exS (1/100) 4 2 tw4).e 0 1 1 * exA 0
    = (sdEstPer exS exS (1/100) 4 2 tw4).e 0 0 1 * exA 1 :=
  sd_sinusoid_ratio exS (1/100) 4 2 tw4 tw4_mul tw4_period tw4_unit 1 (le_refl 1)
    (by decide +kernel) (by decide +kernel) (by decide +kernel) (by decide +kernel) (by decide +kernel)
    exA (fun _ _ => rfl) 0 1
example : (sdEstPer exS exS (1/100) 4 2 tw4).e 0 0 1 ≠ 0 := by decide +kernel

end PV.C13
