import PyomaVerif.Model.Indicators
import PyomaVerif.Lemmas.Indicators
import Mathlib.Analysis.SpecialFunctions.Trigonometric.Inverse
import Mathlib.Analysis.Real.Sqrt
/-!
# C18 — mode-shape indicators: bounded, scale-invariant, exact on collinear shapes
Property theorems only.  `K` is any linearly ordered field (so `ℚ`, which the driver
executes, and `ℝ`); all theorems are for every number `n` of components.  A shape is a
function `Nat → Cx K` read on `k < n`; `none` is a non-finite float.
-/
namespace PV.C18
open PV Finset
set_option linter.unusedSectionVars false

variable {K : Type} [Field K] [LinearOrder K] [IsStrictOrderedRing K]

/-- a shape has a non-zero component -/
def NonZero (n : Nat) (x : Nat → Cx K) : Prop := ∃ k, k < n ∧ ((x k).re ≠ 0 ∨ (x k).im ≠ 0)
/-- a complex number is not 0 -/
def CNonZero (c : Cx K) : Prop := c.re ≠ 0 ∨ c.im ≠ 0

/-! ## MAC -/

/-- **MAC ∈ [0,1]** and is a finite number, for non-zero shapes (complex Cauchy–Schwarz). -/
theorem C18_mac_bounds (n : Nat) (x a : Nat → Cx K) (hx : NonZero n x) (ha : NonZero n a) :
    ∃ q, macEntry? n x a = some q ∧ 0 ≤ q ∧ q ≤ 1 := by
  obtain ⟨kx, hkx, hx⟩ := hx
  obtain ⟨ka, hka, ha⟩ := ha
  have hX := nrm_pos hkx hx
  have hA := nrm_pos hka ha
  have hXA : 0 < nrm n x * nrm n a := mul_pos hX hA
  rw [macEntry?_eq, if_neg hXA.ne']
  refine ⟨_, rfl, div_nonneg (add_nonneg (sq_nonneg _) (sq_nonneg _)) hXA.le, ?_⟩
  rw [div_le_one hXA]
  exact cauchy_schwarz n x a

/-- **shape of the MAC matrix**: one row per shape of the first set, one column per shape of
    the second, entry `(i,j)` the MAC of column `i` of `X` with column `j` of `A`
    (a `1×1` result is returned as a scalar: `rows = cols = 1`). -/
theorem C18_mac_shape (X A : Mat (Cx K)) (h : X.r = A.r) :
    ∃ o, mac (.mat X) (.mat A) = .ok o ∧ o.rows = X.c ∧ o.cols = A.c ∧
      ∀ i j, i < X.c → j < A.c → o.entry i j = macEntry? X.r (Phi.col X i) (Phi.col A j) := by
  have hne : ¬ (X.r ≠ A.r) := by simp [h]
  by_cases h11 : X.c = 1 ∧ A.c = 1
  · refine ⟨.scalar (macEntry? X.r (Phi.col X 0) (Phi.col A 0)), ?_, ?_, ?_, ?_⟩
    · simp only [mac, Phi.ndim, Phi.toMat?, hne, h11, if_false, Nat.lt_irrefl, or_self, and_self, if_true]
    · simp [MacOut.rows, h11]
    · simp [MacOut.cols, h11]
    · intro i j hi hj
      have hi0 : i = 0 := by omega
      have hj0 : j = 0 := by omega
      simp [MacOut.entry, hi0, hj0]
  · refine ⟨.matrix ⟨X.c, A.c, fun i j => macEntry? X.r (Phi.col X i) (Phi.col A j)⟩, ?_, rfl, rfl,
      fun i j _ _ => rfl⟩
    simp only [mac, Phi.ndim, Phi.toMat?, hne, h11, if_false, Nat.lt_irrefl, or_self]

/-- 1-D arguments are single columns; two 1-D arguments give a scalar. -/
theorem C18_mac_vec (n : Nat) (x a : Nat → Cx K) :
    mac (.vec n x) (.vec n a) = .ok (.scalar (macEntry? n x a)) := by
  simp only [mac, Phi.ndim, Phi.toMat?]
  simp
  rfl

/-- the two exceptions: more than two dimensions; different first dimensions. -/
theorem C18_mac_errors (X A : Mat (Cx K)) (k d : Nat) (hk : 2 < k) (h : X.r ≠ A.r) :
    mac (.nd k d) (.mat A) = .error "ndim" ∧ mac (.mat X) (.nd k d) = .error "ndim" ∧
    mac (.mat X) (.mat A) = .error "first-dimension" := by
  simp [mac, Phi.ndim, Phi.toMat?, hk, h]

/-- **symmetry up to transposition**, entry level. -/
theorem C18_mac_symm_entry (n : Nat) (x a : Nat → Cx K) : macEntry? n a x = macEntry? n x a :=
  macEntry?_symm n x a

/-- **symmetry up to transposition** of the whole result (matrix, scalar or exception):
    `MAC(A, X) = MAC(X, A).T`. -/
theorem C18_mac_symm (X A : Mat (Cx K)) :
    mac (.mat A) (.mat X) = (mac (.mat X) (.mat A)).map MacOut.transpose := by
  simp only [mac, Phi.ndim, Phi.toMat?]
  by_cases h : X.r = A.r
  · have h' : ¬ (A.r ≠ X.r) := by simp [h]
    have h'' : ¬ (X.r ≠ A.r) := by simp [h]
    have hM : (fun i j => macEntry? A.r (Phi.col A i) (Phi.col X j))
        = fun i j => macEntry? X.r (Phi.col X j) (Phi.col A i) := by
      funext i j; rw [h]; exact macEntry?_symm _ _ _
    by_cases h11 : X.c = 1 ∧ A.c = 1
    · have h11' : A.c = 1 ∧ X.c = 1 := ⟨h11.2, h11.1⟩
      simp [h, h11, Except.map, MacOut.transpose]
      rw [← h]; exact macEntry?_symm _ _ _
    · have h11' : ¬ (A.c = 1 ∧ X.c = 1) := fun e => h11 ⟨e.2, e.1⟩
      simp only [h', h'', h11, h11', if_false, Nat.lt_irrefl, or_self, Except.map, MacOut.transpose,
        Mat.transpose, hM]
  · have h' : A.r ≠ X.r := fun e => h e.symm
    simp [h, h', Except.map]

/-- **scale invariance**: MAC is unchanged when either shape is multiplied by a non-zero
    complex number. -/
theorem C18_mac_scale (n : Nat) (c : Cx K) (hc : CNonZero c) (x a : Nat → Cx K) :
    macEntry? n (cscale c x) a = macEntry? n x a ∧ macEntry? n x (cscale c a) = macEntry? n x a :=
  ⟨macEntry?_cscale_left n c hc x a, macEntry?_cscale_right n c hc x a⟩

/-! ## MCF -/

/-- **MCF ∈ [0,1]** and is finite for a non-zero shape. -/
theorem C18_mcf_bounds (n : Nat) (φ : Nat → Cx K) (hφ : NonZero n φ) :
    ∃ q, mcfEntry? n φ = some q ∧ 0 ≤ q ∧ q ≤ 1 := by
  obtain ⟨k, hk, hφ⟩ := hφ
  have hpos := nrm_pos hk hφ
  unfold nrm at hpos
  rw [Finset.sum_add_distrib] at hpos
  rw [mcfEntry?_eq, collin?_eq, if_neg (mul_ne_zero hpos.ne' hpos.ne')]
  refine ⟨_, rfl, ?_⟩
  have hb := collin?_bounds (cs_real n (fun k => (φ k).re) (fun k => (φ k).im))
    (by rw [collin?_eq, if_neg (mul_ne_zero hpos.ne' hpos.ne')])
  constructor <;> linarith [hb.1, hb.2]

/-- **MCF scale invariance**. -/
theorem C18_mcf_scale (n : Nat) (c : Cx K) (hc : CNonZero c) (φ : Nat → Cx K) :
    mcfEntry? n (cscale c φ) = mcfEntry? n φ := by
  rw [mcfEntry?_eq, mcfEntry?_eq]
  simp only [cscale_re, cscale_im, rot_a, rot_b, rot_d]
  rw [collin?_rot _ _ _ _ _ (normSq_pos_of_ne hc)]

/-! ## MPC -/

/-- the contract of `np.linalg.eigvals` on the symmetric 2×2 matrix `S`, as far as MPC uses
    it: the two returned numbers have the trace of `S` as sum and its determinant as product. -/
structure EigContract (S : Sym2 K) (l0 l1 : K) : Prop where
  trace : l0 + l1 = S.a + S.d
  det : l0 * l1 = S.a * S.d - S.b * S.b

/-- **MPC closed form = eigenvalue expression.** -/
theorem C18_mpc_closed_form (n : Nat) (φ : Nat → Cx K) (l0 l1 : K)
    (h : EigContract (cov2 n φ) l0 l1) : mpc? n φ l0 l1 = mpcClosed? n φ :=
  mpc?_eq_closed n φ l0 l1 h.trace h.det

/-- **MPC is a finite number in [0,1] for every shape with at least two components**
    (after fix_2 also for the shape whose components are all equal). -/
theorem C18_mpc_bounds (n : Nat) (hn : 2 ≤ n) (φ : Nat → Cx K) :
    ∃ q, mpcClosed? n φ = some q ∧ 0 ≤ q ∧ q ≤ 1 := by
  unfold mpcClosed?
  rw [if_neg (by omega)]
  by_cases hg : (cov2 n φ).a + (cov2 n φ).d = 0
  · exact ⟨1, by simp [hg], zero_le_one, le_refl _⟩
  · simp only [hg, if_false]
    have hne : ¬ (((cov2 n φ).a + (cov2 n φ).d) * ((cov2 n φ).a + (cov2 n φ).d) = 0) := mul_ne_zero hg hg
    refine ⟨_, by rw [collin?_eq, if_neg hne], ?_⟩
    exact collin?_bounds (cov2_cs n φ) (by rw [collin?_eq, if_neg hne])

/-- the same for the function as coded, under the eigenvalue contract. -/
theorem C18_mpc_bounds_eig (n : Nat) (hn : 2 ≤ n) (φ : Nat → Cx K) (l0 l1 : K)
    (h : EigContract (cov2 n φ) l0 l1) : ∃ q, mpc? n φ l0 l1 = some q ∧ 0 ≤ q ∧ q ≤ 1 := by
  rw [C18_mpc_closed_form n φ l0 l1 h]; exact C18_mpc_bounds n hn φ

/-- **MPC scale invariance** (closed form). -/
theorem C18_mpc_scale (n : Nat) (c : Cx K) (hc : CNonZero c) (φ : Nat → Cx K) :
    mpcClosed? n (cscale c φ) = mpcClosed? n φ := by
  obtain ⟨ha, hb, hd⟩ := cov2_cscale n c φ
  have hs := normSq_pos_of_ne hc
  unfold mpcClosed?
  by_cases hn : n ≤ 1
  · rw [if_pos hn, if_pos hn]
  · rw [if_neg hn, if_neg hn]
    have hsum : (cov2 n (cscale c φ)).a + (cov2 n (cscale c φ)).d
        = (c.re * c.re + c.im * c.im) * ((cov2 n φ).a + (cov2 n φ).d) := by rw [ha, hd]; ring
    by_cases hg : (cov2 n φ).a + (cov2 n φ).d = 0
    · have : (cov2 n (cscale c φ)).a + (cov2 n (cscale c φ)).d = 0 := by rw [hsum, hg, mul_zero]
      simp only [hg, this, if_true]
    · have : ¬ ((cov2 n (cscale c φ)).a + (cov2 n (cscale c φ)).d = 0) := by
        rw [hsum]; exact mul_ne_zero hs.ne' hg
      simp only [hg, this, if_false]
      rw [ha, hb, hd]; exact collin?_rot _ _ _ _ _ hs

/-- **MPC scale invariance** for the function as coded: whatever eigenvalues are returned for
    `φ` and for `c·φ` (under the contract), the two values agree. -/
theorem C18_mpc_scale_eig (n : Nat) (c : Cx K) (hc : CNonZero c) (φ : Nat → Cx K) (l0 l1 m0 m1 : K)
    (h : EigContract (cov2 n φ) l0 l1) (h' : EigContract (cov2 n (cscale c φ)) m0 m1) :
    mpc? n (cscale c φ) m0 m1 = mpc? n φ l0 l1 := by
  rw [C18_mpc_closed_form _ _ _ _ h, C18_mpc_closed_form _ _ _ _ h', C18_mpc_scale n c hc]

/-! ## MPD: the argument of `arccos` (exact arithmetic) -/

/-- **the `arccos` argument is ≤ 1** in exact arithmetic (2-D Cauchy–Schwarz): its square is
    in `[0,1]` whenever it is defined, for *any* direction `(V₀₁, V₁₁)`. A value above 1 can
    only come from rounding. -/
theorem C18_mpd_arg_le_one (z : Cx K) (v01 v11 q : K) (h : mpdArgSq? z v01 v11 = some q) :
    0 ≤ q ∧ q ≤ 1 := by
  rw [mpdArgSq?_eq] at h
  by_cases h0 : (v01 * v01 + v11 * v11) * (z.re * z.re + z.im * z.im) = 0
  · rw [if_pos h0] at h; cases h
  · rw [if_neg h0] at h
    injection h with h; subst h
    have hnn : 0 ≤ (v01 * v01 + v11 * v11) * (z.re * z.re + z.im * z.im) :=
      mul_nonneg (add_nonneg (mul_self_nonneg _) (mul_self_nonneg _))
        (add_nonneg (mul_self_nonneg _) (mul_self_nonneg _))
    have hpos := lt_of_le_of_ne hnn (Ne.symm h0)
    refine ⟨div_nonneg (mul_self_nonneg _) hpos.le, ?_⟩
    rw [div_le_one hpos]
    nlinarith [mul_self_nonneg (z.re * v01 + z.im * v11)]

/-- the argument is defined exactly at the non-zero components (for a non-zero direction):
    a zero component is `0/0` — the code (fix_1) skips it. -/
theorem C18_mpd_arg_defined (z : Cx K) (v01 v11 : K) (hv : v01 ≠ 0 ∨ v11 ≠ 0) :
    mpdArgSq? z v01 v11 = none ↔ (z.re = 0 ∧ z.im = 0) := by
  have hV : 0 < v01 * v01 + v11 * v11 := normSq_pos_of_ne (c := ⟨v01, v11⟩) hv
  rw [mpdArgSq?_eq]
  constructor
  · intro h
    by_cases h0 : (v01 * v01 + v11 * v11) * (z.re * z.re + z.im * z.im) = 0
    · rcases mul_eq_zero.mp h0 with e | e
      · exact absurd e hV.ne'
      · exact mul_self_add_mul_self_eq_zero.mp e
    · rw [if_neg h0] at h; cases h
  · rintro ⟨h1, h2⟩; simp [h1, h2]

/-- **scale invariance of the argument**: multiplying the shape by `c` and turning the
    direction by the same complex factor (what the SVD of `[Re cφ, Im cφ]` does to the right
    singular vectors, up to normalisation and sign, which the formula removes) leaves the
    argument unchanged.  Partial: that the turned direction *is* the minor singular direction
    of the scaled shape is the SVD contract and is not derived here. -/
theorem C18_mpd_arg_scale_partial (c : Cx K) (hc : CNonZero c) (z : Cx K) (v01 v11 : K) :
    mpdArgSq? (c * z) (c.re * v01 - c.im * v11) (c.re * v11 + c.im * v01) = mpdArgSq? z v01 v11 := by
  have hs := normSq_pos_of_ne hc
  rw [mpdArgSq?_eq, mpdArgSq?_eq]
  simp only [Cx.mul_re, Cx.mul_im]
  have hden : ((c.re * v01 - c.im * v11) * (c.re * v01 - c.im * v11)
        + (c.re * v11 + c.im * v01) * (c.re * v11 + c.im * v01))
        * ((c.re * z.re - c.im * z.im) * (c.re * z.re - c.im * z.im)
          + (c.re * z.im + c.im * z.re) * (c.re * z.im + c.im * z.re))
      = ((c.re * c.re + c.im * c.im) * (c.re * c.re + c.im * c.im))
        * ((v01 * v01 + v11 * v11) * (z.re * z.re + z.im * z.im)) := by ring
  rw [hden]
  by_cases h0 : (v01 * v01 + v11 * v11) * (z.re * z.re + z.im * z.im) = 0
  · rw [if_pos h0, if_pos (by rw [h0, mul_zero])]
  · have h1 : ¬ ((c.re * c.re + c.im * c.im) * (c.re * c.re + c.im * c.im)
        * ((v01 * v01 + v11 * v11) * (z.re * z.re + z.im * z.im)) = 0) :=
      mul_ne_zero (mul_ne_zero hs.ne' hs.ne') h0
    rw [if_neg h0, if_neg h1]
    congr 1
    rw [div_eq_div_iff h1 h0]; ring

/-! ## collinear shapes `φ = c·v`, `v` real -/

/-- **MAC of `c·v` with `v` is exactly 1** (more generally of `c·x` with any complex `x`). -/
theorem C18_collinear_mac (n : Nat) (c : Cx K) (hc : CNonZero c) (x : Nat → Cx K) (hx : NonZero n x) :
    macEntry? n (cscale c x) x = some 1 ∧ macEntry? n x (cscale c x) = some 1 := by
  obtain ⟨k, hk, hx⟩ := hx
  have hX := nrm_pos hk hx
  have h1 : macEntry? n x x = some 1 := by
    rw [macEntry?_eq, if_neg (mul_ne_zero hX.ne' hX.ne'), pre_self, pim_self]
    congr 1
    rw [div_eq_one_iff_eq (mul_ne_zero hX.ne' hX.ne')]; ring
  exact ⟨by rw [macEntry?_cscale_left n c hc, h1], by rw [macEntry?_cscale_right n c hc, h1]⟩

/-- **MCF of `c·v` is exactly 0.** -/
theorem C18_collinear_mcf (n : Nat) (c : Cx K) (hc : CNonZero c) (v : Nat → K)
    (hv : ∃ k, k < n ∧ v k ≠ 0) : mcfEntry? n (cscale c (ofRealVec v)) = some 0 := by
  obtain ⟨k, hk, hvk⟩ := hv
  rw [C18_mcf_scale n c hc, mcfEntry?_eq]
  simp only [ofRealVec_re, ofRealVec_im, mul_zero, Finset.sum_const_zero]
  have hpos : 0 < ∑ k ∈ range n, v k * v k :=
    Finset.sum_pos' (fun _ _ => mul_self_nonneg _) ⟨k, Finset.mem_range.mpr hk, mul_self_pos.mpr hvk⟩
  rw [collin?_rank_one (by ring) (by rw [add_zero]; exact hpos.ne')]
  simp

/-- **MPC of `c·v` is exactly 1**, for every real `v` — no proviso: before fix_2 the
    proof needed "`v` not constant" (see `Mutants.C18.mpcOld_constant_nan`). -/
theorem C18_collinear_mpc (n : Nat) (hn : 2 ≤ n) (c : Cx K) (hc : CNonZero c) (v : Nat → K) :
    mpcClosed? n (cscale c (ofRealVec v)) = some 1 := by
  rw [C18_mpc_scale n c hc]
  unfold mpcClosed?
  rw [if_neg (by omega)]
  have hb : (cov2 n (ofRealVec v)).b = 0 := by
    rw [cov2_b]; simp [dev]
  have hd : (cov2 n (ofRealVec v)).d = 0 := by
    rw [cov2_d]; simp [dev]
  by_cases hg : (cov2 n (ofRealVec v)).a + (cov2 n (ofRealVec v)).d = 0
  · simp only [hg, if_true]
  · simp only [hg, if_false]
    exact collin?_rank_one (by rw [hb, hd]; ring) hg

/-- the same for the function as coded, under the eigenvalue contract. -/
theorem C18_collinear_mpc_eig (n : Nat) (hn : 2 ≤ n) (c : Cx K) (hc : CNonZero c) (v : Nat → K) (l0 l1 : K)
    (h : EigContract (cov2 n (cscale c (ofRealVec v))) l0 l1) :
    mpc? n (cscale c (ofRealVec v)) l0 l1 = some 1 := by
  rw [C18_mpc_closed_form _ _ _ _ h]; exact C18_collinear_mpc n hn c hc v

/-- **the `arccos` argument of MPD is exactly 1 at every non-zero component of `c·v`**,
    when `(V₀₁, V₁₁)` is a null direction of `[Re φ, Im φ]` (the SVD contract for the second
    right singular vector of a rank-one matrix: `[Re φ, Im φ]·V[:,1] = σ₂·U[:,1] = 0`). -/
theorem C18_collinear_mpd_arg (c : Cx K) (hc : CNonZero c) (vk v01 v11 : K) (hvk : vk ≠ 0)
    (hV : v01 ≠ 0 ∨ v11 ≠ 0) (hnull : c.re * v01 + c.im * v11 = 0) :
    mpdArgSq? (c * Cx.ofReal vk) v01 v11 = some 1 := by
  have hs := normSq_pos_of_ne hc
  have hVV : 0 < v01 * v01 + v11 * v11 := normSq_pos_of_ne (c := ⟨v01, v11⟩) hV
  rw [mpdArgSq?_eq]
  simp only [Cx.mul_re, Cx.mul_im, Cx.ofReal_re, Cx.ofReal_im, mul_zero, sub_zero, zero_add]
  have hden : (v01 * v01 + v11 * v11) * (c.re * vk * (c.re * vk) + c.im * vk * (c.im * vk)) ≠ 0 := by
    have : c.re * vk * (c.re * vk) + c.im * vk * (c.im * vk) = (c.re * c.re + c.im * c.im) * (vk * vk) := by ring
    rw [this]
    exact mul_ne_zero hVV.ne' (mul_ne_zero hs.ne' (mul_self_pos.mpr hvk).ne')
  rw [if_neg hden]
  congr 1
  rw [div_eq_one_iff_eq hden]
  linear_combination (-(vk * vk)) * (c.re * v01 + c.im * v11) * hnull

/-- **MSF(v, c·v) = c** for every real `c`, for a real or complex `v` with `vᵀv ≠ 0`.
    Partial: the hypothesis `vᵀv ≠ 0` is forced — the code divides by the *unconjugated*
    `vᵀv`, which vanishes for non-zero complex vectors such as `(1, i)`; there the real
    function returns NaN (finding `msf-isotropic-nan`, `C18_msf_isotropic_nan` below). -/
theorem C18_msf_scaled_partial (n : Nat) (v : Nat → Cx K) (c : K)
    (h : Cx.normSq (dotu n v v) ≠ 0) : msfEntry? n v (cscale (Cx.ofReal c) v) = some c := by
  unfold msfEntry? Cx.div?
  rw [if_neg h]
  simp only [Option.map_some, dotu_rscale_re, dotu_rscale_im]
  congr 1
  rw [div_eq_iff h]; simp only [Cx.normSq]; ring

/-- for a real non-zero `v` the hypothesis holds: **MSF(v, c·v) = c** at full strength. -/
theorem C18_msf_scaled_real (n : Nat) (v : Nat → K) (c : K) (hv : ∃ k, k < n ∧ v k ≠ 0) :
    msfEntry? n (ofRealVec v) (cscale (Cx.ofReal c) (ofRealVec v)) = some c := by
  obtain ⟨k, hk, hvk⟩ := hv
  apply C18_msf_scaled_partial
  have hpos : 0 < ∑ k ∈ range n, v k * v k :=
    Finset.sum_pos' (fun _ _ => mul_self_nonneg _) ⟨k, Finset.mem_range.mpr hk, mul_self_pos.mpr hvk⟩
  simp only [Cx.normSq, dotu_re, dotu_im, ofRealVec_re, ofRealVec_im, mul_zero, sub_zero, zero_mul,
    add_zero, Finset.sum_const_zero]
  exact (mul_pos hpos hpos).ne'

/-- the full statement "MSF(v, c·v) = c for every non-zero complex v and real c" … -/
def MsfScaledFull : Prop :=
  ∀ (n : Nat) (v : Nat → Cx Rat) (c : Rat), (∃ k, k < n ∧ ((v k).re ≠ 0 ∨ (v k).im ≠ 0)) →
    msfEntry? n v (cscale (Cx.ofReal c) v) = some c

/-- the isotropic vector `(1, i)` -/
def isoVec : Nat → Cx Rat := fun k => if k = 0 then ⟨1, 0⟩ else ⟨0, 1⟩

/-- … is **false for the code as it is**: `MSF((1,i), 2·(1,i))` is `0/0` (the real function
    returns NaN on this input — finding `msf-nan-isotropic`; the repair, conjugating the first
    factor, changes the value pinned by `tests/unit/functions/test_gen.py::test_MSF`). -/
theorem C18_msf_full_false : msfEntry? 2 isoVec (cscale (Cx.ofReal 2) isoVec) = none ∧ ¬ MsfScaledFull := by
  have h : msfEntry? 2 isoVec (cscale (Cx.ofReal 2) isoVec) = none := by decide +kernel
  refine ⟨h, fun hf => ?_⟩
  have h2 := hf 2 isoVec 2 ⟨0, by decide, Or.inl (by decide +kernel)⟩
  rw [h] at h2
  cases h2

/-! ## the SVD contract and complex scaling -/

/-- `(v01, v11)` is an eigenvector of the Gram matrix `[Re φ, Im φ]ᵀ[Re φ, Im φ]` for its
    smaller eigenvalue `μ` — what `np.linalg.svd` promises about `V[:, 1]` (`μ = σ₂²`). -/
structure SvdMinor (n : Nat) (φ : Nat → Cx K) (v01 v11 μ : K) : Prop where
  eq1 : (∑ k ∈ range n, (φ k).re * (φ k).re) * v01 + (∑ k ∈ range n, (φ k).re * (φ k).im) * v11 = μ * v01
  eq2 : (∑ k ∈ range n, (φ k).re * (φ k).im) * v01 + (∑ k ∈ range n, (φ k).im * (φ k).im) * v11 = μ * v11
  minor : 2 * μ ≤ (∑ k ∈ range n, (φ k).re * (φ k).re) + (∑ k ∈ range n, (φ k).im * (φ k).im)

/-- **the minor direction turns with the complex factor**: if `(v01, v11)` is a minor
    direction of `φ` then `c·(v01 + i·v11)` is a minor direction of `c·φ` (eigenvalue
    `|c|²μ`).  Together with `C18_mpd_scale_partial` / `C18_mpd_arg_scale_partial` this is the
    scale invariance of MPD under the SVD contract. -/
theorem C18_svd_minor_scale (n : Nat) (c : Cx K) (φ : Nat → Cx K) (v01 v11 μ : K)
    (h : SvdMinor n φ v01 v11 μ) :
    SvdMinor n (cscale c φ) (c.re * v01 - c.im * v11) (c.re * v11 + c.im * v01)
      ((c.re * c.re + c.im * c.im) * μ) := by
  obtain ⟨h1, h2, h3⟩ := h
  have hs : 0 ≤ c.re * c.re + c.im * c.im := add_nonneg (mul_self_nonneg _) (mul_self_nonneg _)
  constructor
  · simp only [cscale_re, cscale_im, rot_a, rot_b]
    linear_combination (c.re * c.re + c.im * c.im) * (c.re * h1 - c.im * h2)
  · simp only [cscale_re, cscale_im, rot_b, rot_d]
    linear_combination (c.re * c.re + c.im * c.im) * (c.re * h2 + c.im * h1)
  · simp only [cscale_re, cscale_im, rot_a, rot_d]
    nlinarith [mul_le_mul_of_nonneg_left h3 hs]

/-! ## MPD with `√`, `|·|`, `arccos` over `ℝ` (the definition the driver runs over `Float`) -/

/-- **MPD ∈ [0, π/2]** for every shape and every direction `(V₀₁, V₁₁)`. -/
theorem C18_mpd_bounds (n : Nat) (φ : Nat → Cx ℝ) (v01 v11 : ℝ) :
    0 ≤ mpd n φ v01 v11 ∧ mpd n φ v01 v11 ≤ Real.pi / 2 := by
  rw [mpd_real]
  set D := ∑ k ∈ range n,
        if 0 < Real.sqrt (v01 * v01 + v11 * v11) * Real.sqrt ((φ k).re * (φ k).re + (φ k).im * (φ k).im) then
          Real.sqrt ((φ k).re * (φ k).re + (φ k).im * (φ k).im) else 0 with hD
  have hDnn : 0 ≤ D := Finset.sum_nonneg fun k _ => by
    split_ifs
    · exact Real.sqrt_nonneg _
    · exact le_refl _
  have hNnn : 0 ≤ ∑ k ∈ range n,
        if 0 < Real.sqrt (v01 * v01 + v11 * v11) * Real.sqrt ((φ k).re * (φ k).re + (φ k).im * (φ k).im) then
          Real.sqrt ((φ k).re * (φ k).re + (φ k).im * (φ k).im)
            * Real.arccos (clip01 |((φ k).re * v11 - (φ k).im * v01)
                / (Real.sqrt (v01 * v01 + v11 * v11) * Real.sqrt ((φ k).re * (φ k).re + (φ k).im * (φ k).im))|)
        else 0 := Finset.sum_nonneg fun k _ => by
    split_ifs
    · exact mul_nonneg (Real.sqrt_nonneg _) (Real.arccos_nonneg _)
    · exact le_refl _
  have hNle : (∑ k ∈ range n,
        if 0 < Real.sqrt (v01 * v01 + v11 * v11) * Real.sqrt ((φ k).re * (φ k).re + (φ k).im * (φ k).im) then
          Real.sqrt ((φ k).re * (φ k).re + (φ k).im * (φ k).im)
            * Real.arccos (clip01 |((φ k).re * v11 - (φ k).im * v01)
                / (Real.sqrt (v01 * v01 + v11 * v11) * Real.sqrt ((φ k).re * (φ k).re + (φ k).im * (φ k).im))|)
        else 0) ≤ D * (Real.pi / 2) := by
    rw [hD, Finset.sum_mul]
    apply Finset.sum_le_sum
    intro k _
    split_ifs
    · exact mul_le_mul_of_nonneg_left (Real.arccos_le_pi_div_two.mpr (clip01_mem _).1) (Real.sqrt_nonneg _)
    · simp
  refine ⟨div_nonneg hNnn hDnn, ?_⟩
  rcases hDnn.lt_or_eq with hpos | hzero
  · rw [div_le_iff₀ hpos]; linarith
  · rw [← hzero, div_zero]; positivity

/-- **MPD of `c·v` is exactly 0** when `(V₀₁, V₁₁)` is a null direction of `[Re φ, Im φ]`
    (SVD contract for a rank-one matrix); zero components of `v` are skipped (fix_1) — before
    the repair the proof needed "no component of `v` is zero". -/
theorem C18_collinear_mpd (n : Nat) (c : Cx ℝ) (v : Nat → ℝ) (v01 v11 : ℝ)
    (hnull : c.re * v01 + c.im * v11 = 0) :
    mpd n (cscale c (ofRealVec v)) v01 v11 = 0 := by
  rw [mpd_real]
  have hN : ∀ k ∈ range n,
      (if 0 < Real.sqrt (v01 * v01 + v11 * v11)
            * Real.sqrt ((cscale c (ofRealVec v) k).re * (cscale c (ofRealVec v) k).re
              + (cscale c (ofRealVec v) k).im * (cscale c (ofRealVec v) k).im) then
          Real.sqrt ((cscale c (ofRealVec v) k).re * (cscale c (ofRealVec v) k).re
              + (cscale c (ofRealVec v) k).im * (cscale c (ofRealVec v) k).im)
            * Real.arccos (clip01 |((cscale c (ofRealVec v) k).re * v11 - (cscale c (ofRealVec v) k).im * v01)
                / (Real.sqrt (v01 * v01 + v11 * v11)
                  * Real.sqrt ((cscale c (ofRealVec v) k).re * (cscale c (ofRealVec v) k).re
                    + (cscale c (ofRealVec v) k).im * (cscale c (ofRealVec v) k).im))|)
        else 0) = 0 := by
    intro k _
    split_ifs with hpos
    · -- den = √(num²) = |num|, so the ratio is 1 and arccos 1 = 0
      have hsq : Real.sqrt (v01 * v01 + v11 * v11)
            * Real.sqrt ((cscale c (ofRealVec v) k).re * (cscale c (ofRealVec v) k).re
              + (cscale c (ofRealVec v) k).im * (cscale c (ofRealVec v) k).im)
          = |(cscale c (ofRealVec v) k).re * v11 - (cscale c (ofRealVec v) k).im * v01| := by
        rw [← Real.sqrt_mul (add_nonneg (mul_self_nonneg _) (mul_self_nonneg _)), ← Real.sqrt_sq_eq_abs]
        congr 1
        simp only [cscale_re, cscale_im, ofRealVec_re, ofRealVec_im, mul_zero, sub_zero, zero_add]
        linear_combination (v k * v k) * (c.re * v01 + c.im * v11) * hnull
      rw [hsq] at hpos ⊢
      rw [abs_div, abs_abs, div_self hpos.ne', clip01_of_one_le (le_refl _), Real.arccos_one, mul_zero]
    · rfl
  rw [Finset.sum_congr rfl hN, Finset.sum_const_zero, zero_div]

/-- **MPD scale invariance**: multiplying the shape by a non-zero `c` and turning the
    direction by the same factor leaves MPD unchanged.  Partial in the same sense as
    `C18_mpd_arg_scale_partial`: that the turned direction is the one `np.linalg.svd` returns
    for the scaled shape (up to sign/normalisation, which cancel) is the SVD contract. -/
theorem C18_mpd_scale_partial (n : Nat) (c : Cx ℝ) (hc : CNonZero c) (φ : Nat → Cx ℝ) (v01 v11 : ℝ) :
    mpd n (cscale c φ) (c.re * v01 - c.im * v11) (c.re * v11 + c.im * v01) = mpd n φ v01 v11 := by
  have hs2 := normSq_pos_of_ne hc
  set s := Real.sqrt (c.re * c.re + c.im * c.im) with hs
  have hspos : 0 < s := Real.sqrt_pos.mpr hs2
  have hss : s * s = c.re * c.re + c.im * c.im := Real.mul_self_sqrt hs2.le
  have hw : ∀ k, Real.sqrt ((cscale c φ k).re * (cscale c φ k).re + (cscale c φ k).im * (cscale c φ k).im)
      = s * Real.sqrt ((φ k).re * (φ k).re + (φ k).im * (φ k).im) := by
    intro k
    rw [hs, ← Real.sqrt_mul hs2.le]
    congr 1
    simp only [cscale_re, cscale_im]; ring
  have hv : Real.sqrt ((c.re * v01 - c.im * v11) * (c.re * v01 - c.im * v11)
        + (c.re * v11 + c.im * v01) * (c.re * v11 + c.im * v01))
      = s * Real.sqrt (v01 * v01 + v11 * v11) := by
    rw [hs, ← Real.sqrt_mul hs2.le]
    congr 1
    ring
  have hnum : ∀ k, (cscale c φ k).re * (c.re * v11 + c.im * v01) - (cscale c φ k).im * (c.re * v01 - c.im * v11)
      = (s * s) * ((φ k).re * v11 - (φ k).im * v01) := by
    intro k; rw [hss]; simp only [cscale_re, cscale_im]; ring
  rw [mpd_real, mpd_real]
  simp only [hw, hv, hnum]
  have hden : ∀ k, s * Real.sqrt (v01 * v01 + v11 * v11) * (s * Real.sqrt ((φ k).re * (φ k).re + (φ k).im * (φ k).im))
      = (s * s) * (Real.sqrt (v01 * v01 + v11 * v11) * Real.sqrt ((φ k).re * (φ k).re + (φ k).im * (φ k).im)) := by
    intro k; ring
  simp only [hden, mul_div_mul_left _ _ (mul_pos hspos hspos).ne', mul_pos_iff_of_pos_left (mul_pos hspos hspos)]
  have hN : ∀ (f g : Nat → ℝ) (p : Nat → Prop) [DecidablePred p],
      (∑ k ∈ range n, if p k then s * f k * g k else 0) = s * ∑ k ∈ range n, if p k then f k * g k else 0 := by
    intro f g p _
    rw [Finset.mul_sum]
    exact Finset.sum_congr rfl fun k _ => by split_ifs <;> ring
  have hD : ∀ (f : Nat → ℝ) (p : Nat → Prop) [DecidablePred p],
      (∑ k ∈ range n, if p k then s * f k else 0) = s * ∑ k ∈ range n, if p k then f k else 0 := by
    intro f p _
    rw [Finset.mul_sum]
    exact Finset.sum_congr rfl fun k _ => by split_ifs <;> ring
  rw [hN, hD, mul_div_mul_left _ _ hspos.ne']


/-- MPD does not depend on the length or sign of the direction `(V₀₁, V₁₁)` (the freedom
    `np.linalg.svd` has in choosing a singular vector). -/
theorem C18_mpd_dir_scale (n : Nat) (φ : Nat → Cx ℝ) (v01 v11 t : ℝ) (ht : t ≠ 0) :
    mpd n φ (t * v01) (t * v11) = mpd n φ v01 v11 := by
  have habs : 0 < |t| := abs_pos.mpr ht
  have hv : Real.sqrt (t * v01 * (t * v01) + t * v11 * (t * v11)) = |t| * Real.sqrt (v01 * v01 + v11 * v11) := by
    rw [← Real.sqrt_mul_self (abs_nonneg t), ← Real.sqrt_mul (mul_self_nonneg _), abs_mul_abs_self]
    congr 1; ring
  have hr : ∀ k, |((φ k).re * (t * v11) - (φ k).im * (t * v01))
        / (|t| * Real.sqrt (v01 * v01 + v11 * v11) * Real.sqrt ((φ k).re * (φ k).re + (φ k).im * (φ k).im))|
      = |((φ k).re * v11 - (φ k).im * v01)
        / (Real.sqrt (v01 * v01 + v11 * v11) * Real.sqrt ((φ k).re * (φ k).re + (φ k).im * (φ k).im))| := by
    intro k
    have e1 : (φ k).re * (t * v11) - (φ k).im * (t * v01) = t * ((φ k).re * v11 - (φ k).im * v01) := by ring
    rw [e1, mul_assoc, abs_div, abs_div, abs_mul, abs_mul |t|, abs_abs, mul_div_mul_left _ _ habs.ne']
  rw [mpd_real, mpd_real]
  simp only [hv, hr]
  simp only [mul_assoc, mul_pos_iff_of_pos_left habs]

/-- **MPD scale invariance under the SVD contract**: if `np.linalg.svd` returns a minor
    direction `v` for `φ` and a minor direction `v'` for `c·φ` (`c ≠ 0`), the two singular
    values of `c·φ` being distinct, then `MPD(c·φ) = MPD(φ)`. -/
theorem C18_mpd_scale (n : Nat) (c : Cx ℝ) (hc : CNonZero c) (φ : Nat → Cx ℝ)
    (v01 v11 μ v01' v11' μ' : ℝ)
    (hv : SvdMinor n φ v01 v11 μ) (hne : v01 ≠ 0 ∨ v11 ≠ 0)
    (hv' : SvdMinor n (cscale c φ) v01' v11' μ') (hne' : v01' ≠ 0 ∨ v11' ≠ 0)
    (hgap : 2 * μ' < (∑ k ∈ range n, (cscale c φ k).re * (cscale c φ k).re)
      + (∑ k ∈ range n, (cscale c φ k).im * (cscale c φ k).im)) :
    mpd n (cscale c φ) v01' v11' = mpd n φ v01 v11 := by
  have hw := C18_svd_minor_scale n c φ v01 v11 μ hv
  -- the turned direction is not zero
  have hs := normSq_pos_of_ne hc
  have hwne : c.re * v01 - c.im * v11 ≠ 0 ∨ c.re * v11 + c.im * v01 ≠ 0 := by
    by_contra hcon
    simp only [not_or, not_not] at hcon
    obtain ⟨e1, e2⟩ := hcon
    have h1 : (c.re * c.re + c.im * c.im) * v01 = 0 := by linear_combination c.re * e1 + c.im * e2
    have h2 : (c.re * c.re + c.im * c.im) * v11 = 0 := by linear_combination c.re * e2 - c.im * e1
    rcases hne with h | h
    · exact h ((mul_eq_zero.mp h1).resolve_left hs.ne')
    · exact h ((mul_eq_zero.mp h2).resolve_left hs.ne')
  have hpar := sym2_minor_parallel hw.eq1 hw.eq2 hv'.eq1 hv'.eq2 hwne hne' hw.minor hgap
  obtain ⟨t, ht, e1, e2⟩ := parallel_exists_smul hpar hwne hne'
  rw [e1, e2, C18_mpd_dir_scale n _ _ _ t ht, C18_mpd_scale_partial n c hc]

/-- **MPD of `c·v` is exactly 0 under the SVD contract**: for `φ = c·v` (`c ≠ 0`, `v` real,
    not zero, zero components allowed) *any* non-zero minor direction returned by the SVD is a
    null direction, hence `MPD = 0`. -/
theorem C18_collinear_mpd_svd (n : Nat) (c : Cx ℝ) (hc : CNonZero c) (v : Nat → ℝ)
    (hv : ∃ k, k < n ∧ v k ≠ 0) (v01 v11 μ : ℝ)
    (hV : SvdMinor n (cscale c (ofRealVec v)) v01 v11 μ) (hne : v01 ≠ 0 ∨ v11 ≠ 0) :
    mpd n (cscale c (ofRealVec v)) v01 v11 = 0 := by
  apply C18_collinear_mpd
  obtain ⟨k, hk, hvk⟩ := hv
  have hs := normSq_pos_of_ne hc
  have hVpos : 0 < ∑ k ∈ range n, v k * v k :=
    Finset.sum_pos' (fun _ _ => mul_self_nonneg _) ⟨k, Finset.mem_range.mpr hk, mul_self_pos.mpr hvk⟩
  obtain ⟨h1, h2, h3⟩ := hV
  have ha : ∑ k ∈ range n, (cscale c (ofRealVec v) k).re * (cscale c (ofRealVec v) k).re
      = c.re * c.re * ∑ k ∈ range n, v k * v k := by
    rw [Finset.mul_sum]; exact Finset.sum_congr rfl fun _ _ => by simp; ring
  have hb : ∑ k ∈ range n, (cscale c (ofRealVec v) k).re * (cscale c (ofRealVec v) k).im
      = c.re * c.im * ∑ k ∈ range n, v k * v k := by
    rw [Finset.mul_sum]; exact Finset.sum_congr rfl fun _ _ => by simp; ring
  have hd : ∑ k ∈ range n, (cscale c (ofRealVec v) k).im * (cscale c (ofRealVec v) k).im
      = c.im * c.im * ∑ k ∈ range n, v k * v k := by
    rw [Finset.mul_sum]; exact Finset.sum_congr rfl fun _ _ => by simp; ring
  rw [ha, hb] at h1
  rw [hb, hd] at h2
  rw [ha, hd] at h3
  set W := ∑ k ∈ range n, v k * v k with hW
  have hchar := sym2_char h1 h2 hne
  -- μ (μ − |c|² W) = 0 and 2μ ≤ |c|² W force μ = 0
  have hμ : μ = 0 := by
    have hp : μ * (μ - (c.re * c.re + c.im * c.im) * W) = 0 := by linear_combination hchar
    rcases mul_eq_zero.mp hp with e | e
    · exact e
    · have hsW : 0 < (c.re * c.re + c.im * c.im) * W := mul_pos hs hVpos
      nlinarith
  rw [hμ] at h1 h2
  have : (c.re * c.re + c.im * c.im) * W * (c.re * v01 + c.im * v11) = 0 := by
    linear_combination c.re * h1 + c.im * h2
  exact (mul_eq_zero.mp this).resolve_left (mul_pos hs hVpos).ne'

/-! ## Non-vacuity: concrete instances of every hypothesis (over `ℚ`, kernel-evaluated) -/
section examples
/-- the shape pinned by the unit tests, `[1+2j, 2+3j, 3+4j]` -/
def exPhi : Nat → Cx ℚ := fun k => ⟨(k : ℚ) + 1, (k : ℚ) + 2⟩
def exPsi : Nat → Cx ℚ := fun k => ⟨(k : ℚ) + 2, (k : ℚ) + 3⟩
def exV : Nat → ℚ := fun k => (k : ℚ) - 1      -- (-1, 0, 1): has a zero component
def exC : Cx ℚ := ⟨3, -4⟩

example : NonZero 3 exPhi := ⟨0, by decide, Or.inl (by simp [exPhi])⟩
example : CNonZero exC := Or.inl (by simp [exC])
example : ∃ k, k < 3 ∧ exV k ≠ 0 := ⟨0, by decide, by simp [exV]⟩
example : macEntry? 3 exPhi exPsi = some (3373 / 3397) := by decide +kernel
example : mcfEntry? 3 exPhi = some (24 / 1849) := by decide +kernel
example : msfEntry? 3 exPhi exPsi = some (494 / 365) := by decide +kernel
example : mpcClosed? 3 exPhi = some 1 := by decide +kernel
/-- eigenvalue contract: `S = [[1,1],[1,1]]`, eigenvalues 2 and 0 -/
example : EigContract (cov2 3 exPhi) 2 0 := by
  constructor <;> decide +kernel
/-- a null direction for `c·v`, `c = 3 − 4i`: `(4, 3)` -/
example : exC.re * 4 + exC.im * 3 = 0 := by decide +kernel
example : mpdArgSq? (exC * Cx.ofReal (exV 2)) 4 3 = some 1 := by decide +kernel
example : mpdArgSq? (exC * Cx.ofReal (exV 1)) 4 3 = none := by decide +kernel
example : mpdArgSq? (exPhi 0) (1 / 2) (-1 / 3) = some (64 / 65) := by decide +kernel
/-- `vᵀv ≠ 0` for the pinned complex shape -/
example : Cx.normSq (dotu 3 exPhi exPhi) ≠ 0 := by decide +kernel
/-- a minor direction: `φ = (1, i)·…`; for `[[1,0],[0,0]]` (shape `(1, 0)`, real) the minor
    direction is `(0,1)` with `μ = 0` -/
example : SvdMinor 2 (fun k => if k = 0 then (⟨1, 0⟩ : Cx ℚ) else ⟨0, 0⟩) 0 1 0 := by
  constructor <;> decide +kernel
/-- hypotheses of `C18_mpd_scale`: `φ = (1, 0)`, `c = i`: minor directions `(0,1)` resp. `(1,0)`,
    distinct singular values (`2·0 < 1`) -/
def exE : Nat → Cx ℚ := fun k => if k = 0 then ⟨1, 0⟩ else ⟨0, 0⟩
example : SvdMinor 2 (cscale ⟨0, 1⟩ exE) 1 0 0 := by
  constructor <;> decide +kernel
example : (2 : ℚ) * 0 < (∑ k ∈ range 2, (cscale ⟨0, 1⟩ exE k).re * (cscale ⟨0, 1⟩ exE k).re)
    + (∑ k ∈ range 2, (cscale ⟨0, 1⟩ exE k).im * (cscale ⟨0, 1⟩ exE k).im) := by decide +kernel
/-- hypotheses of `C18_collinear_mpd_svd`: `(3−4i)·(−1, 0, 1)` with the minor direction `(4, 3)` -/
example : SvdMinor 3 (cscale exC (ofRealVec exV)) 4 3 0 := by
  constructor <;> decide +kernel
end examples

end PV.C18
