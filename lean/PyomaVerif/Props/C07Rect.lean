import PyomaVerif.Model.EfddRect
import PyomaVerif.Props.C07All
/-!
# C06 cl. 15/19, C07 — the first stage of EFDD/FSDD on a RECTANGULAR (half) spectrum

`Efdd.efddMpeR` (Model/EfddRect.lean, op `efdd_mpe_rect`, stream `fdd.EFDD_mpe[rect]`) is
`fdd.EFDD_mpe` on `Sy` of shape `(nr, nc, nf)` — what `EFDD_MS` hands it (all channels ×
reference channels).  Property theorems only:

* `C07_rect_square`, `C07_rect_square_one`: on a square spectrum with `cm ≤ n` it IS the composed
  model `efddMpe` of Props/C07All (every theorem there transfers);
* `C07_mpe_spec_rect`, `C07_one_spec_rect`: what it returns for `nr ≠ nc` — the first stage is
  `FDD_mpe` on the `nc × nc` stored values and the `nr × nr` stored vectors of the model's own
  `SD_svalsvec(Sy)`, `Phi[:, n]` is the first stage's normalised vector of length `nr`, never a
  product of the second stage; the loop over the close modes completed without exception;
* the exceptions: `C07_rect_lt_raises` (`1 < nr < nc`: `SD_svalsvec` cannot store the singular
  values), `C07_rect_fsdd_raises` (FSDD on `nr ≠ nc` raises as soon as one line of the band
  passes the MAC test — `phi^H Sy[:, :, l] phi` is not defined), `C07_rect_cm_raises`
  (`cm > nr`: `Svec[csm]` out of bounds), and `C07_rect_efdd_guard_none` (EFDD raises nothing new
  as long as no close mode beyond `nc` passes the MAC test, in particular for `cm ≤ nc`).
-/
set_option linter.unusedSectionVars false
namespace PV.C07Rect
open PV PV.Fdd PV.Efdd

variable {K : Type} [Field K] [LinearOrder K] [IsStrictOrderedRing K]

/-! ## 0. `SD_svalsvec` on `(nr, nc, nf)` -/

/-- **`SD_svalsvec` returns iff it can store the singular values**: for `0 < nc ≤ nr` it is the
    model `svalsvec E nr nc` (C06's `C06_sval_faithful` / `C06_svec_faithful` are about it). -/
theorem C07_rect_svalsvec_ok (E : Ext K) (nr nc nf : Nat) (Sy : Nat → Nat → Nat → Cx K)
    (hnc : 0 < nc) (hle : nc ≤ nr) : svalsvecR E nr nc nf Sy = .ok (svalsvec E nr nc nf Sy) := by
  unfold svalsvecR
  have h1 : ¬ (nr = 0 ∨ nc = 0) := by omega
  have h2 : ¬ nr < nc := by omega
  simp only [h1, h2, if_false, ite_self]

/-- for `1 < nr < nc` and at least one line it raises (`Sval[k, :] = np.sqrt(S)`) -/
theorem C07_rect_svalsvec_lt (E : Ext K) (nr nc nf : Nat) (Sy : Nat → Nat → Nat → Cx K)
    (h1 : 1 < nr) (hlt : nr < nc) (hnf : 0 < nf) :
    svalsvecR E nr nc nf Sy = .error "ValueError: could not broadcast input array" := by
  unfold svalsvecR
  have a : ¬ (nr = 0 ∨ nc = 0) := by omega
  have b : ¬ nf = 0 := by omega
  have c : ¬ nr = 1 := by omega
  simp only [a, b, c, hlt, if_false, if_true]

/-- whenever it returns, it returns `svalsvec E nr nc nf Sy` and `nf = 0 ∨ nc ≤ nr` -/
theorem C07_rect_svalsvec_elim (E : Ext K) (nr nc nf : Nat) (Sy : Nat → Nat → Nat → Cx K)
    (sv : (Nat → Nat → Nat → K) × (Nat → Nat → Nat → Cx K)) (h : svalsvecR E nr nc nf Sy = .ok sv) :
    sv = svalsvec E nr nc nf Sy ∧ 0 < nr ∧ 0 < nc ∧ (nf = 0 ∨ nc ≤ nr) := by
  unfold svalsvecR at h
  split_ifs at h with a b c d
  · injection h with h; exact ⟨h.symm, by omega, by omega, Or.inl b⟩
  · injection h with h; exact ⟨h.symm, by omega, by omega, Or.inr (by omega)⟩

/-- `EFDD_mpe` on `1 < nr < nc` (at least one line) raises before anything else -/
theorem C07_rect_lt_raises (E : Ext K) (m : Method) (ms : SyMethod) (nr nc nf : Nat)
    (Sy : Nat → Nat → Nat → Cx K) (freq : Nat → K) (dt : K) (sel : List K) (DF1 DF2 : K) (cm : Nat)
    (MAClim : K) (sppk npmax : Nat) (h1 : 1 < nr) (hlt : nr < nc) (hnf : 0 < nf) :
    efddMpeR E m ms nr nc nf Sy freq dt sel DF1 DF2 cm MAClim sppk npmax
      = .error "ValueError: could not broadcast input array" := by
  unfold efddMpeR
  rw [C07_rect_svalsvec_lt E nr nc nf Sy h1 hlt hnf]

/-! ## 1. The loop over the close modes -/

/-- on a square spectrum no close mode `csm < n` raises -/
theorem bellGuardAt_square (m : Method) (n : Nat) (mask : Nat → Nat → Bool) (lo hi csm : Nat)
    (h : csm < n) : bellGuardAt m n n mask lo hi csm = none := by
  have a : ¬ (lo < hi ∧ n ≤ csm) := by omega
  have b : ¬ n ≤ csm := by omega
  cases m <;> simp [bellGuardAt, b]

theorem bellGuard_square (m : Method) (n cm : Nat) (mask : Nat → Nat → Bool) (lo hi : Nat)
    (h : cm ≤ n) : bellGuard m n n cm mask lo hi = none := by
  unfold bellGuard
  rw [List.findSome?_eq_none_iff]
  intro csm hc
  exact bellGuardAt_square m n mask lo hi csm (by have := List.mem_range.mp hc; omega)

/-- **EFDD on the half spectrum raises nothing new** as long as `cm ≤ nr` and no close mode
    `csm ≥ nc` passes the MAC test on a line of the band (in particular whenever `cm ≤ nc`):
    `Sval[csm, csm, l]` is only evaluated behind the test. -/
theorem C07_rect_efdd_guard_none (nr nc cm : Nat) (mask : Nat → Nat → Bool) (lo hi : Nat)
    (hcm : cm ≤ nr)
    (hm : ∀ csm l, nc ≤ csm → csm < cm → lo ≤ l → l < hi → mask csm l = false) :
    bellGuard .EFDD nr nc cm mask lo hi = none := by
  unfold bellGuard
  rw [List.findSome?_eq_none_iff]
  intro csm hc
  have hc' := List.mem_range.mp hc
  have a : ¬ (lo < hi ∧ nr ≤ csm) := by omega
  simp only [bellGuardAt, a, if_false]
  split_ifs with h
  · exfalso
    obtain ⟨h1, h2⟩ := h
    rw [List.any_eq_true] at h2
    obtain ⟨l, hl, hml⟩ := h2
    rw [List.mem_range'_1] at hl
    rw [hm csm l h1 hc' hl.1 (by omega)] at hml
    cases hml
  · rfl

theorem C07_rect_efdd_guard_none_le (nr nc cm : Nat) (mask : Nat → Nat → Bool) (lo hi : Nat)
    (hle : nc ≤ nr) (hcm : cm ≤ nc) : bellGuard .EFDD nr nc cm mask lo hi = none :=
  C07_rect_efdd_guard_none nr nc cm mask lo hi (by omega) (fun csm _ h1 h2 _ _ => by omega)

/-- an unknown method evaluates nothing in the loop -/
theorem bellGuard_other (nr nc cm : Nat) (mask : Nat → Nat → Bool) (lo hi : Nat) :
    bellGuard .other nr nc cm mask lo hi = none := by
  unfold bellGuard
  rw [List.findSome?_eq_none_iff]
  intro csm _
  rfl

/-! ## 2. The rectangular model extends the square one -/

/-- **C07_rect_square_one.** On a square spectrum (`nr = nc = n > 0`) with `cm ≤ n`, one pass of
    the rectangular model is the pass `efddOne` of the composed model of Props/C07All. -/
theorem C07_rect_square_one (E : Ext K) (m : Method) (ms : SyMethod) (n cm nf : Nat) (dt : K)
    (Sy : Nat → Nat → Nat → Cx K) (DF2 MAClim : K) (sppk npmax : Nat) (sel : K)
    (phiL : Option (List (Cx K))) (hn : 0 < n) (hcm : cm ≤ n) :
    efddOneR E m ms n n cm nf dt Sy DF2 MAClim sppk npmax sel phiL
      = efddOne E m ms n cm nf dt Sy DF2 MAClim sppk npmax sel phiL := by
  cases phiL with
  | none => rfl
  | some pl =>
    simp only [efddOneR, C07_rect_svalsvec_ok E n n nf Sy hn (Nat.le_refl n),
      bellGuard_square m n cm _ _ _ hcm, efddOne, efddTail, memoGet_memoArr]
    rfl

/-- **C07_rect_square.** … and the whole of `efddMpeR E m ms n n` is `efddMpe E m ms n`. -/
theorem C07_rect_square (E : Ext K) (m : Method) (ms : SyMethod) (n nf : Nat)
    (Sy : Nat → Nat → Nat → Cx K) (freq : Nat → K) (dt : K) (sel : List K) (DF1 DF2 : K) (cm : Nat)
    (MAClim : K) (sppk npmax : Nat) (hn : 0 < n) (hcm : cm ≤ n) :
    efddMpeR E m ms n n nf Sy freq dt sel DF1 DF2 cm MAClim sppk npmax
      = efddMpe E m ms n nf Sy freq dt sel DF1 DF2 cm MAClim sppk npmax := by
  have hf : (fun sm : K × ModeOut K =>
      efddOneR E m ms n n cm nf dt Sy DF2 MAClim sppk npmax sm.1 sm.2.phi)
      = (fun sm => efddOne E m ms n cm nf dt Sy DF2 MAClim sppk npmax sm.1 sm.2.phi) := by
    funext sm
    exact C07_rect_square_one E m ms n cm nf dt Sy DF2 MAClim sppk npmax sm.1 sm.2.phi hn hcm
  unfold efddMpeR efddMpe
  rw [C07_rect_svalsvec_ok E n n nf Sy hn (Nat.le_refl n)]
  simp only [hf]
  rfl

/-! ## 3. What the rectangular model returns -/

/-- **C07_one_spec_rect.**  One pass of the loop of `EFDD_mpe` on `Sy : (nr, nc, nf)` that
    returns: `SD_svalsvec(Sy)` returned (so `nf = 0 ∨ nc ≤ nr`), the band is not empty or nothing
    is summed, the loop over the close modes raised nothing, the appended shape is the
    first-stage shape it was handed, and the chain after the bell of `SDOF_bellandMS(Sy, …)`
    (MAC over `nr` components, stored values `Sval[csm, csm]` of the `nc × nc` block) is the one
    of `C07_one_spec`. -/
theorem C07_one_spec_rect (E : Ext K) (m : Method) (ms : SyMethod) (nr nc cm nf : Nat) (dt : K)
    (Sy : Nat → Nat → Nat → Cx K) (DF2 MAClim : K) (sppk npmax : Nat) (sel : K)
    (phiL : Option (List (Cx K))) (mo : ModeAll K)
    (h : efddOneR E m ms nr nc cm nf dt Sy DF2 MAClim sppk npmax sel phiL = .ok mo) :
    phiL = some mo.phi ∧ 0 < npmax ∧ 0 < nr ∧ 0 < nc ∧ (nf = 0 ∨ nc ≤ nr) ∧
    svalsvecR E nr nc nf Sy = .ok (svalsvec E nr nc nf Sy) ∧
    bellGuard m nr nc cm (maskAt nr (fun i => mo.phi.getD i 0) (svalsvec E nr nc nf Sy).2 MAClim)
      (bandLo nf (bellFreq nf dt) sel DF2) (bandHi nf (bellFreq nf dt) sel DF2) = none ∧
    postFft nf (normCorr (5 * nf) (E.ifft nf
      (sdofBell m nr cm nf dt Sy (svalsvec E nr nc nf Sy).1 (svalsvec E nr nc nf Sy).2
        (fun i => mo.phi.getD i 0) sel DF2 MAClim))) dt sppk npmax = .ok mo.post ∧
    mo.idSV = (List.range nf).filter (fun l =>
      ¬ ((sdofBell m nr cm nf dt Sy (svalsvec E nr nc nf Sy).1 (svalsvec E nr nc nf Sy).2
            (fun i => mo.phi.getD i 0) sel DF2 MAClim l).re = 0 ∧
         (sdofBell m nr cm nf dt Sy (svalsvec E nr nc nf Sy).1 (svalsvec E nr nc nf Sy).2
            (fun i => mo.phi.getD i 0) sel DF2 MAClim l).im = 0)) ∧
    mo.delta = mo.post.ratios.map E.log ∧
    mo.lam = lamOf ms nf (E.log (((1 : Nat) : K) / ((100 : Nat) : K)))
      (E.fit npmax (fun k => mo.delta.getD k 0)) ∧
    mo.xi = xiOf E.sqrt E.pi mo.lam ∧
    mo.fn = mo.post.fd.map (fun fd => fnOf E.sqrt fd mo.xi) := by
  cases phiL with
  | none => simp only [efddOneR] at h; cases h
  | some pl =>
    simp only [efddOneR] at h
    split at h
    · cases h
    · rename_i sv hsv
      obtain ⟨rfl, hnr, hnc, hdim⟩ := C07_rect_svalsvec_elim E nr nc nf Sy sv hsv
      split_ifs at h with h1
      split at h
      · cases h
      · rename_i hg
        simp only [efddTail, memoGet_memoArr] at h
        split_ifs at h with h2 h3
        · split at h <;> cases h
        · split at h
          · cases h
          · rename_i p hp
            injection h with h
            subst h
            exact ⟨rfl, Nat.pos_of_ne_zero h3, hnr, hnc, hdim, hsv, hg, hp, rfl, rfl, rfl, rfl, rfl⟩

/-- the first stage returns shapes of length `nch` (`Svec[0, :, idx]`) -/
theorem fddOne_phi_length (nch nref nf : Nat) (freq : Nat → K) (Sval : Nat → Nat → Nat → K)
    (Svec : Nat → Nat → Nat → Cx K) (DF sel : K) (mo : ModeOut K) (pl : List (Cx K))
    (h : fddOne nch nref nf freq Sval Svec DF sel = .ok mo) (hp : mo.phi = some pl) :
    pl.length = nch := by
  unfold fddOne at h
  split at h
  · cases h
  · injection h with h
    subst h
    simp only [Option.map_eq_some_iff] at hp
    obtain ⟨v, _, rfl⟩ := hp
    simp

/-- **C07_mpe_spec_rect.**  `C07_mpe_spec` for `nr ≠ nc`: when the model of `EFDD_mpe` on
    `Sy : (nr, nc, nf)` returns, then `SD_svalsvec(Sy)` returned (`nf = 0 ∨ nc ≤ nr`), there is one
    entry per selected frequency in the caller's order, entry `n` is the pass `efddOneR` for
    `sel_freq[n]` on the `n`-th result of the first stage `FDD_mpe(Sval, Svec, freq, sel_freq,
    DF=DF1)` on the `nc × nc` values / `nr × nr` vectors — so `Phi[:, n]` is the first stage's
    normalised first stored singular vector (length `nr`: ALL channels, not the reference block)
    at the line picked within `DF1` (C06's `C06_pick`, `C06_mode`, `C06_shape` apply to it). -/
theorem C07_mpe_spec_rect (E : Ext K) (m : Method) (ms : SyMethod) (nr nc nf : Nat)
    (Sy : Nat → Nat → Nat → Cx K) (freq : Nat → K) (dt : K) (sel : List K) (DF1 DF2 : K) (cm : Nat)
    (MAClim : K) (sppk npmax : Nat) (res : List (ModeAll K))
    (h : efddMpeR E m ms nr nc nf Sy freq dt sel DF1 DF2 cm MAClim sppk npmax = .ok res) :
    0 < nr ∧ 0 < nc ∧ (nf = 0 ∨ nc ≤ nr) ∧
    ∃ modes, fddMpe nr nc nf freq (svalsvec E nr nc nf Sy).1 (svalsvec E nr nc nf Sy).2 sel DF1
        = .ok modes ∧
      modes.length = sel.length ∧ res.length = sel.length ∧
      ∀ n (h1 : n < sel.length) (h2 : n < modes.length) (h3 : n < res.length),
        fddOne nr nc nf freq (svalsvec E nr nc nf Sy).1 (svalsvec E nr nc nf Sy).2 DF1 sel[n]
          = .ok modes[n] ∧
        efddOneR E m ms nr nc cm nf dt Sy DF2 MAClim sppk npmax sel[n] modes[n].phi = .ok res[n] ∧
        modes[n].phi = some res[n].phi ∧ res[n].phi.length = nr := by
  unfold efddMpeR at h
  split at h
  · cases h
  · rename_i sv hsv
    obtain ⟨rfl, hnr, hnc, hdim⟩ := C07_rect_svalsvec_elim E nr nc nf Sy sv hsv
    refine ⟨hnr, hnc, hdim, ?_⟩
    split at h
    · cases h
    · rename_i modes hm
      obtain ⟨hl1, hf1⟩ := mapM_ok_elim _ sel modes hm
      obtain ⟨hl2, hf2⟩ := mapM_ok_elim _ (List.zip sel modes) res h
      have hz : (List.zip sel modes).length = sel.length := by rw [List.length_zip, hl1, Nat.min_self]
      refine ⟨modes, hm, hl1, by rw [hl2, hz], ?_⟩
      intro n h1 h2 h3
      have hone := hf2 n (by rw [hz]; exact h1) h3
      rw [List.getElem_zip] at hone
      have hphi := (C07_one_spec_rect E m ms nr nc cm nf dt Sy DF2 MAClim sppk npmax _ _ _ hone).1
      exact ⟨hf1 n h1 h2, hone, hphi, fddOne_phi_length nr nc nf freq _ _ DF1 _ _ _ (hf1 n h1 h2) hphi⟩

/-! ## 4. The exceptions of the half spectrum -/

/-- **C07_rect_fsdd_raises.**  FSDD on a spectrum with `nr ≠ nc` (`SD_svalsvec` returning): as soon
    as ONE line `l` of the `DF2` band passes the MAC test for the first close mode, the pass raises
    `ValueError` (`np.dot(np.dot(phi.conj().T, Sy[:, :, l]), phi)`: `(nc,)·(nr,)`).  The first-stage
    shape is the stored vector at the picked line, so its own line passes whenever it lies in the band
    and `MAClim < 1` — FSDD never returns on the half spectrum. -/
theorem C07_rect_fsdd_raises (E : Ext K) (ms : SyMethod) (nr nc cm nf : Nat) (dt : K)
    (Sy : Nat → Nat → Nat → Cx K) (DF2 MAClim : K) (sppk npmax : Nat) (sel : K) (pl : List (Cx K))
    (hnc : 0 < nc) (hlt : nc < nr) (hcm : 0 < cm) (l : Nat)
    (hlo : bandLo nf (bellFreq nf dt) sel DF2 ≤ l) (hhi : l < bandHi nf (bellFreq nf dt) sel DF2)
    (hmask : maskAt nr (fun i => pl.getD i 0) (svalsvec E nr nc nf Sy).2 MAClim 0 l = true) :
    efddOneR E .FSDD ms nr nc cm nf dt Sy DF2 MAClim sppk npmax sel (some pl)
      = .error "ValueError: shapes not aligned" := by
  obtain ⟨c, rfl⟩ : ∃ c, cm = c + 1 := ⟨cm - 1, by omega⟩
  have hband : ¬ bandHi nf (bellFreq nf dt) sel DF2 ≤ bandLo nf (bellFreq nf dt) sel DF2 := by omega
  have hany : (List.range' (bandLo nf (bellFreq nf dt) sel DF2)
      (bandHi nf (bellFreq nf dt) sel DF2 - bandLo nf (bellFreq nf dt) sel DF2)).any
      (maskAt nr (fun i => pl.getD i 0) (svalsvec E nr nc nf Sy).2 MAClim 0) = true := by
    rw [List.any_eq_true]
    exact ⟨l, by rw [List.mem_range'_1]; omega, hmask⟩
  have hne : nr ≠ nc := by omega
  have h0 : ¬ (bandLo nf (bellFreq nf dt) sel DF2 < bandHi nf (bellFreq nf dt) sel DF2 ∧ nr ≤ 0) := by omega
  simp only [efddOneR, C07_rect_svalsvec_ok E nr nc nf Sy hnc (Nat.le_of_lt hlt), hband, and_false,
    if_false, bellGuard, List.range_succ_eq_map, List.findSome?_cons, bellGuardAt, h0, hne, hany,
    ne_eq, not_false_eq_true, and_self, if_true]

/-- **C07_rect_cm_raises.**  `cm > nr` (more close modes than channels) on a non-empty band raises
    `IndexError` (`Svec[csm, :, l]`, or `Sval[csm, csm, l]` before it) — for EFDD on any
    `0 < nc ≤ nr`, for FSDD on the square spectrum. -/
theorem C07_rect_cm_raises (E : Ext K) (m : Method) (ms : SyMethod) (nr nc cm nf : Nat) (dt : K)
    (Sy : Nat → Nat → Nat → Cx K) (DF2 MAClim : K) (sppk npmax : Nat) (sel : K) (pl : List (Cx K))
    (hm : m = .EFDD ∨ (m = .FSDD ∧ nr = nc)) (hnc : 0 < nc) (hle : nc ≤ nr) (hcm : nr < cm)
    (hband : bandLo nf (bellFreq nf dt) sel DF2 < bandHi nf (bellFreq nf dt) sel DF2) :
    efddOneR E m ms nr nc cm nf dt Sy DF2 MAClim sppk npmax sel (some pl)
      = .error "IndexError: index is out of bounds for axis 0" := by
  have hb : ¬ bandHi nf (bellFreq nf dt) sel DF2 ≤ bandLo nf (bellFreq nf dt) sel DF2 := by omega
  simp only [efddOneR, C07_rect_svalsvec_ok E nr nc nf Sy hnc hle, hb, and_false, if_false]
  cases hg : bellGuard m nr nc cm (maskAt nr (fun i => pl.getD i 0) (svalsvec E nr nc nf Sy).2 MAClim)
      (bandLo nf (bellFreq nf dt) sel DF2) (bandHi nf (bellFreq nf dt) sel DF2) with
  | none =>
    exfalso
    unfold bellGuard at hg
    rw [List.findSome?_eq_none_iff] at hg
    have := hg nr (List.mem_range.mpr hcm)
    have a : bandLo nf (bellFreq nf dt) sel DF2 < bandHi nf (bellFreq nf dt) sel DF2 ∧ nr ≤ nr :=
      ⟨hband, Nat.le_refl _⟩
    rcases hm with rfl | ⟨rfl, _⟩ <;> simp [bellGuardAt, a] at this
  | some e =>
    unfold bellGuard at hg
    obtain ⟨csm, _, hx⟩ := List.exists_of_findSome?_eq_some hg
    rcases hm with rfl | ⟨rfl, hsq⟩
    · simp only [bellGuardAt] at hx
      split_ifs at hx <;> injection hx with hx <;> subst hx <;> rfl
    · have hne : ¬ (nr ≠ nc ∧ (List.range' (bandLo nf (bellFreq nf dt) sel DF2)
          (bandHi nf (bellFreq nf dt) sel DF2 - bandLo nf (bellFreq nf dt) sel DF2)).any
          (maskAt nr (fun i => pl.getD i 0) (svalsvec E nr nc nf Sy).2 MAClim csm) = true) := by
        intro h; exact h.1 hsq
      simp only [bellGuardAt, hne, if_false] at hx
      split_ifs at hx
      injection hx with hx; subst hx; rfl

/-! ### Non-vacuity: the half spectrum of `C07All.exSy` (3 channels × 2 references, 8 lines) -/

/-- the exception a run of the model ends with -/
def errOf {α : Type} : Except String α → Option String
  | .error e => some e
  | .ok _ => none

theorem errOf_some {α : Type} (r : Except String α) (e : String) (h : errOf r = some e) :
    r = .error e := by
  cases r with
  | error e' => simp only [errOf, Option.some.injEq] at h; rw [h]
  | ok _ => cases h

open PV.C07All in
/-- EFDD on the 3 × 2 × 8 spectrum, `cm = 1` -/
def exRunR : Except String (List (ModeAll Rat)) :=
  efddMpeR exE2 .EFDD .per 3 2 8 exSy (fun i => (i : Rat)) (1/16) [2] 1 2 1 (17/20) 1 4

/-- it returns (`C07_mpe_spec_rect`, `C07_one_spec_rect`): the shape has THREE components, the bell
    lies on lines `0..3`, fitted extrema `4, 6, 8, 10` -/
theorem exRunR_ok : (match exRunR with
    | .ok l => l.map (fun (mo : ModeAll Rat) => (mo.phi.map (fun (z : Cx Rat) => (z.re, z.im)), mo.idSV, mo.post.fitIdx))
    | .error _ => []) = [([(1, 0), (0, 0), (0, 0)], [0, 1, 2, 3], [4, 6, 8, 10])] := by decide +kernel

example : ∃ res, exRunR = .ok res := by
  cases h : exRunR with
  | ok r => exact ⟨r, rfl⟩
  | error e =>
    exfalso
    have := exRunR_ok
    rw [h] at this
    cases this

open PV.C07All in
/-- `C07_rect_efdd_guard_none`: the hypotheses hold on the example with `cm = 3 = nr > nc`
    (the third stored vector is orthogonal to the shape) -/
example : (3 : Nat) ≤ 3 ∧ ∀ csm l, 2 ≤ csm → csm < 3 → 0 ≤ l → l < 4 →
    maskAt 3 (fun i => [(⟨1, 0⟩ : Cx Rat), ⟨0, 0⟩, ⟨0, 0⟩].getD i 0) (svalsvec exE2 3 2 8 exSy).2 (17/20) csm l = false := by
  refine ⟨Nat.le_refl _, ?_⟩
  intro csm l h1 h2 _ h4
  obtain rfl : csm = 2 := by omega
  have : ∀ l, l < 4 → maskAt 3 (fun i => [(⟨1, 0⟩ : Cx Rat), ⟨0, 0⟩, ⟨0, 0⟩].getD i 0)
      (svalsvec exE2 3 2 8 exSy).2 (17/20) 2 l = false := by decide +kernel
  exact this l h4

open PV.C07All in
/-- `C07_rect_fsdd_raises`: its hypotheses hold on the example (line 2 of the band `[0, 4)` passes
    the MAC test) and the model run raises -/
theorem exRunR_fsdd :
    (bandLo 8 (bellFreq 8 ((1:Rat)/16)) 2 2 ≤ 2 ∧ 2 < bandHi 8 (bellFreq 8 ((1:Rat)/16)) 2 2 ∧
      maskAt 3 (fun i => [(⟨1, 0⟩ : Cx Rat), ⟨0, 0⟩, ⟨0, 0⟩].getD i 0) (svalsvec exE2 3 2 8 exSy).2 (17/20) 0 2 = true) ∧
    errOf (efddMpeR exE2 .FSDD .per 3 2 8 exSy (fun i => (i : Rat)) (1/16) [2] 1 2 1 (17/20) 1 4)
      = some "ValueError: shapes not aligned" := by decide +kernel

open PV.C07All in
/-- `C07_rect_cm_raises` (`cm = 4 > nr = 3`) and `C07_rect_lt_raises` (2 × 3) on the example -/
theorem exRunR_cm_lt :
    errOf (efddMpeR exE2 .EFDD .per 3 2 8 exSy (fun i => (i : Rat)) (1/16) [2] 1 2 4 (17/20) 1 4)
      = some "IndexError: index is out of bounds for axis 0" ∧
    errOf (efddMpeR exE2 .EFDD .per 2 3 8 exSy (fun i => (i : Rat)) (1/16) [2] 1 2 1 (17/20) 1 4)
      = some "ValueError: could not broadcast input array" := by decide +kernel

end PV.C07Rect
