import PyomaVerif.Model.PrepOwn
import PyomaVerif.Lemmas.Prep
/-!
# C14, last clause — "no call ever modifies the arrays the user passed in or the stored initial copy"

Theorems about the buffer-identity layer of `Model/PrepOwn.lean` (`sOwnRun` / `mOwnRun`: the machines the driver ops
`prep_single_own` / `prep_multi_own` run and the correspondence stream `own:*` compares with `np.shares_memory` and byte
hashes of the real objects), for every history, configuration and keyword record.

* the ownership layer is conservative: its value component is exactly `sRun` / `mRun` (all of Props/C14 applies to it);
* the stored initial copy is NEVER written and never aliased by `data` / `datasets`, for every history — including
  histories with `overwrite_data=True` and for both settings of `forwardOverwrite`;
* the user's arrays are never written by a history without `overwrite_data=True` (today's tree), and by no history
  at all on the tree after `proposed_fixes/fix_g11.diff`;
* on today's tree `detrend_data(overwrite_data=True)` as the first call DOES write the user's array (kernel-checked
  witness = the finding `single:mutated-user-array:detrend(overwrite_data=True)`), and a PreGER call that raises on
  its second dataset has already written the first one.
-/
namespace PV.C14
open PV.Prep

/-! ## The layer is conservative -/

theorem sOwnIds_st (ov : OwnVariant) (o : SOwn) (op : Op) : (sOwnIds ov o op).st = o.st := by
  cases op <;> simp [sOwnIds, sOwnInitialize] <;> split <;> rfl

theorem sOwnStep_st (ov : OwnVariant) (v : Variant) (c : SCfg) (o : SOwn) (op : Op) :
    (sOwnStep ov v c o op).st = sStep' v c o.st op := by
  unfold sOwnStep sStep'
  cases sStep v c o.st op <;> simp

/-- **Conservative, SingleSetup.** The value component of the ownership machine is the machine of Props/C14. -/
theorem C14_own_values_single (ov : OwnVariant) (v : Variant) (c : SCfg) (ops : List Op) :
    (sOwnRun ov v c ops).st = sRun v c ops := by
  unfold sOwnRun sRun
  have h0 : (sOwnInit ov c).st = sInit c := by
    unfold sOwnInit sOwnInitialize; split <;> rfl
  generalize sOwnInit ov c = o at h0
  generalize sInit c = s at h0
  induction ops generalizing o s with
  | nil => simpa using h0
  | cons op ops ih =>
      simp only [List.foldl_cons]
      exact ih _ _ (by rw [sOwnStep_st, h0])

theorem mOwnIds_st (ov : OwnVariant) (o : MOwn) (op : Op) : (mOwnIds ov o op).st = o.st := by
  cases op <;> simp [mOwnIds, mOwnInitialize] <;> split <;> rfl

theorem mOwnStep_st (ov : OwnVariant) (v : Variant) (c : MCfg) (o : MOwn) (op : Op) :
    (mOwnStep ov v c o op).st = mStep' v c o.st op := by
  unfold mOwnStep mStep'
  simp only
  cases mStep v c o.st op <;> simp

/-- **Conservative, PreGER.** -/
theorem C14_own_values_multi (ov : OwnVariant) (v : Variant) (c : MCfg) (ops : List Op) :
    (mOwnRun ov v c ops).st = mRun v c ops := by
  unfold mOwnRun mRun
  have h0 : (mOwnInit ov c).st = mInit c := by
    unfold mOwnInit mOwnInitialize; simp only; split <;> rfl
  generalize mOwnInit ov c = o at h0
  generalize mInit c = s at h0
  induction ops generalizing o s with
  | nil => simpa using h0
  | cons op ops ih =>
      simp only [List.foldl_cons]
      exact ih _ _ (by rw [mOwnStep_st, h0])

/-! ## SingleSetup: the invariant of the buffers -/

/-- every buffer in use is allocated; the initial copy is a buffer of its own (not the user's, not `data`, never written). -/
structure SOwnInv (o : SOwn) : Prop where
  dataLt : o.dataId < o.next
  initLt : o.initId < o.next
  writesLt : ∀ w ∈ o.writes, w < o.next
  initNotWritten : o.initId ∉ o.writes
  initNotUser : o.initId ≠ 0
  dataNotInit : o.dataId ≠ o.initId

theorem sOwnInit_inv (ov : OwnVariant) (hd : ov.deepcopyInit = true) (c : SCfg) : SOwnInv (sOwnInit ov c) := by
  unfold sOwnInit sOwnInitialize
  simp only [hd, if_true]
  constructor <;> simp

theorem sOwnStep_inv (ov : OwnVariant) (hd : ov.deepcopyInit = true) (v : Variant) (c : SCfg) (o : SOwn) (op : Op)
    (h : SOwnInv o) : SOwnInv (sOwnStep ov v c o op) := by
  unfold sOwnStep
  cases sStep v c o.st op with
  | error e => exact h
  | ok st' =>
    obtain ⟨h1, h2, h3, h4, h5, h6⟩ := h
    have hw : ∀ w ∈ o.writes, w < o.next + 1 := fun w hw => Nat.lt_succ_of_lt (h3 w hw)
    have fresh : SOwnInv { o with st := st', dataId := o.next, next := o.next + 1 } :=
      ⟨by simp, by simp; omega, hw, h4, h5, by simp; omega⟩
    cases op with
    | decimate q kw => simpa [sOwnIds] using fresh
    | filter wn n bt => simpa [sOwnIds] using fresh
    | detrend kw =>
        simp only [sOwnIds]
        split
        · refine ⟨h1, h2, ?_, ?_, h5, h6⟩
          · intro w hw'
            simp only [List.mem_cons] at hw'
            rcases hw' with rfl | hw'
            · exact h1
            · exact h3 w hw'
          · simp only [List.mem_cons, not_or]
            exact ⟨fun e => h6 e.symm, h4⟩
        · exact fresh
    | rollback =>
        simp only [sOwnIds, sOwnInitialize, hd, if_true]
        refine ⟨by simp; omega, by simp, hw, ?_, by simp; omega, by simp; omega⟩
        intro hm
        exact Nat.lt_irrefl _ (h3 _ hm)
    | add => exact ⟨h1, h2, h3, h4, h5, h6⟩

theorem sOwnRun_inv (ov : OwnVariant) (hd : ov.deepcopyInit = true) (v : Variant) (c : SCfg) (ops : List Op) :
    SOwnInv (sOwnRun ov v c ops) := by
  unfold sOwnRun
  have h0 := sOwnInit_inv ov hd c
  generalize sOwnInit ov c = o at h0
  induction ops generalizing o with
  | nil => exact h0
  | cons op ops ih => exact ih _ (sOwnStep_inv ov hd v c o op h0)

/-- **The stored initial copy is never written and never aliased, SingleSetup** — every history (with or without
    `overwrite_data=True`), whether or not `_detrend_data` forwards the keyword: `_initial_data` is a buffer of its own,
    different from the user's array and from `self.data`, and no call has written into it.
    Hypothesis `deepcopyInit`: `_initialize_data` stores a deep copy (single.py:90; `OwnVariant.current` has it;
    `Mutants.C14Own.noDeepcopy_init_written` is the witness that it is needed). -/
theorem C14_init_never_written_single (ov : OwnVariant) (hd : ov.deepcopyInit = true) (v : Variant) (c : SCfg)
    (ops : List Op) :
    (sOwnRun ov v c ops).initWritten = false ∧
    (sOwnRun ov v c ops).owner (sOwnRun ov v c ops).initId = .init ∧
    (sOwnRun ov v c ops).owner (sOwnRun ov v c ops).dataId ≠ .init := by
  have h := sOwnRun_inv ov hd v c ops
  refine ⟨?_, ?_, ?_⟩
  · simpa [SOwn.initWritten] using h.initNotWritten
  · simp [SOwn.owner, h.initNotUser]
  · unfold SOwn.owner
    split
    · simp
    · simp [h.dataNotInit]

/-- no write at all as long as no accepted in-place call was made. -/
theorem sOwnStep_writes (ov : OwnVariant) (v : Variant) (c : SCfg) (o : SOwn) (op : Op)
    (hop : ov.forwardOverwrite = false ∨ op.overwrites = false) (h : o.writes = []) :
    (sOwnStep ov v c o op).writes = [] := by
  unfold sOwnStep
  cases sStep v c o.st op with
  | error e => exact h
  | ok st' =>
    cases op with
    | detrend kw =>
        have hc : (ov.forwardOverwrite && detInPlace kw) = false := by
          rcases hop with hf | ho
          · simp [hf]
          · simp only [Op.overwrites] at ho
            simp [detInPlace, ho]
        simp [sOwnIds, hc, h]
    | rollback => simp only [sOwnIds, sOwnInitialize]; split <;> simpa using h
    | decimate q kw => simpa [sOwnIds] using h
    | filter wn n bt => simpa [sOwnIds] using h
    | add => simpa [sOwnIds] using h

theorem sOwnRun_writes (ov : OwnVariant) (v : Variant) (c : SCfg) (ops : List Op)
    (hop : ov.forwardOverwrite = false ∨ ∀ op ∈ ops, op.overwrites = false) : (sOwnRun ov v c ops).writes = [] := by
  unfold sOwnRun
  have h0 : (sOwnInit ov c).writes = [] := by unfold sOwnInit sOwnInitialize; split <;> rfl
  generalize sOwnInit ov c = o at h0
  induction ops generalizing o with
  | nil => exact h0
  | cons op ops ih =>
      simp only [List.foldl_cons]
      refine ih ?_ _ (sOwnStep_writes ov v c o op ?_ h0)
      · rcases hop with hf | ho
        · exact .inl hf
        · exact .inr fun op' h' => ho op' (List.mem_cons_of_mem _ h')
      · rcases hop with hf | ho
        · exact .inl hf
        · exact .inr (ho op List.mem_cons_self)

/-- **No write to the user's array or to the initial copy, SingleSetup, today's tree**: a history in which no call
    passes `overwrite_data=True` writes into NO existing buffer (every result is a new array).
    The hypothesis is stronger than the property's premise (`overwrite_data` is a documented scipy keyword): it is
    forced — `C14_overwrite_hits_user_single`. -/
theorem C14_no_write_to_user_or_init_single (ov : OwnVariant) (v : Variant) (c : SCfg) (ops : List Op)
    (hno : ∀ op ∈ ops, op.overwrites = false) :
    (sOwnRun ov v c ops).writes = [] ∧ (sOwnRun ov v c ops).userWritten = false ∧
      (sOwnRun ov v c ops).initWritten = false := by
  have h := sOwnRun_writes ov v c ops (.inr hno)
  simp [SOwn.userWritten, SOwn.initWritten, h]

/-- **… and for EVERY history once `_detrend_data` no longer forwards `overwrite_data`** (`proposed_fixes/fix_g11.diff`):
    the full clause of the property. -/
theorem C14_no_write_repaired_single (v : Variant) (c : SCfg) (ops : List Op) :
    (sOwnRun .repaired v c ops).writes = [] ∧ (sOwnRun .repaired v c ops).userWritten = false ∧
      (sOwnRun .repaired v c ops).initWritten = false := by
  have h := sOwnRun_writes .repaired v c ops (.inl rfl)
  simp [SOwn.userWritten, SOwn.initWritten, h]

example : ∀ op ∈ [Op.detrend {}, .decimate 2 {}, .detrend { overwriteData := some false }, .rollback, .add],
    op.overwrites = false := by decide

/-- **Witness (finding): on today's tree the first call `detrend_data(overwrite_data=True)` writes the USER's array**;
    `data` still is the user's buffer afterwards.  After any accepted decimation the same call is harmless. -/
theorem C14_overwrite_hits_user_single :
    let c : SCfg := ⟨100, 3, 100⟩
    (sOwnRun .current .current c [.detrend { overwriteData := some true }]).userWritten = true ∧
    (sOwnRun .current .current c [.detrend { overwriteData := some true }]).owner
      (sOwnRun .current .current c [.detrend { overwriteData := some true }]).dataId = .user ∧
    (sOwnRun .current .current c [.decimate 2 {}, .detrend { overwriteData := some true }]).userWritten = false ∧
    (sOwnRun .current .current c [.detrend { overwriteData := some true, type := some .constant }]).userWritten = false ∧
    (sOwnRun .repaired .current c [.detrend { overwriteData := some true }]).userWritten = false := by
  decide +kernel

/-- the constructor hands the user's own buffer to `self.data` (and to an algorithm added before any preprocessing);
    after a rollback `data` holds the FORMER initial copy, which is nobody's any more. -/
theorem C14_data_owner_single_examples :
    let c : SCfg := ⟨100, 3, 100⟩
    (sOwnRun .current .current c []).owner (sOwnRun .current .current c []).dataId = .user ∧
    (sOwnRun .current .current c [.add]).boundIds = [0] ∧
    (sOwnRun .current .current c [.rollback]).owner (sOwnRun .current .current c [.rollback]).dataId = .fresh ∧
    (sOwnRun .current .current c [.rollback]).dataId = (sOwnRun .current .current c []).initId := by
  decide +kernel

/-! ## MultiSetup_PreGER -/

structure MOwnInv (k : Nat) (o : MOwn) : Prop where
  dsLt : ∀ i ∈ o.dsIds, i < o.next
  initLt : ∀ i ∈ o.initIds, i < o.next
  writesLt : ∀ w ∈ o.writes, w < o.next
  kLe : k ≤ o.next
  initNotWritten : ∀ i ∈ o.initIds, i ∉ o.writes
  initNotUser : ∀ i ∈ o.initIds, k ≤ i
  dsNotInit : ∀ i ∈ o.dsIds, i ∉ o.initIds

theorem mem_freshIds {n k i : Nat} : i ∈ freshIds n k ↔ n ≤ i ∧ i < n + k := by
  simp [freshIds, List.mem_range'_1]

theorem mOwnInit_inv (ov : OwnVariant) (hd : ov.deepcopyInit = true) (c : MCfg) :
    MOwnInv c.n0.length (mOwnInit ov c) := by
  unfold mOwnInit mOwnInitialize
  simp only [hd, if_true, List.length_range]
  constructor <;> dsimp only
  · intro i hi; simp only [List.mem_range] at hi; omega
  · intro i hi; simp only [mem_freshIds] at hi; omega
  · simp
  · omega
  · simp
  · intro i hi; simp only [mem_freshIds] at hi; omega
  · intro i hi hi'; simp only [List.mem_range] at hi; simp only [mem_freshIds] at hi'; omega

theorem detWritesPrefix_sub (n0 : Nat → Nat) (kw : DetKwIn) (l : List (Term × Nat)) :
    ∀ w ∈ detWritesPrefix n0 kw l, w ∈ l.map Prod.snd := by
  induction l with
  | nil => simp [detWritesPrefix]
  | cons p r ih =>
      obtain ⟨t, id⟩ := p
      intro w hw
      unfold detWritesPrefix at hw
      split at hw
      · simp only [List.mem_cons] at hw
        rcases hw with rfl | hw
        · simp
        · simp only [List.map_cons, List.mem_cons]; exact .inr (ih w hw)
      · simp at hw

theorem mOwnWrites_sub (ov : OwnVariant) (c : MCfg) (o : MOwn) (op : Op) : ∀ w ∈ mOwnWrites ov c o op, w ∈ o.dsIds := by
  intro w hw
  cases op with
  | detrend kw =>
      simp only [mOwnWrites] at hw
      split at hw
      · simp only [List.mem_reverse] at hw
        have := detWritesPrefix_sub _ _ _ w hw
        simp only [List.mem_map] at this
        obtain ⟨p, hp, rfl⟩ := this
        exact (List.of_mem_zip hp).2
      · simp at hw
  | decimate q kw => simp [mOwnWrites] at hw
  | filter wn n bt => simp [mOwnWrites] at hw
  | rollback => simp [mOwnWrites] at hw
  | add => simp [mOwnWrites] at hw

theorem mOwnIds_inv (ov : OwnVariant) (hd : ov.deepcopyInit = true) (k : Nat) (o' : MOwn) (op : Op) (st' : MState)
    (hw : MOwnInv k o') : MOwnInv k { mOwnIds ov o' op with st := st' } := by
  obtain ⟨h1, h2, h3, hk, h4, h5, h6⟩ := hw
  have fresh : MOwnInv k { o' with st := st', dsIds := freshIds o'.next o'.dsIds.length,
                                    next := o'.next + o'.dsIds.length } := by
    refine ⟨?_, ?_, ?_, ?_, h4, h5, ?_⟩ <;> dsimp only
    · intro i hi; simp only [mem_freshIds] at hi; exact hi.2
    · intro i hi; have := h2 i hi; omega
    · intro w hw; have := h3 w hw; omega
    · omega
    · intro i hi hi'; simp only [mem_freshIds] at hi; have := h2 i hi'; omega
  cases op with
  | decimate q kw => simpa [mOwnIds] using fresh
  | filter wn n bt => simpa [mOwnIds] using fresh
  | detrend kw =>
      by_cases hc : (ov.forwardOverwrite && detInPlace kw) = true
      · simp only [mOwnIds, if_pos hc]
        exact ⟨h1, h2, h3, hk, h4, h5, h6⟩
      · simp only [mOwnIds, if_neg hc]
        exact fresh
  | rollback =>
      simp only [mOwnIds, mOwnInitialize, hd, if_true]
      refine ⟨?_, ?_, ?_, ?_, ?_, ?_, ?_⟩ <;> dsimp only
      · intro i hi; have := h2 i hi; omega
      · intro i hi; simp only [mem_freshIds] at hi; exact hi.2
      · intro w hw; have := h3 w hw; omega
      · omega
      · intro i hi hw; simp only [mem_freshIds] at hi; have := h3 i hw; omega
      · intro i hi; simp only [mem_freshIds] at hi; omega
      · intro i hi hi'; simp only [mem_freshIds] at hi'; have := h2 i hi; omega
  | add => exact ⟨h1, h2, h3, hk, h4, h5, h6⟩

theorem mOwnStep_inv (ov : OwnVariant) (hd : ov.deepcopyInit = true) (v : Variant) (c : MCfg) (k : Nat) (o : MOwn)
    (op : Op) (h : MOwnInv k o) : MOwnInv k (mOwnStep ov v c o op) := by
  -- first the writes of this call (they happen whatever the outcome)
  have hw : MOwnInv k { o with writes := mOwnWrites ov c o op ++ o.writes } := by
    obtain ⟨h1, h2, h3, hk, h4, h5, h6⟩ := h
    refine ⟨h1, h2, ?_, hk, ?_, h5, h6⟩
    · intro w hw
      simp only [List.mem_append] at hw
      rcases hw with hw | hw
      · exact h1 w (mOwnWrites_sub ov c o op w hw)
      · exact h3 w hw
    · intro i hi hw
      simp only [List.mem_append] at hw
      rcases hw with hw | hw
      · exact h6 i (mOwnWrites_sub ov c o op i hw) hi
      · exact h4 i hi hw
  unfold mOwnStep
  dsimp only
  cases mStep v c o.st op with
  | error e => exact hw
  | ok st' => exact mOwnIds_inv ov hd k _ op st' hw

theorem mOwnRun_inv (ov : OwnVariant) (hd : ov.deepcopyInit = true) (v : Variant) (c : MCfg) (ops : List Op) :
    MOwnInv c.n0.length (mOwnRun ov v c ops) := by
  unfold mOwnRun
  have h0 := mOwnInit_inv ov hd c
  generalize mOwnInit ov c = o at h0
  induction ops generalizing o with
  | nil => exact h0
  | cons op ops ih => exact ih _ (mOwnStep_inv ov hd v c _ o op h0)

/-- **The stored initial copies are never written and never aliased, PreGER** — every history, including
    `overwrite_data=True` and calls that raise half-way: no buffer of `_initial_datasets` is a user array, is held by
    `datasets`, or has been written. -/
theorem C14_init_never_written_multi (ov : OwnVariant) (hd : ov.deepcopyInit = true) (v : Variant) (c : MCfg)
    (ops : List Op) :
    (mOwnRun ov v c ops).initWritten = false ∧
    (∀ i ∈ (mOwnRun ov v c ops).initIds, (mOwnRun ov v c ops).owner c.n0.length i = .init) ∧
    (∀ i ∈ (mOwnRun ov v c ops).dsIds, (mOwnRun ov v c ops).owner c.n0.length i ≠ .init) := by
  have h := mOwnRun_inv ov hd v c ops
  refine ⟨?_, ?_, ?_⟩
  · simp only [MOwn.initWritten, List.any_eq_false, List.contains_eq_mem, decide_eq_true_eq]
    intro w hw hi
    exact h.initNotWritten w hi hw
  · intro i hi
    have := h.initNotUser i hi
    simp [MOwn.owner, Nat.not_lt.mpr this, hi]
  · intro i hi
    have := h.dsNotInit i hi
    unfold MOwn.owner
    split
    · simp
    · simp [this]

theorem mOwnStep_writes (ov : OwnVariant) (v : Variant) (c : MCfg) (o : MOwn) (op : Op)
    (hop : ov.forwardOverwrite = false ∨ op.overwrites = false) (h : o.writes = []) :
    (mOwnStep ov v c o op).writes = [] := by
  have hw : mOwnWrites ov c o op = [] := by
    cases op with
    | detrend kw =>
        have hc : (ov.forwardOverwrite && detInPlace kw) = false := by
          rcases hop with hf | ho
          · simp [hf]
          · simp only [Op.overwrites] at ho
            simp [detInPlace, ho]
        simp [mOwnWrites, hc]
    | decimate q kw => rfl
    | filter wn n bt => rfl
    | rollback => rfl
    | add => rfl
  unfold mOwnStep
  simp only [hw, h, List.append_nil]
  cases mStep v c o.st op with
  | error e => simp
  | ok st' =>
    cases op with
    | detrend kw => simp only [mOwnIds]; split <;> simp
    | rollback => simp only [mOwnIds, mOwnInitialize]; split <;> simp
    | decimate q kw => simp [mOwnIds]
    | filter wn n bt => simp [mOwnIds]
    | add => simp [mOwnIds]

theorem mOwnRun_writes (ov : OwnVariant) (v : Variant) (c : MCfg) (ops : List Op)
    (hop : ov.forwardOverwrite = false ∨ ∀ op ∈ ops, op.overwrites = false) : (mOwnRun ov v c ops).writes = [] := by
  unfold mOwnRun
  have h0 : (mOwnInit ov c).writes = [] := by unfold mOwnInit mOwnInitialize; simp only; split <;> rfl
  generalize mOwnInit ov c = o at h0
  induction ops generalizing o with
  | nil => exact h0
  | cons op ops ih =>
      simp only [List.foldl_cons]
      refine ih ?_ _ (mOwnStep_writes ov v c o op ?_ h0)
      · rcases hop with hf | ho
        · exact .inl hf
        · exact .inr fun op' h' => ho op' (List.mem_cons_of_mem _ h')
      · rcases hop with hf | ho
        · exact .inl hf
        · exact .inr (ho op List.mem_cons_self)

/-- **No write to the user's arrays or to the initial copies, PreGER, today's tree** (histories without
    `overwrite_data=True`; the hypothesis is forced: `C14_overwrite_hits_user_multi`). -/
theorem C14_no_write_to_user_or_init_multi (ov : OwnVariant) (v : Variant) (c : MCfg) (ops : List Op)
    (hno : ∀ op ∈ ops, op.overwrites = false) :
    (mOwnRun ov v c ops).writes = [] ∧ (mOwnRun ov v c ops).userWritten c.n0.length = false ∧
      (mOwnRun ov v c ops).initWritten = false := by
  have h := mOwnRun_writes ov v c ops (.inr hno)
  simp [MOwn.userWritten, MOwn.initWritten, h]

/-- **… and for every history after `proposed_fixes/fix_g11.diff`.** -/
theorem C14_no_write_repaired_multi (v : Variant) (c : MCfg) (ops : List Op) :
    (mOwnRun .repaired v c ops).writes = [] ∧ (mOwnRun .repaired v c ops).userWritten c.n0.length = false ∧
      (mOwnRun .repaired v c ops).initWritten = false := by
  have h := mOwnRun_writes .repaired v c ops (.inl rfl)
  simp [MOwn.userWritten, MOwn.initWritten, h]

/-- **Witness (finding), PreGER.** On today's tree `detrend_data(overwrite_data=True)` as the first call writes both user
    arrays; with a breakpoint that only the first (longer) record admits the call RAISES (`mRun` unchanged: the model of the
    values says "nothing happened") and has nevertheless written the first user array. -/
theorem C14_overwrite_hits_user_multi :
    let c : MCfg := ⟨[200, 100], [3, 4], 100, [[0], [0]]⟩
    (mOwnRun .current .current c [.detrend { overwriteData := some true }]).writes = [1, 0] ∧
    (mOwnRun .current .current c [.detrend { overwriteData := some true, bp := some [150] }]).writes = [0] ∧
    mStep .current c (mInit c) (.detrend { overwriteData := some true, bp := some [150] }) = .error .valueError ∧
    (mOwnRun .current .current c [.filter (.one 10) 4 .lowpass, .detrend { overwriteData := some true }]).userWritten 2
      = false ∧
    (mOwnRun .repaired .current c [.detrend { overwriteData := some true, bp := some [150] }]).writes = [] := by
  decide +kernel

end PV.C14
