import PyomaVerif.Model.Wiring
/-!
# Wiring of the class plot methods (C20): which result field and which of `ordmin / ordmax / step / freqlim /
hide_poles / nSv` every parameter of `plot.stab_plot`, `plot.cluster_plot`, `plot.CMIF_plot` receives.
The rows are regenerated from /repo on every run; which classes share these bodies is `WiringClass.C20_plot_inherited`.
-/
namespace PV.WiringPlot
open PV.Wiring

/-- **C20, stabilisation diagram.** the SSI classes hand the WHOLE stored frequency table and label table (no slice,
    no mask), the run's `step / ordmax / ordmin`, the caller's `freqlim` and `hide_poles`, and the stored frequency
    covariances; pLSCF the same with the literal `step = 1` (its columns are orders 1..ordmax) and no covariance;
    nothing else is passed and the axes are created by the plot function (`fig = ax = None`). -/
theorem C20_plot_stab_wiring :
    args "SSIdat" "plot_stab" "plot.stab_plot"
      [("Fn", "self.result.Fn_poles"), ("Lab", "self.result.Lab"), ("step", "self.run_params.step"),
       ("ordmax", "self.run_params.ordmax"), ("ordmin", "self.run_params.ordmin"), ("freqlim", "freqlim"),
       ("hide_poles", "hide_poles"), ("fig", "None"), ("ax", "None"), ("Fn_cov", "self.result.Fn_poles_cov")] = true
    ∧ onlyParams "SSIdat" "plot_stab" "plot.stab_plot"
      ["Fn", "Lab", "step", "ordmax", "ordmin", "freqlim", "hide_poles", "fig", "ax", "Fn_cov"] = true
    ∧ args "pLSCF" "plot_stab" "plot.stab_plot"
      [("Fn", "self.result.Fn_poles"), ("Lab", "self.result.Lab"), ("step", "1"),
       ("ordmax", "self.run_params.ordmax"), ("ordmin", "self.run_params.ordmin"), ("freqlim", "freqlim"),
       ("hide_poles", "hide_poles"), ("fig", "None"), ("ax", "None")] = true
    ∧ onlyParams "pLSCF" "plot_stab" "plot.stab_plot"
      ["Fn", "Lab", "step", "ordmax", "ordmin", "freqlim", "hide_poles", "fig", "ax"] = true := by
  decide

/-- **C20, cluster diagram.** both families hand the whole stored frequency, damping (as `Xi`) and label tables, the
    run's `ordmin`, the caller's `freqlim` and `hide_poles`; nothing else. -/
theorem C20_plot_cluster_wiring :
    (["SSIdat", "pLSCF"].all fun c =>
      args c "plot_cluster" "plot.cluster_plot"
        [("Fn", "self.result.Fn_poles"), ("Xi", "self.result.Xi_poles"), ("Lab", "self.result.Lab"),
         ("ordmin", "self.run_params.ordmin"), ("freqlim", "freqlim"), ("hide_poles", "hide_poles")]
      && onlyParams c "plot_cluster" "plot.cluster_plot" ["Fn", "Xi", "Lab", "ordmin", "freqlim", "hide_poles"]) = true := by
  decide

/-- **C20, CMIF.** `plot_CMIF` hands the stored singular values and frequency grid and the caller's `freqlim`, `nSv`. -/
theorem C20_plot_cmif_wiring :
    args "FDD" "plot_CMIF" "plot.CMIF_plot"
      [("S_val", "self.result.S_val"), ("freq", "self.result.freq"), ("freqlim", "freqlim"), ("nSv", "nSv")] = true
    ∧ onlyParams "FDD" "plot_CMIF" "plot.CMIF_plot" ["S_val", "freq", "freqlim", "nSv"] = true := by
  decide

/-- the plot methods store nothing in the result / run parameters. -/
theorem C20_plot_stores_nothing :
    (["SSIdat", "pLSCF", "FDD"].all fun c =>
      ["plot_stab", "plot_cluster", "plot_CMIF"].all fun m => (storesOf c m).isEmpty) = true := by
  decide

end PV.WiringPlot
