import PyomaVerif.Props.C03Table
import PyomaVerif.Props.C03Stored
import PyomaVerif.Props.C01StoredTable
/-!
# C03 — multi-setup pole table JOINED with the stored tables: `ssiPoles` ∘ `run()`

`Props/C03Stored.lean` (`C03_stored`) takes the unfiltered tables from the old table model (`ssiRaw`) and assumes
the order-`n` column (`hfill : OrderFilled`).  Here the unfiltered solution is `Poles.rawOf T` for the tables `T`
the executable model `ssiPoles` returns on the lists of `SSI_multi_setup` (`fastLists` with `Obs_all`, `n_DOF`).

* `C03_stored_table` — from the `Conclusion` of the multi-setup chain (for the mode and for its conjugate) to
  `StoredMode`: the stored `Fn_poles / Xi_poles / Phi_poles / Lambds` of every class program hold the global mode
  (global shape `C_g[order]·w` over all sensors) at `(k, n)`; extraction from the stored table returns it.
* `C03_e2e_cov_stored_table`, `C03_e2e_dat_stored_table` — closed from the per-setup records (hypotheses of
  `C03_e2e_cov` / `C03_e2e_dat`); the conjugate's `Conclusion` is derived from `Mode.conj`.
-/
namespace PV.C03StoredTable
open PV PV.Mat PV.Cov PV.Hc PV.HcFn PV.C09 PV.C09C18 PV.C09All PV.Stored PV.C09Stored PV.FreeVib PV.C11
open PV.MsFreeVib PV.Multi PV.C01E2E PV.C03C11 PV.C03E2E PV.Poles PV.C01Table PV.C03Table PV.C01StoredTable Matrix

/-- **C03_stored_table.**  `hcon`, `hconc`: the conclusions of `C03_e2e_core / _cov / _dat` for the mode and for
    its conjugate (same records); eigen-record `e` of the `ac2mp` call for order `n` (`recs[n−1] = e`, `n` values of
    `λ_c`, `|λ_c|`), no record longer than `N`; `hlog`: the `np.log` contract (conjugate discrete poles get
    conjugate recorded `λ_c`); on the mode: stored damping in `(0, xi_max)`, MPC / MPD of the true GLOBAL shape
    within the limits.  No hypothesis on the content of a column. -/
theorem C03_stored_table {n : ℕ} (A : Matrix (Fin n) (Fin n) ℚ) (Cg : ℕ → Fin n → ℚ) (br N : ℕ)
    (refIds : List ℕ) (movIds : List (List ℕ)) (hne : movIds ≠ [])
    (U : ℕ → Mat ℚ) (S sq : ℕ → ℕ → ℚ) (P : ℕ → Mat ℚ) (Q : Mat ℚ) (Rinvs : ℕ → Mat ℚ)
    (e : EigRec) (dt : ℝ) (lam : Cpx ℚ) (w : Fin n → Cpx ℚ) (mu : ℂ)
    (hcon : Conclusion A Cg br N refIds movIds U S sq P Q (Rinvs n) e.V (lamsOf e) dt lam w mu)
    (w' : Fin n → Cpx ℚ) (mu' : ℂ)
    (hconc : Conclusion A Cg br N refIds movIds U S sq P Q (Rinvs n) e.V (lamsOf e) dt (Cpx.conj lam) w' mu')
    (recs : List EigRec) (twoPi : ℚ) (hn1 : 1 ≤ n) (hrecs : recs[n - 1]? = some e)
    (hlc : e.lamc.length = n) (hla : e.absc.length = n)
    (hwf : ∀ k, k < N → (recs.getD k EigRec.empty).absc.length ≤ N)
    (hlog : ∀ j j', j < n → j' < n → lamsOf e j' = Cpx.conj (lamsOf e j) →
      e.lamc.getD j' 0 = Cpx.conj (e.lamc.getD j 0))
    (cl : ClassSpec) (hcl : cl ∈ classes) (conjOn : Bool) (xiMax mpcLim mpdLim covMax : ℚ)
    (dir : Nat → (Nat → Cx Rat) → ℝ × ℝ)
    (hdamp : ∀ k, k < n → lamsOf e k = lam →
      0 < xiOf (e.lamc.getD k 0) (e.absc.getD k 0) ∧ xiOf (e.lamc.getD k 0) (e.absc.getD k 0) < xiMax)
    (hshape : ShapeOk dir mpcLim mpdLim
      ((normalise (trueShape (msC Cg (orderOf refIds movIds)) (nDof refIds movIds) w)).map C01Stored.cx)) :
    ∃ T, ssiPoles ⟨(fastLists Rinvs Q (obsAllOf br N refIds movIds U sq P) (nDof refIds movIds) N 1).1,
          (fastLists Rinvs Q (obsAllOf br N refIds movIds U sq P) (nDof refIds movIds) N 1).2, N, 1, recs,
          twoPi, none⟩ = .ok T
      ∧ ModeInTable (msC Cg (orderOf refIds movIds)) (nDof refIds movIds) dt lam w mu e twoPi T
      ∧ ∃ k, k < n ∧ lamsOf e k = lam ∧
        StoredMode ((rawOf T).params N (N + 1) xiMax mpcLim mpdLim covMax dir) cl conjOn N (N + 1) k n
          (fnOf (e.absc.getD k 0) twoPi) (xiOf (e.lamc.getD k 0) (e.absc.getD k 0))
          ((normalise (trueShape (msC Cg (orderOf refIds movIds)) (nDof refIds movIds) w)).map C01Stored.cx)
          (C01Stored.cx (e.lamc.getD k 0)) := by
  obtain ⟨T, hT, _, _, hmode⟩ := C03_e2e_table A Cg br N refIds movIds hne U S sq P Q Rinvs e dt lam w mu hcon
    recs twoPi hn1 hrecs hlc hla hwf
  obtain ⟨T', hT', _, _, hmodec⟩ := C03_e2e_table A Cg br N refIds movIds hne U S sq P Q Rinvs e dt _ w' mu' hconc
    recs twoPi hn1 hrecs hlc hla hwf
  rw [hT] at hT'
  obtain rfl : T = T' := by injection hT'
  obtain ⟨m0, h0⟩ : ∃ m0, movIds[0]? = some m0 := by
    cases hmov : movIds with
    | nil => exact absurd hmov hne
    | cons x xs => exact ⟨x, rfl⟩
  have hnN : n ≤ N := (hcon.1 0 m0 h0).1
  refine ⟨T, hT, hmode, ?_⟩
  exact C01_stored_of_table _ (nDof refIds movIds) dt lam w mu e twoPi _ T hT rfl hnN
    (fast_phi_d Rinvs Q _ (nDof refIds movIds) N recs twoPi none T hT) hmode _ w' mu' rfl hmodec hlog cl hcl
    conjOn xiMax mpcLim mpdLim covMax dir hdamp hshape

/-- **C03_e2e_cov_stored_table — multi-setup covariance-driven SSI, from the per-setup records to the stored
    tables** (hypotheses of `C03_e2e_cov` with the inverse `Rinvs n` of order `n` and the eigen-record `e`). -/
theorem C03_e2e_cov_stored_table {n : ℕ} (A : Matrix (Fin n) (Fin n) ℚ) (Cg : ℕ → Fin n → ℚ) (br N : ℕ)
    (hbr : 1 ≤ br) (refIds : List ℕ) (movIds : List (List ℕ)) (href : 0 < refIds.length) (hne : movIds ≠ [])
    (g : ℕ → ℚ) (x0 : ℕ → Fin n → ℚ) (Y : ℕ → Mat ℚ) (s : ℕ → ℚ) (U V P : ℕ → Mat ℚ) (S sq : ℕ → ℕ → ℚ)
    (hset : ∀ i mi, movIds[i]? = some mi →
      CovSetup A Cg br N refIds mi (g i) (x0 i) (Y i) (s i) (U i) (V i) (S i) (sq i) (P i))
    (Olr : Matrix (Fin n) (Fin (br * refIds.length)) ℚ)
    (hObsR : Olr * obsMx (br * refIds.length) refIds.length A (msC Cg refIds) = 1)
    (Olg : Matrix (Fin n) (Fin ((br - 1) * nDof refIds movIds)) ℚ)
    (hObsG : Olg * obsMx ((br - 1) * nDof refIds movIds) (nDof refIds movIds) A
      (msC Cg (orderOf refIds movIds)) = 1)
    (Q R : Mat ℚ) (Rinvs : ℕ → Mat ℚ)
    (hqr : QrC (upPart (obsAllOf br N refIds movIds U sq P) (nDof refIds movIds)) Q R (Rinvs n)
      ((br - 1) * nDof refIds movIds) N n)
    (e : EigRec)
    (heig : EigOf n (fastA (Rinvs n) Q (dnPart (obsAllOf br N refIds movIds U sq P) (nDof refIds movIds)) n)
      e.V (lamsOf e))
    (dt : ℝ) (hdt : 0 < dt) (lam : Cpx ℚ) (w : Fin n → Cpx ℚ) (mu : ℂ) (hm : Mode A dt lam w mu)
    (recs : List EigRec) (twoPi : ℚ) (hn1 : 1 ≤ n) (hrecs : recs[n - 1]? = some e)
    (hlc : e.lamc.length = n) (hla : e.absc.length = n)
    (hwf : ∀ k, k < N → (recs.getD k EigRec.empty).absc.length ≤ N)
    (hlog : ∀ j j', j < n → j' < n → lamsOf e j' = Cpx.conj (lamsOf e j) →
      e.lamc.getD j' 0 = Cpx.conj (e.lamc.getD j 0))
    (cl : ClassSpec) (hcl : cl ∈ classes) (conjOn : Bool) (xiMax mpcLim mpdLim covMax : ℚ)
    (dir : Nat → (Nat → Cx Rat) → ℝ × ℝ)
    (hdamp : ∀ k, k < n → lamsOf e k = lam →
      0 < xiOf (e.lamc.getD k 0) (e.absc.getD k 0) ∧ xiOf (e.lamc.getD k 0) (e.absc.getD k 0) < xiMax)
    (hshape : ShapeOk dir mpcLim mpdLim
      ((normalise (trueShape (msC Cg (orderOf refIds movIds)) (nDof refIds movIds) w)).map C01Stored.cx)) :
    ∃ T, ssiPoles ⟨(fastLists Rinvs Q (obsAllOf br N refIds movIds U sq P) (nDof refIds movIds) N 1).1,
          (fastLists Rinvs Q (obsAllOf br N refIds movIds U sq P) (nDof refIds movIds) N 1).2, N, 1, recs,
          twoPi, none⟩ = .ok T
      ∧ ModeInTable (msC Cg (orderOf refIds movIds)) (nDof refIds movIds) dt lam w mu e twoPi T
      ∧ ∃ k, k < n ∧ lamsOf e k = lam ∧
        StoredMode ((rawOf T).params N (N + 1) xiMax mpcLim mpdLim covMax dir) cl conjOn N (N + 1) k n
          (fnOf (e.absc.getD k 0) twoPi) (xiOf (e.lamc.getD k 0) (e.absc.getD k 0))
          ((normalise (trueShape (msC Cg (orderOf refIds movIds)) (nDof refIds movIds) w)).map C01Stored.cx)
          (C01Stored.cx (e.lamc.getD k 0)) :=
  C03_stored_table A Cg br N refIds movIds hne U S sq P Q Rinvs e dt lam w mu
    (C03_e2e_cov A Cg br N hbr refIds movIds href hne g x0 Y s U V P S sq hset Olr hObsR Olg hObsG Q R (Rinvs n) hqr
      e.V (lamsOf e) heig dt hdt lam w mu hm) _ _
    (C03_e2e_cov A Cg br N hbr refIds movIds href hne g x0 Y s U V P S sq hset Olr hObsR Olg hObsG Q R (Rinvs n) hqr
      e.V (lamsOf e) heig dt hdt _ _ _ hm.conj)
    recs twoPi hn1 hrecs hlc hla hwf hlog cl hcl conjOn xiMax mpcLim mpdLim covMax dir hdamp hshape

/-- **C03_e2e_dat_stored_table — the same for the data-driven Hankel matrices** (hypotheses of `C03_e2e_dat`). -/
theorem C03_e2e_dat_stored_table {n : ℕ} (A : Matrix (Fin n) (Fin n) ℚ) (Cg : ℕ → Fin n → ℚ) (br N : ℕ)
    (hbr : 1 ≤ br) (refIds : List ℕ) (movIds : List (List ℕ)) (href : 0 < refIds.length) (hne : movIds ≠ [])
    (g : ℕ → ℚ) (x0 : ℕ → Fin n → ℚ) (Y : ℕ → Mat ℚ) (s : ℕ → ℚ) (Rf U V P : ℕ → Mat ℚ) (S sq : ℕ → ℕ → ℚ)
    (hset : ∀ i mi, movIds[i]? = some mi →
      DatSetup A Cg br N refIds mi (g i) (x0 i) (Y i) (s i) (Rf i) (U i) (V i) (S i) (sq i) (P i))
    (Olr : Matrix (Fin n) (Fin (br * refIds.length)) ℚ)
    (hObsR : Olr * obsMx (br * refIds.length) refIds.length A (msC Cg refIds) = 1)
    (Olg : Matrix (Fin n) (Fin ((br - 1) * nDof refIds movIds)) ℚ)
    (hObsG : Olg * obsMx ((br - 1) * nDof refIds movIds) (nDof refIds movIds) A
      (msC Cg (orderOf refIds movIds)) = 1)
    (Q R : Mat ℚ) (Rinvs : ℕ → Mat ℚ)
    (hqr : QrC (upPart (obsAllOf br N refIds movIds U sq P) (nDof refIds movIds)) Q R (Rinvs n)
      ((br - 1) * nDof refIds movIds) N n)
    (e : EigRec)
    (heig : EigOf n (fastA (Rinvs n) Q (dnPart (obsAllOf br N refIds movIds U sq P) (nDof refIds movIds)) n)
      e.V (lamsOf e))
    (dt : ℝ) (hdt : 0 < dt) (lam : Cpx ℚ) (w : Fin n → Cpx ℚ) (mu : ℂ) (hm : Mode A dt lam w mu)
    (recs : List EigRec) (twoPi : ℚ) (hn1 : 1 ≤ n) (hrecs : recs[n - 1]? = some e)
    (hlc : e.lamc.length = n) (hla : e.absc.length = n)
    (hwf : ∀ k, k < N → (recs.getD k EigRec.empty).absc.length ≤ N)
    (hlog : ∀ j j', j < n → j' < n → lamsOf e j' = Cpx.conj (lamsOf e j) →
      e.lamc.getD j' 0 = Cpx.conj (e.lamc.getD j 0))
    (cl : ClassSpec) (hcl : cl ∈ classes) (conjOn : Bool) (xiMax mpcLim mpdLim covMax : ℚ)
    (dir : Nat → (Nat → Cx Rat) → ℝ × ℝ)
    (hdamp : ∀ k, k < n → lamsOf e k = lam →
      0 < xiOf (e.lamc.getD k 0) (e.absc.getD k 0) ∧ xiOf (e.lamc.getD k 0) (e.absc.getD k 0) < xiMax)
    (hshape : ShapeOk dir mpcLim mpdLim
      ((normalise (trueShape (msC Cg (orderOf refIds movIds)) (nDof refIds movIds) w)).map C01Stored.cx)) :
    ∃ T, ssiPoles ⟨(fastLists Rinvs Q (obsAllOf br N refIds movIds U sq P) (nDof refIds movIds) N 1).1,
          (fastLists Rinvs Q (obsAllOf br N refIds movIds U sq P) (nDof refIds movIds) N 1).2, N, 1, recs,
          twoPi, none⟩ = .ok T
      ∧ ModeInTable (msC Cg (orderOf refIds movIds)) (nDof refIds movIds) dt lam w mu e twoPi T
      ∧ ∃ k, k < n ∧ lamsOf e k = lam ∧
        StoredMode ((rawOf T).params N (N + 1) xiMax mpcLim mpdLim covMax dir) cl conjOn N (N + 1) k n
          (fnOf (e.absc.getD k 0) twoPi) (xiOf (e.lamc.getD k 0) (e.absc.getD k 0))
          ((normalise (trueShape (msC Cg (orderOf refIds movIds)) (nDof refIds movIds) w)).map C01Stored.cx)
          (C01Stored.cx (e.lamc.getD k 0)) :=
  C03_stored_table A Cg br N refIds movIds hne U S sq P Q Rinvs e dt lam w mu
    (C03_e2e_dat A Cg br N hbr refIds movIds href hne g x0 Y s Rf U V P S sq hset Olr hObsR Olg hObsG Q R (Rinvs n)
      hqr e.V (lamsOf e) heig dt hdt lam w mu hm) _ _
    (C03_e2e_dat A Cg br N hbr refIds movIds href hne g x0 Y s Rf U V P S sq hset Olr hObsR Olg hObsG Q R (Rinvs n)
      hqr e.V (lamsOf e) heig dt hdt _ _ _ hm.conj)
    recs twoPi hn1 hrecs hlc hla hwf hlog cl hcl conjOn xiMax mpcLim mpdLim covMax dir hdamp hshape

/-! ## Non-vacuity: the two-setup instance of `Props/C03E2E.lean` (`Ex`, `cov_mm`) with the eigen-records of
`Props/C01Table.lean` (`ExDat.e1`, `e2`: `λ_c = ±157i`... damping `0`) does NOT pass `0 < ξ`; records with
`λ_c = −1 ± 157i`, `|λ_c| = 157` are used instead (any rationals serve: they are records). -/
namespace Ex
open PV.C03E2E.Ex

def e1 : EigRec := C01Table.ExDat.e1
def e2 : EigRec :=
  ⟨[⟨0, 1⟩, ⟨0, -1⟩], C01E2E.ExDat.Vec, C01E2E.ExDat.Vec, [⟨-1, 157⟩, ⟨-1, -157⟩], [157, 157], [1, 1]⟩

theorem hlog : ∀ j j', j < 2 → j' < 2 → lamsOf e2 j' = Cpx.conj (lamsOf e2 j) →
    e2.lamc.getD j' 0 = Cpx.conj (e2.lamc.getD j 0) := by
  intro j j' hj hj'
  obtain rfl | rfl : j = 0 ∨ j = 1 := by omega
  all_goals (obtain rfl | rfl : j' = 0 ∨ j' = 1 := by omega) <;> decide +kernel

/-- every hypothesis of `C03_e2e_cov_stored_table` holds jointly (conjugate criterion on, `xi_max = 1/10`,
    `mpc_lim = 1/2`, `mpd_lim = 2`) -/
theorem stored (cl : ClassSpec) (hcl : cl ∈ classes) :
    ∃ T, ssiPoles ⟨(fastLists (fun _ => Rinv) Q (obsAllOf 3 2 refIds movIds U sq P) (nDof refIds movIds) 2 1).1,
          (fastLists (fun _ => Rinv) Q (obsAllOf 3 2 refIds movIds U sq P) (nDof refIds movIds) 2 1).2, 2, 1,
          [e1, e2], 157 / 25, none⟩ = .ok T
      ∧ ModeInTable (msC Cg (orderOf refIds movIds)) (nDof refIds movIds) (1 / 100) C01E2E.ExDat.lam
          C01E2E.ExDat.w C01E2E.ExDat.mu e2 (157 / 25) T
      ∧ ∃ k, k < 2 ∧ lamsOf e2 k = C01E2E.ExDat.lam ∧
        StoredMode ((rawOf T).params 2 (2 + 1) (1 / 10) (1 / 2) 2 1 (fun _ _ => (1, -1))) cl true 2 (2 + 1) k 2
          (fnOf (e2.absc.getD k 0) (157 / 25)) (xiOf (e2.lamc.getD k 0) (e2.absc.getD k 0))
          ((normalise (trueShape (msC Cg (orderOf refIds movIds)) (nDof refIds movIds) C01E2E.ExDat.w)).map
            C01Stored.cx) (C01Stored.cx (e2.lamc.getD k 0)) :=
  C03_e2e_cov_stored_table A Cg 3 2 (by decide) refIds movIds (by decide) (by decide) g x0 Y (fun _ => 1) U
    (fun _ => V0) P S sq hset Olr hObsR Olg hObsG Q R (fun _ => Rinv) hqr e2
    (eigOf_congr (C01E2E.ExDat.eig_of _ (by decide +kernel)) (fun k hk => by
      obtain rfl | rfl : k = 0 ∨ k = 1 := by omega
      all_goals rfl))
    (1 / 100) (by norm_num) _ _ _ C01E2E.ExDat.mode [e1, e2] (157 / 25) (by decide) rfl rfl rfl
    (fun k hk => by
      obtain rfl | rfl : k = 0 ∨ k = 1 := by omega
      all_goals decide)
    hlog cl hcl true (1 / 10) (1 / 2) 2 1 (fun _ _ => (1, -1))
    (fun k hk _ => by
      obtain rfl | rfl : k = 0 ∨ k = 1 := by omega
      all_goals decide +kernel)
    C03Stored.Ex.shapeOk

end Ex

end PV.C03StoredTable
