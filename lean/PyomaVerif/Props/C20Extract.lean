import PyomaVerif.Props.C20
import PyomaVerif.Props.C11
import PyomaVerif.Lemmas.MpeSelf
/-!
# C20 ∘ C11 — the ordinate of a marker is the order accepted by modal-parameter extraction

Clause "one stable marker at (frequency, model-order value accepted by modal-parameter extraction for that
pole)" of C20, stated over the extraction models of C11 (`PV.ssiMpe`, `PV.plscfMpe`, `order` an `int` — the
models the C11 correspondence compares with `ssi.SSI_mpe` / `plscf.pLSCF_mpe`) and the marker model
`Plot.stabXY` / `Plot.stabMarkers` of `stab_plot`, for every table size, NaN pattern, label table, damping /
mode-shape / covariance table and `rtol ≥ 0`.

`stab_plot` draws column `c` at height `c·step`; the extraction routines index columns.  So the `order` value
for which extraction returns the pole of a marker `(x, y)` is `c = y / step`; it is the ordinate itself
exactly for `step = 1` (the only value the classes can use: `pLSCF.plot_stab` and `SelFromPlot` hard-code 1,
the SSI classes raise for any other) — `C20_stab_order_mpe_partial`; for `step ≠ 1` the clause is false
(`C20_stab_order_step_counterexample`, known finding `stab-order-step`).
-/
namespace PV.C20
open PV PV.Plot

/-- a drawn marker is a labelled, retained cell of the table: `(x, y) = (Fn[r, c], c·step)` -/
theorem marker_cell (Fn : Mat NR) (Lab : Mat Int) (step : Nat) (v : Int) (x : Rat) (y : Nat)
    (h : (x, y) ∈ finiteX (stabXY Fn Lab step v)) :
    ∃ c r, y = c * step ∧ c < Fn.c ∧ r < Fn.r ∧ Fn.e r c = some x ∧ Lab.e r c = v := by
  rw [C20_stab_label] at h
  unfold stabSpec at h
  obtain ⟨c, hc, h⟩ := List.mem_flatMap.mp h
  obtain ⟨r, hr, h⟩ := List.mem_filterMap.mp h
  have hc' := List.mem_range.mp hc
  have hr' := List.mem_range.mp hr
  by_cases hl : Lab.e r c = v
  · rw [if_pos hl] at h
    cases hf : Fn.e r c with
    | none => rw [hf] at h; simp at h
    | some z =>
      rw [hf] at h
      simp only [Option.map_some, Option.some.injEq, Prod.mk.injEq] at h
      obtain ⟨h1, h2⟩ := h
      subst h1
      exact ⟨c, r, h2.symm, hc', hr', hf, hl⟩
  · rw [if_neg hl] at h; simp at h

/-- conversely every retained cell labelled `v` has its marker at `(Fn[r, c], c·step)` -/
theorem cell_marker (Fn : Mat NR) (Lab : Mat Int) (step : Nat) (v : Int) (x : Rat) (r c : Nat)
    (hr : r < Fn.r) (hc : c < Fn.c) (hx : Fn.e r c = some x) (hl : Lab.e r c = v) :
    (x, c * step) ∈ finiteX (stabXY Fn Lab step v) := by
  rw [C20_stab_label]
  unfold stabSpec
  refine List.mem_flatMap.mpr ⟨c, List.mem_range.mpr hc, List.mem_filterMap.mpr ⟨r, List.mem_range.mpr hr, ?_⟩⟩
  simp [hl, hx]

/-- **Ordinate = `step` × the order accepted by extraction** (any `step`). For every drawn marker `(x, y)` of
    label `v` there is an order column `c` with `y = c·step` holding a pole of frequency `x` labelled `v`, and
    both `SSI_mpe` and `pLSCF_mpe` called with `order = c` for the frequency `x` return exactly that pole:
    `Fn = [x]`, `order_out = c`, and damping, shape and covariances of the cell `(r₀, c)`, `r₀` the first row of
    column `c` holding `x` (`r₀ ≤ r`; the marker's own row if the column holds `x` only once). -/
theorem C20_stab_order_mpe_step (Fn Xi : Mat NR) (Phi : Ten3 (Option CQ)) (Lab : Mat Int) (L : Option (Mat Int))
    (deltaf rtol : Rat) (hr : 0 ≤ rtol) (cov : Option MpeCov) (step : Nat) (v : Int) (x : Rat) (y : Nat)
    (h : (x, y) ∈ finiteX (stabXY Fn Lab step v)) :
    ∃ c r, y = c * step ∧ c < Fn.c ∧ r < Fn.r ∧ Fn.e r c = some x ∧ Lab.e r c = v ∧
      hitRow Fn x c ≤ r ∧ FirstRowOf Fn x c (hitRow Fn x c) ∧
      ssiMpe [x] Fn Xi Phi (.int c) L rtol cov = .ok ⟨accOfCells Fn Xi Phi cov [(hitRow Fn x c, c)], .int c⟩ ∧
      plscfMpe [x] Fn Xi Phi (.int c) L deltaf rtol
        = .ok ⟨accOfCells Fn Xi Phi none [(hitRow Fn x c, c)], .int c⟩ ∧
      (accOfCells Fn Xi Phi cov [(hitRow Fn x c, c)]).fn = [some x] := by
  obtain ⟨c, r, hy, hc, hrr, hx, hl⟩ := marker_cell Fn Lab step v x y h
  have hp : PoleAt Fn (x, c) := ⟨hc, r, hrr, hx⟩
  obtain ⟨-, hfr⟩ := hitRow_of_mem Fn x c ⟨r, hrr, hx⟩
  refine ⟨c, r, hy, hc, hrr, hx, hl, hitRow_le Fn x c r hrr hx, hfr,
    ssiMpe_int_of_pole Fn Xi Phi L rtol hr cov x c hp, plscfMpe_int_of_pole Fn Xi Phi L deltaf rtol hr x c hp, ?_⟩
  simp [accOfCells, hfr.2.1]

/-- **Ordinate = order accepted by extraction, `step = 1`.** For every drawn marker `(x, y)` of label `v`
    (stable: `v = 1`), `SSI_mpe` / `pLSCF_mpe` called with `order = y` — the ordinate — for the frequency `x`
    return that pole: `Fn = [x]`, `order_out = y`, everything else from the cell `(r₀, y)` with
    `Fn[r₀, y] = x`; and a pole of column `y` with frequency `x` carries the label `v`.
    *Partial*: for `step ≠ 1` the statement is false (`C20_stab_order_step_counterexample`); what holds for
    every `step` is `C20_stab_order_mpe_step`. -/
theorem C20_stab_order_mpe_partial (Fn Xi : Mat NR) (Phi : Ten3 (Option CQ)) (Lab : Mat Int) (L : Option (Mat Int))
    (deltaf rtol : Rat) (hr : 0 ≤ rtol) (cov : Option MpeCov) (v : Int) (x : Rat) (y : Nat)
    (h : (x, y) ∈ finiteX (stabXY Fn Lab 1 v)) :
    (∃ r, r < Fn.r ∧ Fn.e r y = some x ∧ Lab.e r y = v ∧ hitRow Fn x y ≤ r) ∧
      FirstRowOf Fn x y (hitRow Fn x y) ∧
      ssiMpe [x] Fn Xi Phi (.int y) L rtol cov = .ok ⟨accOfCells Fn Xi Phi cov [(hitRow Fn x y, y)], .int y⟩ ∧
      plscfMpe [x] Fn Xi Phi (.int y) L deltaf rtol
        = .ok ⟨accOfCells Fn Xi Phi none [(hitRow Fn x y, y)], .int y⟩ ∧
      (accOfCells Fn Xi Phi cov [(hitRow Fn x y, y)]).fn = [some x] := by
  obtain ⟨c, r, hy, -, hrr, hx, hl, hle, hfr, h1, h2, h3⟩ :=
    C20_stab_order_mpe_step Fn Xi Phi Lab L deltaf rtol hr cov 1 v x y h
  rw [Nat.mul_one] at hy
  subst hy
  exact ⟨⟨r, hrr, hx, hl, hle⟩, hfr, h1, h2, h3⟩

/-- the stable markers of the whole chart (`stab_plot`, either `hide_poles`, with or without covariances):
    the ordinate of every stable marker is the `order` for which extraction returns `[x]`. -/
theorem C20_stab_stable_order_mpe (Fn Xi : Mat NR) (Phi : Ten3 (Option CQ)) (Lab : Mat Int) (L : Option (Mat Int))
    (rtol : Rat) (hr : 0 ≤ rtol) (cov : Option MpeCov) (hide : Bool) (FnCov : Option (Mat (Option Rat)))
    (x : Rat) (y : Nat) (h : (x, y) ∈ finiteX (stabMarkers Fn Lab 1 hide FnCov).stable) :
    ∃ out, ssiMpe [x] Fn Xi Phi (.int y) L rtol cov = .ok out ∧ out.acc.fn = [some x] ∧ out.orderOut = .int y := by
  rw [(C20_stab Fn Lab 1 hide FnCov).1, ← C20_stab_label] at h
  obtain ⟨-, -, h1, -, h3⟩ := C20_stab_order_mpe_partial Fn Xi Phi Lab L 0 rtol hr cov 1 x y h
  exact ⟨_, h1, h3, rfl⟩

/-- the hypothesis `step = 1` is necessary: a 1×3 table, `step = 2`; the pole 5 of column 1 is drawn at
    height 2, and extraction at `order = 2` for the frequency 5 finds the pole 7 there and returns nothing. -/
theorem C20_stab_order_step_counterexample :
    let Fn : Mat NR := ⟨1, 3, fun _ c => if c = 0 then none else if c = 1 then some 5 else some 7⟩
    let Xi : Mat NR := ⟨1, 3, fun _ _ => some (1 / 100)⟩
    let Phi : Ten3 (Option CQ) := ⟨1, 3, 1, fun _ _ _ => some (1, 0)⟩
    let Lab : Mat Int := ⟨1, 3, fun _ _ => 1⟩
    (5, 2) ∈ finiteX (stabXY Fn Lab 2 1) ∧
      C11.outSummary (ssiMpe [5] Fn Xi Phi (.int 2) none (1 / 100) none) = some ([], [], .int 2) ∧
      C11.outSummary (ssiMpe [5] Fn Xi Phi (.int 1) none (1 / 100) none) = some ([some 5], [some (1 / 100)], .int 1) := by
  decide +kernel

/-! ### Non-vacuity -/
def exFnQ : Mat NR := ⟨2, 3, fun r c => if r = 1 ∧ c = 0 then none else some (10 * (c : Rat) + r)⟩
def exXiQ : Mat NR := ⟨2, 3, fun r c => some ((1 + (c : Rat) + 3 * r) / 100)⟩
def exPhiQ : Ten3 (Option CQ) := ⟨2, 3, 1, fun r c _ => some ((r : Rat), (c : Rat))⟩
example : (11, 2) ∈ finiteX (stabXY exFnQ exLab 2 1) ∧ (11, 1) ∈ finiteX (stabXY exFnQ exLab 1 1)
    ∧ (11, 1) ∈ finiteX (stabMarkers exFnQ exLab 1 true none).stable ∧ (0 : Rat) ≤ 1 / 100 := by decide +kernel
example : C11.outSummary (ssiMpe [11] exFnQ exXiQ exPhiQ (.int 1) none (1 / 100) none)
    = some ([some 11], [some (1 / 20)], .int 1) := by decide +kernel
example : exFnQ.e 1 1 = some 11 ∧ exLab.e 1 1 = 1 ∧ hitRow exFnQ 11 1 = 1 := by decide +kernel

end PV.C20
