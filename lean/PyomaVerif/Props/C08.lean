import PyomaVerif.Props.C12
import PyomaVerif.Lemmas.Realise
import PyomaVerif.Model.Realise
import Mathlib.Analysis.SpecialFunctions.Complex.Log
import Mathlib.Tactic.FieldSimp
/-!
# C08 — covariance under gain, channel order and time unit
Relations between runs; the model functions are those of C12 (Hankel), C01 (realisation, modal map).
-/
namespace PV.C08
open PV PV.Mat Finset

/-- a common gain `g` on data and reference data scales the moment-matrix Hankel by `g²` … -/
theorem C08_gain_hank_mm {K} [Field K] (Y Yref : Mat K) (p : Nat) (s g : K) (i k : Nat) :
    (hankMM (scale g Y) (scale g Yref) p s).e i k = g * g * (hankMM Y Yref p s).e i k :=
  PV.C12.C12_mm_smul Y Yref p s g g i k

/-- … and likewise the correlation (Toeplitz) matrix. -/
theorem C08_gain_hank_R {K} [Field K] (Y Yref : Mat K) (p : Nat) (w : Nat → K) (g : K) (i k : Nat) :
    (hankR (scale g Y) (scale g Yref) p w).e i k = g * g * (hankR Y Yref p w).e i k :=
  PV.C12.C12_R_smul Y Yref p w g g i k

/-- permuting the channels permutes the rows inside every block row of the Hankel matrix
    (and nothing else): row `(block i, channel a)` of the permuted data is row
    `(block i, channel σ a)` of the original. -/
theorem C08_perm_hank_mm {K} [Field K] (Y Yref : Mat K) (p : Nat) (s : K) (σ : Nat → Nat)
    (i a j b : Nat) (ha : a < Y.r) (hσ : σ a < Y.r) (hb : b < Yref.r) (hj : j ≤ p) :
    (hankMM ⟨Y.r, Y.c, fun c t => Y.e (σ c) t⟩ Yref p s).e (i * Y.r + a) (j * Yref.r + b)
      = (hankMM Y Yref p s).e (i * Y.r + σ a) (j * Yref.r + b) := by
  rw [PV.C12.C12_mm_entry ⟨Y.r, Y.c, fun c t => Y.e (σ c) t⟩ Yref p s i a j b ha hb hj,
    PV.C12.C12_mm_entry Y Yref p s i (σ a) j b hσ hb hj]

/-- any factor of `g²·H` is a factor of `H` up to an invertible matrix, and similar state
    matrices have the same eigenvalues with output shapes related by `C·T` — the algebra behind
    gain invariance of the SSI poles (for ALL valid factorisations LAPACK may return). -/
theorem C08_similarity_invariant {K : Type} [Field K] {n l : ℕ}
    (A T Tinv Ah : Matrix (Fin n) (Fin n) K) (C Ch : Matrix (Fin l) (Fin n) K)
    (hT : T * Tinv = 1) (hA : Ah = Tinv * A * T) (hC : Ch = C * T)
    (v : Fin n → K) (lam : K) (hv : Ah.mulVec v = lam • v) :
    A.mulVec (T.mulVec v) = lam • T.mulVec v ∧ Ch.mulVec v = C.mulVec (T.mulVec v) :=
  eig_transfer A T Tinv Ah C Ch hT hA hC v lam hv

/-- the FDD pick looks at ratios of singular values: a common positive factor cancels -/
theorem C08_ratio_gain_invariant {K} [Field K] (c s1 s2 : K) (hc : c ≠ 0) :
    (c * s1) / (c * s2) = s1 / s2 := by
  rw [mul_div_mul_left _ _ hc]

/-- **time unit, pole.** Declaring the same samples at `k` times the sampling frequency
    (`dt' = dt/k`) multiplies the continuous pole `log(λ_d)/dt` by `k`. -/
theorem C08_time_unit_pole (lamd : ℂ) (dt k : ℝ) (hdt : dt ≠ 0) (hk : k ≠ 0) :
    Complex.log lamd / ((dt / k : ℝ) : ℂ) = (k : ℂ) * (Complex.log lamd / (dt : ℂ)) := by
  have h1 : (dt : ℂ) ≠ 0 := by exact_mod_cast hdt
  have h2 : (k : ℂ) ≠ 0 := by exact_mod_cast hk
  push_cast
  field_simp

/-- **time unit, modal parameters.** `fn = |λ|/2π` scales by `k`, `xi = −Re λ/|λ|` is unchanged. -/
theorem C08_time_unit_modal (lam : ℂ) (k : ℝ) (hk : 0 < k) (hl : lam ≠ 0) :
    ‖(k : ℂ) * lam‖ / (2 * Real.pi) = k * (‖lam‖ / (2 * Real.pi)) ∧
    -(((k : ℂ) * lam).re / ‖(k : ℂ) * lam‖) = -(lam.re / ‖lam‖) := by
  have hn : ‖(k : ℂ) * lam‖ = k * ‖lam‖ := by
    rw [norm_mul, Complex.norm_real, Real.norm_of_nonneg hk.le]
  have hl' : ‖lam‖ ≠ 0 := norm_ne_zero_iff.mpr hl
  constructor
  · rw [hn]; ring
  · rw [hn]
    simp only [Complex.mul_re, Complex.ofReal_re, Complex.ofReal_im, zero_mul, sub_zero]
    rw [mul_div_mul_left _ _ hk.ne']

/-- **window correction (pLSCF, correlogram spectra).** With the correction `1/(τ·dt)`
    (`τ` in samples) the corrected pole scales with `k` like the pole itself … -/
theorem C08_window_correction_covariant (lam : ℂ) (tau dt k : ℝ) (hdt : dt ≠ 0) (hk : k ≠ 0)
    (htau : tau ≠ 0) :
    (k : ℂ) * lam - ((1 / (tau * (dt / k)) : ℝ) : ℂ) = (k : ℂ) * (lam - ((1 / (tau * dt) : ℝ) : ℂ)) := by
  have h1 : (dt : ℂ) ≠ 0 := by exact_mod_cast hdt
  have h2 : (k : ℂ) ≠ 0 := by exact_mod_cast hk
  have h3 : (tau : ℂ) ≠ 0 := by exact_mod_cast htau
  push_cast
  field_simp

/-- … while the pre-repair correction `1/τ` (samples⁻¹ subtracted from s⁻¹) does not:
    witness `λ = −1`, `τ = 1`, `k = 2`. -/
theorem C08_window_correction_old_not_covariant :
    ((2 : ℝ) : ℂ) * (-1 : ℂ) - ((1 / 1 : ℝ) : ℂ) ≠ ((2 : ℝ) : ℂ) * ((-1 : ℂ) - ((1 / 1 : ℝ) : ℂ)) := by
  norm_num

/-- **unity normalisation**: after `normalise`, the component of largest magnitude is exactly 1
    (for a shape whose largest component is non-zero). -/
theorem C08_unity (v : List (Cpx Rat)) (hp : Cpx.normSq (v.getD (argmaxNormSq v) 0) ≠ 0) :
    (normalise v).getD (argmaxNormSq v) 0 = ⟨1, 0⟩ ∨ v.length ≤ argmaxNormSq v := by
  by_cases hlen : argmaxNormSq v < v.length
  · left
    unfold normalise
    simp only [List.getD_eq_getElem?_getD, List.getElem?_map]
    rw [List.getElem?_eq_getElem hlen]
    simp only [Option.map_some, Option.getD_some]
    set p := v[argmaxNormSq v] with hpdef
    have hp' : p.re * p.re + p.im * p.im ≠ 0 := by
      have : v.getD (argmaxNormSq v) 0 = p := by
        simp [List.getD_eq_getElem?_getD, List.getElem?_eq_getElem hlen, hpdef]
      rw [this] at hp
      exact hp
    show (⟨(p.re * p.re + p.im * p.im) / (p.re * p.re + p.im * p.im),
           (p.im * p.re - p.re * p.im) / (p.re * p.re + p.im * p.im)⟩ : Cpx Rat) = ⟨1, 0⟩
    congr 1
    · exact div_self hp'
    · have : p.im * p.re - p.re * p.im = 0 := by ring
      rw [this, zero_div]
  · right; omega

end PV.C08
