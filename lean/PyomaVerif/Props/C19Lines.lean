import PyomaVerif.Model.GeoLines
import PyomaVerif.Lemmas.Geo
import PyomaVerif.Props.C19
import PyomaVerif.Props.C19Geo2
import PyomaVerif.Props.C19Plot
/-!
# C19 clause 9 where it is observable: the one-based line sheets, shifted to zero-based, CONSUMED by the plotter

`one-based line … indices become zero-based` is a statement about numbers only as long as nobody uses them.  Here they
are used: `plt_lines` indexes the point array with them.  The theorems say that line `(a, b)` of the sheet (one-based,
as written in the template) is drawn between the `a`-th and the `b`-th point — for the mode-shape plot of geometry 2
the `a`-th and `b`-th DISPLACED point (what `defPlotGeo2` returns), for geometry 1 the positions of the `a`-th and
`b`-th sensor in the order of the sensor names — and that an index beyond the number of points is an `IndexError`.
Executed: `defPlotGeo1Lines` / `defPlotGeo2Lines` are the driver ops `c19_plotlines1/2`, compared with the Agg line
artists by the stream `plot_mode_geo{1,2}[lines]`.
-/
namespace PV.C19
open PV PV.Geo

theorem natCast_sub_one (a : Nat) (ha : 1 ≤ a) : ((a : Rat) - 1) = ((a - 1 : Nat) : Rat) := by
  obtain ⟨b, rfl⟩ : ∃ b, a = b + 1 := ⟨a - 1, by omega⟩
  simp [Rat.natCast_add]
  grind

/-- a one-based index `a ≥ 1`, shifted, addresses row `a - 1` of an array of `n ≥ a` rows and is out of range otherwise -/
theorem pyIndex_shift (n a : Nat) (ha : 1 ≤ a) :
    pyIndex n (shiftCell (.num (a : Rat))) = if a ≤ n then .ok (a - 1) else .error .indexError := by
  simp only [shiftCell, natCast_sub_one a ha, pyIndex, Rat.den_natCast, Rat.num_natCast]
  have h0 : (0 : Int) ≤ ((a - 1 : Nat) : Int) := Int.natCast_nonneg _
  simp only [bne_self_eq_false, Bool.false_eq_true, if_false, h0, if_true, Int.toNat_natCast]
  by_cases h : a ≤ n
  · have : a - 1 < n := by omega
    simp [h, this]
  · have : ¬ (a - 1 < n) := by omega
    simp [h, this]

/-- one row `(a, b, …)` of a one-based sheet, after the shift: the segment between point `a` and point `b` (counted from
    one), or `IndexError` when one of them is beyond the last point -/
theorem segOf_shift (pts : List (List (Option Rat))) (a b : Nat) (rest : List Cell) (ha : 1 ≤ a) (hb : 1 ≤ b) :
    segOf pts ((Cell.num (a : Rat) :: Cell.num (b : Rat) :: rest).map shiftCell) =
      if a ≤ pts.length ∧ b ≤ pts.length then .ok (pts.getD (a - 1) [], pts.getD (b - 1) []) else .error .indexError := by
  simp only [List.map_cons, segOf, pyIndex_shift _ a ha, pyIndex_shift _ b hb]
  by_cases h1 : a ≤ pts.length <;> by_cases h2 : b ≤ pts.length <;> simp [h1, h2]

/-- **One-based sheet, consumed.**  When the (non-empty) sheet `k` of the dictionary `d`, shifted to zero-based as the
    checks return it (`shifted d k`, `C19_zero_based_geo1/2`), is drawn over the points `pts` without an exception:
    one segment per row of the sheet, in order; and for every row `(a, b, …)` of positive whole numbers both are at most
    the number of points and the segment joins the `a`-th and the `b`-th point, counted from one as in the sheet. -/
theorem C19_plot_lines_one_based (pts : List (List (Option Rat))) (d : List (String × Tbl)) (k : String) (t : Tbl)
    (segs : List Seg) (hl : d.lookup k = some t) (he : t.empty = false)
    (h : optLines pts (shifted d k) = .ok segs) :
    segs.length = t.cells.length ∧
    ∀ (ii a b : Nat) (rest : List Cell), t.cells[ii]? = some (.num (a : Rat) :: .num (b : Rat) :: rest) → 1 ≤ a → 1 ≤ b →
      a ≤ pts.length ∧ b ≤ pts.length ∧ segs[ii]? = some (pts.getD (a - 1) [], pts.getD (b - 1) []) := by
  have hs : shifted d k = some (t.cells.map fun r => r.map shiftCell) := by simp [shifted, hl, he]
  rw [hs] at h
  simp only [optLines, pltLines] at h
  obtain ⟨hlen, hget⟩ := mapM_ok_get _ _ _ h
  refine ⟨by simpa using hlen, ?_⟩
  intro ii a b rest hrow ha hb
  have hrow' : (t.cells.map fun r => r.map shiftCell)[ii]? = some ((Cell.num (a : Rat) :: .num (b : Rat) :: rest).map shiftCell) := by
    simp [List.getElem?_map, hrow]
  obtain ⟨sg, hsg, hf⟩ := hget ii _ hrow'
  rw [segOf_shift pts a b rest ha hb] at hf
  by_cases hc : a ≤ pts.length ∧ b ≤ pts.length
  · rw [if_pos hc] at hf
    cases hf
    exact ⟨hc.1, hc.2, hsg⟩
  · rw [if_neg hc] at hf
    cases hf

/-- an index beyond the last point is an `IndexError` of the whole call (nothing wraps around) -/
theorem C19_plot_lines_past_end (pts : List (List (Option Rat))) (a b : Nat) (rest : List Cell) (ha : 1 ≤ a) (hb : 1 ≤ b)
    (hout : pts.length < a ∨ pts.length < b) (more : List (List Cell)) :
    pltLines pts (((Cell.num (a : Rat) :: .num (b : Rat) :: rest).map shiftCell) :: more) = .error .indexError := by
  have : ¬ (a ≤ pts.length ∧ b ≤ pts.length) := by omega
  simp only [pltLines, List.mapM_cons, segOf_shift pts a b rest ha hb, if_neg this]
  rfl

/-- the lookup of the `sensors lines` argument in the dictionary `def_geo2` assembles -/
theorem defGeo2Dict_lines (nm' : NamesArg) (pts map : Tbl) (cstr sign lines surf bgN bgL bgS : Option ArrArg) :
    (dropInfo (C19.defGeo2Dict nm' pts map cstr sign lines surf bgN bgL bgS).tbls).lookup "sensors lines"
      = some (optSheet "sensors lines" lines).2 := by
  simp [C19.defGeo2Dict, dropInfo, optSheet, List.filter, List.lookup]

/-- **The pipeline `def_geo2` → `plot_mode_geo2_mpl`, line artists**: the sensor lines are `plt_lines` over the points
    that `defPlotGeo2` returns — the DISPLACED points (`C19_plot_mode2*` say what they are), not the point table —
    with the stored `sens_lines`; the background lines join the stored background nodes. -/
theorem C19_plot_geo2_lines (nm : NamesArg) (pts map : Tbl)
    (cstr sign lines surf bgN bgL bgS : Option ArrArg) (r : Option (List (List Nat))) (phi : List Rat) (sc : Rat)
    (L : Lines) (h : defPlotGeo2Lines nm pts map cstr sign lines surf bgN bgL bgS r phi sc = .ok L) :
    ∃ g np, defGeo2 nm pts map cstr sign lines surf bgN bgL bgS r = .ok g ∧
      defPlotGeo2 nm pts map cstr sign lines surf bgN bgL bgS r phi sc = .ok np ∧
      optLines np g.lines = .ok L.sens ∧ bgSegs g.bgNodes g.bgLines = .ok L.bg := by
  unfold defPlotGeo2Lines at h
  split at h
  · cases h
  · rename_i g hg
    split at h
    · rename_i p m s hp hm hs
      unfold plotMode2Lines at h
      split at h
      · cases h
      · rename_i np hnp
        split at h
        · cases h
        · rename_i bg hbg
          split at h
          · cases h
          · rename_i sl hsl
            cases h
            refine ⟨g, np, hg, ?_, hsl, hbg⟩
            simp only [defPlotGeo2, hg, hp, hm, hs, hnp]
    · cases h

/-- **Line `(a, b)` of the `sens_lines` argument / `sensors lines` sheet joins the `a`-th and `b`-th displayed point**
    (geometry 2, names given as a table; the other name forms reduce to it by `C19_defgeo2_forms`): when the mode shape
    is drawn without an exception, every row `(a, b, …)` of positive whole numbers of the one-based table has both
    numbers within the number of points and its segment runs from displaced point `a` to displaced point `b`. -/
theorem C19_plot_geo2_lines_one_based (rows : List (List Name)) (pts map : Tbl) (t : Tbl) (isArr : Bool)
    (cstr sign surf bgN bgL bgS : Option ArrArg) (r : Option (List (List Nat))) (phi : List Rat) (sc : Rat)
    (L : Lines) (he : t.empty = false)
    (h : defPlotGeo2Lines (.table rows) pts map cstr sign (some ⟨t, isArr⟩) surf bgN bgL bgS r phi sc = .ok L) :
    ∃ np, defPlotGeo2 (.table rows) pts map cstr sign (some ⟨t, isArr⟩) surf bgN bgL bgS r phi sc = .ok np ∧
      L.sens.length = t.cells.length ∧
      ∀ (ii a b : Nat) (rest : List Cell), t.cells[ii]? = some (.num (a : Rat) :: .num (b : Rat) :: rest) → 1 ≤ a → 1 ≤ b →
        a ≤ np.length ∧ b ≤ np.length ∧ L.sens[ii]? = some (np.getD (a - 1) [], np.getD (b - 1) []) := by
  obtain ⟨g, np, hg, hnp, hsl, _⟩ := C19_plot_geo2_lines _ _ _ _ _ _ _ _ _ _ _ _ _ L h
  have hck : checkGeo2 (C19.defGeo2Dict (.table rows) pts map cstr sign (some ⟨t, isArr⟩) surf bgN bgL bgS) r = .ok g := by
    simpa [defGeo2, namesToTable, isTable, C19.defGeo2Dict] using hg
  have hz := (C19_zero_based_geo2 _ r g hck).1
  have hlk := defGeo2Dict_lines (.table rows) pts map cstr sign (some ⟨t, isArr⟩) surf bgN bgL bgS
  simp only [optSheet] at hlk
  rw [hz] at hsl
  exact ⟨np, hnp, C19_plot_lines_one_based np _ "sensors lines" t L.sens hlk he hsl⟩

/-- **Geometry 1**: the sensor lines of `plot_mode_geo1` join the start points of the arrows (the sensor positions in
    the order of the sensor names, `C19_plot_geo1_aligned`), the background lines the background nodes. -/
theorem C19_plot_geo1_lines (phi : List Rat) (sc : Rat) (g : Out1) (L : Lines) (h : plotMode1Lines phi sc g = .ok L) :
    ∃ arrows, plotMode1 g.coordCols g.coord g.dir phi sc = .ok arrows ∧
      optLines (arrows.map (·.1)) g.lines = .ok L.sens ∧ bgSegs g.bgNodes g.bgLines = .ok L.bg := by
  unfold plotMode1Lines at h
  split at h
  · cases h
  · rename_i arrows ha
    split at h
    · cases h
    · rename_i bg hbg
      split at h
      · cases h
      · rename_i sl hsl
        cases h
        exact ⟨arrows, ha, hsl, hbg⟩

/-- **Line `(a, b)` of the `sensors lines` sheet joins sensor `a` and sensor `b`** (geometry 1, any entry point: `g` is
    what `check_on_geo1` returned for the dictionary `fd`): counted from one in the order of the sensor names. -/
theorem C19_plot_geo1_lines_one_based (fd : FileDict) (r : Option (List (List Nat))) (g : Out1) (t : Tbl)
    (phi : List Rat) (sc : Rat) (L : Lines) (hck : checkGeo1 fd r = .ok g)
    (hl : (dropInfo fd.tbls).lookup "sensors lines" = some t) (he : t.empty = false)
    (h : plotMode1Lines phi sc g = .ok L) :
    ∃ arrows, plotMode1 g.coordCols g.coord g.dir phi sc = .ok arrows ∧ L.sens.length = t.cells.length ∧
      ∀ (ii a b : Nat) (rest : List Cell), t.cells[ii]? = some (.num (a : Rat) :: .num (b : Rat) :: rest) → 1 ≤ a → 1 ≤ b →
        a ≤ arrows.length ∧ b ≤ arrows.length ∧
        L.sens[ii]? = some ((arrows.map (·.1)).getD (a - 1) [], (arrows.map (·.1)).getD (b - 1) []) := by
  obtain ⟨arrows, ha, hsl, _⟩ := C19_plot_geo1_lines phi sc g L h
  rw [(C19_zero_based_geo1 fd r g hck).1] at hsl
  have := C19_plot_lines_one_based (arrows.map (·.1)) _ "sensors lines" t L.sens hl he hsl
  simp only [List.length_map] at this
  exact ⟨arrows, ha, this⟩

/-! ## non-vacuity and the excluded points -/

/-- three points, the one-based sheet `[[1, 3], [2, 2]]`: two segments, 1→3 and 2→2 -/
example : optLines [[some 0, some 0, some 0], [some 1, some 1, some 1], [some 2, some 2, some 5]]
      (shifted [("sensors lines", ⟨["1", "2"], ["start", "end"], [[.num 1, .num 3], [.num 2, .num 2]]⟩)] "sensors lines")
    = .ok [([some 0, some 0, some 0], [some 2, some 2, some 5]), ([some 1, some 1, some 1], [some 1, some 1, some 1])] := by
  decide +kernel
/-- a `0` in a one-based sheet (outside the premise `1 ≤ a`): numpy counts `-1` from the end — the LAST point, no error -/
example : pltLines [[some 0], [some 1], [some 2]] [[Cell.num 0, Cell.num 2].map shiftCell] = .ok [([some 2], [some 1])] := by
  decide +kernel
/-- `C19_plot_lines_past_end`: point 4 of 3 -/
example : pltLines [[some 0], [some 1], [some 2]] [[Cell.num 4, Cell.num 2].map shiftCell] = .error .indexError := by
  decide +kernel
/-- the whole pipeline on the geometry-2 example of `Props/C19.lean` with lines 1-2 and 2-2 (`C19_plot_geo2_lines`,
    `C19_plot_geo2_lines_one_based`): both calls succeed, the first segment runs between the two DISPLACED points, which
    are not the points of the table -/
def exLineArg : Option ArrArg := some ⟨⟨["1", "2"], ["start", "end"], [[.num 1, .num 2], [.num 2, .num 2]]⟩, false⟩
example : (match defPlotGeo2Lines (.table [[some "a", some "b", some "c"]]) exPts exMap (some ⟨exCs, false⟩)
      (some ⟨exSign, false⟩) exLineArg none none none none none [1, 2, 3] 2,
    defPlotGeo2 (.table [[some "a", some "b", some "c"]]) exPts exMap (some ⟨exCs, false⟩)
      (some ⟨exSign, false⟩) exLineArg none none none none none [1, 2, 3] 2 with
    | .ok L, .ok np => decide (L.sens = [(np.getD 0 [], np.getD 1 []), (np.getD 1 [], np.getD 1 [])]) &&
        decide (np ≠ exPts.cells.map (·.map cellVal)) && decide (np.length = 2)
    | _, _ => false) = true := by
  decide +kernel
/-- geometry 1 (`C19_plot_geo1_lines`, `C19_plot_geo1_lines_one_based`): the example file of `Props/C19.lean`, lines 1-2, 2-3 -/
example : (match plotMode1Lines [1, 2, 3] 2 exOut1 with
    | .ok L => decide (L.sens.length = 2)
    | _ => false) = true ∧ checkGeo1 exFd1 none = .ok exOut1 ∧
    (dropInfo exFd1.tbls).lookup "sensors lines" = some exLines ∧ exLines.empty = false :=
  ⟨by decide +kernel, by decide +kernel, by decide +kernel, by decide +kernel⟩

end PV.C19
