import PyomaVerif.Lemmas.MergeResults
import PyomaVerif.Props.C02Matrix
import Mathlib.Analysis.Real.Sqrt
/-!
# C02 — the statistics of `MultiSetup_PoSER.merge_results`

Theorems about the executable model `Merge.mergeResults` / `Merge.mergeGroup` (run by the driver
operation `poser_merge_results` and compared with the real method in the correspondence stream
`MultiSetup_PoSER.merge_results`): one merged result per algorithm name; the merged frequencies
and damping ratios are the arithmetic means over the setups; the reported dispersion times the
mean is the non-negative root of the population variance.

`np.sqrt` is a parameter `sqrt`; its contract `SqrtAt sqrt v` (`0 ≤ sqrt v`, `sqrt v · sqrt v = v`) is
asked only at the population variances `v` that actually occur — satisfiable over `ℚ` (the driver's
numbers) when those are squares, and everywhere over `ℝ` by `Real.sqrt` (`sqrtAt_real`).
-/
namespace PV.C02
open PV.Merge

/-- `m` is the arithmetic mean of `xs` and `d` the dispersion "population standard deviation
    divided by the mean": `m·S = Σx`, and `d·m` is the non-negative number whose square is
    `(1/S)·Σ(x−m)²` (`S` the number of values).  For `S ≠ 0`, `m ≠ 0` this determines `m`, `d`. -/
def MeanDisp {K : Type} [Field K] [LinearOrder K] (xs : List K) (m d : K) : Prop :=
  m * (xs.length : K) = xs.sum ∧ 0 ≤ d * m ∧
    (d * m) ^ 2 * (xs.length : K) = (xs.map (fun x => (x - m) ^ 2)).sum

/-- the contract of `np.sqrt` at one argument -/
def SqrtAt {K : Type} [Zero K] [Mul K] [LE K] (sqrt : K → K) (v : K) : Prop :=
  0 ≤ sqrt v ∧ sqrt v * sqrt v = v

section
variable {K C : Type} [Field K] [LinearOrder K] [IsStrictOrderedRing K]
  [Zero C] [Add C] [Mul C] [Div C] [Inhabited C]

/-- mean and dispersion of one stacked quantity (`Fn` or `Xi`), as `mergeGroup` computes them -/
theorem meanDisp_col (sqrt : K → K)
    (a : List (List K)) (k : Nat) (hk : k < width a)
    (hne : (a.map (fun row => row.getD k 0)).sum ≠ 0)
    (hsqrt : SqrtAt sqrt (pvar (a.map (fun row => row.getD k 0)))) :
    MeanDisp (a.map (fun row => row.getD k 0)) ((colMean a).getD k 0)
      ((List.zipWith (· / ·) (colStd sqrt a) (colMean a)).getD k 0) := by
  have ha : a ≠ [] := by
    intro h; subst h; simp [width] at hk
  have hS : ((a.map (fun row => row.getD k 0)).length : K) ≠ 0 := by
    rw [List.length_map]
    exact_mod_cast (fun h => ha (List.length_eq_zero_iff.mp h))
  have hm : (colMean a).getD k 0 = mean (a.map (fun row => row.getD k 0)) := by
    unfold colMean; rw [getD_range_map _ _ _ _ hk]
  have hd : (List.zipWith (· / ·) (colStd sqrt a) (colMean a)).getD k 0
      = sqrt (pvar (a.map (fun row => row.getD k 0))) / mean (a.map (fun row => row.getD k 0)) := by
    unfold colStd colMean
    simp [List.getD, hk]
  set xs := a.map (fun row => row.getD k 0) with hxs
  have hmean : mean xs ≠ 0 := by
    rw [mean_eq_sum]; exact div_ne_zero hne hS
  obtain ⟨h0, hsq⟩ := hsqrt
  rw [hm, hd]
  have hdm : sqrt (pvar xs) / mean xs * mean xs = sqrt (pvar xs) := by field_simp
  refine ⟨?_, ?_, ?_⟩
  · rw [mean_eq_sum]; field_simp
  · rw [hdm]; exact h0
  · rw [hdm, pow_two, hsq, pvar_eq_sum]; field_simp

/-- **C02_stats_group** (the body of the loop over the algorithm groups of `merge_results`).
    If `mergeGroup` returns a result for the algorithms `algs` (one per setup), then every setup
    carries as many `Fn` (`Xi`) values as the result, and for every mode `k` whose values do not
    sum to zero (a mean of zero has no dispersion: numpy divides by zero there) and at whose
    population variance `sqrt` meets its contract (`SqrtAt`) the merged
    `Fn[k]` is the arithmetic mean of the setups' `Fn[k]` and `Fn_cov[k]·Fn[k]` is the
    non-negative root of their population variance — likewise `Xi`, `Xi_cov`. -/
theorem C02_stats_group (sqrt : K → K)
    (re : C → C) (algs : List (AlgRes K C)) (refInd : List (List Nat)) (res : PoserRes K C)
    (h : mergeGroup sqrt re algs refInd = .ok res) :
    (∀ a ∈ algs, a.Fn.length = res.Fn.length ∧ a.Xi.length = res.Xi.length) ∧
    res.Fn_cov.length = res.Fn.length ∧ res.Xi_cov.length = res.Xi.length ∧
    (∀ k, k < res.Fn.length → (algs.map (fun a => a.Fn.getD k 0)).sum ≠ 0 →
      SqrtAt sqrt (pvar (algs.map (fun a => a.Fn.getD k 0))) →
      MeanDisp (algs.map (fun a => a.Fn.getD k 0)) (res.Fn.getD k 0) (res.Fn_cov.getD k 0)) ∧
    (∀ k, k < res.Xi.length → (algs.map (fun a => a.Xi.getD k 0)).sum ≠ 0 →
      SqrtAt sqrt (pvar (algs.map (fun a => a.Xi.getD k 0))) →
      MeanDisp (algs.map (fun a => a.Xi.getD k 0)) (res.Xi.getD k 0) (res.Xi_cov.getD k 0)) ∧
    mergeModeShapes re (algs.map (·.Phi)) refInd = .ok res.Phi := by
  unfold mergeGroup at h
  simp only at h
  split at h
  · cases h
  · rename_i hfn
    split at h
    · cases h
    · rename_i hxi
      split at h
      · cases h
      · rename_i Phi hPhi
        simp only [Except.ok.injEq] at h
        subst h
        simp only [List.any_eq_true, not_exists, not_and, bne_iff_ne, ne_eq, not_not,
          List.mem_map, forall_exists_index, and_imp, forall_apply_eq_imp_iff₂] at hfn hxi
        have hlenFn : (colMean (algs.map (·.Fn))).length = width (algs.map (·.Fn)) := by
          simp [colMean]
        have hlenXi : (colMean (algs.map (·.Xi))).length = width (algs.map (·.Xi)) := by
          simp [colMean]
        refine ⟨fun a ha => ⟨by rw [hlenFn]; exact hfn a ha, by rw [hlenXi]; exact hxi a ha⟩,
          by simp [colMean, colStd], by simp [colMean, colStd], ?_, ?_, hPhi⟩
        · intro k hk hne hs
          rw [hlenFn] at hk
          have := meanDisp_col sqrt (algs.map (·.Fn)) k hk
            (by simpa [List.map_map, Function.comp_def] using hne)
            (by simpa [List.map_map, Function.comp_def] using hs)
          simpa [List.map_map, Function.comp_def] using this
        · intro k hk hne hs
          rw [hlenXi] at hk
          have := meanDisp_col sqrt (algs.map (·.Xi)) k hk
            (by simpa [List.map_map, Function.comp_def] using hne)
            (by simpa [List.map_map, Function.comp_def] using hs)
          simpa [List.map_map, Function.comp_def] using this

omit [LinearOrder K] [IsStrictOrderedRing K] in
/-- **C02_results_groups** (the grouping of `merge_results`): pairwise distinct names, every
    setup with one algorithm per name, at least one setup.  If `mergeResults` returns `out`, then
    `out` has exactly one entry per name, in the order of the names, and the entry of the `gi`-th
    name is `mergeGroup` of the `gi`-th algorithm of every setup (in setup order) with the
    object's `ref_ind`. -/
theorem C02_results_groups (sqrt : K → K) (re : C → C) (names : List String)
    (setups : List (List (AlgRes K C))) (refInd : List (List Nat))
    (out : List (String × PoserRes K C))
    (hnd : names.Nodup) (hne : setups ≠ []) (hlen : ∀ s ∈ setups, s.length = names.length)
    (h : mergeResults sqrt re names setups refInd = .ok out) :
    out.map (·.1) = names ∧
    ∀ gi (hgi : gi < out.length),
      mergeGroup sqrt re (setups.map (fun s => s.getD gi default)) refInd = .ok out[gi].2 := by
  obtain ⟨s0, ss, rfl⟩ := List.exists_cons_of_ne_nil hne
  unfold mergeResults at h
  rw [algGroups_nodup names hnd s0 ss hlen] at h
  simp only at h
  have hF := (mapE_ok_iff _ _ _).mp h
  have hlen' : (names.zip (byPosition names.length (s0 :: ss))).length = names.length := by
    simp [byPosition]
  have hol : out.length = names.length := by rw [← hF.length_eq, hlen']
  have hstep : ∀ gi (h1 : gi < names.length) (h2 : gi < out.length),
      out[gi].1 = names[gi] ∧
      mergeGroup sqrt re ((s0 :: ss).map (fun s => s.getD gi default)) refInd = .ok out[gi].2 := by
    intro gi h1 h2
    have hrel := List.Forall₂.get hF (by rw [hlen']; exact h1) h2
    simp only [List.get_eq_getElem, List.getElem_zip] at hrel
    have hby : (byPosition names.length (s0 :: ss))[gi]'(by simp [byPosition, h1])
        = (s0 :: ss).map (fun s => s.getD gi default) := by
      simp [byPosition]
    rw [hby] at hrel
    split at hrel
    · cases hrel
    · rename_i r hr
      simp only [Except.ok.injEq] at hrel
      rw [← hrel]
      exact ⟨rfl, hr⟩
  constructor
  · apply List.ext_getElem
    · simp [hol]
    · intro i h1 h2
      have h1' : i < out.length := by simpa using h1
      rw [List.getElem_map]
      exact (hstep i h2 h1').1
  · intro gi hgi
    exact (hstep gi (hol ▸ hgi) hgi).2

/-- **C02_stats_results** (`MultiSetup_PoSER.merge_results()[name].{Fn, Fn_cov, Xi, Xi_cov}`).
    Pairwise distinct names, every setup with one algorithm per name, at least one setup; if
    `mergeResults` returns `out`, then for every name (position `gi`) and every mode `k` (whose
    values do not sum to zero, `sqrt` meeting its contract at their population variance) the merged `Fn[k]` is the arithmetic mean over the setups of the
    `Fn[k]` of the setup's `gi`-th algorithm, and `Fn_cov[k]·Fn[k]` is the non-negative root of
    their population variance `(1/S)·Σ(x−mean)²`; likewise `Xi`, `Xi_cov`. -/
theorem C02_stats_results (sqrt : K → K)
    (re : C → C) (names : List String)
    (setups : List (List (AlgRes K C))) (refInd : List (List Nat))
    (out : List (String × PoserRes K C))
    (hnd : names.Nodup) (hne : setups ≠ []) (hlen : ∀ s ∈ setups, s.length = names.length)
    (h : mergeResults sqrt re names setups refInd = .ok out) :
    out.map (·.1) = names ∧
    ∀ gi (hgi : gi < out.length),
      (∀ k, k < out[gi].2.Fn.length →
        (setups.map (fun s => (s.getD gi default).Fn.getD k 0)).sum ≠ 0 →
        SqrtAt sqrt (pvar (setups.map (fun s => (s.getD gi default).Fn.getD k 0))) →
        MeanDisp (setups.map (fun s => (s.getD gi default).Fn.getD k 0))
          (out[gi].2.Fn.getD k 0) (out[gi].2.Fn_cov.getD k 0)) ∧
      (∀ k, k < out[gi].2.Xi.length →
        (setups.map (fun s => (s.getD gi default).Xi.getD k 0)).sum ≠ 0 →
        SqrtAt sqrt (pvar (setups.map (fun s => (s.getD gi default).Xi.getD k 0))) →
        MeanDisp (setups.map (fun s => (s.getD gi default).Xi.getD k 0))
          (out[gi].2.Xi.getD k 0) (out[gi].2.Xi_cov.getD k 0)) := by
  obtain ⟨hnames, hgroups⟩ := C02_results_groups sqrt re names setups refInd out hnd hne hlen h
  refine ⟨hnames, fun gi hgi => ?_⟩
  obtain ⟨_, _, _, hFn, hXi, _⟩ :=
    C02_stats_group sqrt re _ refInd _ (hgroups gi hgi)
  constructor
  · intro k hk hsum hs
    have := hFn k hk (by simpa [List.map_map, Function.comp_def] using hsum)
      (by simpa [List.map_map, Function.comp_def] using hs)
    simpa [List.map_map, Function.comp_def] using this
  · intro k hk hsum hs
    have := hXi k hk (by simpa [List.map_map, Function.comp_def] using hsum)
      (by simpa [List.map_map, Function.comp_def] using hs)
    simpa [List.map_map, Function.comp_def] using this

end

/-! ## the whole method on PoSER inputs -/

section
variable {K C : Type} [Field K] [LinearOrder K] [IsStrictOrderedRing K] [Field C] [Inhabited C]

omit [LinearOrder K] [IsStrictOrderedRing K] in
theorem mergeGroup_ok (sqrt : K → K) (re : C → C) (algs : List (AlgRes K C))
    (refInd : List (List Nat)) (Phi : List (List C))
    (hfn : ∀ a ∈ algs, a.Fn.length = width (algs.map (·.Fn)))
    (hxi : ∀ a ∈ algs, a.Xi.length = width (algs.map (·.Xi)))
    (hphi : mergeModeShapes re (algs.map (·.Phi)) refInd = .ok Phi) :
    ∃ res, mergeGroup sqrt re algs refInd = .ok res ∧ res.Phi = Phi := by
  have h1 : ((algs.map (·.Fn)).any fun v => v.length != width (algs.map (·.Fn))) = false := by
    rw [List.any_eq_false]
    intro v hv
    obtain ⟨a, ha, rfl⟩ := List.mem_map.mp hv
    simp [hfn a ha]
  have h2 : ((algs.map (·.Xi)).any fun v => v.length != width (algs.map (·.Xi))) = false := by
    rw [List.any_eq_false]
    intro v hv
    obtain ⟨a, ha, rfl⟩ := List.mem_map.mp hv
    simp [hxi a ha]
  unfold mergeGroup
  simp only [h1, h2, hphi, Bool.false_eq_true, if_false]
  exact ⟨_, rfl, rfl⟩

omit [LinearOrder K] [IsStrictOrderedRing K] in
/-- converse of `C02_results_groups`: if every group merges, `merge_results` returns -/
theorem mergeResults_ok (sqrt : K → K) (re : C → C) (names : List String)
    (setups : List (List (AlgRes K C))) (refInd : List (List Nat))
    (hnd : names.Nodup) (hne : setups ≠ []) (hlen : ∀ s ∈ setups, s.length = names.length)
    (hr : ∀ gi, gi < names.length →
      ∃ res, mergeGroup sqrt re (setups.map (fun s => s.getD gi default)) refInd = .ok res) :
    ∃ out, mergeResults sqrt re names setups refInd = .ok out := by
  obtain ⟨s0, ss, rfl⟩ := List.exists_cons_of_ne_nil hne
  unfold mergeResults
  rw [algGroups_nodup names hnd s0 ss hlen]
  simp only
  have : Nonempty (PoserRes K C) := ⟨⟨[], [], [], [], []⟩⟩
  choose! r hr' using hr
  refine ⟨names.zipIdx.map (fun p => (p.1, r p.2)), (mapE_ok_iff _ _ _).mpr ?_⟩
  apply List.forall₂_of_length_eq_of_get
  · simp [byPosition]
  · intro i h1 h2
    have hi : i < names.length := by simpa [byPosition] using h1
    simp only [List.get_eq_getElem, List.getElem_zip, List.getElem_map, List.getElem_zipIdx]
    have hby : (byPosition names.length (s0 :: ss))[i]'(by simp [byPosition, hi])
        = (s0 :: ss).map (fun s => s.getD i default) := by
      simp [byPosition]
    rw [hby, hr' i hi]
    simp

/-- **C02_poser** — `MultiSetup_PoSER.merge_results()` on the property's inputs, all clauses.
    Pairwise distinct names, at least one setup, every setup with one algorithm per name; for
    every name (position `gi`) the algorithms of that position carry `Fn` (`Xi`) vectors of one
    common length and mode-shape matrices that are restrictions of one global matrix `G gi`
    (`nm gi` modes) in the layout `d0 gi :: ds gi` (hypotheses of `C02_merge_all`), whose
    reference positions are the object's `ref_ind`.  Then `mergeResults` raises nothing; it
    returns one result per name, in the order of the names; `Phi` of the `gi`-th is the global
    matrix in the first setup's scale, every mode and row, reference rows first (first setup's
    order), then the roving rows setup by setup; `Fn[k]` (`Xi[k]`) is the arithmetic mean over
    the setups and `Fn_cov[k]·Fn[k]` (`Xi_cov[k]·Xi[k]`) the non-negative root of the population
    variance (for values that do not sum to zero, `sqrt` meeting its contract at that variance). -/
theorem C02_poser (sqrt : K → K)
    (re : C → C) (names : List String)
    (setups : List (List (AlgRes K C))) (refInd : List (List Nat))
    (hnd : names.Nodup) (hne : setups ≠ []) (hlen : ∀ s ∈ setups, s.length = names.length)
    (nf nx nm : Nat → Nat) (G : Nat → Nat → Nat → C) (refRows : List Nat)
    (d0 : Nat → SetupM C) (ds : Nat → List (SetupM C))
    (hstack : ∀ gi, gi < names.length → ∀ s ∈ setups,
      (s.getD gi default).Fn.length = nf gi ∧ (s.getD gi default).Xi.length = nx gi)
    (hphi : ∀ gi, gi < names.length →
      setups.map (fun s => (s.getD gi default).Phi) = (d0 gi :: ds gi).map (SetupM.Phi (G gi) (nm gi)) ∧
      refInd = (d0 gi :: ds gi).map (·.ref))
    (h0in : ∀ gi, gi < names.length → ∀ i ∈ (d0 gi).ref, i < (d0 gi).rows.length)
    (h0nd : ∀ gi, gi < names.length → (d0 gi).ref.Nodup)
    (h0ref : ∀ gi, gi < names.length → pick (d0 gi).rows (d0 gi).ref = refRows)
    (hds : ∀ gi, gi < names.length → ∀ d ∈ ds gi, GoodM re refRows (nm gi) (d0 gi).s d)
    (hg : ∀ gi, gi < names.length → ∀ k, k < nm gi →
      dot (refRows.map (fun r => G gi r k)) (refRows.map (fun r => G gi r k)) ≠ 0) :
    ∃ out, mergeResults sqrt re names setups refInd = .ok out ∧ out.map (·.1) = names ∧
      ∀ gi (hgi : gi < out.length),
        out[gi].2.Phi
          = (refRows ++ rovingConcat ((d0 gi :: ds gi).map (·.rows)) ((d0 gi :: ds gi).map (·.ref))).map
              (fun r => (List.range (nm gi)).map fun k => (d0 gi).s k * G gi r k) ∧
        (∀ k, k < out[gi].2.Fn.length →
          (setups.map (fun s => (s.getD gi default).Fn.getD k 0)).sum ≠ 0 →
          SqrtAt sqrt (pvar (setups.map (fun s => (s.getD gi default).Fn.getD k 0))) →
          MeanDisp (setups.map (fun s => (s.getD gi default).Fn.getD k 0))
            (out[gi].2.Fn.getD k 0) (out[gi].2.Fn_cov.getD k 0)) ∧
        (∀ k, k < out[gi].2.Xi.length →
          (setups.map (fun s => (s.getD gi default).Xi.getD k 0)).sum ≠ 0 →
          SqrtAt sqrt (pvar (setups.map (fun s => (s.getD gi default).Xi.getD k 0))) →
          MeanDisp (setups.map (fun s => (s.getD gi default).Xi.getD k 0))
            (out[gi].2.Xi.getD k 0) (out[gi].2.Xi_cov.getD k 0)) := by
  have hmerge : ∀ gi, gi < names.length →
      mergeModeShapes re ((setups.map (fun s => s.getD gi default)).map (·.Phi)) refInd
        = .ok ((refRows ++ rovingConcat ((d0 gi :: ds gi).map (·.rows)) ((d0 gi :: ds gi).map (·.ref))).map
              (fun r => (List.range (nm gi)).map fun k => (d0 gi).s k * G gi r k)) := by
    intro gi hgi
    obtain ⟨hP, hR⟩ := hphi gi hgi
    rw [List.map_map]
    have : (fun s : List (AlgRes K C) => (s.getD gi default).Phi) = ((·.Phi) ∘ fun s => s.getD gi default) := rfl
    rw [← this, hP, hR]
    exact C02_merge_all re (G gi) (nm gi) refRows (d0 gi) (ds gi) (h0in gi hgi) (h0nd gi hgi)
      (h0ref gi hgi) (hds gi hgi) (hg gi hgi)
  obtain ⟨s0, ss, hs⟩ := List.exists_cons_of_ne_nil hne
  have hgroup : ∀ gi, gi < names.length →
      ∃ res, mergeGroup sqrt re (setups.map (fun s => s.getD gi default)) refInd = .ok res := by
    intro gi hgi
    obtain ⟨res, hres, _⟩ := mergeGroup_ok sqrt re (setups.map (fun s => s.getD gi default)) refInd _
      (by
        intro a ha
        obtain ⟨s, hsm, rfl⟩ := List.mem_map.mp ha
        rw [(hstack gi hgi s hsm).1, hs]
        simp only [List.map_cons, width, List.headD_cons]
        exact ((hstack gi hgi s0 (by rw [hs]; simp)).1).symm)
      (by
        intro a ha
        obtain ⟨s, hsm, rfl⟩ := List.mem_map.mp ha
        rw [(hstack gi hgi s hsm).2, hs]
        simp only [List.map_cons, width, List.headD_cons]
        exact ((hstack gi hgi s0 (by rw [hs]; simp)).2).symm)
      (hmerge gi hgi)
    exact ⟨res, hres⟩
  obtain ⟨out, hout⟩ := mergeResults_ok sqrt re names setups refInd hnd hne hlen hgroup
  obtain ⟨hnames, hstats⟩ := C02_stats_results sqrt re names setups refInd out hnd hne hlen hout
  obtain ⟨_, hgroups⟩ := C02_results_groups sqrt re names setups refInd out hnd hne hlen hout
  refine ⟨out, hout, hnames, fun gi hgi => ⟨?_, hstats gi hgi⟩⟩
  have hgi' : gi < names.length := by
    have := congrArg List.length hnames
    rw [List.length_map] at this; omega
  obtain ⟨_, _, _, _, _, hPhi⟩ := C02_stats_group sqrt re _ refInd _ (hgroups gi hgi)
  rw [hmerge gi hgi'] at hPhi
  exact (Except.ok.inj hPhi).symm

end

/-- over `ℝ` the contract holds at every population variance -/
theorem sqrtAt_real (xs : List ℝ) : SqrtAt Real.sqrt (pvar xs) :=
  ⟨Real.sqrt_nonneg _, Real.mul_self_sqrt (pvar_nonneg xs)⟩

/-! ## non-vacuity -/

/-- a dispersion in the sense of `MeanDisp`: values 1 and 3, mean 2, population std 1 -/
example : MeanDisp ([1, 3] : List Rat) 2 (1/2) := by
  unfold MeanDisp; norm_num

/-- the model run on two setups with two algorithms each (`sqrt` exact on the variances that
    occur): shapes of a 4-row global matrix in scales 2 / −1 and 1 / 3, frequencies 1,3 and 10,10 -/
example :
    (mergeResults (K := Rat) (C := Rat) (fun x => if x = 1 then 1 else if x = 4 then 2 else 0) id
      ["ssi", "fdd"]
      [[⟨[1, 10], [3, 1], [[2, 1], [4, 1], [6, 2]]⟩, ⟨[2], [5], [[1], [1], [1]]⟩],
       [⟨[3, 10], [7, 1], [[-2, 3], [-1, 3]]⟩, ⟨[6], [5], [[2], [3]]⟩]] [[1], [1]]).toOption
    = some [("ssi", ⟨[[4, 1], [2, 1], [6, 2], [8, 1]], [2, 10], [1/2, 0], [5, 1], [2/5, 0]⟩),
            ("fdd", ⟨[[1], [1], [1], [2/3]], [4], [1/2], [5], [0]⟩)] := by
  decide +kernel

/-- the hypotheses of `C02_stats_results` hold jointly (over `ℝ` with `Real.sqrt`) -/
example : ∃ out,
    mergeResults (K := ℝ) (C := ℝ) Real.sqrt id ["ssi", "fdd"]
      [[⟨[1, 10], [3, 1], [[2, 1], [4, 1], [6, 2]]⟩, ⟨[2], [5], [[1], [1], [1]]⟩],
       [⟨[3, 10], [7, 1], [[-2, 3], [-1, 3]]⟩, ⟨[6], [5], [[2], [3]]⟩]] [[1], [1]] = .ok out ∧
    (["ssi", "fdd"] : List String).Nodup ∧
    SqrtAt Real.sqrt (pvar [(1 : ℝ), 3]) ∧
    ([(1 : ℝ), 3].sum ≠ 0) :=
  ⟨_, rfl, by decide, sqrtAt_real _, by norm_num⟩

namespace Ex
def gR : Nat → Nat → ℝ := fun r k => (r : ℝ) + k + 1
def e0 : SetupM ℝ := ⟨[0, 1, 2], [1], fun _ => 2⟩
noncomputable def e1 : SetupM ℝ := ⟨[3, 1], [1], fun _ => -1/2⟩
noncomputable def exSetups : List (List (AlgRes ℝ ℝ)) :=
  [[⟨[1, 10], [3, 1], e0.Phi gR 2⟩], [⟨[3, 10], [7, 1], e1.Phi gR 2⟩]]

/-- non-vacuity of `C02_poser`: all its hypotheses hold for two setups (one algorithm each) of a
    4-row, 2-mode global matrix over ℝ with `Real.sqrt`. -/
example : ∃ out, mergeResults Real.sqrt id ["ssi"] exSetups [[1], [1]] = .ok out ∧
    out.map (·.1) = ["ssi"] := by
  obtain ⟨out, h1, h2, _⟩ := C02_poser Real.sqrt id ["ssi"] exSetups
    [[1], [1]] (by decide) (by simp [exSetups]) (by simp [exSetups])
    (fun _ => 2) (fun _ => 2) (fun _ => 2) (fun _ => gR) [1] (fun _ => e0) (fun _ => [e1])
    (by
      intro gi hgi s hs
      obtain rfl : gi = 0 := by simpa using hgi
      simp only [exSetups, List.mem_cons, List.mem_nil_iff, or_false] at hs
      rcases hs with rfl | rfl <;> simp)
    (by
      intro gi hgi
      obtain rfl : gi = 0 := by simpa using hgi
      simp [exSetups, e0, e1])
    (by intro gi _ i hi; simp [e0] at hi ⊢; omega)
    (by intro gi _; simp [e0])
    (by intro gi _; simp [e0, pick])
    (by
      intro gi _ d hd
      simp only [List.mem_singleton] at hd
      subst hd
      exact ⟨by simp [e1], by simp [e1], by simp [e1, pick], by intro k _; simp [e1],
        by intro k _; rfl⟩)
    (by
      intro gi _ k _
      simp only [List.map_cons, List.map_nil, dot, List.zipWith_cons_cons, List.zipWith_nil_left,
        List.foldl_cons, List.foldl_nil, gR]
      positivity)
  exact ⟨out, h1, h2⟩
end Ex

end PV.C02
