import PyomaVerif.Props.C18Contracts
import PyomaVerif.Model.RatSqrt
/-!
# C18 — the whole of `gen.MPC` as the driver runs it (depth round 2, runner-up gap C18)

The driver op `c18_mpc_whole` runs `mpcEig? ratSqrt n φ` over exact rationals, where `ratSqrt` is an
integer-arithmetic square root at `2⁻²⁰⁰` relative resolution (there is no exact square root in `ℚ`).
The theorems `C18_mpcEig_bounds/_scale/_collinear` assume a square root that squares back; this file
says what `mpcEig?` computes for ANY function put in the place of the square root, so that the
compared value is pinned down by the model function alone:

`mpcEig? sqrt n φ = (sqrt disc)² / (a + d)²` (for `n ≥ 2`, `a + d ≠ 0`), `some 1` without scatter.

Consequently the value differs from the closed form `mpcClosed?` exactly by the factor
`(sqrt disc)² / disc`, which `ratSqrt` keeps within `2⁻¹⁹⁸` of `1`.
-/
namespace PV.C18
open PV

section field
variable {K : Type} [Field K] [CharZero K] [DecidableEq K]

/-- **the value of the whole-MPC model function for any square-root function** -/
theorem C18_mpcEig_any_sqrt (sqrt : K → K) (n : Nat) (φ : Nat → Cx K) :
    mpcEig? sqrt n φ =
      if n ≤ 1 then none
      else if (cov2 n φ).a + (cov2 n φ).d = 0 then some 1
      else some (sqrt (cov2 n φ).disc * sqrt (cov2 n φ).disc
                  / (((cov2 n φ).a + (cov2 n φ).d) * ((cov2 n φ).a + (cov2 n φ).d))) := by
  unfold mpcEig? mpc?
  by_cases hn : n ≤ 1
  · simp only [if_pos hn]
  · simp only [if_neg hn]
    by_cases h0 : (cov2 n φ).a + (cov2 n φ).d = 0
    · simp only [if_pos h0]
    · simp only [if_neg h0]
      have h2 : (1 + 1 : K) ≠ 0 := by norm_num
      have hsum : ((cov2 n φ).eigvals sqrt).1 + ((cov2 n φ).eigvals sqrt).2
          = (cov2 n φ).a + (cov2 n φ).d := by
        simp only [Sym2.eigvals]; field_simp; ring
      have hdiff : ((cov2 n φ).eigvals sqrt).1 - ((cov2 n φ).eigvals sqrt).2
          = sqrt (cov2 n φ).disc := by
        simp only [Sym2.eigvals]; field_simp; ring
      rw [hsum, hdiff, if_neg (mul_ne_zero h0 h0)]

/-- with a square root that squares back on the discriminant the op's value is the closed form -/
theorem C18_mpcEig_any_sqrt_exact (sqrt : K → K) (n : Nat) (φ : Nat → Cx K)
    (hs : sqrt (cov2 n φ).disc * sqrt (cov2 n φ).disc = (cov2 n φ).disc) :
    mpcEig? sqrt n φ = mpcClosed? n φ := by
  rw [C18_mpcEig_any_sqrt]
  unfold mpcClosed? collin?
  by_cases hn : n ≤ 1
  · simp only [if_pos hn]
  · simp only [if_neg hn]
    by_cases h0 : (cov2 n φ).a + (cov2 n φ).d = 0
    · simp only [if_pos h0]
    · simp only [if_neg h0, if_neg (mul_ne_zero h0 h0)]
      rw [hs]
      simp only [Sym2.disc]
      congr 2
      push_cast
      ring

end field

/-! ## the driver's square root (kernel-evaluated) -/
/-- `ratSqrt` is exact on squares of rationals and `0` on non-positive numbers … -/
example : ratSqrt (9 / 4) = 3 / 2 ∧ ratSqrt 0 = 0 ∧ ratSqrt (-2) = 0 := by decide +kernel

/-- … and within `2⁻¹⁹⁸` (relative) of the square root elsewhere: `ratSqrt 2` -/
example : ratSqrt 2 * ratSqrt 2 ≤ 2 ∧ 2 * (1 - 1 / 2 ^ 198) ≤ ratSqrt 2 * ratSqrt 2 := by
  decide +kernel

/-- non-vacuity of `C18_mpcEig_any_sqrt`: the pinned unit-test vector `[1+2j, 2+3j, 3+4j]` is collinear
    about its mean (`Re − Im` constant): the whole op returns exactly 1 although `ratSqrt` is inexact
    in general (here `disc = 4`). -/
example : mpcEig? ratSqrt 3 (fun k => (⟨(k : Rat) + 1, (k : Rat) + 2⟩ : Cx Rat)) = some 1 := by
  decide +kernel

end PV.C18
