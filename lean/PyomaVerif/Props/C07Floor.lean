import PyomaVerif.Props.C07Bell
/-!
# C07 — the SDOF bell on the property's own spectrum `S(f)·φφᴴ + η·I` (depth round 2: `C07_sdof_floor`)

`Props/C07Bell.lean` treats the structured spectrum `Σ_m s_m·a_m·a_mᴴ` under the recorded-SVD hypotheses
`Recorded` / `hval` / `hdom`; the spectrum of the property statement — the analytic spectral density of
ONE mode times its mode-shape dyad plus a full-rank floor — was never shown to be an instance (an
orthonormal completion of `φ` would be needed).  Here it is treated directly, without a completion:

* `C07_floor_apply`, `C07_floor_eigen`: `Sy(l)·x = S(l)·(φᴴx)·φ + η·x`; hence `φ` is an eigenvector for
  `S(l)‖φ‖² + η`, every `x ⟂ φ` one for `η`, and `η ≤ S(l)‖φ‖² + η` when `S(l) ≥ 0`: the dominant singular
  pair of `Sy(l)` is `(S(l)‖φ‖² + η, φ)` — what `hval`, `Recorded.vec` and `hdom` assume is the SVD's output
  for this spectrum (`hdom` is DERIVED, the other two are the LAPACK contract for the first pair);
* `C07_sdof_floor`: for the executable `sdofBell` (any `cm ≥ 1`, any `0 ≤ MAClim < 1`, reference `c·φ`),
  with the first stored pair the dominant one and the other stored vectors orthogonal to `φ`:
  EFDD returns `S(l)‖φ‖² + η` on every line of the band and `0` outside, FSDD returns
  `|c|²‖φ‖²·(S(l)‖φ‖² + η)` — the SAME bell up to one line-independent positive factor, so both methods see
  the same normalised free decay (`C07_sdof_floor_proportional`).
-/
set_option linter.unusedSectionVars false
set_option linter.unnecessarySeqFocus false
namespace PV.C07Bell
open PV PV.Fdd PV.Efdd PV.Bell Finset
open scoped PV.Bell

variable {K : Type} [Field K] [LinearOrder K] [IsStrictOrderedRing K]

/-- the spectrum of the property statement: `Sy(l) = S(l)·φφᴴ + η·I` -/
def floorSy (S : Nat → K) (φ : Nat → Cx K) (η : K) (i j l : Nat) : Cx K :=
  Cx.smul (S l) (φ i * Cx.conj (φ j)) + (if i = j then Cx.ofReal η else 0)

/-- `Sy(l)·x = S(l)·(φᴴx)·φ + η·x` -/
theorem C07_floor_apply (nch : Nat) (S : Nat → K) (φ : Nat → Cx K) (η : K) (x : Nat → Cx K)
    (i l : Nat) (hi : i < nch) :
    applyM nch (fun i j => floorSy S φ η i j l) x i
      = Cx.ofReal (S l) * cdot nch φ x * φ i + Cx.ofReal η * x i := by
  rw [applyM_eq]
  simp only [floorSy, smul_eq, add_mul, sum_add_distrib]
  congr 1
  · rw [cdot_eq, mul_sum, sum_mul]
    apply sum_congr rfl; intro j _; ring
  · have : ∀ j ∈ range nch, (if i = j then Cx.ofReal η else 0) * x j
        = if i = j then Cx.ofReal η * x i else 0 := by
      intro j _; split_ifs with h
      · subst h; rfl
      · simp
    rw [sum_congr rfl this, sum_ite_eq (range nch) i, if_pos (mem_range.mpr hi)]

/-- **the singular structure of the property's spectrum**: `φ` is an eigenvector for
    `S(l)‖φ‖² + η`, every vector orthogonal to `φ` one for `η`, and the first eigenvalue dominates
    when the spectral density is non-negative. -/
theorem C07_floor_eigen (nch : Nat) (S : Nat → K) (φ : Nat → Cx K) (η : K) (l : Nat) :
    (∀ i, i < nch → applyM nch (fun i j => floorSy S φ η i j l) φ i
        = Cx.smul (S l * nrm2 nch φ + η) (φ i))
    ∧ (∀ x, cdot nch φ x = 0 → ∀ i, i < nch →
        applyM nch (fun i j => floorSy S φ η i j l) x i = Cx.smul η (x i))
    ∧ (0 ≤ S l → η ≤ S l * nrm2 nch φ + η) := by
  refine ⟨?_, ?_, ?_⟩
  · intro i hi
    rw [C07_floor_apply nch S φ η φ i l hi, cdot_self, smul_eq, ofReal_add, ofReal_mul]; ring
  · intro x hx i hi
    rw [C07_floor_apply nch S φ η x i l hi, hx, smul_eq]; ring
  · intro hS
    have := mul_nonneg hS (nrm2_nonneg nch φ)
    linarith

/-- `(c·φ)ᴴ·Sy(l)·(c·φ) = |c|²‖φ‖²·(S(l)‖φ‖² + η)` -/
theorem C07_floor_quadForm (nch : Nat) (S : Nat → K) (φ : Nat → Cx K) (η : K) (c : Cx K) (l : Nat) :
    quadForm nch (fun i => c * φ i) (floorSy S φ η) l
      = Cx.ofReal (Cx.normSq c * nrm2 nch φ * (S l * nrm2 nch φ + η)) := by
  rw [quadForm_cdot]
  have e : ∀ i, i < nch → applyM nch (fun i j => floorSy S φ η i j l) (fun i => c * φ i) i
      = (Cx.ofReal (S l * nrm2 nch φ + η) * c) * φ i := by
    intro i hi
    rw [C07_floor_apply nch S φ η _ i l hi, cdot_smul_right, cdot_self, ofReal_add, ofReal_mul]; ring
  rw [cdot_congr nch _ _ _ e, cdot_smul_right, cdot_smul_left, cdot_self]
  rw [show Cx.ofReal (S l * nrm2 nch φ + η) * c * (Cx.conj c * Cx.ofReal (nrm2 nch φ))
      = Cx.ofReal (S l * nrm2 nch φ + η) * (c * Cx.conj c) * Cx.ofReal (nrm2 nch φ) by ring,
    mul_conj_self, ← ofReal_mul, ← ofReal_mul]
  congr 1; ring

/-- **C07_sdof_floor.**  The executable bell of `SDOF_bellandMS` on `Sy(l) = S(l)·φφᴴ + η·I`, reference
    shape `c·φ` (`c ≠ 0`, `φ ≠ 0`), any number `cm ≥ 1` of close modes and any `0 ≤ MAClim < 1`, when the
    SVD recorded at line `l` has the dominant pair first — stored vector a non-zero multiple of `φ`
    (real shapes: `conj(U) = U`), stored value the square root of `S(l)‖φ‖² + η` — and its other stored
    vectors orthogonal to `φ` (`C07_floor_eigen`: this is the singular structure of `Sy(l)`):
    EFDD gives `S(l)‖φ‖² + η` on the band and `0` outside; FSDD gives `|c|²‖φ‖²` times the same. -/
theorem C07_sdof_floor (nch cm nf : Nat) (dt : K) (S : Nat → K) (φ : Nat → Cx K) (η : K)
    (Sval : Nat → Nat → Nat → K) (Svec : Nat → Nat → Nat → Cx K) (c : Cx K) (sel DF MAClim : K)
    (l : Nat) (hcm : 0 < cm) (hc : c ≠ 0) (hφ : nrm2 nch φ ≠ 0)
    (hlim0 : 0 ≤ MAClim) (hlim : MAClim < 1)
    (hvec : ∃ w : Cx K, w ≠ 0 ∧ ∀ i, i < nch → Svec 0 i l = w * φ i)
    (horth : ∀ csm, csm < cm → csm ≠ 0 → cdot nch φ (fun i => Svec csm i l) = 0)
    (hval : Sval 0 0 l ^ 2 = S l * nrm2 nch φ + η) :
    sdofBell .EFDD nch cm nf dt (floorSy S φ η) Sval Svec (fun i => c * φ i) sel DF MAClim l
      = (if inBand nf dt sel DF l then Cx.ofReal (S l * nrm2 nch φ + η) else 0)
    ∧ sdofBell .FSDD nch cm nf dt (floorSy S φ η) Sval Svec (fun i => c * φ i) sel DF MAClim l
      = (if inBand nf dt sel DF l
          then Cx.ofReal (Cx.normSq c * nrm2 nch φ * (S l * nrm2 nch φ + η)) else 0) := by
  obtain ⟨w, hw, hv⟩ := hvec
  -- the recorded modes are the stored vectors themselves
  have hrec : Recorded nch cm cm (fun m i => Svec m i l) (fun csm _ => csm) Svec l :=
    ⟨fun _ h => h,
      fun csm _ => ⟨1, fun h => one_ne_zero (α := K) (by simpa using congrArg Cx.re h),
        fun i _ => (one_mul _).symm⟩,
      fun _ _ _ _ h => h⟩
  have hself : mac nch φ φ = 1 := by
    rw [mac_eq, cdot_self, normSq_ofReal]; exact div_self (mul_ne_zero hφ hφ)
  have href : MAClim < mac nch (fun i => c * φ i) (fun i => Svec 0 i l) := by
    rw [mac_congr_right nch _ _ (fun i => w * φ i) hv, mac_smul_right nch w hw,
      mac_smul_left nch c hc, hself]
    exact hlim
  have hsep : ∀ m, m < cm → m ≠ 0 → mac nch (fun i => c * φ i) (fun i => Svec m i l) ≤ MAClim := by
    intro m hm hne
    rw [mac_smul_left nch c hc, mac_eq, horth m hm hne, normSq_zero, zero_div]
    exact hlim0
  have hex : ∃ csm, csm < cm ∧ (fun csm (_ : Nat) => csm) csm l = 0 := ⟨0, hcm, rfl⟩
  constructor
  · rw [C07_bell_select .EFDD nch cm nf cm dt _ Sval Svec _ sel DF MAClim _ _
      (fun m l' => Sval m m l' ^ 2) 0 l hrec href hsep (fun _ _ _ => rfl)]
    by_cases hb : inBand nf dt sel DF l
    · rw [if_pos ⟨hb, hex⟩, if_pos hb]; simp only [selVal, hval]
    · rw [if_neg (fun h => hb h.1), if_neg hb]
  · rw [C07_bell_select .FSDD nch cm nf cm dt _ Sval Svec _ sel DF MAClim _ _
      (fun m l' => Sval m m l' ^ 2) 0 l hrec href hsep (fun h => by cases h)]
    by_cases hb : inBand nf dt sel DF l
    · rw [if_pos ⟨hb, hex⟩, if_pos hb]; simp only [selVal, C07_floor_quadForm]
    · rw [if_neg (fun h => hb h.1), if_neg hb]

/-- **both methods see the same bell**: under the hypotheses of `C07_sdof_floor` at every line, the FSDD
    bell is the EFDD bell times the line-independent factor `|c|²‖φ‖² > 0` (so the normalised free
    decay, hence `fn` and `xi`, coincide: `C07_scale_ifft`). -/
theorem C07_sdof_floor_proportional (nch cm nf : Nat) (dt : K) (S : Nat → K) (φ : Nat → Cx K) (η : K)
    (Sval : Nat → Nat → Nat → K) (Svec : Nat → Nat → Nat → Cx K) (c : Cx K) (sel DF MAClim : K)
    (hcm : 0 < cm) (hc : c ≠ 0) (hφ : nrm2 nch φ ≠ 0) (hlim0 : 0 ≤ MAClim) (hlim : MAClim < 1)
    (hvec : ∀ l, ∃ w : Cx K, w ≠ 0 ∧ ∀ i, i < nch → Svec 0 i l = w * φ i)
    (horth : ∀ l csm, csm < cm → csm ≠ 0 → cdot nch φ (fun i => Svec csm i l) = 0)
    (hval : ∀ l, Sval 0 0 l ^ 2 = S l * nrm2 nch φ + η) :
    0 < Cx.normSq c * nrm2 nch φ ∧ ∀ l,
      sdofBell .FSDD nch cm nf dt (floorSy S φ η) Sval Svec (fun i => c * φ i) sel DF MAClim l
        = Cx.smul (Cx.normSq c * nrm2 nch φ)
            (sdofBell .EFDD nch cm nf dt (floorSy S φ η) Sval Svec (fun i => c * φ i) sel DF MAClim l) := by
  refine ⟨mul_pos ?_ (lt_of_le_of_ne (nrm2_nonneg nch φ) (Ne.symm hφ)), ?_⟩
  · exact lt_of_le_of_ne (Cx.normSq_nonneg c) (fun h => hc (Cx.normSq_eq_zero.mp h.symm))
  · intro l
    obtain ⟨h1, h2⟩ := C07_sdof_floor nch cm nf dt S φ η Sval Svec c sel DF MAClim l hcm hc hφ hlim0 hlim
      (hvec l) (horth l) (hval l)
    rw [h1, h2]
    by_cases hb : inBand nf dt sel DF l
    · rw [if_pos hb, if_pos hb, smul_eq, ← ofReal_mul]
    · rw [if_neg hb, if_neg hb, smul_eq, mul_zero]

/-! ### Non-vacuity: two channels, `φ = (1, 2)`, `S(l) = l + 1`, `η = 1/10`; stored vectors `(1,2)·i` and
`(2,-1)` (orthogonal to `φ`), stored first value² `= 5(l+1) + 1/10` (over `ℚ`: value² is all that enters). -/
section example_floor
def exφ : Nat → Cx Rat := fun i => Cx.ofReal ((i : Rat) + 1)
def exFSvec : Nat → Nat → Nat → Cx Rat := fun csm i _ =>
  if csm = 0 then (⟨0, 1⟩ : Cx Rat) * exφ i else (if i = 0 then Cx.ofReal 2 else Cx.ofReal (-1))

example : nrm2 2 exφ = 5 := by simp [nrm2, exφ, Cx.normSq, Finset.sum_range_succ]; norm_num
example : cdot 2 exφ (fun i => exFSvec 1 i 0) = 0 := by
  rw [cdot_eq]; simp [exφ, exFSvec, Finset.sum_range_succ]; ext <;> simp <;> norm_num
/-- the hypotheses of `C07_sdof_floor` hold jointly (`Sval` any function with the stated square: here the
    squares are what is given, `hval` is about `Sval 0 0 l ^ 2` only) -/
example (Sval : Nat → Nat → Nat → Rat) (l : Nat) (h : Sval 0 0 l ^ 2 = ((l : Rat) + 1) * nrm2 2 exφ + 1 / 10) :=
  C07_sdof_floor 2 2 16 (1 / 100 : Rat) (fun l => (l : Rat) + 1) exφ (1 / 10) Sval exFSvec ⟨3, 1⟩ 1 (1 / 2) (17 / 20) l
    (by decide) (by intro h; have := congrArg Cx.re h; simp at this)
    (by simp [nrm2, exφ, Cx.normSq, Finset.sum_range_succ]; norm_num) (by norm_num) (by norm_num)
    ⟨⟨0, 1⟩, by intro h; have := congrArg Cx.im h; simp at this, fun i _ => by simp [exFSvec]⟩
    (by
      intro csm hc hne
      have : csm = 1 := by omega
      subst this
      rw [cdot_eq]; simp [exφ, exFSvec, Finset.sum_range_succ]; ext <;> simp <;> norm_num)
    h
end example_floor

end PV.C07Bell
