import PyomaVerif.Props.C05E2E
import PyomaVerif.Props.C09Stored
/-!
# C05 ∘ C09 — the pLSCF pole table composed with the hard criteria: the STORED tables

`C05_e2e_table(_closed)` describes the padded tables `plscf.pLSCF_poles` returns (`Tables`, model `padTables`);
`pLSCF.run` / `pLSCF_MS.run` store `Fn_poles / Xi_poles / Phi_poles` after the hard-criteria masks.

* `plscfRaw T` — the four padded tables as the unfiltered solution the class programs start from;
* `C05_stored` — hypotheses of `C05_e2e_table_closed` over `ℚ`; for a record `r` of the order's eigen-decomposition
  that is a physical pole (`λ ≠ 0`, `Re log λ/Δt ≤ 0`) whose damping lies in `(0, xi_max)`, whose shape cell passes
  MPC / MPD and (with `conj` on) whose conjugate occurs in the pole table: the stored tables of every class
  program hold at `(r, k)` the frequency `|μ|/2π`, the damping `−Re μ/|μ|` and the shape `phiCell` of that
  record, `μ = log λ/Δt` (window-corrected for `"cor"`);
* `Ex.stored` — the instance of `Props/C05E2E.lean` (roots `1/2, 3, 1/3, −2`) satisfies the hypotheses for the
  record of the root `1/2`.
-/
namespace PV.C05Stored
open PV PV.Hc PV.HcFn PV.C09 PV.C09C18 PV.C09All PV.Stored PV.C09Stored PV.Plscf PV.C05
open Finset Polynomial Matrix

/-- a complex number of the pLSCF model as one of the indicator model -/
def pcx (z : Plscf.Cx ℚ) : PV.Cx ℚ := ⟨z.re, z.im⟩

/-- the tables `plscf.pLSCF_poles` returns, as the unfiltered solution of a run -/
def plscfRaw (T : Tables ℚ) : Raw :=
  ⟨T.fn, T.xi, T.phi.map (·.map (Option.map (List.map pcx))), T.lam.map (·.map (Option.map pcx))⟩

theorem cellAt_eq_cellOf {β : Type} (t : List (List (Option β))) (r k : ℕ) : cellAt t (r, k) = cellOf t r k := rfl

theorem cellAt_mapCells {β γ : Type} (g : β → γ) (t : List (List (Option β))) (x : ℕ × ℕ) :
    cellAt (t.map (·.map (Option.map g))) x = (cellAt t x).map g := by
  unfold cellAt
  cases h : t[x.1]? with
  | none => simp [h]
  | some row =>
    cases h2 : row[x.2]? with
    | none => simp [h, h2]
    | some o => simp [h, h2]

/-- the continuous-time pole `pLSCF_poles` stores for a record: `log λ/Δt`, minus `1/(τΔt)` for `"cor"` -/
def muOf (cor : Bool) (invdt invTau : ℚ) (e : EigIn ℚ) : Plscf.Cx ℚ :=
  if cor then ⟨e.logv.re * invdt - invTau, e.logv.im * invdt⟩ else ⟨e.logv.re * invdt, e.logv.im * invdt⟩

/-- **C05_stored.**  `rr × cc` any grid containing the cells concerned (the conjugate criterion reads the pole
    table on it). -/
theorem C05_stored {L : Type} [Field L] [DecidableEq L] (f : ℚ →+* L) (I : L)
    (hI : I * I = -1) (Nch Nref Nf n : Nat) (hi : Bool)
    (Om : Nat → Plscf.Cx ℚ) (Sy : Nat → Nat → Nat → Plscf.Cx ℚ) (A B : Nat → Nat → Nat → ℚ)
    (G : Nat → Nat → ℚ)
    (hfit : ExactRMFD Nch Nref Nf n Om Sy A B)
    (hG : ∀ a < Nch, ∀ b < Nch,
      ∑ t ∈ range Nch, A (cIdx hi n) a t * G t b = if a = b then 1 else 0)
    (out : OrderOut ℚ) (hrun : plscfOrder Nch Nref Nf n hi Om Sy = some out)
    (Am Cm : Mat ℚ)
    (hrm : rmfd2ac (reshapeAd Nch n out.alpha) (moveaxisBn Nch Nref n out.beta) = some (Am, Cm))
    (sqrt : ℚ → ℚ) (twoPi invdt : ℚ) (cor : Bool) (invTau : ℚ)
    (inputs : List (Mat ℚ × List (EigIn ℚ))) (T : Tables ℚ)
    (hpad : padTables (inputs.map fun p => ac2mpPoly sqrt twoPi invdt cor invTau p.1 p.2) = .ok T)
    (k : Nat) (hk : k < inputs.length) (eigs : List (EigIn ℚ)) (hin : inputs[k] = (Cm, eigs))
    (hrec : Multiset.map (fun e => emb f I e.lamd) (eigs : Multiset (EigIn ℚ))
      = ((toMx ((n + 1) * Nch) ((n + 1) * Nch) Am.e).charpoly.map f).roots)
    -- the run and the record
    (rr cc : Nat) (cl : ClassSpec) (hcl : cl ∈ classes) (conjOn : Bool) (xiMax mpcLim mpdLim covMax : ℚ)
    (dir : Nat → (Nat → PV.Cx Rat) → ℝ × ℝ)
    (r : Nat) (hr : r < rr) (hkc : k < cc) (e : EigIn ℚ) (her : eigs[r]? = some e)
    (hnz : ¬ (e.lamd.re = 0 ∧ e.lamd.im = 0)) (hstab : ¬ 0 < e.logv.re * invdt)
    (hmu : ¬ ((muOf cor invdt invTau e).re = 0 ∧ (muOf cor invdt invTau e).im = 0))
    (s : List (Plscf.Cx ℚ)) (hphi : phiCell Cm (lambdOf invdt e) e.q = some s)
    (hdamp : 0 < -((muOf cor invdt invTau e).re / sqrt ((muOf cor invdt invTau e).re * (muOf cor invdt invTau e).re
        + (muOf cor invdt invTau e).im * (muOf cor invdt invTau e).im)) ∧
      -((muOf cor invdt invTau e).re / sqrt ((muOf cor invdt invTau e).re * (muOf cor invdt invTau e).re
        + (muOf cor invdt invTau e).im * (muOf cor invdt invTau e).im)) < xiMax)
    (hshape : ShapeOk dir mpcLim mpdLim (s.map pcx))
    (hconj : conjOn = true → ∃ r' k', r' < rr ∧ k' < cc ∧ ∃ ν : Plscf.Cx ℚ, cellOf T.lam r' k' = some ν ∧
      ν.re = (muOf cor invdt invTau e).re ∧ ν.im = -(muOf cor invdt invTau e).im) :
    let p := (plscfRaw T).params rr cc xiMax mpcLim mpdLim covMax dir
    ∃ e' Tf Tx Tp, runOf cl conjOn false p = some e' ∧
      e' (retVar cl.prog "Fn_poles") = some (CVal.tbl Tf) ∧ FiltOf p conjOn false .fn Tf ∧
      e' (retVar cl.prog "Xi_poles") = some (CVal.tbl Tx) ∧ FiltOf p conjOn false .xi Tx ∧
      e' (retVar cl.prog "Phi_poles") = some (CVal.tbl Tp) ∧ FiltOf p conjOn false .phi Tp ∧
      Kept p conjOn false (r, k) ∧
      Tf (r, k) = some (.real (sqrt ((muOf cor invdt invTau e).re * (muOf cor invdt invTau e).re
        + (muOf cor invdt invTau e).im * (muOf cor invdt invTau e).im) / twoPi)) ∧
      Tx (r, k) = some (.real (-((muOf cor invdt invTau e).re / sqrt ((muOf cor invdt invTau e).re
        * (muOf cor invdt invTau e).re + (muOf cor invdt invTau e).im * (muOf cor invdt invTau e).im)))) ∧
      Tp (r, k) = some (shapeCell (s.map pcx)) := by
  intro p
  obtain ⟨_, _, hcells⟩ := C05_e2e_table_closed f I hI Nch Nref Nf n hi Om Sy A B G hfit hG out hrun Am Cm hrm
    sqrt twoPi invdt cor invTau inputs T hpad k hk eigs hin hrec
  obtain ⟨hl, hf, hx, hp, _⟩ := hcells r
  have hl' : cellOf T.lam r k = some (muOf cor invdt invTau e) := by
    rw [hl, her]
    simp only [Option.bind_some, if_neg hnz, if_neg hstab]
    unfold muOf
    cases cor <;> rfl
  have hf' := hf
  rw [hl'] at hf' hx
  simp only [Option.map_some, Option.bind_some, if_neg hmu] at hf' hx
  have hp' : cellOf T.phi r k = some s := by rw [hp, her]; exact hphi
  obtain ⟨e', Tf, Tx, Tp, he', hTf, fF, hTx, fX, hTp, fP, hkept, eF, eX, eP, _⟩ :=
    C09_raw_survives (plscfRaw T) rr cc cl hcl conjOn xiMax mpcLim mpdLim covMax dir (r, k) ⟨hr, hkc⟩ _ _
      (s.map pcx) (pcx (muOf cor invdt invTau e)) hf' hx
      (by show cellAt (T.phi.map (·.map (Option.map (List.map pcx)))) (r, k) = _
          rw [cellAt_mapCells, cellAt_eq_cellOf, hp']; rfl)
      (by show cellAt (T.lam.map (·.map (Option.map pcx))) (r, k) = _
          rw [cellAt_mapCells, cellAt_eq_cellOf, hl']; rfl)
      hdamp hshape
      (fun hc => by
        obtain ⟨r', k', h1, h2, ν, hν, hre, him⟩ := hconj hc
        refine ⟨(r', k'), h1, h2, pcx ν, ?_, hre, him⟩
        show cellAt (T.lam.map (·.map (Option.map pcx))) (r', k') = _
        rw [cellAt_mapCells, cellAt_eq_cellOf, hν]; rfl)
  exact ⟨e', Tf, Tx, Tp, he', hTf, fF, hTx, fX, hTp, fP, hkept, eF, eX, eP⟩

/-! ## Non-vacuity: all hypotheses of `C05_stored` hold jointly

The denominator of `Props/C05E2E.lean` (`det A` has the roots `1/2, 3, 1/3, −2`), now with TWO reference rows
(`B₀(z) = [1+z², z+z²]`, `B₁(z) = [z, 1+z]`) so that a mode-shape cell has two components — with one reference
channel `gen.MPC` is undefined and `HC_phi_comp` removes every pole.  `LO` convention, order 2, `Δt = 1/10`,
records of `np.log` to one decimal, `sqrt = id`, `2π = 1` (records).  The record of the root `1/2`:
`μ = −7`, stored damping `1/7`; a real pole is its own conjugate, so the conjugate criterion (on) is met. -/
namespace Ex

def B2 : Nat → Nat → Nat → Rat := fun o k c =>
  match o, k, c with
  | 0, 0, 0 => 1 | 0, 1, 1 => 1 | 0, 2, 0 => 1 | 0, 2, 1 => 1
  | 1, 0, 1 => 1 | 1, 1, 0 => 1 | 1, 1, 1 => 1
  | _, _, _ => 0
def Bz (z : Plscf.Cx Rat) (o c : Nat) : Plscf.Cx Rat :=
  e2eCxSum 3 fun k => Plscf.Cx.mul (Plscf.Cx.pow z k) ⟨B2 o k c, 0⟩
/-- the spectrum `Sy(z_f) = B(z_f)·adj A(z_f) / det A(z_f)`, computed exactly -/
def Sy2 : Nat → Nat → Nat → Plscf.Cx Rat := fun o c f =>
  let z := e2eOm f
  let det := Plscf.Cx.add (Plscf.Cx.mul (e2eAz z 0 0) (e2eAz z 1 1))
    (Plscf.Cx.neg (Plscf.Cx.mul (e2eAz z 0 1) (e2eAz z 1 0)))
  let adj : Nat → Nat → Plscf.Cx Rat := fun a b =>
    if a = 0 then (if b = 0 then e2eAz z 1 1 else Plscf.Cx.neg (e2eAz z 0 1))
    else (if b = 0 then Plscf.Cx.neg (e2eAz z 1 0) else e2eAz z 0 0)
  Plscf.Cx.div (Plscf.Cx.add (Plscf.Cx.mul (Bz z o 0) (adj 0 c)) (Plscf.Cx.mul (Bz z o 1) (adj 1 c))) det

def out2 : OrderOut Rat :=
  (plscfOrder 2 2 6 2 false e2eOm Sy2).getD ⟨fun _ _ => 0, fun _ _ => 0, fun _ _ _ => 0⟩
def AC2 : Mat Rat × Mat Rat :=
  (rmfd2ac (reshapeAd 2 2 out2.alpha) (moveaxisBn 2 2 2 out2.beta)).getD
    (⟨0, 0, fun _ _ => 0⟩, ⟨0, 0, fun _ _ => 0⟩)
def Li2 : Nat → Nat → Rat :=
  let X := (solveChecked 4 4 (fun i j => out2.M (cOff false 2 + j) (cOff false 2 + i))
    (fun i j => if i = j then 1 else 0)).getD (fun _ _ => 0)
  fun i t => X t i

theorem fit2 : ExactRMFD 2 2 6 2 e2eOm Sy2 e2eA B2 := by
  unfold ExactRMFD; decide +kernel
theorem run2 : plscfOrder 2 2 6 2 false e2eOm Sy2 = some out2 :=
  some_getD_of_isSome _ _ (by decide +kernel)
theorem inj2 : ∀ y : Nat → Rat,
    (∀ I < 2 * 2, ∑ J ∈ range (2 * 2), out2.M (cOff false 2 + I) (cOff false 2 + J) * y J = 0)
      → ∀ J < 2 * 2, y J = 0 :=
  inj_of_leftInv 4 (fun I J => out2.M (cOff false 2 + I) (cOff false 2 + J)) Li2 (by decide +kernel)
theorem rm2 : rmfd2ac (reshapeAd 2 2 out2.alpha) (moveaxisBn 2 2 2 out2.beta) = some (AC2.1, AC2.2) :=
  some_getD_of_isSome _ _ (by decide +kernel)

def inputs2 : List (Mat Rat × List (EigIn Rat)) := [(AC2.2, e2eEigs)]
def T2 : Tables Rat :=
  match padTables (inputs2.map fun p => ac2mpPoly id 1 10 false 0 p.1 p.2) with
  | .ok T => T
  | .error _ => ⟨[], [], [], []⟩
theorem pad2 : padTables (inputs2.map fun p => ac2mpPoly id 1 10 false 0 p.1 p.2) = .ok T2 := by
  have h : (padTables (inputs2.map fun p => ac2mpPoly id 1 10 false 0 p.1 p.2)).toBool = true := by
    decide +kernel
  unfold T2
  cases hp : padTables (inputs2.map fun p => ac2mpPoly id 1 10 false 0 p.1 p.2) with
  | ok T => rfl
  | error e => rw [hp] at h; simp [Except.toBool] at h

theorem rec2 : Multiset.map (fun e => emb (Rat.castHom ℂ) Complex.I e.lamd) (e2eEigs : Multiset (EigIn Rat))
    = ((toMx ((2 + 1) * 2) ((2 + 1) * 2) AC2.1.e).charpoly.map (Rat.castHom ℂ)).roots := by
  obtain ⟨-, -, -, -, -, h6, -⟩ := C05_e2e_roots (Rat.castHom ℂ) 2 2 6 2 false e2eOm Sy2
    e2eA B2 (e2eG false) fit2 (e2e_G false) out2 run2 inj2 _ _ rm2
  rw [h6, e2e_detA_roots (Rat.castHom ℂ), Multiset.map_coe]
  have : List.map (fun e => emb (Rat.castHom ℂ) Complex.I e.lamd) e2eEigs
      = [0, 0, (Rat.castHom ℂ) (1/2), (Rat.castHom ℂ) 3, (Rat.castHom ℂ) (1/3),
          (Rat.castHom ℂ) (-2)] := by
    simp [e2eEigs, emb]
  rw [this]
  rfl

/-- the shape cell of the record of the root `1/2` -/
def s2 : List (Plscf.Cx Rat) := (phiCell AC2.2 (lambdOf 10 (e2eEigs.getD 2 ⟨⟨0, 0⟩, ⟨0, 0⟩, []⟩))
  (e2eEigs.getD 2 ⟨⟨0, 0⟩, ⟨0, 0⟩, []⟩).q).getD []

theorem s2_len : (s2.map pcx).length = 2 := by decide +kernel

theorem shapeOk2 : ShapeOk (fun _ _ => (1, -1)) (7 / 10) 2 (s2.map pcx) := by
  unfold ShapeOk
  rw [s2_len]
  refine ⟨⟨1, by decide +kernel, by decide +kernel⟩, by decide +kernel, ?_⟩
  have hb := (PV.C18.C18_mpd_bounds 2 (castShape fun k => (s2.map pcx).getD k ⟨0, 0⟩) (1 : ℝ) (-1)).2
  have hpi : Real.pi / 2 ≤ 2 := by linarith [Real.pi_le_four]
  have h2 : ((2 : ℚ) : ℝ) = 2 := by norm_num
  rw [h2]
  exact le_trans hb hpi

/-- **the stored tables of every class hold the record of the root `1/2`** (`conj` on, `xi_max = 1/5`,
    `mpc_lim = 7/10`, `mpd_lim = 2`; the table is read on a `6 × 1` grid): frequency `49` (`sqrt = id`,
    `2π = 1` are records), damping `1/7`. -/
theorem stored (cl : ClassSpec) (hcl : cl ∈ classes) :
    let p := (plscfRaw T2).params 6 1 (1 / 5) (7 / 10) 2 1 (fun _ _ => (1, -1))
    ∃ e' Tf Tx Tp, runOf cl true false p = some e' ∧
      e' (retVar cl.prog "Fn_poles") = some (CVal.tbl Tf) ∧
      e' (retVar cl.prog "Xi_poles") = some (CVal.tbl Tx) ∧
      e' (retVar cl.prog "Phi_poles") = some (CVal.tbl Tp) ∧
      Kept p true false (2, 0) ∧
      Tf (2, 0) = some (.real 49) ∧ Tx (2, 0) = some (.real (1 / 7)) ∧ Tp (2, 0) = some (shapeCell (s2.map pcx)) := by
  intro p
  obtain ⟨e', Tf, Tx, Tp, he', hTf, _, hTx, _, hTp, _, hk, eF, eX, eP⟩ :=
    C05_stored (Rat.castHom ℂ) Complex.I Complex.I_mul_I 2 2 6 2 false e2eOm Sy2 e2eA B2 (e2eG false) fit2
      (e2e_G false) out2 run2 _ _ rm2 id 1 10 false 0 inputs2 T2 pad2 0 (by decide) e2eEigs rfl rec2
      6 1 cl hcl true (1 / 5) (7 / 10) 2 1 (fun _ _ => (1, -1)) 2 (by decide) (by decide)
      ⟨⟨1/2, 0⟩, ⟨-7/10, 0⟩, e2eQ (1/2) 1 0⟩ rfl (by decide +kernel) (by decide +kernel) (by decide +kernel)
      s2 (by decide +kernel) (by decide +kernel) shapeOk2
      (fun _ => ⟨2, 0, by decide, by decide, ⟨-7, 0⟩, by decide +kernel, by decide +kernel, by decide +kernel⟩)
  refine ⟨e', Tf, Tx, Tp, he', hTf, hTx, hTp, hk, ?_, ?_, eP⟩
  · rw [eF]; congr 2; decide +kernel
  · rw [eX]; congr 2; decide +kernel

end Ex

end PV.C05Stored
