import PyomaVerif.Generated.Setup
import PyomaVerif.Model.Wiring
import PyomaVerif.Props.C14
import PyomaVerif.Props.C14Algs
/-!
# The setup layer and the algorithm protocol, read off the source (C14 cl. 9/12/13, C15 cl. 1/2/3/5, C08/C13/C05 `dt`)

`Model/Prep.lean` (C14) and `Model/Orch.lean` (C15) are hand-written mirrors of `setup/{base,single,multi}.py` and
`algorithms/base.py`.  Here the statements they mirror are OBLIGATIONS over `Generated/Setup.lean`, regenerated from the
tested tree on every run by `harness/translate_setup.py` (fail closed), and evaluated by the kernel:

* which value every attribute of the setup object receives in `decimate_data` / `detrend_data` / `filter_data` /
  `rollback` / the constructors (values in terms of the state at method entry: local aliases, tuple unpacking, helper
  extraction and keyword-vs-positional spelling do not change them);
* that all stores of a preprocessing method come after its last call (a failing call leaves every attribute alone: the
  `sStep'` / `mStep'` rule of the model, clause 12, is no longer only a definition);
* that the initial copy is a `copy.deepcopy` of the constructor's arguments, and which methods write the object at all;
* the `Variant` of `Model/Prep.lean` DERIVED from the stores (`variantOfSource = some Variant.current`), which discharges the
  hypothesis `hv : v.multiRepaired` of the PreGER theorems;
* `BaseAlgorithm._set_data` stores `data`, `fs`, `dt = 1 / fs` and `add_algorithms` hands it `self.data`, `self.fs`;
* `_pre_run`'s two tests in order, `run_by_name` = `_pre_run(); run(); _set_result(result)`, `__getitem__`'s `KeyError`;
* no algorithm class overrides a protocol method; a fresh instance has `result = run_params = None` and NO `fs/dt/data`;
* in every `mpe` the order guard < stores into `run_params` < extraction call < stores into `result`.
-/
namespace PV.WiringSetup
open PV.SetupTbl PV.Gen.Setup PV.Prep

def S : String := "SingleSetup"
def M : String := "MultiSetup_PreGER"
def A : String := "BaseAlgorithm"
def B : String := "BaseSetup"

/-! ## C14: what the preprocessing methods store -/

/-- **SingleSetup.** `decimate_data` stores the decimated array, `fs/q`, `1/(fs/q)`, the new row count and the helper's
    duration `1/(fs/q)/q·Ndat` (the known finding: NOT `dt·Ndat`); `scipy.signal.decimate` receives `self.data` and `q`.
    `detrend_data` / `filter_data` store only `data`: what `detrend(self.data, axis=…, **kwargs)` / `gen.filter_data(data=self.data,
    fs=self.fs, Wn, order, btype)` returned — the CURRENT `fs` reaches the filter design, and scipy receives no keyword
    besides `axis` and the caller's own (no hard-wired `overwrite_data=True`). -/
theorem C14_single_stores_from_source :
    tbl.storedExactly S "decimate_data"
      [("self.data", "signal.decimate[0]"), ("self.fs", "self.fs / q"), ("self.dt", "1 / (self.fs / q)"),
       ("self.Ndat", "signal.decimate[0].shape[0]"), ("self.T", "1 / (self.fs / q) / q * signal.decimate[0].shape[0]")] = true
    ∧ tbl.arg S "decimate_data" "signal.decimate" "x" = some "self.data"
    ∧ tbl.arg S "decimate_data" "signal.decimate" "q" = some "q"
    ∧ (tbl.calls S "decimate_data" "signal.decimate").length = 1
    ∧ tbl.storedExactly S "detrend_data" [("self.data", "signal.detrend[0]")] = true
    ∧ tbl.bindsExactly S "detrend_data" "signal.detrend" [("data", "self.data"), ("axis", "kwargs.pop[0]"), ("**", "kwargs")] = true
    ∧ tbl.bindsExactly S "decimate_data" "signal.decimate" [("x", "self.data"), ("q", "q"), ("**", "{'axis': kwargs.pop[0], **kwargs}")] = true
    ∧ (tbl.calls S "detrend_data" "signal.detrend").length = 1
    ∧ tbl.storedExactly S "filter_data" [("self.data", "gen.filter_data[0]")] = true
    ∧ tbl.bindsExactly S "filter_data" "gen.filter_data"
        [("data", "self.data"), ("fs", "self.fs"), ("Wn", "Wn"), ("order", "order"), ("btype", "btype")] = true
    ∧ (tbl.calls S "filter_data" "gen.filter_data").length = 1 := by
  decide

/-- **MultiSetup_PreGER.** `decimate_data`: `datasets` = the decimated array of every dataset, `data` = `pre_multisetup` of
    exactly those with `self.ref_ind`, `fs/q`, `dt = 1/(fs/q)` (the NEW `fs`), row counts and `dt·Ndat` per dataset;
    `filter_data` / `detrend_data` store BOTH `datasets` and the re-split `data`; the filter is designed for `self.fs`. -/
theorem C14_multi_stores_from_source :
    tbl.storedExactly M "decimate_data"
      [("self.datasets", "[signal.decimate[0] for data in self.datasets]"), ("self.data", "gen.pre_multisetup[0]"),
       ("self.fs", "self.fs / q"), ("self.dt", "1 / (self.fs / q)"),
       ("self.Ndats", "[signal.decimate[0].shape[0] for data in self.datasets]"),
       ("self.Ts", "[1 / (self.fs / q) * signal.decimate[0].shape[0] for data in self.datasets]")] = true
    ∧ tbl.arg M "decimate_data" "signal.decimate" "x" = some "data"
    ∧ tbl.arg M "decimate_data" "signal.decimate" "q" = some "q"
    ∧ tbl.bindsExactly M "decimate_data" "gen.pre_multisetup"
        [("dataList", "[signal.decimate[0] for data in self.datasets]"), ("reflist", "self.ref_ind")] = true
    ∧ tbl.storedExactly M "filter_data"
        [("self.datasets", "[gen.filter_data[0] for data in self.datasets]"), ("self.data", "gen.pre_multisetup[0]")] = true
    ∧ tbl.bindsExactly M "filter_data" "gen.filter_data"
        [("data", "data"), ("fs", "self.fs"), ("Wn", "Wn"), ("order", "order"), ("btype", "btype")] = true
    ∧ tbl.bindsExactly M "filter_data" "gen.pre_multisetup"
        [("dataList", "[gen.filter_data[0] for data in self.datasets]"), ("reflist", "self.ref_ind")] = true
    ∧ tbl.storedExactly M "detrend_data"
        [("self.datasets", "[signal.detrend[0] for data in self.datasets]"), ("self.data", "gen.pre_multisetup[0]")] = true
    ∧ tbl.bindsExactly M "detrend_data" "signal.detrend" [("data", "data"), ("axis", "kwargs.pop[0]"), ("**", "kwargs")] = true
    ∧ tbl.bindsExactly M "detrend_data" "gen.pre_multisetup"
        [("dataList", "[signal.detrend[0] for data in self.datasets]"), ("reflist", "self.ref_ind")] = true
    ∧ ([("decimate_data", "signal.decimate"), ("filter_data", "gen.filter_data"), ("detrend_data", "signal.detrend")].all fun p =>
        (tbl.calls M p.1 p.2).length == 1 && (tbl.calls M p.1 "gen.pre_multisetup").length == 1) = true := by
  decide

/-- **Clause 12.** In the six preprocessing methods every store is unconditional, outside loops and comes AFTER every call
    and every `raise` of the method (helpers inlined): the first attribute is assigned when nothing is left that can raise. -/
theorem C14_stores_after_last_call :
    ([S, M].all fun c => ["decimate_data", "detrend_data", "filter_data"].all fun m => tbl.storesAfterAllCalls c m) = true := by
  decide

/-- **Clause 9 / 13: the initial copy.**  `_initialize_data` keeps `copy.deepcopy` of the arrays it is given (and of
    `ref_ind`), `rollback` re-installs the kept objects as `data` / `fs` (`fs`, `ref_ind`, `datasets`) and re-initialises from
    them — deep-copying again, so the object in use is never the stored copy — and empties `algorithms`. -/
theorem C14_initial_copy_from_source :
    tbl.storedExactly S "_initialize_data"
      [("self._initial_data", "copy.deepcopy[0]"), ("self._initial_fs", "fs"), ("self.dt", "1 / fs"),
       ("self.Nch", "data.shape[1]"), ("self.Ndat", "data.shape[0]"), ("self.T", "1 / fs * data.shape[0]"),
       ("self.algorithms", "{}")] = true
    ∧ tbl.bindsExactly S "_initialize_data" "copy.deepcopy" [("#0", "data")] = true
    ∧ tbl.storedExactly S "__init__"
      [("self.data", "data"), ("self.fs", "fs"),
       ("self._initial_data", "copy.deepcopy[0]"), ("self._initial_fs", "fs"), ("self.dt", "1 / fs"),
       ("self.Nch", "data.shape[1]"), ("self.Ndat", "data.shape[0]"), ("self.T", "1 / fs * data.shape[0]"),
       ("self.algorithms", "{}")] = true
    ∧ tbl.storedExactly S "rollback"
      [("self.data", "self._initial_data"), ("self.fs", "self._initial_fs"),
       ("self._initial_data", "copy.deepcopy[0]"), ("self._initial_fs", "self._initial_fs"), ("self.dt", "1 / self._initial_fs"),
       ("self.Nch", "self._initial_data.shape[1]"), ("self.Ndat", "self._initial_data.shape[0]"),
       ("self.T", "1 / self._initial_fs * self._initial_data.shape[0]"), ("self.algorithms", "{}")] = true
    ∧ tbl.bindsExactly S "rollback" "copy.deepcopy" [("#0", "self._initial_data")] = true
    ∧ tbl.storedExactly M "_initialize_data"
      [("self._initial_fs", "fs"), ("self._initial_ref_ind", "copy.deepcopy[0]"), ("self._initial_datasets", "copy.deepcopy[1]"),
       ("self.dt", "1 / fs"), ("self.Nsetup", "len[0]"), ("self.data", "gen.pre_multisetup[0]"), ("self.algorithms", "{}"),
       ("self.Nchs", "[data.shape[1] for data in datasets]"), ("self.Ndats", "[data.shape[0] for data in datasets]"),
       ("self.Ts", "[1 / fs * data.shape[0] for data in datasets]")] = true
    ∧ tbl.bindsExactly M "_initialize_data" "copy.deepcopy" [("#0", "ref_ind")] 0 = true
    ∧ tbl.bindsExactly M "_initialize_data" "copy.deepcopy" [("#0", "datasets")] 1 = true
    ∧ tbl.bindsExactly M "_initialize_data" "gen.pre_multisetup" [("dataList", "datasets"), ("reflist", "ref_ind")] = true
    ∧ tbl.bindsExactly M "_initialize_data" "len" [("#0", "ref_ind")] = true
    ∧ tbl.stored M "rollback" "self.fs" = some "self._initial_fs"
    ∧ tbl.stored M "rollback" "self.ref_ind" = some "self._initial_ref_ind"
    ∧ tbl.stored M "rollback" "self.datasets" = some "self._initial_datasets"
    ∧ tbl.stored M "rollback" "self.algorithms" = some "{}"
    ∧ tbl.bindsExactly M "rollback" "gen.pre_multisetup"
        [("dataList", "self._initial_datasets"), ("reflist", "self._initial_ref_ind")] = true
    ∧ tbl.bindsExactly M "rollback" "copy.deepcopy" [("#0", "self._initial_datasets")] 1 = true
    ∧ tbl.stored M "__init__" "self.datasets" = some "datasets"
    ∧ tbl.stored M "__init__" "self._initial_datasets" = some "copy.deepcopy[1]"
    ∧ tbl.bindsExactly M "__init__" "copy.deepcopy" [("#0", "datasets")] 1 = true := by
  decide

/-- **Clause 13, who may write.**  The only entry points (public methods and `__init__`) of the two setup classes (own or
    inherited from `BaseSetup`) that assign or modify an attribute of the object — directly or through a private helper —
    are the constructor, `rollback`, the three preprocessing methods and `add_algorithms` (which writes `algorithms` only) — no `plot_*`, `run_*`, `mpe*`, `get` does; and no walked method modifies
    one of its arguments or an attribute of the object IN PLACE (`x[...] = …`, `x += …`, `x.sort()` …). -/
theorem C14_writers_from_source :
    sameSet (tbl.writers S) ["__init__", "rollback", "decimate_data", "detrend_data", "filter_data", "add_algorithms"] = true
    ∧ sameSet (tbl.writers M) ["__init__", "rollback", "decimate_data", "detrend_data", "filter_data", "add_algorithms"] = true
    ∧ (tbl.method B "add_algorithms").map (·.writes) = some ["algorithms"]
    ∧ (tbl.methods.all fun m => m.inplace.isEmpty) = true
    ∧ ([S, M].all fun c => ["add_algorithms", "run_by_name", "run_all", "mpe", "mpe_from_plot", "__getitem__"].all fun m =>
        tbl.resolve c m == some B) = true
    ∧ ([S, M].all fun c => ["__init__", "rollback", "decimate_data", "detrend_data", "filter_data"].all fun m =>
        tbl.resolve c m == some c) = true := by
  decide

/-! ## The `Variant` of `Model/Prep.lean`, derived -/

/-- which of the statements F7–F10 the tested tree has, read off the stores (`none`: a form that is neither the pinned nor
    the repaired statement). -/
def variantOfSource : Option Variant :=
  let helperT := "1 / (self.fs / q) / q * signal.decimate[0].shape[0]"
  let dtN := "1 / (self.fs / q) * signal.decimate[0].shape[0]"
  let ts : Option Bool := match tbl.stored S "decimate_data" "self.T" with
    | some x => if x == helperT then some true else if x == dtN then some false else none
    | none => none
  let tm : Option Bool := match tbl.stored M "decimate_data" "self.Ts" with
    | some x => if x == "[1 / (self.fs / q) / q * signal.decimate[0].shape[0] for data in self.datasets]" then some true
                else if x == "[1 / (self.fs / q) * signal.decimate[0].shape[0] for data in self.datasets]" then some false else none
    | none => none
  let sd : Option Bool := match tbl.stored M "decimate_data" "self.dt" with
    | some x => if x == "1 / self.fs" then some true else if x == "1 / (self.fs / q)" then some false else none
    | none => none
  let fd : Option Bool :=
    match (tbl.stored M "filter_data" "self.datasets").isSome, (tbl.stored M "detrend_data" "self.datasets").isSome with
    | true, true => some false
    | false, false => some true
    | _, _ => none
  let keys := fun callee => (tbl.calls M "decimate_data" callee).map (fun s => (s.bind.lookup "#0").getD "")
  let want := ["'n'", "'ftype'", "'axis'", "'zero_phase'"]
  let dk : Option Bool :=
    if sameSet (keys "kwargs.pop") want && (keys "kwargs.get").isEmpty then some false
    else if sameSet (keys "kwargs.get") want && (keys "kwargs.pop").isEmpty then some true else none
  match ts, tm, sd, fd, dk with
  | some a, some b, some c, some d, some e => some ⟨a, b, c, d, e⟩
  | _, _, _, _, _ => none

/-- **The model the driver runs is the model of the tested tree**: the flags derived from the stores are exactly
    `Variant.current` (the four PreGER repairs in, `SingleSetup.T` the helper's value). -/
theorem C14_variant_from_source : variantOfSource = some Variant.current := by
  decide

/-- `hv` of the PreGER theorems, from the source. -/
theorem C14_multiRepaired_from_source (v : Variant) (h : variantOfSource = some v) : v.multiRepaired = true := by
  rw [C14_variant_from_source] at h
  cases h
  decide

example : ∃ v, variantOfSource = some v := ⟨_, C14_variant_from_source⟩

/-- **C14 invariant of PreGER without the source-fact hypothesis**: for the variant the tested tree has. -/
theorem C14_invariant_multi_from_source (v : Variant) (h : variantOfSource = some v) (c : MCfg) (hc : c.n0 ≠ [])
    (ops : List Op) :
    (mRun v c ops).fs = c.fs0 / ((prodNat (activeQs ops) : Nat) : Rat) ∧
    (mRun v c ops).dt = 1 / (mRun v c ops).fs ∧
    (mRun v c ops).Ndats = (mRun v c ops).datasets.map (Term.len c.n0f) ∧
    (mRun v c ops).Ts = (mRun v c ops).datasets.map
        (fun d => (mRun v c ops).dt * ((d.len c.n0f : Nat) : Rat)) ∧
    (mRun v c ops).datasets = (c.spec ops).terms ∧
    (mRun v c ops).data = preMultisetup c.nchf (c.spec ops).terms c.refInd ∧
    (mRun v c ops).fs = (c.spec ops).fs :=
  PV.C14.C14_invariant_multi v (C14_multiRepaired_from_source v h) c hc ops

/-- what `add_algorithms` binds and what `rollback` restores on PreGER, for the variant the tested tree has. -/
theorem C14_bound_rollback_multi_from_source (v : Variant) (h : variantOfSource = some v) (c : MCfg) (hc : c.n0 ≠ [])
    (ops : List Op) :
    (mRun v c (ops ++ [.add])).bound.head? =
      some ⟨preMultisetup c.nchf (c.spec ops).terms c.refInd, (c.spec ops).fs, 1 / (c.spec ops).fs⟩
    ∧ mStep v c (mRun v c ops) .rollback = .ok { mInit c with bound := (mRun v c ops).bound } :=
  ⟨PV.C14.C14_bound_multi v (C14_multiRepaired_from_source v h) c hc ops,
   PV.C14.C14_rollback_multi v (C14_multiRepaired_from_source v h) c hc ops⟩

example : variantOfSource = some Variant.current ∧ (⟨[600, 500], [4, 3], 100, [[2, 0], [1, 0]]⟩ : MCfg).n0 ≠ [] := by
  decide

/-! ## `_set_data`: what an algorithm is bound to (C14 cl. 1/2, C08 time unit, C13 grid, C05 `dt`) -/

/-- `BaseAlgorithm._set_data(data, fs)` stores exactly `data`, `fs` and `dt = 1 / fs` and returns the instance;
    `BaseSetup.add_algorithms` calls it once per added algorithm with `data = self.data`, `fs = self.fs`, and assigns nothing
    but `self.algorithms`. -/
theorem C14_set_data_from_source :
    tbl.storedExactly A "_set_data" [("self.data", "data"), ("self.fs", "fs"), ("self.dt", "1 / fs")] = true
    ∧ (tbl.method A "_set_data").map (·.ret) = some "self"
    ∧ tbl.callees A "_set_data" = [] ∧ tbl.raisePairs A "_set_data" = []
    ∧ tbl.bindsExactly B "add_algorithms" "alg._set_data" [("data", "self.data"), ("fs", "self.fs")] = true
    ∧ (tbl.calls B "add_algorithms" "alg._set_data").map (·.loop) = [true]
    ∧ (tbl.storesOf B "add_algorithms").map (·.target) = ["self.algorithms"] := by
  decide

/-- the executable model's `add` step binds exactly that: the setup's current `data`, `fs`, and `dt = 1 / fs`
    (`sBind_dt`; SingleSetup and PreGER, every variant). -/
theorem C14_add_binds_model (v : Variant) :
    (∀ (c : SCfg) (s : SState), ∃ s', sStep v c s .add = .ok s' ∧ s'.bound.head? = some ⟨s.data, s.fs, 1 / s.fs⟩
        ∧ s'.algs = s.algs ++ [⟨s.data, s.fs, 1 / s.fs⟩] ∧ s'.data = s.data ∧ s'.fs = s.fs)
    ∧ (∀ (c : MCfg) (s : MState), ∃ s', mStep v c s .add = .ok s' ∧ s'.bound.head? = some ⟨s.data, s.fs, 1 / s.fs⟩
        ∧ s'.algs = s.algs ++ [⟨s.data, s.fs, 1 / s.fs⟩] ∧ s'.data = s.data ∧ s'.fs = s.fs) :=
  ⟨fun _ _ => ⟨_, rfl, rfl, rfl, rfl, rfl⟩, fun _ _ => ⟨_, rfl, rfl, rfl, rfl, rfl⟩⟩

/-- the executable model's SingleSetup decimation stores the closed forms of `C14_single_stores_from_source`:
    `fs/q`, `1/(fs/q)`, the row count of the new array and the helper's duration `1/(fs/q)/q·Ndat`. -/
theorem C14_single_decimate_model (c : SCfg) (s s' : SState) (q : Nat) (kw : DecKwIn)
    (h : sStep Variant.current c s (.decimate q kw) = .ok s') :
    s'.fs = s.fs / (q : Rat) ∧ s'.dt = 1 / (s.fs / (q : Rat)) ∧ s'.Ndat = c.len s'.data
    ∧ s'.T = 1 / (s.fs / (q : Rat)) / (q : Rat) * (s'.Ndat : Rat)
    ∧ s'.initData = s.initData ∧ s'.algs = s.algs := by
  simp only [sStep, helperDecimate, bind, Except.bind, pure, Except.pure] at h
  split at h
  · cases h
  · rename_i kw' _
    cases hd : sciDecimate s.data q kw' with
    | error e => simp only [hd] at h; cases h
    | ok nd => simp only [hd] at h; cases h; exact ⟨rfl, rfl, rfl, rfl, rfl, rfl⟩

example : ∃ s', sStep Variant.current ⟨600, 3, 100⟩ (sInit ⟨600, 3, 100⟩) (.decimate 4 {}) = .ok s' := ⟨_, rfl⟩

/-! ## C15: the run protocol -/

/-- **`_pre_run`** raises `ValueError` when `fs` or `data` is `None`, else `ValueError` when the run parameters are unset,
    in this order, and does nothing else (no call, no store); **`run_by_name`** is `self[name]._pre_run()`,
    `self[name].run()`, `self[name]._set_result(<what run returned>)` in this order and assigns nothing on the setup;
    `_set_result` stores exactly `self.result = result`; `self[name]` raises `KeyError` iff the name is not a key of
    `self.algorithms` and otherwise returns `self.algorithms[name]`; `run_all` calls `run_by_name(name=<key>)` in a loop. -/
theorem C15_prerun_from_source :
    tbl.raisePairs A "_pre_run"
      = [(["self.fs is None or self.data is None"], "ValueError"),
         (["not (self.fs is None or self.data is None)", "not self.run_params"], "ValueError")]
    ∧ tbl.callees A "_pre_run" = [] ∧ tbl.storePairs A "_pre_run" = []
    ∧ (tbl.method A "_pre_run").map (fun m => (m.writes, m.inplace, m.decorators)) = some ([], [], [])
    ∧ tbl.callees B "run_by_name" = ["self[name]._pre_run", "self[name].run", "self[name]._set_result"]
    ∧ tbl.bindsExactly B "run_by_name" "self[name]._set_result" [("result", "self[name].run[0]")] = true
    ∧ tbl.bindsExactly B "run_by_name" "self[name].run" [] = true
    ∧ ((tbl.sitesOf B "run_by_name").all fun s => s.cond.isEmpty && !s.loop) = true
    ∧ tbl.storePairs B "run_by_name" = [] ∧ tbl.raisePairs B "run_by_name" = []
    ∧ tbl.storedExactly A "_set_result" [("self.result", "result")] = true
    ∧ tbl.raisePairs B "__getitem__" = [(["not (name in self.algorithms)"], "KeyError")]
    ∧ (tbl.method B "__getitem__").map (·.ret) = some "self.algorithms[name]"
    ∧ tbl.bindsExactly B "run_all" "self.run_by_name" [("name", "alg_name")] = true
    ∧ tbl.callees B "run_all" = ["self.run_by_name"] := by
  decide

/-- **`BaseSetup.mpe` / `mpe_from_plot`** forward all their arguments to the named algorithm's method and touch nothing. -/
theorem C15_setup_mpe_from_source :
    tbl.bindsExactly B "mpe" "self[name].mpe" [("*0", "args"), ("**", "kwargs")] = true
    ∧ tbl.bindsExactly B "mpe_from_plot" "self[name].mpe_from_plot" [("*0", "args"), ("**", "kwargs")] = true
    ∧ tbl.callees B "mpe" = ["self[name].mpe"] ∧ tbl.callees B "mpe_from_plot" = ["self[name].mpe_from_plot"]
    ∧ tbl.storePairs B "mpe" = [] ∧ tbl.storePairs B "mpe_from_plot" = [] := by
  decide

/-- **No algorithm class overrides the protocol**: `_pre_run`, `_set_data`, `_set_result`, `set_run_params` and `__init__` of
    all eleven algorithm classes are `BaseAlgorithm`'s (class table of `Generated/Wiring.lean`). -/
theorem C15_protocol_not_overridden :
    (["_pre_run", "_set_data", "_set_result", "set_run_params", "__init__"].all fun m =>
      PV.Wiring.allResolve PV.Wiring.algClasses m "BaseAlgorithm") = true
    ∧ PV.Wiring.algClasses.length = 11 := by
  decide

/-- **A fresh instance**: `result` and `run_params` are class-level `None`; `fs`, `dt`, `data` are annotations without a value
    (an instance that never saw `_set_data` does not have them: `Orch.Bound.missing`); the constructor assigns only
    `run_params` (the argument if truthy, else `RunParamCls(**kwargs)` if there are keywords, else nothing) and `name`. -/
theorem C15_fresh_defaults :
    (tbl.classInfo A).map (fun k => (k.attrs.lookup "result", k.attrs.lookup "run_params", k.attrs.lookup "name"))
      = some (some "None", some "None", some "None")
    ∧ (tbl.classInfo A).map (fun k => ["fs", "dt", "data"].all fun a => !k.own.contains a) = some true
    ∧ tbl.storePairs A "__init__"
      = [("self.run_params", "run_params"), ("self.run_params", "self.RunParamCls[0]"), ("self.name", "name or self.__class__.__name__")]
    ∧ (tbl.storesOf A "__init__").map (·.cond) = [["run_params"], ["not (run_params)", "kwargs"], []]
    ∧ tbl.bindsExactly A "__init__" "self.RunParamCls" [("**", "kwargs")] = true
    ∧ tbl.storedExactly A "set_run_params" [("self.run_params", "run_params")] = true := by
  decide

/-- in the `mpe` body of class `d`: guard < every store into `self.run_params` < the extraction call < every store into
    `self.result`, and nothing else is stored. -/
def mpeOrdered (d callee : String) : Bool :=
  match PV.Wiring.methodInfo d "mpe", PV.Wiring.site d "mpe" callee with
  | some mi, some s =>
    let st := PV.Wiring.Gen.stores.filter (fun x => x.cls == d && x.method == "mpe")
    !st.isEmpty && 0 < mi.guardPos && st.all (fun x =>
      if x.target.startsWith "self.run_params." then mi.guardPos < x.pos && x.pos < s.pos
      else if x.target.startsWith "self.result." then s.pos < x.pos
      else false)
  | _, _ => false

/-- **C15 cl. 3, the order inside every `mpe`** (the four bodies all eleven classes resolve to, `C15_guard_sites`):
    guard – store the parameters – extract – store the result. -/
theorem C15_mpe_order_from_source :
    mpeOrdered "SSIdat" "ssi.SSI_mpe" = true ∧ mpeOrdered "pLSCF" "plscf.pLSCF_mpe" = true
    ∧ mpeOrdered "FDD" "fdd.FDD_mpe" = true ∧ mpeOrdered "EFDD" "fdd.EFDD_mpe" = true := by
  decide +kernel

end PV.WiringSetup
