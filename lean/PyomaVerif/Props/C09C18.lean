import PyomaVerif.Props.C09
import PyomaVerif.Props.C18
/-!
# C09 ∘ C18 — the hard criteria of a run, read with the library's own MPC / MPD

`Props/C09.lean` proves, for *every* meaning `Sem` of the criteria on cells, that each result
table of a `run()` is the unfiltered table blanked exactly where an enabled criterion fails.
Here `Sem` is instantiated with the indicator definitions of `Model/Indicators.lean`
(the ones `Props/C18.lean` is about and the driver executes), so the statement becomes:
a pole left in the tables has `0 < ξ < ξ_max`, `MPC(φ) ≥ mpc_lim`, `MPD(φ) ≤ mpd_lim`
(and `cov < cov_max`, and a conjugate partner, when those are enabled) — and conversely.

* cells: real numbers (`fn`, `xi`, covariances), complex numbers (`lam`), complex vectors (`phi`);
* MPC is `mpcClosed?` (exact rational closed form; `C18_mpc_closed_form` identifies it with
  the eigenvalue expression `gen.MPC` evaluates, under the `eigvals` contract);
* MPD is `mpd` over `ℝ` of the (rational) shape with the direction `V[:,1]` returned by
  `np.linalg.svd` as an explicit parameter `dir` of the instance (no contract is needed for
  the statements below); a zero shape is `0/0 = NaN` in the code and never passes.
-/
namespace PV.C09C18
open PV PV.Hc PV.HcFn PV.C09

/-- one cell of a solution table -/
inductive Cell where
  | real (x : Rat)
  | cplx (z : Cx Rat)
  | shape (n : Nat) (v : Nat → Cx Rat)

namespace Cell
def real? : Cell → Option Rat
  | real x => some x
  | _ => none
/-- `gen.MPC` of a mode-shape cell (`none`: not a shape, fewer than two components) -/
def mpc? : Cell → Option Rat
  | shape n v => mpcClosed? n v
  | _ => none
end Cell

/-- the rational shape as a real one -/
def castShape (v : Nat → Cx Rat) : Nat → Cx ℝ := fun k => ⟨((v k).re : ℝ), ((v k).im : ℝ)⟩

/-- the shape is not the zero vector (else `gen.MPD` is `0/0`) -/
def shapeNonZero (n : Nat) (v : Nat → Cx Rat) : Bool :=
  (List.range n).any fun k => decide ((v k).re ≠ 0) || decide ((v k).im ≠ 0)

/-- the data of a run: unfiltered tables, thresholds, the SVD direction used by `gen.MPD`,
    the whole-table conjugate test -/
structure Params (Idx : Type) where
  orig : Tbl → Idx → Option Cell
  xiMax : Rat
  mpcLim : Rat
  mpdLim : Rat
  covMax : Rat
  /-- `(V[0,1], V[1,1])` of `np.linalg.svd([Re φ, Im φ])` -/
  dir : Nat → (Nat → Cx Rat) → ℝ × ℝ
  conjT : (Idx → Option Cell) → Idx → Bool

variable {Idx : Type}

/-- `gen.MPD` of a shape cell, as a real number -/
noncomputable def mpdVal (p : Params Idx) (n : Nat) (v : Nat → Cx Rat) : ℝ :=
  mpd n (castShape v) (p.dir n v).1 (p.dir n v).2

open Classical in
/-- the criteria on cells with the library's indicators -/
noncomputable def cellOk (p : Params Idx) : Crit → Option Cell → Bool
  | .conj, _ => true
  | .damp _, x => dampMask p.xiMax (x.bind Cell.real?)
  | .cov _, x => covMask p.covMax (x.bind Cell.real?)
  | .mpc _, x => mpcMask p.mpcLim (x.bind Cell.mpc?)
  | .mpd _, some (.shape n v) => shapeNonZero n v && decide (mpdVal p n v ≤ (p.mpdLim : ℝ))
  | .mpd _, _ => false

/-- **the `Sem` instance with the real indicator definitions** -/
noncomputable def semIndicators (p : Params Idx) : Sem Idx Cell where
  orig := p.orig
  cell := cellOk p
  cell_none := by
    intro c hc
    cases c <;> simp_all [cellOk, dampMask, covMask, mpcMask]
  conjT := p.conjT

/-! ### what each criterion says about the unfiltered tables -/
def ConjOk (p : Params Idx) (i : Idx) : Prop := p.conjT (p.orig .lam) i = true
def DampOk (p : Params Idx) (i : Idx) : Prop :=
  ∃ x, p.orig .xi i = some (.real x) ∧ 0 < x ∧ x < p.xiMax
def CovOk (p : Params Idx) (i : Idx) : Prop :=
  ∃ x, p.orig .fncov i = some (.real x) ∧ x < p.covMax
/-- the pole's shape has `MPC ≥ mpc_lim` — and, by `C18_mpc_bounds`, `MPC ∈ [0,1]` -/
def MpcOk (p : Params Idx) (i : Idx) : Prop :=
  ∃ n v q, p.orig .phi i = some (.shape n v) ∧ mpcClosed? n v = some q ∧ p.mpcLim ≤ q
def MpdOk (p : Params Idx) (i : Idx) : Prop :=
  ∃ n v, p.orig .phi i = some (.shape n v) ∧ shapeNonZero n v = true ∧ mpdVal p n v ≤ (p.mpdLim : ℝ)

theorem crit_conj (p : Params Idx) (i : Idx) :
    critOrig (semIndicators p) .conj i = true ↔ ConjOk p i := by
  simp [critOrig, semIndicators, ConjOk]

theorem crit_damp (p : Params Idx) (t : Thr) (i : Idx) :
    critOrig (semIndicators p) (.damp t) i = true ↔ DampOk p i := by
  simp only [critOrig, semIndicators, cellOk, critTbl, reduceCtorEq, if_false, DampOk]
  rw [hcDamp_mask_iff]
  constructor
  · rintro ⟨x, hx, h1, h2⟩
    cases h : p.orig .xi i with
    | none => rw [h] at hx; cases hx
    | some c =>
      rw [h] at hx
      cases c <;> simp [Cell.real?] at hx
      subst hx; exact ⟨_, rfl, h1, h2⟩
  · rintro ⟨x, hx, h1, h2⟩
    exact ⟨x, by rw [hx]; rfl, h1, h2⟩

theorem crit_cov (p : Params Idx) (t : Thr) (i : Idx) :
    critOrig (semIndicators p) (.cov t) i = true ↔ CovOk p i := by
  simp only [critOrig, semIndicators, cellOk, critTbl, reduceCtorEq, if_false, CovOk]
  rw [hcCov_mask_iff]
  constructor
  · rintro ⟨x, hx, h1⟩
    cases h : p.orig .fncov i with
    | none => rw [h] at hx; cases hx
    | some c =>
      rw [h] at hx
      cases c <;> simp [Cell.real?] at hx
      subst hx; exact ⟨_, rfl, h1⟩
  · rintro ⟨x, hx, h1⟩
    exact ⟨x, by rw [hx]; rfl, h1⟩

theorem crit_mpc (p : Params Idx) (t : Thr) (i : Idx) :
    critOrig (semIndicators p) (.mpc t) i = true ↔ MpcOk p i := by
  simp only [critOrig, semIndicators, cellOk, critTbl, reduceCtorEq, if_false, MpcOk]
  rw [mpc_mask_iff]
  constructor
  · rintro ⟨q, hq, h1⟩
    cases h : p.orig .phi i with
    | none => rw [h] at hq; cases hq
    | some c =>
      rw [h] at hq
      cases c with
      | real x => simp [Cell.mpc?] at hq
      | cplx z => simp [Cell.mpc?] at hq
      | shape n v => exact ⟨n, v, q, rfl, by simpa [Cell.mpc?] using hq, h1⟩
  · rintro ⟨n, v, q, hx, hq, h1⟩
    exact ⟨q, by rw [hx]; simpa [Cell.mpc?] using hq, h1⟩

theorem crit_mpd (p : Params Idx) (t : Thr) (i : Idx) :
    critOrig (semIndicators p) (.mpd t) i = true ↔ MpdOk p i := by
  simp only [critOrig, semIndicators, critTbl, reduceCtorEq, if_false, MpdOk]
  constructor
  · intro h
    cases hc : p.orig .phi i with
    | none => rw [hc] at h; simp [cellOk] at h
    | some c =>
      rw [hc] at h
      cases c with
      | real x => simp [cellOk] at h
      | cplx z => simp [cellOk] at h
      | shape n v =>
        simp only [cellOk, Bool.and_eq_true, decide_eq_true_eq] at h
        exact ⟨n, v, rfl, h.1, h.2⟩
  · rintro ⟨n, v, hx, h1, h2⟩
    rw [hx]
    simp only [cellOk, Bool.and_eq_true, decide_eq_true_eq]
    exact ⟨h1, h2⟩

/-- all criteria enabled by a configuration, spelled out -/
theorem enabled_iff (p : Params Idx) (conjOn covOn : Bool) (i : Idx) :
    (∀ c ∈ enabled conjOn covOn, critOrig (semIndicators p) c i = true) ↔
      ((conjOn = true → ConjOk p i) ∧ DampOk p i ∧ MpdOk p i ∧ MpcOk p i ∧ (covOn = true → CovOk p i)) := by
  cases conjOn <;> cases covOn <;>
    simp [enabled, crit_conj, crit_damp, crit_mpd, crit_mpc, crit_cov]

/-! ### the composed statements -/

/-- the local variable of the translated `run()` body that the result field `f` is filled from (looked up in the
    regenerated program, so that renaming a local or moving the block into a helper does not change the statement) -/
def retVar (P : ClassProg) (f : String) : String := (P.ret.lookup f).getD ""

/-- **Generic form** (any translated `run()` body whose sequencing obligation checks): the run
    terminates and every tracked, present result table `T` satisfies: `T i` is non-NaN iff the
    unfiltered cell is that value and the pole passes every enabled criterion, read with the
    library's indicators. -/
theorem kept_iff_of_check (P : ClassProg) (req : List String) (conjOn covOn : Bool)
    (hchk : check P req conjOn covOn = true) (p : Params Idx) :
    ∃ e', crun (semIndicators p) (initCEnv (semIndicators p) covOn P.init) (select conjOn covOn P.prog) = some e' ∧
      ∀ f x o, (f, x) ∈ P.ret → fieldTbl f = some o → (isCovTbl o && !covOn) = false →
        ∃ T, e' x = some (CVal.tbl T) ∧ ∀ i c, T i = some c ↔
          (p.orig o i = some c ∧ (conjOn = true → ConjOk p i) ∧ DampOk p i ∧ MpdOk p i ∧ MpcOk p i
            ∧ (covOn = true → CovOk p i)) := by
  obtain ⟨e', he', hret, _⟩ := check_sound P req conjOn covOn hchk (semIndicators p)
  refine ⟨e', he', ?_⟩
  intro f x o hmem hf hcov
  have h := hret f x o hmem hf
  rw [if_neg (by simp [hcov])] at h
  refine ⟨_, h, ?_⟩
  intro i c
  rw [denoteTbl_iff, enabled_iff]
  rfl

/-- **SSIdat, `Phi_poles`, MPC**: a mode shape left in `Phi_poles` is the unfiltered one and
    has `mpc_lim ≤ MPC(φ)`, with `MPC(φ) ∈ [0, 1]` (C18). -/
theorem C09_kept_mpc (conjOn covOn : Bool) (p : Params Idx) :
    ∃ e' T, crun (semIndicators p) (initCEnv (semIndicators p) covOn Gen.prog_SSIdat.init)
        (select conjOn covOn Gen.prog_SSIdat.prog) = some e' ∧ e' (retVar Gen.prog_SSIdat "Phi_poles") = some (CVal.tbl T) ∧
      ∀ i c, T i = some c → p.orig .phi i = some c ∧
        ∃ n v q, c = .shape n v ∧ mpcClosed? n v = some q ∧ p.mpcLim ≤ q ∧ 0 ≤ q ∧ q ≤ 1 := by
  obtain ⟨e', he', h⟩ := kept_iff_of_check Gen.prog_SSIdat requiredSSI conjOn covOn (C09_seq_SSIdat conjOn covOn) p
  obtain ⟨T, hT, hiff⟩ := h "Phi_poles" (retVar Gen.prog_SSIdat "Phi_poles") .phi (by decide) rfl rfl
  refine ⟨e', T, he', hT, ?_⟩
  intro i c hc
  obtain ⟨ho, _, _, _, ⟨n, v, q, hs, hq, hl⟩, _⟩ := (hiff i c).mp hc
  refine ⟨ho, n, v, q, ?_, hq, hl, ?_⟩
  · rw [ho] at hs; exact Option.some.inj hs
  · have hn : 2 ≤ n := by
      by_contra hlt
      have : n ≤ 1 := by omega
      simp [mpcClosed?, this] at hq
    obtain ⟨q', hq', h0, h1⟩ := PV.C18.C18_mpc_bounds (K := ℚ) n hn v
    have : q' = q := by
      have := hq'.symm.trans hq
      exact Option.some.inj this
    subst this
    exact ⟨h0, h1⟩

/-- **SSIdat, `Phi_poles`, MPD**: a mode shape left in `Phi_poles` is not the zero vector and
    has `MPD(φ) ≤ mpd_lim`, with `MPD(φ) ∈ [0, π/2]` (C18). -/
theorem C09_kept_mpd (conjOn covOn : Bool) (p : Params Idx) :
    ∃ e' T, crun (semIndicators p) (initCEnv (semIndicators p) covOn Gen.prog_SSIdat.init)
        (select conjOn covOn Gen.prog_SSIdat.prog) = some e' ∧ e' (retVar Gen.prog_SSIdat "Phi_poles") = some (CVal.tbl T) ∧
      ∀ i c, T i = some c → p.orig .phi i = some c ∧
        ∃ n v, c = .shape n v ∧ shapeNonZero n v = true ∧ mpdVal p n v ≤ (p.mpdLim : ℝ)
          ∧ 0 ≤ mpdVal p n v ∧ mpdVal p n v ≤ Real.pi / 2 := by
  obtain ⟨e', he', h⟩ := kept_iff_of_check Gen.prog_SSIdat requiredSSI conjOn covOn (C09_seq_SSIdat conjOn covOn) p
  obtain ⟨T, hT, hiff⟩ := h "Phi_poles" (retVar Gen.prog_SSIdat "Phi_poles") .phi (by decide) rfl rfl
  refine ⟨e', T, he', hT, ?_⟩
  intro i c hc
  obtain ⟨ho, _, _, ⟨n, v, hs, hnz, hl⟩, _, _⟩ := (hiff i c).mp hc
  refine ⟨ho, n, v, ?_, hnz, hl, ?_⟩
  · rw [ho] at hs; exact Option.some.inj hs
  · exact PV.C18.C18_mpd_bounds n (castShape v) _ _

/-- **SSIdat, `Xi_poles`, damping**: a damping ratio left in `Xi_poles` is the unfiltered one
    and lies in `(0, ξ_max)`; the same pole's shape passes the MPC and MPD criteria. -/
theorem C09_kept_damp (conjOn covOn : Bool) (p : Params Idx) :
    ∃ e' T, crun (semIndicators p) (initCEnv (semIndicators p) covOn Gen.prog_SSIdat.init)
        (select conjOn covOn Gen.prog_SSIdat.prog) = some e' ∧ e' (retVar Gen.prog_SSIdat "Xi_poles") = some (CVal.tbl T) ∧
      ∀ i c, T i = some c → p.orig .xi i = some c ∧
        (∃ x, c = .real x ∧ 0 < x ∧ x < p.xiMax) ∧ MpcOk p i ∧ MpdOk p i := by
  obtain ⟨e', he', h⟩ := kept_iff_of_check Gen.prog_SSIdat requiredSSI conjOn covOn (C09_seq_SSIdat conjOn covOn) p
  obtain ⟨T, hT, hiff⟩ := h "Xi_poles" (retVar Gen.prog_SSIdat "Xi_poles") .xi (by decide) rfl rfl
  refine ⟨e', T, he', hT, ?_⟩
  intro i c hc
  obtain ⟨ho, _, ⟨x, hx, h0, h1⟩, hmpd, hmpc, _⟩ := (hiff i c).mp hc
  refine ⟨ho, ⟨x, ?_, h0, h1⟩, hmpc, hmpd⟩
  rw [ho] at hx; exact Option.some.inj hx

/-- **converse (completeness)**: a pole that passes every enabled criterion — read with the
    library's MPC/MPD — is kept, with its value unchanged, in each of the three pole tables. -/
theorem C09_kept_converse (conjOn covOn : Bool) (p : Params Idx) :
    ∃ e' Tf Tx Tp, crun (semIndicators p) (initCEnv (semIndicators p) covOn Gen.prog_SSIdat.init)
        (select conjOn covOn Gen.prog_SSIdat.prog) = some e' ∧
      e' (retVar Gen.prog_SSIdat "Fn_poles") = some (CVal.tbl Tf) ∧ e' (retVar Gen.prog_SSIdat "Xi_poles") = some (CVal.tbl Tx) ∧ e' (retVar Gen.prog_SSIdat "Phi_poles") = some (CVal.tbl Tp) ∧
      ∀ i, (conjOn = true → ConjOk p i) → DampOk p i → MpdOk p i → MpcOk p i → (covOn = true → CovOk p i) →
        Tf i = p.orig .fn i ∧ Tx i = p.orig .xi i ∧ Tp i = p.orig .phi i := by
  obtain ⟨e', he', h⟩ := kept_iff_of_check Gen.prog_SSIdat requiredSSI conjOn covOn (C09_seq_SSIdat conjOn covOn) p
  obtain ⟨Tf, hTf, hf⟩ := h "Fn_poles" (retVar Gen.prog_SSIdat "Fn_poles") .fn (by decide) rfl rfl
  obtain ⟨Tx, hTx, hx⟩ := h "Xi_poles" (retVar Gen.prog_SSIdat "Xi_poles") .xi (by decide) rfl rfl
  obtain ⟨Tp, hTp, hp⟩ := h "Phi_poles" (retVar Gen.prog_SSIdat "Phi_poles") .phi (by decide) rfl rfl
  refine ⟨e', Tf, Tx, Tp, he', hTf, hTx, hTp, ?_⟩
  intro i h1 h2 h3 h4 h5
  have key : ∀ (T : Idx → Option Cell) (o : Tbl),
      (∀ i c, T i = some c ↔ (p.orig o i = some c ∧ (conjOn = true → ConjOk p i) ∧ DampOk p i ∧ MpdOk p i
        ∧ MpcOk p i ∧ (covOn = true → CovOk p i))) → T i = p.orig o i := by
    intro T o hiff
    cases ho : p.orig o i with
    | some c => exact (hiff i c).mpr ⟨ho, h1, h2, h3, h4, h5⟩
    | none =>
      cases hT : T i with
      | none => rfl
      | some c => have := ((hiff i c).mp hT).1; rw [ho] at this; cases this
  exact ⟨key Tf .fn hf, key Tx .xi hx, key Tp .phi hp⟩

/-- the same for every class whose obligation checks (SSIcov, the multi-setup variants, pLSCF):
    `kept_iff_of_check` with the corresponding `C09_seq_*`. Example: pLSCF, `Phi_poles`. -/
theorem C09_kept_iff_pLSCF (conjOn : Bool) (p : Params Idx) :
    ∃ e' T, crun (semIndicators p) (initCEnv (semIndicators p) false Gen.prog_pLSCF.init)
        (select conjOn false Gen.prog_pLSCF.prog) = some e' ∧ e' (retVar Gen.prog_pLSCF "Phi_poles") = some (CVal.tbl T) ∧
      ∀ i c, T i = some c ↔ (p.orig .phi i = some c ∧ (conjOn = true → ConjOk p i) ∧ DampOk p i ∧ MpdOk p i
        ∧ MpcOk p i) := by
  obtain ⟨e', he', h⟩ := kept_iff_of_check Gen.prog_pLSCF requiredPLSCF conjOn false (C09_seq_pLSCF conjOn) p
  obtain ⟨T, hT, hiff⟩ := h "Phi_poles" (retVar Gen.prog_pLSCF "Phi_poles") .phi (by decide) rfl rfl
  refine ⟨e', T, he', hT, ?_⟩
  intro i c
  rw [hiff i c]
  simp

/-! ### Non-vacuity: a one-pole run whose pole passes every criterion -/
section example_
/-- the shape pinned by the unit tests, `[1+2j, 2+3j, 3+4j]` (MPC = 1) -/
def exShape : Nat → Cx Rat := fun k => ⟨(k : Rat) + 1, (k : Rat) + 2⟩

noncomputable def exParams : Params Unit where
  orig := fun t _ => match t with
    | .phi => some (.shape 3 exShape)
    | .lam => some (.cplx ⟨-1, 10⟩)
    | _ => some (.real (1 / 50))
  xiMax := 1 / 10
  mpcLim := 7 / 10
  mpdLim := 2
  covMax := 1
  dir := fun _ _ => (1, -1)
  conjT := fun _ _ => true

example : MpcOk exParams () := ⟨3, exShape, 1, rfl, by decide +kernel, by decide +kernel⟩
example : DampOk exParams () := ⟨1 / 50, rfl, by decide +kernel, by decide +kernel⟩
example : CovOk exParams () := ⟨1 / 50, rfl, by decide +kernel⟩
example : ConjOk exParams () := rfl
/-- MPD ≤ π/2 ≤ 2 -/
example : MpdOk exParams () := by
  refine ⟨3, exShape, rfl, by decide +kernel, ?_⟩
  have h := (PV.C18.C18_mpd_bounds 3 (castShape exShape) (1 : ℝ) (-1)).2
  have hpi : Real.pi / 2 ≤ 2 := by linarith [Real.pi_le_four]
  show mpdVal exParams 3 exShape ≤ ((2 : Rat) : ℝ)
  have : mpdVal exParams 3 exShape = mpd 3 (castShape exShape) (1 : ℝ) (-1) := rfl
  rw [this]
  push_cast
  linarith
/-- a shape failing MPC: `(1, i, -1)` has MPC < 0.7 → the criterion is false on it -/
example : cellOk exParams (.mpc .mpcLim)
    (some (.shape 3 fun k => if k = 0 then ⟨1, 0⟩ else if k = 1 then ⟨0, 1⟩ else ⟨-1, 0⟩)) = false := by
  simp only [cellOk, Option.bind_some, Cell.mpc?]
  decide +kernel
end example_

end PV.C09C18
