import PyomaVerif.Model.Merge
import PyomaVerif.Model.Geo
import PyomaVerif.Props.C19
/-!
# One `flatten_sns_names`, two models (C02 / C19)

`Merge.flattenNames` (C02: the names the merged mode shapes are labelled with) and `Geo.flattenNames` (C19: the names
the geometry tables are aligned to) are two hand-written models of the multi-setup branch of the same function
`gen.flatten_sns_names`.  They agree wherever the code does not raise: a geometry aligned by C19 puts row `k` of a
shape merged by C02 at the sensor named `k`.
-/
namespace PV.C19
open PV PV.Geo

theorem roving_map_some (row : List String) (ref : List Nat) :
    roving (row.map some) ref = (Merge.delete row ref).map some := by
  simp only [roving, Merge.delete, List.zipIdx_map, List.filter_map, List.map_map]
  rfl

/-- **The two models of `flatten_sns_names` agree** on the multi-setup branch (one list of reference positions per
    setup, at least as many as setups — otherwise the code raises `IndexError`, `C19_flatten_needs_ref`). -/
theorem C19_flatten_eq_merge (rows : List (List String)) (r0 : List Nat) (rs : List (List Nat))
    (h : rows.length ≤ (r0 :: rs).length) :
    flattenNames (.listList rows) (some (r0 :: rs)) = .ok ((Merge.flattenNames rows (r0 :: rs)).map some) := by
  rw [C19_flatten_multi rows r0 rs h]
  congr 1
  simp only [Merge.flattenNames, Merge.rovingConcat, List.map_append, List.headD_cons, refNames, List.map_map]
  congr 1
  clear h
  generalize (r0 :: rs) = refs
  induction rows generalizing refs with
  | nil => simp
  | cons a t ih =>
    cases refs with
    | nil => simp
    | cons b u =>
      simp only [List.zip_cons_cons, List.flatMap_cons, List.zipWith_cons_cons, List.flatten_cons, List.map_append,
        roving_map_some]
      have := ih u
      simp only [roving_map_some] at this
      rw [this]

/-- non-vacuity: two setups, one reference each -/
example : flattenNames (.listList [["r", "p"], ["q", "r2", "s"]]) (some [[0], [1]]) =
    .ok ((Merge.flattenNames [["r", "p"], ["q", "r2", "s"]] [[0], [1]]).map some) ∧
    Merge.flattenNames [["r", "p"], ["q", "r2", "s"]] [[0], [1]] = ["REF1", "p", "q", "s"] := by decide +kernel

end PV.C19
