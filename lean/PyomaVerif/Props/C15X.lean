import PyomaVerif.Model.OrchX
import PyomaVerif.Lemmas.OrchX
import PyomaVerif.Props.C15
/-!
# C15 — the orchestration operations that were outside the alphabet (clauses 4 and 6)

`Props/C15.lean` speaks about histories of `add` (fresh instance) / `run_by_name` / `run_all` / `mpe` / preprocessing /
rollback.  Here the alphabet is `OpX` (`Model/OrchX.lean`): the old letters plus

* `readd n`        — `setup.add_algorithms(setup[n])`, the same object again,
* `setParams n p`  — `setup[n].set_run_params(p)`,
* `mpeFromPlot n a` — `setup.mpe_from_plot(n, **a)` (dialog uninterpreted).

Everything is stated about `stepX` / `execX`, which the driver runs (`orch_trace_x`) and the harness compares with
the real `SingleSetup` after every call.  As in `Props/C15.lean` the numerical work is uninterpreted: the theorems
hold for every `SemX`.

`PlotGuarded sx` = every class's `mpe_from_plot` tests `self.result` before it stores anything; for the term semantics
the driver runs it is derived from the regenerated source tables in `Props/WiringGuardX.lean`.
-/
namespace PV.C15
open PV.Orch

variable {C P D R A Q : Type}

/-- every class's `mpe_from_plot` starts with the guard -/
def PlotGuarded (sx : SemX C P D R A Q) : Prop := ∀ c, sx.plotGuarded c = true

/-! ## Re-adding the same object -/

/-- **re-add re-binds.**  `add_algorithms` handed the object that already sits under `n` binds it to the setup's
    *current* data and changes nothing else: class, parameters and **result** of `n` stay, its position in the dict
    stays, every other algorithm, the data and the initial copy stay. -/
theorem C15_readd_rebinds (sx : SemX C P D R A Q) (n : String) (s : State C P D R) (e : Entry C P D R)
    (hg : get n s.algs = some e) :
    (stepX sx (.readd n) s).1 = .ok ∧
    get n (stepX sx (.readd n) s).2.algs = some { e with bound := .set s.data } ∧
    (∀ m, m ≠ n → get m (stepX sx (.readd n) s).2.algs = get m s.algs) ∧
    keys (stepX sx (.readd n) s).2.algs = keys s.algs ∧
    (stepX sx (.readd n) s).2.data = s.data ∧ (stepX sx (.readd n) s).2.initial = s.initial := by
  refine ⟨by simp [stepX, hg], by simp [stepX, hg, get_dictSet_self, rebind], ?_, ?_, ?_⟩
  · intro m hm; exact stepX_frame sx (.readd n) s n m rfl hm
  · exact stepX_keys_new sx (.readd n) s (by intro o h; cases h)
  · exact stepX_data sx (.readd n) s n rfl

/-- `setup[n]` for a name that is not there: `KeyError`, nothing changed (all three new calls). -/
theorem C15_unknown_name (sx : SemX C P D R A Q) (n : String) (s : State C P D R) (hg : get n s.algs = none)
    (p : Option P) (a : A) :
    stepX sx (.readd n) s = (.raised .keyError, s) ∧ stepX sx (.setParams n p) s = (.raised .keyError, s) ∧
    stepX sx (.mpeFromPlot n a) s = (.raised .keyError, s) := by
  simp [stepX, hg]

/-- re-binding and then running: the stored result is the run **on the setup's current data**, whatever result the
    instance carried from earlier data. -/
theorem C15_readd_then_run (sx : SemX C P D R A Q) (n : String) (s : State C P D R) (e : Entry C P D R) (p : P)
    (hg : get n s.algs = some e) (hp : e.params = some p) :
    (stepX sx (.base (.runByName n)) (stepX sx (.readd n) s).2).1 = .ok ∧
    get n (execX sx [.readd n, .base (.runByName n)] s).algs =
      some { e with bound := .set s.data, result := some (sx.run e.cls p s.data) } := by
  have h1 : get n (stepX sx (.readd n) s).2.algs = some { e with bound := .set s.data } :=
    (C15_readd_rebinds sx n s e hg).2.1
  exact runX_of sx n _ _ p s.data h1 hp rfl

/-- … while **without** a new run the re-bound instance keeps its old result: it is the run on the data bound
    *before*, not on what the instance is bound to now (so `C15_isolation`'s "result = run on the bound data" is a
    statement about histories of fresh `add`s only — this is the witness). -/
theorem C15_readd_result_is_stale :
    let ops : List (OpX Nat Nat Nat Nat) :=
      [.base (.add "A" 1 (some 5)), .base (.runByName "A"), .base (.pre 3), .readd "A"]
    (get "A" (execX (⟨exSem, fun _ p a => p + a, fun c p _ r a => c :: p :: a :: r, fun _ => true⟩ :
        SemX Nat Nat Nat (List Nat) Nat Nat) ops (State.new 7)).algs).map (fun e => (e.bound, e.result))
      = some (.set 73, some [1, 5, 7]) := by decide

/-! ## `set_run_params` -/

/-- `set_run_params` replaces the parameters of `n` and nothing else (in particular not its result). -/
theorem C15_setParams_effect (sx : SemX C P D R A Q) (n : String) (p : Option P) (s : State C P D R)
    (e : Entry C P D R) (hg : get n s.algs = some e) :
    (stepX sx (.setParams n p) s).1 = .ok ∧
    get n (stepX sx (.setParams n p) s).2.algs = some { e with params := p } ∧
    (∀ m, m ≠ n → get m (stepX sx (.setParams n p) s).2.algs = get m s.algs) ∧
    keys (stepX sx (.setParams n p) s).2.algs = keys s.algs ∧
    (stepX sx (.setParams n p) s).2.data = s.data := by
  refine ⟨by simp [stepX, hg], by simp [stepX, hg, get_dictSet_self], ?_, ?_, ?_⟩
  · intro m hm; exact stepX_frame sx (.setParams n p) s n m rfl hm
  · exact stepX_keys_new sx (.setParams n p) s (by intro o h; cases h)
  · exact (stepX_data sx (.setParams n p) s n rfl).1

/-! ## Gating: a failed call leaves nothing behind, and the prerequisite can be supplied afterwards -/

/-- **recovery.**  Whatever `run_by_name n` lacked — bound data (an instance that never went through
    `add_algorithms`), parameters, or both — the failing call stored nothing, and after the user supplies the data
    (`add_algorithms(setup[n])`) and parameters (`set_run_params(p)`) the run succeeds and stores exactly
    `run cls p (current data)`: nothing of the failed attempt survives. -/
theorem C15_gating_recovers (sx : SemX C P D R A Q) (n : String) (s : State C P D R) (e : Entry C P D R) (p : P)
    (hg : get n s.algs = some e) (hfail : (stepX sx (.base (.runByName n)) s).1 ≠ .ok) :
    (stepX sx (.base (.runByName n)) s).2 = s ∧
    (stepX sx (.base (.runByName n)) (execX sx [.readd n, .setParams n (some p)] s)).1 = .ok ∧
    get n (execX sx [.readd n, .setParams n (some p), .base (.runByName n)] s).algs =
      some { e with params := some p, bound := .set s.data, result := some (sx.run e.cls p s.data) } := by
  have h0 : (stepX sx (.base (.runByName n)) s).2 = s := C15_gating_run sx.toSem n s hfail
  have h1 : get n (stepX sx (.readd n) s).2.algs = some { e with bound := .set s.data } :=
    (C15_readd_rebinds sx n s e hg).2.1
  have h2 := (C15_setParams_effect sx n (some p) (stepX sx (.readd n) s).2 _ h1).2.1
  have h3 := runX_of sx n _ _ p s.data h2 rfl rfl
  exact ⟨h0, h3.1, h3.2⟩

/-- the common case: added without parameters, `run` raises `ValueError` and stores nothing; `set_run_params(p)`
    alone then makes it run — on the data bound at `add`. -/
theorem C15_gating_recovers_params (sx : SemX C P D R A Q) (n : String) (s : State C P D R) (e : Entry C P D R)
    (p : P) (d : D) (hg : get n s.algs = some e) (hb : e.bound = .set d) (hp : e.params = none) :
    stepX sx (.base (.runByName n)) s = (.raised .valueError, s) ∧
    (stepX sx (.base (.runByName n)) (stepX sx (.setParams n (some p)) s).2).1 = .ok ∧
    get n (execX sx [.setParams n (some p), .base (.runByName n)] s).algs =
      some { e with params := some p, result := some (sx.run e.cls p d) } := by
  have h2 := (C15_setParams_effect sx n (some p) s e hg).2.1
  have h3 := runX_of sx n _ _ p d h2 rfl hb
  refine ⟨?_, h3.1, h3.2⟩
  simp [stepX, step, runByName, hg, runEntry, preRun, hb, hp]

/-! ## `mpe_from_plot` -/

/-- `mpe_from_plot`: outcome and exception class — unknown name, no prior run, no parameters, in the order the code
    tests them — when every class has the guard. -/
theorem C15_gating_mpe_from_plot_outcome (sx : SemX C P D R A Q) (hgd : PlotGuarded sx) (n : String) (a : A)
    (s : State C P D R) :
    (stepX sx (.mpeFromPlot n a) s).1 =
      match get n s.algs with
      | none => .raised .keyError
      | some e =>
        match e.result, e.params with
        | none, _ => .raised .valueError
        | some _, none => .raised .attributeError
        | some _, some _ => .ok := by
  simp only [stepX]
  cases hg : get n s.algs with
  | none => rfl
  | some e =>
    simp only [plotEntry, hgd e.cls, if_true]
    cases hr : e.result <;> cases hp : e.params <;> simp

/-- **a failing `mpe_from_plot` — in particular before a run — stores nothing**: neither result nor run
    parameters nor anything else in the setup differs from before. -/
theorem C15_gating_mpe_from_plot (sx : SemX C P D R A Q) (hgd : PlotGuarded sx) (n : String) (a : A)
    (s : State C P D R) (h : (stepX sx (.mpeFromPlot n a) s).1 ≠ .ok) :
    (stepX sx (.mpeFromPlot n a) s).2 = s := by
  simp only [stepX] at h ⊢
  cases hg : get n s.algs with
  | none => rfl
  | some e =>
    simp only [hg, plotEntry, hgd e.cls, if_true] at h ⊢
    cases hr : e.result with
    | none => simp [dictSet_get_self hg]
    | some r =>
      cases hp : e.params with
      | none => simp [dictSet_get_self hg]
      | some p => simp [hr, hp] at h

/-- `mpe_from_plot` before a run raises `ValueError` and stores nothing. -/
theorem C15_gating_mpe_from_plot_before_run (sx : SemX C P D R A Q) (hgd : PlotGuarded sx) (n : String) (a : A)
    (s : State C P D R) (e : Entry C P D R) (hg : get n s.algs = some e) (hr : e.result = none) :
    stepX sx (.mpeFromPlot n a) s = (.raised .valueError, s) := by
  have h1 : (stepX sx (.mpeFromPlot n a) s).1 = .raised .valueError := by
    rw [C15_gating_mpe_from_plot_outcome sx hgd]; simp [hg, hr]
  have h2 := C15_gating_mpe_from_plot sx hgd n a s (by rw [h1]; simp)
  exact Prod.ext h1 h2

/-- a successful `mpe_from_plot n a` stores the extraction from the instance's own previous result, own freshly
    stored parameters and own bound data. -/
theorem C15_mpe_from_plot_result (sx : SemX C P D R A Q) (n : String) (a : A) (s : State C P D R)
    (h : (stepX sx (.mpeFromPlot n a) s).1 = .ok) :
    ∃ e p r, get n s.algs = some e ∧ e.params = some p ∧ e.result = some r ∧
      get n (stepX sx (.mpeFromPlot n a) s).2.algs =
        some { e with params := some (sx.plotParams e.cls p a),
                      result := some (sx.plotRes e.cls (sx.plotParams e.cls p a) e.bound r a) } := by
  simp only [stepX] at h ⊢
  cases hg : get n s.algs with
  | none => simp [hg] at h
  | some e =>
    simp only [hg, plotEntry] at h ⊢
    cases hr : e.result <;> cases hp : e.params <;> cases hgd : sx.plotGuarded e.cls <;>
      simp [hr, hp, hgd] at h ⊢ <;> simp [get_dictSet_self]

/-! ## Isolation and history independence over the extended alphabet -/

/-- no call that names algorithm `n` — the three new ones included — changes another algorithm's entry, the
    setup's data or the stored initial data. -/
theorem C15_isolation_frame_x (sx : SemX C P D R A Q) (op : OpX C P A Q) (s : State C P D R)
    (n m : String) (ht : op.target = some n) (hm : m ≠ n) :
    get m (stepX sx op s).2.algs = get m s.algs ∧ (stepX sx op s).2.data = s.data ∧
      (stepX sx op s).2.initial = s.initial :=
  ⟨stepX_frame sx op s n m ht hm, stepX_data sx op s n ht⟩

/-- **History independence, extended alphabet.**  The entry of algorithm `n` (and the data) after any sequence of
    add / re-add / set_run_params / run_by_name / run_all / mpe / mpe_from_plot / preprocessing / rollback calls
    is the entry after the *projected* sequence — calls naming other algorithms dropped, `run_all` replaced by
    `run_by_name n` where its loop reaches `n` — on any setup that agrees on `n` and on the data. -/
theorem C15_history_independent_x (sx : SemX C P D R A Q) (n : String) (ops : List (OpX C P A Q))
    (s s2 : State C P D R) (h : Agree n s s2) :
    Agree n (execX sx ops s) (execX sx (projX sx n ops s) s2) :=
  agreeX_exec_proj sx n ops s s2 h

theorem C15_history_independent_x_new (sx : SemX C P D R A Q) (n : String) (ops : List (OpX C P A Q)) (d0 : D) :
    get n (execX sx ops (State.new d0)).algs =
      get n (execX sx (projX sx n ops (State.new d0)) (State.new d0)).algs :=
  (agreeX_exec_proj sx n ops (State.new d0) (State.new d0) ⟨rfl, rfl, rfl⟩).1

/-- the projected sequence contains only `n`'s own calls, preprocessing and rollback. -/
theorem C15_projX_own (sx : SemX C P D R A Q) (n : String) (ops : List (OpX C P A Q)) (s : State C P D R) :
    ∀ op ∈ projX sx n ops s, relevantX n op = true := by
  induction ops generalizing s with
  | nil => intro op h; simp [projX] at h
  | cons o t ih =>
    intro op h
    simp only [projX, projOne, List.mem_append] at h
    rcases h with (h | h) | h
    · split at h
      · rename_i hrel; simp only [List.mem_singleton] at h; subst h; exact hrel
      · simp at h
    · split at h
      · simp only [List.mem_singleton] at h; subst h; simp [relevantX, relevant]
      · simp at h
    · exact ih _ op h

/-- histories over the old alphabet run as before (every theorem of `Props/C15.lean` applies to them). -/
theorem C15_execX_base (sx : SemX C P D R A Q) (ops : List (Op C P A Q)) (s : State C P D R) :
    execX sx (ops.map .base) s = exec sx.toSem ops s :=
  execX_base sx ops s

/-! ## Non-vacuity -/
section Examples

def exSemX : SemX Nat Nat Nat (List Nat) Nat Nat :=
  { exSem with
    plotParams := fun _ p a => p + 1000 * a
    plotRes := fun c p _ r a => c :: p :: (a + 50) :: r
    plotGuarded := fun _ => true }

def exOpsX : List (OpX Nat Nat Nat Nat) :=
  [.base (.add "A" 1 (some 5)), .base (.add "B" 2 none), .base (.inject "C" 3 none false), .base (.runByName "A"),
   .base (.pre 3), .readd "A", .setParams "B" (some 8), .base .runAll, .mpeFromPlot "A" 2, .base (.mpe "B" 1)]

example : PlotGuarded exSemX := fun _ => rfl
-- C15_readd_rebinds / C15_readd_then_run: an entry that holds a result from other data than the current
example : (get "A" (execX exSemX (exOpsX.take 5) exS0).algs).map (fun e => (e.params, e.bound, e.result))
    = some (some 5, .set 7, some [1, 5, 7]) ∧ (execX exSemX (exOpsX.take 5) exS0).data = 73 := by decide
-- C15_unknown_name
example : get "Z" (execX exSemX exOpsX exS0).algs = none := by decide
-- C15_gating_recovers: "C" was injected (never bound, no parameters): its run fails
example : (stepX exSemX (.base (.runByName "C")) (execX exSemX exOpsX exS0)).1 = .raised .attributeError ∧
    (get "C" (execX exSemX exOpsX exS0).algs).isSome = true := by decide
-- C15_gating_recovers_params: "B" after the second call
example : (get "B" (execX exSemX (exOpsX.take 2) exS0).algs).map (fun e => (e.params, e.bound))
    = some (none, .set 7) := by decide
-- C15_gating_mpe_from_plot(_before_run): a failing call exists; C15_mpe_from_plot_result: a successful one
example : (stepX exSemX (.mpeFromPlot "B" 1) (execX exSemX (exOpsX.take 2) exS0)).1 = .raised .valueError := by
  decide
example : (stepX exSemX (.mpeFromPlot "A" 2) (execX exSemX (exOpsX.take 8) exS0)).1 = .ok := by decide
-- result present, parameters `None`: the AttributeError row of the outcome table is reachable
example : (stepX exSemX (.mpeFromPlot "A" 2) (execX exSemX (exOpsX.take 4 ++ [.setParams "A" none]) exS0)).1
    = .raised .attributeError := by decide
-- C15_isolation_frame_x
example : (OpX.readd "A" : OpX Nat Nat Nat Nat).target = some "A" ∧ "B" ≠ "A" := by decide
-- C15_history_independent_x: a non-trivial projection
example : projX exSemX "A" exOpsX exS0 =
    [.base (.add "A" 1 (some 5)), .base (.runByName "A"), .base (.pre 3), .readd "A", .base (.runByName "A"),
     .mpeFromPlot "A" 2] := by decide
example : (get "A" (execX exSemX exOpsX exS0).algs).map (·.result) = some (some [1, 2005, 52, 1, 5, 73]) := by
  decide
end Examples

end PV.C15
