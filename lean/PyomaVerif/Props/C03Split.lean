import PyomaVerif.Lemmas.MsGather
import PyomaVerif.Props.C03E2E
import PyomaVerif.Props.C14
/-!
# C03 — the reference/roving split composed with the identification

`Props/C03.lean` proves the split at index level (`C03_split`, about `Multi.preSplit`), `Props/C14.lean` that the
object's `data` is `Prep.preMultisetup` of the processed datasets after EVERY history (`C14_invariant_multi`),
`Props/C03E2E.lean` the identification from records that are ALREADY stacked references-then-roving.  Here the
three are joined:

1. `C03_split_models_agree` — the two index models of `gen.pre_multisetup` (`Prep.preMultisetup`, C14;
   `Multi.preSplit`, C03) are the same function wherever `preSplit` succeeds, and it succeeds on duplicate-free
   in-range lists.
2. `C03_split_every_step` — for the `MultiSetup_PreGER` object after every history of preprocessing calls
   (`C14_invariant_multi`): entry `i` of `data` is `preSplit` of the constructor's `ref_ind[i]` applied to the
   processed dataset `i` — references in the listed order, roving channels ascending, a permutation of all
   channels.  `C03_data_every_step`: evaluated on arrays, that symbolic `data` IS the record-level
   `preMultisetupRec` of the processed datasets.
3. `C03_handover` — what `SSI_multi_setup` takes from the user's datasets and `ref_ind`: head (`n_ref`, `n_mov`,
   `n_DOF`) and, per setup, `Y_all = y[:, ref_id ++ mov_id].T`, `Y_ref = y[:, ref_id].T` (`ssiMsHead`,
   `ssiMsHankArgs` of `Model/MsGather.lean` on `preMultisetupRec`).
4. `C03_e2e_cov_split`, `C03_e2e_dat_split` — `C03_e2e_cov` / `C03_e2e_dat` starting from the user's datasets
   (samples × channels, every channel at any position) and `ref_ind` lists (any order): dataset `i`'s column `c`
   measures DOF `dof i c` of the global system with the setup's gain; every setup lists the SAME physical
   reference DOFs in the same order (`(ref_ind[i]).map (dof i) = refIds`).
-/
namespace PV.C03Split
open PV PV.Mat PV.Cov PV.FreeVib PV.MsFreeVib PV.Multi PV.MsGather PV.C01E2E PV.C03C11 PV.C03E2E PV.Prep
open Matrix Finset

/-! ## 1. the two models of `gen.pre_multisetup` -/

/-- **C03_split_models_agree.**  Entry `i` of `Prep.preMultisetup` (C14's model) pairs dataset `i` with reference
    list `i`; whenever `Multi.preSplit` (C03's model) succeeds on that pair it returns exactly the entry's `ref` and
    `mov` (no hypothesis); and on a duplicate-free in-range list it does succeed. -/
theorem C03_split_models_agree (nch : ℕ → ℕ) (terms : List Term) (R : List (List ℕ)) (i : ℕ) (s : Split)
    (h : (preMultisetup nch terms R)[i]? = some s) :
    ∃ y r, terms[i]? = some y ∧ R[i]? = some r ∧ s.y = y ∧ s.ref = r ∧
      (∀ r' m, preSplit (y.ncols nch) r = some (r', m) → r' = s.ref ∧ m = s.mov) ∧
      (r.Nodup → (∀ x ∈ r, x < y.ncols nch) →
        preSplit (y.ncols nch) r = some (s.ref, s.mov) ∧ s.mov = rovingCols (y.ncols nch) r) := by
  rw [preMultisetup, List.getElem?_zipWith] at h
  cases hy : terms[i]? with
  | none => simp [hy] at h
  | some y =>
    cases hr : R[i]? with
    | none => simp [hy, hr] at h
    | some r =>
      simp only [hy, hr, Option.some.injEq] at h
      subst h
      refine ⟨y, r, rfl, rfl, rfl, rfl, ?_, ?_⟩
      · intro r' m hp
        obtain ⟨h1, h2⟩ := preSplit_eq_foldl _ _ _ _ hp
        exact ⟨h1, h2⟩
      · intro hnd hin
        have := foldl_erase_eq_roving (y.ncols nch) r hnd hin
        exact ⟨by rw [preSplit_ok _ _ hnd hin]; simp only [this], this⟩

example : (preMultisetup (fun _ => 4) [Term.init 0] [[2, 0]])[0]? = some ⟨[2, 0], [1, 3], Term.init 0⟩
    ∧ preSplit 4 [2, 0] = some ([2, 0], [1, 3]) := by decide

/-! ## 2. after every preprocessing step -/

theorem specStep_cols (n0 nch : ℕ → ℕ) (init σ : Prep.Spec) (op : Op) (L : ℕ)
    (hi : init.terms.length = L ∧ ∀ i t, init.terms[i]? = some t → t.ncols nch = nch i)
    (hσ : σ.terms.length = L ∧ ∀ i t, σ.terms[i]? = some t → t.ncols nch = nch i) :
    (specStep n0 init σ op).terms.length = L ∧
      ∀ i t, (specStep n0 init σ op).terms[i]? = some t → t.ncols nch = nch i := by
  have hmap : ∀ f : Term → Term, (∀ t, (f t).ncols nch = t.ncols nch) →
      (σ.terms.map f).length = L ∧ ∀ i t, (σ.terms.map f)[i]? = some t → t.ncols nch = nch i := by
    intro f hf
    refine ⟨by rw [List.length_map]; exact hσ.1, fun i t ht => ?_⟩
    rw [List.getElem?_map] at ht
    cases ht' : σ.terms[i]? with
    | none => simp [ht'] at ht
    | some t' =>
      simp only [ht', Option.map_some, Option.some.injEq] at ht
      rw [← ht, hf]; exact hσ.2 i t' ht'
  unfold specStep
  split
  · cases op with
    | decimate q kw => exact hmap _ (fun _ => rfl)
    | detrend kw => exact hmap _ (fun _ => rfl)
    | filter wn o bt => exact hmap _ (fun _ => rfl)
    | rollback => exact hi
    | add => exact hσ
  · exact hσ

theorem specRun_cols (n0 nch : ℕ → ℕ) (init : Prep.Spec) (L : ℕ)
    (hi : init.terms.length = L ∧ ∀ i t, init.terms[i]? = some t → t.ncols nch = nch i) (ops : List Op) :
    ∀ σ : Prep.Spec, (σ.terms.length = L ∧ ∀ i t, σ.terms[i]? = some t → t.ncols nch = nch i) →
      (ops.foldl (specStep n0 init) σ).terms.length = L ∧
        ∀ i t, (ops.foldl (specStep n0 init) σ).terms[i]? = some t → t.ncols nch = nch i := by
  induction ops with
  | nil => intro σ h; exact h
  | cons op ops ih => intro σ h; exact ih _ (specStep_cols n0 nch init σ op L hi h)

/-- the processed datasets keep their number and their channel counts -/
theorem spec_cols (c : MCfg) (ops : List Op) :
    (c.spec ops).terms.length = c.n0.length ∧
      ∀ i t, (c.spec ops).terms[i]? = some t → t.ncols c.nchf = c.nchf i := by
  have h0 : c.spec0.terms.length = c.n0.length ∧ ∀ i t, c.spec0.terms[i]? = some t → t.ncols c.nchf = c.nchf i := by
    refine ⟨by simp [MCfg.spec0, mInitTerms], fun i t ht => ?_⟩
    simp only [MCfg.spec0, mInitTerms, List.getElem?_map] at ht
    cases hr : (List.range c.n0.length)[i]? with
    | none => simp [hr] at ht
    | some k =>
      have hk : k = i := by
        have := List.getElem?_eq_some_iff.mp hr
        obtain ⟨hlt, hk⟩ := this
        simpa using hk.symm
      simp only [hr, Option.map_some, Option.some.injEq] at ht
      rw [← ht, hk]; rfl
  exact specRun_cols c.n0f c.nchf c.spec0 c.n0.length h0 ops c.spec0 h0

/-- the reference lists the constructor was given are admissible for its datasets -/
def CfgRefsOk (c : MCfg) : Prop :=
  ∀ i r, c.refInd[i]? = some r → i < c.n0.length → r.Nodup ∧ ∀ x ∈ r, x < c.nchf i

/-- **C03_split_every_step — the split of the `MultiSetup_PreGER` object after every history of preprocessing
    calls** (`decimate_data`, `detrend_data`, `filter_data`, `rollback`, `add_algorithms`, in any order and number;
    tree with the four repairs, as `C14_invariant_multi`).  Entry `i` of `data` belongs to processed dataset `i`
    and to the constructor's `ref_ind[i]`; its index lists are what `Multi.preSplit` (the model under `C03_split`)
    returns: references in the listed order, roving channels = the remaining ones ascending, together a
    permutation of all channels of the dataset. -/
theorem C03_split_every_step (v : Variant) (hv : v.multiRepaired = true) (c : MCfg) (hc : c.n0 ≠ [])
    (href : CfgRefsOk c) (ops : List Op) :
    (mRun v c ops).data.length = min c.n0.length c.refInd.length ∧
    ∀ i s, (mRun v c ops).data[i]? = some s →
      (c.spec ops).terms[i]? = some s.y ∧ (mRun v c ops).datasets[i]? = some s.y ∧ c.refInd[i]? = some s.ref ∧
      preSplit (c.nchf i) s.ref = some (s.ref, s.mov) ∧
      s.mov = rovingCols (c.nchf i) s.ref ∧ s.mov.Pairwise (· < ·) ∧
      (s.ref ++ s.mov).Perm (List.range (c.nchf i)) := by
  obtain ⟨_, _, _, _, hds, hdata, _⟩ := PV.C14.C14_invariant_multi v hv c hc ops
  obtain ⟨hlen, hcols⟩ := spec_cols c ops
  refine ⟨by rw [hdata, preMultisetup, List.length_zipWith, hlen], fun i s hs => ?_⟩
  rw [hdata] at hs
  obtain ⟨y, r, hy, hr, e1, e2, _, hok⟩ := C03_split_models_agree c.nchf _ _ i s hs
  have hi : i < c.n0.length := by
    rw [← hlen]; exact (List.getElem?_eq_some_iff.mp hy).1
  have hnc : y.ncols c.nchf = c.nchf i := hcols i y hy
  obtain ⟨hnd, hin⟩ := href i r hr hi
  rw [hnc] at hok
  obtain ⟨hp, hm⟩ := hok hnd hin
  obtain ⟨mov, h1, h2, h3, h4⟩ := PV.C03.C03_split (c.nchf i) r hnd hin
  have hmov : mov = s.mov := by rw [h2, hm]; rfl
  subst e2
  refine ⟨by rw [hy, e1], by rw [hds, hy, e1], hr, hp, hm, hmov ▸ h3, hmov ▸ h4⟩

example : Variant.current.multiRepaired = true ∧ (⟨[600, 500], [4, 3], 100, [[2, 0], [1]]⟩ : MCfg).n0 ≠ [] ∧
    CfgRefsOk ⟨[600, 500], [4, 3], 100, [[2, 0], [1]]⟩ := by
  refine ⟨by decide, by decide, ?_⟩
  intro i r hr _
  match i with
  | 0 => obtain rfl : [2, 0] = r := by simpa using hr
         decide
  | 1 => obtain rfl : [1] = r := by simpa using hr
         decide
  | i + 2 => simp at hr

/-- the arrays a symbolic split entry stands for: `ev` gives the array of a symbolic dataset -/
def evalSplit {K : Type} (ev : Term → Mat K) (s : Split) : Setup K := ⟨gatherT (ev s.y) s.ref, gatherT (ev s.y) s.mov⟩

/-- **C03_data_every_step.**  Let `ev` give the (samples × channels) array every symbolic dataset stands for, with
    the channel count the model tracks.  After every history, the record-level `gen.pre_multisetup`
    (`preMultisetupRec`) of the object's processed datasets with the constructor's `ref_ind` succeeds and returns
    the object's symbolic `data` evaluated entry by entry — so whatever is proved about `preMultisetupRec` on
    datasets `D` (`C03_handover`, `C03_e2e_cov_split`, `C03_e2e_dat_split`, `C04Split`) applies to the object's
    `data` after every preprocessing step, with `D` the processed datasets. -/
theorem C03_data_every_step {K : Type} (v : Variant) (hv : v.multiRepaired = true) (c : MCfg) (hc : c.n0 ≠ [])
    (ops : List Op) (ev : Term → Mat K) (hev : ∀ t, (ev t).c = t.ncols c.nchf)
    (hval : ValidRefs ((c.spec ops).terms.map ev) c.refInd) :
    (mRun v c ops).datasets = (c.spec ops).terms ∧
    preMultisetupRec ((mRun v c ops).datasets.map ev) c.refInd = .ok ((mRun v c ops).data.map (evalSplit ev)) := by
  obtain ⟨_, _, _, _, hds, hdata, _⟩ := PV.C14.C14_invariant_multi v hv c hc ops
  refine ⟨hds, ?_⟩
  rw [hds, preMultisetupRec_ok _ _ hval, hdata]
  congr 1
  apply List.ext_getElem?
  intro i
  rw [List.getElem?_zipWith, List.getElem?_map, List.getElem?_map, preMultisetup, List.getElem?_zipWith]
  cases hy : (c.spec ops).terms[i]? with
  | none => simp
  | some y =>
    cases hr : c.refInd[i]? with
    | none => simp
    | some r =>
      simp only [Option.map_some, Option.some.injEq, evalSplit, splitAt]
      obtain ⟨hnd, hin, _, _⟩ := hval.2 i (ev y) r (by rw [List.getElem?_map, hy]; rfl) hr
      rw [hev] at hin
      rw [foldl_erase_eq_roving _ r hnd hin, hev]

/-! ## 3. the hand-over to `SSI_multi_setup` -/

/-- **C03_handover — from the user's datasets and `ref_ind` to what `SSI_multi_setup` works on.**  For admissible
    reference lists (`ValidRefs`: one list per dataset, no repeats, in range, at least one reference and one
    roving channel): `gen.pre_multisetup` does not raise; the head of `SSI_multi_setup` reads `n_setup`, `n_ref` =
    length of the FIRST reference list, `n_mov[i]` = channels of dataset `i` minus its references; and pass `i` of
    its loop hands `build_hank` the arrays `Y_all = y_i[:, ref_ind[i] ++ roving_i].T` and
    `Y_ref = y_i[:, ref_ind[i]].T`. -/
theorem C03_handover {K : Type} (D : List (Mat K)) (R : List (List ℕ)) (hval : ValidRefs D R) :
    preMultisetupRec D R = .ok (splitOf D R) ∧
    (∀ (y0 : Mat K) (r0 : List ℕ), D[0]? = some y0 → R[0]? = some r0 → ∃ hd, ssiMsHead (splitOf D R) = some hd ∧
      hd.n_setup = D.length ∧ hd.n_ref = r0.length ∧ hd.n_DOF = hd.n_ref + hd.n_mov.sum ∧
      hd.n_mov.length = D.length ∧
      ∀ (i : ℕ) (y : Mat K) (r : List ℕ), D[i]? = some y → R[i]? = some r →
        hd.n_mov[i]? = some (rovingCols y.c r).length ∧ r.length + (rovingCols y.c r).length = y.c) ∧
    (∀ (i : ℕ) (y : Mat K) (r : List ℕ), D[i]? = some y → R[i]? = some r →
      ssiMsHankArgs (splitOf D R) i = some (gatherT y (r ++ rovingCols y.c r), gatherT y r)) := by
  rw [splitOf_eq D R hval]
  refine ⟨preMultisetupRec_ok D R hval, ?_, fun i y r hy hr => ssiMsHankArgs_split D R i y r hy hr⟩
  intro y0 r0 hy0 hr0
  refine ⟨_, ssiMsHead_split D R y0 r0 hy0 hr0 hval.1, rfl, rfl, rfl, ?_, ?_⟩
  · simp [List.length_zipWith, hval.1]
  · intro i y r hy hr
    obtain ⟨hnd, hin, _, _⟩ := hval.2 i y r hy hr
    refine ⟨?_, rovingCols_length y.c r hnd hin⟩
    simp only [List.getElem?_map, zipWith_splitAt_get D R i y r hy hr, Option.map_some, splitAt, gatherT]


/-- all setups list `|refIds|` references -/
theorem refIds_pos {K : Type} (D : List (Mat K)) (R : List (List ℕ)) (hD : D ≠ []) (hval : ValidRefs D R)
    (dof : ℕ → ℕ → ℕ) (refIds : List ℕ) (hshared : ∀ (i : ℕ) (r : List ℕ), R[i]? = some r → r.map (dof i) = refIds) :
    0 < refIds.length := by
  obtain ⟨y0, ys, rfl⟩ := List.exists_cons_of_ne_nil hD
  cases R with
  | nil => have := hval.1; simp at this
  | cons r0 rs =>
    have := (hval.2 0 y0 r0 rfl rfl).2.2.1
    rw [← hshared 0 r0 rfl, List.length_map]; exact this

/-- the head of `SSI_multi_setup` in terms of the DOF lists -/
theorem head_eq {K : Type} (D : List (Mat K)) (R : List (List ℕ)) (hD : D ≠ []) (hval : ValidRefs D R)
    (dof : ℕ → ℕ → ℕ) (refIds : List ℕ) (hshared : ∀ (i : ℕ) (r : List ℕ), R[i]? = some r → r.map (dof i) = refIds) :
    ssiMsHead (splitOf D R)
      = some ⟨D.length, refIds.length, (movDofs D R dof).map List.length, nDof refIds (movDofs D R dof)⟩ := by
  obtain ⟨y0, ys, hDe⟩ := List.exists_cons_of_ne_nil hD
  have hy0 : D[0]? = some y0 := by rw [hDe]; rfl
  have hR0 : 0 < R.length := by rw [hval.1, hDe]; simp
  have hr0 : R[0]? = some R[0] := List.getElem?_eq_getElem hR0
  have hmov : (List.zipWith splitAt D R).map (fun s => s.mov.r) = (movDofs D R dof).map List.length := by
    apply List.ext_getElem?
    intro i
    rw [List.getElem?_map, List.getElem?_map, List.getElem?_zipWith]
    cases hy : D[i]? with
    | none =>
      have hi : D.length ≤ i := List.getElem?_eq_none_iff.mp hy
      have : (movDofs D R dof)[i]? = none := by
        apply List.getElem?_eq_none_iff.mpr; simp [movDofs]; exact hi
      simp [this]
    | some y =>
      have hi : i < D.length := (List.getElem?_eq_some_iff.mp hy).1
      have hr : R[i]? = some (R[i]'(by rw [hval.1]; exact hi)) := List.getElem?_eq_getElem (by rw [hval.1]; exact hi)
      rw [hr, movDofs_get D R dof i y _ hy hr]
      simp [splitAt, gatherT]
  rw [splitOf_eq D R hval, ssiMsHead_split D R y0 R[0] hy0 hr0 hval.1, hmov]
  have hl : (R[0]).length = refIds.length := by rw [← hshared 0 _ hr0, List.length_map]
  simp only [hl, nDof]

/-! ## 4. end to end from the user's datasets -/

/-- "dataset `y` (samples × channels) is a noise-free free-vibration record of the global system `(A, C_g)`
    started at `x0`: column `c` is the sensor at DOF `dof c`, the whole setup recorded with gain `g`" -/
def IsFreeDataset {n : ℕ} (A : Matrix (Fin n) (Fin n) ℚ) (Cg : ℕ → Fin n → ℚ) (dof : ℕ → ℕ) (g : ℚ)
    (x0 : Fin n → ℚ) (y : Mat ℚ) : Prop :=
  ∀ t c, t < y.r → c < y.c → y.e t c = ∑ k, (g * Cg (dof c) k) * stateAt A x0 t k

/-- the channels `ids` of a free-vibration dataset, transposed, are the free response of `(A, g·C_g[dofs of ids])` -/
theorem free_gather {n : ℕ} (A : Matrix (Fin n) (Fin n) ℚ) (Cg : ℕ → Fin n → ℚ) (dof : ℕ → ℕ) (g : ℚ)
    (x0 : Fin n → ℚ) (y : Mat ℚ) (h : IsFreeDataset A Cg dof g x0 y) (ids : List ℕ) (hin : ∀ c ∈ ids, c < y.c) :
    IsFreeResponse A (fun a t => g * msC Cg (ids.map dof) a t) x0 (gatherT y ids) := by
  intro a t ha ht
  have ha' : a < ids.length := ha
  have hget : ids.getD a 0 = ids[a] := by
    rw [List.getD_eq_getElem?_getD, List.getElem?_eq_getElem ha']; rfl
  have hmap : (ids.map dof).getD a 0 = dof ids[a] := by
    rw [List.getD_eq_getElem?_getD, List.getElem?_map, List.getElem?_eq_getElem ha']; rfl
  show y.e t (ids.getD a 0) = _
  rw [hget, h t ids[a] ht (hin _ (List.getElem_mem ha'))]
  simp only [msC, hmap]

/-- rank condition and recorded-factor contracts of ONE setup, covariance-driven, stated for the two arrays
    `(Y_all, Y_ref)` that `build_hank` receives (`CovSetup` of `C03E2E` without the data model, which is derived
    here): `Γ = X·Ypᵀ` right invertible; recorded SVD of `hankMM Y_all Y_ref br s`, `√S`, `pinv(O_ref)`. -/
structure CovRec {n : ℕ} (A : Matrix (Fin n) (Fin n) ℚ) (br N : ℕ) (x0 : Fin n → ℚ) (s : ℚ) (Yall Yref : Mat ℚ)
    (nref nmov : ℕ) (U V : Mat ℚ) (S sq : ℕ → ℚ) (P : Mat ℚ) : Prop where
  gam : ∃ Γr : Matrix (Fin ((br + 1) * Yref.r)) (Fin n) ℚ,
    gamMx A x0 Yref br s Yall.c ((br + 1) * Yref.r) * Γr = 1
  svd : SvdOf (hankMM Yall Yref br s) U V S N
  sqrt : SqrtOf sq S N
  pinv : PinvMS (oRef br nref nmov (obsOf U sq N)) P (br * nref) N

theorem CovRec.ok {n : ℕ} {A : Matrix (Fin n) (Fin n) ℚ} {Cg : ℕ → Fin n → ℚ} {br N : ℕ} {refIds mi : List ℕ}
    {g : ℚ} {x0 : Fin n → ℚ} {s : ℚ} {Yall Yref : Mat ℚ} {U V : Mat ℚ} {S sq : ℕ → ℚ} {P : Mat ℚ} (hg : g ≠ 0)
    (rows : Yall.r = refIds.length + mi.length)
    (free : IsFreeResponse A (fun a t => g * msC Cg (refIds ++ mi) a t) x0 Yall)
    (h : CovRec A br N x0 s Yall Yref refIds.length mi.length U V S sq P) :
    SetupOK A Cg br N refIds mi g (hankMM Yall Yref br s) U V S sq P where
  hg := hg
  hHr := by rw [(PV.C12.C12_shape_mm Yall Yref br s).1, rows]
  fac := by
    obtain ⟨Γr, hΓ⟩ := h.gam
    refine ⟨gamMx A x0 Yref br s Yall.c ((br + 1) * Yref.r), Γr, hΓ, ?_⟩
    have := hankMM_factor A (fun a t => g * msC Cg (refIds ++ mi) a t) x0 Yall Yref br s free
    rw [← congrArg (fun l => obsMx (hankMM Yall Yref br s).r l A
      (fun a t => g * msC Cg (refIds ++ mi) a t)) rows]
    exact this
  svd := h.svd
  sqrt := h.sqrt
  pinv := h.pinv

/-- the data side shared by both methods: setup `i`'s stacked record is the free response the E2E theorems ask for -/
theorem stacked_free {n : ℕ} (A : Matrix (Fin n) (Fin n) ℚ) (Cg : ℕ → Fin n → ℚ) (dofi : ℕ → ℕ) (g : ℚ)
    (x0 : Fin n → ℚ) (y : Mat ℚ) (r refIds : List ℕ) (hin : ∀ x ∈ r, x < y.c)
    (hsh : r.map dofi = refIds) (hfree : IsFreeDataset A Cg dofi g x0 y) :
    (gatherT y (r ++ rovingCols y.c r)).r = refIds.length + ((rovingCols y.c r).map dofi).length ∧
    IsFreeResponse A (fun a t => g * msC Cg (refIds ++ (rovingCols y.c r).map dofi) a t) x0
      (gatherT y (r ++ rovingCols y.c r)) := by
  refine ⟨by simp [gatherT, ← hsh], ?_⟩
  have := free_gather A Cg dofi g x0 y hfree (r ++ rovingCols y.c r) (by
    intro c hc
    rcases List.mem_append.mp hc with h | h
    · exact hin c h
    · exact (mem_rovingCols h).1)
  rwa [List.map_append, hsh] at this

/-- **C03_e2e_cov_split — PreGER multi-setup covariance-driven SSI from the user's datasets and `ref_ind`.**
    `D` the datasets as handed to `MultiSetup_PreGER` (samples × channels), `R` the `ref_ind` lists (any order,
    `ValidRefs`); column `c` of dataset `i` is the sensor at DOF `dof i c`; every setup lists the same physical
    reference DOFs in the same order (`(R[i]).map (dof i) = refIds`); dataset `i` is a free decay of the global
    system with gain `g i ≠ 0` from `x0 i` (`IsFreeDataset`).  Rank conditions and recorded-factor contracts as in
    `C03_e2e_cov`, stated for the arrays `build_hank` receives (`CovRec`).
    Then: `gen.pre_multisetup` succeeds; `SSI_multi_setup` reads `n_ref = |refIds|`, `n_mov`, `n_DOF` of the DOF
    lists; pass `i` hands `build_hank` `(y_i[:, ref ++ roving].T, y_i[:, ref].T)`; and `Conclusion` of `C03E2E`
    holds with the roving DOF lists `movIds = movDofs D R dof` (references first, then each setup's roving sensors in
    ascending CHANNEL order of that setup's dataset). -/
theorem C03_e2e_cov_split {n : ℕ} (A : Matrix (Fin n) (Fin n) ℚ) (Cg : ℕ → Fin n → ℚ) (br N : ℕ) (hbr : 1 ≤ br)
    (D : List (Mat ℚ)) (R : List (List ℕ)) (hD : D ≠ []) (hval : ValidRefs D R)
    (dof : ℕ → ℕ → ℕ) (refIds : List ℕ) (movIds : List (List ℕ)) (hmv : movDofs D R dof = movIds)
    (hshared : ∀ (i : ℕ) (r : List ℕ), R[i]? = some r → r.map (dof i) = refIds)
    (g : ℕ → ℚ) (x0 : ℕ → Fin n → ℚ)
    (hdata : ∀ (i : ℕ) (y : Mat ℚ), D[i]? = some y → g i ≠ 0 ∧ IsFreeDataset A Cg (dof i) (g i) (x0 i) y)
    (s : ℕ → ℚ) (U V P : ℕ → Mat ℚ) (S sq : ℕ → ℕ → ℚ)
    (hrec : ∀ (i : ℕ) (y : Mat ℚ) (r : List ℕ), D[i]? = some y → R[i]? = some r →
      CovRec A br N (x0 i) (s i) (gatherT y (r ++ rovingCols y.c r)) (gatherT y r)
        refIds.length (rovingCols y.c r).length (U i) (V i) (S i) (sq i) (P i))
    (Olr : Matrix (Fin n) (Fin (br * refIds.length)) ℚ)
    (hObsR : Olr * obsMx (br * refIds.length) refIds.length A (msC Cg refIds) = 1)
    (Olg : Matrix (Fin n) (Fin ((br - 1) * nDof refIds movIds)) ℚ)
    (hObsG : Olg * obsMx ((br - 1) * nDof refIds movIds) (nDof refIds movIds) A
      (msC Cg (orderOf refIds movIds)) = 1)
    (Q Rq Rinv : Mat ℚ)
    (hqr : QrC (upPart (obsAllOf br N refIds movIds U sq P) (nDof refIds movIds)) Q Rq Rinv
      ((br - 1) * nDof refIds movIds) N n)
    (Vf : Mat (Cpx ℚ)) (lamf : ℕ → Cpx ℚ)
    (heig : EigOf n (fastA Rinv Q (dnPart (obsAllOf br N refIds movIds U sq P)
      (nDof refIds movIds)) n) Vf lamf)
    (dt : ℝ) (hdt : 0 < dt) (lam : Cpx ℚ) (w : Fin n → Cpx ℚ) (mu : ℂ) (hm : Mode A dt lam w mu) :
    preMultisetupRec D R = .ok (splitOf D R) ∧
    ssiMsHead (splitOf D R)
      = some ⟨D.length, refIds.length, movIds.map List.length, nDof refIds movIds⟩ ∧
    (∀ (i : ℕ) (y : Mat ℚ) (r : List ℕ), D[i]? = some y → R[i]? = some r →
      ssiMsHankArgs (splitOf D R) i = some (gatherT y (r ++ rovingCols y.c r), gatherT y r)) ∧
    Conclusion A Cg br N refIds movIds U S sq P Q Rinv Vf lamf dt lam w mu := by
  subst hmv
  obtain ⟨hsp, hhead, hargs⟩ := C03_handover D R hval
  -- the head
  have hheadEq := head_eq D R hD hval dof refIds hshared
  have href : 0 < refIds.length := refIds_pos D R hD hval dof refIds hshared
  have hne : movDofs D R dof ≠ [] := by
    intro h
    have := congrArg List.length h
    simp only [movDofs, List.length_map, List.length_range, List.length_nil] at this
    exact hD (List.length_eq_zero_iff.mp this)
  refine ⟨hsp, hheadEq, hargs, ?_⟩
  -- the Hankel matrix of pass `i`
  let H : ℕ → Mat ℚ := fun i => (ssiMsHankMM (splitOf D R) i br (s i)).getD ⟨0, 0, fun _ _ => 0⟩
  refine C03_e2e_core A Cg br N hbr refIds (movDofs D R dof) href hne g H U V P S sq ?_
    Olr hObsR Olg hObsG Q Rq Rinv hqr Vf lamf heig dt hdt lam w mu hm
  intro i mi hmi
  obtain ⟨y, r, hy, hr, rfl⟩ := movDofs_get_inv D R dof hval.1 i mi hmi
  obtain ⟨_, hin, _, _⟩ := hval.2 i y r hy hr
  obtain ⟨hg, hfree⟩ := hdata i y hy
  obtain ⟨hrows, hfr⟩ := stacked_free A Cg (dof i) (g i) (x0 i) y r refIds hin (hshared i r hr) hfree
  have hH : H i = hankMM (gatherT y (r ++ rovingCols y.c r)) (gatherT y r) br (s i) := by
    simp only [H, ssiMsHankMM, hargs i y r hy hr, Option.map_some, Option.getD_some]
  rw [hH]
  have hc := hrec i y r hy hr
  rw [show (rovingCols y.c r).length = ((rovingCols y.c r).map (dof i)).length by simp] at hc
  exact CovRec.ok hg hrows hfr hc

/-- one setup, data-driven: as `CovRec` with the recorded triangular factor `Rf` of the stacked matrix
    `hankYs Y_all Y_ref br s` (`DatQr`) and the recorded SVD of the block `hankDatOfR Rf n_ref br` cut out of it. -/
structure DatRec {n : ℕ} (A : Matrix (Fin n) (Fin n) ℚ) (br N : ℕ) (x0 : Fin n → ℚ) (s : ℚ) (Yall Yref : Mat ℚ)
    (nref nmov : ℕ) (Rf U V : Mat ℚ) (S sq : ℕ → ℚ) (P : Mat ℚ) : Prop where
  gam : ∃ Γr : Matrix (Fin ((br + 1) * Yref.r)) (Fin n) ℚ,
    gamMx A x0 Yref br s Yall.c ((br + 1) * Yref.r) * Γr = 1
  hRc : Rf.c = (Yref.r + Yall.r) * (br + 1)
  qr : DatQr (hankYs Yall Yref br s) Rf ((br + 1) * Yref.r) ((br + 1) * Yall.r) (Yall.c - br - (br + 1) - 1)
  svd : SvdOf (hankDatOfR Rf Yref.r br) U V S N
  sqrt : SqrtOf sq S N
  pinv : PinvMS (oRef br nref nmov (obsOf U sq N)) P (br * nref) N

theorem DatRec.ok {n : ℕ} {A : Matrix (Fin n) (Fin n) ℚ} {Cg : ℕ → Fin n → ℚ} {br N : ℕ} {refIds mi : List ℕ}
    {g : ℚ} {x0 : Fin n → ℚ} {s : ℚ} {Yall Yref : Mat ℚ} {Rf U V : Mat ℚ} {S sq : ℕ → ℚ} {P : Mat ℚ} (hg : g ≠ 0)
    (rows : Yall.r = refIds.length + mi.length)
    (free : IsFreeResponse A (fun a t => g * msC Cg (refIds ++ mi) a t) x0 Yall)
    (h : DatRec A br N x0 s Yall Yref refIds.length mi.length Rf U V S sq P) :
    SetupOK A Cg br N refIds mi g (hankDatOfR Rf Yref.r br) U V S sq P := by
  obtain ⟨q, hdec, horth⟩ := h.qr.dec
  obtain ⟨G, hG1, hG2⟩ := hankDat_factor A (fun a t => g * msC Cg (refIds ++ mi) a t) x0 Yall Yref br s free
    q Rf.e hdec horth h.qr.tri
  obtain ⟨Γr, hΓ⟩ := h.gam
  have e : hankDatOfR Rf Yref.r br
      = ⟨(br + 1) * Yall.r, (br + 1) * Yref.r, fun i j => Rf.e j ((br + 1) * Yref.r + i)⟩ := by
    refine mat_ext ?_ (Nat.mul_comm _ _) (fun i j => ?_)
    · show Rf.c - Yref.r * (br + 1) = (br + 1) * Yall.r
      rw [h.hRc, Nat.add_mul, Nat.add_sub_cancel_left, Nat.mul_comm]
    · show Rf.e j (Yref.r * (br + 1) + i) = Rf.e j ((br + 1) * Yref.r + i)
      rw [Nat.mul_comm]
  have hsvd := h.svd
  rw [e] at hsvd ⊢
  have hGr : G * (toMx ((br + 1) * Yref.r) ((br + 1) * Yref.r) Rf.e * Γr) = 1 := by
    rw [← Matrix.mul_assoc, hG2, hΓ]
  exact {
    hg := hg
    hHr := by show (br + 1) * Yall.r = _; rw [rows]
    fac := ⟨G, _, hGr, by
      rw [← congrArg (fun l => obsMx ((br + 1) * Yall.r) l A (fun a t => g * msC Cg (refIds ++ mi) a t)) rows]
      exact hG1⟩
    svd := hsvd
    sqrt := h.sqrt
    pinv := h.pinv }

/-- **C03_e2e_dat_split — PreGER multi-setup data-driven SSI from the user's datasets and `ref_ind`.**
    `D` the datasets as handed to `MultiSetup_PreGER` (samples × channels), `R` the `ref_ind` lists (any order,
    `ValidRefs`); column `c` of dataset `i` is the sensor at DOF `dof i c`; every setup lists the same physical
    reference DOFs in the same order (`(R[i]).map (dof i) = refIds`); dataset `i` is a free decay of the global
    system with gain `g i ≠ 0` from `x0 i` (`IsFreeDataset`).  Rank conditions and recorded-factor contracts as in
    `C03_e2e_dat`, stated for the arrays `build_hank` receives (`DatRec`: additionally the recorded triangular factor
    `Rf` of `hankYs Y_all Y_ref br s`, contract `DatQr`).
    Then: `gen.pre_multisetup` succeeds; `SSI_multi_setup` reads `n_ref = |refIds|`, `n_mov`, `n_DOF` of the DOF
    lists; pass `i` hands `build_hank` `(y_i[:, ref ++ roving].T, y_i[:, ref].T)`; and `Conclusion` of `C03E2E`
    holds with the roving DOF lists `movIds = movDofs D R dof` (references first, then each setup's roving sensors in
    ascending CHANNEL order of that setup's dataset). -/
theorem C03_e2e_dat_split {n : ℕ} (A : Matrix (Fin n) (Fin n) ℚ) (Cg : ℕ → Fin n → ℚ) (br N : ℕ) (hbr : 1 ≤ br)
    (D : List (Mat ℚ)) (R : List (List ℕ)) (hD : D ≠ []) (hval : ValidRefs D R)
    (dof : ℕ → ℕ → ℕ) (refIds : List ℕ) (movIds : List (List ℕ)) (hmv : movDofs D R dof = movIds)
    (hshared : ∀ (i : ℕ) (r : List ℕ), R[i]? = some r → r.map (dof i) = refIds)
    (g : ℕ → ℚ) (x0 : ℕ → Fin n → ℚ)
    (hdata : ∀ (i : ℕ) (y : Mat ℚ), D[i]? = some y → g i ≠ 0 ∧ IsFreeDataset A Cg (dof i) (g i) (x0 i) y)
    (s : ℕ → ℚ) (Rf U V P : ℕ → Mat ℚ) (S sq : ℕ → ℕ → ℚ)
    (hrec : ∀ (i : ℕ) (y : Mat ℚ) (r : List ℕ), D[i]? = some y → R[i]? = some r →
      DatRec A br N (x0 i) (s i) (gatherT y (r ++ rovingCols y.c r)) (gatherT y r)
        refIds.length (rovingCols y.c r).length (Rf i) (U i) (V i) (S i) (sq i) (P i))
    (Olr : Matrix (Fin n) (Fin (br * refIds.length)) ℚ)
    (hObsR : Olr * obsMx (br * refIds.length) refIds.length A (msC Cg refIds) = 1)
    (Olg : Matrix (Fin n) (Fin ((br - 1) * nDof refIds movIds)) ℚ)
    (hObsG : Olg * obsMx ((br - 1) * nDof refIds movIds) (nDof refIds movIds) A
      (msC Cg (orderOf refIds movIds)) = 1)
    (Q Rq Rinv : Mat ℚ)
    (hqr : QrC (upPart (obsAllOf br N refIds movIds U sq P) (nDof refIds movIds)) Q Rq Rinv
      ((br - 1) * nDof refIds movIds) N n)
    (Vf : Mat (Cpx ℚ)) (lamf : ℕ → Cpx ℚ)
    (heig : EigOf n (fastA Rinv Q (dnPart (obsAllOf br N refIds movIds U sq P)
      (nDof refIds movIds)) n) Vf lamf)
    (dt : ℝ) (hdt : 0 < dt) (lam : Cpx ℚ) (w : Fin n → Cpx ℚ) (mu : ℂ) (hm : Mode A dt lam w mu) :
    preMultisetupRec D R = .ok (splitOf D R) ∧
    ssiMsHead (splitOf D R)
      = some ⟨D.length, refIds.length, movIds.map List.length, nDof refIds movIds⟩ ∧
    (∀ (i : ℕ) (y : Mat ℚ) (r : List ℕ), D[i]? = some y → R[i]? = some r →
      ssiMsHankArgs (splitOf D R) i = some (gatherT y (r ++ rovingCols y.c r), gatherT y r)) ∧
    Conclusion A Cg br N refIds movIds U S sq P Q Rinv Vf lamf dt lam w mu := by
  subst hmv
  obtain ⟨hsp, hhead, hargs⟩ := C03_handover D R hval
  -- the head
  have hheadEq := head_eq D R hD hval dof refIds hshared
  have href : 0 < refIds.length := refIds_pos D R hD hval dof refIds hshared
  have hne : movDofs D R dof ≠ [] := by
    intro h
    have := congrArg List.length h
    simp only [movDofs, List.length_map, List.length_range, List.length_nil] at this
    exact hD (List.length_eq_zero_iff.mp this)
  refine ⟨hsp, hheadEq, hargs, ?_⟩
  -- the Hankel matrix of pass `i`
  let H : ℕ → Mat ℚ := fun i => ((ssiMsHankArgs (splitOf D R) i).map fun a => hankDatOfR (Rf i) a.2.r br).getD
    ⟨0, 0, fun _ _ => 0⟩
  refine C03_e2e_core A Cg br N hbr refIds (movDofs D R dof) href hne g H U V P S sq ?_
    Olr hObsR Olg hObsG Q Rq Rinv hqr Vf lamf heig dt hdt lam w mu hm
  intro i mi hmi
  obtain ⟨y, r, hy, hr, rfl⟩ := movDofs_get_inv D R dof hval.1 i mi hmi
  obtain ⟨_, hin, _, _⟩ := hval.2 i y r hy hr
  obtain ⟨hg, hfree⟩ := hdata i y hy
  obtain ⟨hrows, hfr⟩ := stacked_free A Cg (dof i) (g i) (x0 i) y r refIds hin (hshared i r hr) hfree
  have hH : H i = hankDatOfR (Rf i) (gatherT y r).r br := by
    simp only [H, hargs i y r hy hr, Option.map_some, Option.getD_some]
  rw [hH]
  have hc := hrec i y r hy hr
  rw [show (rovingCols y.c r).length = ((rovingCols y.c r).map (dof i)).length by simp] at hc
  exact DatRec.ok hg hrows hfr hc

/-! ## Non-vacuity: all hypotheses of `C03_e2e_cov_split` hold jointly

The two-setup instance of `C03E2E.Ex` seen from the user's side: global system = rotation `J`, three DOFs.
Dataset 0 (12 samples × 2 channels) has its channels at DOFs `[0, 1]` — the reference (DOF 1) is channel 1,
`ref_ind[0] = [1]`; dataset 1 has its channels at DOFs `[1, 2]` — the reference is channel 0, `ref_ind[1] = [0]`,
gain 2, a quarter period later.  The split puts the reference first in both, the roving DOFs are `[[0], [2]]`. -/
namespace Ex
open _root_.PV.C01E2E.ExDat (xs lams Vec lam w mu)
open _root_.PV.C03E2E.Ex (A Cg refIds movIds x00 x01 state_eq0 state_eq1 U0 U1 V0 S0 S1 sq0 sq1 P0 P1 g x0 U P S sq
  Olr Olg hObsR hObsG Q R Rinv hqr)

def dof : ℕ → ℕ → ℕ := fun i c => if i = 0 then c else c + 1
def D0 : Mat ℚ := ⟨12, 2, fun t c => 1 * (Cg c 0 * xs t 0 + Cg c 1 * xs t 1)⟩
def D1 : Mat ℚ := ⟨12, 2, fun t c => 2 * (Cg (c + 1) 0 * xs (t + 1) 0 + Cg (c + 1) 1 * xs (t + 1) 1)⟩
def D : List (Mat ℚ) := [D0, D1]
def Rl : List (List ℕ) := [[1], [0]]

theorem hval : ValidRefs D Rl := by
  refine ⟨rfl, fun i y r hy hr => ?_⟩
  match i with
  | 0 =>
    obtain rfl : D0 = y := by simpa [D] using hy
    obtain rfl : [1] = r := by simpa [Rl] using hr
    exact ⟨by decide, by decide, by decide, by decide⟩
  | 1 =>
    obtain rfl : D1 = y := by simpa [D] using hy
    obtain rfl : [0] = r := by simpa [Rl] using hr
    exact ⟨by decide, by decide, by decide, by decide⟩
  | i + 2 => simp [D] at hy

theorem hmov : movDofs D Rl dof = movIds := by decide

theorem hshared : ∀ (i : ℕ) (r : List ℕ), Rl[i]? = some r → r.map (dof i) = refIds := by
  intro i r hr
  match i with
  | 0 => obtain rfl : [1] = r := by simpa [Rl] using hr
         decide
  | 1 => obtain rfl : [0] = r := by simpa [Rl] using hr
         decide
  | i + 2 => simp [Rl] at hr

theorem free0 : IsFreeDataset A Cg (dof 0) 1 x00 D0 := by
  intro t c _ _
  rw [state_eq0]
  simp [D0, dof, Fin.sum_univ_two]

theorem free1 : IsFreeDataset A Cg (dof 1) 2 x01 D1 := by
  intro t c _ _
  rw [state_eq1]
  simp [D1, dof, Fin.sum_univ_two]; ring

theorem hdata : ∀ (i : ℕ) (y : Mat ℚ), D[i]? = some y → g i ≠ 0 ∧ IsFreeDataset A Cg (dof i) (g i) (x0 i) y := by
  intro i y hy
  match i with
  | 0 => obtain rfl : D0 = y := by simpa [D] using hy
         exact ⟨by simp [g], free0⟩
  | 1 => obtain rfl : D1 = y := by simpa [D] using hy
         exact ⟨by simp [g], free1⟩
  | i + 2 => simp [D] at hy

def Γr0 : Matrix (Fin ((3 + 1) * (gatherT D0 [1]).r)) (Fin 2) ℚ :=
  toMx 4 2 (C01E2E.Ex.ofRows 4 2 [[-1/32, 1/32], [-1/32, -1/32], [1/32, -1/32], [1/32, 1/32]]).e
def Γr1 : Matrix (Fin ((3 + 1) * (gatherT D1 [0]).r)) (Fin 2) ℚ :=
  toMx 4 2 (C01E2E.Ex.ofRows 4 2 [[-1/64, 1/64], [-1/64, -1/64], [1/64, -1/64], [1/64, 1/64]]).e

theorem hΓ0 : gamMx A x00 (gatherT D0 [1]) 3 1 (gatherT D0 ([1] ++ rovingCols 2 [1])).c
    ((3 + 1) * (gatherT D0 [1]).r) * Γr0 = 1 := by
  have : gamMx A x00 (gatherT D0 [1]) 3 1 (gatherT D0 ([1] ++ rovingCols 2 [1])).c ((3 + 1) * (gatherT D0 [1]).r)
      = Matrix.of fun (k : Fin 2) (c : Fin 4) => (1 * 1 : ℚ) * ∑ t ∈ range (12 - 3 - (3 + 1) - 1),
        xs (3 + 2 + t) k.1 * (gatherT D0 [1]).e (c.1 % 1) (3 + 1 - c.1 / 1 + t) := by
    ext k c
    simp only [gamMx, gamFn, state_eq0, Matrix.of_apply]
    rfl
  rw [this]
  decide +kernel

theorem hΓ1 : gamMx A x01 (gatherT D1 [0]) 3 1 (gatherT D1 ([0] ++ rovingCols 2 [0])).c
    ((3 + 1) * (gatherT D1 [0]).r) * Γr1 = 1 := by
  have : gamMx A x01 (gatherT D1 [0]) 3 1 (gatherT D1 ([0] ++ rovingCols 2 [0])).c ((3 + 1) * (gatherT D1 [0]).r)
      = Matrix.of fun (k : Fin 2) (c : Fin 4) => (1 * 1 : ℚ) * ∑ t ∈ range (12 - 3 - (3 + 1) - 1),
        xs (3 + 2 + t + 1) k.1 * (gatherT D1 [0]).e (c.1 % 1) (3 + 1 - c.1 / 1 + t) := by
    ext k c
    simp only [gamMx, gamFn, state_eq1, Matrix.of_apply]
    rfl
  rw [this]
  decide +kernel

theorem rec0 : CovRec A 3 2 x00 1 (gatherT D0 ([1] ++ rovingCols D0.c [1])) (gatherT D0 [1]) refIds.length
    (rovingCols D0.c [1]).length U0 V0 S0 sq0 P0 where
  gam := ⟨Γr0, hΓ0⟩
  svd := {
    dec := by
      have h : ∀ i, i < 8 → ∀ j, j < 4 →
          (hankMM (gatherT D0 ([1] ++ rovingCols D0.c [1])) (gatherT D0 [1]) 3 1).e i j
            = ∑ t ∈ range 2, U0.e i t * S0 t * V0.e j t := by decide +kernel
      exact fun i j hi hj => h i hi j hj
    orthU := by decide +kernel
    orthV := by decide +kernel
    nonneg := by decide +kernel
    ordered := by
      intro t ht
      obtain rfl : t = 0 := by omega
      decide +kernel }
  sqrt := by unfold SqrtOf; decide +kernel
  pinv := ⟨rfl, by decide +kernel⟩

theorem rec1 : CovRec A 3 2 x01 1 (gatherT D1 ([0] ++ rovingCols D1.c [0])) (gatherT D1 [0]) refIds.length
    (rovingCols D1.c [0]).length U1 V0 S1 sq1 P1 where
  gam := ⟨Γr1, hΓ1⟩
  svd := {
    dec := by
      have h : ∀ i, i < 8 → ∀ j, j < 4 →
          (hankMM (gatherT D1 ([0] ++ rovingCols D1.c [0])) (gatherT D1 [0]) 3 1).e i j
            = ∑ t ∈ range 2, U1.e i t * S1 t * V0.e j t := by decide +kernel
      exact fun i j hi hj => h i hi j hj
    orthU := by decide +kernel
    orthV := by decide +kernel
    nonneg := by decide +kernel
    ordered := by
      intro t ht
      obtain rfl : t = 0 := by omega
      decide +kernel }
  sqrt := by unfold SqrtOf; decide +kernel
  pinv := ⟨rfl, by decide +kernel⟩

theorem hrec : ∀ (i : ℕ) (y : Mat ℚ) (r : List ℕ), D[i]? = some y → Rl[i]? = some r →
    CovRec A 3 2 (x0 i) ((fun _ => (1 : ℚ)) i) (gatherT y (r ++ rovingCols y.c r)) (gatherT y r)
      refIds.length (rovingCols y.c r).length (U i) ((fun _ => V0) i) (S i) (sq i) (P i) := by
  intro i y r hy hr
  match i with
  | 0 =>
    obtain rfl : D0 = y := by simpa [D] using hy
    obtain rfl : [1] = r := by simpa [Rl] using hr
    exact rec0
  | 1 =>
    obtain rfl : D1 = y := by simpa [D] using hy
    obtain rfl : [0] = r := by simpa [Rl] using hr
    exact rec1
  | i + 2 => simp [D] at hy

/-- **all hypotheses of `C03_e2e_cov_split` hold together**: from the two datasets with the reference at channel 1
    resp. channel 0 the split, the hand-over and the recovered mode of `C03E2E.Ex` -/
theorem recovered :
    preMultisetupRec D Rl = .ok (splitOf D Rl) ∧
    ssiMsHead (splitOf D Rl) = some ⟨2, 1, [1, 1], 3⟩ ∧
    Conclusion A Cg 3 2 refIds movIds U S sq P Q Rinv Vec lams (1 / 100) lam w mu := by
  have h := C03_e2e_cov_split A Cg 3 2 (by decide) D Rl (by decide) hval dof refIds movIds hmov hshared g x0 hdata
    (fun _ => 1) U (fun _ => V0) P S sq hrec Olr hObsR Olg hObsG Q R Rinv hqr
    Vec lams (C01E2E.ExDat.eig_of _ (by decide +kernel)) (1 / 100) (by norm_num) lam w mu C01E2E.ExDat.mode
  exact ⟨h.1, h.2.1, h.2.2.2⟩

end Ex

/-! ## Non-vacuity of `C03_e2e_dat_split`: the instance of `C03E2E.ExD` seen from the user's side (26 samples, gains
`3/2` and `7/2`, reference at channel 1 of dataset 0 and at channel 0 of dataset 1) -/
namespace ExD
open _root_.PV.C01E2E.ExDat (xs lams Vec lam w mu)
open _root_.PV.C03E2E.Ex (A refIds movIds x00 x01 state_eq0 state_eq1)
open _root_.PV.C03E2E.ExD (Cg Rf0 Rf1 Qd0 Qd1 tri_of U0 U1 V0 S0 S1 sq0 sq1 P0 P1 g x0 Rf U P S sq Olr Olg hObsR hObsG
  Q R Rinv hqr)
open _root_.PV.C03Split.Ex (dof Rl hshared)

def D0 : Mat ℚ := ⟨26, 2, fun t c => 3/2 * (Cg c 0 * xs t 0 + Cg c 1 * xs t 1)⟩
def D1 : Mat ℚ := ⟨26, 2, fun t c => 7/2 * (Cg (c + 1) 0 * xs (t + 1) 0 + Cg (c + 1) 1 * xs (t + 1) 1)⟩
def D : List (Mat ℚ) := [D0, D1]

theorem hval : ValidRefs D Rl := by
  refine ⟨rfl, fun i y r hy hr => ?_⟩
  match i with
  | 0 =>
    obtain rfl : D0 = y := by simpa [D] using hy
    obtain rfl : [1] = r := by simpa [Rl] using hr
    exact ⟨by decide, by decide, by decide, by decide⟩
  | 1 =>
    obtain rfl : D1 = y := by simpa [D] using hy
    obtain rfl : [0] = r := by simpa [Rl] using hr
    exact ⟨by decide, by decide, by decide, by decide⟩
  | i + 2 => simp [D] at hy

theorem hmov : movDofs D Rl dof = movIds := by decide

theorem free0 : IsFreeDataset A Cg (dof 0) (3/2) x00 D0 := by
  intro t c _ _
  rw [state_eq0]
  simp [D0, dof, Fin.sum_univ_two]; ring

theorem free1 : IsFreeDataset A Cg (dof 1) (7/2) x01 D1 := by
  intro t c _ _
  rw [state_eq1]
  simp [D1, dof, Fin.sum_univ_two]; ring

theorem hdata : ∀ (i : ℕ) (y : Mat ℚ), D[i]? = some y → g i ≠ 0 ∧ IsFreeDataset A Cg (dof i) (g i) (x0 i) y := by
  intro i y hy
  match i with
  | 0 => obtain rfl : D0 = y := by simpa [D] using hy
         exact ⟨by norm_num [g], free0⟩
  | 1 => obtain rfl : D1 = y := by simpa [D] using hy
         exact ⟨by norm_num [g], free1⟩
  | i + 2 => simp [D] at hy

def Γr0 : Matrix (Fin ((3 + 1) * (gatherT D0 [1]).r)) (Fin 2) ℚ :=
  toMx 4 2 (C01E2E.Ex.ofRows 4 2 [[0, 1/12], [-1/12, 0], [0, -1/12], [1/12, 0]]).e
def Γr1 : Matrix (Fin ((3 + 1) * (gatherT D1 [0]).r)) (Fin 2) ℚ :=
  toMx 4 2 (C01E2E.Ex.ofRows 4 2 [[0, 1/28], [-1/28, 0], [0, -1/28], [1/28, 0]]).e

theorem hΓ0 : gamMx A x00 (gatherT D0 [1]) 3 (1/3) (gatherT D0 ([1] ++ rovingCols 2 [1])).c
    ((3 + 1) * (gatherT D0 [1]).r) * Γr0 = 1 := by
  have : gamMx A x00 (gatherT D0 [1]) 3 (1/3) (gatherT D0 ([1] ++ rovingCols 2 [1])).c ((3 + 1) * (gatherT D0 [1]).r)
      = Matrix.of fun (k : Fin 2) (c : Fin 4) => (1/3 * (1/3) : ℚ) * ∑ t ∈ range (26 - 3 - (3 + 1) - 1),
        xs (3 + 2 + t) k.1 * (gatherT D0 [1]).e (c.1 % 1) (3 + 1 - c.1 / 1 + t) := by
    ext k c
    simp only [gamMx, gamFn, state_eq0, Matrix.of_apply]
    rfl
  rw [this]
  decide +kernel

theorem hΓ1 : gamMx A x01 (gatherT D1 [0]) 3 (1/3) (gatherT D1 ([0] ++ rovingCols 2 [0])).c
    ((3 + 1) * (gatherT D1 [0]).r) * Γr1 = 1 := by
  have : gamMx A x01 (gatherT D1 [0]) 3 (1/3) (gatherT D1 ([0] ++ rovingCols 2 [0])).c ((3 + 1) * (gatherT D1 [0]).r)
      = Matrix.of fun (k : Fin 2) (c : Fin 4) => (1/3 * (1/3) : ℚ) * ∑ t ∈ range (26 - 3 - (3 + 1) - 1),
        xs (3 + 2 + t + 1) k.1 * (gatherT D1 [0]).e (c.1 % 1) (3 + 1 - c.1 / 1 + t) := by
    ext k c
    simp only [gamMx, gamFn, state_eq1, Matrix.of_apply]
    rfl
  rw [this]
  decide +kernel

theorem rec0 : DatRec A 3 2 x00 (1/3) (gatherT D0 ([1] ++ rovingCols D0.c [1])) (gatherT D0 [1]) refIds.length
    (rovingCols D0.c [1]).length Rf0 U0 V0 S0 sq0 P0 where
  gam := ⟨Γr0, hΓ0⟩
  hRc := rfl
  qr := {
    tri := tri_of _ _ rfl
    dec := ⟨Qd0, by decide +kernel, by decide +kernel⟩ }
  svd := {
    dec := by
      have h : ∀ i, i < 8 → ∀ j, j < 4 → (hankDatOfR Rf0 (gatherT D0 [1]).r 3).e i j
          = ∑ t ∈ range 2, U0.e i t * S0 t * V0.e j t := by decide +kernel
      exact fun i j hi hj => h i hi j hj
    orthU := by decide +kernel
    orthV := by decide +kernel
    nonneg := by decide +kernel
    ordered := by
      intro t ht
      obtain rfl : t = 0 := by omega
      decide +kernel }
  sqrt := by unfold SqrtOf; decide +kernel
  pinv := ⟨rfl, by decide +kernel⟩

theorem rec1 : DatRec A 3 2 x01 (1/3) (gatherT D1 ([0] ++ rovingCols D1.c [0])) (gatherT D1 [0]) refIds.length
    (rovingCols D1.c [0]).length Rf1 U1 V0 S1 sq1 P1 where
  gam := ⟨Γr1, hΓ1⟩
  hRc := rfl
  qr := {
    tri := tri_of _ _ rfl
    dec := ⟨Qd1, by decide +kernel, by decide +kernel⟩ }
  svd := {
    dec := by
      have h : ∀ i, i < 8 → ∀ j, j < 4 → (hankDatOfR Rf1 (gatherT D1 [0]).r 3).e i j
          = ∑ t ∈ range 2, U1.e i t * S1 t * V0.e j t := by decide +kernel
      exact fun i j hi hj => h i hi j hj
    orthU := by decide +kernel
    orthV := by decide +kernel
    nonneg := by decide +kernel
    ordered := by
      intro t ht
      obtain rfl : t = 0 := by omega
      decide +kernel }
  sqrt := by unfold SqrtOf; decide +kernel
  pinv := ⟨rfl, by decide +kernel⟩

theorem hrec : ∀ (i : ℕ) (y : Mat ℚ) (r : List ℕ), D[i]? = some y → Rl[i]? = some r →
    DatRec A 3 2 (x0 i) ((fun _ => (1/3 : ℚ)) i) (gatherT y (r ++ rovingCols y.c r)) (gatherT y r)
      refIds.length (rovingCols y.c r).length (Rf i) (U i) ((fun _ => V0) i) (S i) (sq i) (P i) := by
  intro i y r hy hr
  match i with
  | 0 =>
    obtain rfl : D0 = y := by simpa [D] using hy
    obtain rfl : [1] = r := by simpa [Rl] using hr
    exact rec0
  | 1 =>
    obtain rfl : D1 = y := by simpa [D] using hy
    obtain rfl : [0] = r := by simpa [Rl] using hr
    exact rec1
  | i + 2 => simp [D] at hy

/-- **all hypotheses of `C03_e2e_dat_split` hold together** -/
theorem recovered :
    preMultisetupRec D Rl = .ok (splitOf D Rl) ∧
    ssiMsHead (splitOf D Rl) = some ⟨2, 1, [1, 1], 3⟩ ∧
    Conclusion A Cg 3 2 refIds movIds U S sq P Q Rinv Vec lams (1 / 100) lam w mu := by
  have h := C03_e2e_dat_split A Cg 3 2 (by decide) D Rl (by decide) hval dof refIds movIds hmov hshared g x0 hdata
    (fun _ => 1/3) Rf U (fun _ => V0) P S sq hrec Olr hObsR Olg hObsG Q R Rinv hqr
    Vec lams (C01E2E.ExDat.eig_of _ (by decide +kernel)) (1 / 100) (by norm_num) lam w mu C01E2E.ExDat.mode
  exact ⟨h.1, h.2.1, h.2.2.2⟩

end ExD

/-! ## Non-vacuity of the hand-over and of the "after every step" statements -/

example := C03_handover Ex.D Ex.Rl Ex.hval

/-- two datasets of 600 × 4 and 500 × 3 samples × channels, `ref_ind = [[2, 0], [1]]`, any arrays of those shapes -/
example (ev : Term → Mat ℚ)
    (hc : ∀ t, (ev t).c = t.ncols (fun i => [4, 3].getD i 0)) :=
  C03_data_every_step (K := ℚ) .current (by decide) ⟨[600, 500], [4, 3], 100, [[2, 0], [1]]⟩ (by decide)
    [.detrend {}, .decimate 2 {}] ev hc (by
      have hterms : (MCfg.spec ⟨[600, 500], [4, 3], 100, [[2, 0], [1]]⟩ [.detrend {}, .decimate 2 {}]).terms.length = 2 :=
        (spec_cols _ _).1
      refine ⟨by rw [List.length_map, hterms]; rfl, fun i y r hy hrr => ?_⟩
      rw [List.getElem?_map] at hy
      cases ht : (MCfg.spec ⟨[600, 500], [4, 3], 100, [[2, 0], [1]]⟩ [.detrend {}, .decimate 2 {}]).terms[i]? with
      | none => simp [ht] at hy
      | some t =>
        simp only [ht, Option.map_some, Option.some.injEq] at hy
        subst hy
        have hcol : t.ncols (fun i => [4, 3].getD i 0) = [4, 3].getD i 0 :=
          (spec_cols ⟨[600, 500], [4, 3], 100, [[2, 0], [1]]⟩ [.detrend {}, .decimate 2 {}]).2 i t ht
        rw [hc, hcol]
        match i with
        | 0 => obtain rfl : [2, 0] = r := by simpa using hrr
               decide
        | 1 => obtain rfl : [1] = r := by simpa using hrr
               decide
        | i + 2 => simp at hrr)

end PV.C03Split
