import PyomaVerif.Props.WiringDefaults
/-! Default values as regenerated obligations — part C09 (see `Props/WiringDefaults.lean`; one module per property so that a
changed default is reported by the property it belongs to). -/
namespace PV.WiringDefaults
open PV.Defaults PV.DefaultsTbl PV.Wiring

/-- **C09 defaults.** the default hard criteria: conjugate test on, `xi_max = 0.1`, `mpc_lim = 0.7`, `mpd_lim = 0.3`
    and (SSI only: the key exists only there) `cov_max = 0.2` — exactly these keys, for each of the six classes. -/
theorem C09_hc_defaults :
    rpDefaults ssiClasses hcSsi = true ∧ rpDefaults plscfClasses hcPlscf = true
    ∧ plscfClasses.all (fun c => runParamCls c == some "pLSCFRunParams") = true
    ∧ extrasOf "pLSCFRunParams" = [] := by
  decide

end PV.WiringDefaults
