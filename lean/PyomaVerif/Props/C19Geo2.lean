import PyomaVerif.Model.Geo
import PyomaVerif.Lemmas.Geo
import PyomaVerif.Props.C19
/-!
# C19, depth round — `def_geo2`, the names of an accepted geometry 2, the composed mapping
(`constraint columns re-ordered to sensor order` THEN `multiplied position by position` = the
label-wise linear combination; `fillna(0)` THEN `replace` = zero elsewhere), the default sign.

Property theorems only, all over the executable model functions of `Model/Geo.lean`
(`defGeo1`, `defGeo2`, `checkGeo2`, `cstrVals`, `mapCell`, `mapPhi`, `displace`).
-/
namespace PV.C19
open PV PV.Geo

/-! ## the names of an accepted geometry 2 -/

/-- **The names returned with an accepted geometry 2 are the flattened sensor names** of the
    `sensors names` value of the table set (single setup: the row; multi-setup: `REF1..REFk`
    then the roving names, by `C19_flatten_multi`). -/
theorem C19_names_geo2 (fd : FileDict) (r : Option (List (List Nat))) (out : Out2)
    (h : checkGeo2 fd r = .ok out) :
    ∃ nm, fd.names = some nm ∧ flattenNames nm r = .ok out.names := by
  obtain ⟨nm, pt, mp, cs0, g⟩ := checkGeo2With_ok h
  exact ⟨nm, g.hnm, g.hflat⟩

/-! ## `def_geo1` / `def_geo2`: the class-level entry points -/

/-- the dictionary `def_geo1` hands to `check_on_geo1` (names already brought to a table) -/
def defGeo1Dict (nm' : NamesArg) (coord di : Tbl) (lines bgN bgL bgS : Option ArrArg) : FileDict :=
  ⟨some nm', [("sensors coordinates", coord), ("sensors directions", di),
    optSheet "sensors lines" lines, optSheet "BG nodes" bgN, optSheet "BG lines" bgL,
    optSheet "BG surfaces" bgS]⟩

/-- the dictionary `def_geo2` hands to `check_on_geo2` -/
def defGeo2Dict (nm' : NamesArg) (pts map : Tbl) (cstr sign lines surf bgN bgL bgS : Option ArrArg) : FileDict :=
  ⟨some nm', [("points coordinates", pts), ("mapping", map),
    optSheet "constraints" cstr, optSheet "sensors sign" sign, optSheet "sensors lines" lines,
    optSheet "sensors surfaces" surf, optSheet "BG nodes" bgN, optSheet "BG lines" bgL,
    optSheet "BG surfaces" bgS]⟩

/-- **All name forms define the same geometry 2**: whatever the accepted non-table form of
    `sens_names` (list, list of lists, array), `def_geo2` gives what it gives for the one-row
    table of the flattened names, and that is `check_on_geo2` of the dictionary of the
    arguments (so that every theorem on `checkGeo2` speaks about `def_geo2`); a table of names
    goes to `check_on_geo2` as it is; a name form that cannot be flattened raises what
    `flatten_sns_names` raises. -/
theorem C19_defgeo2_forms (nm : NamesArg) (pts map : Tbl)
    (cstr sign lines surf bgN bgL bgS : Option ArrArg) (r : Option (List (List Nat))) :
    (∀ names, flattenNames nm r = .ok names → isTable nm = false →
      defGeo2 nm pts map cstr sign lines surf bgN bgL bgS r =
        defGeo2 (.table [names]) pts map cstr sign lines surf bgN bgL bgS r ∧
      defGeo2 nm pts map cstr sign lines surf bgN bgL bgS r =
        checkGeo2 (defGeo2Dict (.table [names]) pts map cstr sign lines surf bgN bgL bgS) r) ∧
    (isTable nm = true →
      defGeo2 nm pts map cstr sign lines surf bgN bgL bgS r =
        checkGeo2 (defGeo2Dict nm pts map cstr sign lines surf bgN bgL bgS) r) ∧
    (∀ e, flattenNames nm r = .error e → isTable nm = false →
      defGeo2 nm pts map cstr sign lines surf bgN bgL bgS r = .error e) := by
  refine ⟨?_, ?_, ?_⟩
  · intro names hf hnt
    have e1 : namesToTable nm r = .ok (.table [names]) := by simp [namesToTable, hnt, hf]
    have e2 : namesToTable (.table [names]) r = .ok (.table [names]) := rfl
    exact ⟨by simp only [defGeo2, e1, e2], by simp only [defGeo2, e1, defGeo2Dict]⟩
  · intro ht
    have e1 : namesToTable nm r = .ok nm := by simp [namesToTable, ht]
    simp only [defGeo2, e1, defGeo2Dict]
  · intro e hf hnt
    have e1 : namesToTable nm r = .error e := by simp [namesToTable, hnt, hf]
    simp only [defGeo2, e1]

/-- **The names of a geometry defined through `def_geo2` are the flattened names of the
    caller's `sens_names`**, in every argument form. -/
theorem C19_defgeo2_names (nm : NamesArg) (pts map : Tbl)
    (cstr sign lines surf bgN bgL bgS : Option ArrArg) (r : Option (List (List Nat))) (out : Out2)
    (h : defGeo2 nm pts map cstr sign lines surf bgN bgL bgS r = .ok out) :
    flattenNames nm r = .ok out.names := by
  have F := C19_defgeo2_forms nm pts map cstr sign lines surf bgN bgL bgS r
  cases ht : isTable nm with
  | true =>
    rw [F.2.1 ht] at h
    obtain ⟨nm', h1, h2⟩ := C19_names_geo2 _ r out h
    cases h1; exact h2
  | false =>
    cases hf : flattenNames nm r with
    | error e => rw [F.2.2 e hf ht] at h; cases h
    | ok names =>
      rw [(F.1 names hf ht).2] at h
      obtain ⟨nm', h1, h2⟩ := C19_names_geo2 _ r out h
      cases h1
      have : names = out.names := by
        have h3 : flattenNames (.table [names]) r = .ok names := rfl
        rw [h3] at h2; exact Except.ok.inj h2
      rw [this]

/-- the same for `def_geo1` -/
theorem C19_defgeo1_names (nm : NamesArg) (coord : Tbl) (dir : ArrArg)
    (lines bgN bgL bgS : Option ArrArg) (r : Option (List (List Nat))) (out : Out1)
    (h : defGeo1 nm coord dir lines bgN bgL bgS r = .ok out) :
    flattenNames nm r = .ok out.names := by
  unfold defGeo1 at h
  split at h
  · cases h
  · rename_i nm' hnm'
    split at h
    · cases h
    · obtain ⟨nm2, co, di, g⟩ := checkGeo1_ok h
      have e2 : nm2 = nm' := (Option.some.inj g.hnm).symm
      subst e2
      have hfl := g.hflat
      unfold namesToTable at hnm'
      split at hnm'
      · cases hnm'; exact hfl
      · split at hnm'
        · rename_i l hl
          cases hnm'
          have h3 : flattenNames (.table [l]) r = .ok l := rfl
          rw [h3] at hfl
          rw [hl, Except.ok.inj hfl]
        · cases hnm'

/-- **`def_geo2` raises `ValueError` exactly on malformed arguments.**  For names in any
    non-table form that flattens to `names` (the table form is `C19_reject_iff_geo2` itself, by
    `C19_defgeo2_forms`), and index tables holding no strings: the result is a `ValueError` iff
    the dictionary of the arguments is not well-formed (`WellFormed2`: shapes, column counts,
    every name in the mapping, constraint columns naming sensors, constraint rows used by the
    mapping), and a geometry otherwise. -/
theorem C19_defgeo2_reject_iff (nm : NamesArg) (names : List Name) (pts map : Tbl)
    (cstr sign lines surf bgN bgL bgS : Option ArrArg) (r : Option (List (List Nat)))
    (hf : flattenNames nm r = .ok names) (hnt : isTable nm = false)
    (hd : Domain2 (defGeo2Dict (.table [names]) pts map cstr sign lines surf bgN bgL bgS)) :
    ((∃ w, defGeo2 nm pts map cstr sign lines surf bgN bgL bgS r = .error (.valueError w)) ↔
      ¬ WellFormed2 (defGeo2Dict (.table [names]) pts map cstr sign lines surf bgN bgL bgS) r) ∧
    ((∃ out, defGeo2 nm pts map cstr sign lines surf bgN bgL bgS r = .ok out) ↔
      WellFormed2 (defGeo2Dict (.table [names]) pts map cstr sign lines surf bgN bgL bgS) r) := by
  rw [((C19_defgeo2_forms nm pts map cstr sign lines surf bgN bgL bgS r).1 names hf hnt).2]
  refine ⟨C19_reject_iff_geo2 _ r hd ?_, C19_accept_iff_geo2 _ r hd⟩
  intro nm' hnm'
  cases hnm'
  have h3 : flattenNames (.table [names]) r = .ok names := rfl
  rw [h3]
  exact ⟨by simp, by simp, by simp, by simp⟩

/-- **`def_geo1` raises `ValueError` exactly on malformed arguments** (directions given as a
    frame, or as an array with one row per coordinate row, which takes the coordinate labels;
    an array of another length is a `ValueError` outright). -/
theorem C19_defgeo1_reject_iff (nm : NamesArg) (names : List Name) (coord : Tbl) (dir : ArrArg)
    (lines bgN bgL bgS : Option ArrArg) (r : Option (List (List Nat)))
    (hf : flattenNames nm r = .ok names) (hnt : isTable nm = false) :
    (dir.isArr = true → dir.t.nrows ≠ coord.nrows →
      defGeo1 nm coord dir lines bgN bgL bgS r = .error (.valueError .lenMismatch)) ∧
    (∀ di, (dir.isArr = false ∧ di = dir.t) ∨
           (dir.isArr = true ∧ dir.t.nrows = coord.nrows ∧ di = { dir.t with index := coord.index }) →
      Domain1 (defGeo1Dict (.table [names]) coord di lines bgN bgL bgS) →
      ((∃ w, defGeo1 nm coord dir lines bgN bgL bgS r = .error (.valueError w)) ↔
        ¬ WellFormed1 (defGeo1Dict (.table [names]) coord di lines bgN bgL bgS) r) ∧
      ((∃ out, defGeo1 nm coord dir lines bgN bgL bgS r = .ok out) ↔
        WellFormed1 (defGeo1Dict (.table [names]) coord di lines bgN bgL bgS) r)) := by
  have e1 : namesToTable nm r = .ok (.table [names]) := by simp [namesToTable, hnt, hf]
  refine ⟨?_, ?_⟩
  · intro ha hne
    simp [defGeo1, e1, ha, hne]
  · intro di hdi hd
    have key : defGeo1 nm coord dir lines bgN bgL bgS r =
        checkGeo1 (defGeo1Dict (.table [names]) coord di lines bgN bgL bgS) r := by
      rcases hdi with ⟨ha, rfl⟩ | ⟨ha, hr, rfl⟩
      · simp [defGeo1, e1, ha, defGeo1Dict]
      · simp [defGeo1, e1, ha, hr, defGeo1Dict]
    rw [key]
    refine ⟨C19_reject_iff_geo1 _ r hd ?_, C19_accept_iff_geo1 _ r hd⟩
    intro nm' hnm'
    cases hnm'
    have h3 : flattenNames (.table [names]) r = .ok names := rfl
    rw [h3]
    exact ⟨by simp, by simp, by simp, by simp⟩

/-! ## the default sign -/

/-- **Default sign.**  When the `sensors sign` sheet is absent or empty, an accepted
    geometry 2 carries the table of ones: the shape and the column labels of the points table,
    every cell `1` (`None` only when the points table has no row). -/
theorem C19_default_sign (fd : FileDict) (r : Option (List (List Nat))) (out : Out2)
    (h : checkGeo2 fd r = .ok out)
    (hs : ∀ sg, (dropInfo fd.tbls).lookup "sensors sign" = some sg → sg.empty = true) :
    ∃ pt, (dropInfo fd.tbls).lookup "points coordinates" = some pt ∧
      out.sign = noneIfEmpty (onesLike pt) ∧
      (0 < pt.nrows → out.sign = some (onesLike pt)) ∧
      (onesLike pt).shape = pt.shape ∧ (onesLike pt).cols = pt.cols ∧
      (onesLike pt).cells.length = pt.nrows ∧
      ∀ row ∈ (onesLike pt).cells, row.length = pt.ncols ∧ ∀ c ∈ row, c = .num 1 := by
  obtain ⟨nm, pt, mp, cs0, g⟩ := checkGeo2With_ok h
  have hp := geo2Pre_none_iff.1 g.hpre
  have hso : signOf (dropInfo fd.tbls) pt = onesLike pt := by
    unfold signOf
    cases hl : (dropInfo fd.tbls).lookup "sensors sign" with
    | none => rfl
    | some sg => simp [hs sg hl]
  have hsign : out.sign = noneIfEmpty (onesLike pt) := by rw [g.hsign, hso]
  refine ⟨pt, g.hpt, hsign, ?_, by simp [onesLike, Tbl.shape, Tbl.nrows, Tbl.ncols],
    rfl, by simp [onesLike], ?_⟩
  · intro hpos
    rw [hsign]
    have h3 : pt.ncols = 3 := hp.2.1
    have : (onesLike pt).empty = false := by
      simp only [Tbl.empty, Tbl.nrows, Tbl.ncols, onesLike, List.length_map, List.length_range, Bool.or_eq_false_iff,
        beq_eq_false_iff_ne, ne_eq]
      simp only [Tbl.nrows, Tbl.ncols] at hpos h3
      omega
    simp [noneIfEmpty, this]
  · intro row hrow
    simp only [onesLike, List.mem_replicate] at hrow
    rw [hrow.2]
    exact ⟨by simp, fun c hc => (List.mem_replicate.1 hc).2⟩

/-- **Omitting the optional `sensors sign` sheet gives the table of ones** (the conjunct
    `C19_optional_geo2` is silent about). -/
theorem C19_optional_geo2_sign (fd : FileDict) (r : Option (List (List Nat))) (out : Out2)
    (h : checkGeo2 fd r = .ok out) (S : List String) (hS : ∀ k ∈ S, k ∈ geo2Optional)
    (hsg : S.contains "sensors sign" = true) :
    ∃ out' pt, checkGeo2 ⟨fd.names, dropKeys S fd.tbls⟩ r = .ok out' ∧
      (dropInfo fd.tbls).lookup "points coordinates" = some pt ∧
      out'.sign = noneIfEmpty (onesLike pt) ∧ out'.pts = out.pts ∧ out'.map = out.map ∧
      out'.names = out.names := by
  obtain ⟨out', h', hn, hpts, hmap, _⟩ := C19_optional_geo2 fd r out h S hS
  obtain ⟨pt, hpt, hsign, _⟩ := C19_default_sign ⟨fd.names, dropKeys S fd.tbls⟩ r out' h' (by
    intro sg hl
    simp only [dropInfo_dropKeys, lookup_dropKeys, hsg, if_true] at hl
    cases hl)
  refine ⟨out', pt, h', ?_, hsign, hpts, hmap, hn⟩
  have n1 : S.contains "points coordinates" = false := by
    cases hc : S.contains "points coordinates" with
    | false => rfl
    | true => have := hS _ (by simpa using hc); simp [geo2Optional] at this
  simpa only [dropInfo_dropKeys, lookup_dropKeys, n1, Bool.false_eq_true, if_false] using hpt

/-- with the default sign the displayed point is the coordinate plus the mapped value -/
theorem C19_displace_default_sign (pt : Tbl) (m : List (List (Option Rat))) (i j : Nat)
    (rc : List Cell) (rm : List (Option Rat)) (x v : Rat)
    (h1 : pt.cells[i]? = some rc) (h2 : m[i]? = some rm) (hi : i < pt.nrows) (hj : j < pt.ncols)
    (c1 : rc[j]? = some (.num x)) (c2 : rm[j]? = some (some v)) :
    ∃ row, (displace pt.cells m (onesLike pt).cells)[i]? = some row ∧ row[j]? = some (some (x + v)) := by
  have h3 : (onesLike pt).cells[i]? = some (List.replicate pt.ncols (.num 1)) := by
    simp [onesLike, hi]
  have c3 : (List.replicate pt.ncols (Cell.num 1))[j]? = some (.num 1) := by
    simp [hj]
  obtain ⟨row, hr, hc⟩ := C19_displace pt.cells (onesLike pt).cells m i j rc _ rm x v 1 h1 h2 h3 c1 c2 c3
  refine ⟨row, hr, ?_⟩
  rw [hc]
  congr 2
  grind

/-! ## zero elsewhere: `fillna(0)` then `replace` -/

/-- a cell that is not NaN is never mapped to NaN -/
theorem C19_mapCell_not_nan (sens : List (Name × Rat)) (cons : List (String × Rat)) (c : Cell)
    (v : Option Rat) (hc : c ≠ .nan) (h : mapCell sens cons c = .ok v) : v ≠ none := by
  cases c with
  | nan => exact absurd rfl hc
  | num q => simp only [mapCell] at h; cases h; simp
  | str s =>
    simp only [mapCell] at h
    split at h
    · cases h; simp
    · split at h
      · cases h; simp
      · cases h

/-- **Zero elsewhere, on a checked geometry.**  The mapping table an accepted geometry 2
    carries is the input sheet with every NaN replaced by `0`: it holds no NaN; a cell that was
    `0` or empty (NaN) in the sheet is `0` and is mapped to `0`; and mapping any shape through
    it never produces a NaN. -/
theorem C19_map_zero_checked (fd : FileDict) (r : Option (List (List Nat))) (out : Out2) (m : Tbl)
    (h : checkGeo2 fd r = .ok out) (hm : out.map = some m) :
    ∃ mp, (dropInfo fd.tbls).lookup "mapping" = some mp ∧ m = fill0 mp ∧
      (∀ row ∈ m.cells, ∀ c ∈ row, c ≠ .nan) ∧
      (∀ (i j : Nat) (rowIn : List Cell) (c : Cell), mp.cells[i]? = some rowIn → rowIn[j]? = some c →
        (c = .nan ∨ c = .num 0) →
        ∃ mrow, m.cells[i]? = some mrow ∧ mrow[j]? = some (.num 0) ∧
          ∀ sens cons, mapCell sens cons (.num 0) = .ok (some 0)) ∧
      (∀ phi names cstr mm, mapPhi phi names m cstr = .ok mm → ∀ row ∈ mm, ∀ v ∈ row, v ≠ none) := by
  obtain ⟨nm, pt, mp, cs0, g⟩ := checkGeo2With_ok h
  have hmm : m = fill0 mp := by
    have := g.hmap; rw [hm] at this
    unfold noneIfEmpty at this
    split at this
    · cases this
    · exact Option.some.inj this
  have hnn : ∀ row ∈ m.cells, ∀ c ∈ row, c ≠ .nan := by
    intro row hrow c hc
    rw [hmm] at hrow
    simp only [fill0, List.mem_map] at hrow
    obtain ⟨r0, _, rfl⟩ := hrow
    obtain ⟨c0, _, rfl⟩ := List.mem_map.1 hc
    cases c0 <;> simp [fill0Cell]
  refine ⟨mp, g.hmp, hmm, hnn, ?_, ?_⟩
  · intro i j rowIn c hrow hc hz
    refine ⟨rowIn.map fill0Cell, by rw [hmm]; simp [fill0, hrow], ?_, fun _ _ => rfl⟩
    rw [List.getElem?_map, hc]
    rcases hz with rfl | rfl <;> rfl
  · intro phi names cstr mm hmap row hrow v hv
    obtain ⟨_, cons, _, _, hlen, hcells⟩ := C19_map_cells phi names m cstr mm hmap
    obtain ⟨i, hi⟩ := List.mem_iff_getElem?.1 hrow
    have hlt : i < m.cells.length := by
      rw [← hlen]; exact (List.getElem?_eq_some_iff.1 hi).1
    obtain ⟨mrow, h1, hl, hall⟩ := hcells i m.cells[i] (List.getElem?_eq_getElem hlt)
    rw [hi] at h1; cases h1
    obtain ⟨j, hj⟩ := List.mem_iff_getElem?.1 hv
    have hjl : j < (m.cells[i]).length := by
      rw [← hl]; exact (List.getElem?_eq_some_iff.1 hj).1
    obtain ⟨v', hv', hmc⟩ := hall j (m.cells[i])[j] (List.getElem?_eq_getElem hjl)
    rw [hj] at hv'; cases hv'
    exact C19_mapCell_not_nan _ _ _ _
      (hnn _ (List.getElem_mem hlt) _ (List.getElem_mem hjl)) hmc

/-! ## constraints: re-ordered to sensor order, then multiplied position by position -/

/-- **A cell naming a constraint carries the label-wise linear combination of the INPUT
    sheet (`C19_cstr_align` composed with `C19_map_cstr`).**  On an accepted geometry 2 whose
    constraint frame is `c`, for the values `cons = c @ phi` the code computes: a mapping cell
    naming the constraint of row `i` of the `constraints` sheet is mapped to the product of
    the shape with the row `k ↦ coefficient the sheet gives in row i under the column labelled
    names[k]` (NaN → 0, no such column → 0) — coefficient `k` belongs to sensor `names[k]`
    whatever the order (or the subset) of the sheet's columns.  The sheet is rectangular with
    distinct row labels (`Tbl.WF`, and the stated domain of constraint names). -/
theorem C19_map_cstr_aligned (fd : FileDict) (r : Option (List (List Nat))) (out : Out2) (c : Tbl)
    (phi : List Rat) (cons : List (String × Rat)) (sens : List (Name × Rat))
    (i : Nat) (cname : String) (row : List Cell)
    (h : checkGeo2 fd r = .ok out) (hc : out.cstr = some c) (hv : cstrVals c phi = .ok cons)
    (hwf : (cstrSheet fd).cells.length = (cstrSheet fd).index.length)
    (hn : (cstrSheet fd).index.Nodup)
    (hi : (cstrSheet fd).index[i]? = some cname) (hrow : (cstrSheet fd).cells[i]? = some row) :
    mapCell sens cons (.str cname) =
      .ok (some (dot (out.names.map (coefName (cstrSheet fd).cols row)) phi)) := by
  obtain ⟨hidx, _, hcells⟩ := C19_cstr_align fd r out c h hc
  obtain ⟨crow, hcrow, hlen, hk⟩ := hcells i row hrow
  have hclen : c.cells.length = c.index.length := by
    obtain ⟨nm, pt, mp, cs0, g⟩ := checkGeo2With_ok h
    have hcs : cs0 = cstrSheet fd := by
      have := g.hcs; rw [cstrOf_nil] at this; exact (Option.some.inj this).symm
    subst hcs
    have hc' := g.hcstr
    rw [hc] at hc'
    unfold noneIfEmpty at hc'
    split at hc'
    · cases hc'
    · cases hc'; simp [reorderCols, fill0, hwf]
  obtain ⟨nums, hnums, hmap⟩ := C19_map_cstr phi c cons sens i cname crow hv hclen (hidx ▸ hn) (hidx ▸ hi) hcrow
  rw [hmap]
  congr 3
  rw [C19_cellNum0_row crow nums hnums]
  apply List.ext_getElem?
  intro k
  rw [List.getElem?_map, List.getElem?_map]
  cases hnk : out.names[k]? with
  | none =>
    have : crow[k]? = none := by
      rw [List.getElem?_eq_none_iff] at hnk ⊢; omega
    simp [this]
  | some n =>
    have hlt : k < crow.length := by
      rw [hlen]; exact (List.getElem?_eq_some_iff.1 hnk).1
    cases n with
    | some s =>
      rw [hk k s hnk]
      simp only [Option.map_some, coefName, coefAt, lookup_zip_map]
      cases ((cstrSheet fd).cols.zip row).lookup s with
      | none => rfl
      | some x => cases x <;> rfl
    | none =>
      -- a NaN name has no column: the code sets that column to 0
      obtain ⟨nm, pt, mp, cs0, g⟩ := checkGeo2With_ok h
      have hcs : cs0 = cstrSheet fd := by
        have := g.hcs; rw [cstrOf_nil] at this; exact (Option.some.inj this).symm
      subst hcs
      have hc' := g.hcstr
      rw [hc] at hc'
      unfold noneIfEmpty at hc'
      split at hc'
      · cases hc'
      · cases hc'
        simp only [reorderCols, fill0, List.getElem?_map, hrow, Option.map_some, Option.some.injEq] at hcrow
        subst hcrow
        simp [hnk, coefName]

/-- **… which is the sum over the sheet's columns of coefficient × component of the sensor
    the column is labelled with**: with distinct sensor names and distinct column labels,
    `Σ_k coef[row i, names[k]]·phi[k] = Σ_{column s of the sheet} coef[row i, s]·phi_s`, where
    `phi_s = dict(zip(names, phi))[s]` is what a cell naming sensor `s` carries
    (`C19_map_sensor`).  That every column of the sheet is a sensor name is part of
    acceptance. -/
theorem C19_map_cstr_labelwise (fd : FileDict) (r : Option (List (List Nat))) (out : Out2) (c : Tbl)
    (phi : List Rat) (cons : List (String × Rat)) (sens : List (Name × Rat))
    (i : Nat) (cname : String) (row : List Cell)
    (h : checkGeo2 fd r = .ok out) (hc : out.cstr = some c) (hv : cstrVals c phi = .ok cons)
    (hwf : (cstrSheet fd).cells.length = (cstrSheet fd).index.length)
    (hn : (cstrSheet fd).index.Nodup)
    (hi : (cstrSheet fd).index[i]? = some cname) (hrow : (cstrSheet fd).cells[i]? = some row)
    (hnames : out.names.Nodup) (hcols : (cstrSheet fd).cols.Nodup) :
    mapCell sens cons (.str cname) =
      .ok (some (((cstrSheet fd).cols.zip row).map fun p => numOr0 p.2 * phiAt out.names phi p.1).sum) := by
  rw [C19_map_cstr_aligned fd r out c phi cons sens i cname row h hc hv hwf hn hi hrow]
  congr 3
  have hl : phi.length = out.names.length := by
    unfold cstrVals at hv
    split at hv
    · cases hv
    · rename_i hne
      have h1 : c.ncols = phi.length := by simpa using hne
      have := (C19_cstr_align fd r out c h hc).2.1
      simp only [Tbl.ncols] at h1; omega
  apply dot_reordered out.names phi _ row hl hnames hcols
  obtain ⟨nm, pt, mp, cs0, g⟩ := checkGeo2With_ok h
  have hcs : cs0 = cstrSheet fd := by
    have := g.hcs; rw [cstrOf_nil] at this; exact (Option.some.inj this).symm
  subst hcs
  have := (geo2Names_none_iff.1 g.hnames).2.1
  simp only [List.all_eq_true] at this
  intro col hcol
  simpa [fill0] using this col (by simpa [fill0] using hcol)

/-- **A cell naming a sensor carries that sensor's component, on a checked geometry**
    (`C19_map_sensor` without its side condition): acceptance guarantees that no constraint is
    called like a sensor (every constraint row is a mapping string that is NOT a sensor name),
    so with distinct names a cell holding `names[k]` is mapped to `phi[k]`, whatever the
    constraints are.  `cons` is the dictionary of constraint values of `C19_map_cells`. -/
theorem C19_map_sensor_checked (fd : FileDict) (r : Option (List (List Nat))) (out : Out2)
    (phi : List Rat) (cons : List (String × Rat)) (k : Nat) (s : String)
    (h : checkGeo2 fd r = .ok out)
    (h0 : out.cstr = none → cons = []) (h1 : ∀ c, out.cstr = some c → cstrVals c phi = .ok cons)
    (hl : phi.length = out.names.length) (hn : out.names.Nodup) (hk : out.names[k]? = some (some s)) :
    ∃ v, phi[k]? = some v ∧ mapCell (out.names.zip phi) cons (.str s) = .ok (some v) := by
  apply C19_map_sensor phi out.names cons k s hl hn hk
  cases hc : out.cstr with
  | none => rw [h0 hc]; rfl
  | some c =>
    apply dictGet_none_of_not_mem
    intro p hp e
    have hmem : p.1 ∈ c.index := cstrVals_keys (h1 c hc) p hp
    rw [(C19_cstr_align fd r out c h hc).1] at hmem
    obtain ⟨nm, pt, mp, cs0, g⟩ := checkGeo2With_ok h
    have hcs : cs0 = cstrSheet fd := by
      have := g.hcs; rw [cstrOf_nil] at this; exact (Option.some.inj this).symm
    subst hcs
    have := (geo2Names_none_iff.1 g.hnames).2.2
    simp only [List.all_eq_true] at this
    have h2 := this p.1 (by simpa [fill0] using hmem)
    simp only [mapCstrs, List.contains_eq_mem, List.mem_filter, decide_eq_true_eq, Bool.and_eq_true,
      Bool.not_eq_eq_eq_not, Bool.not_true, decide_eq_false_iff_not] at h2
    exact h2.2.1 (e ▸ List.mem_of_getElem? hk)

/-- scaling the shape scales the constraint combination (`phi * scaleF` before the mapping) -/
theorem C19_dot_scale (nums phi : List Rat) (s : Rat) : dot nums (phi.map (· * s)) = dot nums phi * s :=
  dot_scale nums phi s

/-! ## Non-vacuity -/

/-- `C19_names_geo2`, `C19_default_sign` (sign sheet absent), `C19_map_zero_checked` -/
example : ∃ o, checkGeo2 exFd2b none = .ok o := isOk_iff.1 (by decide +kernel)
example : ∀ sg, (dropInfo exFd2b.tbls).lookup "sensors sign" = some sg → sg.empty = true := by
  intro sg h
  have hn : (dropInfo exFd2b.tbls).lookup "sensors sign" = none := by decide +kernel
  rw [hn] at h; cases h
example : (dropInfo exFd2b.tbls).lookup "points coordinates" = some exPts ∧ 0 < exPts.nrows := by decide +kernel
/-- `C19_optional_geo2_sign`: the sign sheet of `exFd2` omitted -/
example : (∀ k ∈ ["sensors sign"], k ∈ geo2Optional) ∧ ["sensors sign"].contains "sensors sign" = true := by decide
example : (checkGeo2 ⟨exFd2.names, dropKeys ["sensors sign"] exFd2.tbls⟩ none).toOption.map (·.sign) =
    some (some (onesLike exPts)) := by decide +kernel
/-- `C19_defgeo2_forms`, `C19_defgeo2_names`, `C19_defgeo2_reject_iff`: list of names, constraint and sign as frames -/
example : defGeo2 (.list ["a", "b", "c"]) exPts exMap (some ⟨exCs, false⟩) (some ⟨exSign, false⟩) none
    (some ⟨⟨["0"], ["0", "1", "2"], [[n 1, n 2, n 2]]⟩, true⟩) none none none none = .ok exOut2 := by decide +kernel
example : flattenNames (.list ["a", "b", "c"]) none = .ok [some "a", some "b", some "c"] ∧
    isTable (.list ["a", "b", "c"]) = false := by decide
example : Domain2 (defGeo2Dict (.table [[some "a", some "b", some "c"]]) exPts exMap (some ⟨exCs, false⟩)
    (some ⟨exSign, false⟩) none none none none none) :=
  ⟨fun nm h => by cases h; rfl, numericSheet_of_b (by decide +kernel), numericSheet_of_b (by decide +kernel),
    numericSheet_of_b (by decide +kernel), numericSheet_of_b (by decide +kernel)⟩
/-- … a malformed argument set (constraint naming an unknown sensor) is a `ValueError` -/
example : defGeo2 (.list ["a", "b", "c"]) exPts exMap (some ⟨{ exCs with cols := ["b", "zz"] }, false⟩) none none
    none none none none none = .error (.valueError .cstrCols) := by decide +kernel
/-- `C19_defgeo1_names`, `C19_defgeo1_reject_iff` (array of directions with one row per coordinate row) -/
example : (⟨{ exDi with index := ["0", "1", "2"] }, true⟩ : ArrArg).t.nrows = exCo.nrows := by decide
example : Domain1 (defGeo1Dict (.table [[some "a", some "b", some "c"]]) exCo exDi (some ⟨exLines, true⟩) none none none) :=
  ⟨fun nm h => by cases h; rfl, numericSheet_of_b (by decide +kernel), numericSheet_of_b (by decide +kernel),
    numericSheet_of_b (by decide +kernel)⟩
example : defGeo1 (.list ["a", "b", "c"]) exCo ⟨{ exDi with index := ["0", "1"], cells := exDi.cells.take 2 }, true⟩
    none none none none none = .error (.valueError .lenMismatch) := by decide +kernel
/-- `C19_map_cstr_aligned` / `C19_map_cstr_labelwise` on `exFd2` (sheet columns `b, a`, names `a, b, c`):
    all hypotheses jointly, and the value `½·φ_b + 0·φ_a = 1` for the shape `(1, 2, 3)` -/
example : checkGeo2 exFd2 none = .ok exOut2 ∧ exOut2.cstr = some ⟨["K"], ["a", "b", "c"], [[n 0, n (1/2), n 0]]⟩ ∧
    cstrVals ⟨["K"], ["a", "b", "c"], [[n 0, n (1/2), n 0]]⟩ [1, 2, 3] = .ok [("K", 1)] ∧
    (cstrSheet exFd2).cells.length = (cstrSheet exFd2).index.length ∧ (cstrSheet exFd2).index.Nodup ∧
    (cstrSheet exFd2).index[0]? = some "K" ∧ (cstrSheet exFd2).cells[0]? = some [n (1/2), .nan] ∧
    exOut2.names.Nodup ∧ (cstrSheet exFd2).cols.Nodup := by decide +kernel
example : (((cstrSheet exFd2).cols.zip [n (1/2), Cell.nan]).map fun p =>
    numOr0 p.2 * phiAt exOut2.names [1, 2, 3] p.1).sum = 1 := by decide +kernel
/-- `C19_map_sensor_checked` on the same geometry: cell naming `b = names[1]`, constraint values `[("K", 1)]` -/
example : (∀ c, exOut2.cstr = some c → cstrVals c [1, 2, 3] = .ok [("K", 1)]) ∧
    [(1 : Rat), 2, 3].length = exOut2.names.length ∧ exOut2.names[1]? = some (some "b") :=
  ⟨fun c hc => by cases hc; decide +kernel, by decide, by decide⟩
/-- `C19_displace_default_sign` -/
example : exPts.cells[1]? = some [n 4, n 5, n 6] ∧ (1 < exPts.nrows) ∧ (0 < exPts.ncols) := by decide +kernel

end PV.C19
