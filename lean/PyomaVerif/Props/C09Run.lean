import PyomaVerif.Props.C09
import PyomaVerif.Lemmas.HcRun
/-!
# C09 — the EXECUTABLE hard-criteria run (`HcFn.lrunClass`, driver op `hc_run`) satisfies the property

`Props/C09.lean` proves soundness / completeness / one NaN pattern for the cell-function interpreter `crun`, for
every meaning `Sem` of the criteria.  `Model/HcRun.lean` executes the same regenerated programs on list-of-rows
tables with the functions the driver runs (`hcDamp`, `hcCov`, `hcConj`, `hcPhiComp`, `applymask`) — this is
what the harness compares, table by table and exactly, with `algorithm.result` of real runs (stream `run[<class>]`).

* `C09_lrun_returns` — whenever the sequencing obligation `check` holds, the executable run returns;
* `C09_lrun_stored` — and every tracked result field it returns is the unfiltered table blanked exactly where an
  enabled criterion (evaluated by the `HcFn` cell functions on the UNFILTERED tables) fails, values unchanged;
  an absent covariance is `None`;
* `C09_lrun_all` — instantiated for the six classes and every flag combination that exists.

Together with `lrun_sound` (`Lemmas/HcRun.lean`) this is the Layer A / Layer C link of the audit as one Lean
term: `cexec`'s built-in `np.where` semantics is not an assumption but the behaviour of the compared functions.
-/
namespace PV.C09Run
open PV PV.Hc PV.HcFn PV.C09

/-! ### the executable run succeeds whenever the abstract run does -/

/-- same kind of value in the abstract and in the list environment -/
def Kind : AVal → LVal → Prop
  | .tbl _ _, .tbl _ => True
  | .mask _, .mask _ => True
  | .none, .none => True
  | .lst l, .lst l' => l.map Option.isSome = l'.map Option.isSome
  | _, _ => False

def KRel (a : AEnv) (le : LEnv) : Prop := ∀ x v, a.get x = some v → ∃ lv, le.get x = some lv ∧ Kind v lv

theorem KRel.set {a : AEnv} {le : LEnv} (h : KRel a le) (x : Var) (av : AVal) (lv : LVal) (hk : Kind av lv) :
    KRel (a.set x av) (le.set x lv) := by
  intro y v hy
  by_cases hxy : y = x
  · subst hxy
    rw [get_set_eq] at hy
    cases hy
    exact ⟨lv, lget_set_eq _ _ _, hk⟩
  · rw [get_set_ne _ _ _ _ hxy] at hy
    obtain ⟨lv', h1, h2⟩ := h y v hy
    exact ⟨lv', by rw [lget_set_ne _ _ _ _ hxy]; exact h1, h2⟩

theorem aLookList_krel {a : AEnv} {le : LEnv} (h : KRel a le) :
    ∀ (xs : List Var) (r : List (Option (Tbl × List Crit))), aLookList a xs = some r →
      ∃ ts, lLookList le xs = some ts ∧ r.map Option.isSome = ts.map Option.isSome := by
  intro xs
  induction xs with
  | nil => intro r hr; simp [aLookList] at hr; subst hr; exact ⟨[], rfl, rfl⟩
  | cons x xs ih =>
    intro r hr
    simp only [aLookList] at hr
    split at hr
    · rename_i o cs r' hx hxs
      cases hr
      obtain ⟨lv, h1, h2⟩ := h x _ hx
      obtain ⟨ts, i1, i2⟩ := ih r' hxs
      cases lv with
      | tbl t => exact ⟨some t :: ts, by simp [lLookList, h1, i1], by simp [i2]⟩
      | mask m => cases h2
      | none => cases h2
      | lst l => cases h2
    · rename_i r' hx hxs
      cases hr
      obtain ⟨lv, h1, h2⟩ := h x _ hx
      obtain ⟨ts, i1, i2⟩ := ih r' hxs
      cases lv with
      | tbl t => cases h2
      | mask m => cases h2
      | none => exact ⟨Option.none :: ts, by simp [lLookList, h1, i1], by simp [i2]⟩
      | lst l => cases h2
    · cases hr

/-- pairwise `Kind` -/
def KindL : List AVal → List LVal → Prop
  | [], [] => True
  | av :: avs, lv :: lvs => Kind av lv ∧ KindL avs lvs
  | _, _ => False

theorem krel_setMany : ∀ (xs : List Var) (avs : List AVal) (lvs : List LVal) (a : AEnv) (le : LEnv),
    KRel a le → KindL avs lvs → KRel (aSetMany a xs avs) (lSetMany le xs lvs) := by
  intro xs
  induction xs with
  | nil => intro avs lvs a le h _; cases avs <;> cases lvs <;> simpa [aSetMany, lSetMany] using h
  | cons x xs ih =>
    intro avs lvs a le h hf
    cases avs with
    | nil => cases lvs with
      | nil => simpa [aSetMany, lSetMany] using h
      | cons _ _ => cases hf
    | cons av avs => cases lvs with
      | nil => cases hf
      | cons lv lvs =>
        simp only [aSetMany, lSetMany]
        exact ih _ _ _ _ (h.set x _ _ hf.1) hf.2

theorem forall2_mask (ms : List Crit) (mk : List (List Bool)) :
    ∀ (ts : List (Option (Tbl × List Crit))) (ts' : List (Option (T LCell))),
      ts.map Option.isSome = ts'.map Option.isSome →
      KindL (ts.map (amaskO ms)) (ts'.map (lmaskO mk)) := by
  intro ts
  induction ts with
  | nil => intro ts' h; cases ts' with
    | nil => trivial
    | cons _ _ => simp at h
  | cons t ts ih =>
    intro ts' h
    cases ts' with
    | nil => simp at h
    | cons t' ts' =>
      simp only [List.map_cons, List.cons.injEq] at h
      refine ⟨?_, ih ts' h.2⟩
      cases t with
      | none => cases t' with
        | none => trivial
        | some _ => simp at h
      | some p => cases t' with
        | none => simp at h
        | some _ => obtain ⟨o, cs⟩ := p; trivial

theorem lexec_of_aexec (L : Lims) (a a' : AEnv) (le : LEnv) (st : Stmt) (h : KRel a le)
    (ha : aexec a st = some a') : ∃ le', lexec L le st = some le' ∧ KRel a' le' := by
  cases st with
  | hc1 c dT dM src =>
    simp only [aexec] at ha
    split at ha
    · rename_i o cs hsrc
      split at ha
      · cases ha
        obtain ⟨lv, h1, h2⟩ := h src _ hsrc
        cases lv with
        | tbl t =>
          refine ⟨_, by simp only [lexec, h1]; rfl, ?_⟩
          exact KRel.set (KRel.set h dT (.tbl _ _) (.tbl _) trivial) dM (.mask _) (.mask _) trivial
        | mask m => cases h2
        | none => cases h2
        | lst l => cases h2
      · cases ha
    · cases ha
  | hcPhi d3 d4 src tMpc tMpd =>
    simp only [aexec] at ha
    split at ha
    · rename_i o cs hsrc
      split at ha
      · cases ha
        obtain ⟨lv, h1, h2⟩ := h src _ hsrc
        cases lv with
        | tbl t =>
          refine ⟨_, by simp only [lexec, h1]; rfl, ?_⟩
          exact KRel.set (KRel.set h d3 (.mask _) (.mask _) trivial) d4 (.mask _) (.mask _) trivial
        | mask m => cases h2
        | none => cases h2
        | lst l => cases h2
      · cases ha
    · cases ha
  | bind l vs =>
    simp only [aexec] at ha
    split at ha
    · rename_i ts hts
      cases ha
      obtain ⟨ts', i1, i2⟩ := aLookList_krel h vs ts hts
      exact ⟨_, by simp only [lexec, i1], h.set l (AVal.lst ts) (LVal.lst ts') i2⟩
    · cases ha
  | apply dsts l m =>
    simp only [aexec] at ha
    split at ha
    · rename_i ms ts hm hl
      split at ha
      · rename_i hlen
        cases ha
        obtain ⟨lm, m1, m2⟩ := h m _ hm
        obtain ⟨ll, l1, l2⟩ := h l _ hl
        cases lm with
        | mask mk =>
          cases ll with
          | lst ts' =>
            have hlen' : dsts.length = ts'.length := by
              have := congrArg List.length l2
              simp only [List.length_map] at this
              omega
            refine ⟨_, by simp only [lexec, m1, l1, hlen', if_true]; rfl, ?_⟩
            exact krel_setMany _ _ _ _ _ h (forall2_mask ms mk ts ts' l2)
          | tbl t => cases l2
          | mask m' => cases l2
          | none => cases l2
        | tbl t => cases m2
        | none => cases m2
        | lst l' => cases m2
      · cases ha
    · cases ha
  | blank x m =>
    simp only [aexec] at ha
    split at ha
    · rename_i o cs ms hx hm
      cases ha
      obtain ⟨lx, x1, x2⟩ := h x _ hx
      obtain ⟨lm, m1, m2⟩ := h m _ hm
      cases lx with
      | tbl t =>
        cases lm with
        | mask mk =>
          refine ⟨_, by simp only [lexec, x1, m1]; rfl, ?_⟩
          exact KRel.set h x (.tbl _ _) (.tbl _) trivial
        | tbl t' => cases m2
        | none => cases m2
        | lst l' => cases m2
      | mask m' => cases x2
      | none => cases x2
      | lst l' => cases x2
    · cases ha

theorem lrun_of_arun (L : Lims) : ∀ (prog : List Stmt) (a a' : AEnv) (le : LEnv), KRel a le →
    arun a prog = some a' → ∃ le', lrun L le prog = some le' ∧ KRel a' le' := by
  intro prog
  induction prog with
  | nil => intro a a' le h ha; simp [arun] at ha; subst ha; exact ⟨le, rfl, h⟩
  | cons st prog ih =>
    intro a a' le h ha
    simp only [arun] at ha
    split at ha
    · rename_i a1 h1
      obtain ⟨le1, e1, r1⟩ := lexec_of_aexec L a a1 le st h h1
      obtain ⟨le2, e2, r2⟩ := ih a1 a' le1 r1 ha
      exact ⟨le2, by simp [lrun, e1, e2], r2⟩
    · cases ha

/-! ### the initial environments -/

theorem init_get (covOn : Bool) (raw : Tbl → T LCell) : ∀ (init : List (Var × Tbl)) (x : Var),
    ((initEnv covOn init).get x = none ∧ (lInit covOn init raw).get x = none) ∨
    (∃ tb, (initEnv covOn init).get x = some (if isCovTbl tb && !covOn then AVal.none else AVal.tbl tb []) ∧
      (lInit covOn init raw).get x = some (if isCovTbl tb && !covOn then LVal.none else LVal.tbl (raw tb))) := by
  intro init x
  induction init with
  | nil => left; simp [initEnv, lInit, AEnv.get, LEnv.get]
  | cons vt init ih =>
    by_cases hx : vt.1 = x
    · right
      exact ⟨vt.2, by simp [initEnv, AEnv.get, hx], by simp [lInit, LEnv.get, hx]⟩
    · have e1 : (initEnv covOn (vt :: init)).get x = (initEnv covOn init).get x := by
        simp [initEnv, AEnv.get, hx]
      have e2 : (lInit covOn (vt :: init) raw).get x = (lInit covOn init raw).get x := by
        simp [lInit, LEnv.get, hx]
      rw [e1, e2]
      exact ih

theorem init_krel (covOn : Bool) (init : List (Var × Tbl)) (raw : Tbl → T LCell) :
    KRel (initEnv covOn init) (lInit covOn init raw) := by
  intro x v hv
  rcases init_get covOn raw init x with ⟨h1, _⟩ | ⟨tb, h1, h2⟩
  · rw [h1] at hv; cases hv
  · rw [h1] at hv
    cases hv
    refine ⟨_, h2, ?_⟩
    by_cases hc : (isCovTbl tb && !covOn) = true <;> simp [hc, Kind]

theorem init_sim (L : Lims) (r c : Nat) (raw : Tbl → T LCell) (hfit : ∀ o, Fits r c (raw o)) (covOn : Bool)
    (init : List (Var × Tbl)) :
    Sim r c (lInit covOn init raw) (initCEnv (semL L r c raw) covOn init) := by
  intro x v hv
  rcases init_get covOn raw init x with ⟨_, h2⟩ | ⟨tb, h1, h2⟩
  · rw [h2] at hv; cases hv
  · rw [h2] at hv
    cases hv
    unfold initCEnv
    rw [h1]
    split
    · exact ⟨rfl, trivial⟩
    · refine ⟨?_, hfit tb⟩
      have : denoteTbl (semL L r c raw) tb [] = cellAt (raw tb) := by
        funext i
        simp [denoteTbl, allCrit, semL]
      simp [denote, den, this]

/-! ### the property for the executable run -/

/-- the criterion `c` holds at cell `i` of the UNFILTERED tables, evaluated by the `HcFn` cell functions -/
def CritL (L : Lims) (r c : Nat) (raw : Tbl → T LCell) (cr : Crit) (i : Nat × Nat) : Prop :=
  critOrig (semL L r c raw) cr i = true

/-- **C09_lrun_stored.**  `P` a translated `run()` body whose sequencing obligation holds for the configuration;
    `raw` the unfiltered tables (each fitting the `r × c` grid); `L` the limits.  Then the executable run
    returns, and for every tracked result field `(f, x)` of the class: an absent covariance is returned as
    `None`; any other field is returned as a table `t` with — cell by cell — `t[i] = v` iff the unfiltered
    cell is `v` and every enabled criterion holds at `i`. -/
theorem C09_lrun_stored (P : ClassProg) (req : List String) (conjOn covOn : Bool)
    (hchk : check P req conjOn covOn = true) (L : Lims) (r c : Nat) (raw : Tbl → T LCell)
    (hfit : ∀ o, Fits r c (raw o)) :
    ∃ res, lrunClass P L conjOn covOn raw = some res ∧
      ∀ f x o, (f, x) ∈ P.ret → fieldTbl f = some o →
        if isCovTbl o && !covOn then (f, Option.none) ∈ res
        else ∃ t, (f, some t) ∈ res ∧ ∀ i v, cellAt t i = some v ↔
          (cellAt (raw o) i = some v ∧ ∀ cr ∈ enabled conjOn covOn, CritL L r c raw cr i) := by
  have hchk' := hchk
  unfold check at hchk'
  split at hchk'
  · cases hchk'
  · rename_i a ha
    obtain ⟨le, hle, hk⟩ := lrun_of_arun L _ _ _ _ (init_krel covOn P.init raw) ha
    obtain ⟨ce, hce, hsim⟩ := lrun_sound L r c raw _ _ _ _ (init_sim L r c raw hfit covOn P.init) hle
    obtain ⟨ce', hce', hret, _⟩ := check_sound P req conjOn covOn hchk (semL L r c raw)
    have hcc : ce' = ce := Option.some.inj (hce'.symm.trans hce)
    subst hcc
    refine ⟨_, by simp only [lrunClass, hle]; rfl, ?_⟩
    intro f x o hmem hf
    have hmem' : (f, x) ∈ P.ret.filter fun fx => (fieldTbl fx.1).isSome := by
      simp [List.mem_filter, hmem, hf]
    have hr := hret f x o hmem hf
    -- the abstract value of `x`
    simp only [Bool.and_eq_true] at hchk'
    have hfo := (List.all_eq_true.mp hchk'.1.1) (f, x) hmem
    simp only [fieldOk, hf] at hfo
    split
    · rename_i hc
      rw [if_pos hc] at hfo hr
      unfold isNone at hfo
      split at hfo
      · rename_i hax
        obtain ⟨lv, hl1, hl2⟩ := hk x _ hax
        cases lv with
        | none =>
          refine List.mem_map.mpr ⟨(f, x), hmem', ?_⟩
          simp [hl1]
        | tbl t => cases hl2
        | mask m => cases hl2
        | lst l => cases hl2
      · cases hfo
    · rename_i hc
      rw [if_neg hc] at hfo hr
      unfold holds at hfo
      split at hfo
      · rename_i o' cs hax
        obtain ⟨lv, hl1, hl2⟩ := hk x _ hax
        cases lv with
        | tbl t =>
          refine ⟨t, List.mem_map.mpr ⟨(f, x), hmem', by simp [hl1]⟩, ?_⟩
          obtain ⟨hden, _⟩ := hsim x _ hl1
          rw [hr] at hden
          simp only [den, Option.some.injEq, CVal.tbl.injEq] at hden
          intro i v
          rw [← hden, denoteTbl_iff]
          rfl
        | none => cases hl2
        | mask m => cases hl2
        | lst l => cases hl2
      · cases hfo

/-- the six classes (as in `Props/C09All.lean`, restated here to keep this file Mathlib-free) -/
def classProgs : List (ClassProg × List String × Bool) :=
  [(Gen.prog_SSIdat, requiredSSI, true), (Gen.prog_SSIcov, requiredSSI, true),
   (Gen.prog_SSIdat_MS, requiredSSI, true), (Gen.prog_SSIcov_MS, requiredSSI, true),
   (Gen.prog_pLSCF, requiredPLSCF, false), (Gen.prog_pLSCF_MS, requiredPLSCF, false)]

theorem classProgs_check : ∀ cl ∈ classProgs, ∀ conjOn covOn : Bool, (cl.2.2 || !covOn) = true →
    check cl.1 cl.2.1 conjOn covOn = true := by decide

/-- **C09_lrun_all — the executable run of each of the six regenerated class programs**, every flag
    combination that exists, all tables and limits: it returns, and every tracked field it returns is the
    unfiltered table blanked exactly where an enabled criterion fails. -/
theorem C09_lrun_all (cl : ClassProg × List String × Bool) (hcl : cl ∈ classProgs) (conjOn covOn : Bool)
    (hflag : (cl.2.2 || !covOn) = true) (L : Lims) (r c : Nat) (raw : Tbl → T LCell)
    (hfit : ∀ o, Fits r c (raw o)) :
    ∃ res, lrunClass cl.1 L conjOn covOn raw = some res ∧
      ∀ f x o, (f, x) ∈ cl.1.ret → fieldTbl f = some o →
        if isCovTbl o && !covOn then (f, Option.none) ∈ res
        else ∃ t, (f, some t) ∈ res ∧ ∀ i v, cellAt t i = some v ↔
          (cellAt (raw o) i = some v ∧ ∀ cr ∈ enabled conjOn covOn, CritL L r c raw cr i) :=
  C09_lrun_stored cl.1 cl.2.1 conjOn covOn (classProgs_check cl hcl conjOn covOn hflag) L r c raw hfit

/-- what `CritL` says, criterion by criterion (the cell functions of `Model/Hc.lean` on the unfiltered tables) -/
theorem CritL_iff (L : Lims) (r c : Nat) (raw : Tbl → T LCell) (i : Nat × Nat) :
    (CritL L r c raw .conj i ↔ conjGrid r c (fun y => (cellAt (raw .lam) y).bind LCell.cplx?) i = true) ∧
    (∀ thr, CritL L r c raw (.damp thr) i ↔ dampMask (L.get thr) ((cellAt (raw .xi) i).bind LCell.real?) = true) ∧
    (∀ thr, CritL L r c raw (.cov thr) i ↔ covMask (L.get thr) ((cellAt (raw .fncov) i).bind LCell.real?) = true) ∧
    (∀ thr, CritL L r c raw (.mpd thr) i ↔ mpdMask (L.get thr) ((cellAt (raw .phi) i).bind LCell.mpd?) = true) ∧
    (∀ thr, CritL L r c raw (.mpc thr) i ↔ mpcMask (L.get thr) ((cellAt (raw .phi) i).bind LCell.mpc?) = true) := by
  refine ⟨Iff.rfl, fun _ => Iff.rfl, fun _ => Iff.rfl, fun _ => Iff.rfl, fun _ => Iff.rfl⟩

/-! ### Non-vacuity / a computed instance: 2 orders × 2 poles, SSIdat, `conj` on -/
section example_
def exRaw : Tbl → T LCell
  | .fn => [[some (.real 2), some (.real 5)], [some (.real 2), none]]
  | .xi => [[some (.real (1/50)), some (.real (1/5))], [some (.real (1/50)), none]]
  | .phi => [[some (.shape [(1, 0), (1/2, 0)] (some 0) (some 1)), some (.shape [(1, 0), (0, 1)] (some 1) (some (1/2)))],
             [some (.shape [(1, 0), (1/2, 0)] (some 0) (some 1)), none]]
  | .lam => [[some (.cplx (-1, 10)), some (.cplx (-3, 31))], [some (.cplx (-1, -10)), none]]
  | _ => []

theorem exRaw_fits : ∀ o, Fits 2 2 (exRaw o) := by
  intro o
  cases o <;> exact ⟨by decide, by decide⟩

/-- the run returns; pole (0,1) fails the damping limit `1/10` (and has no conjugate) and is blanked in all
    four tables, the pair (0,0)/(1,0) is kept with unchanged values -/
example : (lrunClass Gen.prog_SSIdat ⟨1/10, 7/10, 3/10, 1⟩ true false exRaw).map
      (fun res => ["Lambds", "Fn_poles", "Xi_poles", "Phi_poles", "Fn_poles_cov", "Xi_poles_cov", "Phi_poles_cov"].map fun f =>
        (res.lookup f).map fun o => o.map fun t => t.map (·.map Option.isSome))
    = some [some (some [[true, false], [true, false]]), some (some [[true, false], [true, false]]),
        some (some [[true, false], [true, false]]), some (some [[true, false], [true, false]]),
        some none, some none, some none] := by
  decide +kernel  -- looked up by field name: the order of the keywords in the source's `SSIResult(...)` call is immaterial

example := C09_lrun_all (Gen.prog_SSIdat, requiredSSI, true) (List.Mem.head _) true false rfl ⟨1/10, 7/10, 3/10, 1⟩ 2 2
  exRaw exRaw_fits
end example_

end PV.C09Run
