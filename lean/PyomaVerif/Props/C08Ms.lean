import PyomaVerif.Props.C08Pipe
import PyomaVerif.Props.C03E2E
import PyomaVerif.Props.C04C13
import PyomaVerif.Props.C04C06
/-!
# C08 — gain covariance of the multi-setup pipelines

**A. `SSI_multi_setup`** (`SSIcov_MS`, `SSIdat_MS`): the model composed from `hankMM`/`hankDatOfR`, `obsOf`,
`refRows`/`movRows` (`oRef`, `oMov`), `rebase`, `allRows` (`msObsAll`, `Lemmas/MsFreeVib.lean`), `fastA`, `outC`,
`shapesOf`.  Every setup `i` has its own gain `g_i ≠ 0` (a common gain is `g_i = g`).  For every admissible
record of the original run — per setup `(U_i, S_i, V_i, √S_i, pinv_i)`, globally `(Q, R, R⁻¹)` — the record
`(U_i, g_i²·S_i, V_i, r_i·√S_i, r_i⁻¹·pinv_i)`, `(Q, r_0·R, r_0⁻¹·R⁻¹)` (`r_i = |g_i|`) is admissible for the run on
the scaled data, `Obs_all' = r_0·Obs_all` — only the FIRST setup's gain survives the re-basing (`C03_rebase`) —
the state matrix of every order is identical and the unit-normalised shapes over all sensors are identical.

**B. `SD_PreGER`** (`FDD_MS`, `EFDD_MS`, `pLSCF_MS`): a common gain `c` on ALL setups multiplies the merged
spectral array by `φ(c)·ψ(c)` (`c²` for `SD_est`), same shape, same grid (`C04_gain`'s mechanism: the
transmissibilities do not see the gain, the mean reference block is homogeneous); with it the whole result of
`FDD_mpe` on the merged array is identical.  Per-setup gains `c_i` do NOT leave the merged array unchanged up
to a factor in general (the mean reference block becomes `(1/n)·Σ c_i²·G_ref⁽ⁱ⁾`, `C04_gain`); the property
speaks of one common constant.

**C. `pLSCF_MS`**: the normal equations read the merged array on the array only (`OrderCert.congr`), so
`C08_gain_plscf` applies with `c = g²` (`C08_gain_plscf_range`, `C08_ms_gain_plscf_ms`): same state matrix,
identical `ac2mp_poly` column.  **D. `EFDD_MS`**: the `"EFDD"` bell is built from the stored `SD_svalsvec` values
only (`C08_ms_gain_efdd_ms`).
-/
namespace PV.C08
open PV PV.Mat PV.Cov PV.Multi PV.MsFreeVib Matrix Finset

/-! ## A. `SSI_multi_setup` -/
section ssi_ms

section field
variable {K : Type} [Field K]

/-- `O_movs = O_mov·pinv(O_ref)·O1_ref` with setup `i`'s factor scaled by `a ≠ 0` (so `pinv` by `a⁻¹`) and
    the first setup's by `b`: only `b` survives -/
theorem rebase_smul (Omov Pinv O1 : Mat K) (a b : K) (ha : a ≠ 0) :
    rebase (scale a Omov) (scale a⁻¹ Pinv) (scale b O1) = scale b (rebase Omov Pinv O1) := by
  refine mat_ext rfl rfl ?_
  intro i j
  simp only [rebase, Mat.mul, scale, sumTo_eq]
  rw [Finset.mul_sum]
  apply Finset.sum_congr rfl
  intro x _
  have : ∑ t ∈ range Omov.c, a * Omov.e i t * (a⁻¹ * Pinv.e t x)
      = ∑ t ∈ range Omov.c, Omov.e i t * Pinv.e t x := by
    apply Finset.sum_congr rfl; intro t _; field_simp
  rw [this]; ring

/-- **`Obs_all` under per-setup gains**: with setup `i`'s factor multiplied by `r i ≠ 0` and its recorded
    pseudo-inverse by `(r i)⁻¹`, the interleaved global matrix is `r 0` times the original one. -/
theorem msObsAll_smul (br N nref : ℕ) (nmov : List ℕ) (Ob P : ℕ → Mat K) (r : ℕ → K)
    (hr : ∀ i, r i ≠ 0) :
    msObsAll br N nref nmov (fun i => scale (r i) (Ob i)) (fun i => scale (r i)⁻¹ (P i))
      = scale (r 0) (msObsAll br N nref nmov Ob P) := by
  refine mat_ext rfl rfl ?_
  intro q j
  simp only [msObsAll, scale]
  cases (allRows br nref nmov)[q]? with
  | none => exact (mul_zero _).symm
  | some src =>
    cases src with
    | ref q' => rfl
    | mov jj q' =>
      show (rebase (scale (r jj) (oMov br nref (nmov.getD jj 0) (Ob jj))) (scale (r jj)⁻¹ (P jj))
        (scale (r 0) (oRef br nref (nmov.getD 0 0) (Ob 0)))).e q' j = _
      rw [rebase_smul _ _ _ _ _ (hr jj)]
      rfl

/-- `r⁻¹·pinv` is an admissible recorded pseudo-inverse (first Penrose identity) of `r·O_ref` -/
theorem pinvMS_smul {Oref P : Mat K} {a N : ℕ} (h : PinvMS Oref P a N) (r : K) (hr : r ≠ 0) :
    PinvMS (scale r Oref) (scale r⁻¹ P) a N where
  hPc := h.hPc
  pen := by
    show toMx a N (fun i j => r * Oref.e i j) * toMx N a (fun i j => r⁻¹ * P.e i j)
      * toMx a N (fun i j => r * Oref.e i j) = toMx a N (fun i j => r * Oref.e i j)
    simp only [toMx_smul, Matrix.smul_mul, Matrix.mul_smul, smul_smul, h.pen]
    congr 1
    field_simp

end field

/-- **C08_ms_gain_ssi — PreGER multi-setup covariance-driven SSI, from the per-setup records to
    `(A, normalised shapes)`, per-setup gains.**  Setup `i` (stacked record `Y i` = references then roving
    channels, `nmov[i]` roving) is multiplied by `g i`; `r i > 0`, `(r i)² = (g i)²`.  For every admissible
    record of the original run (`SvdOf`, `SqrtOf`, `PinvMS` per setup; `QrOf` of `Obs_all[:-nDOF]`) the scaled
    record is admissible for the scaled run, `Obs_all' = r₀·Obs_all`, the state matrix of order `n` is the
    same matrix (so every pole, `fn`, `xi` is the same number) and the unit-normalised shapes over all
    sensors are identical for every recorded eigenvector matrix.  A common gain is the case `g i = g`. -/
theorem C08_ms_gain_ssi (br N nref : ℕ) (nmov : List ℕ) (Y : ℕ → Mat Rat) (s g r : ℕ → Rat)
    (hr : ∀ i, 0 < r i) (hrg : ∀ i, r i * r i = g i * g i)
    (U V P : ℕ → Mat Rat) (S sq : ℕ → ℕ → Rat) (Ns : ℕ)
    (hsvd : ∀ i, i < nmov.length →
      SvdOf (hankMM (Y i) (rowSlice (Y i) 0 nref) br (s i)) (U i) (V i) (S i) Ns)
    (hsq : ∀ i, i < nmov.length → SqrtOf (sq i) (S i) Ns)
    (hpinv : ∀ i, i < nmov.length →
      PinvMS (oRef br nref (nmov.getD i 0) (obsOf (U i) (sq i) N)) (P i) (br * nref) N)
    (M n : ℕ) (Q R Rinv : Mat Rat)
    (hqr : QrOf (upPart (msObsAll br N nref nmov (fun i => obsOf (U i) (sq i) N) P) (nref + nmov.sum))
      Q R Rinv M N n)
    (Vec : Mat (Cpx Rat)) :
    (∀ i, i < nmov.length →
      SvdOf (hankMM (scale (g i) (Y i)) (rowSlice (scale (g i) (Y i)) 0 nref) br (s i)) (U i) (V i)
        (fun t => g i * g i * S i t) Ns ∧
      SqrtOf (fun t => r i * sq i t) (fun t => g i * g i * S i t) Ns ∧
      PinvMS (oRef br nref (nmov.getD i 0) (obsOf (U i) (fun t => r i * sq i t) N))
        (scale (r i)⁻¹ (P i)) (br * nref) N) ∧
    msObsAll br N nref nmov (fun i => obsOf (U i) (fun t => r i * sq i t) N) (fun i => scale (r i)⁻¹ (P i))
      = scale (r 0) (msObsAll br N nref nmov (fun i => obsOf (U i) (sq i) N) P) ∧
    QrOf (upPart (msObsAll br N nref nmov (fun i => obsOf (U i) (fun t => r i * sq i t) N)
        (fun i => scale (r i)⁻¹ (P i))) (nref + nmov.sum)) Q (scale (r 0) R) (scale (r 0)⁻¹ Rinv) M N n ∧
    fastA (scale (r 0)⁻¹ Rinv) Q (dnPart (msObsAll br N nref nmov
        (fun i => obsOf (U i) (fun t => r i * sq i t) N) (fun i => scale (r i)⁻¹ (P i))) (nref + nmov.sum)) n
      = fastA Rinv Q (dnPart (msObsAll br N nref nmov (fun i => obsOf (U i) (sq i) N) P)
          (nref + nmov.sum)) n ∧
    shapesOf (cplx (outC (msObsAll br N nref nmov (fun i => obsOf (U i) (fun t => r i * sq i t) N)
        (fun i => scale (r i)⁻¹ (P i))) (nref + nmov.sum) n)) Vec
      = shapesOf (cplx (outC (msObsAll br N nref nmov (fun i => obsOf (U i) (sq i) N) P)
          (nref + nmov.sum) n)) Vec := by
  have hO : msObsAll br N nref nmov (fun i => obsOf (U i) (fun t => r i * sq i t) N)
      (fun i => scale (r i)⁻¹ (P i))
      = scale (r 0) (msObsAll br N nref nmov (fun i => obsOf (U i) (sq i) N) P) := by
    have e : (fun i => obsOf (U i) (fun t => r i * sq i t) N)
        = fun i => scale (r i) (obsOf (U i) (sq i) N) := by
      funext i; exact obsOf_smul (U i) (sq i) N (r i)
    rw [e]
    exact msObsAll_smul br N nref nmov _ P r (fun i => (hr i).ne')
  refine ⟨?_, hO, ?_, ?_, ?_⟩
  · intro i hi
    refine ⟨?_, (hsq i hi).smul (r i) (g i * g i) (hr i).le (hrg i), ?_⟩
    · have e : hankMM (scale (g i) (Y i)) (rowSlice (scale (g i) (Y i)) 0 nref) br (s i)
          = scale (g i * g i) (hankMM (Y i) (rowSlice (Y i) 0 nref) br (s i)) :=
        hankMM_smul (Y i) (rowSlice (Y i) 0 nref) br (s i) (g i) (g i)
      rw [e]
      exact (hsvd i hi).smul (g i * g i) (mul_self_nonneg (g i))
    · rw [obsOf_smul]
      exact pinvMS_smul (hpinv i hi) (r i) (hr i).ne'
  · rw [hO, upPart_smul]; exact hqr.smul (r 0) (hr 0).ne'
  · rw [hO, dnPart_smul]; exact fastA_smul Rinv Q _ n (r 0) (hr 0).ne'
  · rw [hO, outC_smul]; exact C08_gain_shapes _ Vec (r 0) (hr 0).ne'

/-- **C08_ms_gain_ssi_dat — the same for the data-driven method** (`hankDatOfR` of the recorded triangular
    factor `Rf i` of setup `i`; for the gain `g i` the admissible factor is `g i·Rf i`, `C08_gain_dat`):
    `ε i = sign (g i)`, `(r i)² = |g i|`. -/
theorem C08_ms_gain_ssi_dat (br N nref : ℕ) (nmov : List ℕ) (Rf : ℕ → Mat Rat) (g r ε : ℕ → Rat)
    (hr : ∀ i, 0 < r i) (hε : ∀ i, ε i * ε i = 1) (hrg : ∀ i, ε i * (r i * r i) = g i)
    (U V P : ℕ → Mat Rat) (S sq : ℕ → ℕ → Rat) (Ns : ℕ)
    (hsvd : ∀ i, i < nmov.length → SvdOf (hankDatOfR (Rf i) nref br) (U i) (V i) (S i) Ns)
    (hsq : ∀ i, i < nmov.length → SqrtOf (sq i) (S i) Ns)
    (hpinv : ∀ i, i < nmov.length →
      PinvMS (oRef br nref (nmov.getD i 0) (obsOf (U i) (sq i) N)) (P i) (br * nref) N)
    (M n : ℕ) (Q R Rinv : Mat Rat)
    (hqr : QrOf (upPart (msObsAll br N nref nmov (fun i => obsOf (U i) (sq i) N) P) (nref + nmov.sum))
      Q R Rinv M N n)
    (Vec : Mat (Cpx Rat)) :
    (∀ i, i < nmov.length →
      SvdOf (hankDatOfR (scale (g i) (Rf i)) nref br) (U i) (scale (ε i) (V i))
        (fun t => r i * r i * S i t) Ns ∧
      SqrtOf (fun t => r i * sq i t) (fun t => r i * r i * S i t) Ns ∧
      PinvMS (oRef br nref (nmov.getD i 0) (obsOf (U i) (fun t => r i * sq i t) N))
        (scale (r i)⁻¹ (P i)) (br * nref) N) ∧
    msObsAll br N nref nmov (fun i => obsOf (U i) (fun t => r i * sq i t) N) (fun i => scale (r i)⁻¹ (P i))
      = scale (r 0) (msObsAll br N nref nmov (fun i => obsOf (U i) (sq i) N) P) ∧
    QrOf (upPart (msObsAll br N nref nmov (fun i => obsOf (U i) (fun t => r i * sq i t) N)
        (fun i => scale (r i)⁻¹ (P i))) (nref + nmov.sum)) Q (scale (r 0) R) (scale (r 0)⁻¹ Rinv) M N n ∧
    fastA (scale (r 0)⁻¹ Rinv) Q (dnPart (msObsAll br N nref nmov
        (fun i => obsOf (U i) (fun t => r i * sq i t) N) (fun i => scale (r i)⁻¹ (P i))) (nref + nmov.sum)) n
      = fastA Rinv Q (dnPart (msObsAll br N nref nmov (fun i => obsOf (U i) (sq i) N) P)
          (nref + nmov.sum)) n ∧
    shapesOf (cplx (outC (msObsAll br N nref nmov (fun i => obsOf (U i) (fun t => r i * sq i t) N)
        (fun i => scale (r i)⁻¹ (P i))) (nref + nmov.sum) n)) Vec
      = shapesOf (cplx (outC (msObsAll br N nref nmov (fun i => obsOf (U i) (sq i) N) P)
          (nref + nmov.sum) n)) Vec := by
  have hO : msObsAll br N nref nmov (fun i => obsOf (U i) (fun t => r i * sq i t) N)
      (fun i => scale (r i)⁻¹ (P i))
      = scale (r 0) (msObsAll br N nref nmov (fun i => obsOf (U i) (sq i) N) P) := by
    have e : (fun i => obsOf (U i) (fun t => r i * sq i t) N)
        = fun i => scale (r i) (obsOf (U i) (sq i) N) := by
      funext i; exact obsOf_smul (U i) (sq i) N (r i)
    rw [e]
    exact msObsAll_smul br N nref nmov _ P r (fun i => (hr i).ne')
  refine ⟨?_, hO, ?_, ?_, ?_⟩
  · intro i hi
    refine ⟨?_, (hsq i hi).smul (r i) (r i * r i) (hr i).le rfl, ?_⟩
    · rw [hankDatOfR_smul, ← hrg i]
      exact (hsvd i hi).smul_sign (r i * r i) (ε i) (mul_self_nonneg (r i)) (hε i)
    · rw [obsOf_smul]
      exact pinvMS_smul (hpinv i hi) (r i) (hr i).ne'
  · rw [hO, upPart_smul]; exact hqr.smul (r 0) (hr 0).ne'
  · rw [hO, dnPart_smul]; exact fastA_smul Rinv Q _ n (r 0) (hr 0).ne'
  · rw [hO, outC_smul]; exact C08_gain_shapes _ Vec (r 0) (hr 0).ne'

/-! ### Non-vacuity: the two-setup instance of `Props/C03E2E.lean` (`Ex`: one reference, one roving sensor
    per setup, `br = 3`, `ordmax = 2`), gains `g = (−3, 5)` -/
section ex_ms
open PV.C03E2E PV.C03E2E.Ex

theorem exMsQr : QrOf (upPart (msObsAll 3 2 refIds.length (movIds.map List.length)
    (fun i => obsOf (U i) (sq i) 2) P) (refIds.length + (movIds.map List.length).sum)) Q R Rinv 6 2 2 :=
  ⟨hqr.hRc, hqr.hQr, hqr.dec, hqr.orth, hqr.tri, hqr.inv ⟨toMx 2 2 Rinv.e, by decide +kernel⟩⟩

theorem exMsSetup (i : ℕ) (hi : i < (movIds.map List.length).length) :
    SvdOf (hankMM (Y i) (rowSlice (Y i) 0 refIds.length) 3 1) (U i) V0 (S i) 2 ∧ SqrtOf (sq i) (S i) 2 ∧
    PinvMS (oRef 3 refIds.length ((movIds.map List.length).getD i 0) (obsOf (U i) (sq i) 2)) (P i)
      (3 * refIds.length) 2 := by
  have hi' : i < 2 := hi
  match i with
  | 0 => exact ⟨cov0.svd, cov0.sqrt, cov0.pinv⟩
  | 1 => exact ⟨cov1.svd, cov1.sqrt, cov1.pinv⟩

example := C08_ms_gain_ssi 3 2 refIds.length (movIds.map List.length) Y (fun _ => 1)
  (fun i => if i = 0 then -3 else 5) (fun i => if i = 0 then 3 else 5)
  (fun i => by split_ifs <;> norm_num) (fun i => by split_ifs <;> norm_num)
  U (fun _ => V0) P S sq 2 (fun i hi => (exMsSetup i hi).1) (fun i hi => (exMsSetup i hi).2.1)
  (fun i hi => (exMsSetup i hi).2.2) 6 2 Q R Rinv exMsQr PV.C01E2E.ExDat.Vec

-- the conclusion on this instance: `Obs_all` of the scaled run is `3·Obs_all` (first setup's `|g₀|`; nothing
-- of `g₁ = 5`), e.g. row 2 (the roving sensor of setup 1, block row 0)
example : (msObsAll 3 2 refIds.length (movIds.map List.length)
      (fun i => obsOf (U i) (fun t => (if i = 0 then 3 else 5) * sq i t) 2)
      (fun i => scale ((if i = 0 then 3 else 5 : Rat))⁻¹ (P i))).e 2 1 = 10
    ∧ (msObsAll 3 2 refIds.length (movIds.map List.length) (fun i => obsOf (U i) (sq i) 2) P).e 2 1
      = 10 / 3 := by decide +kernel

end ex_ms

/-! ### … and the data-driven instance `ExD` of `Props/C03E2E.lean`, gains `g = (−4, 9)`: `ε = (−1, 1)`, `r = (2, 3)` -/
section ex_ms_dat
open PV.C03E2E PV.C03E2E.ExD
open PV.C03E2E.Ex (refIds movIds)

theorem exMsQrD : QrOf (upPart (msObsAll 3 2 refIds.length (movIds.map List.length)
    (fun i => obsOf (U i) (sq i) 2) P) (refIds.length + (movIds.map List.length).sum)) Q R Rinv 6 2 2 :=
  ⟨hqr.hRc, hqr.hQr, hqr.dec, hqr.orth, hqr.tri, hqr.inv ⟨toMx 2 2 Rinv.e, by decide +kernel⟩⟩

theorem exMsSetupD (i : ℕ) (hi : i < (movIds.map List.length).length) :
    SvdOf (hankDatOfR (Rf i) refIds.length 3) (U i) V0 (S i) 2 ∧ SqrtOf (sq i) (S i) 2 ∧
    PinvMS (oRef 3 refIds.length ((movIds.map List.length).getD i 0) (obsOf (U i) (sq i) 2)) (P i)
      (3 * refIds.length) 2 := by
  have hi' : i < 2 := hi
  match i with
  | 0 => exact ⟨dat0.svd, dat0.sqrt, dat0.pinv⟩
  | 1 => exact ⟨dat1.svd, dat1.sqrt, dat1.pinv⟩

example := C08_ms_gain_ssi_dat 3 2 refIds.length (movIds.map List.length) Rf
  (fun i => if i = 0 then -4 else 9) (fun i => if i = 0 then 2 else 3) (fun i => if i = 0 then -1 else 1)
  (fun i => by split_ifs <;> norm_num) (fun i => by split_ifs <;> norm_num)
  (fun i => by split_ifs <;> norm_num)
  U (fun _ => V0) P S sq 2 (fun i hi => (exMsSetupD i hi).1) (fun i hi => (exMsSetupD i hi).2.1)
  (fun i hi => (exMsSetupD i hi).2.2) 6 2 Q R Rinv exMsQrD PV.C01E2E.ExDat.Vec

end ex_ms_dat

end ssi_ms

/-! ## B. `SD_PreGER` -/
section preger
variable {T D F K : Type} [One T] [Div T] [Field K] [Mul D]
variable {sd : Estimator T D F K} {inv : Mat K → Mat K} {fs : T} {nxseg : Nat} {pov : T}
  {method : SdMethod} {n : Nat} {Y : Nat → Setup D}

/-- every channel of EVERY setup multiplied by `c` ("multiplying all data by a constant") -/
def scaleAll (c : D) (Y : Nat → Setup D) : Nat → Setup D :=
  fun ii => ⟨Mat.scale c (Y ii).ref, Mat.scale c (Y ii).mov⟩

theorem scaleAll_eq_scaleSetup (c : D) (Y : Nat → Setup D) (ii : Nat) :
    scaleAll c Y ii = scaleSetup c ii Y ii := by
  simp [scaleAll, scaleSetup]

/-- **C08_ms_gain_preger — `SD_PreGER` under a common gain on all setups.**  Estimator homogeneous
    (`sd(cA, dB) = φ c·ψ d·sd(A, B)`, same grid and shape: `SD_est` with `φ = ψ =` the embedding),
    `φ c·ψ c ≠ 0`, every reference block invertible on every line, `inv` meeting `np.linalg.inv`'s contract.
    Then the merged array of the scaled records has the same shape and grid and is `φ c·ψ c` times the merged
    array, entry by entry on the array (`nf` lines). -/
theorem C08_ms_gain_preger (φ ψ : D → K) (hs : SdShape sd) (hh : SdHomog sd φ ψ)
    (hinv : InvContract inv) (hm : method ≠ .other)
    (href : ∀ ii, ii < n → (Y ii).ref.r = (Y 0).ref.r) (c : D) (hc : φ c * ψ c ≠ 0)
    (hG : ∀ k, k < n → ∀ f, f < (sdPreGER sd inv fs nxseg pov method n Y).S.n2 →
      ∃ W, IsLeftInv W (refBlock (Y 0).ref.r (gyy sd fs nxseg pov method Y) k f)) :
    (sdPreGER sd inv fs nxseg pov method n (scaleAll c Y)).freq
      = (sdPreGER sd inv fs nxseg pov method n Y).freq ∧
    (sdPreGER sd inv fs nxseg pov method n (scaleAll c Y)).S.n0
      = (sdPreGER sd inv fs nxseg pov method n Y).S.n0 ∧
    (sdPreGER sd inv fs nxseg pov method n (scaleAll c Y)).S.n1
      = (sdPreGER sd inv fs nxseg pov method n Y).S.n1 ∧
    (sdPreGER sd inv fs nxseg pov method n (scaleAll c Y)).S.n2
      = (sdPreGER sd inv fs nxseg pov method n Y).S.n2 ∧
    ∀ i j f, i < (sdPreGER sd inv fs nxseg pov method n Y).S.n0 →
      j < (sdPreGER sd inv fs nxseg pov method n Y).S.n1 →
      f < (sdPreGER sd inv fs nxseg pov method n Y).S.n2 →
      (sdPreGER sd inv fs nxseg pov method n (scaleAll c Y)).S.e i j f
        = φ c * ψ c * (sdPreGER sd inv fs nxseg pov method n Y).S.e i j f := by
  have href' : ∀ ii, ii < n → (scaleAll c Y ii).ref.r = (scaleAll c Y 0).ref.r := href
  obtain ⟨s0, s1, s2, s3⟩ := sdPreGER_shape (sd := sd) (fs := fs) (nxseg := nxseg) (pov := pov)
    (method := method) (n := n) (Y := Y) inv hs hm href
  obtain ⟨t0, t1, t2, t3⟩ := sdPreGER_shape (sd := sd) (fs := fs) (nxseg := nxseg) (pov := pov)
    (method := method) (n := n) (Y := scaleAll c Y) inv hs hm href'
  -- per-setup arrays
  have hg : ∀ ii, (gyy sd fs nxseg pov method (scaleAll c Y) ii).n0
        = (gyy sd fs nxseg pov method Y ii).n0
      ∧ (gyy sd fs nxseg pov method (scaleAll c Y) ii).n1 = (gyy sd fs nxseg pov method Y ii).n1
      ∧ ∀ i j f, (gyy sd fs nxseg pov method (scaleAll c Y) ii).e i j f
          = φ c * ψ c * (gyy sd fs nxseg pov method Y ii).e i j f := by
    intro ii
    rw [gyy_congr sd fs nxseg pov method (scaleAll_eq_scaleSetup c Y ii)]
    exact gyy_scaled hh fs nxseg pov hm c ii Y
  have hest : ∀ ii i j f, (estRef sd fs nxseg pov method (scaleAll c Y) ii).S.e i j f
      = φ c * ψ c * (estRef sd fs nxseg pov method Y ii).S.e i j f := by
    intro ii i j f
    rw [estRef_congr sd fs nxseg pov method (scaleAll_eq_scaleSetup c Y ii)]
    exact estRef_scaled hh fs nxseg pov method c ii Y i j f
  have hfreq : (sdPreGER sd inv fs nxseg pov method n (scaleAll c Y)).freq
      = (sdPreGER sd inv fs nxseg pov method n Y).freq := by
    rw [t3, s3]
    have hall : yAll (scaleAll c Y) (n - 1) = Mat.scale c (yAll Y (n - 1)) := by
      simp only [yAll, scaleAll, Mat.vstack2_scale]
    simp only [estRef, hall]
    exact hh.freq _ _ _ _ _
  have hmean : ∀ t j f, j < (Y 0).ref.r →
      (meanRefRef n (Y 0).ref.r (gyy sd fs nxseg pov method (scaleAll c Y))).e t j f
        = φ c * ψ c * (meanRefRef n (Y 0).ref.r (gyy sd fs nxseg pov method Y)).e t j f := by
    intro t j f hj
    have h1 := mean_e (sd := sd) (fs := fs) (nxseg := nxseg) (pov := pov) (method := method) (n := n)
      (Y := scaleAll c Y) hs hm href' t j f hj
    have h2 := mean_e (sd := sd) (fs := fs) (nxseg := nxseg) (pov := pov) (method := method) (n := n)
      (Y := Y) hs hm href t j f hj
    show (meanRefRef n (scaleAll c Y 0).ref.r (gyy sd fs nxseg pov method (scaleAll c Y))).e t j f = _
    rw [h1, h2]
    simp only [hest, ← Finset.mul_sum]
    ring
  refine ⟨hfreq, by rw [t0, s0]; rfl, by rw [t1, s1]; rfl, by rw [t2, s2, hfreq], ?_⟩
  intro i j f hi hj hf
  rw [s0] at hi
  rw [s1] at hj
  by_cases hir : i < (Y 0).ref.r
  · -- reference rows: the mean block
    rw [sdPreGER_ref inv hs hm i j f (show i < (scaleAll c Y 0).ref.r from hir),
      sdPreGER_ref inv hs hm i j f hir]
    exact hmean i j f hj
  · -- roving rows: (unscaled transmissibility) · (scaled mean block)
    obtain ⟨ii, a, hii, ha, hia⟩ := Mat.row_decomp (fun k => (Y k).mov.r) n (i - (Y 0).ref.r) (by omega)
    have hi' : i = (Y 0).ref.r + (∑ k ∈ range ii, (Y k).mov.r) + a := by omega
    rw [hi']
    have h1 := sdPreGER_roving (sd := sd) (fs := fs) (nxseg := nxseg) (pov := pov) (Y := scaleAll c Y)
      inv hs hm href' ii a j f hii ha
    have h2 := sdPreGER_roving (sd := sd) (fs := fs) (nxseg := nxseg) (pov := pov) (Y := Y)
      inv hs hm href ii a j f hii ha
    rw [h2]
    refine Eq.trans h1 ?_
    show (rovingLine inv (Y 0).ref.r (gyy sd fs nxseg pov method (scaleAll c Y))
      (meanRefRef n (Y 0).ref.r (gyy sd fs nxseg pov method (scaleAll c Y))) f ii).e a j = _
    obtain ⟨g0, g1, ge⟩ := hg ii
    have e := href ii hii
    have hmb : movBlock (Y 0).ref.r (gyy sd fs nxseg pov method (scaleAll c Y)) ii f
        = Mat.scale (φ c * ψ c) (movBlock (Y 0).ref.r (gyy sd fs nxseg pov method Y) ii f) := by
      simp only [movBlock, TenG.tail0head1, TenG.line, Mat.scale, g0, g1, ge]
    have hrb : refBlock (Y 0).ref.r (gyy sd fs nxseg pov method (scaleAll c Y)) ii f
        = Mat.scale (φ c * ψ c) (refBlock (Y 0).ref.r (gyy sd fs nxseg pov method Y) ii f) := by
      simp only [refBlock, TenG.head01, TenG.line, Mat.scale, g0, g1, ge]
    have hcG : (refBlock (Y 0).ref.r (gyy sd fs nxseg pov method Y) ii f).c = (Y 0).ref.r := by
      rw [← e]; exact refBlock_c hs hm ii f
    have hrG : (refBlock (Y 0).ref.r (gyy sd fs nxseg pov method Y) ii f).r = (Y 0).ref.r := by
      rw [← e]; exact refBlock_r hs hm ii f
    have hsq : (refBlock (Y 0).ref.r (gyy sd fs nxseg pov method Y) ii f).r
        = (refBlock (Y 0).ref.r (gyy sd fs nxseg pov method Y) ii f).c := by rw [hrG, hcG]
    have hAc : (movBlock (Y 0).ref.r (gyy sd fs nxseg pov method Y) ii f).c
        = (refBlock (Y 0).ref.r (gyy sd fs nxseg pov method Y) ii f).c := by
      rw [hcG, ← e]; exact movBlock_c hs hm ii f
    obtain ⟨W0, hW0⟩ := hG ii hii f hf
    have hW : IsLeftInv (inv (refBlock (Y 0).ref.r (gyy sd fs nxseg pov method Y) ii f)) _ :=
      hinv _ hsq ⟨W0, hW0⟩
    have hW' : IsLeftInv (inv (Mat.scale (φ c * ψ c)
        (refBlock (Y 0).ref.r (gyy sd fs nxseg pov method Y) ii f))) _ :=
      hinv _ hsq ⟨_, isLeftInv_scale hc hW0⟩
    simp only [rovingLine, hmb, hrb]
    have c1 : (Mat.mul (Mat.scale (φ c * ψ c) (movBlock (Y 0).ref.r (gyy sd fs nxseg pov method Y) ii f))
        (inv (Mat.scale (φ c * ψ c) (refBlock (Y 0).ref.r (gyy sd fs nxseg pov method Y) ii f)))).c
          = (refBlock (Y 0).ref.r (gyy sd fs nxseg pov method Y) ii f).c := by
      simp only [Mat.mul]; rw [hW'.2.1]; simp only [Mat.scale]; exact hsq
    have c2 : (Mat.mul (movBlock (Y 0).ref.r (gyy sd fs nxseg pov method Y) ii f)
        (inv (refBlock (Y 0).ref.r (gyy sd fs nxseg pov method Y) ii f))).c
          = (refBlock (Y 0).ref.r (gyy sd fs nxseg pov method Y) ii f).c := by
      simp only [Mat.mul]; rw [hW.2.1]; exact hsq
    show sumTo _ _ = φ c * ψ c * sumTo _ _
    rw [sumTo_eq, sumTo_eq, c1, c2, Finset.mul_sum]
    apply Finset.sum_congr rfl
    intro t ht
    have htl : t < (Y 0).ref.r := by rw [← hcG]; exact mem_range.mp ht
    rw [transmissibility_scale hinv hc hsq ⟨W0, hW0⟩ hAc a t (mem_range.mp ht)]
    simp only [TenG.line]
    rw [hmean t j f hj]
    ring

end preger

/-! ### `SD_est` as the estimator; `FDD_MS` -/
section preger_sd
open PV.C04C13 PV.C04C06 PV.Fdd
variable {K : Type} [Field K] [LinearOrder K] [IsStrictOrderedRing K]
variable (tb : Tables K) {inv : Mat (CxS K) → Mat (CxS K)} {fs : K} {nxseg : Nat} {pov : K}
  {n : Nat} {Y : Nat → Setup K}

/-- **C08_ms_gain_sd — `SD_PreGER` with C13's model of `SD_est` (either estimator), common gain `c ≠ 0` on
    all setups**: same grid, same shape, merged array multiplied by `c²`. -/
theorem C08_ms_gain_sd (method : SdMethod) (hm : method ≠ .other) (hinv : InvContract inv)
    (href : ∀ ii, ii < n → (Y ii).ref.r = (Y 0).ref.r) (c : K) (hc : c ≠ 0)
    (hG : ∀ k, k < n → ∀ f, f < (sdPreGER (sdEst tb) inv fs nxseg pov method n Y).S.n2 →
      ∃ W, IsLeftInv W (refBlock (Y 0).ref.r (gyy (sdEst tb) fs nxseg pov method Y) k f)) :
    (sdPreGER (sdEst tb) inv fs nxseg pov method n (scaleAll c Y)).freq
      = (sdPreGER (sdEst tb) inv fs nxseg pov method n Y).freq ∧
    (sdPreGER (sdEst tb) inv fs nxseg pov method n (scaleAll c Y)).S.n0
      = (sdPreGER (sdEst tb) inv fs nxseg pov method n Y).S.n0 ∧
    (sdPreGER (sdEst tb) inv fs nxseg pov method n (scaleAll c Y)).S.n1
      = (sdPreGER (sdEst tb) inv fs nxseg pov method n Y).S.n1 ∧
    (sdPreGER (sdEst tb) inv fs nxseg pov method n (scaleAll c Y)).S.n2
      = (sdPreGER (sdEst tb) inv fs nxseg pov method n Y).S.n2 ∧
    ∀ i j f, i < (sdPreGER (sdEst tb) inv fs nxseg pov method n Y).S.n0 →
      j < (sdPreGER (sdEst tb) inv fs nxseg pov method n Y).S.n1 →
      f < (sdPreGER (sdEst tb) inv fs nxseg pov method n Y).S.n2 →
      (sdPreGER (sdEst tb) inv fs nxseg pov method n (scaleAll c Y)).S.e i j f
        = CxS.ofReal (c * c) * (sdPreGER (sdEst tb) inv fs nxseg pov method n Y).S.e i j f := by
  have := C08_ms_gain_preger (sd := sdEst tb) (inv := inv) (fs := fs) (nxseg := nxseg) (pov := pov)
    (method := method) (n := n) (Y := Y) CxS.ofReal CxS.ofReal (sdEst_shape tb) (sdEst_homog tb) hinv hm
    href c (mul_ne_zero (ofReal_ne_zero hc) (ofReal_ne_zero hc)) hG
  simpa only [CxS.ofReal_mul] using this

/-- the decomposition clause of `np.linalg.svd` on one rectangular line (`nr × nc`, `nc ≤ nr`) of the merged
    array — the only clause of the SVD contract that involves the line itself -/
def SvdRectDec (nr nc : Nat) (G U V : Nat → Nat → Fdd.Cx K) (S : Nat → K) : Prop :=
  ∀ i j, i < nr → j < nc → G i j = ∑ t ∈ range nc, Fdd.Cx.ofReal (S t) * U i t * Fdd.Cx.conj (V j t)

/-- **C08_ms_gain_fdd_ms — `FDD_MS` under a common gain, from the per-setup records to the result of
    `FDD_mpe`.**  `Sy' = SD_PreGER(c·Y)`, `Sy = SD_PreGER(Y)`, `c ≠ 0`, `r > 0`, `r² = c²`.  Every recorded SVD
    `(U_k, S_k, V_k)` of a line of `Sy` gives the recorded `(U_k, c²·S_k, V_k)` of the line of `Sy'` (same
    vectors), recorded square roots `r·sq`; with them the whole result of `FDD_mpe` on what `FDD_MS.run`
    stores — bands, picks, frequencies, unit-normalised shapes over all sensors, exceptions — is identical
    (also in the form of `C04C06.fddMsOne`, the one-frequency pipeline of C04/C06). -/
theorem C08_ms_gain_fdd_ms (method : SdMethod) (hm : method ≠ .other) (hinv : InvContract inv)
    (href : ∀ ii, ii < n → (Y ii).ref.r = (Y 0).ref.r) (c : K) (hc : c ≠ 0)
    (hG : ∀ k, k < n → ∀ f, f < (sdPreGER (sdEst tb) inv fs nxseg pov method n Y).S.n2 →
      ∃ W, IsLeftInv W (refBlock (Y 0).ref.r (gyy (sdEst tb) fs nxseg pov method Y) k f))
    (r : K) (hr : 0 < r) (hrc : r * r = c * c) :
    (∀ k, k < (sdPreGER (sdEst tb) inv fs nxseg pov method n Y).S.n2 →
      ∀ (Uk Vk : Nat → Nat → Fdd.Cx K) (Sk : Nat → K),
      SvdRectDec (sdPreGER (sdEst tb) inv fs nxseg pov method n Y).S.n0
        (sdPreGER (sdEst tb) inv fs nxseg pov method n Y).S.n1
        (fun i j => toCx ((sdPreGER (sdEst tb) inv fs nxseg pov method n Y).S.e i j k)) Uk Vk Sk →
      SvdRectDec (sdPreGER (sdEst tb) inv fs nxseg pov method n (scaleAll c Y)).S.n0
        (sdPreGER (sdEst tb) inv fs nxseg pov method n (scaleAll c Y)).S.n1
        (fun i j => toCx ((sdPreGER (sdEst tb) inv fs nxseg pov method n (scaleAll c Y)).S.e i j k))
        Uk Vk (fun t => c * c * Sk t)) ∧
    (∀ (sqk Sk : Nat → K) (N : Nat), SqrtOf sqk Sk N → SqrtOf (fun t => r * sqk t) (fun t => c * c * Sk t) N) ∧
    (∀ (sq : Nat → Nat → K) (U : Nat → Nat → Nat → Fdd.Cx K) (sel : List K) (DF : K),
      fddMpe (sdPreGER (sdEst tb) inv fs nxseg pov method n (scaleAll c Y)).S.n0
          (sdPreGER (sdEst tb) inv fs nxseg pov method n (scaleAll c Y)).S.n1
          (sdPreGER (sdEst tb) inv fs nxseg pov method n (scaleAll c Y)).S.n2
          (fun k => (sdPreGER (sdEst tb) inv fs nxseg pov method n (scaleAll c Y)).freq.getD k 0)
          (svalPlace (fun k i => r * sq k i)) (svecPlace U) sel DF
        = fddMpe (sdPreGER (sdEst tb) inv fs nxseg pov method n Y).S.n0
          (sdPreGER (sdEst tb) inv fs nxseg pov method n Y).S.n1
          (sdPreGER (sdEst tb) inv fs nxseg pov method n Y).S.n2
          (fun k => (sdPreGER (sdEst tb) inv fs nxseg pov method n Y).freq.getD k 0)
          (svalPlace sq) (svecPlace U) sel DF) ∧
    (∀ (sq : Nat → Nat → K) (U : Nat → Nat → Nat → Fdd.Cx K) (DF sel : K),
      fddMsOne tb inv fs nxseg pov method n (scaleAll c Y) (fun k i => r * sq k i) U DF sel
        = fddMsOne tb inv fs nxseg pov method n Y sq U DF sel) := by
  obtain ⟨hf, h0, h1, h2, he⟩ := C08_ms_gain_sd tb (inv := inv) (fs := fs) (nxseg := nxseg) (pov := pov)
    (n := n) (Y := Y) method hm hinv href c hc hG
  refine ⟨?_, fun sqk Sk N h => h.smul r (c * c) hr.le hrc, ?_, ?_⟩
  · intro k hk Uk Vk Sk h i j hi hj
    rw [h0] at hi
    rw [h1] at hj
    show toCx _ = _
    have hd : toCx ((sdPreGER (sdEst tb) inv fs nxseg pov method n Y).S.e i j k) = _ := h i j hi hj
    rw [he i j k hi hj hk, toCx_mul, toCx_ofReal, hd, h1, Finset.mul_sum]
    apply Finset.sum_congr rfl; intro t _
    show _ = Fdd.Cx.ofReal (c * c * Sk t) * Uk i t * (Vk j t).conj
    rw [Fdd.Cx.ofReal_mul (c * c)]; ring
  · intro sq U sel DF
    rw [hf, h0, h1, h2, svalPlace_smul]
    exact fddMpe_smul _ _ _ _ (svalPlace sq) (svecPlace U) sel DF r hr.ne'
  · intro sq U DF sel
    simp only [fddMsOne]
    rw [hf, h0, h1, h2, svalPlace_smul]
    exact fddOne_smul _ _ _ _ (svalPlace sq) (svecPlace U) DF sel r hr.ne'

end preger_sd

/-! ## C. `pLSCF_MS`: the normal equations on the merged array -/
section plscf_ms
open PV.Plscf

section congr
variable {K : Type} [Field K]

/-- `So` reads `Syo` on the array only (`Nch > 0` channels, `Nf` lines) -/
theorem So_congr (Nch Nf : Nat) (hN : 0 < Nch) (Om : Nat → Plscf.Cx K) (Syo Syo' : Nat → Nat → Plscf.Cx K)
    (h : ∀ c, c < Nch → ∀ f, f < Nf → Syo' c f = Syo c f) (i J : Nat) :
    So Nch Nf Om Syo' i J = So Nch Nf Om Syo i J := by
  unfold So
  apply sumTo_congr
  intro f hf
  simp only [Yo, h (J % Nch) (Nat.mod_lt J hN) f hf]

theorem To_congr (Nch Nf : Nat) (hN : 0 < Nch) (Om : Nat → Plscf.Cx K) (Syo Syo' : Nat → Nat → Plscf.Cx K)
    (h : ∀ c, c < Nch → ∀ f, f < Nf → Syo' c f = Syo c f) (I J : Nat) :
    To Nch Nf Om Syo' I J = To Nch Nf Om Syo I J := by
  unfold To
  apply sumTo_congr
  intro f hf
  simp only [Yo, h (J % Nch) (Nat.mod_lt J hN) f hf, h (I % Nch) (Nat.mod_lt I hN) f hf]

/-- the certificate of a returned order speaks about the spectra on the array only -/
theorem OrderCert.congr {Nch Nref Nf n : Nat} {hi : Bool} {Om : Nat → Plscf.Cx K}
    {Sy Sy' : Nat → Nat → Nat → Plscf.Cx K} {out : Plscf.OrderOut K} {X : Nat → Nat → Nat → K} {Z : Nat → Nat → K}
    (hN : 0 < Nch) (h : OrderCert Nch Nref Nf n hi Om Sy out X Z)
    (e : ∀ o, o < Nref → ∀ c, c < Nch → ∀ f, f < Nf → Sy' o c f = Sy o c f) :
    OrderCert Nch Nref Nf n hi Om Sy' out X Z where
  hX := by
    intro o ho i hi' J hJ
    rw [So_congr Nch Nf hN Om (Sy o) (Sy' o) (e o ho)]
    exact h.hX o ho i hi' J hJ
  hM := by
    intro I hI J hJ
    rw [h.hM I hI J hJ]
    unfold Mmat
    apply sumTo_congr
    intro o ho
    rw [To_congr Nch Nf hN Om (Sy o) (Sy' o) (e o ho)]
    congr 1
    apply sumTo_congr
    intro t _
    rw [So_congr Nch Nf hN Om (Sy o) (Sy' o) (e o ho)]
  hZ := h.hZ
  hbeta := by
    intro o ho i hi' c hc
    rw [h.hbeta o ho i hi' c hc]
    apply sumTo_congr
    intro J _
    rw [So_congr Nch Nf hN Om (Sy o) (Sy' o) (e o ho)]

end congr

variable {K : Type} [Field K] [LinearOrder K] [IsStrictOrderedRing K] [Inhabited K]

/-- **C08_gain_plscf_range — `C08_gain_plscf` with the gain relation required on the array only** (`Sy'` and
    `c·Sy` agree for `o < Nref`, `ch < Nch`, `f < Nf`; outside the array nothing is assumed): same state
    matrix, output matrix multiplied by `c`, identical column of `ac2mp_poly`. -/
theorem C08_gain_plscf_range (Nch Nref Nf n : Nat) (hN : 0 < Nch) (hi : Bool) (Om : Nat → Plscf.Cx K)
    (Sy Sy' : Nat → Nat → Nat → Plscf.Cx K) (out out' : Plscf.OrderOut K) (c : K) (hc : c ≠ 0)
    (hS : ∀ o, o < Nref → ∀ ch, ch < Nch → ∀ f, f < Nf → Sy' o ch f = csm c (Sy o ch f))
    (h : plscfOrder Nch Nref Nf n hi Om Sy = some out)
    (h' : plscfOrder Nch Nref Nf n hi Om Sy' = some out')
    (hRinj : ∀ y : Nat → K,
      (∀ i < n + 1, ∑ t ∈ range (n + 1), Ro Nf Om i t * y t = 0) → ∀ t < n + 1, y t = 0)
    (hinj : ∀ y : Nat → K,
      (∀ I < n * Nch, ∑ J ∈ range (n * Nch),
        (if hi then out.M I J else out.M (Nch + I) (Nch + J)) * y J = 0) → ∀ J < n * Nch, y J = 0)
    (A C : Mat K) (hac : rmfd2ac (adOf Nch n out.alpha) (bnOf Nch Nref n out.beta) = some (A, C)) :
    ∃ C', rmfd2ac (adOf Nch n out'.alpha) (bnOf Nch Nref n out'.beta) = some (A, C') ∧
      (∀ i, i < Nref → ∀ j, j < (n + 1) * Nch → C'.e i j = c * C.e i j) ∧
      ∀ (sqrt : K → K) (twoPi invdt : K) (cor : Bool) (invTau : K) (eigs : List (EigIn K)),
        ac2mpPoly sqrt twoPi invdt cor invTau C' eigs = ac2mpPoly sqrt twoPi invdt cor invTau C eigs := by
  obtain ⟨X, Z, cert⟩ := plscfOrder_sound Nch Nref Nf n hi Om Sy out h
  obtain ⟨X', Z', cert'⟩ := plscfOrder_sound Nch Nref Nf n hi Om Sy' out' h'
  have cert'' : OrderCert Nch Nref Nf n hi Om (fun o ch f => csm c (Sy o ch f)) out' X' Z' :=
    OrderCert.congr hN cert' (fun o ho ch hch f hf => (hS o ho ch hch f hf).symm)
  obtain ⟨_, hα, hβ⟩ := cert_gain_unique c hc cert cert'' hRinj hinj
  obtain ⟨C', h1, hr, hcc, he⟩ := rmfd2ac_gain Nch Nref n out.alpha out'.alpha out.beta out'.beta c
    hα hβ A C hac
  have hCr : C.r = Nref ∧ C.c = (n + 1) * Nch := by
    unfold rmfd2ac at hac
    dsimp only at hac
    split at hac
    · exact absurd hac (by simp)
    · injection hac with hac
      injection hac with _ h2
      rw [← h2]; exact ⟨rfl, rfl⟩
  refine ⟨C', h1, he, ?_⟩
  intro sqrt twoPi invdt cor invTau eigs
  exact ac2mpPoly_gain sqrt twoPi invdt cor invTau C C' c hc hr hcc
    (fun i hi' j hj => he i (hCr.1 ▸ hi') j (hCr.2 ▸ hj)) eigs

open PV.C04C13 in
/-- a spectral value of C13's model read as a pair of the pLSCF model -/
def toPx (z : CxS K) : Plscf.Cx K := ⟨z.re, z.im⟩

open PV.C04C13 in
/-- **C08_ms_gain_plscf_ms — `pLSCF_MS` under a common gain, from the per-setup records to the pole-table
    column of one order.**  `pLSCF_MS.run` hands `Sy = SD_PreGER(Y)` (all sensors × references × lines) to
    `pLSCF`: `Nref_pLSCF = Sy.shape[0]` (all sensors), `Nch_pLSCF = Sy.shape[1]` (references).  With every
    record multiplied by `g ≠ 0` the merged array is `g²·Sy` on the array (`C08_ms_gain_sd`); if the model of
    `pLSCF` returns for both arrays and C05's injectivity hypotheses hold: same state matrix, and for every
    recorded eigen-decomposition the column of `ac2mp_poly` — `fn`, `xi`, unit-normalised shapes over all
    sensors, `lam`, NaN pattern — is identical. -/
theorem C08_ms_gain_plscf_ms (tb : C04C13.Tables K) {inv : Mat (CxS K) → Mat (CxS K)} {fs : K} {nxseg : Nat} {pov : K}
    {nset : Nat} {Y : Nat → Setup K} (method : SdMethod) (hm : method ≠ .other) (hinv : InvContract inv)
    (href : ∀ ii, ii < nset → (Y ii).ref.r = (Y 0).ref.r) (g : K) (hg : g ≠ 0)
    (hG : ∀ k, k < nset → ∀ f, f < (sdPreGER (sdEst tb) inv fs nxseg pov method nset Y).S.n2 →
      ∃ W, IsLeftInv W (refBlock (Y 0).ref.r (gyy (sdEst tb) fs nxseg pov method Y) k f))
    (hN : 0 < (sdPreGER (sdEst tb) inv fs nxseg pov method nset Y).S.n1)
    (n : Nat) (hi : Bool) (Om : Nat → Plscf.Cx K) (out out' : Plscf.OrderOut K)
    (h : plscfOrder (sdPreGER (sdEst tb) inv fs nxseg pov method nset Y).S.n1
      (sdPreGER (sdEst tb) inv fs nxseg pov method nset Y).S.n0
      (sdPreGER (sdEst tb) inv fs nxseg pov method nset Y).S.n2 n hi Om
      (fun o ch f => toPx ((sdPreGER (sdEst tb) inv fs nxseg pov method nset Y).S.e o ch f)) = some out)
    (h' : plscfOrder (sdPreGER (sdEst tb) inv fs nxseg pov method nset (scaleAll g Y)).S.n1
      (sdPreGER (sdEst tb) inv fs nxseg pov method nset (scaleAll g Y)).S.n0
      (sdPreGER (sdEst tb) inv fs nxseg pov method nset (scaleAll g Y)).S.n2 n hi Om
      (fun o ch f => toPx ((sdPreGER (sdEst tb) inv fs nxseg pov method nset (scaleAll g Y)).S.e o ch f))
        = some out')
    (hRinj : ∀ y : Nat → K,
      (∀ i < n + 1, ∑ t ∈ range (n + 1),
        Ro (sdPreGER (sdEst tb) inv fs nxseg pov method nset Y).S.n2 Om i t * y t = 0) → ∀ t < n + 1, y t = 0)
    (hinj : ∀ y : Nat → K,
      (∀ I < n * (sdPreGER (sdEst tb) inv fs nxseg pov method nset Y).S.n1,
        ∑ J ∈ range (n * (sdPreGER (sdEst tb) inv fs nxseg pov method nset Y).S.n1),
        (if hi then out.M I J else out.M ((sdPreGER (sdEst tb) inv fs nxseg pov method nset Y).S.n1 + I)
          ((sdPreGER (sdEst tb) inv fs nxseg pov method nset Y).S.n1 + J)) * y J = 0) →
      ∀ J < n * (sdPreGER (sdEst tb) inv fs nxseg pov method nset Y).S.n1, y J = 0)
    (A C : Mat K)
    (hac : rmfd2ac (adOf (sdPreGER (sdEst tb) inv fs nxseg pov method nset Y).S.n1 n out.alpha)
      (bnOf (sdPreGER (sdEst tb) inv fs nxseg pov method nset Y).S.n1
        (sdPreGER (sdEst tb) inv fs nxseg pov method nset Y).S.n0 n out.beta) = some (A, C)) :
    ∃ C', rmfd2ac (adOf (sdPreGER (sdEst tb) inv fs nxseg pov method nset Y).S.n1 n out'.alpha)
        (bnOf (sdPreGER (sdEst tb) inv fs nxseg pov method nset Y).S.n1
          (sdPreGER (sdEst tb) inv fs nxseg pov method nset Y).S.n0 n out'.beta) = some (A, C') ∧
      ∀ (sqrt : K → K) (twoPi invdt : K) (cor : Bool) (invTau : K) (eigs : List (EigIn K)),
        ac2mpPoly sqrt twoPi invdt cor invTau C' eigs = ac2mpPoly sqrt twoPi invdt cor invTau C eigs := by
  obtain ⟨_, h0, h1, h2, he⟩ := C08_ms_gain_sd tb (inv := inv) (fs := fs) (nxseg := nxseg) (pov := pov)
    (n := nset) (Y := Y) method hm hinv href g hg hG
  rw [h0, h1, h2] at h'
  obtain ⟨C', hC', _, hcol⟩ := C08_gain_plscf_range _ _ _ n hN hi Om _ _ out out' (g * g)
    (mul_ne_zero hg hg)
    (fun o ho ch hch f hf => by
      show toPx _ = csm (g * g) (toPx _)
      rw [he o ch f ho hch hf]
      simp only [toPx, csm, CxS.mul_re, CxS.mul_im, CxS.ofReal_re, CxS.ofReal_im]
      congr 1 <;> ring)
    h h' hRinj hinj A C hac
  exact ⟨C', hC', hcol⟩

end plscf_ms

/-! ## D. `EFDD_MS` (method `"EFDD"`, the only one the multi-setup class offers) -/
section efdd_ms
open PV.Fdd PV.Efdd PV.C04C13
variable {K : Type} [Field K] [LinearOrder K] [IsStrictOrderedRing K]

/-- **C08_ms_gain_efdd_ms — `EFDD_MS` under a common gain, to the normalised correlation and what
    `EFDD_mpe` derives from it.**  The `"EFDD"` bell is built from the stored square roots of the singular values
    and the stored vectors only (it does not read the merged array again); with the stored square roots of
    the scaled run `r·Sval` (`r² = g²`: `C08_ms_gain_fdd_ms`) and the same stored vectors, the bell is `g²` times
    the bell on the same band, the normalised auto-correlation is the same sequence and `postFft` (crossings,
    extrema, `Td`, `fd`, decrement ratios) is identical. -/
theorem C08_ms_gain_efdd_ms (tb : C04C13.Tables K) (inv : Mat (CxS K) → Mat (CxS K)) (fs : K) (nxseg : Nat)
    (pov : K) (method : SdMethod) (nset : Nat) (Y : Nat → Setup K) (g : K) (hg : g ≠ 0) (r : K)
    (hrg : r * r = g * g) (nch cm nf : Nat) (dt : K)
    (Sval : Nat → Nat → Nat → K) (Svec : Nat → Nat → Nat → Fdd.Cx K) (phi : Nat → Fdd.Cx K)
    (sel DF MAClim : K) (twI : Nat → Fdd.Cx K) (rs : K) (sppk npmax : Nat) :
    postFft nf (normCorr (5 * nf) (ifftRe nf twI rs (sdofBell .EFDD nch cm nf dt
        (fun i j l => toCx ((sdPreGER (sdEst tb) inv fs nxseg pov method nset (scaleAll g Y)).S.e i j l))
        (fun i j l => r * Sval i j l) Svec phi sel DF MAClim))) dt sppk npmax
      = postFft nf (normCorr (5 * nf) (ifftRe nf twI rs (sdofBell .EFDD nch cm nf dt
        (fun i j l => toCx ((sdPreGER (sdEst tb) inv fs nxseg pov method nset Y).S.e i j l))
        Sval Svec phi sel DF MAClim))) dt sppk npmax := by
  have e : sdofBell .EFDD nch cm nf dt
      (fun i j l => toCx ((sdPreGER (sdEst tb) inv fs nxseg pov method nset (scaleAll g Y)).S.e i j l))
      (fun i j l => r * Sval i j l) Svec phi sel DF MAClim
      = sdofBell .EFDD nch cm nf dt
        (fun i j l => Fdd.Cx.smul (g * g)
          (toCx ((sdPreGER (sdEst tb) inv fs nxseg pov method nset Y).S.e i j l)))
        (fun i j l => r * Sval i j l) Svec phi sel DF MAClim := rfl
  rw [e]
  exact (PV.C07Bell.C07_scale_ifft .EFDD (Or.inr rfl) nch cm nf dt _ Sval Svec phi sel DF MAClim (g * g) r
    (mul_self_pos.mpr hg) hrg twI rs sppk npmax).2

example := C08_ms_gain_efdd_ms exTb C04.exInv 1 4 (1/2) .per 2 C04C13.exYs (-3) (by norm_num) 3 (by norm_num)

end efdd_ms

/-! ### Non-vacuity of part C -/
section ex_plscf_ms
open PV.C04 PV.C04C13 PV.Plscf PV.C05

-- `C08_gain_plscf_range` on C05's instance (`Sy' = 4·Sy` everywhere)
example : True := by
  obtain ⟨out, out', A, C, h, h', hM, hac⟩ := ex_plscf_runs
  have hinj : ∀ y : Nat → Rat, (∀ I < 1 * 1, ∑ J ∈ range (1 * 1),
      (if false = true then out.M I J else out.M (1 + I) (1 + J)) * y J = 0) → ∀ J < 1 * 1, y J = 0 := by
    intro y hy J hJ
    have := hy 0 (by decide)
    simp only [Nat.mul_one, Finset.sum_range_one, Bool.false_eq_true, if_false] at this
    have hJ0 : J = 0 := by omega
    subst hJ0
    exact (mul_eq_zero.mp this).resolve_left hM
  have := C08_gain_plscf_range 1 1 3 1 (by decide) false exOm exSy _ out out' 4 (by norm_num)
    (fun _ _ _ _ _ _ => rfl) h h' ex_Ro_inj hinj A C hac
  trivial

/-- an inverse routine meeting `np.linalg.inv`'s contract that is evaluable on `1 × 1` blocks -/
noncomputable def inv1 : Mat (CxS ℚ) → Mat (CxS ℚ) := fun G =>
  if G.r = 1 ∧ G.c = 1 ∧ G.e 0 0 ≠ 0 then ⟨1, 1, fun _ _ => ⟨(G.e 0 0).re / ((G.e 0 0).re * (G.e 0 0).re
      + (G.e 0 0).im * (G.e 0 0).im), -(G.e 0 0).im / ((G.e 0 0).re * (G.e 0 0).re + (G.e 0 0).im * (G.e 0 0).im)⟩⟩
  else exInv G

theorem inv1_contract : InvContract inv1 := by
  intro G hsq hex
  unfold inv1
  split_ifs with h
  · obtain ⟨hr, hc, h0⟩ := h
    refine ⟨hc.symm, hr.symm, ?_⟩
    intro i j hi hj
    rw [hc] at hi hj
    have hi0 : i = 0 := by omega
    have hj0 : j = 0 := by omega
    subst hi0 hj0
    have hpos : (G.e 0 0).re * (G.e 0 0).re + (G.e 0 0).im * (G.e 0 0).im ≠ 0 :=
      (C04C13.normSq_pos h0).ne'
    simp only [Mat.mul, sumTo_eq, hr, Finset.sum_range_one, if_pos]
    ext
    · simp only [CxS.mul_re]; show _ = (1 : ℚ)
      rw [div_mul_eq_mul_div, div_mul_eq_mul_div, ← sub_div, div_eq_one_iff_eq hpos]; ring
    · simp only [CxS.mul_im]; show _ = (0 : ℚ)
      rw [div_mul_eq_mul_div, div_mul_eq_mul_div, ← add_div, div_eq_zero_iff]; left; ring
  · exact exInv_contract G hsq hex

/-- the merged array of the two-setup cut of `Props/C04C13.lean` (3 sensors × 1 reference × 3 lines) as `pLSCF_MS`
    sees it, and the one of the records multiplied by `−3` -/
noncomputable def exSyM (Y : Nat → Setup ℚ) : Nat → Nat → Nat → Plscf.Cx ℚ := fun o ch f =>
  toPx ((sdPreGER (sdEst exTb) inv1 1 4 (1/2) .per 2 Y).S.e o ch f)

theorem ex_ms_plscf_runs :
    ∃ out out' A C, plscfOrder 1 3 3 1 false exOm (exSyM C04C13.exYs) = some out ∧
      plscfOrder 1 3 3 1 false exOm (exSyM (scaleAll (-3) C04C13.exYs)) = some out' ∧
      out.M 1 1 ≠ 0 ∧
      rmfd2ac (adOf 1 1 out.alpha) (bnOf 1 3 1 out.beta) = some (A, C) := by
  have h1 : ((plscfOrder 1 3 3 1 false exOm (exSyM C04C13.exYs)).bind fun out =>
      (rmfd2ac (adOf 1 1 out.alpha) (bnOf 1 3 1 out.beta)).map fun _ => decide (out.M 1 1 ≠ 0))
        = some true := by decide +kernel
  have h2 : (plscfOrder 1 3 3 1 false exOm (exSyM (scaleAll (-3) C04C13.exYs))).isSome = true := by decide +kernel
  cases ho : plscfOrder 1 3 3 1 false exOm (exSyM C04C13.exYs) with
  | none => rw [ho] at h1; simp at h1
  | some out =>
    rw [ho] at h1
    simp only [Option.bind_some] at h1
    cases hac : rmfd2ac (adOf 1 1 out.alpha) (bnOf 1 3 1 out.beta) with
    | none => rw [hac] at h1; simp at h1
    | some AC =>
      rw [hac] at h1
      simp only [Option.map_some, Option.some.injEq, decide_eq_true_eq] at h1
      obtain ⟨out', ho'⟩ := Option.isSome_iff_exists.mp h2
      exact ⟨out, out', AC.1, AC.2, rfl, ho', h1, hac⟩

theorem exRefBlocks_per1 : ∀ k, k < 2 → ∀ f, f < 3 →
    (refBlock 1 (gyy (sdEst exTb) 1 4 (1/2) .per C04C13.exYs) k f).e 0 0 ≠ 0 := by decide +kernel

example : True := by
  obtain ⟨out, out', A, C, h, h', hM, hac⟩ := ex_ms_plscf_runs
  have hinj : ∀ y : Nat → Rat, (∀ I < 1 * 1, ∑ J ∈ range (1 * 1),
      (if false = true then out.M I J else out.M (1 + I) (1 + J)) * y J = 0) → ∀ J < 1 * 1, y J = 0 := by
    intro y hy J hJ
    have := hy 0 (by decide)
    simp only [Nat.mul_one, Finset.sum_range_one, Bool.false_eq_true, if_false] at this
    have hJ0 : J = 0 := by omega
    subst hJ0
    exact (mul_eq_zero.mp this).resolve_left hM
  have hn : (sdPreGER (sdEst exTb) inv1 1 4 (1/2) .per 2 C04C13.exYs).S.n0 = 3
      ∧ (sdPreGER (sdEst exTb) inv1 1 4 (1/2) .per 2 C04C13.exYs).S.n1 = 1
      ∧ (sdPreGER (sdEst exTb) inv1 1 4 (1/2) .per 2 C04C13.exYs).S.n2 = 3
      ∧ (sdPreGER (sdEst exTb) inv1 1 4 (1/2) .per 2 (scaleAll (-3) C04C13.exYs)).S.n0 = 3
      ∧ (sdPreGER (sdEst exTb) inv1 1 4 (1/2) .per 2 (scaleAll (-3) C04C13.exYs)).S.n1 = 1
      ∧ (sdPreGER (sdEst exTb) inv1 1 4 (1/2) .per 2 (scaleAll (-3) C04C13.exYs)).S.n2 = 3 := by
    decide +kernel
  obtain ⟨e0, e1, e2, f0, f1, f2⟩ := hn
  have T := C08_ms_gain_plscf_ms exTb (inv := inv1) (fs := 1) (nxseg := 4) (pov := 1/2) (nset := 2)
    (Y := C04C13.exYs) .per (by decide) inv1_contract (fun _ _ => rfl) (-3) (by norm_num)
    (fun k hk f hf => one_by_one _ (refBlock_r (Y := C04C13.exYs) (sdEst_shape exTb) (by decide) k f)
      (refBlock_c (Y := C04C13.exYs) (sdEst_shape exTb) (by decide) k f)
      (exRefBlocks_per1 k hk f (by rw [e2] at hf; exact hf)))
  rw [e0, e1, e2, f0, f1, f2] at T
  have := T (by decide) 1 false exOm out out' h h' ex_Ro_inj hinj A C hac
  trivial

end ex_plscf_ms

/-! ### Non-vacuity of part B -/
section ex_preger
open PV.C04 PV.C04C13

-- the toy estimator and records of `Props/C04.lean` (two setups, 1 + 1 and 1 + 2 channels), gain `c = −3`
example := C08_ms_gain_preger (K := ℚ) (sd := exSd) (inv := exInv) (fs := 100) (nxseg := 8) (pov := 1/4)
    (method := .per) (n := 2) (Y := exY) id id exShape exHomog exInv_contract (by decide)
    (fun _ _ => rfl) (-3) (by norm_num)
    (fun k hk f _ => one_by_one _ (refBlock_r (Y := exY) exShape (by decide) k f)
        (refBlock_c (Y := exY) exShape (by decide) k f) (by
      rw [refBlock_e exShape (by decide) k f 0 0 (show 0 < 1 by decide)]
      simp only [estRef]
      show (exSd _ _ (exY 0).ref).S.e 0 0 f ≠ 0
      rw [exRefSpec (sdArgs 100 8 .per (1/4)) (yAll exY k) rfl (by
        have : k = 0 ∨ k = 1 := by omega
        rcases this with h | h <;> subst h <;> rfl) f]
      simp only [sdArgs]
      positivity))

-- C13's model of `SD_est` on the two-setup cut of `Props/C04C13.lean` (8 samples, `nxseg = 4`, three lines)
theorem exRefBlocks_per : ∀ k, k < 2 → ∀ f, f < 3 →
    (refBlock 1 (gyy (sdEst exTb) 1 4 (1/2) .per exYs) k f).e 0 0 ≠ 0 := by decide +kernel
theorem exRefBlocks_cor : ∀ k, k < 2 → ∀ f, f < 3 →
    (refBlock 1 (gyy (sdEst exTb) 1 4 (1/2) .cor exYs) k f).e 0 0 ≠ 0 := by decide +kernel

example := C08_ms_gain_sd exTb (inv := exInv) (fs := 1) (nxseg := 4) (pov := 1/2) (n := 2) (Y := exYs)
  .per (by decide) exInv_contract (fun _ _ => rfl) (-3) (by norm_num)
  (fun k hk f hf => one_by_one _ (refBlock_r (Y := exYs) (sdEst_shape exTb) (by decide) k f)
    (refBlock_c (Y := exYs) (sdEst_shape exTb) (by decide) k f) (exRefBlocks_per k hk f hf))
example := C08_ms_gain_sd exTb (inv := exInv) (fs := 1) (nxseg := 4) (pov := 1/2) (n := 2) (Y := exYs)
  .cor (by decide) exInv_contract (fun _ _ => rfl) (-3) (by norm_num)
  (fun k hk f hf => one_by_one _ (refBlock_r (Y := exYs) (sdEst_shape exTb) (by decide) k f)
    (refBlock_c (Y := exYs) (sdEst_shape exTb) (by decide) k f) (exRefBlocks_cor k hk f hf))
example := C08_ms_gain_fdd_ms exTb (inv := exInv) (fs := 1) (nxseg := 4) (pov := 1/2) (n := 2) (Y := exYs)
  .per (by decide) exInv_contract (fun _ _ => rfl) (-3) (by norm_num)
  (fun k hk f hf => one_by_one _ (refBlock_r (Y := exYs) (sdEst_shape exTb) (by decide) k f)
    (refBlock_c (Y := exYs) (sdEst_shape exTb) (by decide) k f) (exRefBlocks_per k hk f hf)) 3 (by norm_num) (by norm_num)

end ex_preger

end PV.C08
