import PyomaVerif.Lemmas.HcAll
import PyomaVerif.Props.C10
/-!
# C09 for all six classes, uniformly — and its composition with C10

`Props/C09C18.lean` spells "kept ⇔ passes every enabled criterion, read with the library's real
MPC/MPD" out for SSIdat (three tables) and pLSCF (one table).  Here the statement is ONE theorem over
the list `classes` of (program regenerated from `/repo`, required result fields, which flags exist):

* `C09_seq_all` — the sequencing obligations of all six programs, all flag combinations (kernel `decide`);
* `C09_kept_iff_all` — every result field a class returns is the unfiltered table blanked exactly at
  the poles failing an enabled criterion (`FiltOf`), absent covariances stay `None`;
* `C09_common_mask` / `C09_nan_pattern` — one NaN pattern for all returned tables of a run;
* `C10_labels_of_kept` — the label table of the run is `SC_apply` of the three *filtered* tables the
  class returns; hence (with `C10_label_iff`, `C10_nan_never_stable`) a pole is labelled stable iff it
  is a kept pole whose first nearest kept pole of the previous order is within the three tolerances;
  a pole removed by a hard criterion is never labelled stable and never is the reference;
* a concrete 2 orders × 3 poles instance on which the statement tells kept / removed / stable poles
  apart, and on which switching the conjugate criterion changes a label.

Result fields are looked up in the regenerated program (`retVar P "<field>"`); no local variable name
of a `run()` appears.
-/
namespace PV.C09All
open PV PV.Hc PV.HcFn PV.C09 PV.C09C18 PV.C10

/-- a class of the library: its translated `run()` body, the result fields it must return, and whether
    it computes uncertainties at all (the `calc_unc` flag exists for the SSI classes only) -/
structure ClassSpec where
  name : String
  prog : ClassProg
  required : List String
  hasCov : Bool

/-- the six classes, over the programs regenerated from `/repo` on every run -/
def classes : List ClassSpec :=
  [⟨"SSIdat", Gen.prog_SSIdat, requiredSSI, true⟩,
   ⟨"SSIcov", Gen.prog_SSIcov, requiredSSI, true⟩,
   ⟨"SSIdat_MS", Gen.prog_SSIdat_MS, requiredSSI, true⟩,
   ⟨"SSIcov_MS", Gen.prog_SSIcov_MS, requiredSSI, true⟩,
   ⟨"pLSCF", Gen.prog_pLSCF, requiredPLSCF, false⟩,
   ⟨"pLSCF_MS", Gen.prog_pLSCF_MS, requiredPLSCF, false⟩]

/-- the flag combination exists for the class (`covOn` only where uncertainties can be computed) -/
def flagOk (hasCov covOn : Bool) : Bool := hasCov || !covOn

/-- **All sequencing obligations at once**: six programs × every flag combination that exists. -/
theorem C09_seq_all : ∀ cl ∈ classes, ∀ conjOn covOn : Bool, flagOk cl.hasCov covOn = true →
    check cl.prog cl.required conjOn covOn = true := by decide

/-- the three pole tables `SC_apply` reads are required result fields of every class -/
theorem required_pole_fields : ∀ cl ∈ classes,
    "Fn_poles" ∈ cl.required ∧ "Xi_poles" ∈ cl.required ∧ "Phi_poles" ∈ cl.required := by decide

variable {Idx : Type}

/-- the concrete run of a class under a configuration, on the data `p` -/
noncomputable def runOf (cl : ClassSpec) (conjOn covOn : Bool) (p : Params Idx) : Option (CEnv Idx Cell) :=
  crun (semIndicators p) (initCEnv (semIndicators p) covOn cl.prog.init) (select conjOn covOn cl.prog.prog)

/-- **C09, all six classes, every returned field, every flag combination.**  The run terminates;
    every required field is in the result; and for every tracked field `(f, x)` the class returns:
    an absent covariance is `None`, any other table `T` has `T i = some c` iff the unfiltered cell is
    `c` and the pole passes every enabled criterion (read with the library's MPC / MPD). -/
theorem C09_kept_iff_all (cl : ClassSpec) (hcl : cl ∈ classes) (conjOn covOn : Bool)
    (hflag : flagOk cl.hasCov covOn = true) (p : Params Idx) :
    ∃ e', runOf cl conjOn covOn p = some e' ∧
      (∀ f ∈ cl.required, (f, retVar cl.prog f) ∈ cl.prog.ret) ∧
      (∀ f x o, (f, x) ∈ cl.prog.ret → fieldTbl f = some o →
        if isCovTbl o && !covOn then e' x = some CVal.none
        else ∃ T, e' x = some (CVal.tbl T) ∧ FiltOf p conjOn covOn o T) := by
  have hchk := C09_seq_all cl hcl conjOn covOn hflag
  obtain ⟨e', he', hkept⟩ := kept_iff_of_check cl.prog cl.required conjOn covOn hchk p
  obtain ⟨e'', he'', hret, _⟩ := check_sound cl.prog cl.required conjOn covOn hchk (semIndicators p)
  have hee : e'' = e' := Option.some.inj (he''.symm.trans he')
  subst hee
  refine ⟨e'', he', fun f hf => required_of_check cl.prog cl.required conjOn covOn hchk f hf, ?_⟩
  intro f x o hmem hf
  split
  · rename_i hc
    have h := hret f x o hmem hf
    rwa [if_pos hc] at h
  · rename_i hc
    have hc' : (isCovTbl o && !covOn) = false := by simpa using hc
    exact hkept f x o hmem hf hc'

/-- the same, for a required field looked up by name -/
theorem C09_kept_iff_field (cl : ClassSpec) (hcl : cl ∈ classes) (conjOn covOn : Bool)
    (hflag : flagOk cl.hasCov covOn = true) (p : Params Idx) (f : String) (hf : f ∈ cl.required)
    (o : Tbl) (ho : fieldTbl f = some o) (hpres : (isCovTbl o && !covOn) = false) :
    ∃ e' T, runOf cl conjOn covOn p = some e' ∧ e' (retVar cl.prog f) = some (CVal.tbl T) ∧
      FiltOf p conjOn covOn o T := by
  obtain ⟨e', he', hreq, hall⟩ := C09_kept_iff_all cl hcl conjOn covOn hflag p
  have h := hall f (retVar cl.prog f) o (hreq f hf) ho
  rw [if_neg (by simp [hpres])] at h
  obtain ⟨T, hT, hF⟩ := h
  exact ⟨e', T, he', hT, hF⟩

/-- **One NaN pattern.**  Every returned table is NaN exactly where its unfiltered table is NaN or the
    pole fails an enabled criterion — the same predicate `Kept` for every table of the run. -/
theorem C09_nan_pattern (cl : ClassSpec) (hcl : cl ∈ classes) (conjOn covOn : Bool)
    (hflag : flagOk cl.hasCov covOn = true) (p : Params Idx) :
    ∃ e', runOf cl conjOn covOn p = some e' ∧
      ∀ f x o, (f, x) ∈ cl.prog.ret → fieldTbl f = some o → (isCovTbl o && !covOn) = false →
        ∃ T, e' x = some (CVal.tbl T) ∧ ∀ i, T i = none ↔ (p.orig o i = none ∨ ¬ Kept p conjOn covOn i) := by
  obtain ⟨e', he', _, hall⟩ := C09_kept_iff_all cl hcl conjOn covOn hflag p
  refine ⟨e', he', ?_⟩
  intro f x o hmem hf hpres
  have h := hall f x o hmem hf
  rw [if_neg (by simp [hpres])] at h
  obtain ⟨T, hT, hF⟩ := h
  exact ⟨T, hT, hF.nan_iff⟩

/-- **Corollary: all returned tables of one run share ONE NaN pattern**, cell-wise: for any two
    returned, present tables, wherever their unfiltered tables are NaN together, the returned tables
    are NaN together. -/
theorem C09_common_mask (cl : ClassSpec) (hcl : cl ∈ classes) (conjOn covOn : Bool)
    (hflag : flagOk cl.hasCov covOn = true) (p : Params Idx) :
    ∃ e', runOf cl conjOn covOn p = some e' ∧
      ∀ f₁ x₁ o₁ f₂ x₂ o₂, (f₁, x₁) ∈ cl.prog.ret → (f₂, x₂) ∈ cl.prog.ret →
        fieldTbl f₁ = some o₁ → fieldTbl f₂ = some o₂ →
        (isCovTbl o₁ && !covOn) = false → (isCovTbl o₂ && !covOn) = false →
        ∃ T₁ T₂, e' x₁ = some (CVal.tbl T₁) ∧ e' x₂ = some (CVal.tbl T₂) ∧
          ∀ i, (p.orig o₁ i = none ↔ p.orig o₂ i = none) → (T₁ i = none ↔ T₂ i = none) := by
  obtain ⟨e', he', hall⟩ := C09_nan_pattern cl hcl conjOn covOn hflag p
  refine ⟨e', he', ?_⟩
  intro f₁ x₁ o₁ f₂ x₂ o₂ m₁ m₂ h₁ h₂ p₁ p₂
  obtain ⟨T₁, hT₁, n₁⟩ := hall f₁ x₁ o₁ m₁ h₁ p₁
  obtain ⟨T₂, hT₂, n₂⟩ := hall f₂ x₂ o₂ m₂ h₂ p₂
  refine ⟨T₁, T₂, hT₁, hT₂, ?_⟩
  intro i hi
  rw [n₁ i, n₂ i, hi]

/-! ## Composition with C10: the labels of a run -/

/-- **C10 ∘ C09.**  For every class, every flag combination and all data: the run terminates; the
    three pole tables it returns are the filtered ones (`FiltOf`); the variable receiving
    `gen.SC_apply(...)` was computed from exactly these three returned tables; and whenever that call
    — on `r` pole rows, `c` order columns, `d` shape components, any `ordmin`, `ordmax`, `step`,
    tolerances — returns `Lab`:

    * `Lab[i, o] = 1` iff `o ≥ 1`, column `o` is visited and `StableKept`: the pole passes all enabled
      hard criteria and the first nearest **kept** pole of column `o − 1` is within the three tolerances;
    * a pole removed by a hard criterion is never labelled stable;
    * a pole removed by a hard criterion is NaN in the frequency column `SC_apply` searches, so it is
      never the reference of a pole of the next order. -/
theorem C10_labels_of_kept (cl : ClassSpec) (hcl : cl ∈ classes) (conjOn covOn : Bool)
    (hflag : flagOk cl.hasCov covOn = true) (p : Params (Nat × Nat))
    (r c d ordmin ordmax step : Nat) (eF eX eP : Rat) :
    ∃ e' Tf Tx Tp, runOf cl conjOn covOn p = some e' ∧
      e' (retVar cl.prog "Fn_poles") = some (CVal.tbl Tf) ∧ FiltOf p conjOn covOn .fn Tf ∧
      e' (retVar cl.prog "Xi_poles") = some (CVal.tbl Tx) ∧ FiltOf p conjOn covOn .xi Tx ∧
      e' (retVar cl.prog "Phi_poles") = some (CVal.tbl Tp) ∧ FiltOf p conjOn covOn .phi Tp ∧
      e' cl.prog.lab = some (CVal.lst [some Tf, some Tx, some Tp]) ∧
      ∀ Lab, scApply (toMat r c Tf) (toMat r c Tx) (toTen r c d Tp) ordmin ordmax step eF eX eP = .ok Lab →
        ∀ i o, i < r →
          (Lab.e i o = 1 ↔ 1 ≤ o ∧ Visited ordmin ordmax step o ∧ StableKept p conjOn covOn r d eF eX eP o i) ∧
          (¬ Kept p conjOn covOn (i, o) → Lab.e i o = 0) ∧
          (¬ Kept p conjOn covOn (i, o) → ∀ f f', ¬ IsFirstNearest (fun j => (toMat r c Tf).e j o) r f i f') := by
  have hchk := C09_seq_all cl hcl conjOn covOn hflag
  obtain ⟨e', he', hret, hlab⟩ := check_sound cl.prog cl.required conjOn covOn hchk (semIndicators p)
  have hreq : ∀ f, f ∈ cl.required → (f, retVar cl.prog f) ∈ cl.prog.ret :=
    fun f hf => required_of_check cl.prog cl.required conjOn covOn hchk f hf
  have hmemreq := required_pole_fields cl hcl
  have filt : ∀ o, FiltOf p conjOn covOn o (denoteTbl (semIndicators p) o (enabled conjOn covOn)) := by
    intro o i cc
    rw [denoteTbl_iff, enabled_iff]
    rfl
  have hF := hret "Fn_poles" _ .fn (hreq _ hmemreq.1) rfl
  have hX := hret "Xi_poles" _ .xi (hreq _ hmemreq.2.1) rfl
  have hP := hret "Phi_poles" _ .phi (hreq _ hmemreq.2.2) rfl
  rw [if_neg (by simp [isCovTbl])] at hF hX hP
  refine ⟨e', _, _, _, he', hF, filt .fn, hX, filt .xi, hP, filt .phi, hlab, ?_⟩
  intro Lab hLab i o hi
  have hi' : i < (toMat r c (denoteTbl (semIndicators p) .fn (enabled conjOn covOn))).r := hi
  refine ⟨?_, ?_, ?_⟩
  · rw [C10_label_iff _ _ _ _ _ _ _ _ _ hLab i o hi', stable_iff (filt .fn) (filt .xi) (filt .phi)]
  · intro hk
    exact C10_nan_never_stable _ _ _ _ _ _ _ _ _ hLab i o hi'
      (Or.inl (toMat_none_of_not_kept (filt .fn) r c i o hk))
  · intro hk f f' hn
    have h1 : (toMat r c (denoteTbl (semIndicators p) .fn (enabled conjOn covOn))).e i o = some f' := hn.2.1
    rw [toMat_none_of_not_kept (filt .fn) r c i o hk] at h1
    cases h1

/-- the reference pole of a stable pole is a kept pole (named form of the third bullet): if `(i, o)` is
    labelled stable, its reference `j` in column `o − 1` passes every enabled hard criterion. -/
theorem C10_reference_is_kept {p : Params (Nat × Nat)} {conjOn covOn : Bool} {r d : Nat} {eF eX eP : Rat}
    {o i : Nat} (h : StableKept p conjOn covOn r d eF eX eP o i) :
    Kept p conjOn covOn (i, o) ∧ ∃ j, j < r ∧ Kept p conjOn covOn (j, o - 1) := by
  obtain ⟨hk, _, j, _, _, hn, _⟩ := h
  exact ⟨hk, j, hn.1, hn.2.1⟩

/-! ## Non-vacuity: 2 orders × 3 poles, rational values

| cell `(i, o)` | λ | f | ξ | shape | |
|---|---|---|---|---|---|
| (0,0) | −1+10i | 2 | 1/50 | (1, 1/2) | kept |
| (1,0) | −3+31i | 5 | 1/100 | (1, 1/2) | no conjugate anywhere: removed iff `conj` is on |
| (2,0) | −1−10i | 2 | 1/50 | (1, 1/2) | kept |
| (0,1) | −1+10i | 2+1/100 | 1/50+1/10000 | (1, 1/2+i/100) | kept, stable against (0,0) |
| (1,1) | −3+32i | 5 | 1/100 | (1, 1/2) | kept; stable iff (1,0) is kept, i.e. iff `conj` is off |
| (2,1) | −3−32i | 5 | 1/5 | (1, 1/2) | damping ≥ ξ_max: removed, never stable |

`mpd_lim = 2 ≥ π/2` (not binding), `ξ_max = 1/10`, `mpc_lim = 7/10`; tolerances 1/100, 1/20, 1/50. -/
section example_
def exIdx : List (Nat × Nat) := [(0, 0), (1, 0), (2, 0), (0, 1), (1, 1), (2, 1)]

def exLam : Nat × Nat → Cx Rat
  | (0, 0) => ⟨-1, 10⟩ | (1, 0) => ⟨-3, 31⟩ | (2, 0) => ⟨-1, -10⟩
  | (0, 1) => ⟨-1, 10⟩ | (1, 1) => ⟨-3, 32⟩ | _ => ⟨-3, -32⟩
def exF : Nat × Nat → Rat
  | (0, 0) => 2 | (1, 0) => 5 | (2, 0) => 2 | (0, 1) => 2 + 1 / 100 | _ => 5
def exX : Nat × Nat → Rat
  | (0, 0) => 1 / 50 | (1, 0) => 1 / 100 | (2, 0) => 1 / 50
  | (0, 1) => 1 / 50 + 1 / 10000 | (1, 1) => 1 / 100 | _ => 1 / 5
def exV : Nat × Nat → Nat → Cx Rat
  | (0, 1), k => if k = 0 then ⟨1, 0⟩ else ⟨1 / 2, 1 / 100⟩
  | _, k => if k = 0 then ⟨1, 0⟩ else ⟨1 / 2, 0⟩

def exOrig : Tbl → Nat × Nat → Option Cell
  | .fn, x => some (.real (exF x))
  | .xi, x => some (.real (exX x))
  | .phi, x => some (.shape 2 (exV x))
  | .lam, x => some (.cplx (exLam x))
  | _, _ => none

/-- `HC_conj` on the six cells: the value and its conjugate both occur in the table -/
def exConjT (t : Nat × Nat → Option Cell) (x : Nat × Nat) : Bool :=
  match t x with
  | some (.cplx z) =>
    exIdx.any (fun y => match t y with
      | some (.cplx w) => decide (w.re = z.re) && decide (w.im = -z.im)
      | _ => false)
  | _ => false

noncomputable def exP : Params (Nat × Nat) where
  orig := exOrig
  xiMax := 1 / 10
  mpcLim := 7 / 10
  mpdLim := 2
  covMax := 1
  dir := fun _ _ => (1, -1)
  conjT := exConjT

/-- Boolean `Kept` of the instance -/
def exKept (conjOn : Bool) (x : Nat × Nat) : Bool := keptB exOrig exConjT (1 / 10) (7 / 10) conjOn x

theorem exKept_iff (conjOn : Bool) (x : Nat × Nat) : Kept exP conjOn false x ↔ exKept conjOn x = true :=
  kept_iff_keptB exP (by decide +kernel) conjOn x

/-- the filtered tables of the instance, computably -/
def exT (conjOn : Bool) (o : Tbl) : Nat × Nat → Option Cell :=
  fun x => if exKept conjOn x then exOrig o x else none

theorem exT_filt (conjOn : Bool) (o : Tbl) : FiltOf exP conjOn false o (exT conjOn o) := by
  intro x c
  rw [exKept_iff]
  unfold exT
  by_cases h : exKept conjOn x = true
  · simp only [h, if_true, and_true]; rfl
  · simp [h]

/-- the labels `SC_apply` computes from the filtered tables of the instance (orders 0..1, step 1) -/
def exLab (conjOn : Bool) (i o : Nat) : Nat :=
  match scApply (toMat 3 2 (exT conjOn .fn)) (toMat 3 2 (exT conjOn .xi)) (toTen 3 2 2 (exT conjOn .phi))
      0 1 1 (1 / 100) (1 / 20) (1 / 50) with
  | .ok L => L.e i o
  | .error _ => 7

/-- which poles are kept: all but (2,1) [damping] and — with `conj` on — (1,0) [no conjugate] -/
theorem ex_kept :
    (exIdx.map (exKept true) = [true, false, true, true, true, false]) ∧
    (exIdx.map (exKept false) = [true, true, true, true, true, false]) := by decide +kernel

/-- the labels: (0,1) stable; (2,1) never; (1,1) stable exactly when its reference (1,0) is kept -/
theorem ex_labels :
    exLab true 0 1 = 1 ∧ exLab true 1 1 = 0 ∧ exLab true 2 1 = 0 ∧
    exLab false 0 1 = 1 ∧ exLab false 1 1 = 1 ∧ exLab false 2 1 = 0 := by decide +kernel

/-- **the statement distinguishes kept / removed / stable poles** on the instance, for every class:
    through `C10_labels_of_kept` the labels computed from the run's filtered tables decide `StableKept`. -/
theorem ex_distinguishes (cl : ClassSpec) (hcl : cl ∈ classes) :
    -- `conj` on: (1,0) is removed, (2,1) is removed, the others are kept
    (¬ Kept exP true false (1, 0) ∧ ¬ Kept exP true false (2, 1) ∧ Kept exP true false (1, 1)
      ∧ Kept exP true false (0, 1)) ∧
    -- (0,1) is stable, (1,1) is kept but not stable (its nearest kept predecessor is 3 Hz away),
    -- the removed (2,1) is not stable
    (StableKept exP true false 3 2 (1 / 100) (1 / 20) (1 / 50) 1 0 ∧
      ¬ StableKept exP true false 3 2 (1 / 100) (1 / 20) (1 / 50) 1 1 ∧
      ¬ StableKept exP true false 3 2 (1 / 100) (1 / 20) (1 / 50) 1 2) ∧
    -- `conj` off: (1,0) is kept and (1,1) becomes stable
    (Kept exP false false (1, 0) ∧ StableKept exP false false 3 2 (1 / 100) (1 / 20) (1 / 50) 1 1) := by
  have hflag : flagOk cl.hasCov false = true := by simp [flagOk]
  have key : ∀ conjOn i, i < 3 → (exLab conjOn i 1 = 1 ↔
      StableKept exP conjOn false 3 2 (1 / 100) (1 / 20) (1 / 50) 1 i) := by
    intro conjOn i hi
    obtain ⟨e', Tf, Tx, Tp, _, _, hTf, _, hTx, _, hTp, _, hall⟩ :=
      C10_labels_of_kept cl hcl conjOn false hflag exP 3 2 2 0 1 1 (1 / 100) (1 / 20) (1 / 50)
    rw [hTf.unique (exT_filt conjOn .fn), hTx.unique (exT_filt conjOn .xi),
      hTp.unique (exT_filt conjOn .phi)] at hall
    unfold exLab
    cases hres : scApply (toMat 3 2 (exT conjOn .fn)) (toMat 3 2 (exT conjOn .xi))
        (toTen 3 2 2 (exT conjOn .phi)) 0 1 1 (1 / 100) (1 / 20) (1 / 50) with
    | error e =>
      exfalso
      rcases (C10_error_iff _ _ _ _ _ _ _ _ _ e).mp hres with ⟨h, _⟩ | ⟨_, _, k, hle, hc⟩
      · cases h
      · have hc' : 2 ≤ (0 + k * 1) / 1 := hc
        omega
    | ok L =>
      simp only []
      rw [(hall L hres i 1 hi).1]
      constructor
      · intro h; exact h.2.2
      · intro h; exact ⟨le_refl _, (C10_visited_step_one 0 1 1).mpr ⟨by omega, le_refl _⟩, h⟩
  have hk := ex_kept
  have hl := ex_labels
  refine ⟨⟨?_, ?_, ?_, ?_⟩, ⟨?_, ?_, ?_⟩, ?_, ?_⟩
  · rw [exKept_iff]; decide +kernel
  · rw [exKept_iff]; decide +kernel
  · rw [exKept_iff]; decide +kernel
  · rw [exKept_iff]; decide +kernel
  · exact (key true 0 (by omega)).mp hl.1
  · intro h; have := (key true 1 (by omega)).mpr h; rw [hl.2.1] at this; cases this
  · intro h; have := (key true 2 (by omega)).mpr h; rw [hl.2.2.1] at this; cases this
  · rw [exKept_iff]; decide +kernel
  · exact (key false 1 (by omega)).mp hl.2.2.2.2.1

/-- the hypotheses of the theorems are satisfiable: the list is the six classes, every flag
    combination of the SSI classes and the two of the pLSCF classes are allowed -/
example : classes.length = 6 ∧ (classes.map (·.name)) =
    ["SSIdat", "SSIcov", "SSIdat_MS", "SSIcov_MS", "pLSCF", "pLSCF_MS"] ∧
    (classes.filter (fun cl => flagOk cl.hasCov true)).length = 4 ∧
    (classes.filter (fun cl => flagOk cl.hasCov false)).length = 6 := by decide
end example_

end PV.C09All
